"""C11 — stochastic quantizers are unbiased, bounded, finite and accounted.

Level of comparison.  The property fixes the LAW of the quantizers, not their random stream: which
key a client gets, how a key is turned into draws, how draws are turned into up/down decisions and
what an exact tie yields are all free.  Nothing in this check predicts, intercepts or compares keys
or draws.  What is compared with the exact Lean model (exact rationals, no draws):
  * per coordinate: the output is one of the two admissible values the model lists (uniform /
    binary: the grid levels just below / above; TernGrad: 0 or s*sign(c); DRIVE: the formula);
  * aggregators: cumulative bit count, None-ness and leaf sizes of the aggregate, distance of the
    aggregate from the model's exact weighted mean.
Everything else is an oracle on values returned by the public API (and, when every client is routed
exactly once through the public module-level helpers `*_quantize_pytree`, `drive_pytree`,
`walsh_hadamard.*_pytree`, on the values those helpers returned; if an implementation does not use
them, those clauses are skipped, never reported).

Case kinds
  quant     one call of a module-level quantizer (uniform / binary / tern / drive) on one array
  agg       a history of rounds of ONE aggregator object (uniform, uniform_arith, rotated, drive, tern)
            on generated client trees (jax arrays owned by the caller) / weights / feeds / faults;
            `identical` cases are the independence probes (all clients hold the same off-grid tree)
  bias      expectation over the key, estimated over `n` keys (vmap); judged with a Bernstein bound
            (failure probability 1e-10) computed from the exact two-point distribution; stratified
  grid_big  a large on-grid vector (zeros and one 1): fixed points also for keys with a draw `u == 0.0`
  tie_big   a large vector of 0.5's between 0 and 1: both outcomes of an exact tie are accepted;
            levels, end points and the fraction of upper levels (6 sigma of 2^22 fair coins)
  range     float32 range probes (max - min, sum of squares overflow): real code only, float-only

Oracle: neighbouring levels / range / one-step error / finiteness / fixed points / TernGrad level
set / DRIVE formula / aggregate = weighted mean of the per-client quantised trees, each on ITS grid /
weighted one-step error bound / different randomness for different clients and rounds (equal
quantised values of identical off-grid updates; state key changes every round) / bit increments /
caller's arrays still valid and re-aggregation identical / retry, streaming and fresh-object
equalities / expectation (bias cases).
"""
import math
from fractions import Fraction as Fr

import numpy as np

from vlib import core
from vlib.core import Outcome, line

F32_MAX = Fr(float(np.finfo(np.float32).max))
LEVELS = [2, 3, 4, 7, 16, 256]
SIZES = [1, 2, 3, 5, 8, 17, 64]
SHAPES = [[], [1], [3], [5], [8], [17], [64], [3, 4], [2, 3, 5], [4, 2]]


def f32(x):
  return float(np.float32(x))


def fr_list(a):
  return [Fr(float(x)) for x in np.asarray(a, dtype=np.float64).reshape(-1)]


def tol(scale, val=0):
  return 1e-5 * float(scale) + 1e-4 * abs(float(val)) + 1e-30


# ------------------------------------------------------------------------------------------------
# independent exact statements of the property (Fractions on the float32 inputs)


def uniform_levels(v, L):
  """per coordinate (lower, upper, frac, t) of the uniform grid between min and max; None if constant."""
  mn, mx = min(v), max(v)
  k = L - 1
  res = []
  for x in v:
    if mx == mn:
      res.append((x, x, Fr(0), Fr(0)))
      continue
    t = (x - mn) * k / (mx - mn)
    lo, hi = math.floor(t), math.ceil(t)
    res.append((mn + (mx - mn) * lo / k, mn + (mx - mn) * hi / k, t - lo, t))
  return mn, mx, res


def std64(v):
  n = len(v)
  mean = sum(v) / n
  var = sum((x - mean) ** 2 for x in v) / n
  return math.sqrt(float(var)) if var < Fr(10) ** 300 else float('inf')


def clip_tern(v, sigma):
  b = Fr(sigma) * 5 / 2
  return [(b if x > 0 else -b) if abs(x) > b else x for x in v]


def sign(x):
  return (x > 0) - (x < 0)


# ------------------------------------------------------------------------------------------------
# generators


SCALES = [0, 0, 0, 0, 0, -24, -30, -40, -34, 20]


def gen_vec(rng, n, L, scale=None):
  """float32-exact vectors structured by the branches of the quantizer, times a power of two.

  The dyadic rescaling 2^e (e in 0, -24 .. -40, +20) is exact in float32 and keeps the vector on /
  off its grid exactly as before; every clause of the property is invariant under it (C11_scale),
  and every tolerance of the oracle is relative to the vector's own magnitude, so tiny model
  deltas (range far below 1e-6) are judged as strictly as O(1) vectors."""
  kind = rng.choice(['const', 'zeros', 'grid', 'grid', 'ints', 'dyadic', 'normal', 'range', 'two', 'near'])
  if kind == 'const':
    c = rng.choice([0.0, 1.0, -2.5, 4.0, 1e-3, 3e5])
    v = [c] * n
  elif kind == 'zeros':
    v = [0.0] * n
  elif kind == 'grid':
    mn = rng.choice([0.0, -3.0, 5.0, -0.5, 1024.0])
    step = rng.choice([1.0, 0.5, 2.0, 0.125, 64.0])
    js = [rng.randrange(L) for _ in range(n)]
    if n >= 2:
      js[rng.randrange(n)] = 0
      free = [i for i in range(n) if js[i] != 0] or [0]
      js[rng.choice(free)] = L - 1
      if 0 not in js:
        js[0 if js[0] != L - 1 or n == 1 else 1] = 0
    v = [mn + step * j for j in js]
  elif kind == 'ints':
    v = [float(rng.randrange(-9, 10)) for _ in range(n)]
  elif kind == 'dyadic':
    v = [rng.randrange(-64, 65) / 16.0 for _ in range(n)]
  elif kind == 'normal':
    v = [rng.gauss(0, 1) * rng.choice([1.0, 1e-3, 50.0]) for _ in range(n)]
  elif kind == 'range':
    v = [rng.choice([-1, 1]) * 2.0 ** rng.randrange(-10, 41) for _ in range(n)]
  elif kind == 'two':
    a, b = rng.choice([(0.0, 1.0), (-2.0, 2.0), (0.0, 1e-3), (7.0, 7.5)])
    v = [rng.choice([a, b]) for _ in range(n)]
  else:  # 'near': close to grid points but not on them
    v = [rng.randrange(L) + rng.choice([0.0, 2.0 ** -10, -2.0 ** -10, 0.5]) for _ in range(n)]
  e = rng.choice(SCALES) if scale is None else scale
  return [f32(f32(x) * 2.0 ** e) for x in v], (kind if e == 0 else f'{kind}*2^{e}')


def gen_tree(rng, L, nleaves=None, scalar_ok=True):
  nl = nleaves or rng.choice([1, 1, 2, 3])
  # 0-d leaves only without rotation (inverse_structured_rotation of a 0-d leaf is C18's finding)
  pool = [[1], [3], [8], [3, 4], [17]] + ([[]] if scalar_ok else [])   # few shapes: XLA compiles per tree
  return [rng.choice(pool) for _ in range(nl)]


def _unaligned_zeros(shape):
  """float32 zeros whose data pointer is 4 mod 64.

  XLA's CPU client takes suitably aligned numpy arguments of a jitted call zero-copy
  (kImmutableZeroCopy: the caller must not mutate the buffer while the asynchronously dispatched
  computation may still read it).  A producer that overwrites such a buffer in place races with JAX
  itself, whatever the consumer does (observed on the unchanged tree: results change from run to
  run).  Deliberately misaligned buffers are copied during the call, so overwriting them between
  yields is legitimate and only Python-level aliasing (e.g. `list(clients)`) can be observed."""
  n = int(np.prod(shape)) if len(shape) else 1
  raw = np.zeros(4 * n + 128, np.uint8)
  off = (4 - raw.ctypes.data) % 64
  a = raw[off:off + 4 * n].view(np.float32).reshape(shape)
  assert a.ctypes.data % 64 == 4
  return a


class _ClientDropped(Exception):
  """raised by the injected failing client stream"""


class C11(core.Property):
  ID = 'C11'
  RULE = ('cases: single quantizer calls (vector kind const/zeros/on-grid/ints/dyadic/normal/2^40 range/'
          'two-valued/near-grid, each times 2^e with e in {0,-24,-30,-34,-40,+20} x sizes 1..64 x shapes x L in '
          '{2,3,4,7,16,256} x key; all tolerances relative to the vector itself), aggregator histories on ONE '
          'aggregator object (4 aggregators + arithmetic coding, 0..4 clients incl. weight 0 and all-zero leaves, '
          '1..4 rounds, 1..3 leaves, leaf shapes / number of leaves constant or changing between rounds, tiny / '
          'mixed / large magnitudes; bit increment judged per round on that round\'s tree; round 0 replayed from '
          'init() at the end; failed attempts (client stream raises after k clients) followed by the retry from '
          'the unchanged state, compared with a fresh aggregator object; client iterable = list or one-shot generator '
          'of fresh trees, the latter compared with the list result on a fresh object (producers that overwrite '
          'objects they already yielded are evidence-only monitors); one > 64-client round per aggregator), expectation estimates over 4096 keys (Bernstein bound, 1e-10), u==0 hunts, float32 range probes; '
          'non-trivial = the vector has at least one coordinate strictly between two grid levels '
          '(quant/bias) or at least two clients with different trees (agg); distinct by case digest')
  TRUSTED = ['JAX PRNG idealisation: distinct key paths give independent uniform streams (C11_keys_fresh '
             'proves the paths of the modelled plumbing distinct and prefix-free; for the implementation, different '
             'randomness is observed on values only: identical off-grid updates must not quantise identically)',
             'the expectation clause is checked statistically on the implementation (Bernstein bound) and proved '
             'for the model (C11_unbiased*); the model is tied to the implementation at the level of admissible '
             'values (C11_admissible), never at the level of individual draws',
             'the rotation commutes with positive scaling over the reals (C11_scale is proved for rational '
             'factors; the factor 1/sqrt(d) is irrational for odd log2 d)',
             'float32 rounding is outside the exact model: values compared with the tolerance policy; a '
             'coordinate within 1e-5 (relative) of a grid level may land on the next level outward']
  ASSUMPTIONS = ['inputs are finite float32 arrays; num_levels >= 2; weights >= 0',
                 'sigma of TernGrad is supplied to the model as the float64 square root of the exact variance']
  QUICK_BUDGET_S = 150
  THOROUGH_BUDGET_S = 720

  # ---------------------------------------------------------------------------------------------
  def setup(self, ctx):
    import jax
    import jax.numpy as jnp
    from fedjax.aggregators import compression
    from fedjax.aggregators import walsh_hadamard
    self.jax, self.jnp, self.C, self.WH = jax, jnp, compression, walsh_hadamard

  # ---------------------------------------------------------------------------------------------
  def gen_cases(self, rng, tier):
    n_quant = {'quick': 360, 'thorough': 5000, 'search': 300}[tier]
    n_agg = {'quick': 32, 'thorough': 600, 'search': 30}[tier]
    n_bias = {'quick': 12, 'thorough': 120, 'search': 40}[tier]
    n_big = {'quick': 16, 'thorough': 64, 'search': 24}[tier]
    # float32 range probes (real code only)
    for q in ('uniform', 'binary', 'tern', 'drive'):
      yield {'kind': 'range', 'q': q, 'v': [-3e38, 0.0, 3e38], 'L': 4, 'seed': 0}
      yield {'kind': 'range', 'q': q, 'v': [f32(2.0 ** 100), f32(-2.0 ** 90), 1.0], 'L': 4, 'seed': 1}
      yield {'kind': 'range', 'q': q, 'v': [f32(2.0 ** -100), f32(-2.0 ** -90), 0.0, f32(2.0 ** -120)], 'L': 3, 'seed': 2}
    if tier == 'thorough':
      # exhaustive small scope: all vectors over {0,1,2,3}/… of length <= 3, all L, fixed keys
      for L in (2, 3, 4, 5):
        for n in (1, 2, 3, 4):
          for code in range(4 ** n):
            v = [float((code // 4 ** i) % 4) for i in range(n)]
            for q in ('uniform', 'binary', 'tern', 'drive'):
              yield {'kind': 'quant', 'q': q, 'v': v, 'shape': [n], 'L': L, 'seed': code % 7}
              if n <= 3:
                yield {'kind': 'quant', 'q': q, 'v': [f32(x * 2.0 ** -33) for x in v], 'shape': [n], 'L': L,
                       'seed': code % 7, 'vk': 'enum*2^-33'}
    n_indep = {'quick': 12, 'thorough': 96, 'search': 12}[tier]
    sched = (['quant'] * n_quant + ['agg'] * n_agg + ['bias'] * n_bias + ['grid_big'] * n_big +
             ['tie_big'] * (n_big // 4) + ['indep'] * n_indep)
    rng.shuffle(sched)
    agg_i = rng.randrange(40)
    indep_i = rng.randrange(12)
    bias_i = rng.randrange(6)
    for kind in sched:
      if kind == 'quant':
        shape = rng.choice(SHAPES)
        n = int(np.prod(shape)) if shape else 1
        L = rng.choice(LEVELS)
        v, vk = gen_vec(rng, n, L)
        yield {'kind': 'quant', 'q': rng.choice(['uniform', 'uniform', 'binary', 'tern', 'drive']),
               'v': v, 'shape': shape, 'L': L, 'seed': rng.randrange(1 << 30), 'vk': vk}
      elif kind == 'agg':
        yield self.gen_agg(rng, agg_i)
        agg_i += 1
      elif kind == 'indep':
        yield self.gen_indep(rng, indep_i, big=(tier != 'quick'))
        indep_i += 1
      elif kind == 'bias':
        # the expectation clause is judged statistically only (the model no longer replicates draws),
        # so it is stratified: uniform every other case (cycling L), binary and TernGrad in between,
        # always on vectors with coordinates strictly between levels
        q = ['uniform', 'binary', 'uniform', 'tern', 'uniform', 'binary'][bias_i % 6]
        L = [2, 3, 4, 7, 16][(bias_i // 2) % 5]
        bias_i += 1
        n = rng.choice([3, 5, 8])
        for _ in range(20):
          v, vk = gen_vec(rng, n, L)
          if vk.split('*')[0] in ('ints', 'dyadic', 'normal', 'near', 'range') and len(set(v)) > 2:
            break
        yield {'kind': 'bias', 'q': q, 'v': v, 'L': L, 'seed': rng.randrange(1 << 30), 'n': 4096}
      elif kind == 'tie_big':
        yield {'kind': 'tie_big', 'q': rng.choice(['uniform', 'binary']), 'log2n': 22, 'seed': rng.randrange(1 << 30)}
      else:
        yield {'kind': 'grid_big', 'q': rng.choice(['binary', 'binary', 'uniform', 'tern']), 'log2n': 22,
               'seed': rng.randrange(1 << 30)}

  def gen_indep(self, rng, idx, big=False):
    """identical-client probes: every client of every round holds the SAME large off-grid tree, so that
    equal quantised values can only come from equal randomness.  Stratified over the four aggregators
    and three patterns: two clients of one small round, two clients 64 positions apart in one round
    of more than 64 clients, and one client per round over several rounds.  Only the marked clients
    have weight 1, the others weight 0 (their content is the same tree)."""
    agg = ['uniform', 'rotated', 'tern', 'drive'][idx % 4]
    pattern = ['pair', 'cohort', 'rounds'][(idx // 4) % 3]
    L = rng.choice([2, 3, 4])
    n = 64
    if agg == 'uniform':
      X = [0.0, float(L - 1)] + [rng.randrange(L - 1) + 0.5 for _ in range(n - 2)]
    elif agg == 'tern':
      X = [2.0, -2.0] + [rng.choice([-1.0, 1.0]) for _ in range(n - 2)]      # nothing clipped, p = 1/2
    else:
      X = [f32(rng.gauss(0, 1)) for _ in range(n)]
    e = rng.choice([0, 0, -30])
    X = [f32(x * 2.0 ** e) for x in X]
    if pattern == 'pair':
      ncl = rng.choice([2, 3, 4])
      i, j = sorted(rng.sample(range(ncl), 2))
      marks = [[i, j]]
    elif pattern == 'cohort':
      ncl = rng.choice([65, 66, 70] + ([129, 130] if big else []))
      i = rng.randrange(ncl - 64)
      marks = [[i, i + 64]]
    else:
      ncl = rng.choice([2, 3])
      marks = [[rng.randrange(ncl)] for _ in range(3)]
    rounds = [[[[X], 1.0 if c in m else 0.0] for c in range(ncl)] for m in marks]
    return {'kind': 'agg', 'agg': agg, 'L': L, 'round_shapes': [[[n]]] * len(rounds), 'rounds': rounds,
            'seed': rng.randrange(1 << 30), 'feed': rng.choice(['list', 'gen']), 'identical': True}

  def gen_agg(self, rng, idx=None, cohort=None):
    # stratified over (aggregator, how the tree changes between rounds) so that every combination
    # occurs in every run, whatever the seed
    AGGS = ['uniform', 'drive', 'rotated', 'tern', 'uniform_arith', 'drive', 'rotated', 'uniform']
    VARY = ['shapes', 'same', 'leaves', 'shapes', 'same']
    if idx is None:
      idx = rng.randrange(40)
    agg = AGGS[idx % 8]
    L = rng.choice([2, 3, 4, 7, 16] if agg == 'rotated' else LEVELS)
    scalar_ok = agg not in ('rotated', 'drive')
    shapes = gen_tree(rng, L, scalar_ok=scalar_ok)
    # faults: a failed attempt of a round (the client iterable raises after k clients) precedes the
    # real attempt from the unchanged state on the same aggregator object.  Every arithmetic-coding
    # history has one; the other aggregators alternate (so each has faulted and fault-free histories).
    faulted = cohort is None and (agg == 'uniform_arith' or ((idx // 8) + (idx % 8)) % 2 == 0)
    # how the client iterable is produced: a list of fresh trees or a one-shot generator of FRESH
    # trees (the aggregators take an Iterable; nothing says it can be iterated twice).  Stratified:
    # every aggregator slot meets both in every run.  Producers that overwrite objects they have
    # already yielded ('rebind': one dict refilled, 'inplace': numpy leaves overwritten) are NOT part
    # of the property - a consumer may legitimately hold several yielded items at once (a block, a
    # list) - and are run as evidence-only monitors (two per run), never as oracle or correspondence.
    FEED = ['list', 'gen', 'gen', 'list']
    feed = FEED[((idx // 8) + (idx % 8) // 2) % 4] if cohort is None else rng.choice(FEED)
    if cohort is None and idx % 16 == 5:
      feed = ['rebind', 'inplace'][(idx // 16) % 2]
    if cohort is not None:
      # one round with more than 64 clients (key streams that repeat or run out only show here)
      shapes = [rng.choice([[1], [3]])]
    # one aggregator object serves the whole history; the tree may keep its keys and change its
    # leaf shapes between rounds ('shapes'), or even its number of leaves ('leaves')
    vary = VARY[(idx // 8) % 5]
    # per-case scale policy: mixed (each leaf draws its own), or one tiny / large scale for the case
    case_scale = rng.choice([None, None, None, -24, -30, -40, 20])
    rounds, round_shapes = [], []
    size = lambda shs: sum(int(np.prod(sh)) if sh else 1 for sh in shs)
    nrounds = 1 if cohort is not None else rng.choice([1, 2, 2, 3, 3, 4] if vary == 'same' else [2, 2, 3, 3, 4])
    fault_round = rng.randrange(nrounds) if faulted else None
    for r in range(nrounds):
      if r > 0 and vary == 'shapes':
        first = round_shapes[0]
        for _ in range(8):   # same keys, and at least one round with a different number of parameters
          shapes = gen_tree(rng, L, nleaves=len(first), scalar_ok=scalar_ok)
          if r < 2 and size(shapes) != size(first):
            break
          if r >= 2:
            break
      elif r > 0 and vary == 'leaves':
        shapes = gen_tree(rng, L, scalar_ok=scalar_ok)
      clients = []
      if cohort is not None:
        ncl = cohort
      elif r == fault_round:
        ncl = rng.choice([2, 3, 4])
      else:
        ncl = rng.choice([1, 2, 3, 4]) if rng.random() > 0.04 else 0
      for _ in range(ncl):
        leaves = []
        for sh in shapes:
          n = int(np.prod(sh)) if sh else 1
          if rng.random() < 0.12:
            leaves.append([0.0] * n)
          else:
            leaves.append(gen_vec(rng, n, L, scale=case_scale)[0])
        w = rng.choice([0.0, 1.0, 1.0, 2.0, 3.0, 0.5, 10.0])
        clients.append([leaves, w])
      rounds.append(clients)
      round_shapes.append(shapes)
    case = {'kind': 'agg', 'agg': agg, 'L': L, 'round_shapes': round_shapes, 'rounds': rounds,
            'seed': rng.randrange(1 << 30), 'feed': feed}
    if faulted:
      n = len(rounds[fault_round])
      # k = number of clients the stream yields before it raises (k = 0: none; k = n: all). How many of
      # them the aggregator had already processed at that point is not assumed anywhere.
      ks = [rng.choice([1, 1, 2, n]) if agg == 'uniform_arith' else rng.randrange(0, n + 1)]
      if rng.random() < 0.3:
        ks.append(rng.randrange(0, n + 1))        # two failed attempts in a row
      case['faults'] = [[fault_round, min(k, n)] for k in ks]
    return case

  @staticmethod
  def rshapes(case):
    """leaf shapes per round (older corpus cases carry one `shapes` list for all rounds)."""
    if 'round_shapes' in case:
      return case['round_shapes']
    return [case['shapes']] * len(case['rounds'])

  def search_cases(self, rng):
    # first: targeted probes of each clause, then more generated cases
    yield {'kind': 'grid_big', 'q': 'binary', 'log2n': 22, 'seed': 4}
    for e in (-30, -40):
      for q in ('uniform', 'binary', 'tern', 'drive'):
        yield {'kind': 'quant', 'q': q, 'v': [f32(x * 2.0 ** e) for x in (0.0, 1.0, 2.0, 1.0, 2.0, 0.0)],
               'shape': [6], 'L': 3, 'seed': 1, 'vk': f'grid*2^{e}'}
      yield {'kind': 'bias', 'q': 'uniform', 'v': [f32(x * 2.0 ** e) for x in (0.0, 0.25, 0.75, 1.0)], 'L': 2,
             'seed': 11, 'n': 4096}
    for a in ('drive', 'uniform', 'rotated', 'tern'):
      yield {'kind': 'agg', 'agg': a, 'L': 4, 'seed': 3,
             'round_shapes': [[[3], [1]], [[3], [1]], [[3, 4], [5]], [[3], [1]], [[17], [1]]],
             'rounds': [[[[[float(i + j) for j in range(int(np.prod(sh)))] for sh in shs], 1.0 + i] for i in range(2)]
                        for shs in [[[3], [1]], [[3], [1]], [[3, 4], [5]], [[3], [1]], [[17], [1]]]]}
    for q in ('uniform', 'binary', 'tern'):
      for L in (2, 4):
        yield {'kind': 'bias', 'q': q, 'v': [0.0, 0.25, 1.0, 1.5, 4.0], 'L': L, 'seed': 11, 'n': 4096}
    yield from self.gen_cases(rng, 'search')

  def shrink(self, case):
    k = case['kind']
    if k in ('quant', 'bias', 'range'):
      v = case['v']
      n = len(v)
      if k != 'quant' or case.get('shape') in ([n], None):
        for i in range(n):
          if n > 1:
            c = dict(case, v=v[:i] + v[i + 1:])
            if 'shape' in c:
              c['shape'] = [n - 1]
            yield c
      elif k == 'quant':
        yield dict(case, shape=[n])
      big = max([abs(x) for x in v if x != 0.0] + [0.0])
      q_ = 2.0 ** (math.floor(math.log2(big)) - 2) if big else 1.0
      for i in range(n):
        for r in (0.0, float(round(v[i] / q_)) * q_):
          if v[i] != r:
            yield dict(case, v=v[:i] + [r] + v[i + 1:])
      if case.get('L', 2) > 2:
        yield dict(case, L=2)
        yield dict(case, L=case['L'] - 1)
    elif k == 'agg':
      rounds = case['rounds']
      rs = self.rshapes(case)
      base = {k: v for k, v in case.items() if k != 'shapes'}
      faults = case.get('faults', [])
      if case.get('feed', 'list') != 'list':
        yield dict(base, round_shapes=rs, feed='list')
      for i in range(len(faults)):
        yield dict(base, round_shapes=rs, faults=faults[:i] + faults[i + 1:])
      for i, (fr, k) in enumerate(faults):
        if k > 0:
          yield dict(base, round_shapes=rs, faults=faults[:i] + [[fr, k - 1]] + faults[i + 1:])
      if len(rounds) > 1:
        for i in range(len(rounds)):
          yield dict(base, rounds=rounds[:i] + rounds[i + 1:], round_shapes=rs[:i] + rs[i + 1:],
                     faults=[[fr - (fr > i), k] for fr, k in faults if fr != i])
      for r, cl in enumerate(rounds):
        if len(cl) > 1:
          for i in range(len(cl)):
            yield dict(base, round_shapes=rs, rounds=rounds[:r] + [cl[:i] + cl[i + 1:]] + rounds[r + 1:],
                       faults=[[fr, min(k, len(cl) - 1) if fr == r else k] for fr, k in faults])
      # drop leaf l in every round that has it
      nlmax = max(len(x) for x in rs)
      if nlmax > 1:
        for l in range(nlmax):
          if all(len(x) > 1 or l >= len(x) for x in rs):
            yield dict(base, round_shapes=[x[:l] + x[l + 1:] for x in rs],
                       rounds=[[[lv[:l] + lv[l + 1:], w] for lv, w in cl] for cl in rounds])
      # per round: flatten a leaf shape, shorten a leaf
      for r, shs in enumerate(rs):
        for l, sh in enumerate(shs):
          n = int(np.prod(sh)) if sh else 1
          if sh != [n]:
            yield dict(base, rounds=rounds, round_shapes=rs[:r] + [shs[:l] + [[n]] + shs[l + 1:]] + rs[r + 1:])
          elif n > 1:
            yield dict(base, round_shapes=rs[:r] + [shs[:l] + [[n - 1]] + shs[l + 1:]] + rs[r + 1:],
                       rounds=rounds[:r] + [[[lv[:l] + [lv[l][:-1]] + lv[l + 1:], w] for lv, w in rounds[r]]] + rounds[r + 1:])
      case = dict(base, round_shapes=rs)
      for r, cl in enumerate(rounds):
        for i, (lv, w) in enumerate(cl):
          for l, leaf in enumerate(lv):
            if any(x != 0.0 for x in leaf):
              q_ = 2.0 ** (math.floor(math.log2(max(abs(x) for x in leaf))) - 2)
              nl_ = [float(round(x / q_)) * q_ for x in leaf]
              if nl_ != leaf:
                yield dict(case, rounds=rounds[:r] + [cl[:i] + [[lv[:l] + [nl_] + lv[l + 1:], w]] + cl[i + 1:]] + rounds[r + 1:])
          if w not in (1.0,):
            yield dict(case, rounds=rounds[:r] + [cl[:i] + [[lv, 1.0]] + cl[i + 1:]] + rounds[r + 1:])
      if case['L'] > 2:
        yield dict(case, L=2)
    elif k in ('grid_big', 'tie_big'):
      if case['log2n'] > 10:
        yield dict(case, log2n=case['log2n'] - 1)

  # ---------------------------------------------------------------------------------------------
  def evaluate(self, case, ctx):
    k = case['kind']
    if k == 'quant':
      return self.eval_quant(case, ctx)
    if k == 'agg':
      return self.eval_agg(case, ctx)
    if k == 'bias':
      return self.eval_bias(case, ctx)
    if k == 'grid_big':
      return self.eval_grid_big(case, ctx)
    if k == 'range':
      return self.eval_range(case, ctx)
    if k == 'tie_big':
      return self.eval_tie_big(case, ctx)
    raise core.InfraError(f'unknown case kind {k}')

  # ---- one quantizer call ---------------------------------------------------------------------
  def call_quant(self, q, x, L, key):
    C = self.C
    if q == 'uniform':
      return C.uniform_stochastic_quantize(x, L, key)
    if q == 'binary':
      return C.binary_stochastic_quantize(x, key)
    if q == 'tern':
      return C.terngrad_quantize(x, key)
    if q == 'drive':
      return C.drive_pytree({'a': x})['a']
    raise ValueError(q)

  def oracle_quant(self, q, v, out, L):
    """independent statement of the per-call clauses; v, out exact Fractions / floats. Returns problems."""
    problems = []
    outf = [float(o) for o in out]
    if not all(math.isfinite(o) for o in outf):
      return [f'non-finite output {outf[:6]} for finite input'], 'nonfinite'
    outq = [Fr(o) for o in outf]
    key = None
    if q in ('uniform', 'binary'):
      Lq = L if q == 'uniform' else 2
      mn, mx, lev = uniform_levels(v, Lq)
      S = abs(mn) + abs(mx)
      step = (mx - mn) / (Lq - 1)
      ongrid = all(fr == 0 for (_, _, fr, _) in lev)
      for i, (x, o) in enumerate(zip(v, outq)):
        lo, hi, fr, t = lev[i]
        eps = tol(S, o)
        near = min(abs(o - lo), abs(o - hi))
        if near > eps:
          # float evaluation of t may cross an integer when t is within rounding of one
          d = Fr(1, 10 ** 5) * max(1, abs(t))
          alt = [mn + (mx - mn) * Fr(j) / (Lq - 1) for j in range(math.floor(t - d), math.ceil(t + d) + 1)] if mx != mn else []
          if not any(abs(o - a) <= eps for a in alt):
            problems.append(f'coordinate {i}: {float(x)} -> {float(o)} is not a neighbouring level '
                            f'({float(lo)}, {float(hi)}) of the {Lq}-level grid on [{float(mn)}, {float(mx)}]')
            key = key or 'not-neighbour'
        if abs(o - x) > step + eps:
          problems.append(f'coordinate {i}: error {float(abs(o - x))} exceeds one grid step {float(step)}')
          key = key or 'error-bound'
        if o < mn - eps or o > mx + eps:
          problems.append(f'coordinate {i}: {float(o)} outside [{float(mn)}, {float(mx)}]')
          key = key or 'out-of-range'
        if q == 'binary' and o != mn and o != mx:
          problems.append(f'coordinate {i}: binary output {float(o)} is neither min nor max')
          key = key or 'not-neighbour'
      if ongrid:
        bad = [i for i, (x, o) in enumerate(zip(v, outq)) if abs(o - x) > tol(S, x) or (q == 'binary' and o != x)]
        if bad:
          i = bad[0]
          what = 'constant' if mx == mn else 'on-grid'
          problems.append(f'{what} vector changed: coordinate {i}: {float(v[i])} -> {float(outq[i])} '
                          f'({len(bad)} coordinates)')
          key = key or 'fixed-point'
    elif q == 'tern':
      sigma = std64(v)
      c = clip_tern(v, sigma)
      s = max(abs(x) for x in c)
      # jnp.std is a float32 reduction over the whole vector: its rounding error scales with
      # max|v| (tolerance policy: S = magnitude of the terms entering the result), not with s
      S = max(abs(x) for x in v)
      for i, (x, o) in enumerate(zip(c, outq)):
        eps = tol(S, 0)
        allowed = [Fr(0)] if x == 0 else [Fr(0), s * sign(x)]
        if not any(abs(o - a) <= eps for a in allowed):
          problems.append(f'coordinate {i}: TernGrad output {float(o)} not in {{0, {float(s * sign(x))}}} '
                          f'(s = max clipped magnitude {float(s)}, sigma {sigma})')
          key = key or 'tern-levels'
    elif q == 'drive':
      n1 = sum(abs(x) for x in v)
      n2 = sum(x * x for x in v)
      for i, (x, o) in enumerate(zip(v, outq)):
        want = Fr(0) if n1 == 0 else n2 / n1 * sign(x)
        if abs(o - want) > tol(abs(n2 / n1) if n1 else 0, 0) * 4:
          problems.append(f'coordinate {i}: DRIVE output {float(o)} != |x|2^2/|x|1 * sign = {float(want)}')
          key = key or 'drive-formula'
    return problems, key

  def range_overflow(self, q, v):
    """exact-arithmetic reason why float32 cannot evaluate the quantizer on v (None if it can)."""
    mn, mx = min(v), max(v)
    if q in ('uniform', 'binary') and mx - mn > F32_MAX:
      return 'range-overflow'
    if q == 'drive' and sum(x * x for x in v) > F32_MAX:
      return 'square-overflow'
    if q == 'tern':
      n = len(v)
      mean = sum(v) / n
      if max((x - mean) ** 2 for x in v) > F32_MAX or sum((x - mean) ** 2 for x in v) > F32_MAX:
        return 'variance-overflow'
    # subnormal intermediates (XLA flushes them to zero)
    tiny = Fr(float(np.finfo(np.float32).tiny))
    nz = [abs(x) for x in v if x != 0]
    if nz and (min(nz) < tiny * 2 ** 24 or (q == 'drive' and min(x * x for x in nz) < tiny * 2 ** 24)):
      return 'subnormal-underflow'
    return None

  def eval_quant(self, case, ctx):
    jnp = self.jnp
    q, L, shape = case['q'], case['L'], case['shape']
    x = np.asarray(case['v'], dtype=np.float32).reshape(shape)
    v = fr_list(x)
    key = self.jax.random.PRNGKey(case['seed'])
    snap = x.copy()
    out = np.asarray(self.call_quant(q, jnp.asarray(x), L, key))
    problems, corr = [], []
    if out.shape != x.shape or out.dtype != np.float32:
      problems.append(f'shape/dtype changed: {out.shape} {out.dtype}')
    if not np.array_equal(snap, x):
      problems.append('input mutated')
    p2, okey = self.oracle_quant(q, v, out.reshape(-1), L)
    problems += p2
    # repeatability: same key, same result
    out2 = np.asarray(self.call_quant(q, jnp.asarray(x), L, key))
    if not np.array_equal(out, out2, equal_nan=True):
      problems.append('same key gave a different result')
    # ---- model: the admissible values of every coordinate (exact rationals, no draws: how the
    # implementation turns its random stream into up/down decisions is not fixed by the property)
    model = ctx.drv.ask([self.adm_line(q, v, L)])[0]
    if not problems:
      bad = self.not_admissible(q, v, out.reshape(-1), model, L)
      if bad:
        corr.append(bad)
    nontrivial = False
    if q in ('uniform', 'binary'):
      nontrivial = any(fr != 0 for (_, _, fr, _) in uniform_levels(v, L if q == 'uniform' else 2)[2])
    elif q == 'tern':
      nontrivial = len(set(v)) > 1
    else:
      nontrivial = any(a != 0 for a in v)
    mags = [abs(float(a)) for a in v if a != 0]
    mag = 'zero' if not mags else ('tiny' if max(mags) < 1e-6 else ('large' if max(mags) > 1e5 else 'unit'))
    tags = (f'q={q}', f'vec={case.get("vk", "enum").split("*")[0]}', f'magnitude={mag}', f'size={"1" if len(v) == 1 else ("<=8" if len(v) <= 8 else ">8")}',
            f'L={L}' if q == 'uniform' else 'L=-', f'rank={len(shape)}')
    return Outcome(oracle_fail='; '.join(problems[:3]) or None, corr_fail='; '.join(corr[:3]) or None,
                   key=(f'C11/{q}/{okey}' if okey else None), nontrivial=nontrivial, tags=tags,
                   detail={'impl': [float(o) for o in out.reshape(-1)][:64],
                           'model_admissible': [[float(c) for c in (m if isinstance(m, list) else [m])] for m in model][:64]})

  # ---- float32 range probes -------------------------------------------------------------------
  def eval_range(self, case, ctx):
    q, L = case['q'], case['L']
    x = np.asarray(case['v'], dtype=np.float32)
    v = fr_list(x)
    key = self.jax.random.PRNGKey(case['seed'])
    out = np.asarray(self.call_quant(q, self.jnp.asarray(x), L, key))
    problems, okey = self.oracle_quant(q, v, out.reshape(-1), L)
    why = self.range_overflow(q, v)
    ckey = None
    if why == 'subnormal-underflow':
      # flushing subnormal intermediates to zero is ordinary rounding; only NaN/Inf counts here
      problems = [p for p in problems if 'non-finite' in p]
    if problems:
      # a failure is attributed to the float32 range only if exact arithmetic says an intermediate
      # leaves the float32 range on this very input; everything else keeps its own key
      ckey = f'C11/{q}/{why}' if why else f'C11/{q}/{okey}'
    return Outcome(oracle_fail='; '.join(problems[:3]) or None, key=ckey, nontrivial=True,
                   tags=(f'range:{q}:{why}',), detail={'impl': [float(o) for o in out.reshape(-1)], 'float32_limit': why})

  # ---- expectation over the key ---------------------------------------------------------------
  def eval_bias(self, case, ctx):
    jax, jnp = self.jax, self.jnp
    q, L, n = case['q'], case['L'], case['n']
    x = np.asarray(case['v'], dtype=np.float32)
    v = fr_list(x)
    keys = jax.random.split(jax.random.PRNGKey(case['seed']), n)
    xs = jnp.asarray(x)
    outs = np.asarray(jax.vmap(lambda k: self.call_quant(q, xs, L, k))(keys), dtype=np.float64)
    mean = outs.mean(axis=0)
    problems = []
    if not np.all(np.isfinite(outs)):
      problems.append('non-finite output')
    if q == 'tern':
      sigma = std64(v)
      target = clip_tern(v, sigma)
      s = max(abs(c) for c in target)
      ps = [float(abs(c) / s) if s else 0.0 for c in target]
      steps = [float(s)] * len(target)
      S = max(abs(x) for x in v)
    else:
      Lq = L if q == 'uniform' else 2
      mn, mx, lev = uniform_levels(v, Lq)
      target = v
      step = (mx - mn) / (Lq - 1)
      ps = [float(fr) for (_, _, fr, _) in lev]
      steps = [float(step)] * len(lev)
      S = abs(mn) + abs(mx)
    # Each coordinate is a two-point variable (upper level with probability p, else the level one
    # `step` below), so its mean over n independent keys is step * (K - n p) / n away from the
    # target with K ~ Binomial(n, p).  Bernstein's inequality:
    #   P(|K - n p| > sqrt(2 n p (1-p) Lam) + (2/3) Lam) <= 2 exp(-Lam);  Lam = ln(2e10) -> 1e-10.
    # (A Gaussian 6-sigma rule is wrong for tiny p: one rare outcome in 4096 draws already exceeds it.)
    lam = math.log(2e10)
    for i, (m, t, pr, st) in enumerate(zip(mean, target, ps, steps)):
      bound = st * (math.sqrt(2 * n * pr * (1 - pr) * lam) + 2 * lam / 3) / n + tol(S, t)
      if abs(m - float(t)) > bound:
        problems.append(f'coordinate {i}: mean over {n} keys {m:.6g} differs from '
                        f'{"clipped " if q == "tern" else ""}input {float(t):.6g} by {abs(m - float(t)):.4g} > '
                        f'Bernstein bound {bound:.3g} (failure probability 1e-10 for an unbiased quantizer)')
    ctx.count('bias_coordinates_tested', len(v))
    return Outcome(oracle_fail='; '.join(problems[:3]) or None, key=(f'C11/{q}/biased' if problems else None),
                   nontrivial=any(0 < pr < 1 for pr in ps), tags=(f'bias:{q}',),
                   detail={'mean': [float(m) for m in mean], 'target': [float(t) for t in target]})

  # ---- large on-grid vector -------------------------------------------------------------------
  def eval_grid_big(self, case, ctx):
    jax, jnp = self.jax, self.jnp
    q, n = case['q'], 1 << case['log2n']
    key = jax.random.PRNGKey(case['seed'])
    x = np.zeros(n, np.float32)
    x[n - 1] = 1.0
    if q == 'tern':
      # sigma > 0 and nothing is clipped: two magnitudes only {0, 1}, half of the entries 1
      x[n // 2:] = 1.0
      x[n - 2] = -1.0
    out = np.asarray(self.call_quant(q, jnp.asarray(x), 2, key))
    u = np.asarray(jax.random.uniform(key, (n,)))
    zeros = np.nonzero(u == 0.0)[0]
    ctx.count('exact_zero_draws_seen', int(len(zeros)))
    bad = np.nonzero(out != x)[0]
    problems = []
    if len(bad):
      i = int(bad[0])
      problems.append(f'on-grid vector (zeros(2^{case["log2n"]}) with last entry 1) changed by {q} quantizer with '
                      f'PRNGKey({case["seed"]}): coordinate {i}: {float(x[i])} -> {float(out[i])} '
                      f'(uniform draw at that coordinate = {float(u[i])})')
    return Outcome(oracle_fail='; '.join(problems) or None, key=(f'C11/{q}/fixed-point' if problems else None),
                   nontrivial=len(zeros) > 0, tags=(f'grid_big:{q}', f'zero_draws={min(len(zeros), 2)}'),
                   detail={'changed': [int(i) for i in bad[:5]], 'zero_draw_indices': [int(i) for i in zeros[:5]]})

  # ---- exact ties u == frac (0, 1/2, 1 with L = 2: everything exact in float32) ---------------
  def eval_tie_big(self, case, ctx):
    """A large vector of 0.5's between 0 and 1.  Exact ties `u == frac` do occur here; the property does
    not fix which neighbour an exact tie yields, so both are accepted: every output must be 0 or 1
    and the two end points must stay."""
    jax, jnp = self.jax, self.jnp
    q, n = case['q'], 1 << case['log2n']
    key = jax.random.PRNGKey(case['seed'])
    x = np.full(n, 0.5, np.float32)
    x[0], x[n - 1] = 0.0, 1.0
    out = np.asarray(self.call_quant(q, jnp.asarray(x), 2, key))
    problems = []
    if not np.all((out == 0.0) | (out == 1.0)):
      problems.append('output outside the two levels {0, 1}')
    if out[0] != 0.0 or out[n - 1] != 1.0:
      problems.append(f'end points changed: {out[0]}, {out[n - 1]}')
    frac1 = float(np.mean(out[1:n - 1]))
    # 2^22 fair coins: |mean - 1/2| > 6 sigma = 6 / (2 * 2^11) has probability < 1e-8
    if abs(frac1 - 0.5) > 6.0 / (2.0 * math.sqrt(n - 2)) + 2.0 ** -22:
      problems.append(f'fraction of upper levels among {n - 2} coordinates at frac = 1/2 is {frac1}')
    return Outcome(oracle_fail='; '.join(problems) or None,
                   key=(f'C11/{q}/biased' if problems and 'fraction' in problems[-1] else f'C11/{q}/not-neighbour') if problems else None,
                   nontrivial=True, tags=(f'tie_big:{q}',), detail={'fraction_upper': frac1})

  # ---- aggregator histories -------------------------------------------------------------------
  def make_agg(self, case, root):
    C = self.C
    a, L = case['agg'], case['L']
    if a == 'uniform':
      return C.uniform_stochastic_quantizer(L, root)
    if a == 'uniform_arith':
      return C.uniform_stochastic_quantizer(L, root, 'arithmetic')
    if a == 'rotated':
      return C.rotated_uniform_stochastic_quantizer(L, root)
    if a == 'drive':
      return C.structured_drive_quantizer(root)
    if a == 'tern':
      return C.terngrad_quantizer(root)
    raise ValueError(a)

  def eval_agg(self, case, ctx):
    """One history of one aggregator object.  Nothing here predicts or compares PRNG keys or draws:
    which stream a seed yields is not fixed by the property.  Observables: the aggregate and the
    state returned by the public `apply`, the caller's own arrays, and - when the aggregator routes
    every client through the module-level public helpers (`*_quantize_pytree`, `drive_pytree`,
    `walsh_hadamard.*_pytree`) exactly once - the values those helpers returned."""
    jax, jnp, C, WH = self.jax, self.jnp, self.C, self.WH
    a, L, seed = case['agg'], case['L'], case['seed']
    rs = self.rshapes(case)           # leaf shapes per round (same aggregator object throughout)
    kind = {'uniform': 'uniform', 'uniform_arith': 'uniform', 'rotated': 'rotated', 'drive': 'drive', 'tern': 'tern'}[a]
    ALL = [chr(ord('a') + i) for i in range(max(len(x) for x in rs))]   # dict keys flatten in sorted order
    root = jax.random.PRNGKey(seed)
    problems, corr, okey = [], [], None
    # producers that mutate what they already yielded: evidence only (see gen_agg)
    monitor_only = case.get('feed', 'list') in ('rebind', 'inplace')

    def fail(msg, key):
      nonlocal okey
      problems.append(msg)
      okey = okey or f'C11/{a}/{key}'

    def tree_of(leaves, shapes):
      return {nm: jnp.asarray(np.asarray(lv, np.float32).reshape(sh)) for nm, lv, sh in zip(ALL, leaves, shapes)}

    def flat(tree):
      return [np.asarray(tree[nm]) for nm in ALL if nm in tree]

    def npflat(tree):
      """numpy copies of the leaves, taken at once (a later caller may donate / overwrite them)"""
      return [np.array(x) for x in jax.tree_util.tree_leaves(tree)]

    # recorders around the public module-level helpers (values only; no keys)
    rec = {'quant': [], 'rot': [], 'inv': []}
    orig = {}

    def wrap(mod, name, slot, pick=lambda res: res):
      f = getattr(mod, name, None)
      if f is None:
        return
      orig[(mod, name)] = f

      def g(*args, **kw):
        res = f(*args, **kw)
        try:
          rec[slot].append(npflat(pick(res)))
        except Exception:          # never let the recorder change the behaviour under test
          rec[slot].append(None)
        return res
      setattr(mod, name, g)

    wrap(C, 'uniform_stochastic_quantize_pytree', 'quant')
    wrap(C, 'terngrad_quantize_pytree', 'quant')
    wrap(C, 'drive_pytree', 'quant')
    wrap(WH, 'structured_rotation_pytree', 'rot', lambda res: res[0])
    wrap(WH, 'inverse_structured_rotation_pytree', 'inv')
    impl_rounds = []

    def same_result(o1, s1, o2, s2):
      diffs = []
      if (o1 is None) != (o2 is None) or (o1 is not None and not all(
          np.array_equal(x, y, equal_nan=True) for x, y in zip(o1, o2))):
        diffs.append('aggregate differs')
      if not np.array_equal(np.asarray(s1.rng), np.asarray(s2.rng)):
        diffs.append('state key differs')
      n1, n2 = float(s1.num_bits), float(s2.num_bits)
      if abs(n1 - n2) > 1e-6 * abs(n2) + 1e-6:
        diffs.append(f'num_bits {n1} vs {n2}')
      return diffs

    try:
      aggr = self.make_agg(case, root)
      st = aggr.init()
      faults = {}
      for fr, k in case.get('faults', []):
        faults.setdefault(fr, []).append(k)
      faulted_before = False
      feed = case.get('feed', 'list')

      def produce(cpw):
        """the client Iterable handed to apply, built from the list of fresh trees `cpw`"""
        if feed == 'list':
          return cpw
        if feed == 'gen':
          return (c for c in cpw)
        if feed == 'rebind':
          def g():
            tree = {}                       # one dict object, refilled for every client
            for cid, t, w in cpw:
              for k_, v_ in t.items():
                tree[k_] = v_
              yield cid, tree, w
          return g()
        if feed == 'inplace':
          def g():
            tree = None                     # one tree of numpy buffers, overwritten in place
            for cid, t, w in cpw:
              if tree is None:
                tree = {k_: _unaligned_zeros(np.shape(v_)) for k_, v_ in t.items()}
              for k_, v_ in t.items():
                tree[k_][...] = np.asarray(v_)
              yield cid, tree, w
          return g()
        raise core.InfraError(f'unknown feed {feed}')

      for r, (clients, shapes) in enumerate(zip(case['rounds'], rs)):
        # client updates are jax arrays owned by the caller
        cpw = [(b'c%d' % i, tree_of(lv, shapes), w) for i, (lv, w) in enumerate(clients)]
        snaps = [[np.asarray(lv, np.float32).reshape(sh) for lv, sh in zip(leaves, shapes)] for leaves, _ in clients]
        # failed attempts of this round: the client stream raises after yielding k clients;
        # the caller then retries from the unchanged state on the same aggregator object
        for k in faults.get(r, []):
          def stream(k=k):
            for i, c in enumerate(produce(cpw)):
              if i == k:
                raise _ClientDropped(f'client {i} did not report')
              yield c
            raise _ClientDropped('stream broke after the last client')
          try:
            aggr.apply(stream(), st)
            corr.append(f'round {r}: apply returned although its client stream raised after {k} clients')
          except _ClientDropped:
            ctx.count('failed_attempts_injected')
          except Exception as e:   # anything else is reported with the real attempt below
            ctx.count('failed_attempt_other_exception')
          faulted_before = True
        for s in rec.values():
          s.clear()
        try:
          out, st2 = aggr.apply(produce(cpw), st)
        except Exception as e:
          fail(f'round {r}: apply raised {type(e).__name__}: {str(e)[:160]} on finite client updates'
               + (' (after a failed attempt of the same round)' if r in faults else ''), 'apply-raised')
          break
        if out is not None:
          out = jax.tree_util.tree_map(lambda x: np.array(x), out)
        recs = {k: list(v) for k, v in rec.items()}
        # the caller's updates must still be readable and unchanged after apply
        try:
          for (cid, t, w), sn in zip(cpw, snaps):
            for leaf, s0 in zip(flat(t), sn):
              if not np.array_equal(leaf, s0):
                raise ValueError(f'values of client {cid!r} changed')
        except Exception as e:
          fail(f'round {r}: the caller\'s client updates are no longer usable after apply: '
               f'{type(e).__name__}: {str(e)[:160]}', 'inputs-invalidated')
          break
        ir = {'out': None if out is None else flat(out), 'st': st2, 'rec': recs, 'prev': st, 'ref': None}
        impl_rounds.append(ir)
        # aggregating the SAME updates a second time from the same state gives the same result
        if feed == 'list' and not case.get('identical'):
          try:
            out_2, st_2 = aggr.apply(cpw, st)
            d2 = same_result(None if out_2 is None else flat(out_2), st_2, ir['out'], st2)
            if d2:
              fail(f'round {r}: aggregating the same client updates a second time from the same state gives a '
                   f'different result: ' + ', '.join(d2), 'reapply-differs')
          except Exception as e:
            fail(f'round {r}: aggregating the same client updates a second time raised {type(e).__name__}: '
                 f'{str(e)[:160]}', 'reapply-raised')
            break
        if faulted_before or feed != 'list':
          # reference for a retried round (and the rounds after it) and for every streamed round:
          # the same clients, as a list of fresh trees, and the same state on a freshly built
          # aggregator object
          try:
            out_f, st_f = self.make_agg(case, root).apply(cpw, st)
            ir['ref'] = (None if out_f is None else flat(out_f), st_f)
          except Exception as e:
            fail(f'round {r}: the same updates given as a list to a fresh aggregator object raised '
                 f'{type(e).__name__}: {str(e)[:160]}', 'reapply-raised')
            break
        st = st2
      # hidden state in the aggregator object: replaying round 0 from a fresh init() on the SAME
      # object must reproduce round 0 exactly (a round is a function of state and clients)
      if case['rounds'] and impl_rounds and not problems:
        cpw = [(b'c%d' % i, tree_of(lv, rs[0]), w) for i, (lv, w) in enumerate(case['rounds'][0])]
        out_b, st_b = aggr.apply(cpw, aggr.init())
        first = impl_rounds[0]
        d0 = same_result(None if out_b is None else flat(out_b), st_b, first['out'], first['st'])
        if d0:
          corr.append('replaying round 0 from init() on the same aggregator object after the history gives a '
                      'different result: ' + ', '.join(d0))
    finally:
      for (mod, name), f in orig.items():
        setattr(mod, name, f)

    if monitor_only:
      same = bool(impl_rounds) and len(impl_rounds) == len(case['rounds']) and not problems and all(
          ir['ref'] is not None and not same_result(ir['out'], ir['st'], *ir['ref']) for ir in impl_rounds)
      ctx.count('mutating_producer_equal_to_list' if same else 'mutating_producer_differs_from_list')
      return Outcome(nontrivial=False, tags=(f'agg={a}', f'feed={case["feed"]}(monitor only)'),
                     detail={'equal_to_list_of_fresh_trees': same})

    # ---- model: bit accounting and exact weighted mean (no draws involved)
    R = len(case['rounds'])
    ncl = max([len(cl) for cl in case['rounds']] + [0])
    mrounds = [[[[fr_list(lv) for lv in leaves], Fr(w)] for leaves, w in clients] for clients in case['rounds']]
    m_acc = ctx.drv.ask([line('c11.account', kind, L, mrounds)])[0]
    m_mean = ctx.drv.ask([line('c11.wmean', cl) for cl in mrounds]) if R else []

    # ---- per round: oracle + correspondence
    bits_prev = 0.0
    seen_state = {}
    marked_aggs = []        # identical-client probes: (round, aggregate) of rounds with one marked client
    all_q = []              # identical-client probes: every recorded per-client quantised tree
    for r, (clients, ir) in enumerate(zip(case['rounds'], impl_rounds)):
      out = ir['out']
      nl = len(rs[r])
      names = ALL[:nl]
      W = sum(w for _, w in clients)
      # documented formula, evaluated on THIS round's tree (independent of the implementation)
      P = sum(int(np.prod(sh)) if sh else 1 for sh in rs[r]) if clients else 0
      nleaves = nl if clients else 0
      finite = out is not None and all(np.all(np.isfinite(o)) for o in out)
      if out is not None and not finite:
        bad = [names[i] for i, o in enumerate(out) if not np.all(np.isfinite(o))]
        zero_leaf = any(all(x == 0.0 for x in lv) for leaves, _ in clients for lv in leaves)
        fail(f'round {r}: aggregate has non-finite values in leaves {bad} for finite client params',
             'nonfinite-zero-leaf' if zero_leaf else 'nonfinite')
      if out is not None and [o.shape for o in out] != [tuple(sh) for sh in rs[r]]:
        fail(f'round {r}: aggregate leaf shapes {[o.shape for o in out]} differ from the clients\' {rs[r]}', 'shape')

      # (1) per-client quantised trees, when every client went through the public helpers once
      qrec = ir['rec']['inv'] if kind in ('rotated', 'drive') else ir['rec']['quant']
      have = clients and len(qrec) == len(clients) and all(q_ is not None for q_ in qrec)
      if clients and not have:
        ctx.count('rounds_without_helper_records')
      if have and out is not None:
        # aggregate = weighted mean of the per-client quantised trees
        for l in range(nl):
          acc = np.zeros(out[l].shape, np.float64)
          for q_, (_, w) in zip(qrec, clients):
            acc += w * np.asarray(q_[l], np.float64)
          want = acc / W if W > 0 else acc * 0
          S = max([float(np.max(np.abs(q_[l]), initial=0.0)) for q_ in qrec])
          if np.all(np.isfinite(want)) and np.any(np.abs(out[l] - want) > 1e-5 * S + 1e-4 * np.abs(want) + 1e-30):
            fail(f'round {r} leaf {names[l]}: aggregate {out[l].reshape(-1)[:4]} is not the weighted mean '
                 f'{want.reshape(-1)[:4]} of the per-client quantised trees', 'not-weighted-mean')
      # every per-client quantised leaf lies on ITS grid (uniform/TernGrad: the client's own leaf;
      # rotated: the rotated leaf the implementation quantised; DRIVE: formula on the rotated leaf)
      qq = ir['rec']['quant']
      rr = ir['rec']['rot']
      if clients and len(qq) == len(clients) and all(x is not None for x in qq) and (
          kind in ('uniform', 'tern') or (len(rr) == len(clients) and all(x is not None for x in rr))):
        lines, meta = [], []
        for c, (leaves, w) in enumerate(clients):
          for l in range(nl):
            src = fr_list(leaves[l]) if kind in ('uniform', 'tern') else fr_list(rr[c][l])
            got = np.asarray(qq[c][l]).reshape(-1)
            if len(got) != len(src) or not np.all(np.isfinite(got)):
              continue
            qk = {'uniform': 'uniform', 'rotated': 'uniform', 'tern': 'tern', 'drive': 'drive'}[kind]
            p2, k2 = self.oracle_quant(qk, src, got, L)
            if p2:
              fail(f'round {r} client {c} leaf {names[l]}' + (' (rotated space)' if kind in ('rotated', 'drive') else '')
                   + ': ' + p2[0], k2 or 'not-neighbour')
            lines.append(self.adm_line(qk, src, L))
            meta.append((c, l, qk, src, got))
        for (c, l, qk, src, got), adm in zip(meta, ctx.drv.ask(lines)):
          bad = self.not_admissible(qk, src, got, adm, L)
          if bad:
            corr.append(f'round {r} client {c} leaf {names[l]}: {bad}')

      # (2) error bound against the exact weighted mean (uniform: coordinate-wise; rotated: l2)
      if kind in ('uniform', 'rotated') and clients and W > 0 and finite:
        for l in range(nl):
          exact = sum(w * np.asarray(lv[l], np.float64) for lv, w in clients) / W
          if kind == 'uniform':
            # convexity: |agg - mean| <= sum_i w_i step_i / W
            bound = sum(w * (max(lv[l]) - min(lv[l])) / (L - 1) for lv, w in clients) / W
            err = float(np.max(np.abs(out[l].reshape(-1) - exact)))
            S = max(max(abs(x) for x in lv[l]) for lv, _ in clients)
          else:
            bnds = []
            for c, (lv, w) in enumerate(clients):
              d = 1 << max(0, math.ceil(math.log2(len(lv[l])))) if len(lv[l]) > 1 else 1
              if len(rr) == len(clients) and rr[c] is not None:
                y = np.asarray(rr[c][l], np.float64)
                bnds.append(w * math.sqrt(len(y)) * (y.max() - y.min()) / (L - 1))
              else:   # without the rotated leaf: |y_i| <= |x|_2, so the range is at most 2 |x|_2
                bnds.append(w * math.sqrt(d) * 2 * float(np.linalg.norm(lv[l])) / (L - 1))
            bound = sum(bnds) / W
            err = float(np.linalg.norm(out[l].reshape(-1) - exact))
            S = max(float(np.linalg.norm(lv[l])) for lv, _ in clients)
          if err > bound + tol(S, 0) * 8:
            fail(f'round {r} leaf {names[l]}: aggregate is {err:.6g} from the exact weighted mean, '
                 f'more than the weighted per-client one-step bound {bound:.6g}', 'error-bound')
          # the same against the model's exact mean
          mm = m_mean[r]
          if mm is not None and len(mm) == nl and len(mm[l]) == out[l].size:
            merr = [abs(Fr(float(o)) - m) for o, m in zip(out[l].reshape(-1), mm[l])]
            mval = max(merr) if kind == 'uniform' else Fr(math.sqrt(float(sum(e * e for e in merr))))
            if float(mval) > bound + tol(S, 0) * 8:
              corr.append(f'round {r} leaf {names[l]}: aggregate is {float(mval):.6g} from the model\'s exact weighted mean '
                          f'(bound {bound:.6g})')
      # a round with exactly one positive weight returns that client's quantised tree: on its grid
      pos = [c for c, (_, w) in enumerate(clients) if w > 0]
      if kind in ('uniform', 'tern') and len(pos) == 1 and finite:
        leaves = clients[pos[0]][0]
        for l in range(nl):
          p2, k2 = self.oracle_quant(kind, fr_list(leaves[l]), out[l].reshape(-1), L)
          if p2:
            fail(f'round {r} leaf {names[l]} (only client {pos[0]} has positive weight): ' + p2[0], k2 or 'not-neighbour')

      # (3) the carried state key changes every round (never compared with a predicted key)
      sk = tuple(int(x) for x in np.asarray(ir['st'].rng).reshape(-1))
      pk = tuple(int(x) for x in np.asarray(ir['prev'].rng).reshape(-1))
      if sk == pk or sk in seen_state:
        fail(f'round {r}: state key not advanced (equal to the {seen_state.get(sk, "previous state")})',
             'state-key-not-advanced')
      seen_state[sk] = f'state after round {r}'
      seen_state.setdefault(pk, f'state before round {r}')

      # (4) bits
      nb = float(ir['st'].num_bits)
      delta = nb - bits_prev
      if a == 'uniform_arith':
        # documented value: the mean over THIS round's clients of the code length of their quantised
        # trees (data dependent; the code length itself is the module's arithmetic_encoding_num_bits)
        costs = None
        if len(qq) == len(clients) and all(x is not None for x in qq):
          costs = [sum(float(C.arithmetic_encoding_num_bits(jnp.asarray(lf))) for lf in q_) for q_ in qq]
        if not math.isfinite(nb) or delta < 0 or (clients and delta <= 0):
          fail(f'round {r}: arithmetic-coding bit count {bits_prev} -> {nb}', 'bits')
        elif costs is not None:
          want = sum(costs) / len(costs) if costs else 0.0
          if abs(delta - want) > 1e-5 * (abs(nb) + want) + 1e-4:
            fail(f'round {r}: num_bits grew by {delta}, but the mean arithmetic code length of this '
                 f"round's {len(costs)} quantised client trees is {want}"
                 + (' (the round was retried after a failed attempt)' if any(fr == r for fr, _ in case.get('faults', [])) else ''),
                 'bits')
      else:
        per = {'uniform': math.log2(L), 'rotated': math.log2(L), 'tern': math.log2(3), 'drive': 1.0}[kind]
        want = per * P + 64 * nleaves
        if abs(delta - want) > 1e-5 * (abs(nb) + want) + 1e-6:
          fail(f'round {r}: num_bits grew by {delta}, documented formula gives {want} '
               f'({per:.4g} bits x {P} params + 64 x {nleaves} leaves)', 'bits')
        m_none, m_log, m_const, m_shape = m_acc[r]
        mb = per * m_log + m_const
        if abs(mb - nb) > 1e-5 * abs(mb) + 1e-6:
          corr.append(f'round {r}: num_bits impl {nb} vs model {mb}')
        if bool(m_none) != (out is None):
          corr.append(f'round {r}: aggregate is {"None" if out is None else "a tree"}, model says '
                      f'{"None" if m_none else "a tree"}')
        elif out is not None and [int(o.size) for o in out] != m_shape:
          corr.append(f'round {r}: aggregate leaf sizes {[int(o.size) for o in out]} vs model {m_shape}')
      bits_prev = nb

      # (5) a retried / streamed round equals the same round given as a list to a fresh aggregator
      if ir['ref'] is not None:
        out_f, st_f = ir['ref']
        diffs = same_result(out, ir['st'], out_f, st_f)
        if diffs:
          how = []
          if case.get('faults'):
            how.append(f'after failed attempts {case.get("faults")} as [round, clients the stream yielded before raising]')
          if case.get('feed', 'list') != 'list':
            how.append('clients fed by a one-shot generator of fresh trees')
          fail(f'round {r} ({"; ".join(how)}) differs from the same round given as a list of fresh trees '
               f'to a fresh aggregator object: ' + ', '.join(diffs),
               'retry-differs' if case.get('faults') and case.get('feed', 'list') == 'list' else 'stream-differs')

      # (6) identical-client probes: different clients / rounds must get different randomness.
      # Observed on VALUES only: all clients hold the same large off-grid tree, so equal quantised
      # trees mean equal randomness (an independent pair coincides with probability <= 2^-60).
      if case.get('identical') and finite:
        if have:
          for c, q_ in enumerate(qrec if kind == 'drive' else qq if len(qq) == len(clients) else qrec):
            all_q.append((r, c, np.concatenate([np.asarray(x).reshape(-1) for x in q_])))
        if len(pos) == 2 and abs(clients[pos[0]][1] - clients[pos[1]][1]) == 0 and kind in ('uniform', 'tern'):
          # the aggregate of two identical clients with equal weights: if both drew the same
          # randomness every coordinate sits on a level of the client's grid
          leaves = clients[pos[0]][0]
          onlev = True
          for l in range(nl):
            p2, _ = self.oracle_quant(kind, fr_list(leaves[l]), out[l].reshape(-1), L)
            onlev = onlev and not p2
          if onlev:
            fail(f'round {r}: clients {pos[0]} and {pos[1]} hold the same off-grid update with equal weights and the '
                 f'aggregate of the two lies entirely on the quantization levels: both were quantised with the same randomness',
                 'same-randomness')
        if len(pos) == 1:
          marked_aggs.append((r, pos[0], np.concatenate([o.reshape(-1) for o in out])))
    if case.get('identical'):
      for i in range(len(all_q)):
        for j in range(i + 1, len(all_q)):
          (r1, c1, q1), (r2, c2, q2) = all_q[i], all_q[j]
          if q1.shape == q2.shape and np.array_equal(q1, q2):
            fail(f'round {r2} client {c2} and round {r1} client {c1} hold the same off-grid update and were quantised '
                 f'to exactly the same tree: same randomness for different clients / rounds', 'same-randomness')
            break
        if okey and okey.endswith('same-randomness'):
          break
      for i in range(len(marked_aggs)):
        for j in range(i + 1, len(marked_aggs)):
          (r1, c1, q1), (r2, c2, q2) = marked_aggs[i], marked_aggs[j]
          if q1.shape == q2.shape and np.array_equal(q1, q2):
            fail(f'rounds {r1} and {r2} aggregate the same single off-grid update (clients {c1} / {c2}) and return '
                 f'exactly the same tree: same randomness in different rounds', 'same-randomness')
    ctx.count('agg_rounds', R)
    distinct = len({str(cl[0]) for rd in case['rounds'] for cl in rd}) > 1 or bool(case.get('identical'))
    varies = 'same' if all(x == rs[0] for x in rs) else ('leaves' if len({len(x) for x in rs}) > 1 else 'shapes')
    mags = [abs(x) for rd in case['rounds'] for lv, _ in rd for leaf in lv for x in leaf if x != 0.0]
    mag = 'zero' if not mags else ('tiny' if max(mags) < 1e-6 else ('large' if max(mags) > 1e5 else 'unit'))
    tags = (f'agg={a}', f'rounds={R}', f'clients={ncl if ncl <= 4 else ">64" if ncl > 64 else ">4"}',
            f'failed_attempts={len(case.get("faults", []))}', f'feed={case.get("feed", "list")}', f'leaves={len(ALL)}',
            f'tree_over_rounds={varies}', f'identical_clients={bool(case.get("identical"))}',
            f'magnitude={mag}', f'L={L}' if kind in ('uniform', 'rotated') else 'L=-')
    return Outcome(oracle_fail='; '.join(problems[:3]) or None, corr_fail='; '.join(corr[:3]) or None, key=okey,
                   nontrivial=distinct, tags=tags,
                   detail={'impl': [None if ir['out'] is None else [o.reshape(-1).tolist()[:16] for o in ir['out']] for ir in impl_rounds],
                           'impl_bits': [float(ir['st'].num_bits) for ir in impl_rounds],
                           'model_account': m_acc})

  # ---- admissible values from the model ---------------------------------------------------------
  def adm_line(self, q, v, L):
    if q == 'uniform':
      return line('c11.adm_uniform', L, v)
    if q == 'binary':
      return line('c11.adm_binary', v)
    if q == 'tern':
      return line('c11.adm_tern', Fr(std64(v)), v)
    return line('c11.drive', v)

  def not_admissible(self, q, v, got, adm, L):
    """model side of the per-coordinate clause: every output is one of the two admissible values the
    model lists (DRIVE: the one value).  Returns a description of the first offending coordinate."""
    S = max([abs(x) for x in v] + [Fr(0)])
    if q in ('uniform', 'binary'):
      S = abs(min(v)) + abs(max(v))
    Lq = L if q == 'uniform' else 2
    step = (max(v) - min(v)) / (Lq - 1) if q in ('uniform', 'binary') else Fr(0)
    for i, (o, ad) in enumerate(zip(got, adm)):
      o = float(o)
      if not math.isfinite(o):
        return f'coordinate {i}: non-finite {o}'
      oq = Fr(o)
      cands = [ad] if q == 'drive' else list(ad)
      eps = tol(S, oq) * (4 if q == 'drive' else 1)
      if any(abs(oq - c) <= eps for c in cands):
        continue
      if q == 'uniform' and step > 0:
        # float32 evaluation of the grid position may cross an integer when x is within rounding
        # of a level: then the next level outward is a neighbour in float arithmetic
        lo, hi = cands
        t = (v[i] - min(v)) / step
        slack = Fr(1, 10 ** 5) * max(1, abs(t)) * step
        extra = ([lo - step] if v[i] - lo <= slack else []) + ([hi + step] if hi - v[i] <= slack else [])
        if any(abs(oq - c) <= eps for c in extra):
          continue
      return (f'coordinate {i}: {float(v[i])} -> {o} is not one of the admissible values '
              f'{[float(c) for c in cands]} of the model')
    return None


PROPERTY = C11
