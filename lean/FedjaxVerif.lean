import FedjaxVerif.Model.Proto
import FedjaxVerif.Model.Batching
import FedjaxVerif.Handlers.C03
import FedjaxVerif.Props.C03
