import FedjaxVerif.Model.Proto
import FedjaxVerif.Model.Batching
import FedjaxVerif.Handlers.C03
import FedjaxVerif.Props.C03
import FedjaxVerif.Handlers.C02
import FedjaxVerif.Model.ForEach
import FedjaxVerif.Props.C02
