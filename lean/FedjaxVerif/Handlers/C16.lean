import FedjaxVerif.Model.Proto
import FedjaxVerif.Model.Serialize

/-!
Protocol ops of C16 (nothing here is used by a theorem).

Python values are sent as tagged lists:
  `[none]` `[bool,true]` `[int,5]` `[float,x<8 bytes hex>]` `[str,x<utf8 hex>]` `[bytes,x<hex>]`
  `[complex,x<re>,x<im>]` `[nd,[shape],dtype-name,swapped,[x<item>,…]]` `[nps,dtype-name,x<item>]`
  `[obj,[shape],[elem,…]]` `[tuple,[…]]` `[list,[…]]` `[dict,[[k,v],…]]` `[other]`
msgpack values are answered as
  `[nil]` `[bool,b]` `[int,i]` `[float,x…]` `[str,x<utf8 hex>]` `[bin,x…]` `[arr,[…]]`
  `[map,[[k,v],…]]` `[ext,code,payload]`.
-/

namespace FedjaxVerif.Handlers.C16
open FedjaxVerif Serialize

def hexDigit (n : Nat) : Char := if n < 10 then Char.ofNat (48 + n) else Char.ofNat (87 + n)

def hexOf (b : Bytes) : String :=
  String.ofList ('x' :: b.flatMap fun n => [hexDigit (n / 16 % 16), hexDigit (n % 16)])

def unhexDigit (c : Char) : Option Nat :=
  if c.isDigit then some (c.toNat - 48)
  else if 'a' ≤ c ∧ c ≤ 'f' then some (c.toNat - 87)
  else none

def unhexGo : List Char → Option Bytes
  | [] => some []
  | [_] => none
  | a :: b :: rest => do
    let x ← unhexDigit a; let y ← unhexDigit b; let r ← unhexGo rest
    pure ((x * 16 + y) :: r)

def unhex (s : String) : Option Bytes :=
  match s.toList with
  | 'x' :: rest => unhexGo rest
  | _ => none

def toBytes? : Val → Option Bytes
  | .sym s => unhex s
  | _ => none

def strOfBytes (b : Bytes) : Option String :=
  String.fromUTF8? (ByteArray.mk (b.map (·.toUInt8)).toArray)

def toStr? (v : Val) : Option String := do strOfBytes (← toBytes? v)

def flexBits (pre : String) (s : String) : Option Nat :=
  if s.startsWith pre then (s.drop pre.length).toString.toNat? else none

/-- dtype tokens: the `dtype.name`, with `avoid<bits>` for an aligned struct. -/
def dtypeOfTok (s : String) : Option DType :=
  match DType.ofName s with
  | some d => some d
  | none =>
    match flexBits "str" s, flexBits "bytes" s, flexBits "void" s, flexBits "avoid" s with
    | some b, _, _, _ => some (.strN b)
    | _, some b, _, _ => some (.bytesN b)
    | _, _, some b, _ => some (.voidN b false)
    | _, _, _, some b => some (.voidN b true)
    | _, _, _, _ => none

def dtypeTok (d : DType) : String :=
  match d with
  | .voidN b true => "avoid" ++ toString b
  | d => d.name

partial def pyOf : Val → Option PyVal
  | .list [.sym "none"] => some .none
  | .list [.sym "bool", b] => do pure (.bool (← b.toBool?))
  | .list [.sym "int", i] => do pure (.int (← i.toInt?))
  | .list [.sym "float", b] => do pure (.float (← toBytes? b))
  | .list [.sym "str", b] => do pure (.str (← toStr? b))
  | .list [.sym "bytes", b] => do pure (.bytes (← toBytes? b))
  | .list [.sym "complex", a, b] => do pure (.complex (← toBytes? a) (← toBytes? b))
  | .list [.sym "nd", sh, .sym dt, sw, .list items] => do
    pure (.ndarray ⟨← sh.toNats?, ← dtypeOfTok dt, ← sw.toBool?, ← items.mapM toBytes?⟩)
  | .list [.sym "nps", .sym dt, it] => do pure (.npscalar (← dtypeOfTok dt) (← toBytes? it))
  | .list [.sym "obj", sh, .list es] => do pure (.objarr (← sh.toNats?) (← es.mapM pyOf))
  | .list [.sym "tuple", .list es] => do pure (.tuple (← es.mapM pyOf))
  | .list [.sym "list", .list es] => do pure (.list (← es.mapM pyOf))
  | .list [.sym "dict", .list kvs] => do
    pure (.dict (← kvs.mapM fun kv => match kv with
      | .list [k, x] => do pure (← pyOf k, ← pyOf x)
      | _ => none))
  | .list [.sym "other"] => some .other
  | _ => none

partial def mvalVal : MVal → Val
  | .nil => .list [.sym "nil"]
  | .bool b => .list [.sym "bool", Val.ofBool b]
  | .int i => .list [.sym "int", Val.ofInt i]
  | .float b => .list [.sym "float", .sym (hexOf b)]
  | .str s => .list [.sym "str", .sym (hexOf (utf8 s))]
  | .bin b => .list [.sym "bin", .sym (hexOf b)]
  | .arr l => .list [.sym "arr", .list (l.map mvalVal)]
  | .map kvs => .list [.sym "map", .list (kvs.map fun kv => .list [mvalVal kv.1, mvalVal kv.2])]
  | .ext c p => .list [.sym "ext", Val.ofNat c, mvalVal p]

partial def pyVal : PyVal → Val
  | .none => .list [.sym "none"]
  | .bool b => .list [.sym "bool", Val.ofBool b]
  | .int i => .list [.sym "int", Val.ofInt i]
  | .float b => .list [.sym "float", .sym (hexOf b)]
  | .str s => .list [.sym "str", .sym (hexOf (utf8 s))]
  | .bytes b => .list [.sym "bytes", .sym (hexOf b)]
  | .complex a b => .list [.sym "complex", .sym (hexOf a), .sym (hexOf b)]
  | .ndarray a => .list [.sym "nd", Val.ofNats a.shape, .sym (dtypeTok a.dtype), Val.ofBool a.swapped,
      .list (a.elems.map fun it => .sym (hexOf it))]
  | .npscalar dt it => .list [.sym "nps", .sym (dtypeTok dt), .sym (hexOf it)]
  | .objarr sh es => .list [.sym "obj", Val.ofNats sh, .list (es.map pyVal)]
  | .tuple es => .list [.sym "tuple", .list (es.map pyVal)]
  | .list es => .list [.sym "list", .list (es.map pyVal)]
  | .dict kvs => .list [.sym "dict", .list (kvs.map fun kv => .list [pyVal kv.1, pyVal kv.2])]
  | .extType c p => .list [.sym "exttype", Val.ofNat c, mvalVal p]
  | .other => .list [.sym "other"]

def errName : Err → String
  | .typeError => "TypeError" | .valueError => "ValueError" | .overflowError => "OverflowError"
  | .indexError => "IndexError" | .integrityError => "IntegrityError" | .keyError => "KeyError"

def variantOf : Val → Option Variant
  | .sym "repaired" => some .repaired
  | .sym "asis" => some .asIs
  | _ => none

def rtVal (v : Variant) (x : PyVal) : Val :=
  match encode v x with
  | .error e => .list [.sym "err", .sym "enc", .sym (errName e)]
  | .ok m =>
    match decode m with
    | .error e => .list [.sym "err", .sym "dec", .sym (errName e)]
    | .ok y => .list [.sym "ok", pyVal y]

def exceptVal {α} (f : α → Val) : Except Err α → Val
  | .ok a => .list [.sym "ok", f a]
  | .error e => .list [.sym "err", .sym (errName e)]

/-- `c16.sqlite variant [[[id,examples],…],…]`: one inner list per `add_many` call. A failing call
leaves the table as it was. Answer: per call `ok`/`err`, then ids, sizes, and every client's examples. -/
def sqliteVal (v : Variant) (calls : List (List (Bytes × PyVal))) : Val :=
  let step := fun (acc : Table MVal × List Val) (call : List (Bytes × PyVal)) =>
    match addMany idCodec v acc.1 call with
    | .ok t => (t, acc.2 ++ [Val.sym "ok"])
    | .error e => (acc.1, acc.2 ++ [Val.sym (errName e)])
  let (t, log) := calls.foldl step (([] : Table MVal), ([] : List Val))
  .list [.list log,
         .list ((clientIds t).map fun i => .sym (hexOf i)),
         .list ((clientSizes t).map fun p => .list [.sym (hexOf p.1), Val.ofNat p.2]),
         .list ((clientIds t).map fun i => .list [exceptVal Val.ofNat (clientSize t i),
                                                   exceptVal pyVal (getClient idCodec t i)])]

/-- `c16.ckpt keep [[round,tag],…]`: after every save the listing `[[round,tag],…]` and the latest
`[round,tag]` (or `none`). Tags are the indices of the saves. -/
def ckptVal (keep : Nat) (h : List (Nat × Nat)) : Val :=
  let step := fun (acc : Dir Nat × List Val) (p : Nat × Nat) =>
    let d := saveCkpt keep acc.1 p.1 p.2
    let latest := match loadLatest d with
      | some (s, r) => Val.list [Val.ofNat r, Val.ofNat s]
      | none => Val.sym "none"
    (d, acc.2 ++ [Val.list [Val.list (d.map fun q => Val.list [Val.ofNat q.1, Val.ofNat q.2]), latest]])
  .list (h.foldl step (([] : Dir Nat), ([] : List Val))).2

def handle (op : String) (args : List Val) : Option Val :=
  match op, args with
  | "c16.ckpt", [keep, .list h] => do
    let keep ← keep.toNat?
    let h ← h.mapM fun p => match p with
      | .list [r, t] => do pure (← r.toNat?, ← t.toNat?)
      | _ => none
    if h.any (fun p => p.1 ≥ 100000000) then some (.sym "err") else
    some (ckptVal keep h)
  | "c16.enc", [v, x] => do
    let v ← variantOf v; let x ← pyOf x
    some (exceptVal mvalVal (encode v x))
  | "c16.rt", [v, x] => do
    let v ← variantOf v; let x ← pyOf x
    some (rtVal v x)
  | "c16.class", [x] => do
    let x ← pyOf x
    some (.list [Val.ofBool (wf x), Val.ofBool (supported x)])
  | "c16.native", [x] => do
    let x ← pyOf x
    some (pyVal (native x))
  | "c16.values", [x] => do
    match ← pyOf x with
    | .ndarray a => some (.list (a.values.map Val.ofNats))
    | _ => some (.sym "err")
  | "c16.numexamples", [x] => do
    let x ← pyOf x
    some (exceptVal Val.ofNat (numExamples x))
  | "c16.sqlite", [v, .list calls] => do
    let v ← variantOf v
    let calls ← calls.mapM fun c => match c with
      | .list rows => rows.mapM fun r => match r with
        | .list [i, ex] => do pure (← toBytes? i, ← pyOf ex)
        | _ => none
      | _ => none
    some (sqliteVal v calls)
  | _, _ => none

end FedjaxVerif.Handlers.C16
