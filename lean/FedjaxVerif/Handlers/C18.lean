import FedjaxVerif.Model.Proto
import FedjaxVerif.Model.Hadamard

namespace FedjaxVerif.Handlers.C18
open FedjaxVerif Hadamard

def ofExcept : Except String (List Rat) → Val
  | .ok l => .list [.sym "ok", Val.ofRats l]
  | .error e => .list [.sym "err", .sym e]

def ofExceptTree : Except String (List (List Rat)) → Val
  | .ok l => .list [.sym "ok", .list (l.map Val.ofRats)]
  | .error e => .list [.sym "err", .sym e]

def ones (n : Nat) : List Rat := List.replicate n 1

def handle (op : String) (args : List Val) : Option Val :=
  match op, args with
  | "c18.shape", [n, small] => do
    let n ← n.toNat?; let small ← small.toNat?
    if small ≤ 1 then some (.sym "err") else some (Val.ofNats (shapeOf n small))
  | "c18.fwht", [small, x] => do
    let small ← small.toNat?; let x ← x.toRats?
    some (ofExcept (fwht small x))
  | "c18.hmul", [k, x] => do
    let k ← k.toNat?; let x ← x.toRats?
    some (Val.ofRats (hmul k x))
  | "c18.hentry", [k, i, j] => do
    let k ← k.toNat?; let i ← i.toNat?; let j ← j.toNat?
    some (Val.ofInt (hEntry k i j))
  | "c18.ceillog2", [n] => do
    let n ← n.toNat?
    some (Val.ofNat (ceilLog2 n))
  | "c18.rot", [signs, x] => do
    let signs ← signs.toInts?; let x ← x.toRats?
    some (ofExcept (rotU signs x))
  | "c18.invrot", [signs, y, shape] => do
    let signs ← signs.toInts?; let y ← y.toRats?; let shape ← shape.toNats?
    some (ofExcept (invRotU signs y shape))
  | "c18.rottree", [signss, xs] => do
    let signss ← signss.toIntss?; let xs ← xs.toRatss?
    some (ofExceptTree (rotTree (ones xs.length) signss xs))
  | "c18.invrottree", [signss, ys, shapes] => do
    let signss ← signss.toIntss?; let ys ← ys.toRatss?; let shapes ← shapes.toNatss?
    some (ofExceptTree (invRotTree (ones ys.length) signss ys shapes))
  | _, _ => none

end FedjaxVerif.Handlers.C18
