import FedjaxVerif.Model.Proto
import FedjaxVerif.Model.TreeUtil

namespace FedjaxVerif.Handlers.C07
open FedjaxVerif TreeUtil

def ofOptTree : Option Tree → Val
  | none => .sym "none"
  | some t => Val.ofRats t

/-- all trees must have the same number of coordinates (the real code raises on a structure mismatch) -/
def sameLen (ts : List Tree) : Bool :=
  match ts with
  | [] => true
  | t :: rest => rest.all (fun u => u.length == t.length)

def handle (op : String) (args : List Val) : Option Val :=
  match op, args with
  | "c07.weight", [t, w] => do
    let t ← t.toRats?; let w ← w.toRat?
    some (Val.ofRats (treeWeight t w))
  | "c07.invweight", [t, w] => do
    let t ← t.toRats?; let w ← w.toRat?
    some (Val.ofRats (treeInverseWeight t w))
  | "c07.sum", [ts] => do
    let ts ← ts.toRatss?
    if !sameLen ts then some (.sym "err") else
    some (ofOptTree (treeSum ts))
  | "c07.mean", [ts, ws] => do
    let ts ← ts.toRatss?; let ws ← ws.toRats?
    if !sameLen ts || ts.length != ws.length then some (.sym "err") else
    some (ofOptTree (treeMean (ts.zip ws)))
  | "c07.agg", [ts, ws] => do
    let ts ← ts.toRatss?; let ws ← ws.toRats?
    if !sameLen ts || ts.length != ws.length then some (.sym "err") else
    some (ofOptTree (meanAggregator ((List.range ts.length).zip (ts.zip ws))))
  | "c07.clip", [nrm, m, xs] => do
    -- answers [clipped tree | none, l2Squared xs] so that the caller can check nrm² against it
    let nrm ← nrm.toRat?; let m ← m.toRat?; let xs ← xs.toRats?
    some (.list [ofOptTree (clipByGlobalNorm nrm m xs), .num (l2Squared xs)])
  | _, _ => none

end FedjaxVerif.Handlers.C07
