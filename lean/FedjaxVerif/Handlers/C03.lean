import FedjaxVerif.Model.Proto
import FedjaxVerif.Model.Batching

namespace FedjaxVerif.Handlers.C03
open FedjaxVerif Batching

def ids (n : Nat) : List Nat := (List.range n).map (· + 1)

def handle (op : String) (args : List Val) : Option Val :=
  match op, args with
  | "c03.pick", [n, bs, b] => do
    let n ← n.toNat?; let bs ← bs.toNat?; let b ← b.toNat?
    if bs = 0 then some (.sym "err") else
    some (Val.ofNat (pickFinal n bs b))
  | "c03.batch", [bs, drop, n] => do
    let n ← n.toNat?; let bs ← bs.toNat?; let drop ← drop.toBool?
    if bs = 0 then some (.sym "err") else
    some (.list ((batchView bs drop (ids n)).map Val.ofNats))
  | "c03.padded", [bs, b, n] => do
    let n ← n.toNat?; let bs ← bs.toNat?; let b ← b.toNat?
    if bs = 0 then some (.sym "err") else
    match paddedView bs b 0 (ids n) with
    | none => some (.sym "err")
    | some bsx => some (.list (bsx.map fun p => .list [Val.ofNats p.1, Val.ofBools p.2]))
  | _, _ => none

end FedjaxVerif.Handlers.C03
