import FedjaxVerif.Model.Proto
import FedjaxVerif.Model.Stats
import FedjaxVerif.Model.Metrics

/-
Protocol ops of C14 (metric reference values).

metric spec (nested list):
  [ce] [acc] [topk,k] [stce,masked,pp] [sce,masked] [stacc,masked,lmask,pp]
  [sttopk,k,masked,lmask,pp] [trunc,eos,masked] [oov,oovs,masked,pp] [len,masked]
  [count,masked] [scount,masked] [cm,C] [pd,spec,D]
  (masked/oovs: int lists; lmask: `none` or a list of ints / `ninf` / `pinf`; pp: bool)
example: [targets, scores, logp, domain]

  c14.eval spec ex           -> [mean,[[accum,weight],…],[result,…]] | [sum,[accum,…]] | err
  c14.argmax scores          -> index            (scores: list of ints / ninf / pinf)
  c14.argsort scores         -> class list
  c14.rank scores            -> rank of every class
-/

namespace FedjaxVerif.Handlers.C14
open FedjaxVerif Stats Metrics

def toScore? : Val → Option Score
  | .sym "ninf" => some .ninf
  | .sym "pinf" => some .pinf
  | v => v.toInt?.map .fin

def toScores? : Val → Option (List Score) := Val.mapM? toScore?

def toLmask? : Val → Option (Option (List Score))
  | .sym "none" => some none
  | v => (toScores? v).map some

inductive AnyMetric where
  | mean (m : MeanMetric)
  | sum (m : SumMetric)

/-- fuel-bounded because `pd` nests -/
def parseMetric : Nat → Val → Option AnyMetric
  | 0, _ => none
  | fuel + 1, .list (.sym name :: args) =>
    match name, args with
    | "ce", [] => some (.mean .crossEntropy)
    | "acc", [] => some (.mean .accuracy)
    | "topk", [k] => do some (.mean (.topK (← k.toInt?)))
    | "stce", [m, pp] => do some (.mean (.seqTokenCE (← m.toInts?) (← pp.toBool?)))
    | "sce", [m] => do some (.mean (.seqCE (← m.toInts?)))
    | "stacc", [m, lm, pp] => do some (.mean (.seqTokenAcc (← m.toInts?) (← toLmask? lm) (← pp.toBool?)))
    | "sttopk", [k, m, lm, pp] => do
        some (.mean (.seqTokenTopK (← k.toInt?) (← m.toInts?) (← toLmask? lm) (← pp.toBool?)))
    | "trunc", [eos, m] => do some (.mean (.seqTruncRate (← eos.toInt?) (← m.toInts?)))
    | "oov", [o, m, pp] => do some (.mean (.seqOOVRate (← o.toInts?) (← m.toInts?) (← pp.toBool?)))
    | "len", [m] => do some (.mean (.seqLength (← m.toInts?)))
    | "count", [m] => do some (.sum (.seqTokenCount (← m.toInts?)))
    | "scount", [m] => do some (.sum (.seqCount (← m.toInts?)))
    | "cm", [c] => do some (.sum (.confusion (← c.toNat?)))
    | "pd", [b, d] => do
        let d ← d.toNat?
        match ← parseMetric fuel b with
        | .mean m => some (.mean (.perDomain m d))
        | .sum m => some (.sum (.perDomain m d))
    | _, _ => none
  | _, _ => none

def parseEx : Val → Option Ex
  | .list [ts, sc, lp, d] => do
    some { targets := ← ts.toInts?, scores := ← sc.toIntss?, logp := ← lp.toRatss?, domain := ← d.toInt? }
  | _ => none

def renderMean (l : List MeanStat) : Val :=
  .list [.sym "mean", .list (l.map fun s => .list [.num s.accum, .num s.weight]),
         .list (l.map fun s => .num s.result)]

def renderSum (l : List SumStat) : Val :=
  .list [.sym "sum", .list (l.map fun s => .num s.accum)]

def handle (op : String) (args : List Val) : Option Val :=
  match op, args with
  | "c14.eval", [spec, ex] => do
    let m ← parseMetric 8 spec
    let e ← parseEx ex
    match m with
    | .mean m => some (renderMean (m.eval e))
    | .sum m => if m.accepts e then some (renderSum (m.eval e)) else some (.sym "err")
  | "c14.argmax", [s] => do
    let s ← toScores? s
    if s.isEmpty then some (.sym "err") else some (Val.ofNat (argmaxFirst s))
  | "c14.argsort", [s] => do some (Val.ofNats (argsortDesc (← toScores? s)))
  | "c14.rank", [s] => do
    let s ← toScores? s
    some (Val.ofNats ((List.range s.length).map (rank s)))
  | _, _ => none

end FedjaxVerif.Handlers.C14
