import FedjaxVerif.Model.Proto
import FedjaxVerif.Model.Samplers

namespace FedjaxVerif.Handlers.C13
open FedjaxVerif Samplers

/-- symbolic oracles: a cohort is named by the numpy seed it is drawn with, keys by their round. -/
def symOracles : Oracles Nat Nat Nat :=
  { choice := fun s n => List.replicate n s, keys := fun r n => List.replicate n r, data := id }

/-- ops are encoded as integers: `-1` = `sample()`, `-2` = a `sample()` that raised while loading, `r ≥ 0` = `set_round_num(r)`. -/
def toOp? (v : Val) : Option Op := do
  let i ← v.toInt?
  if i = -1 then some .sample else if i = -2 then some .failedSample
  else if 0 ≤ i then some (.setRound i.toNat) else none

def renderOut : Option (List (Nat × Nat × Nat)) → Val
  | none => .sym "none"
  | some l => .list (l.map fun t => .list [Val.ofNat t.1, Val.ofNat t.2.2])

def handle (op : String) (args : List Val) : Option Val :=
  match op, args with
  | "c13.lehmer", [start, r] => do
    let start ← start.toNat?; let r ← r.toNat?
    some (Val.ofNat (lehmer start r))
  | "c13.powmod", [b, e, m] => do
    let b ← b.toNat?; let e ← e.toNat?; let m ← m.toNat?
    if m = 0 then some (.sym "err") else some (Val.ofNat (powMod b e m))
  | "c13.run", [start, n, r0, ops] => do
    let start ← start.toNat?; let n ← n.toNat?; let r0 ← r0.toNat?
    let ops ← Val.mapM? toOp? ops
    let r := run symOracles start n r0 ops
    some (.list [Val.ofNat r.1, .list (r.2.map renderOut)])
  | "c13.stream", [n, r0, k] => do
    let n ← n.toNat?; let r0 ← r0.toNat?; let k ← k.toNat?
    let r := SState.samples (fun i => i) (fun r n => List.replicate n r) n k (SState.init n r0)
    some (.list [.list (r.1.map fun c => .list (c.map fun p => .list [Val.ofNat p.1, Val.ofNat p.2])),
                 Val.ofNat r.2.pos, Val.ofNat r.2.round])
  | _, _ => none

end FedjaxVerif.Handlers.C13
