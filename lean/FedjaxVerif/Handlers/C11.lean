import FedjaxVerif.Model.Proto
import FedjaxVerif.Model.Quantize

namespace FedjaxVerif.Handlers.C11
open FedjaxVerif Quantize

def toPath? (v : Val) : Option Path := do
  let l ← v.toList?
  l.mapM fun p => do
    match ← p.toNats? with
    | [n, i] => some (n, i)
    | _ => none

def ofPath (p : Path) : Val := .list (p.map fun s => Val.ofNats [s.1, s.2])

def toTree? (v : Val) : Option Tree := v.toRatss?

def ofTree (t : Tree) : Val := .list (t.map Val.ofRats)

def ofOptTree : Option Tree → Val
  | none => .sym "none"
  | some t => ofTree t

def toClients? (v : Val) : Option (List (Tree × Rat)) := do
  let l ← v.toList?
  l.mapM fun c => do
    match ← c.toList? with
    | [t, w] => some (← toTree? t, ← w.toRat?)
    | _ => none

/-- association list `[[path, value], …]` -/
def toAssoc? {α} (f : Val → Option α) (v : Val) : Option (List (Path × α)) := do
  let l ← v.toList?
  l.mapM fun e => do
    match ← e.toList? with
    | [p, x] => some (← toPath? p, ← f x)
    | _ => none

def lookupD {α} (d : α) (m : List (Path × α)) (p : Path) : α :=
  match m.find? (fun e => e.1 == p) with
  | some e => e.2
  | none => d

def ofRound (r : Option Tree × CState) : Val :=
  .list [ofOptTree r.1, Val.ofNat r.2.logBits, Val.ofNat r.2.constBits, ofPath r.2.rng]

def handle (op : String) (args : List Val) : Option Val :=
  match op, args with
  | "c11.uniform", [l, us, v] => do
    let l ← l.toNat?; let us ← us.toRats?; let v ← v.toRats?
    if l < 2 ∨ v.isEmpty ∨ us.length ≠ v.length then some (.sym "err") else
    some (Val.ofRats (uniformQ l us v))
  | "c11.binary", [us, v] => do
    let us ← us.toRats?; let v ← v.toRats?
    if v.isEmpty ∨ us.length ≠ v.length then some (.sym "err") else
    some (Val.ofRats (binaryQ us v))
  | "c11.tern", [sigma, us, v] => do
    let sigma ← sigma.toRat?; let us ← us.toRats?; let v ← v.toRats?
    if v.isEmpty ∨ us.length ≠ v.length ∨ sigma < 0 then some (.sym "err") else
    some (Val.ofRats (ternQ sigma us v))
  | "c11.drive", [v] => do
    let v ← v.toRats?
    some (Val.ofRats (drive v))
  | "c11.adm_uniform", [l, v] => do
    let l ← l.toNat?; let v ← v.toRats?
    if l < 2 ∨ v.isEmpty then some (.sym "err") else
    some (.list ((admUniform l v).map fun p => Val.ofRats [p.1, p.2]))
  | "c11.adm_binary", [v] => do
    let v ← v.toRats?
    if v.isEmpty then some (.sym "err") else
    some (.list ((admBinary v).map fun p => Val.ofRats [p.1, p.2]))
  | "c11.adm_tern", [sigma, v] => do
    let sigma ← sigma.toRat?; let v ← v.toRats?
    if v.isEmpty ∨ sigma < 0 then some (.sym "err") else
    some (.list ((admTern sigma v).map fun p => Val.ofRats [p.1, p.2]))
  | "c11.wmean", [clients] => do
    let clients ← toClients? clients
    some (ofOptTree (treeMean clients))
  | "c11.account", [kind, l, rounds] => do
    -- bit accounting and aggregate shape of a history; they do not depend on the draws, so the
    -- draws are a constant dummy (long enough for every leaf; `zipWith` truncates)
    let kind ← kind.toSym?; let l ← l.toNat?
    let rounds ← (← rounds.toList?).mapM toClients?
    let draw : Path → List Rat := fun _ => List.replicate 4096 0
    let st := initState []
    let ofR (r : Option Tree × CState) : Val :=
      .list [Val.ofBool r.1.isNone, Val.ofNat r.2.logBits, Val.ofNat r.2.constBits,
             Val.ofNats ((r.1.getD []).map List.length)]
    match kind with
    | "uniform" => if l < 2 then some (.sym "err") else
      some (.list ((history (uniformRound l draw) st rounds).map ofR))
    | "rotated" => if l < 2 then some (.sym "err") else
      some (.list ((history (rotatedRound l draw) st rounds).map ofR))
    | "tern" => some (.list ((history (ternRound draw fun _ => 0) st rounds).map ofR))
    | "drive" => some (.list ((history (driveRound draw) st rounds).map ofR))
    | _ => some (.sym "err")
  | "c11.rotu", [signs, x] => do
    let signs ← signs.toRats?; let x ← x.toRats?
    if x.isEmpty then some (.sym "err") else
    some (Val.ofRats (rotU signs x))
  | "c11.keys", [kind, root, nl, rounds, clients] => do
    let kind ← kind.toSym?; let root ← toPath? root; let nl ← nl.toNat?
    let rounds ← rounds.toNat?; let clients ← clients.toNat?
    let rs := List.range rounds; let cs := List.range clients; let ls := List.range nl
    let per (f : Nat → Nat → Nat → Path) : Val :=
      .list (rs.map fun r => .list (cs.map fun c => .list (ls.map fun l => ofPath (f r c l))))
    match kind with
    | "uniform" | "tern" | "drive" =>
      some (.list [per (drawKey root nl), .list [],
                   .list ((List.range (rounds + 1)).map fun r => ofPath (stateRng 1 root r))])
    | "rotated" =>
      some (.list [per (rotDrawKey root nl),
                   .list (rs.map fun r => .list (ls.map fun l => ofPath (rotSignKey root nl r l))),
                   .list ((List.range (rounds + 1)).map fun r => ofPath (stateRng 2 root r))])
    | _ => some (.sym "err")
  | "c11.history", [kind, l, root, rounds, draws, sigmas] => do
    let kind ← kind.toSym?; let l ← l.toNat?; let root ← toPath? root
    let rounds ← (← rounds.toList?).mapM toClients?
    let draws ← toAssoc? Val.toRats? draws
    let sigmas ← toAssoc? Val.toRat? sigmas
    let draw := lookupD [] draws
    let sigma := lookupD 0 sigmas
    let st := initState root
    match kind with
    | "uniform" =>
      if l < 2 then some (.sym "err") else
      some (.list ((history (uniformRound l draw) st rounds).map ofRound))
    | "rotated" =>
      if l < 2 then some (.sym "err") else
      some (.list ((history (rotatedRound l draw) st rounds).map ofRound))
    | "tern" => some (.list ((history (ternRound draw sigma) st rounds).map ofRound))
    | "drive" => some (.list ((history (driveRound draw) st rounds).map ofRound))
    | _ => some (.sym "err")
  | _, _ => none

end FedjaxVerif.Handlers.C11
