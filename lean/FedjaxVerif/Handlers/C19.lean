import FedjaxVerif.Model.Proto
import FedjaxVerif.Model.Cache

namespace FedjaxVerif.Handlers.C19
open FedjaxVerif Cache

def names : List Name := [.dl, .dlPart, .dec, .decPart]

def nameSym : Name → String
  | .dl => "dl" | .dlPart => "dlPart" | .dec => "dec" | .decPart => "decPart"

def renderContent : Option Content → Val
  | none => .sym "none"
  | some c => .list [Val.ofNat c.len, Val.ofBool c.ok]

def renderFS (fs : FS) : Val := .list (names.map fun n => renderContent (fs n))

def parseContent : Val → Option (Option Content)
  | .sym "none" => some none
  | .list [l, o] => do
    let l ← l.toNat?; let o ← o.toBool?
    some (some ⟨l, o⟩)
  | _ => none

def parseFS : Val → Option FS
  | .list [a, b, c, d] => do
    let a ← parseContent a; let b ← parseContent b; let c ← parseContent c; let d ← parseContent d
    some fun n => match n with | .dl => a | .dlPart => b | .dec => c | .decPart => d
  | _ => none

def parseCall (v : Val) : Option Call := do
  let n ← v.toNat?
  if n = 0 then some .download else if n = 1 then some .decompress else none

def parseSizes (a b c d : Val) : Option Sizes := do
  let a ← a.toNat?; let b ← b.toNat?; let c ← c.toNat?; let d ← d.toNat?
  some ⟨a, b, c, d⟩

def renderEff : Eff → Val
  | .truncate n => .list [.sym "truncate", .sym (nameSym n)]
  | .net => .list [.sym "net"]
  | .read => .list [.sym "read"]
  | .append n m => .list [.sym "append", .sym (nameSym n), Val.ofNat m]
  | .rename a b => .list [.sym "rename", .sym (nameSym a), .sym (nameSym b)]

/-- one schedule element `[call, c, p]`; `c = -1` means "runs to completion". -/
def stepSched (z : Sizes) (acc : FS × List Val) (v : Val) : Option (FS × List Val) :=
  match v with
  | .list [call, c, p] => do
    let call ← parseCall call; let c ← c.toInt?; let p ← p.toNat?
    if c < 0 then
      match complete z call acc.1 with
      | none => some (acc.1, acc.2 ++ [.sym "raises"])
      | some fs' => some (fs', acc.2 ++ [renderFS fs'])
    else
      let fs' := crash z call acc.1 c.toNat p
      some (fs', acc.2 ++ [renderFS fs'])
  | _ => none

def handle (op : String) (args : List Val) : Option Val :=
  match op, args with
  | "c19.plan", [a, b, c, d, call, fs] => do
    let z ← parseSizes a b c d; let call ← parseCall call; let fs ← parseFS fs
    if z.dlBlock = 0 ∨ z.decBlock = 0 then some (.sym "err") else
    match plan z call fs with
    | none => some (.sym "raises")
    | some es => some (.list (es.map renderEff))
  | "c19.run", [a, b, c, d, fs, sched] => do
    let z ← parseSizes a b c d; let fs ← parseFS fs; let sched ← sched.toList?
    if z.dlBlock = 0 ∨ z.decBlock = 0 then some (.sym "err") else
    let r ← sched.foldlM (stepSched z) (fs, [])
    some (.list r.2)
  | _, _ => none

end FedjaxVerif.Handlers.C19
