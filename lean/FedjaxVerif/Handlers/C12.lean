import FedjaxVerif.Model.Proto
import FedjaxVerif.Model.FedAvg
import FedjaxVerif.Model.Algorithms
import FedjaxVerif.Handlers.C01

namespace FedjaxVerif.Handlers.C12
open FedjaxVerif FedAvg Algorithms
open FedjaxVerif.Handlers.C01 (Batch batchGrad parseOpt parseBatch dot)

/-- fixture shared with the harness (as in C01): linear regression rows `x ++ [y]`, batch gradient
of `½(w·x − y)²`, plus a key-dependent noise vector that the harness supplies for every key
*path* the documented key chain of the algorithm uses.  A key the table does not contain is a
harness/model disagreement about the key chain and poisons the gradient. -/
abbrev Tab := List (Key × P)

def parseKey (v : Val) : Option Key := v.toBools?

def parseTab (v : Val) : Option Tab :=
  Val.mapM? (fun e => match e with
    | .list [k, vec] => do
      let k ← parseKey k; let vec ← vec.toRats?
      some (k, vec)
    | _ => none) v

def poison (w : P) : P := w.map fun _ => 1000000

/-- The driver's optimizers and gradient fixture round their outputs down to the grid `2⁻⁸⁰`
(the real ones round to `2⁻²⁴` relative): products of state-dependent quantities (APFL's
interpolation, agnostic FedAvg's α/β scaling) otherwise double the number of digits of the exact
rationals at every step.  Optimizers and gradients are *parameters* of the models; the theorems
hold for these instances as for any other. -/
def rnd (q : Rat) : Rat := ((q * ((2 ^ 80 : Nat) : Rat)).floor : Rat) / ((2 ^ 80 : Nat) : Rat)

def roundedOpt (o : Optimizer P) : Optimizer P :=
  { init := o.init, apply := fun g s p => let r := o.apply g s p; (r.1.map rnd, r.2.map rnd) }

def parseOptR (v : Val) : Option (Optimizer P) := (parseOpt v).map roundedOpt

/-- the loss of a probe: key-dependent term on/off and the weight `lam` of an optional L2
regulariser `lam/2·‖w‖²` (gradient `lam·w`, added once per call as `models.grad` does).
Protocol: `keyed` or `[keyed, lam]`. -/
structure LossSpec where
  keyed : Bool
  lam : Rat

def parseLoss (v : Val) : Option LossSpec :=
  match v with
  | .list [k, l] => do some ⟨(← k.toBool?), (← l.toRat?)⟩
  | _ => v.toBool?.map fun k => ⟨k, 0⟩

def gradTab (ls : LossSpec) (tab : Tab) (w : P) (b : Batch) (k : Key) : P :=
  let reg := vscale ls.lam w
  if ls.keyed then
    match tab.lookup k with
    | some nz => (vadd (vadd (batchGrad w b) nz) reg).map rnd
    | none => poison w
  else (vadd (batchGrad w b) reg).map rnd

def rowLoss (w : P) (row : List Rat) : Rat :=
  let e := dot w row.dropLast - row.getLastD 0
  e * e / 2

/-- `AverageLossEvaluator` on the fixture (key-free): mean loss over the client's rows, `safe_div` -/
def avgLoss (w : P) (rows : Batch) (_ : Key) : Rat :=
  if rows.length = 0 then 0 else (rows.foldl (fun acc r => acc + rowLoss w r) 0) / (rows.length : Rat)

/-- with a regulariser the evaluator adds `regularizer(params)` to the average loss (also for a
client without examples): `lam/2·‖w‖²` -/
def avgLossReg (ls : LossSpec) (w : P) (rows : Batch) (k : Key) : Rat :=
  avgLoss w rows k + ls.lam / 2 * (w.map fun x => x * x).foldl (· + ·) 0

def splitN (k : Key) (n : Nat) : List Key :=
  (List.range n).map fun i => k ++ List.replicate (i + 1) true ++ [false]

def split3 (k : Key) : Key × Key × Key := (k ++ [false, false], k ++ [false, true], k ++ [true, false])

/-- `tree_l2_norm` to 12 decimals (integer square root) -/
def nrmApprox (v : P) : Rat :=
  let s := (v.map fun x => x * x).foldl (· + ·) 0
  let scaled : Nat := (s * ((10 ^ 24 : Nat) : Rat)).floor.toNat
  (Nat.sqrt scaled : Rat) / ((10 ^ 12 : Nat) : Rat)

def parseClient (v : Val) : Option (Client Nat Batch) :=
  match v with
  | .list (i :: sz :: bs :: k :: _) => do
    let i ← i.toNat?; let sz ← sz.toNat?
    let bs ← Val.mapM? parseBatch bs
    let k ← parseKey k
    some ⟨i, sz, bs, k⟩
  | _ => none

def parseGBatch (v : Val) : Option (Batch × Nat) :=
  match v with
  | .list [b, n] => do some ((← parseBatch b), (← n.toNat?))
  | _ => none

def parseGClient (v : Val) : Option (GClient Nat Batch) :=
  match v with
  | .list [_, _, _, _, gb] => do
    let c ← parseClient v
    let gb ← Val.mapM? parseGBatch gb
    some ⟨c, gb⟩
  | _ => none

def parseHClient (v : Val) : Option (HClient Nat Batch Batch) :=
  match v with
  | .list [_, _, _, _, rows] => do
    let c ← parseClient v
    let rows ← parseBatch rows
    some ⟨c, rows⟩
  | _ => none

/-- a cohort comes with the noise table of its round: `[clients, tab]` -/
def parseCohort {α} (pc : Val → Option α) (v : Val) : Option (List α × Tab) :=
  match v with
  | .list [cs, tab] => do some ((← Val.mapM? pc cs), (← parseTab tab))
  | _ => none

def parseOptRat (v : Val) : Option (Option Rat) :=
  match v with
  | .sym "none" => some none
  | _ => v.toRat?.map some

def history {σ α} (step : σ → α → σ) (s : σ) (xs : List α) : List σ :=
  (xs.foldl (fun (acc : σ × List σ) x => let s' := step acc.1 x; (s', acc.2 ++ [s'])) (s, [])).2

def historyM {σ α} (step : σ → α → Option σ) (s : σ) (xs : List α) : Option (List σ) :=
  (xs.foldlM (fun (acc : σ × List σ) x => (step acc.1 x).map fun s' => (s', acc.2 ++ [s'])) (s, [])).map (·.2)

def renderState (s : ServerState P) : Val := .list [Val.ofRats s.params, Val.ofRats s.opt]

def renderTable (t : List (Nat × ApflClientState)) : Val :=
  .list (t.map fun e => .list [Val.ofNat e.1, Val.ofRats e.2.params, Val.ofRats e.2.coef])

def handle (op : String) (args : List Val) : Option Val :=
  match op, args with
  | "c12.fedavg", [keyed, copt, sopt, params, cohorts] => do
    let keyed ← parseLoss keyed; let copt ← parseOptR copt; let sopt ← parseOptR sopt
    let params ← params.toRats?
    let cohorts ← Val.mapM? (parseCohort parseClient) cohorts
    let res := history (fun s co => round (gradTab keyed co.2) copt sopt s co.1) ⟨params, sopt.init params⟩ cohorts
    some (.list (res.map renderState))
  | "c12.fedprox", [keyed, mu, copt, sopt, params, cohorts] => do
    let keyed ← parseLoss keyed; let mu ← mu.toRat?
    let copt ← parseOptR copt; let sopt ← parseOptR sopt
    let params ← params.toRats?
    let cohorts ← Val.mapM? (parseCohort parseClient) cohorts
    let res := history (fun s co => fedProxRound mu (gradTab keyed co.2) copt sopt s co.1)
      ⟨params, sopt.init params⟩ cohorts
    some (.list (res.map renderState))
  | "c12.mimelite", [keyed, clip, base, lr, params, cohorts] => do
    let keyed ← parseLoss keyed; let clip ← parseOptRat clip
    let base ← parseOptR base; let lr ← lr.toRat?
    let params ← params.toRats?
    let cohorts ← Val.mapM? (parseCohort parseGClient) cohorts
    match historyM (fun s co => mimeLiteRound nrmApprox clip (gradTab keyed co.2) base lr s co.1)
        ⟨params, base.init params⟩ cohorts with
    | none => some (.sym "err")
    | some res => some (.list (res.map renderState))
  | "c12.mimelite_deltas", [keyed, clip, base, params, optState, cohort] => do
    -- the client deltas one MimeLite round aggregates (after the optional clip)
    let keyed ← parseLoss keyed; let clip ← parseOptRat clip
    let base ← parseOptR base
    let params ← params.toRats?; let optState ← optState.toRats?
    let co ← parseCohort parseGClient cohort
    let res := mimeLiteResults nrmApprox clip (gradTab keyed co.2) base ⟨params, optState⟩ co.1
    some (.list (res.map fun r => .list [Val.ofNat r.1, Val.ofRats r.2]))
  | "c12.mime", [keyed, base, lr, params, cohorts] => do
    let keyed ← parseLoss keyed
    let base ← parseOptR base; let lr ← lr.toRat?
    let params ← params.toRats?
    let cohorts ← Val.mapM? (parseCohort parseGClient) cohorts
    match historyM (fun s co => mimeRound (gradTab keyed co.2) base lr s co.1)
        ⟨params, base.init params⟩ cohorts with
    | none => some (.sym "err")
    | some res => some (.list (res.map renderState))
  | "c12.hyp", [keyed, copt, sopt, clusters, cohorts] => do
    let keyed ← parseLoss keyed; let copt ← parseOptR copt; let sopt ← parseOptR sopt
    let clusters ← clusters.toRatss?
    let cohorts ← Val.mapM? (parseCohort parseHClient) cohorts
    let s0 : List (ServerState P) := clusters.map fun p => ⟨p, sopt.init p⟩
    -- per round: cluster states and the assignment of every client of the cohort
    let res := history (fun (acc : List (ServerState P) × List Nat) co =>
        let s := acc.1
        (hypRound (avgLossReg keyed) splitN (gradTab keyed co.2) copt sopt s co.1,
         co.1.map fun c => hypAssign (avgLossReg keyed) splitN (s.map (·.params)) c)) (s0, []) cohorts
    some (.list (res.map fun r => .list [.list (r.1.map renderState), Val.ofNats r.2]))
  | "c12.hyp_with", [keyed, copt, sopt, clusters, cohorts, assigns] => do
    -- the same history with the assignment of every round GIVEN (cluster id per client, cohort order): the
    -- property fixes the assignment only up to ties among clusters of minimal loss
    let keyed ← parseLoss keyed; let copt ← parseOptR copt; let sopt ← parseOptR sopt
    let clusters ← clusters.toRatss?
    let cohorts ← Val.mapM? (parseCohort parseHClient) cohorts
    let assigns ← assigns.toNatss?
    let s0 : List (ServerState P) := clusters.map fun p => ⟨p, sopt.init p⟩
    let res := history (fun (s : List (ServerState P)) (x : (List (HClient Nat Batch Batch) × Tab) × List Nat) =>
        let pairs := (x.1.1.map fun c => c.id).zip x.2
        let assignOf : Nat → Nat := fun cid =>
          match pairs.reverse.find? (fun p => p.1 == cid) with
          | some p => p.2
          | none => 0
        hypRoundWith assignOf (gradTab keyed x.1.2) copt sopt s x.1.1) s0 (cohorts.zip assigns)
    some (.list (res.map fun r => .list (r.map renderState)))
  | "c12.apfl", [keyed, copt, sopt, coef0, seg, params, cohorts] => do
    let keyed ← parseLoss keyed; let copt ← parseOptR copt; let sopt ← parseOptR sopt
    let coef0 ← coef0.toRat?; let seg ← seg.toNats?
    let params ← params.toRats?
    let cohorts ← Val.mapM? (parseCohort parseClient) cohorts
    let res := history (fun (s : ApflServerState P Nat) co =>
        apflRound split3 seg (gradTab keyed co.2) copt sopt coef0 s co.1)
      ⟨params, sopt.init params, []⟩ cohorts
    some (.list (res.map fun s => .list [Val.ofRats s.params, Val.ofRats s.opt, renderTable s.table]))
  | _, _ => none

end FedjaxVerif.Handlers.C12
