import FedjaxVerif.Model.Proto
import FedjaxVerif.Model.FedData

namespace FedjaxVerif.Handlers.C08
open FedjaxVerif FedData

/-- client ids are byte strings = `List Nat` with the lexicographic order -/
abbrev Id := List Nat
/-- symbolic examples: the values of feature `x`, one per row -/
abbrev Ex := List Nat

/-- client-level preprocessor with tag `t`: appends a base-32 digit to every row value (so the order
of application is visible); tag 0 also keeps only the first row (changes the number of examples);
tag 7 depends on the client id. -/
def clientFn (t : Nat) : Id → Ex → Ex := fun id rows =>
  if t = 0 then (rows.take 1).map (· * 32)
  else if t = 7 then rows.map (· * 32 + 8 + id.length % 8)
  else rows.map (· * 32 + t % 8)

/-- batch-level preprocessor with tag `t`: digit `16 + t`. -/
def batchFn (t : Nat) : Ex → Ex := fun rows => rows.map (· * 32 + 16 + t % 8)

def toId? (v : Val) : Option Id := v.toNats?
def toOptId? : Val → Option (Option Id)
  | .sym "none" => some none
  | v => (toId? v).map some

def toEntry? : Val → Option (Id × Ex)
  | .list [i, rows] => do some ((← toId? i), (← rows.toNats?))
  | _ => none

def toOp? : Val → Option (Op Id Ex)
  | .list [k, a, b] => do
    if (← k.toNat?) = 0 then some (.slice (← toOptId? a) (← toOptId? b)) else none
  | .list [k, a] => do
    match (← k.toNat?) with
    | 1 => some (.subset (← Val.mapM? toId? a))
    | 2 => some (.preClient (clientFn (← a.toNat?)))
    | 3 => some (.preBatch (batchFn (← a.toNat?)))
    | _ => none
  | _ => none

def ofId (i : Id) : Val := Val.ofNats i
def ofDs (p : Id × CDS Ex) : Val := .list [ofId p.1, Val.ofNats p.2.examples, Val.ofNats p.2.allExamples]
def ofErr : Err → Val
  | .key => .sym "KeyError"
  | .value => .sym "ValueError"

def obsFD (fd : FD Id Ex) (req probes : List Id) : Val :=
  let cl := fd.clients
  let gc := fd.getClients req
  .list [Val.ofNat fd.numClients, .list (fd.clientIds.map ofId),
         .list ((fd.clientSizes List.length).map fun p => .list [ofId p.1, Val.ofNat p.2]),
         .list (cl.1.map ofDs), Val.ofBool cl.2,
         .list (gc.1.map ofDs), Val.ofBool gc.2,
         .list (probes.map fun i => .list [
           (match fd.clientSize List.length i with | .ok n => Val.ofNat n | .error e => ofErr e),
           (match fd.getClient i with | .ok d => ofDs (i, d) | .error e => ofErr e)])]

def obsView (v : View Id Ex) (req probes : List Id) : Val :=
  let gc := v.getClients req
  .list [Val.ofNat v.numClients, .list (v.ids.map ofId),
         .list ((v.sizes List.length).map fun p => .list [ofId p.1, Val.ofNat p.2]),
         .list (v.clients.map ofDs), Val.ofBool false,
         .list (gc.1.map ofDs), Val.ofBool gc.2,
         .list (probes.map fun i => .list [
           (match v.clientSize List.length i with | .ok n => Val.ofNat n | .error e => ofErr e),
           (match v.getClient i with | .ok d => ofDs (i, d) | .error e => ofErr e)])]

def handle (op : String) (args : List Val) : Option Val :=
  match op, args with
  | "c08.obs", [kind, big, sel, ops, req, probes] => do
    let kind ← kind.toSym?
    let big ← Val.mapM? toEntry? big
    let sel ← Val.mapM? toId? sel
    let ops ← Val.mapM? toOp? ops
    let req ← Val.mapM? toId? req
    let probes ← Val.mapM? toId? probes
    let tab := big.filter fun p => decide (p.1 ∈ sel)
    let fdRes (root : FD Id Ex) : Val :=
      match root.applyAll ops with
      | .ok fd => obsFD fd req probes
      | .error e => ofErr e
    match kind with
    | "mem" => some (fdRes (.mem ⟨tab, [], []⟩))
    | "sql" => some (fdRes (.sql ⟨tab, none, none, [], []⟩))
    | "submem" => some (match (FD.mem ⟨big, [], []⟩).subset sel with
        | .ok r => fdRes r
        | .error e => ofErr e)
    | "subsql" => some (match (FD.sql ⟨big, none, none, [], []⟩).subset sel with
        | .ok r => fdRes r
        | .error e => ofErr e)
    | "spec" => some (match (View.mk tab [] []).applyAll ops with
        | .ok v => obsView v req probes
        | .error e => ofErr e)
    | _ => none
  | "c08.intersect", [cs, ce, ns, ne] => do
    let r := intersect (← toOptId? cs) (← toOptId? ce) (← toOptId? ns) (← toOptId? ne)
    let o : Option Id → Val := fun x => match x with | none => .sym "none" | some i => ofId i
    some (.list [o r.1, o r.2])
  | "c08.bshuffle", [b, perm, swaps, n] => do
    let b ← b.toNat?; let perm ← perm.toNats?; let swaps ← swaps.toNats?; let n ← n.toNat?
    if b = 0 then some (.sym "err") else
    some (Val.ofNats (bufferedShuffle b (fun l => perm.filterMap (l[·]?)) swaps (List.range n)))
  | _, _ => none

end FedjaxVerif.Handlers.C08
