import FedjaxVerif.Model.Proto
import FedjaxVerif.Model.FedAvg
import FedjaxVerif.Model.Purity

namespace FedjaxVerif.Handlers.C10
open FedjaxVerif FedAvg Purity

/-- fixture shared with the harness (same as C01): a batch is a list of rows `x ++ [y]`, loss
`½(w·x − y)²` averaged over the batch, plus a key-dependent noise vector that the harness supplies
for the key the model names. -/
abbrev Batch := List (List Rat)

def rowGrad (w : P) (row : List Rat) : P :=
  let x := row.dropLast
  let y := row.getLastD 0
  vscale (Purity.dot w x - y) x

def batchGrad (w : P) (b : Batch) : P :=
  let s := b.foldl (fun acc r => vadd acc (rowGrad w r)) (vzero w)
  vscale (1 / (b.length : Rat)) s

/-- client `j` of a cohort has the key `[100 + j]`; step `t` splits `key·0^t` three ways:
child 1 is the server-gradient key, child 2 the client-gradient key -/
def clientKey (j : Nat) : NKey := [100 + j]

structure Noise where
  server : List P
  client : List P

def gradWith (noise : List Noise) (w : P) (b : Batch) (k : NKey) : P :=
  let j := k.headD 100 - 100
  let rest := k.drop 1
  let t := (rest.takeWhile (· == 0)).length
  let which := rest.getLastD 0
  let nz := (noise[j]?).bind fun n => if which == 1 then n.server[t]? else n.client[t]?
  vadd (batchGrad w b) (nz.getD (vzero w))

def parseOpt (v : Val) : Option (Optimizer P) :=
  match v with
  | .list [kind, lr, m] => do
    let kind ← kind.toNat?; let lr ← lr.toRat?; let m ← m.toRat?
    match kind with
    | 0 => some (momentum lr 0 false)
    | 1 => some (momentum lr m false)
    | 2 => some (momentum lr m true)
    | _ => none
  | _ => none

structure PClient where
  c : AClient Nat Batch
  noise : Noise

def parseClient (j : Nat) (v : Val) : Option PClient :=
  match v with
  | .list [i, sz, bs, ns, nc] => do
    let i ← i.toNat?; let sz ← sz.toNat?
    let bs ← Val.mapM? Val.toRatss? bs
    let ns ← ns.toRatss?; let nc ← nc.toRatss?
    some ⟨⟨i, sz, bs, clientKey j⟩, ⟨ns, nc⟩⟩
  | _ => none

def parseCohort (v : Val) : Option (List PClient) :=
  match v with
  | .list l => (l.zipIdx.mapM fun p => parseClient p.2 p.1)
  | _ => none

def runApfl (inplace : Bool) (copt sopt : Optimizer P) (c0 : Rat) (s : AState Nat P)
    (cohorts : List (List PClient)) : List (AState Nat P) :=
  (cohorts.foldl (fun (acc : AState Nat P × List (AState Nat P)) cohort =>
    let grad := gradWith (cohort.map (·.noise))
    let s' := if inplace then apflRoundInPlace grad copt sopt c0 acc.1 (cohort.map (·.c))
              else apflRound grad copt sopt c0 acc.1 (cohort.map (·.c))
    (s', acc.2 ++ [s'])) (s, [])).2

/-- APFL's recurrences are polynomial (coefficient × params × gradient), so exact rationals double
their size every step; the *answer* is rounded down to a multiple of 2⁻⁴⁰ for the wire (the model
computes exactly; the comparison tolerance is 10⁻³). -/
def rnd (q : Rat) : Rat := ((q * 1099511627776).floor : Rat) / 1099511627776

def renderState (s : AState Nat P) : Val :=
  .list [Val.ofRats (s.server.params.map rnd), Val.ofRats (s.server.opt.map rnd),
         .list (s.table.map fun e => .list [Val.ofNat e.1, Val.ofRats (e.2.params.map rnd), .num (rnd e.2.coef)])]

def renderKey (k : NKey) : Val := Val.ofNats k

/-- quantizer oracle: a table from client key to the quantised vector the harness computed with the
real quantizer under that key -/
def quantOf (tbl : List (NKey × P)) : Option NKey → NKey → P → P :=
  fun _ key p => ((tbl.find? (fun e => e.1 = key)).map (·.2)).getD p

def parseKeyed (v : Val) : Option (NKey × P) :=
  match v with
  | .list [k, p] => do some (← k.toNats?, ← p.toRats?)
  | _ => none

def parseInput (v : Val) : Option (Nat × P × Rat) :=
  match v with
  | .list [i, p, w] => do some (← i.toNat?, ← p.toRats?, ← w.toRat?)
  | _ => none

def parseBitsEntry (v : Val) : Option (List P × Rat) :=
  match v with
  | .list [q, b] => do some (← q.toRatss?, ← b.toRat?)
  | _ => none

def renderOut (o : Option P × CompState) : Val :=
  .list [match o.1 with | some p => Val.ofRats p | none => .sym "none", .num o.2.bits, renderKey o.2.rng]

def handle (op : String) (args : List Val) : Option Val :=
  match op, args with
  | "c10.apfl", [inplace, copt, sopt, c0, params, cohorts] => do
    let inplace ← inplace.toBool?
    let copt ← parseOpt copt; let sopt ← parseOpt sopt
    let c0 ← c0.toRat?
    let params ← params.toRats?
    let cohorts ← Val.mapM? parseCohort cohorts
    let res := runApfl inplace copt sopt c0 ⟨⟨params, sopt.init params⟩, []⟩ cohorts
    some (.list (res.map renderState))
  | "c10.compkeys", [rotated, root, counts] => do
    -- keys of a run: per round [carried key, rotation key | none, [client keys]]
    let rotated ← rotated.toBool?; let root ← root.toNats?; let counts ← counts.toNats?
    let res := counts.zipIdx.map fun (n, t) =>
      let ks := roundKeys rotated (carried rotated t root)
      Val.list [renderKey ks.next,
                match ks.rot with | some r => renderKey r | none => .sym "none",
                .list ((List.range n).map fun i => renderKey (seqKey ks.use i))]
    some (.list res)
  | "c10.comp", [rotated, root, bits0, perParam, nleaves, quantTbl, bitsTbl, rounds] => do
    let rotated ← rotated.toBool?; let root ← root.toNats?; let bits0 ← bits0.toRat?
    let perParam ← perParam.toRat?; let nleaves ← nleaves.toNat?
    let qt ← Val.mapM? parseKeyed quantTbl
    let bt ← Val.mapM? parseBitsEntry bitsTbl
    let rounds ← Val.mapM? (Val.mapM? parseInput) rounds
    let newBits : List (P × Rat) → Rat := fun q =>
      match bt.find? (fun e => e.1 = q.map (·.1)) with
      | some e => e.2
      | none => match q with
        | [] => 0
        | (p, _) :: _ => perParam * (p.length : Rat) + 32 * (2 * nleaves : Nat)
    some (.list ((compRun rotated (quantOf qt) newBits ⟨bits0, root⟩ rounds).map renderOut))
  | "c10.tablekeys", [rounds] => do
    -- key lists of the client-state table after each round (participants given by id), starting empty
    let rounds ← rounds.toNatss?
    let res := (rounds.foldl (fun (acc : Table Nat Unit × List (List Nat)) ids =>
      let t := acc.1.setAll (ids.map fun i => (i, ()))
      (t, acc.2 ++ [t.keys])) (([] : Table Nat Unit), [])).2
    some (.list (res.map Val.ofNats))
  | "c10.window", [w, ns] => do
    let w ← w.toRatss?; let ns ← ns.toRatss?
    some (.list ((windowRun w ns).map fun win => .list (win.map Val.ofRats)))
  | _, _ => none

end FedjaxVerif.Handlers.C10
