import FedjaxVerif.Model.Proto
import FedjaxVerif.Model.ForEach

namespace FedjaxVerif.Handlers.C02
open FedjaxVerif ForEach

/-- concrete program family shared with the harness (`harness/props/c02.py`):
state = (a0, a1, cnt), batch = list of numbers, `s` = sum of the batch. -/
structure St where
  a0 : Rat
  a1 : Rat
  cnt : Rat

def sumR (l : List Rat) : Rat := l.foldl (· + ·) 0

def init (shared : Rat) (inp : Rat) : St := ⟨shared + inp, inp, 0⟩

def step (kind : Nat) (st : St) (b : List Rat) : St × Rat :=
  let s := sumR b
  match kind with
  | 0 => (⟨st.a0 + s, st.a1 + 1, st.cnt + 1⟩, s)
  | 1 => (⟨2 * st.a0 + s, st.a1 - s, st.cnt + 1⟩, st.a0)
  | _ => (⟨st.a0 + 1 / s, st.a1 + s, st.cnt + 1⟩, 1 / s)

def final (shared : Rat) (st : St) : List Rat := [shared * st.a0, st.a1, st.cnt]

def parseClient (v : Val) : Option (Client Nat (List Rat) Rat) :=
  match v with
  | .list [i, inp, bs] => do
    let i ← i.toNat?; let inp ← inp.toRat?; let bs ← bs.toRatss?
    some ⟨i, bs, inp⟩
  | _ => none

def renderOut (l : List (Nat × List Rat × List Rat)) : Val :=
  .list (l.map fun p => .list [Val.ofNat p.1, Val.ofRats p.2.1, Val.ofRats p.2.2])

def parseArg (v : Val) : Option (Arg Nat) :=
  match v.toInt? with
  | some (-1) => some .none
  | some (-2) => some .bad
  | some n => if 0 ≤ n then some (.ok n.toNat) else none
  | none => none

def parseOp (v : Val) : Option (Nat × Op Nat) :=
  match v with
  | .list [t, code, a] => do
    let t ← t.toNat?; let code ← code.toNat?; let a ← parseArg a
    match code with
    | 0 => some (t, .get)
    | 1 => some (t, .set a)
    | 2 => some (t, .enter a)
    | 3 => some (t, .exit)
    | _ => none
  | _ => none

def optNat : Option Nat → Val
  | none => .sym "none"
  | some n => Val.ofNat n

/-- runs a schedule, reporting after every op: got, valueError, raw choice of every thread,
stack depth of every thread -/
def runSched (dflt nThreads : Nat) (sched : List (Nat × Op Nat)) : Val :=
  let g0 : Nat → TState Nat := fun _ => ⟨none, []⟩
  let r := sched.foldl (fun (acc : (Nat → TState Nat) × List Val) p =>
    let out := (tstep dflt (acc.1 p.1) p.2).2
    let g' := gstep dflt acc.1 p.1 p.2
    let snap := (List.range nThreads).map fun t => optNat (g' t).cur
    let depth := (List.range nThreads).map fun t => Val.ofNat (g' t).stack.length
    (g', acc.2 ++ [.list [optNat out.got, Val.ofBool out.valueError, .list snap, .list depth]])) (g0, [])
  .list r.2

def handle (op : String) (args : List Val) : Option Val :=
  match op, args with
  | "c02.seq", [kind, shared, cs] => do
    let kind ← kind.toNat?; let shared ← shared.toRat?
    let cs ← Val.mapM? parseClient cs
    some (renderOut (cs.map (seqRun init (step kind) final shared)))
  | "c02.pmap", [kind, d, shared, cs] => do
    let kind ← kind.toNat?; let d ← d.toNat?; let shared ← shared.toRat?
    let cs ← Val.mapM? parseClient cs
    if d = 0 then some (.sym "err") else
    some (renderOut (pmapRun init (step kind) final (fun _ => 0) (fun b => b.map fun _ => 0)
      (fun _ => 0) d shared cs))
  | "c02.tl", [dflt, n, sched] => do
    let dflt ← dflt.toNat?; let n ← n.toNat?
    let sched ← Val.mapM? parseOp sched
    some (runSched dflt n sched)
  | _, _ => none

end FedjaxVerif.Handlers.C02
