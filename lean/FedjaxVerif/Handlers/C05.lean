import FedjaxVerif.Model.Proto
import FedjaxVerif.Model.Stats
import FedjaxVerif.Model.Metrics
import FedjaxVerif.Handlers.C14

/-
Protocol ops of C05 (metric monoid, evaluate_batch, evaluate_model).

  c05.new a w                 -> [accum,weight,result]          (MeanStat.new, then result)
  c05.merge [a,w] [a,w]       -> [accum,weight,result]          (raw fields, possibly outside the domain)
  c05.reduce [[a,w],…]        -> [accum,weight,result]
  c05.evalbatch spec len rows mask      -> like c14.eval        (mask: `none` or bool list)
  c05.evalmodel spec len batches        -> like c14.eval        (batches: [[rows,mask],…])
  c05.fold spec len examples            -> like c14.eval        (merge of single-example stats from zero)
  c05.evalbatch_s kind n rows mask      -> like c14.eval        (rows = per-row statistics given as data:
  c05.evalmodel_s kind n batches        -> like c14.eval         mean: [[a,w],…] of n entries, sum: [a,…])
`len` = sequence length (size of per-position statistics).  The `_s` ops are the correspondence of
C05 proper: the per-example function is the identity on statistics computed by the real
`evaluate_example`, so a defect of a single metric (C14) does not show up as a C05 disagreement.
-/

namespace FedjaxVerif.Handlers.C05
open FedjaxVerif Stats Metrics Handlers.C14

def toStat? : Val → Option MeanStat
  | .list [a, w] => do some ⟨← a.toRat?, ← w.toRat?⟩
  | _ => none

def renderStat (s : MeanStat) : Val := .list [.num s.accum, .num s.weight, .num s.result]

def toMask? : Val → Option (Option (List Bool))
  | .sym "none" => some none
  | v => v.toBools?.map some

def toRows? : Val → Option (List Ex) := Val.mapM? parseEx

def toBatch? : Val → Option (List Ex × Option (List Bool))
  | .list [rows, mask] => do some (← toRows? rows, ← toMask? mask)
  | _ => none

def toMeanRow? : Val → Option (List MeanStat) := Val.mapM? toStat?
def toSumRow? (v : Val) : Option (List SumStat) := v.toRats?.map fun l => l.map SumStat.new

def toMeanBatch? : Val → Option (List (List MeanStat) × Option (List Bool))
  | .list [rows, mask] => do some (← Val.mapM? toMeanRow? rows, ← toMask? mask)
  | _ => none

def toSumBatch? : Val → Option (List (List SumStat) × Option (List Bool))
  | .list [rows, mask] => do some (← Val.mapM? toSumRow? rows, ← toMask? mask)
  | _ => none

def acceptsAll (m : SumMetric) (rows : List Ex) : Bool := rows.all m.accepts

def handle (op : String) (args : List Val) : Option Val :=
  match op, args with
  | "c05.new", [a, w] => do some (renderStat (MeanStat.new (← a.toRat?) (← w.toRat?)))
  | "c05.merge", [s, t] => do some (renderStat ((← toStat? s).merge (← toStat? t)))
  | "c05.reduce", [l] => do some (renderStat (MeanStat.reduce (← Val.mapM? toStat? l)))
  | "c05.evalbatch", [spec, len, rows, mask] => do
    let len ← len.toNat?
    let rows ← toRows? rows
    let mask ← toMask? mask
    match ← parseMetric 8 spec with
    | .mean m => some (renderMean (evalBatch (vecOps (m.size len) meanOps) m.eval rows mask))
    | .sum m =>
      if acceptsAll m rows then some (renderSum (evalBatch (vecOps m.size sumOps) m.eval rows mask))
      else some (.sym "err")
  | "c05.evalmodel", [spec, len, batches] => do
    let len ← len.toNat?
    let batches ← Val.mapM? toBatch? batches
    match ← parseMetric 8 spec with
    | .mean m => some (renderMean (evalModel (vecOps (m.size len) meanOps) m.eval batches))
    | .sum m =>
      if batches.all (fun b => acceptsAll m b.1) then
        some (renderSum (evalModel (vecOps m.size sumOps) m.eval batches))
      else some (.sym "err")
  | "c05.evalbatch_s", [.sym "mean", n, rows, mask] => do
    some (renderMean (evalBatch (vecOps (← n.toNat?) meanOps) id (← Val.mapM? toMeanRow? rows) (← toMask? mask)))
  | "c05.evalbatch_s", [.sym "sum", n, rows, mask] => do
    some (renderSum (evalBatch (vecOps (← n.toNat?) sumOps) id (← Val.mapM? toSumRow? rows) (← toMask? mask)))
  | "c05.evalmodel_s", [.sym "mean", n, batches] => do
    some (renderMean (evalModel (vecOps (← n.toNat?) meanOps) id (← Val.mapM? toMeanBatch? batches)))
  | "c05.evalmodel_s", [.sym "sum", n, batches] => do
    some (renderSum (evalModel (vecOps (← n.toNat?) sumOps) id (← Val.mapM? toSumBatch? batches)))
  | "c05.fold", [spec, len, exs] => do
    let len ← len.toNat?
    let exs ← toRows? exs
    match ← parseMetric 8 spec with
    | .mean m =>
      let o := vecOps (m.size len) meanOps
      some (renderMean (exs.foldl (fun s e => o.merge s (m.eval e)) o.zero))
    | .sum m =>
      let o := vecOps m.size sumOps
      if acceptsAll m exs then some (renderSum (exs.foldl (fun s e => o.merge s (m.eval e)) o.zero))
      else some (.sym "err")
  | _, _ => none

end FedjaxVerif.Handlers.C05
