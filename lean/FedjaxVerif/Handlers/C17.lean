import FedjaxVerif.Model.Proto
import FedjaxVerif.Model.FedAvg
import FedjaxVerif.Model.Algorithms
import FedjaxVerif.Model.Invariants
import FedjaxVerif.Handlers.C01
import FedjaxVerif.Handlers.C12

namespace FedjaxVerif.Handlers.C17
open FedjaxVerif FedAvg Algorithms Invariants
open FedjaxVerif.Handlers.C01 (Batch parseOpt parseBatch dot)
open FedjaxVerif.Handlers.C12 (parseKey history historyM rnd parseOptR)

/-! fixture of agnostic FedAvg: rows `x ++ [y, domain]`, loss `½(w·x − y)²`, key-free -/

def rowX (row : List Rat) : List Rat := row.take (row.length - 2)
def rowY (row : List Rat) : Rat := row.getD (row.length - 2) 0
def rowDom (row : List Rat) : Nat := (row.getD (row.length - 1) 0).floor.toNat

def rowErr (w : P) (row : List Rat) : Rat := dot w (rowX row) - rowY row

/-- gradient of `safe_div(sum(alpha * domain_sum_loss), beta)` on an (unpadded) training batch -/
def gradAB (al : List Rat) (be : Rat) (w : P) (b : Batch) (_ : Key) : P :=
  let s := b.foldl (fun acc r => vadd acc (vscale (al.getD (rowDom r) 0 * rowErr w r) (rowX r))) (vzero w)
  (vscale (if be = 0 then 0 else 1 / be) s).map rnd

/-- per-domain sums of the example losses over the client's rows -/
def dloss (D : Nat) (w : P) (rows : Batch) (_ : Key) : List Rat :=
  (List.range D).map fun d =>
    (rows.filter fun r => rowDom r = d).foldl (fun acc r => acc + rowErr w r * rowErr w r / 2) 0

/-! `exp` to ~15 digits by exact rational arithmetic: Taylor polynomial of `x/1024`, squared 10 times,
rounded to 30 decimals after every product (positive for the moderate arguments the harness generates) -/

def roundTo (q : Rat) : Rat := ((q * ((10 ^ 30 : Nat) : Rat)).floor : Rat) / ((10 ^ 30 : Nat) : Rat)

def taylorExp (y : Rat) : Rat :=
  ((List.range 14).foldl (fun (acc : Rat × Rat) n => (acc.1 + acc.2, roundTo (acc.2 * y / ((n + 1 : Nat) : Rat)))) (0, 1)).1

def expApprox (x : Rat) : Rat :=
  (List.range 10).foldl (fun z _ => roundTo (z * z)) (taylorExp (x / 1024))

def parseAClient (v : Val) : Option (AClient Nat Batch Batch) :=
  match v with
  | .list [_, _, _, _, rows, dnum] => do
    let c ← C12.parseClient v
    let rows ← parseBatch rows
    let dnum ← dnum.toRats?
    some ⟨c, rows, dnum⟩
  | _ => none

def renderAg (s : AgState P) : Val :=
  .list [Val.ofRats s.params, Val.ofRats s.opt, Val.ofRats s.weights, .list (s.window.map Val.ofRats),
         Val.ofRats (alpha s.weights s.window)]

/-! tree optimizers over `(key ↦ vector)` with per-entry momentum traces (`sgd` = momentum 0) -/

def treeOpt (o : Optimizer P) : TOptimizer Nat (Tree Nat) :=
  { init := fun t => t.map fun e => (e.1, o.init e.2),
    apply := fun g st p =>
      let res := p.map fun e =>
        let r := o.apply ((g.lookup e.1).getD []) ((st.lookup e.1).getD []) e.2
        (e.1, r)
      (res.map fun e => (e.1, e.2.1), res.map fun e => (e.1, e.2.2)) }

def parseTree (v : Val) : Option (Tree Nat) :=
  Val.mapM? (fun e => match e with
    | .list [k, vec] => do some ((← k.toNat?), (← vec.toRats?))
    | _ => none) v

def renderTree (t : Tree Nat) : Val := .list (t.map fun e => .list [Val.ofNat e.1, Val.ofRats e.2])

def handle (op : String) (args : List Val) : Option Val :=
  match op, args with
  | "c17.agnostic", [copt, sopt, eta, params, weights, window, cohorts] => do
    let copt ← parseOptR copt; let sopt ← parseOptR sopt
    let eta ← eta.toRat?
    let params ← params.toRats?; let weights ← weights.toRats?; let window ← window.toRatss?
    let cohorts ← Val.mapM? (Val.mapM? parseAClient) cohorts
    let s0 : AgState P := ⟨params, sopt.init params, weights, window⟩
    match historyM (fun s co => agRound expApprox eta (dloss s.weights.length) gradAB copt sopt s co) s0 cohorts with
    | none => some (.sym "err")
    | some res => some (.list (res.map renderAg))
  | "c17.apfl_eval", [seg, params, table, ids] => do
    -- the params each client id is evaluated with, given the server params and the client table
    let seg ← seg.toNats?; let params ← params.toRats?; let ids ← ids.toNats?
    let table ← Val.mapM? (fun e => match e with
      | .list [i, cp, coef] => do
        some ((← i.toNat?), ({ params := (← cp.toRats?), coef := (← coef.toRats?) } : ApflClientState))
      | _ => none) table
    let s : ApflServerState Unit Nat := ⟨params, (), table⟩
    some (.list (ids.map fun i => Val.ofRats (apflEvalParams seg s i)))
  | "c17.weights", [w, es] => do
    let w ← w.toRats?; let es ← es.toRats?
    match updateWeights w es with
    | none => some (.sym "nan")
    | some w' => some (Val.ofRats w')
  | "c17.window", [w0, counts] => do
    let w0 ← w0.toRatss?; let counts ← counts.toRatss?
    some (.list ((counts.foldl shiftWindow w0).map Val.ofRats))
  | "c17.exp", [x] => do
    some (.num (expApprox (← x.toRat?)))
  | "c17.argmin", [l] => do
    some (Val.ofNat (argminFirst (← l.toRats?)))
  | "c17.ignore", [base, names, grads, st, params] => do
    let base ← parseOptR base; let names ← names.toNats?
    let grads ← parseTree grads; let params ← parseTree params
    let topt := treeOpt base
    let st ← (match st with
      | .sym "init" => some (ignoreInit topt names params)
      | v => parseTree v)
    match ignoreApply topt names grads st params with
    | none => some (.sym "KeyError")
    | some r => some (.list [renderTree r.1, renderTree r.2])
  | _, _ => none

end FedjaxVerif.Handlers.C17
