import FedjaxVerif.Model.Proto
import FedjaxVerif.Model.Experiment

/-!
Protocol ops of the experiment / checkpoint model (C09).  The driver instantiates the abstract
algorithm with the free one: a state is the list of round numbers whose clients were applied.

A directory is a list of entries
  `[ckpt,r,full,[rounds]]  [ckpt,r,part]  [tmp,r,full,[rounds]]  [tmp,r,part]`
  `[tsv,e,out,[rounds],r]  [tsv,e,outPart]`
`cfg` = `[numRounds,freq,keep,evalFreq,chunks,nFinal,tsvChunks]`.
-/

namespace FedjaxVerif.Handlers.C09
open FedjaxVerif Experiment

abbrev St := List Nat

def alg : Alg St := ⟨[], fun s r => s ++ [r]⟩

def renderName : Name → List Val
  | .ckpt r => [.sym "ckpt", Val.ofNat r]
  | .tmp r => [.sym "tmp", Val.ofNat r]
  | .tsv e => [.sym "tsv", Val.ofNat e]

def renderContent : Content St → List Val
  | .full s => [.sym "full", Val.ofNats s]
  | .part _ _ => [.sym "part"]
  | .out _ s r => [.sym "out", Val.ofNats s, Val.ofNat r]
  | .outPart _ _ _ _ => [.sym "outPart"]

def renderFS (fs : FS St) : Val := .list (fs.map fun p => .list (renderName p.1 ++ renderContent p.2))

def parseEntry : Val → Option (Name × Content St)
  | .list (.sym kind :: idx :: rest) => do
    let i ← idx.toNat?
    let name ← match kind with
      | "ckpt" => some (Name.ckpt i) | "tmp" => some (Name.tmp i) | "tsv" => some (Name.tsv i) | _ => none
    match rest with
    | [.sym "full", s] => do let s ← s.toNats?; some (name, .full s)
    | [.sym "part"] => some (name, .part [] 0)
    | [.sym "out", s, r] => do let s ← s.toNats?; let r ← r.toNat?; some (name, .out i s r)
    | [.sym "outPart"] => some (name, .outPart i [] 0 0)
    | _ => none
  | _ => none

def parseFS (v : Val) : Option (FS St) := do
  let l ← v.toList?
  l.mapM parseEntry

def parseCfg (v : Val) : Option Cfg := do
  match ← v.toNats? with
  | [a, b, c, d, e, f, g] => some ⟨a, b, c, d, e, f, g⟩
  | _ => none

def renderLoaded : Loaded St → Val
  | .fresh => .sym "fresh"
  | .corrupt => .sym "corrupt"
  | .ok s r => .list [Val.ofNats s, Val.ofNat r]

def renderResult : Option (Result St) → Val
  | none => .sym "dies"
  | some r => .list [Val.ofNats r.state, Val.ofNat r.evalRound, renderFS r.fs]

/-- directory after every prefix of the effects of one invocation (`dies` if it cannot start) -/
def trace (cfg : Cfg) (fs : FS St) : Val :=
  match plan alg cfg fs with
  | none => .sym "dies"
  | some p => .list ((List.range (p.effs.length + 1)).map fun c => renderFS (applyEffs fs (p.effs.take c)))

def handle (op : String) (args : List Val) : Option Val :=
  match op, args with
  | "c09.load", [fs] => do
    let fs ← parseFS fs
    some (renderLoaded (load fs))
  | "c09.trace", [cfg, fs] => do
    let cfg ← parseCfg cfg; let fs ← parseFS fs
    some (trace cfg fs)
  | "c09.run", [cfg, fs] => do
    let cfg ← parseCfg cfg; let fs ← parseFS fs
    some (renderResult (runAll alg cfg fs))
  | "c09.crashes", [cfg, fs, cs] => do
    let cfg ← parseCfg cfg; let fs ← parseFS fs; let cs ← cs.toNats?
    let fs' := crashes alg cfg cs fs
    some (.list [renderFS fs', renderResult (runAll alg cfg fs')])
  | "c09.save", [cfg, fs, r, s] => do
    let cfg ← parseCfg cfg; let fs ← parseFS fs; let r ← r.toNat?; let s ← s.toNats?
    some (renderFS (applyEffs fs (saveEffs cfg fs r s)))
  | _, _ => none

end FedjaxVerif.Handlers.C09
