import FedjaxVerif.Model.Proto
import FedjaxVerif.Model.Shakespeare
import FedjaxVerif.Model.Emnist
import FedjaxVerif.Model.Cifar
import FedjaxVerif.Model.Labels
import FedjaxVerif.Model.Stackoverflow
import FedjaxVerif.Model.Loss

namespace FedjaxVerif.Handlers.C20
open FedjaxVerif

/-! ### Float glue (driver only; the theorems are about the generic definitions) -/

instance : NatCast Float := ⟨Float.ofNat⟩

def fixScale : Nat := 2 ^ 40

/-- fixed-point rendering (40 fractional bits) of a finite float; outputs here are `O(10^4)`. -/
def floatToVal (x : Float) : Val :=
  if x.isNaN || x.isInf then .sym "nan"
  else .num (mkRat (x * Float.ofNat fixScale).round.toInt64.toInt fixScale)

def standardiseF (xs : List Float) : List Float := Cifar.standardise Float.sqrt xs

/-! ### parsing helpers -/

def parseDraw (v : Val) : Option (Option (Nat × Nat × Bool)) :=
  match v with
  | .sym "none" => some none
  | .list [a, b, f] => do
    let a ← a.toNat?; let b ← b.toNat?; let f ← f.toBool?
    some (some (a, b, f))
  | _ => none

def toNatsss? : Val → Option (List (List (List Nat))) := Val.mapM? Val.toNatss?

def parseOptNats (v : Val) : Option (Option (List Nat)) :=
  match v with
  | .sym "none" => some none
  | v => v.toNats?.map some

def parseMetric (v : Val) : Option Labels.MetricIds :=
  match v with
  | .list [masked, lm, oov, eos] => do
    let masked ← masked.toNats?
    let lm ← (match lm with
      | .sym "none" => some none
      | .list [w, s] => do
        let w ← w.toNat?; let s ← s.toNats?
        some (some (w, s))
      | _ => none)
    let oov ← parseOptNats oov
    let eos ← eos.toOptNat?
    some ⟨masked, lm, oov, eos⟩
  | _ => none

def parseDataset (v : Val) : Option Labels.DatasetIds :=
  match v with
  | .list [pad, bos, eos, oov, vocab] => do
    let pad ← pad.toNat?; let bos ← bos.toNat?; let eos ← eos.toNat?
    let oov ← oov.toNats?; let vocab ← vocab.toNat?
    some ⟨pad, bos, eos, oov, vocab⟩
  | _ => none

/-- a sentence: look-up results, `none` = out of vocabulary -/
def parseSentence (v : Val) : Option (List (Option Nat)) := Val.mapM? Val.toOptNat? v

def validCrop (h w : Nat) : Bool := 1 ≤ h && 1 ≤ w && h ≤ 32 && w ≤ 32

def handle (op : String) (args : List Val) : Option Val :=
  match op, args with
  | "c20.shk_table", [t, v] => do
    let t ← t.toNats?; let v ← v.toNat?
    some (Val.ofBool (Shakespeare.tableOk t v))
  | "c20.shk", [t, v, l, snips] => do
    let t ← t.toNats?; let v ← v.toNat?; let l ← l.toNat?; let snips ← snips.toNatss?
    if !Shakespeare.tableOk t v then some (.sym "bad-table") else
    -- `// 0` raises; `L = 1` with no snippet asks numpy for a negative dimension.  Both are outside the
    -- property's domain (L >= 2): the harness does not send them and demands nothing there.
    if l = 0 ∨ (l = 1 ∧ snips = []) then some (.sym "err") else
    let r := Shakespeare.preprocess (fun b => t.getD b 0) l snips
    some (.list [.list (r.1.map Val.ofNats), .list (r.2.map Val.ofNats)])
  | "c20.emnist", [id] => do
    let id ← id.toNats?
    match Emnist.domainId id with
    | some d => some (Val.ofNat d)
    | none => some (.sym "err")
  | "c20.tff", [h, w, draw, img] => do
    let h ← h.toNat?; let w ← w.toNat?; let draw ← parseDraw draw; let img ← toNatsss? img
    if !validCrop h w then some (.sym "err") else
    let c := Cifar.cropTff 32 32 h w draw img
    let flat : List Float := (c.flatten.flatten).map Float.ofNat
    some (.list ((standardiseF flat).map floatToVal))
  | "c20.so", [nv, l, sents] => do
    let nv ← nv.toNat?; let l ← l.toNat?; let sents ← Val.mapM? parseSentence sents
    if sents.any (fun s => s.any (fun w => match w with | some i => nv ≤ i | none => false)) then
      some (.sym "bad-index") else
    let r := Stackoverflow.tokenizeBatch nv l sents
    some (.list [.list (r.1.map Val.ofNats), .list (r.2.map Val.ofNats)])
  | "c20.loss", [kind, pad, el, rows] => do
    -- kind: so | shk; el: none | expected_length; rows: [[targets, per-token losses], ...]
    let kind ← kind.toSym?; let pad ← pad.toNat?
    let el ← (match el with | .sym "none" => some none | v => v.toRat?.map some)
    let rows ← Val.mapM? (fun r => match r with
      | .list [t, c] => do let t ← t.toNats?; let c ← c.toRats?; some (t, c)
      | _ => none) rows
    if rows.any (fun r => r.1.length != r.2.length) then some (.sym "bad-shape") else
    match kind with
    | "so" => if el == some 0 then some (.sym "err") else
        some (Val.ofRats (Loss.batchLoss (Loss.soLoss pad el) rows))
    | "shk" => some (Val.ofRats (Loss.batchLoss (Loss.shkLoss pad) rows))
    | _ => none
  | "c20.labels", [d, width, ms] => do
    let d ← parseDataset d; let width ← width.toNat?; let ms ← Val.mapM? parseMetric ms
    some (.list [Val.ofBool (Labels.labelsAgree d ⟨width, ms⟩),
                 Val.ofBool (width == d.vocab),
                 Val.ofBools (ms.map (Labels.metricAgrees d))])
  | _, _ => none

end FedjaxVerif.Handlers.C20
