import FedjaxVerif.Model.Proto
import FedjaxVerif.Model.Centralised

namespace FedjaxVerif.Handlers.C15
open FedjaxVerif Centralised

/-- example ids `1 … Σ sizes` handed out consecutively to the clients (padding rows are `0`) -/
def idsFrom (start : Nat) : List Nat → List (List Nat)
  | [] => []
  | s :: rest => ((List.range s).map (· + start)) :: idsFrom (start + s) rest

/-- the oracle for `rng.shuffle`: positions of the new buffer in the old one -/
def shufOf {α} (idx : List Nat) (l : List α) : List α := idx.filterMap (l[·]?)

def renderBatches (v : List (List Nat × List Bool)) : Val :=
  .list (v.map fun p => .list [Val.ofNats p.1, Val.ofBools p.2])

def optVal : Option Nat → Val
  | none => .sym "stop"
  | some n => Val.ofNat n

def handle (op : String) (args : List Val) : Option Val :=
  match op, args with
  | "c15.multi", [bs, b, sizes] => do
    let bs ← bs.toNat?; let b ← b.toNat?; let sizes ← sizes.toNats?
    if bs = 0 then some (.sym "err") else
    match multiBatch bs b 0 (idsFrom 1 sizes) with
    | none => some (.sym "err")
    | some v => some (renderBatches v)
  -- datasets as [pre, feats, size]
  | "c15.multichk", [bs, b, ds] => do
    let bs ← bs.toNat?; let b ← b.toNat?; let ds ← ds.toNatss?
    if bs = 0 then some (.sym "err") else
    let sizes := ds.map fun d => d.getD 2 0
    let rows := idsFrom 1 sizes
    let dss : List (DS Nat) := (ds.zip rows).map fun p => { pre := p.1.getD 0 0, feats := p.1.getD 1 0, rows := p.2 }
    match multiBatchChecked bs b 0 dss with
    | none => some (.sym "err")
    | some (v, e) => some (.list [renderBatches v, Val.ofBool e])
  | "c15.bshuffle", [b, idx, swaps, n] => do
    let b ← b.toNat?; let idx ← idx.toNats?; let swaps ← swaps.toNats?; let n ← n.toNat?
    some (Val.ofNats (bufferedShuffle b (shufOf idx) swaps (List.range n)))
  | "c15.bsb", [bs, b, idx, swaps, sizes] => do
    let bs ← bs.toNat?; let b ← b.toNat?; let idx ← idx.toNats?; let swaps ← swaps.toNats?
    let sizes ← sizes.toNats?
    if bs = 0 then some (.sym "err") else
    some (.list ((shuffleBatch bs b (shufOf idx) swaps (idsFrom 1 sizes)).map Val.ofNats))
  -- kind: container | iterable; base = [0..n); k next() calls
  | "c15.repiter", [kind, n, k] => do
    let kind ← kind.toSym?; let n ← n.toNat?; let k ← k.toNat?
    let base := List.range n
    let s ← (if kind = "container" then some (RepIter.ofContainer base)
             else if kind = "iterable" then some (RepIter.ofIterable base) else none)
    some (.list ((RepIter.nexts k s).map optVal))
  | _, _ => none

end FedjaxVerif.Handlers.C15
