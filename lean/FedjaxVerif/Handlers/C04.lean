import FedjaxVerif.Model.Proto
import FedjaxVerif.Model.Shuffle

namespace FedjaxVerif.Handlers.C04
open FedjaxVerif Shuffle

/-- oracle from a finite list of observed buffer contents (`[]` beyond the list: the inner loop
then makes no progress and the batch comes out short, which the harness reports). -/
def permsOf (l : List (List Nat)) (j : Nat) : List Nat := l.getD j []

def handle (op : String) (args : List Val) : Option Val :=
  match op, args with
  | "c04.steps", [n, bs, e, s, drop] => do
    let n ← n.toNat?; let bs ← bs.toNat?; let e ← e.toOptNat?; let s ← s.toOptNat?
    let drop ← drop.toBool?
    if bs = 0 then some (.sym "err") else
    some (Val.ofOptNat (numSteps n bs e s drop))
  | "c04.stream", [bs, k, perms] => do
    let bs ← bs.toNat?; let k ← k.toNat?; let perms ← perms.toNatss?
    if bs = 0 then some (.sym "err") else
    some (.list ((stream (permsOf perms) bs k St.init).map Val.ofNats))
  -- the whole view: [declared number of steps | none, first min(steps, cap) batches]
  | "c04.run", [n, bs, e, s, drop, cap, perms] => do
    let n ← n.toNat?; let bs ← bs.toNat?; let e ← e.toOptNat?; let s ← s.toOptNat?
    let drop ← drop.toBool?; let cap ← cap.toNat?; let perms ← perms.toNatss?
    if bs = 0 then some (.sym "err") else
    let ns := numSteps n bs e s drop
    let k := match ns with
      | some k => min k cap
      | none => cap
    some (.list [Val.ofOptNat ns, .list ((stream (permsOf perms) bs k St.init).map Val.ofNats)])
  | _, _ => none

end FedjaxVerif.Handlers.C04
