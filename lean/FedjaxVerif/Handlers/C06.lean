import FedjaxVerif.Model.Proto
import FedjaxVerif.Model.Masked

namespace FedjaxVerif.Handlers.C06
open FedjaxVerif Masked

/-- a row is `[mask, loss, [grad…], dom]` -/
def toRow? : Val → Option Row
  | .list [m, l, g, dm] => do
    let m ← m.toBool?; let l ← l.toRat?; let g ← g.toRats?; let dm ← dm.toNat?
    some { mask := m, loss := l, grad := g, dom := dm }
  | _ => none

def toRows? : Val → Option (List Row) := Val.mapM? toRow?
def toBatches? : Val → Option (List (List Row)) := Val.mapM? toRows?

/-- a batch of the average-loss step is `[masked, rows]` -/
def toBatch? : Val → Option Batch
  | .list [mk, rows] => do
    let mk ← mk.toBool?; let rows ← toRows? rows
    some { masked := mk, rows := rows }
  | _ => none

def ofOptRats : Option (List Rat) → Val
  | none => .sym "none"
  | some t => Val.ofRats t

def handle (op : String) (args : List Val) : Option Val :=
  match op, args with
  | "c06.safediv", [a, b] => do
    let a ← a.toRat?; let b ← b.toRat?
    some (.num (safeDiv a b))
  | "c06.grad", [d, masked, rows, reg] => do
    let d ← d.toNat?; let masked ← masked.toBool?; let rows ← toRows? rows; let reg ← reg.toRats?
    if masked then some (Val.ofRats (gradMasked d rows reg))
    else some (ofOptRats (gradUnmasked d rows reg))
  | "c06.loss", [masked, rows, rho] => do
    let masked ← masked.toBool?; let rows ← toRows? rows; let rho ← rho.toRat?
    if masked then some (.num (lossMasked rows rho))
    else match lossUnmasked rows rho with
      | none => some (.sym "none")
      | some v => some (.num v)
  | "c06.avgloss", [bs, rho] => do
    let bs ← Val.mapM? toBatch? bs; let rho ← rho.toRat?
    some (.num (avgLoss bs rho))
  | "c06.mimeclient", [d, reg, bs] => do
    let d ← d.toNat?; let reg ← reg.toRats?; let bs ← toBatches? bs
    let o := mimeClient d reg bs
    some (.list [Val.ofRats o.1, .num o.2])
  | "c06.fullgrad", [d, reg, clients] => do
    let d ← d.toNat?; let reg ← reg.toRats?; let clients ← Val.mapM? toBatches? clients
    some (ofOptRats (fullGrad d reg clients))
  | "c06.domains", [dd, bs] => do
    let dd ← dd.toNat?; let bs ← toBatches? bs
    let o := domainSums dd bs
    some (.list [Val.ofRats o.1, Val.ofRats o.2])
  | _, _ => none

end FedjaxVerif.Handlers.C06
