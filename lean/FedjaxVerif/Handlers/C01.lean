import FedjaxVerif.Model.Proto
import FedjaxVerif.Model.FedAvg

namespace FedjaxVerif.Handlers.C01
open FedjaxVerif FedAvg

/-- fixture shared with the harness: linear regression rows `(x, y)`, loss `½(w·x − y)²` averaged
over the batch, plus a key-dependent noise vector supplied by the harness for the key the model
names.  A batch is a list of rows `x ++ [y]`. -/
abbrev Batch := List (List Rat)

def dot (a b : List Rat) : Rat := (List.zipWith (· * ·) a b).foldl (· + ·) 0

def rowGrad (w : P) (row : List Rat) : P :=
  let x := row.dropLast
  let y := row.getLastD 0
  vscale (dot w x - y) x

def batchGrad (w : P) (b : Batch) : P :=
  let s := b.foldl (fun acc r => vadd acc (rowGrad w r)) (vzero w)
  vscale (1 / (b.length : Rat)) s

/-- client `j`'s key is the path `true^j ++ [false]`; the use-key of step `t` is
`clientKey ++ false^t ++ [true]` -/
def clientKey (j : Nat) : Key := List.replicate j true ++ [false]

def decodeKey (k : Key) : Nat × Nat :=
  let j := (k.takeWhile id).length
  let rest := k.drop (j + 1)
  (j, (rest.takeWhile (fun b => !b)).length)

def gradWith (noise : List (List P)) (w : P) (b : Batch) (k : Key) : P :=
  let (j, t) := decodeKey k
  let nz := ((noise[j]?).bind (·[t]?)).getD (vzero w)
  vadd (batchGrad w b) nz

def parseOpt (v : Val) : Option (Optimizer P) :=
  match v with
  | .list [kind, lr, m] => do
    let kind ← kind.toNat?; let lr ← lr.toRat?; let m ← m.toRat?
    match kind with
    | 0 => some (momentum lr 0 false)
    | 1 => some (momentum lr m false)
    | 2 => some (momentum lr m true)
    | _ => none
  | _ => none

def parseBatch (v : Val) : Option Batch := v.toRatss?

structure PClient where
  c : Client Nat Batch
  noise : List P

def parseClient (j : Nat) (v : Val) : Option PClient :=
  match v with
  | .list [i, sz, bs, nz] => do
    let i ← i.toNat?; let sz ← sz.toNat?
    let bs ← Val.mapM? parseBatch bs
    let nz ← nz.toRatss?
    some ⟨⟨i, sz, bs, clientKey j⟩, nz⟩
  | _ => none

def parseCohort (v : Val) : Option (List PClient) :=
  match v with
  | .list l => (l.zipIdx.mapM fun p => parseClient p.2 p.1)
  | _ => none

def runRounds (copt sopt : Optimizer P) (s : ServerState P) (cohorts : List (List PClient)) :
    List (ServerState P) :=
  (cohorts.foldl (fun (acc : ServerState P × List (ServerState P)) cohort =>
    let grad := gradWith (cohort.map (·.noise))
    let s' := round grad copt sopt acc.1 (cohort.map (·.c))
    (s', acc.2 ++ [s'])) (s, [])).2

def handle (op : String) (args : List Val) : Option Val :=
  match op, args with
  | "c01.rounds", [copt, sopt, params, cohorts] => do
    let copt ← parseOpt copt; let sopt ← parseOpt sopt
    let params ← params.toRats?
    let cohorts ← Val.mapM? parseCohort cohorts
    let res := runRounds copt sopt ⟨params, sopt.init params⟩ cohorts
    some (.list (res.map fun s => .list [Val.ofRats s.params, Val.ofRats s.opt]))
  | "c01.diag", [ids] => do
    let ids ← ids.toNats?
    some (Val.ofNats (diagnosticsKeys (ids.map fun i => (i, ([] : P)))))
  | _, _ => none

end FedjaxVerif.Handlers.C01
