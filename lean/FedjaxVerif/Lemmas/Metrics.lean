import FedjaxVerif.Lemmas.Stats
import FedjaxVerif.Model.Metrics

/-!
Shape and validity of the statistics produced by the built-in metrics (`Model/Metrics.lean`):
every `evaluate_example` result has the documented number of entries and lies in the documented
domain of its `Stat` type.  Used by `Props/C05.lean` and `Props/C14.lean`.
-/

namespace FedjaxVerif.Metrics
open FedjaxVerif.Stats

/-- an example whose per-position features all have `len` positions -/
def Ex.WellShaped (len : Nat) (e : Ex) : Prop :=
  e.targets.length = len ∧ e.scores.length = len ∧ e.logp.length = len

theorem length_perDomainV {σ : Type} (z : σ) (n : Nat) (d : Int) (v : List σ) :
    (perDomainV z n d v).length = n * v.length := by
  unfold perDomainV
  induction n with
  | zero => simp
  | succ n ih =>
    rw [List.range_succ, List.flatMap_append, List.length_append, ih]
    simp only [List.flatMap_cons, List.flatMap_nil, List.append_nil]
    split <;> simp [Nat.succ_mul]

theorem mem_perDomainV {σ : Type} {z : σ} {n : Nat} {d : Int} {v : List σ} {x : σ}
    (h : x ∈ perDomainV z n d v) : x ∈ v ∨ x = z := by
  unfold perDomainV at h
  obtain ⟨i, _, hx⟩ := List.mem_flatMap.mp h
  split at hx
  · exact Or.inl hx
  · obtain ⟨_, _, rfl⟩ := List.mem_map.mp hx
    exact Or.inr rfl

theorem tokenStat_valid (pp : Bool) (vals ws : List Rat) : ∀ s ∈ tokenStat pp vals ws, s.Valid := by
  intro s hs
  unfold tokenStat at hs
  split at hs
  · obtain ⟨i, _, rfl⟩ := List.mem_iff_getElem.mp hs
    simp only [List.getElem_zipWith]
    exact MeanStat.new_valid _ _
  · rw [List.mem_singleton.mp hs]; exact MeanStat.new_valid _ _

theorem tokenStat_length (pp : Bool) (vals ws : List Rat) (len : Nat)
    (h1 : vals.length = len) (h2 : ws.length = len) :
    (tokenStat pp vals ws).length = if pp then len else 1 := by
  unfold tokenStat
  split <;> simp [*]

theorem weights_length (masked : List Int) (ts : List Int) : (weights masked ts).length = ts.length := by
  simp [weights]

theorem MeanMetric.eval_valid (m : MeanMetric) (e : Ex) : ∀ s ∈ m.eval e, s.Valid := by
  induction m with
  | perDomain base n ih =>
    intro s hs
    rcases mem_perDomainV hs with h | h
    · exact ih s h
    · rw [h]; exact MeanStat.zero_valid
  | seqTokenCE _ _ => exact tokenStat_valid _ _ _
  | seqTokenAcc _ _ _ => exact tokenStat_valid _ _ _
  | seqTokenTopK _ _ _ _ => exact tokenStat_valid _ _ _
  | seqOOVRate _ _ _ => exact tokenStat_valid _ _ _
  | _ =>
    intro s hs
    simp only [MeanMetric.eval, List.mem_singleton] at hs
    rw [hs]; exact MeanStat.new_valid _ _

theorem MeanMetric.eval_length (m : MeanMetric) (len : Nat) (e : Ex) (he : e.WellShaped len) :
    (m.eval e).length = m.size len := by
  obtain ⟨h1, h2, h3⟩ := he
  induction m with
  | perDomain base n ih =>
    simp only [MeanMetric.eval, MeanMetric.size, length_perDomainV, ih]
  | seqTokenCE _ _ =>
    simp only [MeanMetric.eval, MeanMetric.size]
    apply tokenStat_length <;> simp [weights, *]
  | seqTokenAcc _ _ _ =>
    simp only [MeanMetric.eval, MeanMetric.size]
    apply tokenStat_length <;> simp [weights, *]
  | seqTokenTopK _ _ _ _ =>
    simp only [MeanMetric.eval, MeanMetric.size]
    apply tokenStat_length <;> simp [weights, *]
  | seqOOVRate _ _ _ =>
    simp only [MeanMetric.eval, MeanMetric.size]
    apply tokenStat_length <;> simp [weights, *]
  | _ => simp [MeanMetric.eval, MeanMetric.size]

theorem MeanMetric.eval_vecValid (m : MeanMetric) (len : Nat) (e : Ex) (he : e.WellShaped len) :
    VecValid (m.size len) MeanStat.Valid (m.eval e) :=
  ⟨m.eval_length len e he, m.eval_valid e⟩

theorem SumMetric.eval_length (m : SumMetric) (e : Ex) : (m.eval e).length = m.size := by
  induction m with
  | perDomain base n ih => simp only [SumMetric.eval, SumMetric.size, length_perDomainV, ih]
  | confusion c =>
    simp only [SumMetric.eval, SumMetric.size]
    generalize argmaxFirst _ = a
    have : ∀ k : Nat, ((List.range k).flatMap fun (r : Nat) => (List.range c).map fun (col : Nat) =>
        SumStat.new (ind ((r : Int) == e.target && col == a))).length = k * c := by
      intro k
      induction k with
      | zero => simp
      | succ k ih => rw [List.range_succ, List.flatMap_append, List.length_append, ih]; simp [Nat.succ_mul]
    exact this c
  | _ => simp [SumMetric.eval, SumMetric.size]

theorem SumMetric.eval_vecValid (m : SumMetric) (e : Ex) :
    VecValid m.size (fun _ => True) (m.eval e) :=
  ⟨m.eval_length e, fun _ _ => trivial⟩

end FedjaxVerif.Metrics
