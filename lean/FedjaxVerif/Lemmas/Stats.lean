import Mathlib.Tactic.Linarith
import Mathlib.Tactic.Ring
import Mathlib.Algebra.Order.Field.Rat
import FedjaxVerif.Model.Stats

/-!
Algebra of `MeanStat` / `SumStat` / pointwise lifts, and the generic consequences for
`evalBatch` / `evalModel` (used by `Props/C05.lean` and `Props/C14.lean`).
-/

namespace FedjaxVerif.Stats

/-! ## MeanStat -/

namespace MeanStat

theorem new_of_pos {a w : Rat} (h : 0 < w) : new a w = ⟨a, w⟩ := by
  have h1 : max 0 w = w := max_eq_right h.le
  simp only [new, h1]
  rw [if_neg (ne_of_gt h)]

theorem new_of_nonpos {a w : Rat} (h : w ≤ 0) : new a w = ⟨0, 0⟩ := by
  have h1 : max 0 w = 0 := max_eq_left h
  simp [new, h1]

theorem new_valid (a w : Rat) : (new a w).Valid := by
  rcases lt_or_ge 0 w with h | h
  · rw [new_of_pos h]; exact Or.inr h
  · rw [new_of_nonpos h]; exact Or.inl ⟨rfl, rfl⟩

theorem zero_eq : zero = ⟨0, 0⟩ := new_of_nonpos (le_refl 0)

theorem zero_valid : zero.Valid := new_valid 0 0

theorem Valid.weight_nonneg {s : MeanStat} (h : s.Valid) : 0 ≤ s.weight := by
  rcases h with ⟨_, h⟩ | h
  · rw [h]
  · exact h.le

theorem Valid.new_self {s : MeanStat} (h : s.Valid) : new s.accum s.weight = s := by
  rcases h with ⟨h1, h2⟩ | h
  · rw [new_of_nonpos (le_of_eq h2)]; cases s; simp_all
  · rw [new_of_pos h]

/-- the documented domain is closed under plain field-wise addition -/
theorem Valid.add {s t : MeanStat} (hs : s.Valid) (ht : t.Valid) :
    Valid ⟨s.accum + t.accum, s.weight + t.weight⟩ := by
  rcases hs with ⟨h1, h2⟩ | hs
  · rcases ht with ⟨h3, h4⟩ | ht
    · left; simp [h1, h2, h3, h4]
    · right; simp only [h2]; linarith
  · right
    have := ht.weight_nonneg
    simp only; linarith

theorem merge_eq_add {s t : MeanStat} (hs : s.Valid) (ht : t.Valid) :
    merge s t = ⟨s.accum + t.accum, s.weight + t.weight⟩ :=
  (Valid.add hs ht).new_self

theorem merge_valid (s t : MeanStat) : (merge s t).Valid := new_valid _ _

theorem merge_comm (s t : MeanStat) : merge s t = merge t s := by
  simp only [merge, add_comm]

theorem merge_assoc {s t u : MeanStat} (hs : s.Valid) (ht : t.Valid) (hu : u.Valid) :
    merge (merge s t) u = merge s (merge t u) := by
  rw [merge_eq_add hs ht, merge_eq_add ht hu,
    merge_eq_add (Valid.add hs ht) hu, merge_eq_add hs (Valid.add ht hu)]
  simp only [add_assoc]

theorem zero_merge {s : MeanStat} (h : s.Valid) : merge zero s = s := by
  rw [merge_eq_add zero_valid h, zero_eq]
  cases s; simp

theorem sum_valid {l : List MeanStat} (h : ∀ x ∈ l, x.Valid) :
    Valid ⟨(l.map (·.accum)).sum, (l.map (·.weight)).sum⟩ := by
  induction l with
  | nil => left; simp
  | cons a l ih =>
    have h1 := h a (List.mem_cons_self ..)
    have h2 := ih fun x hx => h x (List.mem_cons_of_mem _ hx)
    simpa using Valid.add h1 h2

theorem reduce_eq {l : List MeanStat} (h : ∀ x ∈ l, x.Valid) :
    reduce l = ⟨(l.map (·.accum)).sum, (l.map (·.weight)).sum⟩ :=
  (sum_valid h).new_self

theorem reduce_valid (l : List MeanStat) : (reduce l).Valid := new_valid _ _

theorem reduce_nil : reduce [] = zero := by simp [reduce, zero]

theorem reduce_cons {a : MeanStat} {l : List MeanStat} (ha : a.Valid) (hl : ∀ x ∈ l, x.Valid) :
    reduce (a :: l) = merge a (reduce l) := by
  have hal : ∀ x ∈ a :: l, x.Valid := by
    intro x hx
    rcases List.mem_cons.mp hx with rfl | hx
    · exact ha
    · exact hl x hx
  rw [reduce_eq hal, reduce_eq hl, merge_eq_add ha (sum_valid hl)]
  simp

theorem result_zero : zero.result = 0 := by simp [result, zero_eq]

/-- the result is never a division by zero: it is `accum / weight` with `weight > 0`, or `0` -/
theorem result_valid {s : MeanStat} (h : s.Valid) :
    (s = zero ∧ s.result = 0) ∨ (0 < s.weight ∧ s.result * s.weight = s.accum) := by
  rcases h with ⟨h1, h2⟩ | h
  · left
    refine ⟨by rw [zero_eq]; cases s; simp_all, by simp [result, h2]⟩
  · right
    refine ⟨h, ?_⟩
    simp only [result, if_pos (ne_of_gt h)]
    exact div_mul_cancel₀ _ (ne_of_gt h)

end MeanStat

/-! ## SumStat -/

namespace SumStat

theorem merge_comm (s t : SumStat) : merge s t = merge t s := by
  simp only [merge, new, add_comm]

theorem merge_assoc (s t u : SumStat) : merge (merge s t) u = merge s (merge t u) := by
  simp only [merge, new, add_assoc]

theorem zero_merge (s : SumStat) : merge zero s = s := by
  cases s; simp [merge, zero, new]

theorem reduce_nil : reduce [] = zero := by simp [reduce, zero]

theorem reduce_cons (a : SumStat) (l : List SumStat) : reduce (a :: l) = merge a (reduce l) := by
  simp [reduce, merge, new]

end SumStat

/-! ## Lawful statistics -/

/-- `merge` is a commutative monoid on the valid statistics, and `reduce` is the iterated merge. -/
structure Lawful {σ : Type} (o : StatOps σ) (V : σ → Prop) : Prop where
  zero_valid : V o.zero
  merge_valid : ∀ a b, V a → V b → V (o.merge a b)
  merge_comm : ∀ a b, V a → V b → o.merge a b = o.merge b a
  merge_assoc : ∀ a b c, V a → V b → V c → o.merge (o.merge a b) c = o.merge a (o.merge b c)
  zero_merge : ∀ a, V a → o.merge o.zero a = a
  reduce_nil : o.reduce [] = o.zero
  reduce_cons : ∀ a l, V a → (∀ x ∈ l, V x) → o.reduce (a :: l) = o.merge a (o.reduce l)

theorem meanLawful : Lawful meanOps MeanStat.Valid where
  zero_valid := MeanStat.zero_valid
  merge_valid a b _ _ := MeanStat.merge_valid a b
  merge_comm a b _ _ := MeanStat.merge_comm a b
  merge_assoc _ _ _ ha hb hc := MeanStat.merge_assoc ha hb hc
  zero_merge _ ha := MeanStat.zero_merge ha
  reduce_nil := MeanStat.reduce_nil
  reduce_cons _ _ ha hl := MeanStat.reduce_cons ha hl

theorem sumLawful : Lawful sumOps (fun _ => True) where
  zero_valid := trivial
  merge_valid _ _ _ _ := trivial
  merge_comm a b _ _ := SumStat.merge_comm a b
  merge_assoc a b c _ _ _ := SumStat.merge_assoc a b c
  zero_merge a _ := SumStat.zero_merge a
  reduce_nil := SumStat.reduce_nil
  reduce_cons a l _ _ := SumStat.reduce_cons a l

/-- validity of a flattened statistic with `n` entries -/
def VecValid {σ : Type} (n : Nat) (V : σ → Prop) (v : List σ) : Prop :=
  v.length = n ∧ ∀ x ∈ v, V x

namespace Lawful

variable {σ : Type} {o : StatOps σ} {V : σ → Prop}

theorem merge_zero (h : Lawful o V) {a : σ} (ha : V a) : o.merge a o.zero = a := by
  rw [h.merge_comm a o.zero ha h.zero_valid, h.zero_merge a ha]

theorem reduce_valid (h : Lawful o V) {l : List σ} (hl : ∀ x ∈ l, V x) : V (o.reduce l) := by
  induction l with
  | nil => rw [h.reduce_nil]; exact h.zero_valid
  | cons a l ih =>
    have ha := hl a (List.mem_cons_self ..)
    have hl' : ∀ x ∈ l, V x := fun x hx => hl x (List.mem_cons_of_mem _ hx)
    rw [h.reduce_cons a l ha hl']
    exact h.merge_valid _ _ ha (ih hl')

/-- the merge of a list of statistics into an accumulator, one by one -/
def mergeAll (o : StatOps σ) (s : σ) (l : List σ) : σ := l.foldl o.merge s

theorem mergeAll_valid (h : Lawful o V) {s : σ} (hs : V s) {l : List σ} (hl : ∀ x ∈ l, V x) :
    V (mergeAll o s l) := by
  induction l generalizing s with
  | nil => exact hs
  | cons a l ih =>
    exact ih (h.merge_valid _ _ hs (hl a (List.mem_cons_self ..)))
      fun x hx => hl x (List.mem_cons_of_mem _ hx)

theorem merge_mergeAll (h : Lawful o V) {s t : σ} (hs : V s) (ht : V t) {l : List σ}
    (hl : ∀ x ∈ l, V x) : o.merge s (mergeAll o t l) = mergeAll o (o.merge s t) l := by
  induction l generalizing t with
  | nil => rfl
  | cons a l ih =>
    have ha := hl a (List.mem_cons_self ..)
    have hl' : ∀ x ∈ l, V x := fun x hx => hl x (List.mem_cons_of_mem _ hx)
    simp only [mergeAll, List.foldl_cons] at ih ⊢
    rw [ih (h.merge_valid _ _ ht ha) hl', h.merge_assoc _ _ _ hs ht ha]

/-- `reduce` = left fold of `merge` from `zero` -/
theorem reduce_eq_mergeAll (h : Lawful o V) {l : List σ} (hl : ∀ x ∈ l, V x) :
    o.reduce l = mergeAll o o.zero l := by
  induction l with
  | nil => exact h.reduce_nil
  | cons a l ih =>
    have ha := hl a (List.mem_cons_self ..)
    have hl' : ∀ x ∈ l, V x := fun x hx => hl x (List.mem_cons_of_mem _ hx)
    rw [h.reduce_cons a l ha hl', ih hl', h.merge_mergeAll ha h.zero_valid hl', h.merge_zero ha]
    simp only [mergeAll, List.foldl_cons]
    rw [h.zero_merge a ha]

theorem mergeAll_append (s : σ) (l₁ l₂ : List σ) :
    mergeAll o s (l₁ ++ l₂) = mergeAll o (mergeAll o s l₁) l₂ := by
  simp [mergeAll, List.foldl_append]

/-- entries equal to `zero` do not matter -/
theorem mergeAll_filter_zero (h : Lawful o V) {s : σ} (hs : V s) (l : List (σ × Bool))
    (hl : ∀ p ∈ l, V p.1) :
    mergeAll o s (l.map fun p => if p.2 then p.1 else o.zero)
      = mergeAll o s (l.filterMap fun p => if p.2 then some p.1 else none) := by
  induction l generalizing s with
  | nil => rfl
  | cons p l ih =>
    have hp := hl p (List.mem_cons_self ..)
    have hl' : ∀ q ∈ l, V q.1 := fun q hq => hl q (List.mem_cons_of_mem _ hq)
    rcases p with ⟨x, b⟩
    cases b
    · simp only [List.map_cons, List.filterMap_cons, mergeAll, List.foldl_cons] at ih ⊢
      simp only [Bool.false_eq_true, if_false]
      rw [h.merge_zero hs]
      exact ih hs hl'
    · simp only [List.map_cons, List.filterMap_cons, mergeAll, List.foldl_cons, if_true] at ih ⊢
      exact ih (h.merge_valid _ _ hs hp) hl'

/-- merging in any order gives the same statistic -/
theorem mergeAll_perm (h : Lawful o V) {l₁ l₂ : List σ} (hp : l₁.Perm l₂) :
    ∀ {s : σ}, V s → (∀ x ∈ l₁, V x) → mergeAll o s l₁ = mergeAll o s l₂ := by
  induction hp with
  | nil => intros; rfl
  | cons a _ ih =>
    intro s hs hl
    simp only [mergeAll, List.foldl_cons] at ih ⊢
    exact ih (h.merge_valid _ _ hs (hl a (List.mem_cons_self ..)))
      fun x hx => hl x (List.mem_cons_of_mem _ hx)
  | swap a b l =>
    intro s hs hl
    have ha : V a := hl a (by simp)
    have hb : V b := hl b (by simp)
    simp only [mergeAll, List.foldl_cons]
    rw [h.merge_assoc _ _ _ hs hb ha, h.merge_comm b a hb ha, ← h.merge_assoc _ _ _ hs ha hb]
  | trans p₁ _ ih₁ ih₂ =>
    intro s hs hl
    rw [ih₁ hs hl, ih₂ hs fun x hx => hl x (p₁.mem_iff.mpr hx)]

end Lawful

/-! ## pointwise lift -/

section vec
variable {σ : Type} {o : StatOps σ} {V : σ → Prop}

theorem getD_valid (h : Lawful o V) {v : List σ} (hv : ∀ x ∈ v, V x) (i : Nat) : V (v.getD i o.zero) := by
  rw [List.getD_eq_getElem?_getD]
  rcases hi : v[i]? with _ | x
  · exact h.zero_valid
  · exact hv x (List.mem_of_getElem? hi)

theorem eq_map_getD {n : Nat} {v : List σ} (z : σ) (hv : v.length = n) :
    v = (List.range n).map fun i => v.getD i z := by
  apply List.ext_getElem
  · simp [hv]
  · intro i h1 h2
    simp [List.getD_eq_getElem?_getD, List.getElem?_eq_getElem h1]

theorem zipWith_map_range {α β γ : Type} (f : α → β → γ) (g : Nat → α) (k : Nat → β) (n : Nat) :
    List.zipWith f ((List.range n).map g) ((List.range n).map k)
      = (List.range n).map fun i => f (g i) (k i) := by
  rw [List.zipWith_map_left, List.zipWith_map_right, List.zipWith_self]

theorem vec_merge_eq {n : Nat} {a b : List σ} (ha : a.length = n) (hb : b.length = n) :
    (vecOps n o).merge a b = (List.range n).map fun i => o.merge (a.getD i o.zero) (b.getD i o.zero) := by
  show List.zipWith o.merge a b = _
  conv_lhs => rw [eq_map_getD o.zero ha, eq_map_getD o.zero hb]
  rw [zipWith_map_range]

theorem getD_map_range {n i : Nat} (g : Nat → σ) (z : σ) (hi : i < n) :
    ((List.range n).map g).getD i z = g i := by
  simp [List.getD_eq_getElem?_getD, hi]

theorem vecLawful (n : Nat) (h : Lawful o V) : Lawful (vecOps n o) (VecValid n V) where
  zero_valid := by
    refine ⟨by simp [vecOps], ?_⟩
    intro x hx
    rw [List.eq_of_mem_replicate hx]; exact h.zero_valid
  merge_valid a b ha hb := by
    rw [vec_merge_eq ha.1 hb.1]
    refine ⟨by simp, ?_⟩
    intro x hx
    obtain ⟨i, _, rfl⟩ := List.mem_map.mp hx
    exact h.merge_valid _ _ (getD_valid h ha.2 i) (getD_valid h hb.2 i)
  merge_comm a b ha hb := by
    rw [vec_merge_eq ha.1 hb.1, vec_merge_eq hb.1 ha.1]
    apply List.map_congr_left
    intro i _
    exact h.merge_comm _ _ (getD_valid h ha.2 i) (getD_valid h hb.2 i)
  merge_assoc a b c ha hb hc := by
    have hab : ((vecOps n o).merge a b).length = n := by rw [vec_merge_eq ha.1 hb.1]; simp
    have hbc : ((vecOps n o).merge b c).length = n := by rw [vec_merge_eq hb.1 hc.1]; simp
    rw [vec_merge_eq hab hc.1, vec_merge_eq ha.1 hbc]
    apply List.map_congr_left
    intro i hi
    have hi : i < n := List.mem_range.mp hi
    rw [vec_merge_eq ha.1 hb.1, vec_merge_eq hb.1 hc.1, getD_map_range _ _ hi, getD_map_range _ _ hi]
    exact h.merge_assoc _ _ _ (getD_valid h ha.2 i) (getD_valid h hb.2 i) (getD_valid h hc.2 i)
  zero_merge a ha := by
    have hz : ((vecOps n o).zero).length = n := by simp [vecOps]
    rw [vec_merge_eq hz ha.1]
    conv_rhs => rw [eq_map_getD o.zero ha.1]
    apply List.map_congr_left
    intro i hi
    have hi : i < n := List.mem_range.mp hi
    have : ((vecOps n o).zero).getD i o.zero = o.zero := by
      simp [vecOps, List.getD_eq_getElem?_getD, hi]
    rw [this]
    exact h.zero_merge _ (getD_valid h ha.2 i)
  reduce_nil := by
    show (List.range n).map (fun i => o.reduce (([] : List (List σ)).map fun v => v.getD i o.zero)) = _
    simp only [List.map_nil, h.reduce_nil]
    simp [vecOps, List.map_const']
  reduce_cons a l ha hl := by
    have hr : ((vecOps n o).reduce l).length = n := by simp [vecOps]
    rw [vec_merge_eq ha.1 hr]
    show (List.range n).map (fun i => o.reduce ((a :: l).map fun v => v.getD i o.zero)) = _
    apply List.map_congr_left
    intro i hi
    have hi : i < n := List.mem_range.mp hi
    have : ((vecOps n o).reduce l).getD i o.zero = o.reduce (l.map fun v => v.getD i o.zero) := by
      show ((List.range n).map fun i => o.reduce (l.map fun v => v.getD i o.zero)).getD i o.zero = _
      rw [getD_map_range _ _ hi]
    rw [this, List.map_cons]
    apply h.reduce_cons _ _ (getD_valid h ha.2 i)
    intro x hx
    obtain ⟨v, hv, rfl⟩ := List.mem_map.mp hx
    exact getD_valid h (hl v hv).2 i

end vec

/-! ## evaluate_batch / evaluate_model -/

section eval
variable {σ ε : Type} {o : StatOps σ} {V : σ → Prop}
open Lawful

theorem maskRows_eq (f : ε → σ) (rows : List ε) (mask : List Bool) :
    maskRows o f rows mask = ((rows.zip mask).map fun p => (f p.1, p.2)).map
      fun p => if p.2 then p.1 else o.zero := by
  simp only [maskRows, List.zip_eq_zipWith, List.map_zipWith]

theorem filterMap_congr' {α β : Type} {f g : α → Option β} {l : List α} (h : ∀ x ∈ l, f x = g x) :
    l.filterMap f = l.filterMap g := by
  induction l with
  | nil => rfl
  | cons a l ih =>
    rw [List.filterMap_cons, List.filterMap_cons, h a (List.mem_cons_self ..),
      ih fun x hx => h x (List.mem_cons_of_mem _ hx)]

theorem unmasked_map (f : ε → σ) (rows : List ε) (mask : List Bool) :
    (unmasked rows mask).map f = ((rows.zip mask).map fun p => (f p.1, p.2)).filterMap
      fun p => if p.2 then some p.1 else none := by
  simp only [unmasked, List.map_filterMap, List.filterMap_map]
  congr 1
  funext p
  by_cases hp : p.2 <;> simp [hp, Function.comp]

theorem mem_unmasked {rows : List ε} {mask : List Bool} {e : ε} :
    e ∈ unmasked rows mask ↔ (e, true) ∈ rows.zip mask := by
  simp only [unmasked, List.mem_filterMap]
  constructor
  · rintro ⟨⟨x, b⟩, hp, hx⟩
    cases b <;> simp_all
  · intro h
    exact ⟨(e, true), h, by simp⟩

/-- `evaluate_batch` = merge of the statistics of the unmasked rows, one by one, from `zero`. -/
theorem evalBatch_eq (h : Lawful o V) (f : ε → σ) (rows : List ε) (mask : List Bool)
    (hv : ∀ e ∈ unmasked rows mask, V (f e)) :
    evalBatch o f rows (some mask) = mergeAll o o.zero ((unmasked rows mask).map f) := by
  -- masked rows contribute `zero` whatever they contain, so first replace `f` on them
  have key : maskRows o f rows mask
      = ((rows.zip mask).map fun p => ((if p.2 then f p.1 else o.zero), p.2)).map
          fun p => if p.2 then p.1 else o.zero := by
    rw [maskRows_eq, List.map_map, List.map_map]
    apply List.map_congr_left
    intro p _
    by_cases hp : p.2 <;> simp [hp]
  have um : (unmasked rows mask).map f
      = ((rows.zip mask).map fun p => ((if p.2 then f p.1 else o.zero), p.2)).filterMap
          fun p => if p.2 then some p.1 else none := by
    rw [unmasked_map, List.filterMap_map, List.filterMap_map]
    apply filterMap_congr'
    intro p _
    by_cases hp : p.2 <;> simp [hp]
  have hall : ∀ q ∈ (rows.zip mask).map (fun p => ((if p.2 then f p.1 else o.zero), p.2)), V q.1 := by
    intro q hq
    obtain ⟨⟨e, b⟩, hp, rfl⟩ := List.mem_map.mp hq
    cases b
    · simpa using h.zero_valid
    · simpa using hv e (mem_unmasked.mpr hp)
  show o.reduce (maskRows o f rows mask) = _
  rw [key, um, h.reduce_eq_mergeAll, h.mergeAll_filter_zero h.zero_valid _ hall]
  intro x hx
  obtain ⟨q, hq, rfl⟩ := List.mem_map.mp hx
  by_cases hb : q.2
  · simpa [hb] using hall q hq
  · simpa [hb] using h.zero_valid

theorem evalBatch_valid (h : Lawful o V) (f : ε → σ) (rows : List ε) (mask : List Bool)
    (hv : ∀ e ∈ unmasked rows mask, V (f e)) : V (evalBatch o f rows (some mask)) := by
  rw [evalBatch_eq h f rows mask hv]
  apply h.mergeAll_valid h.zero_valid
  intro x hx
  obtain ⟨e, he, rfl⟩ := List.mem_map.mp hx
  exact hv e he

/-- the effective mask of a batch (`_evaluate_model_step`) -/
def batchMask (b : List ε × Option (List Bool)) : List Bool :=
  b.2.getD (List.replicate b.1.length true)

/-- the real examples of a batch -/
def batchReal (b : List ε × Option (List Bool)) : List ε := unmasked b.1 (batchMask b)

theorem evalModel_aux (h : Lawful o V) (f : ε → σ) (batches : List (List ε × Option (List Bool)))
    (hv : ∀ b ∈ batches, ∀ e ∈ batchReal b, V (f e)) {s : σ} (hs : V s) :
    batches.foldl (evalStep o f) s = mergeAll o s ((batches.flatMap batchReal).map f) := by
  induction batches generalizing s with
  | nil => rfl
  | cons b bs ih =>
    have hb := hv b (List.mem_cons_self ..)
    have hbs : ∀ b' ∈ bs, ∀ e ∈ batchReal b', V (f e) := fun b' hb' => hv b' (List.mem_cons_of_mem _ hb')
    have hbv : ∀ x ∈ (batchReal b).map f, V x := by
      intro x hx
      obtain ⟨e, he, rfl⟩ := List.mem_map.mp hx
      exact hb e he
    simp only [List.foldl_cons, List.flatMap_cons, List.map_append]
    rw [mergeAll_append, ← ih hbs (h.mergeAll_valid hs hbv)]
    congr 1
    show o.merge s (evalBatch o f b.1 (some (batchMask b))) = _
    rw [evalBatch_eq h f b.1 (batchMask b) hb]
    change o.merge s (mergeAll o o.zero ((batchReal b).map f)) = _
    rw [h.merge_mergeAll hs h.zero_valid hbv, h.merge_zero hs]

end eval

end FedjaxVerif.Stats
