/-
Model of `fedjax/core/client_datasets.py`: `BatchView`, `PaddedBatchView`,
`_pick_final_batch_size`, `pad_examples` (C03).

The model follows the loops of the source:
  * `for start in range(0, N, bs)`  ↦ `starts N bs`
  * `slice_examples(raw, slice(start, start+bs))` (numpy clips) ↦ `(xs.drop start).take bs`
  * `while low >= r and n < buckets` ↦ `pickGo` with fuel = `buckets`
Core Lean only (no Mathlib): this file is linked into the driver executable.
-/

namespace FedjaxVerif.Batching

/-- `list(range(0, N, bs))` for `bs ≥ 1`. -/
def starts (N bs : Nat) : List Nat := (List.range ((N + bs - 1) / bs)).map (· * bs)

/-- `BatchView.__iter__`: every start is sliced; the batch is yielded unless
`drop_remainder and stop > N`. -/
def batchView {α} (bs : Nat) (drop : Bool) (xs : List α) : List (List α) :=
  (starts xs.length bs).filterMap fun s =>
    if !drop || s + bs ≤ xs.length then some ((xs.drop s).take bs) else none

/-- the `while low >= r and n < buckets` loop; state `(high, low, n)`. -/
def pickGo (r buckets : Nat) : Nat → Nat → Nat → Nat → Nat
  | 0, high, _, _ => high
  | fuel+1, high, low, n =>
    if low ≥ r ∧ n < buckets then pickGo r buckets fuel low (low / 2) (n + 1) else high

/-- `_pick_final_batch_size(data_size, batch_size, num_batch_size_buckets)`. -/
def pickFinal (dataSize batchSize buckets : Nat) : Nat :=
  let r := dataSize % batchSize
  if r = 0 then batchSize else pickGo r buckets buckets batchSize (batchSize / 2) 1

/-- `pad_examples(rows, size)`: rows followed by zero rows, mask `arange(size) < len(rows)`.
The real function raises `ValueError` when `len(rows) > size`; the model returns `none`. -/
def padTo {α} (z : α) (size : Nat) (rows : List α) : Option (List α × List Bool) :=
  if rows.length > size then none
  else some (rows ++ List.replicate (size - rows.length) z,
             (List.range size).map (fun i => decide (i < rows.length)))

/-- `PaddedBatchView.__iter__`. `none` = the real code would raise in `pad_examples`. -/
def paddedView {α} (bs buckets : Nat) (z : α) (xs : List α) : Option (List (List α × List Bool)) :=
  (starts xs.length bs).mapM fun s =>
    let rows := (xs.drop s).take bs
    if s + bs ≤ xs.length then some (rows, List.replicate bs true)
    else padTo z (pickFinal xs.length bs buckets) rows

/-- rows whose mask entry is `true`, in order. -/
def unpadBatch {α} (b : List α × List Bool) : List α :=
  (b.1.zip b.2).filterMap fun p => if p.2 then some p.1 else none

def unpad {α} (bsx : List (List α × List Bool)) : List α := bsx.flatMap unpadBatch

end FedjaxVerif.Batching
