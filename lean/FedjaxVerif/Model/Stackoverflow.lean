/-
Model of `fedjax/datasets/stackoverflow.py: DefaultWordTokenizer.create_token_to_ids_fn`
for one sentence and one `max_length` (with `num_oov_buckets = 1`).

The source splits the sentence at single spaces, looks every word up in the vocabulary table
(index `i < nv` for the `i`-th vocabulary word, the single out-of-vocabulary bucket `nv`
otherwise), adds 3 (0/1/2 are PAD/BOS/EOS), surrounds with BOS/EOS, takes
`x = ids[:-1]`, `y = ids[1:]`, and `to_tensor(PAD, shape=[N, max_length])` pads with PAD or
truncates each row to **its own** `max_length` (the argument given when this preprocessor was
created).  The splitting/lookup is an external: a sentence enters as the list of look-up results
(`some i` = vocabulary index, `none` = out of vocabulary).  Core Lean only.
-/

namespace FedjaxVerif.Stackoverflow

def PAD : Nat := 0
def BOS : Nat := 1
def EOS : Nat := 2

/-- `table.lookup(word)` with one OOV bucket. -/
def lookup (nv : Nat) : Option Nat → Nat
  | some i => i
  | none => nv

/-- `concat([BOS], lookup(words) + 3, [EOS])`. -/
def tokenIds (nv : Nat) (ws : List (Option Nat)) : List Nat :=
  BOS :: (ws.map (fun w => lookup nv w + 3) ++ [EOS])

/-- one row of `ragged.to_tensor(PAD, shape=[N, L])`: truncate to `L`, then pad to `L`. -/
def toDense (L : Nat) (r : List Nat) : List Nat :=
  r.take L ++ List.replicate (L - r.length) PAD

/-- `(x, y)` rows of one sentence for a preprocessor created with `max_length = L`. -/
def tokenize (nv L : Nat) (ws : List (Option Nat)) : List Nat × List Nat :=
  let ids := tokenIds nv ws
  (toDense L ids.dropLast, toDense L ids.tail)

def tokenizeBatch (nv L : Nat) (ss : List (List (Option Nat))) : List (List Nat) × List (List Nat) :=
  (ss.map fun s => (tokenize nv L s).1, ss.map fun s => (tokenize nv L s).2)

end FedjaxVerif.Stackoverflow
