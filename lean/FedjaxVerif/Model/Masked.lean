import FedjaxVerif.Model.TreeUtil

/-
Model of the mask-weighted losses and gradients (C06):

  * `fedjax/core/util.py::safe_div`
  * `fedjax/core/models.py::grad` / `model_grad` (`scalar_loss`: `safe_div(vdot(loss, mask), sum(mask))`
    under a mask, `jnp.mean(loss)` without one, `+ regularizer(params)`), its value and its gradient
  * `_evaluate_average_loss_step` / `_finalize_average_loss` (`evaluate_average_loss`,
    `AverageLossEvaluator`, and through it HypCluster's `_cluster_losses`)
  * `fedjax/algorithms/mime.py::create_grads_for_each_client` + the server's
    `tree_sum` / `tree_inverse_weight` (also used by `mime_lite.py`)
  * `fedjax/algorithms/agnostic_fed_avg.py::create_domain_metrics_for_each_client` (as the algorithm
    uses it: without a regularizer)

Externals.  The per-example loss `ℓᵢ` and per-example gradient `gᵢ = ∂ℓᵢ/∂θ` (flattened to a
coordinate list of length `d`) of every row of a batch are *inputs* of the model: `jax.grad` is
linear, so the gradient of `vdot(loss, mask)` is `Σ maskᵢ · gᵢ` and the gradient of
`safe_div(a(θ), n)` is `safe_div(a'(θ), n)` (autodiff linearity is trusted, and compared on every
run).  The regularizer enters as its value `ρ` and its gradient `r` (`regularizer=None` is `ρ = 0`,
`r = 0`: adding `0` is the identity over `Rat`).  All numbers are rationals, i.e. *finite*: a loss that is
±Inf/NaN on a padding row is outside this model (see `Props/C06.lean`, `FRow`).

Core Lean only (linked into the driver).
-/

namespace FedjaxVerif.Masked
open FedjaxVerif.TreeUtil

/-- one row of a batch: its mask bit, per-example loss, per-example gradient and (for agnostic
FedAvg) its `domain_id`.  Rows with `mask = false` are padding and carry arbitrary values. -/
structure Row where
  mask : Bool
  loss : Rat
  grad : List Rat
  dom : Nat := 0
deriving Repr

/-- the mask bit as the number the code multiplies with (`True = 1`, `False = 0`) -/
def Row.m (r : Row) : Rat := if r.mask then 1 else 0

/-- `util.safe_div`: `safe = b != 0; where(safe, a / where(safe, b, 1), 0)` -/
def safeDiv (a b : Rat) : Rat := if b ≠ 0 then a / b else 0

/-- `jnp.sum(mask)` -/
def maskSum (rows : List Row) : Rat := (rows.map Row.m).sum

/-- `jnp.vdot(batch_loss, mask)` -/
def lossDot (rows : List Row) : Rat := (rows.map fun r => r.loss * r.m).sum

/-- coordinate `k` of `Σ maskᵢ · gᵢ` = gradient of `vdot(batch_loss, mask)` -/
def gradDotAt (k : Nat) (rows : List Row) : Rat := (rows.map fun r => r.grad.getD k 0 * r.m).sum

/-! ### `models.grad`: value and gradient of `scalar_loss` -/

/-- value of `scalar_loss` on a batch that has the mask feature -/
def lossMasked (rows : List Row) (ρ : Rat) : Rat :=
  safeDiv (lossDot rows) (maskSum rows) + ρ

/-- gradient of `scalar_loss` on a batch that has the mask feature (`d` coordinates) -/
def gradMasked (d : Nat) (rows : List Row) (r : List Rat) : List Rat :=
  (List.range d).map fun k => safeDiv (gradDotAt k rows) (maskSum rows) + r.getD k 0

/-- value of `scalar_loss` on a batch without mask feature: `jnp.mean(batch_loss) + reg`;
`none` = mean of an empty array (NaN) -/
def lossUnmasked (rows : List Row) (ρ : Rat) : Option Rat :=
  if rows.length = 0 then none else some ((rows.map (·.loss)).sum / rows.length + ρ)

/-- gradient of `scalar_loss` on a batch without mask feature -/
def gradUnmasked (d : Nat) (rows : List Row) (r : List Rat) : Option (List Rat) :=
  if rows.length = 0 then none
  else some ((List.range d).map fun k => (rows.map fun x => x.grad.getD k 0).sum / rows.length + r.getD k 0)

/-! ### average loss (`evaluate_average_loss`, `AverageLossEvaluator`, HypCluster cluster losses) -/

/-- a batch as the average-loss step sees it: `masked = (EXAMPLE_MASK_KEY in batch)` -/
structure Batch where
  masked : Bool
  rows : List Row

/-- `_evaluate_average_loss_step`: state = (`accum_loss`, `num_examples`) -/
def lossStep (st : Rat × Rat) (b : Batch) : Rat × Rat :=
  if b.masked then (st.1 + lossDot b.rows, st.2 + maskSum b.rows)
  else (st.1 + (b.rows.map (·.loss)).sum, st.2 + (b.rows.length : Rat))

/-- `evaluate_average_loss` = fold of the step from `(0, 0)`, then `_finalize_average_loss` -/
def avgLoss (bs : List Batch) (ρ : Rat) : Rat :=
  let st := bs.foldl lossStep (0, 0)
  safeDiv st.1 st.2 + ρ

/-! ### Mime / Mime-lite full-batch gradient -/

/-- `client_step` of `create_grads_for_each_client`; state = (`grads_sum`, `num_sum`);
`grads_sum = tree_add(tree_weight(grads, num), grads_sum)` -/
def mimeStep (d : Nat) (r : List Rat) (st : List Rat × Rat) (rows : List Row) : List Rat × Rat :=
  let grads := gradMasked d rows r
  let num := maskSum rows
  (treeAdd (treeWeight grads num) st.1, st.2 + num)

/-- one client: fold from (`zeros_like(params)`, `0.`); `client_final` returns the state -/
def mimeClient (d : Nat) (r : List Rat) (batches : List (List Row)) : List Rat × Rat :=
  batches.foldl (mimeStep d r) (List.replicate d 0, 0)

/-- server: `tree_sum` of the clients' `(grads_sum, num_sum)` tuples, then
`tree_inverse_weight(grads_sum_total, num_sum_total)`.  The tuple is flattened with `num_sum` first.
`none` = no client at all (`tree_sum` returns `None`, unpacking raises). -/
def fullGrad (d : Nat) (r : List Rat) (clients : List (List (List Row))) : Option (List Rat) :=
  match treeSum (clients.map fun c => let o := mimeClient d r c; o.2 :: o.1) with
  | some (num :: g) => some (treeInverseWeight g num)
  | _ => none

/-! ### agnostic FedAvg per-domain sums -/

/-- `jax.ops.segment_sum(vals, domain_id, D)` with `vals = f row`: entry `j` sums the rows of domain `j`
(ids `≥ D` are dropped) -/
def segmentSum (D : Nat) (rows : List Row) (f : Row → Rat) : List Rat :=
  (List.range D).map fun j => ((rows.filter fun r => r.dom == j).map f).sum

/-- `client_step` of `create_domain_metrics_for_each_client` (no regularizer);
state = (`domain_loss`, `domain_num`) -/
def domainStep (D : Nat) (st : List Rat × List Rat) (rows : List Row) : List Rat × List Rat :=
  (treeAdd st.1 (segmentSum D rows fun r => r.loss * r.m),
   treeAdd st.2 (segmentSum D rows Row.m))

/-- one client: fold from (`zeros(D)`, `zeros(D)`) -/
def domainSums (D : Nat) (batches : List (List Row)) : List Rat × List Rat :=
  batches.foldl (domainStep D) (List.replicate D 0, List.replicate D 0)

end FedjaxVerif.Masked
