/-
Model of fedjax/aggregators/walsh_hadamard.py (property C18).  Core Lean only.

* `hEntry k i j`      — entry (i, j) of the Sylvester Hadamard matrix of order `2^k`
                        (`(-1)^popcount(i &&& j)`, low-bit recursion); `scipy.linalg.hadamard(2^k)`.
* `hmul k x`          — plain matrix–vector product `H_{2^k} · x` (the specification side).
* `shapeOf n small`   — the `while n > 1: shape.append(min(n, small_n)); n //= small_n` loop + `reverse()`.
* `applyAxes shape x` — one `einsum` with `H_d` per axis of `x.reshape(shape)`, then `flatten()`.
                        Axis 0 acts on the whole array, the remaining axes act inside every
                        axis-0 slice (the einsums of different axes are independent of each other).
* `fwht small x`      — `walsh_hadamard_transform(x, small_n)` with the code's guards in the code's order.
* `rotU / invRotU`    — `structured_rotation` / `inverse_structured_rotation` WITHOUT the two `1/sqrt d`
                        factors (carried symbolically by the theorems); the Rademacher signs are an
                        oracle argument (`jax.random.rademacher(rng, [d])`, drawn by the harness with
                        the key and shape the code uses).
* `rot c / invRot c`  — the same with both results scaled by `c`, `c` standing for `1/sqrt d`.
* `rotTree / invRotTree` — the `_pytree` versions: leaves zipped with per-leaf sign vectors.

Everything is generic in the scalar type `α` (only `0`, `+`, `*` and the cast of `±1 : Int` are
used), so the driver runs it over `Rat`/`Int` and the theorems hold over every commutative ring,
in particular over `ℝ` where `1/sqrt d` lives.
-/

namespace FedjaxVerif.Hadamard

/-! ### Sylvester matrix -/

def bitSign (a b : Nat) : Int := if a % 2 = 1 ∧ b % 2 = 1 then -1 else 1

def hEntry : Nat → Nat → Nat → Int
  | 0, _, _ => 1
  | k+1, i, j => bitSign i j * hEntry k (i / 2) (j / 2)

section generic
variable {α : Type} [Zero α] [Add α] [Mul α] [IntCast α]

/-- `Σ_{i<n} f i` -/
def sumTo : Nat → (Nat → α) → α
  | 0, _ => 0
  | n+1, f => sumTo n f + f n

/-- matrix–vector product with the Sylvester matrix of order `2^k` (missing entries read as 0) -/
def hmul (k : Nat) (x : List α) : List α :=
  let xa := x.toArray
  (List.range (2 ^ k)).map fun i => sumTo (2 ^ k) fun j => ((hEntry k i j : Int) : α) * xa.getD j 0

/-! ### the reshape schedule -/

/-- the `while n > 1` loop, in append order -/
def shapeLoop (small : Nat) : Nat → Nat → List Nat
  | 0, _ => []
  | fuel+1, n => if n > 1 then min n small :: shapeLoop small fuel (n / small) else []

/-- `shape` after `shape.reverse()`; fuel `n` suffices for `small ≥ 2` -/
def shapeOf (n small : Nat) : List Nat := (shapeLoop small n n).reverse

def isPow2 (d : Nat) : Bool := d > 0 && 2 ^ Nat.log2 d == d

/-! ### einsum per axis -/

/-- `y = x.reshape(shape)`; `for i, d: y = einsum('..i..,iz->..z..', y, H_d)`; `y.flatten()`.
`out[m, u] = Σ_a y[a, u] * H_d[a, m]` for axis 0 (`u` = flat index of the remaining axes), then the
remaining axes inside each slice `m`. -/
def applyAxes : List Nat → List α → List α
  | [], x => x
  | d :: rest, x =>
    let r := rest.prod
    let e := Nat.log2 d
    let xa := x.toArray
    ((List.range d).map fun m =>
      applyAxes rest ((List.range r).map fun u =>
        sumTo d fun a => xa.getD (a * r + u) 0 * ((hEntry e a m : Int) : α))).flatten

/-- `walsh_hadamard_transform(x, small_n)`; errors are the exception classes of the code:
`small_n <= 1` → ValueError; more than 8 axes → ValueError; `reshape` impossible → TypeError;
`scipy.linalg.hadamard(d)` for `d` not a power of two → ValueError. -/
def fwht (small : Nat) (x : List α) : Except String (List α) :=
  if small ≤ 1 then .error "ValueError" else
  let shape := shapeOf x.length small
  if shape.length + 1 ≥ 10 then .error "ValueError" else
  if shape.prod ≠ x.length then .error "TypeError" else
  if !shape.all isPow2 then .error "ValueError" else
  .ok (applyAxes shape x)

/-! ### structured rotation -/

def ceilLog2Go (n : Nat) : Nat → Nat → Nat
  | 0, k => k
  | fuel+1, k => if n ≤ 2 ^ k then k else ceilLog2Go n fuel (k + 1)

/-- `math.ceil(math.log2 n)` for `n ≥ 1` -/
def ceilLog2 (n : Nat) : Nat := ceilLog2Go n n 0

/-- `jnp.pad(x_flat, (0, d - size))` -/
def padTo (d : Nat) (x : List α) : List α := x ++ List.replicate (d - x.length) 0

/-- the default `small_n` of `walsh_hadamard_transform` -/
def defaultSmall : Nat := 2 ^ 7

/-- `sqrt d · structured_rotation(x, rng)[0]` where `signs = rademacher(rng, [d])`;
`math.log2(0)` raises ValueError. -/
def rotU (signs : List Int) (x : List α) : Except String (List α) :=
  if x.length = 0 then .error "ValueError" else
  let d := 2 ^ ceilLog2 x.length
  fwht defaultSmall (List.zipWith (fun v (s : Int) => v * (s : α)) (padTo d x) signs)

/-- `sqrt d · inverse_structured_rotation(y, rng, shape)` (flat, C order) where
`signs = rademacher(rng, y.shape)`: transform, flip, crop to `prod shape` entries. -/
def invRotU (signs : List Int) (y : List α) (shape : List Nat) : Except String (List α) :=
  match fwht defaultSmall y with
  | .error e => .error e
  | .ok t => .ok ((List.zipWith (fun v (s : Int) => v * (s : α)) t signs).take shape.prod)

/-- `structured_rotation(x, rng)[0]` with `c` standing for `1/sqrt d` (an element with `c·c·d = 1`) -/
def rot (c : α) (signs : List Int) (x : List α) : Except String (List α) :=
  match rotU signs x with
  | .error e => .error e
  | .ok y => .ok (y.map fun v => c * v)

/-- `inverse_structured_rotation(y, rng, shape)` with `c` standing for `1/sqrt d` -/
def invRot (c : α) (signs : List Int) (y : List α) (shape : List Nat) : Except String (List α) :=
  match invRotU signs y shape with
  | .error e => .error e
  | .ok z => .ok (z.map fun v => c * v)

/-- `structured_rotation_pytree`: leaf `i` is rotated with the signs of key `split(rng, n)[i]`
(`cs[i]` stands for `1/sqrt dᵢ`; `zip` semantics as in the code) -/
def rotTree : List α → List (List Int) → List (List α) → Except String (List (List α))
  | c :: cs, s :: ss, x :: xs =>
    match rot c s x with
    | .error e => .error e
    | .ok y => match rotTree cs ss xs with
      | .error e => .error e
      | .ok ys => .ok (y :: ys)
  | _, _, _ => .ok []

/-- `inverse_structured_rotation_pytree` with the same per-leaf signs and the recorded shapes -/
def invRotTree : List α → List (List Int) → List (List α) → List (List Nat) →
    Except String (List (List α))
  | c :: cs, s :: ss, y :: ys, sh :: shs =>
    match invRot c s y sh with
    | .error e => .error e
    | .ok x => match invRotTree cs ss ys shs with
      | .error e => .error e
      | .ok xs => .ok (x :: xs)
  | _, _, _, _ => .ok []

end generic

end FedjaxVerif.Hadamard
