/-
Exact model of how the packaged language models' `train_loss` reduces per-token losses
(`fedjax/models/stackoverflow.py`, `fedjax/models/shakespeare.py`).

The per-token cross entropies are an external (computed from the logits by `log_softmax`); a row
enters as its targets and its per-token loss values (rationals).  The source multiplies the
per-token loss by `targets != pad`, then
* StackOverflow: sums over the sequence and, when `expected_length` is given, multiplies by
  `1 / expected_length`;
* Shakespeare: takes the mean over the sequence (`jnp.mean(axis=-1)`, i.e. divides by the row length).
Core Lean only.
-/

namespace FedjaxVerif.Loss

/-- `per_token_loss *= targets != pad` -/
def masked (pad : Nat) (targets : List Nat) (ce : List Rat) : List Rat :=
  List.zipWith (fun t c => if t = pad then 0 else c) targets ce

/-- `jnp.sum(per_token_loss * (targets != pad), axis=-1)` -/
def maskedSum (pad : Nat) (targets : List Nat) (ce : List Rat) : Rat :=
  (masked pad targets ce).sum

/-- StackOverflow: `sentence_loss` or `sentence_loss * (1 / expected_length)`. -/
def soLoss (pad : Nat) (el : Option Rat) (targets : List Nat) (ce : List Rat) : Rat :=
  match el with
  | none => maskedSum pad targets ce
  | some e => maskedSum pad targets ce * (1 / e)

/-- Shakespeare: mean over the sequence positions. -/
def shkLoss (pad : Nat) (targets : List Nat) (ce : List Rat) : Rat :=
  maskedSum pad targets ce / (targets.length : Rat)

/-- the per-example loss vector of a batch: every row by itself -/
def batchLoss (f : List Nat → List Rat → Rat) (rows : List (List Nat × List Rat)) : List Rat :=
  rows.map fun r => f r.1 r.2

end FedjaxVerif.Loss
