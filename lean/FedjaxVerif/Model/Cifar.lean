/-
Model of `fedjax/datasets/cifar100.py: preprocess_image_tff` for one image.

* crop: `image[begin_i:begin_i+h, begin_j:begin_j+w, :]` with the centre offsets
  `(H - h) // 2` (eval) or `u % (H - h + 1)` (training; `u` is the external random draw),
  optionally followed by `np.flip(axis=-2)` (left-right);
* per-image standardisation `(x - mean) / max(std, 1/sqrt(n))` over all `n = h*w*3` values of
  the cropped image — **as the property demands** (`tf.image.per_image_standardization`).
  The unrepaired source used `sqrt(n)` as the floor (DESIGN §6 row 16).

The arithmetic is generic in the number type (`Float` in the driver, an ordered field in the
theorems); the square root is a parameter.  Core Lean only.
-/

namespace FedjaxVerif.Cifar

/-! ### crop -/

/-- `img[oi:oi+h, oj:oj+w]` on a list of rows. -/
def crop {α} (h w oi oj : Nat) (img : List (List α)) : List (List α) :=
  ((img.drop oi).take h).map fun row => (row.drop oj).take w

/-- `(32 - crop) // 2`. -/
def centreOff (H h : Nat) : Nat := (H - h) / 2

/-- `offset = u % (shape - crop_shape + 1)`. -/
def randOff (u H h : Nat) : Nat := u % (H - h + 1)

/-- `np.flip(image, axis=-2)`: reverse every row. -/
def flipLR {α} (img : List (List α)) : List (List α) := img.map List.reverse

/-- The crop stage of `preprocess_image_tff` (`draw = none`: eval; `some (ui, uj, flip)`: training). -/
def cropTff {α} (H W h w : Nat) (draw : Option (Nat × Nat × Bool)) (img : List (List α)) :
    List (List α) :=
  match draw with
  | none => crop h w (centreOff H h) (centreOff W w) img
  | some (ui, uj, flip) =>
    let c := crop h w (randOff ui H h) (randOff uj W w) img
    if flip then flipLR c else c

/-! ### standardisation -/

section
variable {α : Type} [Add α] [Sub α] [Mul α] [Div α] [Zero α] [NatCast α] [Max α]

/-- `np.mean`. -/
def mean (xs : List α) : α := xs.sum / (xs.length : α)

/-- `np.std(...)**2` (population variance). -/
def variance (xs : List α) : α :=
  (xs.map fun x => (x - mean xs) * (x - mean xs)).sum / (xs.length : α)

/-- The lower bound of the divisor, `1/sqrt(n)` (`rsqrt(num_pixels)` in TensorFlow). -/
def stdFloor (sqrt : α → α) (n : Nat) : α := ((1 : Nat) : α) / sqrt (n : α)

/-- `(image - mean) / max(std, 1/sqrt(n))`. -/
def standardise (sqrt : α → α) (xs : List α) : List α :=
  let m := mean xs
  let adj := max (sqrt (variance xs)) (stdFloor sqrt xs.length)
  xs.map fun x => (x - m) / adj

end

end FedjaxVerif.Cifar
