/-
Model of `fedjax/core/tree_util.py` (`tree_weight`, `tree_inverse_weight`, `tree_add`, `tree_sum`,
`tree_mean`, `tree_l2_squared`, `tree_clip_by_global_norm`) and of
`fedjax/aggregators/aggregator.py::mean_aggregator`.

A pytree is flattened to the list of its scalar coordinates (`Tree = List Rat`); the leaf structure,
leaf shapes and dtypes are Python glue covered by the correspondence check, not by the model.
The loops are the source's loops: `tree_sum` / `tree_mean` are left folds whose accumulator starts as
`None` (`pytree_sum = None`, `sum_weighted_pytree = None`), the first tree is taken as it is (the
*copy* made by the code is a buffer-level effect that is monitored at run time, not modelled), every
later tree is added leaf-wise.  `tree_mean` finally multiplies by `1 / sum_weight` under the
`weight > 0` guard of `_tree_inverse_weight_eq`.  An empty iterable gives `None` in the code and `none`
here.

`tree_clip_by_global_norm` needs a square root; the norm enters as the argument `nrm` (the theorems
assume `0 ≤ nrm ∧ nrm * nrm = l2Squared xs`).  The clip model is polymorphic in the scalar type so
that the theorems can be stated over every linearly ordered field (in particular over `ℝ`, where the
norm always exists); the driver instantiates it with `Rat`.  `max_norm / 0` is `+∞` for a positive
bound (scale `min 1 ∞ = 1`) and NaN / `-∞` otherwise: the scale is `Option`-valued, `none` = "the float
computation is not finite".

Core Lean only (linked into the driver).
-/

namespace FedjaxVerif.TreeUtil

abbrev Tree := List Rat

/-- `tree_weight`: `jax.tree.map(lambda l: l * weight, pytree)` -/
def treeWeight (t : Tree) (w : Rat) : Tree := t.map (· * w)

/-- `tree_add`: `tree_map(jnp.add, left, right)` -/
def treeAdd (l r : Tree) : Tree := List.zipWith (· + ·) l r

/-- `tree_zeros_like` -/
def treeZerosLike (t : Tree) : Tree := t.map (fun _ => 0)

/-- `inverse_weight = (1. / weight) if weight > 0. else 0.` -/
def inverseWeight (w : Rat) : Rat := if 0 < w then 1 / w else 0

/-- `tree_inverse_weight` and `_tree_inverse_weight_eq` -/
def treeInverseWeight (t : Tree) (w : Rat) : Tree := treeWeight t (inverseWeight w)

/-- body of the `for pytree in pytrees` loop of `tree_sum` (accumulator `None` before the first tree) -/
def sumStep (acc : Option Tree) (t : Tree) : Option Tree :=
  match acc with
  | none => some t
  | some s => some (treeAdd s t)

/-- `tree_sum` -/
def treeSum (ts : List Tree) : Option Tree := ts.foldl sumStep none

/-- body of the loop of `tree_mean`: state = (`sum_weighted_pytree`, `sum_weight`) -/
def meanStep (st : Option Tree × Rat) (pw : Tree × Rat) : Option Tree × Rat :=
  (sumStep st.1 (treeWeight pw.1 pw.2), st.2 + pw.2)

/-- `tree_mean` -/
def treeMean (pws : List (Tree × Rat)) : Option Tree :=
  let st := pws.foldl meanStep (none, 0)
  st.1.map fun s => treeInverseWeight s st.2

/-- `mean_aggregator().apply`: drop the client id, `tree_mean` the rest (state is passed through). -/
def meanAggregator {ι : Type} (cpws : List (ι × Tree × Rat)) : Option Tree :=
  treeMean (cpws.map fun c => (c.2.1, c.2.2))

/-! ### clipping (polymorphic scalar) -/

section Clip
variable {α : Type} [Zero α] [One α] [Add α] [Mul α] [Div α] [Min α] [LT α]
  [DecidableEq α] [DecidableLT α]

/-- `tree_l2_squared`: `sum(vdot(x, x) for x in leaves)` on the flattened tree -/
def l2Squared (xs : List α) : α := (xs.map fun x => x * x).sum

/-- `scale = jnp.minimum(1, max_norm / global_norm)`; `none` when the float value is NaN or `-∞`
(`global_norm = 0` and `max_norm ≤ 0`); `max_norm / 0 = +∞` for `max_norm > 0`. -/
def clipScale (nrm M : α) : Option α :=
  if nrm = 0 then (if 0 < M then some 1 else none) else some (min 1 (M / nrm))

/-- `tree_clip_by_global_norm` with `global_norm = nrm` supplied -/
def clipByGlobalNorm (nrm M : α) (xs : List α) : Option (List α) :=
  (clipScale nrm M).map fun s => xs.map fun t => s * t

end Clip

end FedjaxVerif.TreeUtil
