/-
Line protocol values shared by every model handler of the driver.

A line is `op tok tok …` (single spaces).  A token is
  * an integer `-12`, a rational `3/4`,
  * a list `[tok,tok,…]` (nested, no spaces),
  * anything else: a symbol (`none`, `true`, hex strings prefixed by `x`, …).
Answers are printed with `Val.render`.  Nothing here is used by any theorem.
-/

namespace FedjaxVerif

inductive Val where
  | num (q : Rat)
  | list (l : List Val)
  | sym (s : String)
deriving Inhabited

namespace Val

def renderRat (q : Rat) : String :=
  if q.den = 1 then toString q.num else toString q.num ++ "/" ++ toString q.den

partial def render : Val → String
  | num q => renderRat q
  | sym s => s
  | list l => "[" ++ ",".intercalate (l.map render) ++ "]"

def ofNat (n : Nat) : Val := num (n : Rat)
def ofInt (n : Int) : Val := num (n : Rat)
def ofBool (b : Bool) : Val := sym (if b then "true" else "false")
def ofNats (l : List Nat) : Val := list (l.map ofNat)
def ofInts (l : List Int) : Val := list (l.map ofInt)
def ofRats (l : List Rat) : Val := list (l.map num)
def ofBools (l : List Bool) : Val := list (l.map ofBool)
def ofOptNat : Option Nat → Val
  | none => sym "none"
  | some n => ofNat n

def toRat? : Val → Option Rat
  | num q => some q
  | _ => none

def toInt? : Val → Option Int
  | num q => if q.den = 1 then some q.num else none
  | _ => none

def toNat? : Val → Option Nat
  | num q => if q.den = 1 ∧ 0 ≤ q.num then some q.num.toNat else none
  | _ => none

def toBool? : Val → Option Bool
  | sym "true" => some true
  | sym "false" => some false
  | num q => if q = 1 then some true else if q = 0 then some false else none
  | _ => none

def toList? : Val → Option (List Val)
  | list l => some l
  | _ => none

def toSym? : Val → Option String
  | sym s => some s
  | _ => none

/-- `none` symbol ↦ `none`, otherwise a natural number. -/
def toOptNat? : Val → Option (Option Nat)
  | sym "none" => some none
  | v => v.toNat?.map some

def mapM? {α} (f : Val → Option α) : Val → Option (List α)
  | list l => l.mapM f
  | _ => none

def toNats? : Val → Option (List Nat) := mapM? toNat?
def toInts? : Val → Option (List Int) := mapM? toInt?
def toRats? : Val → Option (List Rat) := mapM? toRat?
def toBools? : Val → Option (List Bool) := mapM? toBool?
def toNatss? : Val → Option (List (List Nat)) := mapM? toNats?
def toIntss? : Val → Option (List (List Int)) := mapM? toInts?
def toRatss? : Val → Option (List (List Rat)) := mapM? toRats?

end Val

/-! ### Parser -/

private def isNumChar (c : Char) : Bool := c.isDigit || c == '-' || c == '/'

private def parseNat? (cs : List Char) : Option Nat :=
  if cs.isEmpty then none
  else cs.foldlM (fun acc c => if c.isDigit then some (acc * 10 + (c.toNat - '0'.toNat)) else none) 0

private def parseInt? (cs : List Char) : Option Int :=
  match cs with
  | '-' :: rest => (parseNat? rest).map fun n => -(n : Int)
  | _ => (parseNat? cs).map fun n => (n : Int)

private def splitAt (c : Char) (cs : List Char) : List Char × Option (List Char) :=
  let pre := cs.takeWhile (· != c)
  let post := cs.dropWhile (· != c)
  match post with
  | [] => (pre, none)
  | _ :: r => (pre, some r)

private def parseAtom (cs : List Char) : Val :=
  let s := String.ofList cs
  if cs.all isNumChar then
    match splitAt '/' cs with
    | (n, none) => match parseInt? n with
      | some i => .num (i : Rat)
      | none => .sym s
    | (n, some d) => match parseInt? n, parseNat? d with
      | some i, some dd => if dd = 0 then .sym s else .num (mkRat i dd)
      | _, _ => .sym s
  else .sym s

/-- Parses one value from the front of `cs`; returns the value and the rest. -/
partial def parseVal (cs : List Char) : Option (Val × List Char) :=
  match cs with
  | '[' :: rest =>
    let rec items (cs : List Char) (acc : List Val) : Option (Val × List Char) :=
      match cs with
      | ']' :: r => some (.list acc.reverse, r)
      | _ =>
        match parseVal cs with
        | none => none
        | some (v, r) =>
          match r with
          | ',' :: r' => items r' (v :: acc)
          | ']' :: r' => some (.list (v :: acc).reverse, r')
          | _ => none
    items rest []
  | _ =>
    let atom := cs.takeWhile (fun c => c != ',' && c != ']' && c != '[')
    if atom.isEmpty then none else some (parseAtom atom, cs.drop atom.length)

def parseTok (s : String) : Option Val :=
  match parseVal s.toList with
  | some (v, []) => some v
  | _ => none

/-- Splits a protocol line into the op name and its parsed arguments. -/
def parseLine (line : String) : Option (String × List Val) :=
  let toks := (line.splitOn " ").filter (· ≠ "")
  match toks with
  | [] => none
  | op :: args => (args.mapM parseTok).map fun vs => (op, vs)

end FedjaxVerif
