/-
Model of `fedjax/core/serialization.py` (msgpack ext-type dispatch) and of the
SQLite builder/reader round trip of `fedjax/core/sqlite_federated_data.py` (C16).

What is modelled (following the source):
  * `msgpack_serialize`  = `msgpack.packb(tree, default=_msgpack_ext_pack, strict_types=True)`
        ↦ `encode`      (dispatch of `_msgpack_ext_pack`, `_ndarray_to_bytes`, `_bytes_ndarray_to_bytes`)
  * `msgpack_deserialize` = `msgpack.unpackb(b, ext_hook=_msgpack_ext_unpack, raw=False)`
        ↦ `decode`      (dispatch of `_msgpack_ext_unpack`, `_ndarray_from_bytes`, `_dtype_from_name`,
                          `_object_ndarray_from_bytes`, `strict_map_key`)
  * `SQLiteFederatedDataBuilder.add_many` / `SQLiteFederatedData` metadata + `get_client`.

Externals (trusted codecs, see DESIGN §3.2): the msgpack wire format itself
(`unpackb (packb v) = v` on msgpack values — an ext payload is therefore kept as the msgpack value
it was packed from), `ndarray.tobytes('C')` / `np.frombuffer` (an array *is* its C-order list of
item byte strings), zlib, SQLite.

The model takes a `Variant`: `Variant.repaired` is the behaviour the property demands
(native byte order is emitted; every element of an object array is type-checked) and is what the
driver answers with; `Variant.asIs` is the code of the unchanged tree, kept for the two
counterexample theorems of `Props/C16.lean`.

Core Lean only (no Mathlib): this file is linked into the driver executable.
-/

namespace FedjaxVerif.Serialize

/-- byte strings; every element is meant to be `< 256` (nothing depends on it). -/
abbrev Bytes := List Nat

/-! ## numpy dtypes -/

/-- The dtypes the generators produce. The first group is "numeric or boolean" (supported);
`strN/bytesN/voidN` are the fixed-width string / bytes / structured-or-void dtypes, whose
`dtype.name` is `str<bits>`, `bytes<bits>`, `void<bits>`. -/
inductive DType where
  | bool | int8 | int16 | int32 | int64 | uint8 | uint16 | uint32 | uint64
  | float16 | bfloat16 | float32 | float64 | float128
  | complex64 | complex128 | complex256
  | strN (bits : Nat) | bytesN (bits : Nat)
  | voidN (bits : Nat) (alignedStruct : Bool)
deriving DecidableEq, Repr, Inhabited

namespace DType

def numeric : DType → Bool
  | strN _ | bytesN _ | voidN _ _ => false
  | _ => true

def isComplex : DType → Bool
  | complex64 | complex128 | complex256 => true
  | _ => false

/-- `dtype.itemsize` -/
def itemsize : DType → Nat
  | bool | int8 | uint8 => 1
  | int16 | uint16 | float16 | bfloat16 => 2
  | int32 | uint32 | float32 => 4
  | int64 | uint64 | float64 | complex64 => 8
  | float128 | complex128 => 16
  | complex256 => 32
  | strN b | bytesN b | voidN b _ => b / 8

/-- `dtype.name` (byte order is *not* part of the name). -/
def name : DType → String
  | bool => "bool" | int8 => "int8" | int16 => "int16" | int32 => "int32" | int64 => "int64"
  | uint8 => "uint8" | uint16 => "uint16" | uint32 => "uint32" | uint64 => "uint64"
  | float16 => "float16" | bfloat16 => "bfloat16" | float32 => "float32" | float64 => "float64"
  | float128 => "float128"
  | complex64 => "complex64" | complex128 => "complex128" | complex256 => "complex256"
  | strN b => "str" ++ toString b
  | bytesN b => "bytes" ++ toString b
  | voidN b _ => "void" ++ toString b

/-- `_dtype_from_name`: `jnp.bfloat16` for `b'bfloat16'`, else `np.dtype(name)`, which raises
`TypeError: data type … not understood` for `str32`, `bytes8`, `void64`, …  (`none`). -/
def ofName (s : String) : Option DType :=
  if s = "bfloat16" then some bfloat16
  else if s = "bool" then some bool
  else if s = "int8" then some int8 else if s = "int16" then some int16
  else if s = "int32" then some int32 else if s = "int64" then some int64
  else if s = "uint8" then some uint8 else if s = "uint16" then some uint16
  else if s = "uint32" then some uint32 else if s = "uint64" then some uint64
  else if s = "float16" then some float16 else if s = "float32" then some float32
  else if s = "float64" then some float64 else if s = "float128" then some float128
  else if s = "complex64" then some complex64 else if s = "complex128" then some complex128
  else if s = "complex256" then some complex256
  else none

end DType

/-! ## msgpack values -/

/-- What `msgpack.packb` produces / `unpackb` consumes. The payload of an ext value is kept as the
msgpack value it was packed from (the inner `packb`/`unpackb` pair is the trusted codec). -/
inductive MVal where
  | nil
  | bool (b : Bool)
  | int (i : Int)
  | float (bits : Bytes)
  | str (s : String)
  | bin (b : Bytes)
  | arr (l : List MVal)
  | map (kvs : List (MVal × MVal))
  | ext (code : Nat) (payload : MVal)
deriving Inhabited

/-! ## Python values -/

/-- A numpy array of a fixed-size dtype: shape, dtype, whether its byte order is the non-native one,
and its items in logical C order, each as the byte string it has *in memory*. -/
structure Nd where
  shape : List Nat
  dtype : DType
  swapped : Bool
  elems : List Bytes
deriving DecidableEq, Repr, Inhabited

inductive PyVal where
  | none
  | bool (b : Bool)
  | int (i : Int)
  | float (bits : Bytes)
  | str (s : String)
  | bytes (b : Bytes)
  | complex (re im : Bytes)
  | ndarray (a : Nd)
  | npscalar (dt : DType) (item : Bytes)            -- `np.generic` (always native byte order)
  | objarr (shape : List Nat) (elems : List PyVal)   -- `dtype=object` array, flat C-order elements
  | tuple (l : List PyVal)
  | list (l : List PyVal)
  | dict (kvs : List (PyVal × PyVal))
  | extType (code : Nat) (payload : MVal)            -- a `msgpack.ExtType` object
  | other                                            -- any other Python object (set, custom class, …)
deriving Inhabited

/-- exception classes, as the small enum the harness compares -/
inductive Err where
  | typeError | valueError | overflowError | indexError | integrityError | keyError
deriving DecidableEq, Repr, Inhabited

structure Variant where
  /-- convert to native byte order before `tobytes` -/
  nativeBytes : Bool
  /-- type-check every element of an object array (not only the first) -/
  checkAll : Bool
deriving DecidableEq, Repr

def Variant.repaired : Variant := ⟨true, true⟩
def Variant.asIs : Variant := ⟨false, false⟩

/-- `mapM` in `Except Err`, written out (first error wins, left to right) -/
def mapE {α β} (f : α → Except Err β) : List α → Except Err (List β)
  | [] => .ok []
  | x :: xs =>
    match f x with
    | .error e => .error e
    | .ok y =>
      match mapE f xs with
      | .error e => .error e
      | .ok ys => .ok (y :: ys)

def mapO {α β} (f : α → Option β) : List α → Option (List β)
  | [] => some []
  | x :: xs =>
    match f x with
    | none => none
    | some y =>
      match mapO f xs with
      | none => none
      | some ys => some (y :: ys)

/-! ## arrays ↔ bytes -/

def prod : List Nat → Nat
  | [] => 1
  | n :: ns => n * prod ns

/-- byte-swap of one item: the whole item is reversed; for complex dtypes each half is. -/
def swapItem (dt : DType) (b : Bytes) : Bytes :=
  if dt.isComplex then
    (b.take (dt.itemsize / 2)).reverse ++ (b.drop (dt.itemsize / 2)).reverse
  else b.reverse

/-- the items in native byte order -/
def Nd.nativeElems (a : Nd) : List Bytes :=
  if a.swapped then a.elems.map (swapItem a.dtype) else a.elems

/-- the same array (dtype kind, shape, values) in native byte order -/
def Nd.toNative (a : Nd) : Nd := { a with swapped := false, elems := a.nativeElems }

/-- `arr.tobytes('C')` (memory byte order), after the native-order conversion when the variant has it. -/
def tobytes (v : Variant) (a : Nd) : Bytes :=
  (if v.nativeBytes then a.nativeElems else a.elems).flatten

/-- `_ndarray_to_bytes`: the msgpack value of `(arr.shape, arr.dtype.name, arr.tobytes('C'))`. -/
def ndarrayToBytes (v : Variant) (a : Nd) : Except Err MVal :=
  match a.dtype with
  | .voidN _ true => .error .valueError          -- `arr.dtype.isalignedstruct`
  | _ => .ok (.arr [.arr (a.shape.map fun (n : Nat) => .int (n : Int)), .str a.dtype.name, .bin (tobytes v a)])

def chunkGo (k : Nat) : Nat → Bytes → List Bytes
  | 0, _ => []
  | n + 1, b => b.take k :: chunkGo k n (b.drop k)

/-- `np.frombuffer(buffer, dtype)`: the buffer cut into items; `none` = "buffer size must be a
multiple of element size". -/
def chunks (k : Nat) (b : Bytes) : Option (List Bytes) :=
  if k = 0 ∨ b.length % k ≠ 0 then none else some (chunkGo k (b.length / k) b)

def toNat? : MVal → Option Nat
  | .int i => if 0 ≤ i then some i.toNat else none
  | _ => none

/-- `_ndarray_from_bytes` on the inner value (unpacked with `raw=True`, so the name arrives as
bytes whether it was packed as str or bin; names are ASCII). -/
def ndarrayFromBytes : MVal → Except Err Nd
  | .arr [.arr shape, .str nm, .bin buf] =>
    match mapO toNat? shape with
    | none => .error .valueError
    | some sh =>
      match DType.ofName nm with
      | none => .error .typeError                 -- data type not understood
      | some dt =>
        match chunks dt.itemsize buf with
        | none => .error .valueError              -- buffer size not a multiple of the element size
        | some items =>
          if items.length = prod sh then .ok ⟨sh, dt, false, items⟩
          else .error .valueError                 -- cannot reshape
  | _ => .error .valueError

/-! ## object arrays -/

def PyVal.isBytes : PyVal → Bool
  | .bytes _ => true
  | _ => false

def utf8 (s : String) : Bytes := s.toUTF8.toList.map (·.toNat)

/-- plain `msgpack.packb` of one element of an object array (scalars only; nothing else is
reachable in the repaired variant, and the `asIs` variant is only used on scalars). -/
def packPlain : PyVal → Except Err MVal
  | .none => .ok .nil
  | .bool b => .ok (.bool b)
  | .int i => if -(2 : Int) ^ 63 ≤ i ∧ i < (2 : Int) ^ 64 then .ok (.int i) else .error .overflowError
  | .float b => .ok (.float b)
  | .str s => .ok (.str s)
  | .bytes b => .ok (.bin b)
  | _ => .error .typeError

/-- `_bytes_ndarray_to_bytes`: `(shape, list(x.flatten()))`, after the element type check. -/
def bytesNdarrayToBytes (v : Variant) (shape : List Nat) (flat : List PyVal) : Except Err MVal :=
  let okTypes :=
    if v.checkAll then flat.all PyVal.isBytes
    else match flat with
      | [] => true
      | x :: _ => x.isBytes                       -- `if flat and not isinstance(flat[0], bytes)`
  if okTypes then
    match mapE packPlain flat with
    | .ok ms => .ok (.arr [.arr (shape.map fun (n : Nat) => .int (n : Int)), .arr ms])
    | .error e => .error e
  else .error .valueError

/-- one element of the flat list as `unpackb(…, raw=True)` returns it: str comes back as bytes. -/
def rawElem : MVal → Except Err PyVal
  | .nil => .ok .none
  | .bool b => .ok (.bool b)
  | .int i => .ok (.int i)
  | .float b => .ok (.float b)
  | .str s => .ok (.bytes (utf8 s))
  | .bin b => .ok (.bytes b)
  | _ => .error .typeError                        -- nested containers: not modelled

/-- `_object_ndarray_from_bytes`: `np.array(flat, dtype=object).reshape(shape)`. -/
def objectNdarrayFromBytes : MVal → Except Err PyVal
  | .arr [.arr shape, .arr flat] =>
    match mapO toNat? shape with
    | none => .error .valueError
    | some sh =>
      match mapE rawElem flat with
      | .error e => .error e
      | .ok es => if es.length = prod sh then .ok (.objarr sh es) else .error .valueError
  | _ => .error .valueError

/-! ## `msgpack_serialize` -/

def intInRange (i : Int) : Bool := decide (-(2 : Int) ^ 63 ≤ i) && decide (i < (2 : Int) ^ 64)

mutual
/-- `msgpack.packb(x, default=_msgpack_ext_pack, strict_types=True)` -/
def encode (v : Variant) : PyVal → Except Err MVal
  | .none => .ok .nil
  | .bool b => .ok (.bool b)
  | .int i => if intInRange i then .ok (.int i) else .error .overflowError
  | .float b => .ok (.float b)
  | .str s => .ok (.str s)
  | .bytes b => .ok (.bin b)
  | .complex re im => .ok (.ext 2 (.arr [.float re, .float im]))
  | .ndarray a =>
    match ndarrayToBytes v a with
    | .ok m => .ok (.ext 1 m)
    | .error e => .error e
  | .npscalar dt item =>                            -- `np.asarray(x)`: 0-d, native
    match ndarrayToBytes v ⟨[], dt, false, [item]⟩ with
    | .ok m => .ok (.ext 3 m)
    | .error e => .error e
  | .objarr shape elems =>
    match bytesNdarrayToBytes v shape elems with
    | .ok m => .ok (.ext 4 m)
    | .error e => .error e
  | .tuple _ => .error .typeError                   -- strict_types: falls through `default`
  | .list l =>
    match encodeList v l with
    | .ok ms => .ok (.arr ms)
    | .error e => .error e
  | .dict kvs =>
    match encodeKVs v kvs with
    | .ok ms => .ok (.map ms)
    | .error e => .error e
  | .extType code payload => .ok (.ext code payload)
  | .other => .error .typeError

def encodeList (v : Variant) : List PyVal → Except Err (List MVal)
  | [] => .ok []
  | x :: xs =>
    match encode v x with
    | .error e => .error e
    | .ok m =>
      match encodeList v xs with
      | .error e => .error e
      | .ok ms => .ok (m :: ms)

def encodeKVs (v : Variant) : List (PyVal × PyVal) → Except Err (List (MVal × MVal))
  | [] => .ok []
  | (k, x) :: rest =>
    match encode v k with
    | .error e => .error e
    | .ok mk =>
      match encode v x with
      | .error e => .error e
      | .ok mx =>
        match encodeKVs v rest with
        | .error e => .error e
        | .ok ms => .ok ((mk, mx) :: ms)
end

/-! ## `msgpack_deserialize` -/

/-- `_msgpack_ext_unpack(code, data)` -/
def extUnpack (code : Nat) (payload : MVal) : Except Err PyVal :=
  if code = 1 then
    match ndarrayFromBytes payload with
    | .ok a => .ok (.ndarray a)
    | .error e => .error e
  else if code = 2 then
    match payload with
    | .arr [.float re, .float im] => .ok (.complex re im)
    | _ => .error .typeError
  else if code = 3 then
    match ndarrayFromBytes payload with
    | .ok a =>
      match a.shape, a.elems with
      | [], [item] => .ok (.npscalar a.dtype item)   -- `ar[()]`
      | _, _ => .ok (.ndarray a)
    | .error e => .error e
  else if code = 4 then objectNdarrayFromBytes payload
  else .ok (.extType code payload)

def PyVal.isKey : PyVal → Bool
  | .str _ => true
  | .bytes _ => true
  | _ => false

mutual
/-- `msgpack.unpackb(b, ext_hook=_msgpack_ext_unpack, raw=False)` (default `strict_map_key=True`) -/
def decode : MVal → Except Err PyVal
  | .nil => .ok .none
  | .bool b => .ok (.bool b)
  | .int i => .ok (.int i)
  | .float b => .ok (.float b)
  | .str s => .ok (.str s)
  | .bin b => .ok (.bytes b)
  | .arr l =>
    match decodeList l with
    | .ok vs => .ok (.list vs)
    | .error e => .error e
  | .map kvs =>
    match decodeKVs kvs with
    | .ok vs => .ok (.dict vs)
    | .error e => .error e
  | .ext code payload => extUnpack code payload

def decodeList : List MVal → Except Err (List PyVal)
  | [] => .ok []
  | m :: ms =>
    match decode m with
    | .error e => .error e
    | .ok x =>
      match decodeList ms with
      | .error e => .error e
      | .ok xs => .ok (x :: xs)

def decodeKVs : List (MVal × MVal) → Except Err (List (PyVal × PyVal))
  | [] => .ok []
  | (mk, mx) :: rest =>
    match decode mk with
    | .error e => .error e
    | .ok k =>
      match decode mx with
      | .error e => .error e
      | .ok x =>
        if k.isKey then
          match decodeKVs rest with
          | .error e => .error e
          | .ok vs => .ok ((k, x) :: vs)
        else .error .valueError                     -- strict_map_key
end

/-- `msgpack_deserialize(msgpack_serialize(x))`; the stage that failed is kept. -/
def roundtrip (v : Variant) (x : PyVal) : Except Err PyVal :=
  match encode v x with
  | .error e => .error e
  | .ok m => decode m

/-! ## what a round trip must return -/

mutual
/-- the value itself, with every array in native byte order (dtype kind, shape, values unchanged) -/
def native : PyVal → PyVal
  | .ndarray a => .ndarray a.toNative
  | .list l => .list (nativeList l)
  | .dict kvs => .dict (nativeKVs kvs)
  | x => x

def nativeList : List PyVal → List PyVal
  | [] => []
  | x :: xs => native x :: nativeList xs

def nativeKVs : List (PyVal × PyVal) → List (PyVal × PyVal)
  | [] => []
  | (k, x) :: rest => (k, native x) :: nativeKVs rest
end

/-- structural invariant of a numpy array: as many items as the shape says, each of `itemsize` bytes -/
def Nd.wf (a : Nd) : Bool :=
  decide (a.elems.length = prod a.shape) && a.elems.all (fun it => decide (it.length = a.dtype.itemsize))

mutual
/-- The leaves the property calls supported: numeric/bool arrays (any shape, either byte order),
bytes-object arrays, numpy scalars, Python scalars (ints within msgpack's 64-bit range), in nested
lists and dicts keyed by str/bytes. -/
def supported : PyVal → Bool
  | .none | .bool _ | .float _ | .str _ | .bytes _ | .complex _ _ => true
  | .int i => intInRange i
  | .ndarray a => a.dtype.numeric
  | .npscalar dt _ => dt.numeric
  | .objarr _ elems => elems.all PyVal.isBytes
  | .list l => supportedList l
  | .dict kvs => supportedKVs kvs
  | .tuple _ | .extType _ _ | .other => false

def supportedList : List PyVal → Bool
  | [] => true
  | x :: xs => supported x && supportedList xs

def supportedKVs : List (PyVal × PyVal) → Bool
  | [] => true
  | (k, x) :: rest => k.isKey && supported x && supportedKVs rest
end

mutual
/-- structural well-formedness of the *input* (numpy's own invariants; no `ExtType` objects) -/
def wf : PyVal → Bool
  | .ndarray a => a.wf
  | .npscalar dt item => decide (item.length = dt.itemsize)
  | .objarr shape elems => decide (elems.length = prod shape)
  | .list l => wfList l
  | .dict kvs => wfKVs kvs
  | .tuple l => wfList l
  | .extType _ _ => false
  | _ => true

def wfList : List PyVal → Bool
  | [] => true
  | x :: xs => wf x && wfList xs

def wfKVs : List (PyVal × PyVal) → Bool
  | [] => true
  | (k, x) :: rest => wf k && wf x && wfKVs rest
end

/-! ## values (for the byte-order clause) -/

/-- little-endian reading of a byte string -/
def leNat : Bytes → Nat
  | [] => 0
  | b :: bs => b + 256 * leNat bs

/-- the number an item denotes on a little-endian host: memory bytes are read little-endian for a
native dtype and big-endian for a swapped one (complex: real and imaginary halves separately). -/
def itemValue (dt : DType) (swapped : Bool) (item : Bytes) : List Nat :=
  let rd := fun (b : Bytes) => if swapped then leNat b.reverse else leNat b
  if dt.isComplex then [rd (item.take (dt.itemsize / 2)), rd (item.drop (dt.itemsize / 2))]
  else [rd item]

def Nd.values (a : Nd) : List (List Nat) := a.elems.map (itemValue a.dtype a.swapped)

/-! ## SQLite builder / reader -/

/-- the zlib ∘ msgpack-bytes codec of the `data` column (trusted: `dec (enc m) = some m`) -/
structure Codec (β : Type) where
  enc : MVal → β
  dec : β → Option MVal

structure Row (β : Type) where
  id : Bytes
  data : β
  num : Nat

abbrev Table (β : Type) := List (Row β)      -- in rowid (= insertion) order

/-- leading dimension of a feature (`v.shape[0]`) -/
def leadDim : PyVal → Except Err Nat
  | .ndarray a => match a.shape with
    | n :: _ => .ok n
    | [] => .error .indexError
  | .objarr shape _ => match shape with
    | n :: _ => .ok n
    | [] => .error .indexError
  | _ => .error .typeError

/-- `for k, v in it: if v != size: raise ValueError` -/
def checkRows (size : Nat) : List (PyVal × PyVal) → Except Err Unit
  | [] => .ok ()
  | (_, x) :: rest =>
    match leadDim x with
    | .error e => .error e
    | .ok n => if n = size then checkRows size rest else .error .valueError

/-- all sizes are computed first (`sizes = {k: v.shape[0] …}`), then compared -/
def allDims : List (PyVal × PyVal) → Except Err (List Nat)
  | [] => .ok []
  | (_, x) :: rest =>
    match leadDim x with
    | .error e => .error e
    | .ok n => match allDims rest with
      | .error e => .error e
      | .ok ns => .ok (n :: ns)

/-- `client_datasets.num_examples(examples, validate=True)` -/
def numExamples : PyVal → Except Err Nat
  | .dict kvs =>
    match allDims kvs with
    | .error e => .error e
    | .ok [] => .error .valueError                  -- 'No features in examples'
    | .ok (n :: ns) => if ns.all (· == n) then .ok n else .error .valueError
  | _ => .error .typeError

/-- one row of `add_many` (`prepare_parameters` + `INSERT`; `client_id` is the primary key) -/
def addOne {β} (c : Codec β) (v : Variant) (t : Table β) (ce : Bytes × PyVal) : Except Err (Table β) :=
  match numExamples ce.2 with
  | .error e => .error e
  | .ok n =>
    match encode v ce.2 with
    | .error e => .error e
    | .ok m =>
      if t.any (fun r => r.id == ce.1) then .error .integrityError
      else .ok (t ++ [⟨ce.1, c.enc m, n⟩])

/-- `add_many` (all or nothing: the transaction is committed only at the end) -/
def addMany {β} (c : Codec β) (v : Variant) : Table β → List (Bytes × PyVal) → Except Err (Table β)
  | t, [] => .ok t
  | t, ce :: rest =>
    match addOne c v t ce with
    | .error e => .error e
    | .ok t' => addMany c v t' rest

/-- `client_ids()` : `SELECT client_id … ORDER BY rowid` -/
def clientIds {β} (t : Table β) : List Bytes := t.map (·.id)

/-- `client_sizes()` -/
def clientSizes {β} (t : Table β) : List (Bytes × Nat) := t.map fun r => (r.id, r.num)

/-- `client_size(id)` -/
def clientSize {β} (t : Table β) (id : Bytes) : Except Err Nat :=
  match t.find? (fun r => r.id == id) with
  | some r => .ok r.num
  | none => .error .keyError

/-- `get_client(id)` examples: `msgpack_deserialize(zlib.decompress(data))` -/
def getClient {β} (c : Codec β) (t : Table β) (id : Bytes) : Except Err PyVal :=
  match t.find? (fun r => r.id == id) with
  | none => .error .keyError
  | some r =>
    match c.dec r.data with
    | none => .error .valueError
    | some m => decode m

def idCodec : Codec MVal := ⟨id, some⟩

/-! ## checkpoint directory (`fedjax/training/checkpoint.py`)

The directory is the finite map round ↦ state of the files `checkpoint_<round:08d>`, kept as the
listing `_get_checkpoint_paths` returns: ascending by round number. `save_state`/`load_state`
(pickle through a staging file + rename) are the trusted codec: a file holds the state last written
to it. Rounds are below `10^8` (the 8-digit file-name pattern); the handler rejects others. -/

abbrev Dir (σ : Type) := List (Nat × σ)

/-- `save_state(state, checkpoint_<r>)`: create or overwrite the file of round `r` -/
def dirInsert {σ} (r : Nat) (s : σ) : Dir σ → Dir σ
  | [] => [(r, s)]
  | (r', s') :: rest =>
    if r < r' then (r, s) :: (r', s') :: rest
    else if r = r' then (r, s) :: rest
    else (r', s') :: dirInsert r s rest

/-- `save_checkpoint(root, s, r, keep)`: write, then remove `_get_checkpoint_paths(...)[:-keep]`
(Python: `[:-0]` is empty, so `keep = 0` removes nothing). -/
def saveCkpt {σ} (keep : Nat) (d : Dir σ) (r : Nat) (s : σ) : Dir σ :=
  let d' := dirInsert r s d
  if keep = 0 then d' else d'.drop (d'.length - keep)

/-- `load_latest_checkpoint(root)`: last path of the sorted listing -/
def loadLatest {σ} (d : Dir σ) : Option (σ × Nat) :=
  match d.getLast? with
  | some (r, s) => some (s, r)
  | none => none

/-- `load_state(checkpoint_<r>)` -/
def loadRound {σ} (d : Dir σ) (r : Nat) : Option σ := (d.find? (fun p => p.1 == r)).map (·.2)

/-- a history of `save_checkpoint` calls into an empty directory -/
def runHist {σ} (keep : Nat) (h : List (Nat × σ)) : Dir σ :=
  h.foldl (fun d p => saveCkpt keep d p.1 p.2) []

/-- the state most recently saved under round `r` in the history -/
def lastSaved {σ} (h : List (Nat × σ)) (r : Nat) : Option σ :=
  (h.reverse.find? (fun p => p.1 == r)).map (·.2)

end FedjaxVerif.Serialize
