/-
Model of `fedjax/algorithms/fed_avg.py` (C01): one round of federated averaging and multi-round runs.

Parameters are flat vectors `List Rat` (pytree structure is glue, covered by the correspondence).
Externals are parameters:
  * `grad : P → β → Key → P`        — `grad_fn(params, batch, rng)` (autodiff, trusted)
  * `Optimizer σ` (`init`, `apply`) — optax optimizers
  * keys are paths in the splitting tree: `split k = (k ++ [false], k ++ [true])`
The model follows the source: `client_init` (server params, fresh optimizer state, client key),
`client_step` (`rng, use_rng = split(rng)`; grads; optimizer apply), `client_final`
(`server - client`), the size dictionary `{cid: len(cds)}` (last binding wins), the running sums
in yield order, `tree_inverse_weight` (`1/w if w > 0 else 0`) and the server optimizer step.
Core Lean only.
-/

namespace FedjaxVerif.FedAvg

abbrev P := List Rat
abbrev Key := List Bool

def split (k : Key) : Key × Key := (k ++ [false], k ++ [true])

def vadd (a b : P) : P := List.zipWith (· + ·) a b
def vsub (a b : P) : P := List.zipWith (· - ·) a b
def vscale (c : Rat) (a : P) : P := a.map (c * ·)
def vzero (a : P) : P := a.map (fun _ => 0)

structure Optimizer (σ : Type) where
  init : P → σ
  /-- `apply(grads, opt_state, params) = (opt_state', params')` -/
  apply : P → σ → P → σ × P

structure ClientState (σ : Type) where
  params : P
  opt : σ
  rng : Key

section
variable {β σc σs ι : Type}

def clientInit (copt : Optimizer σc) (serverParams : P) (key : Key) : ClientState σc :=
  { params := serverParams, opt := copt.init serverParams, rng := key }

def clientStep (grad : P → β → Key → P) (copt : Optimizer σc) (st : ClientState σc) (batch : β) :
    ClientState σc :=
  let (rng, useRng) := split st.rng
  let g := grad st.params batch useRng
  let (opt, params) := copt.apply g st.opt st.params
  { params := params, opt := opt, rng := rng }

/-- the client's delta: `server_params - locally trained params` -/
def clientDelta (grad : P → β → Key → P) (copt : Optimizer σc) (serverParams : P)
    (batches : List β) (key : Key) : P :=
  vsub serverParams (batches.foldl (clientStep grad copt) (clientInit copt serverParams key)).params

/-- a sampled client: id, number of examples `len(cds)`, its batch stream, its key -/
structure Client (ι β : Type) where
  id : ι
  size : Nat
  batches : List β
  key : Key

structure ServerState (σs : Type) where
  params : P
  opt : σs

/-- `{cid: len(cds) for cid, cds, _ in clients}[cid]` — a later binding overwrites an earlier one -/
def sizeOf [DecidableEq ι] (clients : List (Client ι β)) (cid : ι) : Nat :=
  match clients.reverse.find? (fun c => c.id = cid) with
  | some c => c.size
  | none => 0

/-- running sums over the per-client results in yield order -/
def accumulate (size : ι → Nat) (zero : P) (results : List (ι × P)) : P × Rat :=
  results.foldl (fun acc r => (vadd acc.1 (vscale (size r.1 : Rat) r.2), acc.2 + (size r.1 : Rat)))
    (zero, 0)

/-- `tree_inverse_weight` -/
def inverseWeight (v : P) (w : Rat) : P := vscale (if w > 0 then 1 / w else 0) v

def serverUpdate (sopt : Optimizer σs) (s : ServerState σs) (meanDelta : P) : ServerState σs :=
  let (opt, params) := sopt.apply meanDelta s.opt s.params
  { params := params, opt := opt }

/-- the server half of `apply`, given the per-client results in the order the backend yields them -/
def aggregate [DecidableEq ι] (sopt : Optimizer σs) (s : ServerState σs) (clients : List (Client ι β))
    (results : List (ι × P)) : ServerState σs :=
  let acc := accumulate (sizeOf clients) (vzero s.params) results
  serverUpdate sopt s (inverseWeight acc.1 acc.2)

def clientResults (grad : P → β → Key → P) (copt : Optimizer σc) (serverParams : P)
    (clients : List (Client ι β)) : List (ι × P) :=
  clients.map fun c => (c.id, clientDelta grad copt serverParams c.batches c.key)

/-- one round with the sequential (jit/debug) backend -/
def round [DecidableEq ι] (grad : P → β → Key → P) (copt : Optimizer σc) (sopt : Optimizer σs)
    (s : ServerState σs) (clients : List (Client ι β)) : ServerState σs :=
  aggregate sopt s clients (clientResults grad copt s.params clients)

/-- diagnostics: a dict keyed by client id (insertion order of first occurrence) -/
def diagnosticsKeys [DecidableEq ι] (results : List (ι × P)) : List ι :=
  (results.map (·.1)).eraseDups

/-- multi-round run: round `t+1` starts from round `t`'s params and server optimizer state -/
def rounds [DecidableEq ι] (grad : P → β → Key → P) (copt : Optimizer σc) (sopt : Optimizer σs)
    (s : ServerState σs) (cohorts : List (List (Client ι β))) : ServerState σs :=
  cohorts.foldl (round grad copt sopt) s

end

/-! ### concrete optimizers used by the driver (exact over `Rat`) -/

/-- optax `sgd(lr)`: stateless -/
def sgd (lr : Rat) : Optimizer Unit :=
  { init := fun _ => (), apply := fun g _ p => ((), vadd p (vscale (-lr) g)) }

/-- optax `sgd(lr, momentum=m, nesterov)`: `trace = g + m·trace`;
update `-lr·trace` (or `-lr·(g + m·trace)` with Nesterov) -/
def momentum (lr m : Rat) (nesterov : Bool) : Optimizer P :=
  { init := fun p => vzero p,
    apply := fun g t p =>
      let t' := vadd g (vscale m t)
      let u := if nesterov then vadd g (vscale m t') else t'
      (t', vadd p (vscale (-lr) u)) }

end FedjaxVerif.FedAvg
