/-
Model of `fedjax/core/client_datasets.py`: `ShuffleRepeatBatchView` (C04).

  * `__init__`  ↦ `numSteps`   (`none` = `_num_steps is None`, the unbounded stream)
  * `__iter__`  ↦ `stream` (outer `while num_steps < desired_num_steps`) over
                  `fill`   (inner `while filled < desired_size`, fuel = `batch_size`).

State of the iteration (`St`): `rest` = the unused portion `buf[i:]` of the index buffer,
`epoch` = how many times the buffer has been (re)shuffled so far.  numpy's `rng.shuffle(buf)` is an
external: it enters as the oracle `perms : Nat → List Nat`, `perms j` = content of `buf` after the
`j`-th shuffle (`j = 0` is the first one; with `skip_shuffle` the buffer stays `arange(N)`, i.e.
`perms j = range N`).  The real code starts with `i = buf_size` (nothing unused), hence
`St.init = ⟨[], 0⟩`, and reshuffles only when `available == 0`.
Core Lean only (no Mathlib): this file is linked into the driver executable.
-/

namespace FedjaxVerif.Shuffle

/-- `ShuffleRepeatBatchView.__init__`: the number of batches; `none` = iterate forever. -/
def numSteps (N bs : Nat) (epochs steps : Option Nat) (drop : Bool) : Option Nat :=
  match epochs with
  | some E =>
    let k := if drop then N * E / bs else (N * E + bs - 1) / bs
    match steps with
    | some S => some (min S k)
    | none => some k
  | none =>
    match steps with
    | some S => some S
    | none => none

structure St where
  rest  : List Nat
  epoch : Nat

/-- state at the start of `__iter__`: `i = buf_size`, no shuffle done yet. -/
def St.init : St := { rest := [], epoch := 0 }

/-- inner loop `while filled < desired_size` (`need = desired_size - filled`); one unit of fuel
per iteration.  Returns the drawn indices and the state afterwards. -/
def fill (perms : Nat → List Nat) : Nat → Nat → St → List Nat × St
  | 0, _, st => ([], st)
  | _, 0, st => ([], st)
  | fuel+1, need+1, st =>
    let st' : St := if st.rest.isEmpty then { rest := perms st.epoch, epoch := st.epoch + 1 } else st
    let used := min st'.rest.length (need+1)
    let r := fill perms fuel (need + 1 - used) { st' with rest := st'.rest.drop used }
    (st'.rest.take used ++ r.1, r.2)

/-- outer loop: `k` batches of `bs` indices each (fuel `bs` for the inner loop: every iteration
draws at least one index when the dataset is non-empty). -/
def stream (perms : Nat → List Nat) (bs : Nat) : Nat → St → List (List Nat)
  | 0, _ => []
  | k+1, st =>
    let r := fill perms bs bs st
    r.1 :: stream perms bs k r.2

/-- `perms j ++ perms (j+1) ++ …` (`e` epochs). -/
def epochs (perms : Nat → List Nat) : Nat → Nat → List Nat
  | 0, _ => []
  | e+1, j => perms j ++ epochs perms e (j+1)

/-- the whole iteration: `none` = unbounded (the caller decides how many batches to look at). -/
def run (perms : Nat → List Nat) (N bs : Nat) (epochs steps : Option Nat) (drop : Bool) :
    Option (List (List Nat)) :=
  (numSteps N bs epochs steps drop).map fun k => stream perms bs k St.init

end FedjaxVerif.Shuffle
