/-
Round models of the algorithms built on the FedAvg skeleton (C12, C17):
`fed_prox.py`, `mime_lite.py`, `mime.py`, `hyp_cluster.py`, `apfl.py`.

Same vocabulary as `Model/FedAvg.lean`: params are flat vectors `P = List Rat`, `grad` and the
optimizers are parameters, keys are paths in the splitting tree.  Each model follows its source
file: which sub-key trains, what is weighted by what, what the server update is.

Externals (parameters of the models):
  * `grad : P → β → Key → P`                — `grad_fn` / `models.grad(per_example_loss)` (autodiff)
  * `Optimizer σ`                            — optax
  * `avgLoss : P → γ → Key → Rat`            — `models.AverageLossEvaluator` on the client's padded batches
  * `splitN : Key → Nat → List Key`          — `jax.random.split(rng, n)`
  * `split3 : Key → Key × Key × Key`         — `jax.random.split(rng, 3)`
  * `nrm : P → Rat`                          — `tree_l2_norm` (a square root)
Core Lean only.
-/
import FedjaxVerif.Model.FedAvg

namespace FedjaxVerif.Algorithms
open FedjaxVerif.FedAvg

/-- a Python dict built from the client list (`{cid: f(c) for c in clients}[cid]`): a later binding
overwrites an earlier one -/
def dictGet {ι α κ : Type} [DecidableEq ι] (idOf : κ → ι) (val : κ → α) (dflt : α) (clients : List κ)
    (cid : ι) : α :=
  match clients.reverse.find? (fun c => idOf c = cid) with
  | some c => val c
  | none => dflt

/-! ## FedProx (`fed_prox.py`) -/

/-- autodiff of `mean(example_loss + ½·μ·‖server − p‖²)` given the gradient `g` of the mean example
loss: `g + μ·(p − server)`, coordinate-wise on the coordinates of `g` (JAX rejects unequal shapes;
on equal shapes this is `vadd g (vscale μ (vsub p server))`, lemma `proxGrad_eq_vadd`). -/
def proxGrad (mu : Rat) (g p server : P) : P :=
  g.zipIdx.map fun gi => gi.1 + mu * (p.getD gi.2 0 - server.getD gi.2 0)

structure ProxClientState (σ : Type) where
  params : P
  opt : σ
  rng : Key
  serverParams : P

section
variable {β σc σs ι : Type}

def proxClientInit (copt : Optimizer σc) (serverParams : P) (key : Key) : ProxClientState σc :=
  { params := serverParams, opt := copt.init serverParams, rng := key, serverParams := serverParams }

def proxClientStep (mu : Rat) (grad : P → β → Key → P) (copt : Optimizer σc)
    (st : ProxClientState σc) (batch : β) : ProxClientState σc :=
  let (rng, useRng) := split st.rng
  let g := proxGrad mu (grad st.params batch useRng) st.params st.serverParams
  let (opt, params) := copt.apply g st.opt st.params
  { params := params, opt := opt, rng := rng, serverParams := st.serverParams }

def proxClientDelta (mu : Rat) (grad : P → β → Key → P) (copt : Optimizer σc) (serverParams : P)
    (batches : List β) (key : Key) : P :=
  vsub serverParams
    (batches.foldl (proxClientStep mu grad copt) (proxClientInit copt serverParams key)).params

/-- `fed_prox(...).apply`: the FedAvg server half on the proximal client deltas -/
def fedProxRound [DecidableEq ι] (mu : Rat) (grad : P → β → Key → P) (copt : Optimizer σc)
    (sopt : Optimizer σs) (s : ServerState σs) (clients : List (Client ι β)) : ServerState σs :=
  aggregate sopt s clients
    (clients.map fun c => (c.id, proxClientDelta mu grad copt s.params c.batches c.key))

def fedProxRounds [DecidableEq ι] (mu : Rat) (grad : P → β → Key → P) (copt : Optimizer σc)
    (sopt : Optimizer σs) (s : ServerState σs) (cohorts : List (List (Client ι β))) : ServerState σs :=
  cohorts.foldl (fedProxRound mu grad copt sopt) s

end

/-! ## Mime / MimeLite (`mime.py`, `mime_lite.py`) -/

/-- a client with a second, padded pass over its data (`padded_batch(grads_batch_hparams)`): each
gradient batch comes with its number of real examples `sum(mask)` -/
structure GClient (ι β : Type) extends Client ι β where
  gbatches : List (β × Nat)

section
variable {β σ ι : Type}

/-- `mime.create_grads_for_each_client`: `(Σ num·grad, Σ num)` at fixed params, one key per batch -/
def gradsClient (grad : P → β → Key → P) (params : P) (gbatches : List (β × Nat)) (key : Key) :
    P × Rat :=
  let st := gbatches.foldl (fun (st : Key × P × Rat) b =>
      let (rng, useRng) := split st.1
      let g := grad params b.1 useRng
      (rng, vadd (vscale (b.2 : Rat) g) st.2.1, st.2.2 + (b.2 : Rat))) (key, vzero params, 0)
  (st.2.1, st.2.2)

/-- `tree_util.tree_sum` of `(grads_sum, num_sum)` pairs: `None` for an empty iterable -/
def treeSum : List (P × Rat) → Option (P × Rat)
  | [] => none
  | x :: rest => some (rest.foldl (fun acc y => (vadd acc.1 y.1, acc.2 + y.2)) x)

/-- full-batch gradient at the server params; `none` = the code raises (unpacking `None`) -/
def serverGrads (grad : P → β → Key → P) (params : P) (clients : List (GClient ι β)) : Option P :=
  (treeSum (clients.map fun c => gradsClient grad params c.gbatches c.key)).map
    fun t => inverseWeight t.1 t.2

/-- `tree_clip_by_global_norm`: `scale = minimum(1, max_norm / global_norm)`.  For a zero tree and a
positive bound the float quotient is `+inf`, so the scale is 1 (a zero bound on a zero tree is NaN
in the code and outside the property: the theorems assume `0 < clip`). -/
def clipScale (clip n : Rat) : Rat := if n = 0 then 1 else if clip / n < 1 then clip / n else 1

def clipByGlobalNorm (nrm : P → Rat) (clip : Rat) (v : P) : P := vscale (clipScale clip (nrm v)) v

def maybeClip (nrm : P → Rat) (clip : Option Rat) (v : P) : P :=
  match clip with
  | none => v
  | some c => clipByGlobalNorm nrm c v

/-- MimeLite `client_step`: the optimizer state is the *server's*, never updated locally -/
def mimeLiteClientStep (grad : P → β → Key → P) (base : Optimizer σ) (optState : σ)
    (st : P × Key) (batch : β) : P × Key :=
  let (rng, useRng) := split st.2
  let g := grad st.1 batch useRng
  ((base.apply g optState st.1).2, rng)

def mimeLiteClientDelta (grad : P → β → Key → P) (base : Optimizer σ) (optState : σ)
    (serverParams : P) (batches : List β) (key : Key) : P :=
  vsub serverParams (batches.foldl (mimeLiteClientStep grad base optState) (serverParams, key)).1

/-- the client deltas MimeLite aggregates (after the optional clip) -/
def mimeLiteResults (nrm : P → Rat) (clip : Option Rat) (grad : P → β → Key → P)
    (base : Optimizer σ) (s : ServerState σ) (clients : List (GClient ι β)) : List (ι × P) :=
  clients.map fun c =>
    (c.id, maybeClip nrm clip (mimeLiteClientDelta grad base s.opt s.params c.batches c.key))

/-- `mime_lite(...).apply`; `none` = raises (empty cohort) -/
def mimeLiteRound [DecidableEq ι] (nrm : P → Rat) (clip : Option Rat) (grad : P → β → Key → P)
    (base : Optimizer σ) (lr : Rat) (s : ServerState σ) (clients : List (GClient ι β)) :
    Option (ServerState σ) :=
  let acc := accumulate (FedAvg.sizeOf (clients.map (·.toClient))) (vzero s.params)
    (mimeLiteResults nrm clip grad base s clients)
  let mean := inverseWeight acc.1 acc.2
  match serverGrads grad s.params clients with
  | none => none
  | some sg =>
    some { params := vsub s.params (vscale lr mean), opt := (base.apply sg s.opt s.params).1 }

def mimeLiteRounds [DecidableEq ι] (nrm : P → Rat) (clip : Option Rat) (grad : P → β → Key → P)
    (base : Optimizer σ) (lr : Rat) (s : ServerState σ) (cohorts : List (List (GClient ι β))) :
    Option (ServerState σ) :=
  cohorts.foldlM (mimeLiteRound nrm clip grad base lr) s

/-- Mime `client_step`: control-variate corrected gradient, fixed optimizer state -/
def mimeClientStep (grad : P → β → Key → P) (base : Optimizer σ) (optState : σ) (initParams cv : P)
    (st : P × Key) (batch : β) : P × Key :=
  let (rng, useRng) := split st.2
  let cc := grad initParams batch useRng
  let g := grad st.1 batch useRng
  let adj := vadd (vsub g cc) cv
  ((base.apply adj optState st.1).2, rng)

def mimeClientDelta (grad : P → β → Key → P) (base : Optimizer σ) (optState : σ)
    (serverParams cv : P) (batches : List β) (key : Key) : P :=
  vsub serverParams
    (batches.foldl (mimeClientStep grad base optState serverParams cv) (serverParams, key)).1

/-- `mime(...).apply`; `none` = raises (empty cohort) -/
def mimeRound [DecidableEq ι] (grad : P → β → Key → P) (base : Optimizer σ) (lr : Rat)
    (s : ServerState σ) (clients : List (GClient ι β)) : Option (ServerState σ) :=
  match serverGrads grad s.params clients with
  | none => none
  | some sg =>
    let results := clients.map fun c =>
      (c.id, mimeClientDelta grad base s.opt s.params sg c.batches c.key)
    let acc := accumulate (FedAvg.sizeOf (clients.map (·.toClient))) (vzero s.params) results
    let mean := inverseWeight acc.1 acc.2
    some { params := vsub s.params (vscale lr mean), opt := (base.apply sg s.opt s.params).1 }

def mimeRounds [DecidableEq ι] (grad : P → β → Key → P) (base : Optimizer σ) (lr : Rat)
    (s : ServerState σ) (cohorts : List (List (GClient ι β))) : Option (ServerState σ) :=
  cohorts.foldlM (mimeRound grad base lr) s

end

/-! ## HypCluster (`hyp_cluster.py`) -/

/-- `jnp.argmin`: index of the first minimum -/
def argminGo : List Rat → Rat → Nat → Nat → Nat
  | [], _, bi, _ => bi
  | x :: xs, best, bi, i => if x < best then argminGo xs x i (i + 1) else argminGo xs best bi (i + 1)

def argminFirst : List Rat → Nat
  | [] => 0
  | x :: xs => argminGo xs x 0 1

/-- a client with the data of its maximisation (evaluation) pass -/
structure HClient (ι β γ : Type) extends Client ι β where
  evalData : γ

section
variable {β γ σc σs ι : Type}

/-- `_cluster_losses` for one client: cluster `i` is evaluated with `split(rng[0], K)[i]` -/
def hypLosses (avgLoss : P → γ → Key → Rat) (splitN : Key → Nat → List Key) (clusters : List P)
    (c : HClient ι β γ) : List Rat :=
  let rngs := splitN (split c.key).1 clusters.length
  clusters.zipIdx.map fun pi => avgLoss pi.1 c.evalData (rngs.getD pi.2 [])

/-- `maximization_step` for one client -/
def hypAssign (avgLoss : P → γ → Key → Rat) (splitN : Key → Nat → List Key) (clusters : List P)
    (c : HClient ι β γ) : Nat :=
  argminFirst (hypLosses avgLoss splitN clusters c)

/-- per-client results of the expectation pass: trained from the assigned cluster's params with
`rng[1]`, delta = `init − final` -/
def hypResults (grad : P → β → Key → P) (copt : Optimizer σc) (clusters : List P) (assignOf : ι → Nat)
    (clients : List (HClient ι β γ)) : List (ι × P) :=
  clients.map fun c =>
    (c.id, clientDelta grad copt (clusters.getD (assignOf c.id) []) c.batches (split c.key).2)

/-- the running per-cluster sums of `expectation_step`, in yield order -/
def hypSums (clusters : List P) (assignOf : ι → Nat) (size : ι → Nat) (results : List (ι × P)) :
    List (P × Rat) :=
  results.foldl (fun sums r =>
      sums.modify (assignOf r.1) fun a =>
        (vadd a.1 (vscale (size r.1 : Rat) r.2), a.2 + (size r.1 : Rat)))
    (clusters.map fun p => (vzero p, 0))

/-- weighted average delta, or `None` if no examples were seen for the cluster -/
def hypDelta (a : P × Rat) : Option P := if a.2 > 0 then some (inverseWeight a.1 a.2) else none

def hypServer (sopt : Optimizer σs) (cl : ServerState σs) (delta : Option P) : ServerState σs :=
  match delta with
  | none => cl
  | some d => serverUpdate sopt cl d

/-- `hyp_cluster(...).apply`: the state is the list of `(cluster_params[i], opt_states[i])` -/
def hypRound [DecidableEq ι] (avgLoss : P → γ → Key → Rat) (splitN : Key → Nat → List Key)
    (grad : P → β → Key → P) (copt : Optimizer σc) (sopt : Optimizer σs)
    (s : List (ServerState σs)) (clients : List (HClient ι β γ)) : List (ServerState σs) :=
  let clusters := s.map (·.params)
  let assignOf := dictGet (fun c : HClient ι β γ => c.id) (hypAssign avgLoss splitN clusters) 0 clients
  let size := FedAvg.sizeOf (clients.map (·.toClient))
  let sums := hypSums clusters assignOf size (hypResults grad copt clusters assignOf clients)
  List.zipWith (hypServer sopt) s (sums.map hypDelta)

/-- the round for a *given* assignment of client ids to clusters.  The property fixes the
assignment only up to ties ("a cluster of minimal average loss"); `hypRound` is this function at the
first-minimum assignment, an implementation may break exact ties differently. -/
def hypRoundWith [DecidableEq ι] (assignOf : ι → Nat) (grad : P → β → Key → P) (copt : Optimizer σc)
    (sopt : Optimizer σs) (s : List (ServerState σs)) (clients : List (HClient ι β γ)) :
    List (ServerState σs) :=
  let clusters := s.map (·.params)
  let size := FedAvg.sizeOf (clients.map (·.toClient))
  let sums := hypSums clusters assignOf size (hypResults grad copt clusters assignOf clients)
  List.zipWith (hypServer sopt) s (sums.map hypDelta)

def hypRounds [DecidableEq ι] (avgLoss : P → γ → Key → Rat) (splitN : Key → Nat → List Key)
    (grad : P → β → Key → P) (copt : Optimizer σc) (sopt : Optimizer σs)
    (s : List (ServerState σs)) (cohorts : List (List (HClient ι β γ))) : List (ServerState σs) :=
  cohorts.foldl (hypRound avgLoss splitN grad copt sopt) s

end

/-! ## APFL (`apfl.py`) -/

/-- per-client state kept on the server: personal params and one interpolation coefficient per
parameter leaf -/
structure ApflClientState where
  params : P
  coef : P
deriving DecidableEq

structure ApflStepState (σ : Type) where
  serverParams : P
  serverOpt : σ
  clientOpt : σ
  interpOpt : σ
  rng : Key
  state : ApflClientState

structure ApflServerState (σs ι : Type) where
  params : P
  opt : σs
  table : List (ι × ApflClientState)

/-- the leaf structure of the flat parameter vector: `seg` lists the leaf sizes -/
def expand (seg : List Nat) (coef : P) : P :=
  (seg.zip coef).flatMap fun na => List.replicate na.1 na.2

/-- sums of consecutive chunks of sizes `seg` (`tensordot` per leaf) -/
def segSums : List Nat → P → P
  | [], _ => []
  | n :: seg, v => (v.take n).sum :: segSums seg (v.drop n)

/-- `interpolate_params`: `a·client + (1 − a)·server` leaf-wise -/
def interpolate (seg : List Nat) (coef cp sp : P) : P :=
  List.zipWith (fun (ab : Rat × Rat) c => ab.1 * ab.2 + (1 - ab.1) * c) ((expand seg coef).zip cp) sp

/-- `interpolation_grad_fn`: `⟨client − server, grads⟩` per leaf -/
def interpGrads (seg : List Nat) (g cp sp : P) : P :=
  segSums seg (List.zipWith (· * ·) (vsub cp sp) g)

/-- `jnp.clip(x, 0, 1)` -/
def clip01 (a : Rat) : Rat := if a < 0 then 0 else if 1 < a then 1 else a

section
variable {β σc σs ι : Type}

def apflClientInit (copt : Optimizer σc) (serverParams : P) (st : ApflClientState) (key : Key) :
    ApflStepState σc :=
  { serverParams := serverParams, serverOpt := copt.init serverParams,
    clientOpt := copt.init st.params, interpOpt := copt.init st.coef, rng := key, state := st }

def apflClientStep (split3 : Key → Key × Key × Key) (seg : List Nat) (grad : P → β → Key → P)
    (copt : Optimizer σc) (st : ApflStepState σc) (batch : β) : ApflStepState σc :=
  let (rng, serverRng, clientRng) := split3 st.rng
  let personalized := interpolate seg st.state.coef st.state.params st.serverParams
  let serverG := grad st.serverParams batch serverRng
  let clientG := grad personalized batch clientRng
  let interpG := interpGrads seg clientG st.state.params st.serverParams
  let (serverOpt, serverParams) := copt.apply serverG st.serverOpt st.serverParams
  let (clientOpt, clientParams) := copt.apply clientG st.clientOpt st.state.params
  let (interpOpt, coef) := copt.apply interpG st.interpOpt st.state.coef
  { serverParams := serverParams, serverOpt := serverOpt, clientOpt := clientOpt,
    interpOpt := interpOpt, rng := rng,
    state := { params := clientParams, coef := coef.map clip01 } }

def apflClientRun (split3 : Key → Key × Key × Key) (seg : List Nat) (grad : P → β → Key → P)
    (copt : Optimizer σc) (serverParams : P) (st : ApflClientState) (batches : List β) (key : Key) :
    ApflStepState σc :=
  batches.foldl (apflClientStep split3 seg grad copt) (apflClientInit copt serverParams st key)

/-- `client_states.get(cid, default)` -/
def tableGet [DecidableEq ι] (table : List (ι × ApflClientState)) (cid : ι) : Option ApflClientState :=
  (table.find? fun e => e.1 = cid).map (·.2)

/-- `client_states[cid] = state` (replace an existing entry, else append) -/
def tableSet [DecidableEq ι] (table : List (ι × ApflClientState)) (cid : ι) (st : ApflClientState) :
    List (ι × ApflClientState) :=
  if table.any (fun e => e.1 = cid) then table.map fun e => if e.1 = cid then (cid, st) else e
  else table ++ [(cid, st)]

/-- per-client outputs `(id, state, delta_params)` of one APFL round -/
def apflOutputs [DecidableEq ι] (split3 : Key → Key × Key × Key) (seg : List Nat)
    (grad : P → β → Key → P) (copt : Optimizer σc) (coef0 : Rat) (s : ApflServerState σs ι)
    (clients : List (Client ι β)) : List (ι × ApflClientState × P) :=
  let dflt : ApflClientState := { params := s.params, coef := List.replicate seg.length coef0 }
  clients.map fun c =>
    let fin := apflClientRun split3 seg grad copt s.params ((tableGet s.table c.id).getD dflt)
      c.batches c.key
    (c.id, fin.state, vsub s.params fin.serverParams)

/-- `adaptive_personalized_federated_learning(...).apply` -/
def apflRound [DecidableEq ι] (split3 : Key → Key × Key × Key) (seg : List Nat)
    (grad : P → β → Key → P) (copt : Optimizer σc) (sopt : Optimizer σs) (coef0 : Rat)
    (s : ApflServerState σs ι) (clients : List (Client ι β)) : ApflServerState σs ι :=
  let outs := apflOutputs split3 seg grad copt coef0 s clients
  let table := outs.foldl (fun t o => tableSet t o.1 o.2.1) s.table
  let s' := aggregate sopt ⟨s.params, s.opt⟩ clients (outs.map fun o => (o.1, o.2.2))
  { params := s'.params, opt := s'.opt, table := table }

def apflRounds [DecidableEq ι] (split3 : Key → Key × Key × Key) (seg : List Nat)
    (grad : P → β → Key → P) (copt : Optimizer σc) (sopt : Optimizer σs) (coef0 : Rat)
    (s : ApflServerState σs ι) (cohorts : List (List (Client ι β))) : ApflServerState σs ι :=
  cohorts.foldl (apflRound split3 seg grad copt sopt coef0) s

/-! ### APFL evaluation (`eval_adaptive_personalized_federated_learning`) and mixed histories -/

/-- the params a client is evaluated with: its stored state interpolated with the server params; a
client without stored state gets the evaluation default (server params, coefficients 0).  The
lookup is `client_states.get(cid, default)`: evaluation reads the table and never writes it. -/
def apflEvalParams [DecidableEq ι] (seg : List Nat) (s : ApflServerState σs ι) (cid : ι) : P :=
  let dflt : ApflClientState := { params := s.params, coef := List.replicate seg.length 0 }
  let st := (tableGet s.table cid).getD dflt
  interpolate seg st.coef st.params s.params

/-- one step of an experiment: a training round or an evaluation of some client ids -/
inductive ApflOp (ι β : Type) where
  | train (clients : List (Client ι β))
  | eval (ids : List ι)

/-- the server state after one step (evaluation returns metrics, the state is the caller's and
stays as it was) -/
def apflStepOp [DecidableEq ι] (split3 : Key → Key × Key × Key) (seg : List Nat)
    (grad : P → β → Key → P) (copt : Optimizer σc) (sopt : Optimizer σs) (coef0 : Rat)
    (s : ApflServerState σs ι) : ApflOp ι β → ApflServerState σs ι
  | .train clients => apflRound split3 seg grad copt sopt coef0 s clients
  | .eval _ => s

def apflHistory [DecidableEq ι] (split3 : Key → Key × Key × Key) (seg : List Nat)
    (grad : P → β → Key → P) (copt : Optimizer σc) (sopt : Optimizer σs) (coef0 : Rat)
    (s : ApflServerState σs ι) (ops : List (ApflOp ι β)) : ApflServerState σs ι :=
  ops.foldl (apflStepOp split3 seg grad copt sopt coef0) s

end

end FedjaxVerif.Algorithms
