/-
Model of `fedjax/datasets/downloads.py`: `maybe_download`, `maybe_lzma_decompress` (C19).

The cache directory is a map from four names to contents
  * `dl`      `<cache_dir>/<name>.lzma`            final name of the download
  * `dlPart`  `<cache_dir>/<name>.lzma.partial`    temp name of the download
  * `dec`     `<cache_dir>/<name>`                 final name of the decompressed file
  * `decPart` `<cache_dir>/<name>.partial`         temp name of the decompression
A content is `(len, ok)`: the file holds `len` bytes and (`ok`) they are a prefix of the payload that
belongs under that name (compressed payload for `dl*`, decompressed payload for `dec*`); `ok = false`
is stale garbage left by something else.

A call is compiled into its list of atomic effects, in the order of the source:
  `if exists(path): reuse  else: open(partial,'wb'); requests.get; for each block: write(read(B)); rename`
  `if exists(dec): reuse   else: lzma.open(path); open(tmp,'wb'); copyfileobj (blocks of B'); rename`
(the second line is the protocol the property demands: decompress into a temp name, then rename).
A crash `(c, p)` executes the first `c` effects and, if the next effect is a write of `m` bytes,
the first `min p m` bytes of it.
Core Lean only.
-/

namespace FedjaxVerif.Cache

inductive Name | dl | dlPart | dec | decPart
deriving DecidableEq, Repr

structure Content where
  len : Nat
  ok : Bool
deriving DecidableEq, Repr

abbrev FS := Name → Option Content

def FS.set (fs : FS) (n : Name) (c : Option Content) : FS := fun m => if m = n then c else fs m

/-- payload lengths and transfer block sizes -/
structure Sizes where
  dlLen : Nat      -- content-length of the download
  decLen : Nat     -- length of the decompressed payload
  dlBlock : Nat    -- `block_size = 1 << 18`
  decBlock : Nat   -- `shutil.COPY_BUFSIZE`
deriving Repr

inductive Eff
  | truncate (n : Name)            -- `open(n, 'wb')`: creates / truncates
  | net                            -- `requests.get`, `r.raw.read`: network, no file-system change
  | read                           -- read from the local `.lzma`
  | append (n : Name) (m : Nat)    -- `fo.write(<m bytes>)`
  | rename (a b : Name)            -- `os.rename(a, b)` (atomic, replaces `b`)
deriving DecidableEq, Repr

def applyEff (fs : FS) : Eff → FS
  | .truncate n => fs.set n (some ⟨0, true⟩)
  | .net => fs
  | .read => fs
  | .append n m => match fs n with
      | some c => fs.set n (some ⟨c.len + m, c.ok⟩)
      | none => fs
  | .rename a b => match fs a with
      | some c => (fs.set a none).set b (some c)
      | none => fs

def applyEffs (fs : FS) (es : List Eff) : FS := es.foldl applyEff fs

/-- an effect interrupted after `p` bytes: only a write has intermediate states -/
def applyPartial (fs : FS) (p : Nat) : Option Eff → FS
  | some (.append n m) => applyEff fs (.append n (min p m))
  | _ => fs

/-- `(length + block_size - 1) // block_size` -/
def nBlocks (L B : Nat) : Nat := (L + B - 1) / B

/-- what `read(B)` returns at offset `i * B` of a payload of `L` bytes -/
def blockLen (L B i : Nat) : Nat := min B (L - i * B)

/-- the block loop: `for i in range(nBlocks): fo.write(read(B))` -/
def transfer (rd : Eff) (tmp : Name) (L B : Nat) : List Eff :=
  (List.range (nBlocks L B)).flatMap fun i => [rd, Eff.append tmp (blockLen L B i)]

inductive Call | download | decompress
deriving DecidableEq, Repr

def downloadEffs (z : Sizes) (fs : FS) : List Eff :=
  if (fs .dl).isSome then []
  else [Eff.truncate .dlPart, Eff.net] ++ transfer .net .dlPart z.dlLen z.dlBlock ++ [Eff.rename .dlPart .dl]

/-- `none`: the call raises before any effect (compressed file missing, or not a complete archive). -/
def decompressEffs (z : Sizes) (fs : FS) : Option (List Eff) :=
  if (fs .dec).isSome then some []
  else match fs .dl with
    | none => none
    | some c =>
      if c = ⟨z.dlLen, true⟩ then
        some ([Eff.read, Eff.truncate .decPart] ++ transfer .read .decPart z.decLen z.decBlock
              ++ [Eff.read, Eff.rename .decPart .dec])
      else none

def plan (z : Sizes) : Call → FS → Option (List Eff)
  | .download, fs => some (downloadEffs z fs)
  | .decompress, fs => decompressEffs z fs

/-- the call is interrupted: `c` complete effects, then `p` bytes of the next one -/
def crash (z : Sizes) (call : Call) (fs : FS) (c p : Nat) : FS :=
  match plan z call fs with
  | none => fs
  | some es => applyPartial (applyEffs fs (es.take c)) p es[c]?

/-- the call runs to completion (`none` = it raises) -/
def complete (z : Sizes) (call : Call) (fs : FS) : Option FS :=
  (plan z call fs).map (applyEffs fs)

/-- a sequence of interrupted calls -/
def crashes (z : Sizes) (sched : List (Call × Nat × Nat)) (fs : FS) : FS :=
  sched.foldl (fun fs x => crash z x.1 fs x.2.1 x.2.2) fs

/-- the file a completed call returns (content under the final name) -/
def result (call : Call) (fs : FS) : Option Content :=
  match call with
  | .download => fs .dl
  | .decompress => fs .dec

end FedjaxVerif.Cache
