/-
Model of the three `FederatedData` implementations (C08):

  * `fedjax/core/in_memory_federated_data.py`  ↦ `MemFD`  (dict + `sorted` ids, eager filtering on slice)
  * `fedjax/core/sqlite_federated_data.py`     ↦ `SqlFD`  (rows in rowid order + `(start, stop)`,
                                                   `intersect_slice_ranges`, `_range_where`, explicit
                                                   range check on point lookups)
  * `fedjax/core/federated_data.py::SubsetFederatedData` ↦ `FD.sub base set`
  * the specification: `View` = a plain mapping `id ↦ examples` plus the two preprocessor chains.

Client ids are any type with a decidable `<` (the driver uses `List Nat` = bytes with the
lexicographic order, which is Python's `bytes` order and SQLite's BLOB order).  Examples are an
abstract type `E`; preprocessors are functions, so the order of application is visible.
`buffered_shuffle` (used by every `shuffled_clients`) is modelled by `bufferedShuffle`
with numpy's `shuffle` / `randint` as oracles.

The model describes the *repaired* behaviour demanded by the property:
  * an in-memory view may be empty (the unrepaired constructor raises `IndexError` on it);
  * `client_size(s)` of the in-memory implementation report the stored number of examples, like the
    SQLite implementation does (the unrepaired code reports the size after preprocessing).
Core Lean only (no Mathlib): this file is linked into the driver executable.
-/

namespace FedjaxVerif.FedData

inductive Err where
  | key      -- KeyError
  | value    -- ValueError
deriving DecidableEq, Repr

/-- a `ClientDataset`: examples after the client-level chain, and the attached batch chain. -/
structure CDS (E : Type) where
  examples : E
  bpre : List (E → E)

section
variable {Id E : Type}

/-- `ClientPreprocessor.__call__`: `for f in fns: out = f(client_id, out)`. -/
def applyClient (fns : List (Id → E → E)) (id : Id) (e : E) : E := fns.foldl (fun acc f => f id acc) e

/-- `BatchPreprocessor.__call__`: `for f in fns: out = f(out)`. -/
def applyBatch (fns : List (E → E)) (e : E) : E := fns.foldl (fun acc g => g acc) e

/-- what a batch drawn from the dataset looks like (`all_examples()` = one batch with every row). -/
def CDS.allExamples (d : CDS E) : E := applyBatch d.bpre d.examples

/-- `ClientDataset(preprocess_client(client_id, raw), preprocess_batch)`. -/
def mkDataset (cpre : List (Id → E → E)) (bpre : List (E → E)) (id : Id) (raw : E) : CDS E :=
  ⟨applyClient cpre id raw, bpre⟩

/-- lazily evaluated `for id in ids: yield id, get(id)`: the produced prefix, and whether the
generator ended with `KeyError`. -/
def getMany {D : Type} (get : Id → Option D) : List Id → List (Id × D) × Bool
  | [] => ([], false)
  | i :: is =>
    match get i with
    | none => ([], true)
    | some d => let r := getMany get is; ((i, d) :: r.1, r.2)

variable [DecidableEq Id]

/-- `mapping[id]` / `SELECT … WHERE client_id = ?` on distinct keys. -/
def lookup (id : Id) : List (Id × E) → Option E
  | [] => none
  | (k, v) :: t => if k = id then some v else lookup id t

/-- `set(ids)` as a duplicate-free list. -/
def dedupIds : List Id → List Id
  | [] => []
  | x :: xs => if x ∈ xs then dedupIds xs else x :: dedupIds xs

/-- `SubsetFederatedData.get_clients`: pass the base's stream through, `KeyError` at the first id
outside the set. -/
def subFilter {D : Type} (set : List Id) : List (Id × D) → Bool → List (Id × D) × Bool
  | [], err => ([], err)
  | (i, d) :: rest, err =>
    if i ∈ set then let r := subFilter set rest err; ((i, d) :: r.1, r.2) else ([], true)

variable [LT Id] [DecidableLT Id]

/-- insertion into a sorted list (stable: after equal elements) -/
def insertId (x : Id) : List Id → List Id
  | [] => [x]
  | y :: ys => if x < y then x :: y :: ys else y :: insertId x ys

/-- `sorted(ids)` (as an insertion sort; only "a permutation of its input, in increasing order" is
used) -/
def sortIds (l : List Id) : List Id := l.foldr insertId []

/-- Python's `max(a, b)` (first maximal element) and `min(a, b)` (first minimal element). -/
def pyMax (a b : Id) : Id := if a < b then b else a
def pyMin (a b : Id) : Id := if b < a then b else a

/-- `intersect_slice_ranges(current_start, current_stop, new_start, new_stop)`. -/
def intersect (cs ce ns ne : Option Id) : Option Id × Option Id :=
  let ns' := match cs with
    | none => ns
    | some c => match ns with
      | none => some c
      | some n => some (pyMax c n)
  let ne' := match ce with
    | none => ne
    | some c => match ne with
      | none => some c
      | some n => some (pyMin c n)
  (ns', ne')

/-- `(start is None or start <= x) and (stop is None or x < stop)`; `start <= x` is `¬ x < start`. -/
def inRange (start stop : Option Id) (x : Id) : Bool :=
  (match start with | none => true | some s => !decide (x < s)) &&
  (match stop with | none => true | some e => decide (x < e))

/-- the four-way case split of `InMemoryFederatedData.slice` / `SubsetFederatedData.slice`. -/
def sliceFilter (start stop : Option Id) (ids : List Id) : List Id :=
  match start, stop with
  | none, none => ids
  | none, some e => ids.filter (fun i => decide (i < e))
  | some s, none => ids.filter (fun i => !decide (i < s))
  | some s, some e => ids.filter (fun i => !decide (i < s) && decide (i < e))

/-- `SQLiteFederatedData._range_where` evaluated on one row. -/
def whereP (start stop : Option Id) (x : Id) : Bool :=
  match start, stop with
  | none, none => true
  | some s, some e => !decide (x < s) && decide (x < e)
  | none, some e => decide (x < e)
  | some s, none => !decide (x < s)

/-! ### the three implementations -/

structure MemFD (Id E : Type) where
  tab : List (Id × E)              -- `_client_to_data_mapping` (distinct keys)
  cpre : List (Id → E → E)
  bpre : List (E → E)

structure SqlFD (Id E : Type) where
  rows : List (Id × E)             -- table `federated_data` in rowid order (PRIMARY KEY: distinct ids)
  start : Option Id
  stop : Option Id
  cpre : List (Id → E → E)
  bpre : List (E → E)

inductive FD (Id E : Type) where
  | mem (m : MemFD Id E)
  | sql (q : SqlFD Id E)
  | sub (base : FD Id E) (set : List Id)     -- `SubsetFederatedData(base, set)`

/-- `self._client_ids = sorted(mapping.keys())` -/
def MemFD.ids (m : MemFD Id E) : List Id := sortIds (m.tab.map (·.1))

def MemFD.entry (m : MemFD Id E) (i : Id) : Option (Id × E) := (lookup i m.tab).map fun e => (i, e)

/-- `_client_dataset(id)`; `none` = `KeyError` from the dict. -/
def MemFD.dataset? (m : MemFD Id E) (id : Id) : Option (CDS E) :=
  (lookup id m.tab).map (mkDataset m.cpre m.bpre id)

/-- `InMemoryFederatedData.slice`: filter the sorted ids, rebuild the dict from them. -/
def MemFD.slice (m : MemFD Id E) (s e : Option Id) : MemFD Id E :=
  { m with tab := (sliceFilter s e m.ids).filterMap m.entry }

def SqlFD.selected (q : SqlFD Id E) : List (Id × E) := q.rows.filter fun p => whereP q.start q.stop p.1

/-- `SQLiteFederatedData.get_client` -/
def SqlFD.getClient (q : SqlFD Id E) (id : Id) : Except Err (CDS E) :=
  if inRange q.start q.stop id then
    match lookup id q.rows with
    | some raw => .ok (mkDataset q.cpre q.bpre id raw)
    | none => .error .key
  else .error .key

def exceptToOption {α : Type} : Except Err α → Option α
  | .ok a => some a
  | .error _ => none

namespace FD

def slice : FD Id E → Option Id → Option Id → FD Id E
  | .mem m, s, e => .mem (m.slice s e)
  | .sql q, s, e =>
    let r := intersect q.start q.stop s e
    .sql { q with start := r.1, stop := r.2 }
  | .sub b set, s, e => .sub (b.slice s e) (sliceFilter s e set)

def preClient : FD Id E → (Id → E → E) → FD Id E
  | .mem m, f => .mem { m with cpre := m.cpre ++ [f] }
  | .sql q, f => .sql { q with cpre := q.cpre ++ [f] }
  | .sub b set, f => .sub (b.preClient f) set

def preBatch : FD Id E → (E → E) → FD Id E
  | .mem m, g => .mem { m with bpre := m.bpre ++ [g] }
  | .sql q, g => .sql { q with bpre := q.bpre ++ [g] }
  | .sub b set, g => .sub (b.preBatch g) set

def numClients : FD Id E → Nat
  | .mem m => m.ids.length
  | .sql q => q.selected.length
  | .sub _ set => set.length

def clientIds : FD Id E → List Id
  | .mem m => sortIds m.ids
  | .sql q => q.selected.map (·.1)
  | .sub _ set => sortIds set

/-- `client_sizes()`; `size` = `num_examples` of the stored examples. -/
def clientSizes (size : E → Nat) : FD Id E → List (Id × Nat)
  | .mem m => m.ids.filterMap fun i => (lookup i m.tab).map fun raw => (i, size raw)
  | .sql q => q.selected.map fun p => (p.1, size p.2)
  | .sub b set => (b.clientSizes size).filter fun p => decide (p.1 ∈ set)

def clientSize (size : E → Nat) : FD Id E → Id → Except Err Nat
  | .mem m, id =>
    match lookup id m.tab with
    | some raw => .ok (size raw)
    | none => .error .key
  | .sql q, id =>
    if inRange q.start q.stop id then
      match lookup id q.rows with
      | some raw => .ok (size raw)
      | none => .error .key
    else .error .key
  | .sub b set, id => if id ∈ set then b.clientSize size id else .error .key

def getClient : FD Id E → Id → Except Err (CDS E)
  | .mem m, id =>
    match m.dataset? id with
    | some d => .ok d
    | none => .error .key
  | .sql q, id => q.getClient id
  | .sub b set, id => if id ∈ set then b.getClient id else .error .key

/-- `get_clients(ids)`: (lazily produced prefix, ended with `KeyError`). -/
def getClients : FD Id E → List Id → List (Id × CDS E) × Bool
  | .mem m, req => getMany m.dataset? req
  | .sql q, req => getMany (fun i => exceptToOption (q.getClient i)) req
  | .sub b set, req => let r := b.getClients req; subFilter set r.1 r.2

/-- `clients()` -/
def clients : FD Id E → List (Id × CDS E) × Bool
  | .mem m => getMany m.dataset? m.ids
  | .sql q => (q.selected.map fun p => (p.1, mkDataset q.cpre q.bpre p.1 p.2), false)
  | .sub b set => let r := b.getClients (sortIds set); subFilter set r.1 r.2

/-- `SubsetFederatedData(fd, ids)` with `validate=True`. -/
def subset (fd : FD Id E) (ids : List Id) : Except Err (FD Id E) :=
  let set := dedupIds ids
  if set.all (fun i => decide (i ∈ fd.clientIds)) then .ok (.sub fd set) else .error .value

end FD

/-! ### view operations and histories -/

inductive Op (Id E : Type) where
  | slice (s e : Option Id)
  | subset (ids : List Id)
  | preClient (f : Id → E → E)
  | preBatch (g : E → E)

def FD.apply (fd : FD Id E) : Op Id E → Except Err (FD Id E)
  | .slice s e => .ok (fd.slice s e)
  | .subset ids => fd.subset ids
  | .preClient f => .ok (fd.preClient f)
  | .preBatch g => .ok (fd.preBatch g)

def FD.applyAll (fd : FD Id E) : List (Op Id E) → Except Err (FD Id E)
  | [] => .ok fd
  | op :: ops =>
    match fd.apply op with
    | .ok fd' => fd'.applyAll ops
    | .error e => .error e

/-! ### the specification: a view is a mapping -/

structure View (Id E : Type) where
  content : List (Id × E)          -- the clients of the view with their stored examples (distinct ids)
  cpre : List (Id → E → E)
  bpre : List (E → E)

namespace View

def ids (v : View Id E) : List Id := v.content.map (·.1)
def numClients (v : View Id E) : Nat := v.content.length
def sizes (size : E → Nat) (v : View Id E) : List (Id × Nat) := v.content.map fun p => (p.1, size p.2)
def clients (v : View Id E) : List (Id × CDS E) :=
  v.content.map fun p => (p.1, mkDataset v.cpre v.bpre p.1 p.2)

def getClient (v : View Id E) (id : Id) : Except Err (CDS E) :=
  match lookup id v.content with
  | some raw => .ok (mkDataset v.cpre v.bpre id raw)
  | none => .error .key

def clientSize (size : E → Nat) (v : View Id E) (id : Id) : Except Err Nat :=
  match lookup id v.content with
  | some raw => .ok (size raw)
  | none => .error .key

def getClients (v : View Id E) (req : List Id) : List (Id × CDS E) × Bool :=
  getMany (fun i => exceptToOption (v.getClient i)) req

def apply (v : View Id E) : Op Id E → Except Err (View Id E)
  | .slice s e => .ok { v with content := v.content.filter fun p => inRange s e p.1 }
  | .subset ids =>
    if ids.all (fun i => decide (i ∈ v.ids)) then
      .ok { v with content := v.content.filter fun p => decide (p.1 ∈ ids) }
    else .error .value
  | .preClient f => .ok { v with cpre := v.cpre ++ [f] }
  | .preBatch g => .ok { v with bpre := v.bpre ++ [g] }

def applyAll (v : View Id E) : List (Op Id E) → Except Err (View Id E)
  | [] => .ok v
  | op :: ops =>
    match v.apply op with
    | .ok v' => v'.applyAll ops
    | .error e => .error e

end View

end

/-! ### `buffered_shuffle` (client_datasets.py), used by every `shuffled_clients` -/

section
variable {α : Type}

/-- one iteration of `for i in it:` —
`r, buf[0] = buf[0], i; if swap < B - 1: buf[swap], buf[0] = buf[0], buf[swap]; yield r`. -/
def swapStep (B : Nat) (buf : List α) (swap : Nat) (i : α) : α × List α :=
  match buf with
  | [] => (i, [])                       -- unreachable for `B ≥ 1` (the real code raises IndexError)
  | r :: rest =>
    let buf1 := i :: rest
    if swap < B - 1 then (r, (buf1.set swap i).set 0 (buf1.getD swap i)) else (r, buf1)

def bshufLoop (B : Nat) : List α → List Nat → List α → List α
  | buf, _, [] => buf                   -- `for i in buf: yield i`
  | buf, swaps, i :: rest =>
    let s := swapStep B buf (swaps.headD 0) i
    s.1 :: bshufLoop B s.2 swaps.tail rest

/-- `buffered_shuffle(src, B, rng)`: `initPerm` = what `rng.shuffle` does to the first `B` items,
`swaps` = the successive `rng.randint(B)` draws. -/
def bufferedShuffle (B : Nat) (initPerm : List α → List α) (swaps : List Nat) (src : List α) : List α :=
  bshufLoop B (initPerm (src.take B)) swaps (src.drop B)

end

/-- one pass of `shuffled_clients(B, seed)`: `buffered_shuffle(self.clients(), B, rng)`. -/
def FD.shuffledPass {Id E : Type} [DecidableEq Id] [LT Id] [DecidableLT Id] (fd : FD Id E) (B : Nat)
    (initPerm : List (Id × CDS E) → List (Id × CDS E)) (swaps : List Nat) : List (Id × CDS E) :=
  bufferedShuffle B initPerm swaps fd.clients.1

end FedjaxVerif.FedData
