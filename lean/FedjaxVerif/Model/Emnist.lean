/-
Model of `fedjax/datasets/emnist.py: domain_id`.

Client ids are byte strings (lists of byte values).  The source takes the four bytes
`client_id[18:22]` of a 25-byte id (`[16 hex]:f[4 digits]_[2 digits]`) or `client_id[1:5]` of an
8-byte id (`f[4 digits]_[2 digits]`), converts them with `int`, and answers 0 (HIGH_SCHOOL) for
`2100 ≤ cid ≤ 2599`, else 1 (CENSUS).  Any other length raises `ValueError` (`none`).
`int` is modelled on ASCII digits only (the well-formed ids of the property); a non-digit byte
answers `none` (Python raises `ValueError` for letters/punctuation as well).
Core Lean only.
-/

namespace FedjaxVerif.Emnist

def digit? (b : Nat) : Option Nat := if 48 ≤ b ∧ b ≤ 57 then some (b - 48) else none

/-- `int(bytes)` for a non-empty run of ASCII digits. -/
def parseDigits? : List Nat → Nat → Option Nat
  | [], acc => some acc
  | b :: bs, acc => match digit? b with
    | some d => parseDigits? bs (acc * 10 + d)
    | none => none

def parseInt? (bs : List Nat) : Option Nat := if bs.isEmpty then none else parseDigits? bs 0

/-- `0 if 2100 <= cid and cid <= 2599 else 1`. -/
def domainOf (cid : Nat) : Nat := if 2100 ≤ cid ∧ cid ≤ 2599 then 0 else 1

def domainId (id : List Nat) : Option Nat :=
  if id.length = 25 then (parseInt? ((id.drop 18).take 4)).map domainOf
  else if id.length = 8 then (parseInt? ((id.drop 1).take 4)).map domainOf
  else none

/-- The four ASCII digits of `n` (zero padded), as the ids are written. -/
def digits4 (n : Nat) : List Nat :=
  [48 + n / 1000 % 10, 48 + n / 100 % 10, 48 + n / 10 % 10, 48 + n % 10]

end FedjaxVerif.Emnist
