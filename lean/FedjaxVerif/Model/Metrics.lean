import FedjaxVerif.Model.Stats

/-
Reference definitions of the 14 built-in metrics of `fedjax/core/metrics.py`, written from the
*docstrings* (what each metric is documented to compute for one example), over exact rationals.

* class scores are integers, optionally shifted by a `logits_mask` whose entries may be `-∞`/`+∞`
  (`Score`); `argmaxFirst` is "the class with the largest score, ties → lowest index";
* top-k is "the first `k` classes when classes are considered by decreasing score, ties in order of
  lowest to highest index" (`argsortDesc` is the stable sort the code uses, `rank` the definition;
  `Props/C14.lean` proves they agree); `k < 1` selects nothing;
* cross-entropy takes the per-class log-probabilities (`log_softmax`) as data;
* `targetWeight`: 0 for a target listed in `masked_target_values`, else 1; OOV = target listed in
  `oov_target_values`.

A statistic is a flattened list (`[s]` for rank 0, one entry per position for `per_position`,
`num_domains × base` for `PerDomainMetric`, `C × C` row-major for `ConfusionMatrix`).
Core Lean only.
-/

namespace FedjaxVerif.Metrics
open FedjaxVerif.Stats

/-! ## scores -/

inductive Score where
  | ninf
  | fin (v : Int)
  | pinf
deriving DecidableEq, Repr, Inhabited

namespace Score

def lt : Score → Score → Bool
  | ninf, ninf => false
  | ninf, _ => true
  | fin _, ninf => false
  | fin a, fin b => decide (a < b)
  | fin _, pinf => true
  | pinf, _ => false

/-- `pred + logits_mask` for one class: a finite prediction plus a mask entry. -/
def addMask (p : Int) : Score → Score
  | ninf => ninf
  | fin m => fin (p + m)
  | pinf => pinf

end Score

/-- `pred` (finite) with the optional `logits_mask` added class-wise. -/
def applyMask (pred : List Int) : Option (List Score) → List Score
  | none => pred.map Score.fin
  | some m => List.zipWith Score.addMask pred m

/-- score of class `i` (`-∞` outside the vector) -/
def key (s : List Score) (i : Nat) : Score := s.getD i Score.ninf

/-! ## argmax (ties → lowest index) -/

def argmaxGo : List Score → Score → Nat → Nat → Nat
  | [], _, bi, _ => bi
  | x :: xs, best, bi, i => if best.lt x then argmaxGo xs x i (i + 1) else argmaxGo xs best bi (i + 1)

/-- `jnp.argmax`: a left-to-right scan that only moves on a strictly larger score. -/
def argmaxFirst : List Score → Nat
  | [] => 0
  | x :: xs => argmaxGo xs x 0 1

/-! ## top-k -/

/-- insert class `i` (which precedes every class already in the list) into a list ordered by
decreasing score: it goes before the first class whose score is not strictly greater. -/
def insertDesc (s : List Score) (i : Nat) : List Nat → List Nat
  | [] => [i]
  | j :: js => if (key s i).lt (key s j) then j :: insertDesc s i js else i :: j :: js

/-- `jnp.argsort(-pred)` (stable): classes by decreasing score, equal scores by increasing index. -/
def argsortDesc (s : List Score) : List Nat :=
  (List.range s.length).foldr (insertDesc s) []

/-- the first `k` classes; `k < 1` gives none (documented: "k < 1 will return 0."). -/
def topK (k : Int) (s : List Score) : List Nat := (argsortDesc s).take k.toNat

def inTopK (k : Int) (s : List Score) (t : Int) : Bool := (topK k s).any fun j => (j : Int) == t

/-- definition of the position of class `j`: number of classes considered before it. -/
def rank (s : List Score) (j : Nat) : Nat :=
  ((List.range s.length).filter fun i =>
    (key s j).lt (key s i) || (key s i == key s j && decide (i < j))).length

/-! ## examples -/

/-- One example together with the model's prediction for it.  Scalar metrics read position 0. -/
structure Ex where
  targets : List Int
  scores : List (List Int)
  logp : List (List Rat)
  domain : Int
deriving Repr, Inhabited

def Ex.target (e : Ex) : Int := e.targets.headD 0
def Ex.scores0 (e : Ex) : List Int := e.scores.headD []
def Ex.logp0 (e : Ex) : List Rat := e.logp.headD []

def ind (b : Bool) : Rat := if b then 1 else 0

/-- `get_target_weight`: 0 for masked target values, else 1. -/
def targetWeight (masked : List Int) (t : Int) : Rat := ind (!masked.contains t)

def weights (masked : List Int) (ts : List Int) : List Rat := ts.map (targetWeight masked)

/-- `jnp.any(target_weight)` as 0/1 -/
def anyWeight (ws : List Rat) : Rat := ind (ws.any fun w => w != 0)

/-- `-Σ_c one_hot(t)_c · logp_c` -/
def ceLoss (t : Int) (lp : List Rat) : Rat :=
  if 0 ≤ t then -(lp.getD t.toNat 0) else 0

def correctTop1 (t : Int) (s : List Score) : Rat := ind ((argmaxFirst s : Int) == t)
def correctTopK (k : Int) (t : Int) (s : List Score) : Rat := ind (inTopK k s t)

def dot (xs ws : List Rat) : Rat := (List.zipWith (· * ·) xs ws).sum

/-- per-token values `vals` with weights `ws`: one MeanStat per position, or their sum. -/
def tokenStat (perPos : Bool) (vals ws : List Rat) : List MeanStat :=
  if perPos then List.zipWith (fun v w => MeanStat.new (v * w) w) vals ws
  else [MeanStat.new (dot vals ws) ws.sum]

/-- `PerDomainMetric`: block `d` holds the base statistic if `d` is the example's domain, else zeros. -/
def perDomainV {σ : Type} (z : σ) (numDomains : Nat) (d : Int) (v : List σ) : List σ :=
  (List.range numDomains).flatMap fun (i : Nat) => if (i : Int) = d then v else v.map fun _ => z

/-! ## the metrics -/

inductive MeanMetric where
  | crossEntropy
  | accuracy
  | topK (k : Int)
  | seqTokenCE (masked : List Int) (perPos : Bool)
  | seqCE (masked : List Int)
  | seqTokenAcc (masked : List Int) (lmask : Option (List Score)) (perPos : Bool)
  | seqTokenTopK (k : Int) (masked : List Int) (lmask : Option (List Score)) (perPos : Bool)
  | seqTruncRate (eos : Int) (masked : List Int)
  | seqOOVRate (oov : List Int) (masked : List Int) (perPos : Bool)
  | seqLength (masked : List Int)
  | perDomain (base : MeanMetric) (numDomains : Nat)
deriving Repr, Inhabited

inductive SumMetric where
  | seqTokenCount (masked : List Int)
  | seqCount (masked : List Int)
  | confusion (numClasses : Nat)
  | perDomain (base : SumMetric) (numDomains : Nat)
deriving Repr, Inhabited

def MeanMetric.eval : MeanMetric → Ex → List MeanStat
  | .crossEntropy, e => [MeanStat.new (ceLoss e.target e.logp0) 1]
  | .accuracy, e => [MeanStat.new (correctTop1 e.target (e.scores0.map Score.fin)) 1]
  | .topK k, e => [MeanStat.new (correctTopK k e.target (e.scores0.map Score.fin)) 1]
  | .seqTokenCE masked pp, e =>
      tokenStat pp (List.zipWith ceLoss e.targets e.logp) (weights masked e.targets)
  | .seqCE masked, e =>
      let ws := weights masked e.targets
      [MeanStat.new (dot (List.zipWith ceLoss e.targets e.logp) ws) (anyWeight ws)]
  | .seqTokenAcc masked lm pp, e =>
      tokenStat pp (List.zipWith (fun t sc => correctTop1 t (applyMask sc lm)) e.targets e.scores)
        (weights masked e.targets)
  | .seqTokenTopK k masked lm pp, e =>
      tokenStat pp (List.zipWith (fun t sc => correctTopK k t (applyMask sc lm)) e.targets e.scores)
        (weights masked e.targets)
  | .seqTruncRate eos masked, e =>
      let notEmpty := anyWeight (weights masked e.targets)
      let truncated := ind (e.targets.all fun t => t != eos)
      [MeanStat.new (truncated * notEmpty) notEmpty]
  | .seqOOVRate oov masked pp, e =>
      tokenStat pp (e.targets.map fun t => ind (oov.contains t)) (weights masked e.targets)
  | .seqLength masked, e =>
      let ws := weights masked e.targets
      [MeanStat.new ws.sum (anyWeight ws)]
  | .perDomain base n, e => perDomainV MeanStat.zero n e.domain (base.eval e)

def SumMetric.eval : SumMetric → Ex → List SumStat
  | .seqTokenCount masked, e => [SumStat.new (weights masked e.targets).sum]
  | .seqCount masked, e => [SumStat.new (anyWeight (weights masked e.targets))]
  | .confusion c, e =>
      let a := argmaxFirst (e.scores0.map Score.fin)
      (List.range c).flatMap fun (r : Nat) => (List.range c).map fun (col : Nat) =>
        SumStat.new (ind ((r : Int) == e.target && col == a))
  | .perDomain base n, e => perDomainV SumStat.zero n e.domain (base.eval e)

/-- number of entries of the statistic for sequences of length `len` -/
def MeanMetric.size (len : Nat) : MeanMetric → Nat
  | .seqTokenCE _ pp => if pp then len else 1
  | .seqTokenAcc _ _ pp => if pp then len else 1
  | .seqTokenTopK _ _ _ pp => if pp then len else 1
  | .seqOOVRate _ _ pp => if pp then len else 1
  | .perDomain base n => n * base.size len
  | _ => 1

def SumMetric.size : SumMetric → Nat
  | .confusion c => c * c
  | .perDomain base n => n * base.size
  | _ => 1

/-- `ConfusionMatrix.evaluate_example` raises `ValueError` unless `num_classes == len(pred)`. -/
def SumMetric.accepts : SumMetric → Ex → Bool
  | .confusion c, e => e.scores0.length == c
  | .perDomain base _, e => base.accepts e
  | _, _ => true

end FedjaxVerif.Metrics
