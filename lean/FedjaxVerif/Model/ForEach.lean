/-
Model of `fedjax/core/for_each_client.py` (C02).

* `seqRun` — the sequential per-client fold; this *is* the model of the jit and debug backends
  (`run_client`: init, loop over batches appending step results, final).
* `pmapRun` — the pmap backend: `_blockify` (stable sort by batch count descending, chunks of
  `D`, padding clients with a template-derived input, padding batches with a template-derived batch
  and `mask = False`), the masked step (`where(mask, next, state)`, `where(mask, r, zeros_like r)`),
  dropping of padding clients and cutting step results to the real batch count.
  The padding input `padI`, padding batch `padB`, zeroing `zeroR` and the step function are
  arbitrary: nothing is assumed about `step` on padding.
* `TL` — the thread-local backend choice with the context manager.
Core Lean only.
-/

namespace FedjaxVerif.ForEach

structure Client (ι β γ : Type) where
  id : ι
  batches : List β
  input : γ

section
variable {ι β γ σ₀ σ ρ ω : Type}

/-- `for batch in client_batches: state, r = step(state, batch); step_results.append(r)` -/
def foldSteps (step : σ → β → σ × ρ) (st : σ) : List β → σ × List ρ
  | [] => (st, [])
  | b :: bs =>
    let p := step st b
    let q := foldSteps step p.1 bs
    (q.1, p.2 :: q.2)

/-- jit / debug backend for one client. -/
def seqRun (init : σ₀ → γ → σ) (step : σ → β → σ × ρ) (final : σ₀ → σ → ω) (shared : σ₀)
    (c : Client ι β γ) : ι × ω × List ρ :=
  let q := foldSteps step (init shared c.input) c.batches
  (c.id, final shared q.1, q.2)

/-- `clients.sort(key=lambda x: len(x[1]), reverse=True)` (stable). -/
def sortDesc (cs : List (Client ι β γ)) : List (Client ι β γ) :=
  cs.mergeSort (fun a b => decide (b.batches.length ≤ a.batches.length))

/-- `clients[i:i+D] for i in range(0, len, D)` with fuel. -/
def chunk {α} (D : Nat) : Nat → List α → List (List α)
  | 0, _ => []
  | fuel+1, xs => if xs.isEmpty then [] else xs.take D :: chunk D fuel (xs.drop D)

/-- masked batches of one client inside a block with `M` batch slots. -/
def maskedBatches (padBatch : β) (M : Nat) (bs : List β) : List (β × Bool) :=
  (List.range M).map fun j => match bs[j]? with
    | some b => (b, true)
    | none => (padBatch, false)

/-- `p_client_step` per device: the step is always executed; `where(mask, ·, ·)` selects. -/
def foldMasked (step : σ → β → σ × ρ) (zeroR : ρ → ρ) (st : σ) : List (β × Bool) → σ × List ρ
  | [] => (st, [])
  | (b, m) :: bs =>
    let p := step st b
    let st' := if m then p.1 else st
    let r := if m then p.2 else zeroR p.2
    let q := foldMasked step zeroR st' bs
    (q.1, r :: q.2)

/-- One block: the real clients (mask true) in order; padding clients are computed and dropped. -/
def runBlock (init : σ₀ → γ → σ) (step : σ → β → σ × ρ) (final : σ₀ → σ → ω)
    (padI : γ → γ) (padB : β → β) (zeroR : ρ → ρ) (D : Nat) (shared : σ₀)
    (block : List (Client ι β γ)) : List (ι × ω × List ρ) :=
  match block with
  | [] => []
  | c0 :: _ =>
    let M := c0.batches.length
    let padBatch : Option β := c0.batches.head?.map padB
    -- padding clients (client_id None, input `padI c0.input`, all batches masked) are computed by
    -- the real code and never yielded; being unobservable they do not appear in the model's output.
    block.map fun c =>
      let q := match padBatch with
        | some pb => foldMasked step zeroR (init shared c.input) (maskedBatches pb M c.batches)
        | none => (init shared c.input, [])
      (c.id, final shared q.1, q.2.take c.batches.length)

def pmapRun (init : σ₀ → γ → σ) (step : σ → β → σ × ρ) (final : σ₀ → σ → ω)
    (padI : γ → γ) (padB : β → β) (zeroR : ρ → ρ) (D : Nat) (shared : σ₀)
    (cs : List (Client ι β γ)) : List (ι × ω × List ρ) :=
  let sorted := sortDesc cs
  (chunk D sorted.length sorted).flatMap (runBlock init step final padI padB zeroR D shared)

end

/-! ### thread-local backend choice -/

/-- what `set_for_each_client_backend` accepts: `none`, a supported backend, or an unsupported name -/
inductive Arg (B : Type) where
  | none
  | ok (b : B)
  | bad
deriving DecidableEq, Repr

/-- per-thread state: the raw attribute `_BACKEND_CHOICE.backend` and the stack of `old` values of
the context managers currently entered by this thread. -/
structure TState (B : Type) where
  cur : Option B
  stack : List (Option B)

inductive Op (B : Type) where
  | get                    -- get_for_each_client_backend()
  | set (a : Arg B)        -- set_for_each_client_backend(a)
  | enter (a : Arg B)      -- `with for_each_client_backend(a):` entered
  | exit                   -- the block is left (normally or by an exception)

/-- result of an op: `some b` for `get`, error flag for `ValueError`. -/
structure OpOut (B : Type) where
  got : Option B := .none
  valueError : Bool := false

def setArg {B} (s : TState B) : Arg B → Option (TState B)
  | .none => some { s with cur := none }
  | .ok b => some { s with cur := some b }
  | .bad => none

/-- One op of one thread. `dflt` is `DEFAULT_BACKEND`. An `enter` with an unsupported name raises
inside the `try`, so the `finally` restores `old` and the block is never entered (nothing pushed). -/
def tstep {B} (dflt : B) (s : TState B) : Op B → TState B × OpOut B
  | .get => match s.cur with
    | some b => (s, { got := some b })
    | none => ({ s with cur := some dflt }, { got := some dflt })
  | .set a => match setArg s a with
    | some s' => (s', {})
    | none => (s, { valueError := true })
  | .enter a => match setArg s a with
    | some s' => ({ s' with stack := s.cur :: s.stack }, {})
    | none => ({ s with cur := s.cur }, { valueError := true })
  | .exit => match s.stack with
    | old :: rest => ({ cur := old, stack := rest }, {})
    | [] => (s, {})

def trun {B} (dflt : B) (s : TState B) (ops : List (Op B)) : TState B :=
  ops.foldl (fun s o => (tstep dflt s o).1) s

/-- all threads: thread id ↦ state; an op of thread `t` touches only component `t`. -/
def gstep {B} (dflt : B) (g : Nat → TState B) (t : Nat) (o : Op B) : Nat → TState B :=
  fun u => if u = t then (tstep dflt (g t) o).1 else g u

def grun {B} (dflt : B) (g : Nat → TState B) (sched : List (Nat × Op B)) : Nat → TState B :=
  sched.foldl (fun g p => gstep dflt g p.1 p.2) g

end FedjaxVerif.ForEach
