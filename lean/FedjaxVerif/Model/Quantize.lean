/-
Model of `fedjax/aggregators/compression.py` (C11): uniform / binary stochastic quantizers,
TernGrad, DRIVE, the four compression aggregators, their key handling and bit accounting.

Conventions (DESIGN §3.1/§3.2):
  * numbers are exact rationals (`Rat`); every finite float is one;
  * `jnp.nan_to_num(a / b)` ↦ `guardDiv a b` (`0` when `b = 0`); the theorems show the guard is
    only reached as `0 / 0`.  `num_levels - 1` is divided by unguarded, as in the source
    (theorems assume `2 ≤ L`; the handler rejects `L < 2`);
  * a PRNG key is a *path* in the splitting tree: the step `(n, i)` is
    `jax.random.split(key, n)[i]`; uniform draws / Rademacher signs are supplied by the caller
    through `draw : Path → List Rat`, keyed by the path the model names;
  * `jnp.std` (a square root) enters TernGrad as the parameter `σ`;
  * the structured rotation is `H·D·pad(x) / √d`.  Both quantizers applied to rotated leaves
    (uniform, DRIVE) are positively homogeneous (`C11_scale`), so the two factors `1/√d` are
    applied together as `1/d` after the inverse rotation and the model stays rational.

Two places model the *repaired* behaviour demanded by the property (see `Props/C11.lean`):
  * `binaryCoord` uses `u ≥ s → v_min` (source before repair: `rand > v`, which maps a coordinate
    equal to the minimum to the maximum when its draw is exactly `0`);
  * `drive` divides guarded (source before repair: `0/0 = NaN` on an all-zero leaf).
Core Lean only (linked into the driver).
-/

namespace FedjaxVerif.Quantize

abbrev Path := List (Nat × Nat)
abbrev Tree := List (List Rat)

/-! ### scalar helpers -/

/-- `jnp.nan_to_num(a / b)`, for the `0/0` case. -/
def guardDiv (a b : Rat) : Rat := if b = 0 then 0 else a / b

def rmin (a b : Rat) : Rat := if a ≤ b then a else b
def rmax (a b : Rat) : Rat := if a ≤ b then b else a

/-- `jnp.maximum(0., jnp.minimum(v, 1.))` -/
def clamp01 (x : Rat) : Rat := rmax 0 (rmin x 1)

def rabs (x : Rat) : Rat := if 0 ≤ x then x else -x

/-- `jnp.sign` -/
def sgn (x : Rat) : Rat := if 0 < x then 1 else if x < 0 then -1 else 0

/-- `jnp.amin` of a non-empty array (`0` for the empty list, which the real code rejects). -/
def minL : List Rat → Rat
  | [] => 0
  | [x] => x
  | x :: y :: r => rmin x (minL (y :: r))

/-- `jnp.amax` of a non-empty array. -/
def maxL : List Rat → Rat
  | [] => 0
  | [x] => x
  | x :: y :: r => rmax x (maxL (y :: r))

/-! ### quantizers -/

/-- one coordinate of `uniform_stochastic_quantize` (lines 91–101 of the source). -/
def uniformCoord (L : Nat) (mn mx u x : Rat) : Rat :=
  let k : Rat := (L : Rat) - 1
  let s := clamp01 (guardDiv (x - mn) (mx - mn))
  let c : Rat := ((s * k).ceil : Int) / k
  let f : Rat := ((s * k).floor : Int) / k
  let thr := guardDiv (s - f) (c - f)
  let q := if u > thr then f else c
  mn + q * (mx - mn)

/-- `uniform_stochastic_quantize(v, L, rng)` with `us = jax.random.uniform(rng, v.shape)`. -/
def uniformQ (L : Nat) (us v : List Rat) : List Rat :=
  List.zipWith (uniformCoord L (minL v) (maxL v)) us v

/-- one coordinate of `binary_stochastic_quantize` with explicit thresholds (repaired `>=`). -/
def binaryCoord (mn mx u x : Rat) : Rat :=
  let s := clamp01 (guardDiv (x - mn) (mx - mn))
  if u ≥ s then mn else mx

def binaryQ (us v : List Rat) : List Rat :=
  List.zipWith (binaryCoord (minL v) (maxL v)) us v

/-- `jnp.where(|v| > 2.5σ, 2.5σ·sign v, v)` -/
def clipCoord (σ x : Rat) : Rat := if rabs x > 5 / 2 * σ then 5 / 2 * σ * sgn x else x

/-- `terngrad_quantize(v, rng)`; `σ = jnp.std(v)` is a parameter. -/
def ternQ (σ : Rat) (us v : List Rat) : List Rat :=
  let c := v.map (clipCoord σ)
  let m := maxL (c.map rabs)
  List.zipWith (fun u y => binaryCoord 0 m u (rabs y) * sgn y) us c

/-- one leaf of `drive_pytree` (repaired: guarded division). -/
def drive (v : List Rat) : List Rat :=
  let n2 := (v.map fun x => x * x).sum
  let n1 := (v.map rabs).sum
  v.map fun x => guardDiv (n2 * sgn x) n1

/-! ### admissible outputs (what the property fixes per coordinate, independent of the draw) -/

/-- the two admissible values of a uniformly quantised coordinate: the grid levels just below and
just above `x` on the `(L-1)`-grid between `mn` and `mx` (both `mn` for a constant vector). -/
def admCoord (L : Nat) (mn mx x : Rat) : Rat × Rat :=
  if mx = mn then (mn, mn)
  else
    let k : Rat := (L : Rat) - 1
    let t := (x - mn) * k / (mx - mn)
    (mn + (mx - mn) * (t.floor : Int) / k, mn + (mx - mn) * (t.ceil : Int) / k)

def admUniform (L : Nat) (v : List Rat) : List (Rat × Rat) := v.map (admCoord L (minL v) (maxL v))

/-- binary quantizer: the minimum or the maximum -/
def admBinary (v : List Rat) : List (Rat × Rat) := v.map fun _ => (minL v, maxL v)

/-- TernGrad: `0` or `s·sign c` (`c` the clipped coordinate, `s` the largest clipped magnitude) -/
def admTern (σ : Rat) (v : List Rat) : List (Rat × Rat) :=
  let c := v.map (clipCoord σ)
  let m := maxL (c.map rabs)
  c.map fun y => (0, m * sgn y)

/-! ### Walsh–Hadamard rotation (unnormalised; C18 owns the transform itself) -/

def bitSign (a b : Nat) : Int := if a % 2 = 1 ∧ b % 2 = 1 then -1 else 1

/-- Sylvester–Hadamard entry on `k` bits: `(-1)^popcount(i &&& j)`. -/
def hEntry : Nat → Nat → Nat → Int
  | 0, _, _ => 1
  | k + 1, i, j => bitSign i j * hEntry k (i / 2) (j / 2)

def hadamard (k : Nat) (x : List Rat) : List Rat :=
  (List.range (2 ^ k)).map fun i =>
    ((List.range (2 ^ k)).zipWith (fun j xj => (hEntry k i j : Rat) * xj) x).sum

/-- least `k` with `n ≤ 2^k` (`math.ceil(math.log2 n)`), by fuel. -/
def ceilLog2Go (n : Nat) : Nat → Nat → Nat
  | 0, k => k
  | fuel + 1, k => if n ≤ 2 ^ k then k else ceilLog2Go n fuel (k + 1)

def ceilLog2 (n : Nat) : Nat := ceilLog2Go n n 0

def padTo (d : Nat) (x : List Rat) : List Rat := x ++ List.replicate (d - x.length) 0

/-- `√d · structured_rotation(x)`: `H (D · pad x)`. -/
def rotU (signs x : List Rat) : List Rat :=
  let k := ceilLog2 x.length
  hadamard k (List.zipWith (· * ·) (padTo (2 ^ k) x) signs)

/-- `inverse_structured_rotation` with both `1/√d` factors applied at the end. -/
def invRotU (signs : List Rat) (n : Nat) (y : List Rat) : List Rat :=
  let k := ceilLog2 n
  ((List.zipWith (· * ·) (hadamard k y) signs).take n).map (· / (2 ^ k : Nat))

/-! ### trees, weighted mean (`tree_util.tree_mean`) -/

def treeScale (w : Rat) (t : Tree) : Tree := t.map (·.map (w * ·))
def treeAdd (a b : Tree) : Tree := List.zipWith (List.zipWith (· + ·)) a b
def treeSize (t : Tree) : Nat := (t.map List.length).sum

/-- `tree_mean`: fold of `tree_weight`/`tree_add`, then `1/Σw` if `Σw > 0` else `0`.
`none` when there is no client (the real code returns `None`). -/
def treeMean : List (Tree × Rat) → Option Tree
  | [] => none
  | (t, w) :: rest =>
    let s := rest.foldl (fun acc p => treeAdd acc (treeScale p.2 p.1)) (treeScale w t)
    let W := rest.foldl (fun acc p => acc + p.2) (0 + w)
    some (treeScale (if 0 < W then 1 / W else 0) s)

/-! ### keys -/

/-- the `c`-th key of `hk.PRNGSequence(use)` (reserve size 1: `key, sub = split(key)`). -/
def clientKey (use : Path) (c : Nat) : Path := use ++ List.replicate c (2, 0) ++ [(2, 1)]

/-- `jax.random.split(key, nl)[l]` -/
def leafKey (key : Path) (nl l : Nat) : Path := key ++ [(nl, l)]

/-- `for l, r in zip(leaves, split(rng, len(leaves)))` applied to one tree. -/
def mapLeaves (f : Path → List Rat → List Rat) (key : Path) (t : Tree) : Tree :=
  (List.range t.length).zipWith (fun l leaf => f (leafKey key t.length l) leaf) t

/-! ### aggregators -/

structure CState where
  /-- coefficient of `log₂ L` (resp. `log₂ 3`) in `num_bits` -/
  logBits : Nat
  /-- constant part of `num_bits` -/
  constBits : Nat
  rng : Path
deriving Repr, DecidableEq

def initState (root : Path) : CState := ⟨0, 0, root⟩

def aggSize : Option Tree → Nat
  | none => 0
  | some t => treeSize t

def aggLeaves : Option Tree → Nat
  | none => 0
  | some t => t.length

/-- quantise every client with its own key, average (`zip(clients, rng_seq)`, `starmap`, `tree_mean`). -/
def quantClients (f : Path → Tree → Tree) (use : Path) (clients : List (Tree × Rat)) :
    List (Tree × Rat) :=
  (List.range clients.length).zipWith (fun c p => (f (clientKey use c) p.1, p.2)) clients

/-- `uniform_stochastic_quantizer(L, rng).apply` (encode_algorithm = None). -/
def uniformRound (L : Nat) (draw : Path → List Rat) (st : CState) (clients : List (Tree × Rat)) :
    Option Tree × CState :=
  let rng := st.rng ++ [(2, 0)]
  let use := st.rng ++ [(2, 1)]
  let agg := treeMean (quantClients (mapLeaves fun k leaf => uniformQ L (draw k) leaf) use clients)
  (agg, ⟨st.logBits + aggSize agg, st.constBits + 32 * (2 * aggLeaves agg), rng⟩)

/-- `terngrad_quantizer(rng).apply`; `sigma key` = `jnp.std` of the leaf quantised with `key`. -/
def ternRound (draw : Path → List Rat) (sigma : Path → Rat) (st : CState)
    (clients : List (Tree × Rat)) : Option Tree × CState :=
  let rng := st.rng ++ [(2, 0)]
  let use := st.rng ++ [(2, 1)]
  let agg := treeMean (quantClients (mapLeaves fun k leaf => ternQ (sigma k) (draw k) leaf) use clients)
  (agg, ⟨st.logBits + aggSize agg, st.constBits + 32 * (2 * aggLeaves agg), rng⟩)

/-- `rotated_uniform_stochastic_quantizer(L, rng).apply`: one rotation key per round (shared by the
clients), then a second split for the per-client quantisation keys. -/
def rotatedRound (L : Nat) (draw : Path → List Rat) (st : CState) (clients : List (Tree × Rat)) :
    Option Tree × CState :=
  let rng1 := st.rng ++ [(2, 0)]
  let rot := st.rng ++ [(2, 1)]
  let rng := rng1 ++ [(2, 0)]
  let use := rng1 ++ [(2, 1)]
  let f : Path → Tree → Tree := fun key t =>
    (List.range t.length).zipWith (fun l leaf =>
      let signs := draw (leafKey rot t.length l)
      invRotU signs leaf.length (uniformQ L (draw (leafKey key t.length l)) (rotU signs leaf))) t
  let agg := treeMean (quantClients f use clients)
  (agg, ⟨st.logBits + aggSize agg, st.constBits + 32 * (2 * aggLeaves agg), rng⟩)

/-- `structured_drive_quantizer(rng).apply`: per-client rotation keys, deterministic DRIVE. -/
def driveRound (draw : Path → List Rat) (st : CState) (clients : List (Tree × Rat)) :
    Option Tree × CState :=
  let rng := st.rng ++ [(2, 0)]
  let rot := st.rng ++ [(2, 1)]
  let f : Path → Tree → Tree := mapLeaves fun k leaf =>
    let signs := draw k
    invRotU signs leaf.length (drive (rotU signs leaf))
  let agg := treeMean (quantClients f rot clients)
  (agg, ⟨st.logBits, st.constBits + aggSize agg + 32 * (2 * aggLeaves agg), rng⟩)

/-- runs the rounds of one aggregator, threading the state; one `(aggregate, new state)` per round. -/
def history (step : CState → List (Tree × Rat) → Option Tree × CState) :
    CState → List (List (Tree × Rat)) → List (Option Tree × CState)
  | _, [] => []
  | st, cs :: rest => let r := step st cs; r :: history step r.2 rest

/-- the aggregator state after all rounds -/
def finalState (step : CState → List (Tree × Rat) → Option Tree × CState) (st : CState)
    (rounds : List (List (Tree × Rat))) : CState :=
  rounds.foldl (fun s cs => (step s cs).2) st

/-! ### the draw keys of a history (what `C11_keys_fresh` is about) -/

/-- state key after `r` rounds: `split(·)[0]` once per round (twice for the rotated aggregator). -/
def stateRng (perRound : Nat) (root : Path) (r : Nat) : Path :=
  root ++ List.replicate (perRound * r) (2, 0)

/-- key of the uniform draw (uniform / TernGrad) or of the Rademacher signs (DRIVE) for
`(round r, client c, leaf l)`. -/
def drawKey (root : Path) (nl r c l : Nat) : Path :=
  leafKey (clientKey (stateRng 1 root r ++ [(2, 1)]) c) nl l

/-- rotated aggregator: quantisation draw for `(r, c, l)` and rotation signs for `(r, l)`. -/
def rotDrawKey (root : Path) (nl r c l : Nat) : Path :=
  leafKey (clientKey (stateRng 2 root r ++ [(2, 0)] ++ [(2, 1)]) c) nl l

def rotSignKey (root : Path) (nl r l : Nat) : Path :=
  leafKey (stateRng 2 root r ++ [(2, 1)]) nl l

end FedjaxVerif.Quantize
