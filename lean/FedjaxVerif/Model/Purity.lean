/-
Model of the state that has to flow *explicitly* through a training round (C10).

In Lean a round is a function, so "calling it twice gives the same result" is true by construction
and says nothing about Python.  What can be modelled is the state the code is supposed to carry
in its `ServerState` / `CompressionState` values:

  * `fedjax/algorithms/apfl.py` — the per-client state table `server_state.client_states`
    (a Python dict).  The model is a persistent association list; one round reads each
    participant's entry (or the default) from the *input* table and returns a *new* table updated
    at exactly the participating ids (`apflRound`).  This is the behaviour the property demands;
    `apflRoundInPlace` is the code as it stood (reads and writes one shared, threaded dict), kept
    to state precisely when the two differ.
    The client step follows the source: `rng, server_rng, client_rng = split(rng, 3)`;
    personalised params `a·c + (1−a)·s`; two gradients; the interpolation gradient
    `⟨c − s, g_c⟩`; three applications of the client optimizer; `clip(·, 0, 1)`.
  * `fedjax/aggregators/compression.py` — `CompressionState(num_bits, rng)`: each `apply` splits the
    state key (once; twice for the rotated quantizer), hands the use-key to a `hk.PRNGSequence`
    that yields one key per client, and returns `(bits + Δ, carried key)`.
  * `fedjax/algorithms/agnostic_fed_avg.py` — the sliding `domain_window` list:
    `window[1:] + [sum_domain_num]`.
  * checkpoint-and-continue: histories with a save/load round trip before arbitrary rounds.

Externals are parameters: `grad`, optimizers, the quantizers (functions of the keys the model
names), the bit count.  Keys are paths in the splitting tree: `child k i = split(k, n)[i]`
(with the pinned jax, `split(k, n)[i]` does not depend on `n`; the harness checks this).
Parameters are flat vectors `List Rat`; a single leaf, so APFL has one interpolation coefficient
(the pytree structure is glue covered by the correspondence).  Core Lean only.
-/
import FedjaxVerif.Model.FedAvg

namespace FedjaxVerif.Purity
open FedjaxVerif.FedAvg (P Optimizer vadd vsub vscale vzero ServerState)

/-! ### persistent table = the value of a Python dict -/

abbrev Table (ι α : Type) := List (ι × α)

namespace Table
variable {ι α : Type} [DecidableEq ι]

def get? (t : Table ι α) (i : ι) : Option α := (t.find? (fun p => p.1 = i)).map (·.2)

/-- `d.get(i, dflt)` -/
def getD (t : Table ι α) (i : ι) (dflt : α) : α := (get? t i).getD dflt

/-- the value of `d` after `d[i] = v` (an existing key keeps its position, a new key is appended) -/
def set : Table ι α → ι → α → Table ι α
  | [], i, v => [(i, v)]
  | (j, w) :: t, i, v => if j = i then (j, v) :: t else (j, w) :: set t i v

def keys (t : Table ι α) : List ι := t.map (·.1)

/-- all assignments of a round, in yield order -/
def setAll (t : Table ι α) (rs : List (ι × α)) : Table ι α := rs.foldl (fun t r => set t r.1 r.2) t

end Table

/-! ### keys -/

abbrev NKey := List Nat

/-- `jax.random.split(k, n)[i]` -/
def child (k : NKey) (i : Nat) : NKey := k ++ [i]

/-- `i`-th key drawn from `hk.PRNGSequence(k)`: `k, sub = split(k)` repeated, i.e. `k·0^i·1` -/
def seqKey (k : NKey) (i : Nat) : NKey := k ++ List.replicate i 0 ++ [1]

/-! ### APFL -/

structure ClientSt where
  params : P
  coef : Rat
deriving DecidableEq

structure StepSt (σ : Type) where
  serverParams : P
  serverOpt : σ
  clientOpt : σ
  coefOpt : σ
  rng : NKey
  st : ClientSt

/-- `interpolate_params`: `a·client + (1−a)·server` -/
def interpolate (a : Rat) (c s : P) : P := List.zipWith (fun x y => a * x + (1 - a) * y) c s

def dot (a b : P) : Rat := (List.zipWith (· * ·) a b).foldl (· + ·) 0

/-- `jnp.clip(x, 0, 1)` -/
def clip01 (x : Rat) : Rat := if x < 0 then 0 else if 1 < x then 1 else x

section apfl
variable {β σc σs ι : Type}

def apflInit (copt : Optimizer σc) (serverParams : P) (key : NKey) (st : ClientSt) : StepSt σc :=
  { serverParams := serverParams, serverOpt := copt.init serverParams,
    clientOpt := copt.init st.params, coefOpt := copt.init [st.coef], rng := key, st := st }

def apflStep (grad : P → β → NKey → P) (copt : Optimizer σc) (s : StepSt σc) (batch : β) : StepSt σc :=
  let rng := child s.rng 0
  let serverRng := child s.rng 1
  let clientRng := child s.rng 2
  let personalised := interpolate s.st.coef s.st.params s.serverParams
  let serverGrads := grad s.serverParams batch serverRng
  let clientGrads := grad personalised batch clientRng
  let coefGrad := dot (vsub s.st.params s.serverParams) clientGrads
  let (serverOpt, serverParams) := copt.apply serverGrads s.serverOpt s.serverParams
  let (clientOpt, clientParams) := copt.apply clientGrads s.clientOpt s.st.params
  let (coefOpt, coef) := copt.apply [coefGrad] s.coefOpt [s.st.coef]
  { serverParams := serverParams, serverOpt := serverOpt, clientOpt := clientOpt, coefOpt := coefOpt,
    rng := rng, st := ⟨clientParams, clip01 (coef.headD 0)⟩ }

/-- a sampled client -/
structure AClient (ι β : Type) where
  id : ι
  size : Nat
  batches : List β
  key : NKey

/-- one client's local training: its new persistent state and its delta `server − local server copy` -/
def trainClient (grad : P → β → NKey → P) (copt : Optimizer σc) (serverParams : P) (st0 : ClientSt)
    (c : AClient ι β) : ClientSt × P :=
  let fin := c.batches.foldl (apflStep grad copt) (apflInit copt serverParams c.key st0)
  (fin.st, vsub serverParams fin.serverParams)

/-- `client_default_state`: server params and the initial coefficient -/
def defaultSt (serverParams : P) (c0 : Rat) : ClientSt := ⟨serverParams, c0⟩

structure AState (ι σs : Type) where
  server : ServerState σs
  table : Table ι ClientSt

def toFA (c : AClient ι β) : FedAvg.Client ι β := ⟨c.id, c.size, c.batches, []⟩

/-- per-client results of a round: every participant starts from its entry in the **input** table -/
def apflResults [DecidableEq ι] (grad : P → β → NKey → P) (copt : Optimizer σc) (c0 : Rat)
    (s : AState ι σs) (clients : List (AClient ι β)) : List (ι × ClientSt × P) :=
  clients.map fun c =>
    (c.id, trainClient grad copt s.server.params
      (s.table.getD c.id (defaultSt s.server.params c0)) c)

/-- One APFL round as the property requires it: a new state whose table is the input table
updated at the participants; the input is a value and is not touched. -/
def apflRound [DecidableEq ι] (grad : P → β → NKey → P) (copt : Optimizer σc) (sopt : Optimizer σs)
    (c0 : Rat) (s : AState ι σs) (clients : List (AClient ι β)) : AState ι σs :=
  let rs := apflResults grad copt c0 s clients
  { server := FedAvg.aggregate sopt s.server (clients.map toFA) (rs.map fun r => (r.1, r.2.2)),
    table := s.table.setAll (rs.map fun r => (r.1, r.2.1)) }

/-- The code as it stood (`server_state.client_states[client_id] = …` inside the loop, the lazily
evaluated generator reading `server_state.client_states.get` from the same dict): one dict is
threaded through the clients.  The returned table is at the same time the caller's dict after the
call. -/
def apflRoundInPlace [DecidableEq ι] (grad : P → β → NKey → P) (copt : Optimizer σc)
    (sopt : Optimizer σs) (c0 : Rat) (s : AState ι σs) (clients : List (AClient ι β)) : AState ι σs :=
  let acc := clients.foldl (fun (acc : Table ι ClientSt × List (ι × P)) c =>
      let r := trainClient grad copt s.server.params
        (acc.1.getD c.id (defaultSt s.server.params c0)) c
      (acc.1.set c.id r.1, acc.2 ++ [(c.id, r.2)])) (s.table, [])
  { server := FedAvg.aggregate sopt s.server (clients.map toFA) acc.2, table := acc.1 }

def apflRounds [DecidableEq ι] (grad : P → β → NKey → P) (copt : Optimizer σc) (sopt : Optimizer σs)
    (c0 : Rat) (s : AState ι σs) (cohorts : List (List (AClient ι β))) : AState ι σs :=
  cohorts.foldl (apflRound grad copt sopt c0) s

end apfl

/-! ### compression aggregators -/

structure CompState where
  bits : Rat
  rng : NKey
deriving DecidableEq

structure RoundKeys where
  /-- the key carried to the next round -/
  next : NKey
  /-- the rotation key shared by all clients (rotated uniform quantizer only) -/
  rot : Option NKey
  /-- the key handed to `hk.PRNGSequence` -/
  use : NKey

/-- `rng, use = split(state.rng)` (uniform, TernGrad, DRIVE); the rotated uniform quantizer first
takes `rng, rotation = split(state.rng)` and then `rng, use = split(rng)`. -/
def roundKeys (rotated : Bool) (k : NKey) : RoundKeys :=
  if rotated then ⟨child (child k 0) 0, some (child k 1), child (child k 0) 1⟩
  else ⟨child k 0, none, child k 1⟩

/-- `tree_mean`: running weighted sum in input order, then `1/w if w > 0 else 0`;
`none` for an empty iterable -/
def wmean : List (P × Rat) → Option P
  | [] => none
  | (p, w) :: rest =>
    let acc := rest.foldl (fun (a : P × Rat) x => (vadd a.1 (vscale x.2 x.1), a.2 + x.2)) (vscale w p, w)
    some (vscale (if acc.2 > 0 then 1 / acc.2 else 0) acc.1)

/-- the quantised `(params, weight)` pairs: client `i` is quantised with the `i`-th sequence key -/
def quantised {ι : Type} (quant : Option NKey → NKey → P → P) (ks : RoundKeys)
    (inputs : List (ι × P × Rat)) : List (P × Rat) :=
  inputs.zipIdx.map fun x => (quant ks.rot (seqKey ks.use x.2) x.1.2.1, x.1.2.2)

/-- one `apply` of a compression aggregator.  `quant rot key params` is the (random) quantizer as a
function of the keys; `newBits` the bit count of the round (a function of the quantised inputs). -/
def compApply {ι : Type} (rotated : Bool) (quant : Option NKey → NKey → P → P)
    (newBits : List (P × Rat) → Rat) (inputs : List (ι × P × Rat)) (st : CompState) :
    Option P × CompState :=
  let ks := roundKeys rotated st.rng
  let q := quantised quant ks inputs
  (wmean q, ⟨st.bits + newBits q, ks.next⟩)

/-- multi-round use: outputs of every round and the final state -/
def compRun {ι : Type} (rotated : Bool) (quant : Option NKey → NKey → P → P)
    (newBits : List (P × Rat) → Rat) : CompState → List (List (ι × P × Rat)) →
    List (Option P × CompState)
  | _, [] => []
  | st, r :: rs =>
    let o := compApply rotated quant newBits r st
    o :: compRun rotated quant newBits o.2 rs

/-- the state key after `t` rounds -/
def carried (rotated : Bool) : Nat → NKey → NKey
  | 0, k => k
  | t + 1, k => carried rotated t (roundKeys rotated k).next

/-! ### agnostic FedAvg's sliding window -/

/-- `server_state.domain_window[1:] + [sum_domain_num]` -/
def windowStep (w : List P) (n : P) : List P := w.drop 1 ++ [n]

def windowRun : List P → List P → List (List P)
  | _, [] => []
  | w, n :: ns => let w' := windowStep w n; w' :: windowRun w' ns

/-! ### histories and checkpoint-and-continue -/

section history
variable {S C B : Type}

/-- the states after each round -/
def history (round : S → C → S) : S → List C → List S
  | _, [] => []
  | s, c :: cs => let s' := round s c; s' :: history round s' cs

/-- the same run, but before every round flagged `true` the current state is saved and the run
continues from the restored copy -/
def historyCkpt (round : S → C → S) (save : S → B) (load : B → S) : S → List (C × Bool) → List S
  | _, [] => []
  | s, (c, ck) :: cs =>
    let s' := round (if ck then load (save s) else s) c
    s' :: historyCkpt round save load s' cs

end history

end FedjaxVerif.Purity
