/-
Model of `fedjax/datasets/shakespeare.py: preprocess_client` (the character tokeniser).

The source
  1. joins all snippets into one label sequence, writing `BOS`, the table image of every byte,
     `EOS` for each snippet in turn (`joined`);
  2. computes `padded_length = ((J - 1 + L - 1) // L) * L`;
  3. fills two `PAD` arrays of that length with `joined[:-1]` (inputs) and `joined[1:]` (targets);
  4. reshapes both to `[-1, L]`.
The look-up table is a parameter (`Nat → Nat`): the theorems hold for every table with values in
`[3, V)`; the driver receives the real 256-entry `TABLE` on every line.
Core Lean only.
-/

namespace FedjaxVerif.Shakespeare

def PAD : Nat := 0
def BOS : Nat := 1
def EOS : Nat := 2

/-- `BOS`, the labels of the bytes, `EOS` — one iteration of the source's `for i in snippets`. -/
def encodeSnippet (table : Nat → Nat) (s : List Nat) : List Nat :=
  BOS :: (s.map table ++ [EOS])

/-- The joined label sequence (the source's `joined` array after the loop). -/
def joined (table : Nat → Nat) : List (List Nat) → List Nat
  | [] => []
  | s :: rest => encodeSnippet table s ++ joined table rest

/-- `joined_length = sum(len(i) + 2 for i in snippets)`. -/
def joinedLength : List (List Nat) → Nat
  | [] => 0
  | s :: rest => (s.length + 2) + joinedLength rest

/-- `((J - 1 + L - 1) // L) * L` (for `J = 0` Python's `-1 + L - 1 = L - 2` also gives 0 when
`L ≥ 2`; truncated subtraction gives the same value). -/
def paddedLength (J L : Nat) : Nat := (J - 1 + L - 1) / L * L

/-- `a = np.full([n], PAD); a[:len(l)] = l`. -/
def padTo (n : Nat) (l : List Nat) : List Nat := l ++ List.replicate (n - l.length) PAD

/-- `reshape([-1, L])` of a flat array holding `n` rows. -/
def rows : Nat → Nat → List Nat → List (List Nat)
  | 0, _, _ => []
  | n + 1, L, l => l.take L :: rows n L (l.drop L)

/-- `(x, y)` of `preprocess_client`. -/
def preprocess (table : Nat → Nat) (L : Nat) (snips : List (List Nat)) :
    List (List Nat) × List (List Nat) :=
  let j := joined table snips
  let P := paddedLength j.length L
  (rows (P / L) L (padTo P j.dropLast), rows (P / L) L (padTo P j.tail))

/-- Observation used by the property: remove the trailing padding of a flat label array. -/
def stripPad (l : List Nat) : List Nat := (l.reverse.dropWhile (· == PAD)).reverse

/-- The hypothesis of the tokeniser theorems on a concrete 256-entry table (checked by the driver
on the real `TABLE`). -/
def tableOk (t : List Nat) (V : Nat) : Bool :=
  t.length == 256 && t.all (fun v => 3 ≤ v && v < V)

end FedjaxVerif.Shakespeare
