/-
Label-id conventions shared by a packaged tokeniser and its packaged model.

`DatasetIds` are the ids the dataset module produces (constants cross-checked by the harness
against real tokeniser output); `ModelIds` are what the harness introspects from the real model
object: output width and, per eval metric, `masked_target_values`, the `-inf` positions and the
length of `logits_mask`, `oov_target_values`, `eos_target_value`.  `labelsAgree` is the decidable
agreement predicate the driver evaluates.  Core Lean only.
-/

namespace FedjaxVerif.Labels

structure DatasetIds where
  pad : Nat
  bos : Nat
  eos : Nat
  oov : List Nat
  vocab : Nat

structure MetricIds where
  masked : List Nat
  /-- `(len(logits_mask), positions holding -inf)` -/
  logitsMask : Option (Nat × List Nat)
  oov : Option (List Nat)
  eos : Option Nat

structure ModelIds where
  width : Nat
  metrics : List MetricIds

def isSpecial (d : DatasetIds) (v : Nat) : Bool :=
  v == d.pad || v == d.bos || v == d.eos || d.oov.contains v

def metricAgrees (d : DatasetIds) (m : MetricIds) : Bool :=
  m.masked.contains d.pad
  && m.masked.all (isSpecial d)
  && (match m.logitsMask with
      | none => true
      | some (w, s) => w == d.vocab && s.all (isSpecial d))
  && (match m.oov with
      | none => true
      | some o => o.all (d.oov.contains ·) && d.oov.all (o.contains ·))
  && (match m.eos with
      | none => true
      | some e => e == d.eos)

def labelsAgree (d : DatasetIds) (m : ModelIds) : Bool :=
  m.width == d.vocab && m.metrics.all (metricAgrees d)

end FedjaxVerif.Labels
