/-
Model of `fedjax/training/federated_experiment.py::run_federated_experiment`,
`fedjax/training/checkpoint.py` and `fedjax/core/serialization.py::save_state/load_state` (C09).

The experiment directory is a list `FS` of `(name, content)`:
  * names `ckpt r` (`checkpoint_<8-digit r>`), `tmp r` (the temp name a checkpoint is written under
    before it is renamed; it does not match the 8-digit regex), `tsv e` (`<eval e>.tsv`);
  * contents `full s` (complete pickle of state `s`), `part s k` (a proper prefix of it — the `k`-th
    one a write passes through), `out e s r` / `outPart e s r k` (metrics of final evaluation `e`
    on `(s, r)`, complete / truncated).
The algorithm and the client sampler are abstract: `alg.F s r` is the state after one round applied to
`s` with the clients the (round-indexed) sampler returns for round `r`.

One invocation of `run_federated_experiment` is compiled to the list of its atomic effects, following
the source:  load latest checkpoint (glob, numeric sort, last) · `set_round_num(start)` ·
`round_num = start - 1` · `for round_num in range(start, num_rounds + 1)`: sample, apply,
maybe `save_checkpoint` (write temp in chunks, rename, re-read the listing, remove all but the
newest `keep`), maybe evaluate, log · final evaluation with `round_num`, `.tsv` written in place.
A crash executes a prefix of the effects.  This is the protocol the property demands
(temp + rename; `round_num` initialised before the loop).
Core Lean only.
-/

namespace FedjaxVerif.Experiment

inductive Name
  | ckpt (r : Nat)
  | tmp (r : Nat)
  | tsv (e : Nat)
deriving DecidableEq, Repr

inductive Content (σ : Type)
  | full (s : σ)
  | part (s : σ) (k : Nat)
  | out (e : Nat) (s : σ) (r : Nat)
  | outPart (e : Nat) (s : σ) (r : Nat) (k : Nat)
deriving DecidableEq, Repr

abbrev FS (σ : Type) := List (Name × Content σ)

variable {σ : Type}

def FS.get (fs : FS σ) (n : Name) : Option (Content σ) := (fs.find? (fun p => p.1 = n)).map (·.2)
def FS.remove (fs : FS σ) (n : Name) : FS σ := fs.filter (fun p => p.1 ≠ n)
def FS.write (fs : FS σ) (n : Name) (c : Content σ) : FS σ := (n, c) :: fs.remove n

def ckptOf : Name → Option Nat
  | .ckpt r => some r
  | _ => none

/-- rounds of the files matching `checkpoint_[0-9]{8}$` (directory order) -/
def FS.ckpts (fs : FS σ) : List Nat := fs.filterMap fun p => ckptOf p.1

inductive Eff (σ : Type)
  | step                               -- no file-system change: sample, apply, evaluate, log, glob, read
  | write (n : Name) (c : Content σ)   -- file `n` now has content `c` (created / truncated / extended)
  | rename (a b : Name)                -- atomic, replaces `b`
  | remove (n : Name)
deriving Repr

def applyEff (fs : FS σ) : Eff σ → FS σ
  | .step => fs
  | .write n c => fs.write n c
  | .rename a b => match fs.get a with
      | some c => (fs.remove a).write b c
      | none => fs
  | .remove n => fs.remove n

def applyEffs (fs : FS σ) (es : List (Eff σ)) : FS σ := es.foldl applyEff fs

structure Alg (σ : Type) where
  init : σ
  F : σ → Nat → σ

structure Cfg where
  numRounds : Nat
  freq : Nat        -- checkpoint_frequency (0: never)
  keep : Nat        -- num_checkpoints_to_keep
  evalFreq : Nat    -- eval_frequency (0: never)
  chunks : Nat      -- proper-prefix states a checkpoint write passes through
  nFinal : Nat      -- number of final evaluation functions
  tsvChunks : Nat   -- proper-prefix states a `.tsv` write passes through
deriving Repr

def insertSorted (x : Nat) : List Nat → List Nat
  | [] => [x]
  | y :: ys => if x ≤ y then x :: y :: ys else y :: insertSorted x ys

/-- `sorted(paths, key=int(suffix))` (insertion sort: structural, so it evaluates in the kernel) -/
def sortNat (l : List Nat) : List Nat := l.foldr insertSorted []

inductive Loaded (σ : Type)
  | fresh                      -- no checkpoint: `load_latest_checkpoint` returns None
  | ok (s : σ) (r : Nat)
  | corrupt                    -- `pickle.load` raises
deriving DecidableEq, Repr

/-- `load_latest_checkpoint`: numerically last of the matching names, unpickled. -/
def load (fs : FS σ) : Loaded σ :=
  match (sortNat fs.ckpts).getLast? with
  | none => .fresh
  | some r => match fs.get (.ckpt r) with
    | some (.full s) => .ok s r
    | _ => .corrupt

/-- a file written in `chunks + 1` pieces -/
def writeEffs (n : Name) (parts : Nat → Content σ) (whole : Content σ) (chunks : Nat) : List (Eff σ) :=
  (List.range chunks).map (fun k => Eff.write n (parts k)) ++ [Eff.write n whole]

/-- `save_checkpoint(root_dir, state, round_num, keep)` -/
def saveEffs (cfg : Cfg) (fs : FS σ) (r : Nat) (s : σ) : List (Eff σ) :=
  let w := writeEffs (.tmp r) (fun k => .part s k) (.full s) cfg.chunks ++ [Eff.rename (.tmp r) (.ckpt r)]
  let all := sortNat (applyEffs fs w).ckpts                 -- `_get_checkpoint_paths` after the save
  let dels := if cfg.keep = 0 then [] else all.take (all.length - cfg.keep)     -- `[:-keep]`
  w ++ [Eff.step] ++ dels.map (fun q => Eff.remove (.ckpt q))

structure LoopSt (σ : Type) where
  s : σ                    -- `state`
  fs : FS σ                -- directory as this invocation has left it so far
  samp : Nat               -- round number held by the client sampler
  roundNum : Nat           -- the variable `round_num`
  effs : List (Eff σ)      -- effects emitted so far

def shouldSave (cfg : Cfg) (start r : Nat) : Bool :=
  decide (cfg.freq ≠ 0) && (decide (r = start) || decide (r % cfg.freq = 0))

def shouldEval (cfg : Cfg) (start r : Nat) : Bool :=
  decide (cfg.evalFreq ≠ 0) && (decide (r = start) || decide (r % cfg.evalFreq = 0))

/-- body of `for round_num in range(start_round_num, config.num_rounds + 1)` -/
def roundBody (alg : Alg σ) (cfg : Cfg) (start : Nat) (st : LoopSt σ) (r : Nat) : LoopSt σ :=
  let s' := alg.F st.s st.samp                      -- clients = sampler.sample(); state = apply(state, clients)
  let se := if shouldSave cfg start r then saveEffs cfg st.fs r s' else []
  let ee := if shouldEval cfg start r then [Eff.step] else []
  { s := s', fs := applyEffs st.fs se, samp := st.samp + 1, roundNum := r,
    effs := st.effs ++ [Eff.step, Eff.step] ++ se ++ ee ++ [Eff.step] }

/-- one final evaluation: evaluate, then write `<e>.tsv` in place -/
def tsvEffs (e : Nat) (s : σ) (r : Nat) (chunks : Nat) : List (Eff σ) :=
  Eff.step :: writeEffs (.tsv e) (fun k => .outPart e s r k) (.out e s r) chunks

def finalEffs (cfg : Cfg) (s : σ) (r : Nat) : List (Eff σ) :=
  (List.range cfg.nFinal).flatMap fun e => tsvEffs e s r cfg.tsvChunks

structure Plan (σ : Type) where
  effs : List (Eff σ)
  state : σ          -- returned state
  evalRound : Nat    -- round number handed to the final evaluation functions

/-- everything after `load_latest_checkpoint` returned `(s, start - 1)` -/
def runFrom (alg : Alg σ) (cfg : Cfg) (fs : FS σ) (s : σ) (start : Nat) : Plan σ :=
  let st0 : LoopSt σ := ⟨s, fs, start, start - 1, [Eff.step, Eff.step]⟩
  let st := (List.range' start (cfg.numRounds + 1 - start)).foldl (roundBody alg cfg start) st0
  ⟨st.effs ++ finalEffs cfg st.s st.roundNum, st.s, st.roundNum⟩

/-- one invocation from directory `fs`; `none`: it dies while loading the latest checkpoint -/
def plan (alg : Alg σ) (cfg : Cfg) (fs : FS σ) : Option (Plan σ) :=
  match load fs with
  | .corrupt => none
  | .fresh => some (runFrom alg cfg fs alg.init 1)
  | .ok s r => some (runFrom alg cfg fs s (r + 1))

/-- the invocation is interrupted after `c` effects -/
def crashAt (alg : Alg σ) (cfg : Cfg) (fs : FS σ) (c : Nat) : FS σ :=
  match plan alg cfg fs with
  | none => fs
  | some p => applyEffs fs (p.effs.take c)

structure Result (σ : Type) where
  state : σ
  evalRound : Nat
  fs : FS σ

/-- the invocation runs to completion -/
def runAll (alg : Alg σ) (cfg : Cfg) (fs : FS σ) : Option (Result σ) :=
  (plan alg cfg fs).map fun p => ⟨p.state, p.evalRound, applyEffs fs p.effs⟩

/-- a sequence of interrupted invocations -/
def crashes (alg : Alg σ) (cfg : Cfg) (cs : List Nat) (fs : FS σ) : FS σ :=
  cs.foldl (crashAt alg cfg) fs

/-- state after `r` rounds of an uninterrupted run -/
def S (alg : Alg σ) : Nat → σ
  | 0 => alg.init
  | r + 1 => alg.F (S alg r) (r + 1)

end FedjaxVerif.Experiment
