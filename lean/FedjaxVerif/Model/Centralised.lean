import FedjaxVerif.Model.Batching

/-
Model of the centralised streams over many clients (C15):

  * `padded_batch_client_datasets` (client_datasets.py)  ↦ `stepDataset` (one turn of the
    `for dataset in datasets` loop, same comparisons: `buf_size + size < bs`, `if buf`,
    `while start + bs < size`, `if start < size`), `finish` (the final padded batch),
    `multiBatch`; with the preprocessor / feature-set checks: `checkedLoop`, `multiBatchChecked`.
  * `buffered_shuffle`                                   ↦ `bufferedShuffle` (`swap0`, `bshufLoop`)
  * `buffered_shuffle_batch_client_datasets`             ↦ `chunkLoop`, `shuffleBatch`
  * `FederatedData.shuffled_clients`                     ↦ `shuffledClients`
  * `RepeatableIterator` (federated_data.py)             ↦ `RepIter`, `RepIter.next`, `RepIter.nexts`

Externals: numpy's `rng.shuffle(buf)` enters as `shuf : List α → List α` (the buffer after the
shuffle), `rng.randint(buffer_size)` as the list `swaps` of draws.  `buf` is a Python list of
*pieces*; `if buf:` tests the list, so a buffer holding only empty pieces counts as non-empty —
the model keeps the pieces for that reason.  The source comment "Invariant: buf_size < batch_size"
is false (a client of exactly `batch_size` rows arriving at an empty buffer is buffered whole);
the true invariant `≤` is `C15_buf_invariant`.
Core Lean only (no Mathlib): this file is linked into the driver executable.
-/

namespace FedjaxVerif.Centralised
open FedjaxVerif.Batching

/-! ### padded_batch_client_datasets -/

structure MState (α : Type) where
  buf : List (List α)
  bufSize : Nat
  out : List (List α)

def MState.init {α} : MState α := { buf := [], bufSize := 0, out := [] }

/-- `while start + bs < size: yield examples[start:start+bs]; start += bs` -/
def emitFull {α} (bs : Nat) (xs : List α) : Nat → Nat → List (List α) × Nat
  | 0, start => ([], start)
  | fuel+1, start =>
    if start + bs < xs.length then
      let r := emitFull bs xs fuel (start + bs)
      ((xs.drop start).take bs :: r.1, r.2)
    else ([], start)

/-- one turn of `for dataset in datasets` (after the consistency checks) -/
def stepDataset {α} (bs : Nat) (st : MState α) (xs : List α) : MState α :=
  let size := xs.length
  if st.bufSize + size < bs then
    { st with buf := st.buf ++ [xs], bufSize := st.bufSize + size }
  else
    let start := if st.buf.isEmpty then 0 else bs - st.bufSize
    let out1 := if st.buf.isEmpty then st.out else st.out ++ [(st.buf ++ [xs.take start]).flatten]
    let r := emitFull bs xs (size + 1) start
    if r.2 < size then
      { buf := [xs.drop r.2], bufSize := size - r.2, out := out1 ++ r.1 }
    else { buf := [], bufSize := 0, out := out1 ++ r.1 }

/-- full batches carry `full_mask`; after the loop `if buf:` the rest is padded by the bucket rule.
`none` = `pad_examples` would raise. -/
def finish {α} (bs B : Nat) (z : α) (st : MState α) : Option (List (List α × List Bool)) :=
  let full := st.out.map fun b => (b, List.replicate bs true)
  if st.buf.isEmpty then some full
  else (padTo z (pickFinal st.bufSize bs B) st.buf.flatten).map fun p => full ++ [p]

def multiBatch {α} (bs B : Nat) (z : α) (dsets : List (List α)) : Option (List (List α × List Bool)) :=
  finish bs B z (dsets.foldl (stepDataset bs) MState.init)

/-- a client dataset as the consistency checks see it: identity of the preprocessor object,
feature set (canonical id), rows -/
structure DS (α : Type) where
  pre : Nat
  feats : Nat
  rows : List α

structure CState (α : Type) where
  pre : Option Nat
  feats : Option Nat
  st : MState α

/-- `dataset.preprocessor is not preprocessor` / `features != set(dataset.raw_examples)`;
`none` = nothing remembered yet -/
def mismatch (seen : Option Nat) (x : Nat) : Bool :=
  match seen with
  | none => false
  | some p => x != p

/-- the `for` loop with its two checks; returns the state reached and whether a `ValueError`
ended the stream (the batches of `st.out` were already yielded when it is raised) -/
def checkedLoop {α} (bs : Nat) : CState α → List (DS α) → MState α × Bool
  | c, [] => (c.st, false)
  | c, d :: ds =>
    if mismatch c.pre d.pre then (c.st, true)
    else if mismatch c.feats d.feats then (c.st, true)
    else checkedLoop bs { pre := some (c.pre.getD d.pre), feats := some (c.feats.getD d.feats),
                          st := stepDataset bs c.st d.rows } ds

/-- `padded_batch_client_datasets`: `(batches yielded, ended by ValueError?)`;
`none` = `pad_examples` would raise -/
def multiBatchChecked {α} (bs B : Nat) (z : α) (ds : List (DS α)) :
    Option (List (List α × List Bool) × Bool) :=
  let r := checkedLoop bs { pre := none, feats := none, st := MState.init } ds
  if r.2 then some (r.1.out.map fun b => (b, List.replicate bs true), true)
  else (finish bs B z r.1).map fun v => (v, false)

/-! ### buffered_shuffle -/

/-- `buf[swap], buf[0] = buf[0], buf[swap]` (no-op for `swap = 0`; out of range would be an
`IndexError`, the model leaves the buffer unchanged) -/
def swap0 {α} (buf : List α) (s : Nat) : List α :=
  match buf, s with
  | a :: tl, s+1 =>
    match tl[s]? with
    | some x => x :: tl.set s a
    | none => a :: tl
  | buf, _ => buf

/-- `for i in it: r, buf[0] = buf[0], i; swap = rng.randint(B); if swap < B-1: swap; yield r`
then `for i in buf: yield i`.  A missing draw counts as `0`. -/
def bshufLoop {α} (B : Nat) : List α → List α → List Nat → List α
  | buf, [], _ => buf
  | buf, i :: rest, swaps =>
    match buf with
    | [] => []          -- `buf[0]` raises IndexError (buffer_size = 0)
    | r :: tl =>
      let s := swaps.headD 0
      let buf1 := i :: tl
      let buf2 := if s < B - 1 then swap0 buf1 s else buf1
      r :: bshufLoop B buf2 rest swaps.tail

/-- `buffered_shuffle(source, B, rng)`: `shuf` = what `rng.shuffle` makes of the first `B` items -/
def bufferedShuffle {α} (B : Nat) (shuf : List α → List α) (swaps : List Nat) (src : List α) : List α :=
  bshufLoop B (shuf (src.take B)) (src.drop B) swaps

/-! ### buffered_shuffle_batch_client_datasets -/

/-- `buf.append(item); if len(buf) == bs: yield buf; buf.clear()` … `if buf: yield buf` -/
def chunkLoop {α} (bs : Nat) : List α → List α → List (List α)
  | buf, [] => if buf.isEmpty then [] else [buf]
  | buf, x :: xs =>
    let buf' := buf ++ [x]
    if buf'.length = bs then buf' :: chunkLoop bs [] xs else chunkLoop bs buf' xs

/-- all `(dataset, i)` items in client order and example order, shuffled through the buffer,
batched; the final batch may be smaller (no padding here) -/
def shuffleBatch {α} (bs B : Nat) (shuf : List α → List α) (swaps : List Nat)
    (dsets : List (List α)) : List (List α) :=
  chunkLoop bs [] (bufferedShuffle B shuf swaps dsets.flatten)

/-! ### shuffled_clients -/

/-- `while True: yield from buffered_shuffle(self.clients(), B, rng)`: the first `passes` passes;
pass `p` uses the oracle's `p`-th shuffle and draws -/
def shuffledClients {α} (B : Nat) (shuf : Nat → List α → List α) (swaps : Nat → List Nat)
    (clients : List α) (passes : Nat) : List α :=
  (List.range passes).flatMap fun p => bufferedShuffle B (shuf p) (swaps p) clients

/-! ### RepeatableIterator -/

/-- `_first_pass`, the items `_iter` has still to produce, `_buf` -/
structure RepIter (α : Type) where
  firstPass : Bool
  iter : List α
  buf : List α

/-- general iterable: copy during the first pass -/
def RepIter.ofIterable {α} (base : List α) : RepIter α := { firstPass := true, iter := base, buf := [] }
/-- list / tuple / dict / str / bytes: replayed without copying (`_buf` is the container itself) -/
def RepIter.ofContainer {α} (base : List α) : RepIter α := { firstPass := false, iter := base, buf := base }

/-- `__next__`; `none` = `StopIteration` -/
def RepIter.next {α} (s : RepIter α) : Option α × RepIter α :=
  match s.iter with
  | [] => (none, { firstPass := false, iter := s.buf, buf := s.buf })
  | v :: rest => (some v, { s with iter := rest, buf := if s.firstPass then s.buf ++ [v] else s.buf })

/-- `k` successive `next` calls -/
def RepIter.nexts {α} : Nat → RepIter α → List (Option α)
  | 0, _ => []
  | k+1, s => let r := s.next; r.1 :: RepIter.nexts k r.2

end FedjaxVerif.Centralised
