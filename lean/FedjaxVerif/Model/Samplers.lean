/-
Model of `fedjax/core/client_samplers.py` (C13).

  * `get_pseudo_random_state(seed, round)`:
      `RandomState(pow(16807, round, 2**31-1) * mlcg_start % (2**31-1))`
    ↦ `lehmer start round` (`start = RandomState(seed).randint(1, 2**31-2)` is an input).
    Python's three-argument `pow` ↦ `powMod` (square-and-multiply, fuel = 64 bits is never the
    limit for the driver; the theorems go through `lehmer_eq`, valid for every round).
  * `UniformGetClientSampler` ↦ state = round number; ops `sample`, `setRound r`, `failedSample`
    (a `sample()` whose dataset loading raised: `_round_num += 1` is the last statement, so the
    state is unchanged).
    numpy's `choice`, jax's `split(PRNGKey(round), n)` and `get_clients` are oracles.
  * `UniformShuffledClientSampler` ↦ state = (position in the client stream, round number); the
    constructor's nested seek loop is `seek`.
Core Lean only (no Mathlib): this file is linked into the driver executable.
-/

namespace FedjaxVerif.Samplers

/-- `mlcg_modulus = 2**31 - 1` -/
def P : Nat := 2147483647
/-- `mlcg_multiplier` -/
def G : Nat := 16807

/-- `pow(b, e, m)` by square-and-multiply on the bits of `e`; `fuel` bounds the number of bits. -/
def powModF : Nat → Nat → Nat → Nat → Nat
  | 0, _, _, m => 1 % m
  | fuel+1, b, e, m =>
    if e = 0 then 1 % m
    else
      let h := powModF fuel (b * b % m) (e / 2) m
      if e % 2 = 1 then b * h % m else h

/-- `pow(b, e, m)`; `e.log2 + 1` bits are enough (`powMod_eq` in Props/C13). -/
def powMod (b e m : Nat) : Nat := powModF (e.log2 + 1) b e m

/-- the numpy seed of round `r`: `pow(16807, r, P) * start % P`. -/
def lehmer (start r : Nat) : Nat := powMod G r P * start % P

/-! ### round-indexed sampler (`UniformGetClientSampler`) -/

/-- externals of the sampler:
`choice s n`  = `RandomState(s).choice(np.array(ids, dtype=object), size=n, replace=False)`,
`keys r n`    = `jax.random.split(jax.random.PRNGKey(r), n)`,
`data id`     = the dataset `get_clients` yields for `id`. -/
structure Oracles (Id D K : Type) where
  choice : Nat → Nat → List Id
  keys : Nat → Nat → List K
  data : Id → D

/-- the return value of `sample()` at round `r`:
`[(id, dataset, rngs[i]) for i, (id, dataset) in enumerate(get_clients(choice))]`. -/
def cohort {Id D K} (o : Oracles Id D K) (start n r : Nat) : List (Id × D × K) :=
  ((o.choice (lehmer start r) n).zip (o.keys r n)).map fun p => (p.1, o.data p.1, p.2)

inductive Op where
  | sample
  | setRound (r : Nat)
  /-- a `sample()` call that raised while the datasets were being loaded (`get_clients` is an
  external that may fail): it hands out nothing, so it must not consume the round. -/
  | failedSample
deriving Repr

/-- one method call on a sampler whose `_round_num` is `round`:
new round number and the value returned (`none` for `set_round_num`). -/
def step {Id D K} (o : Oracles Id D K) (start n : Nat) (round : Nat) :
    Op → Nat × Option (List (Id × D × K))
  | .sample => (round + 1, some (cohort o start n round))
  | .setRound r => (r, none)
  | .failedSample => (round, none)

/-- a history of calls starting at `_round_num = round`: final round number and all returned values. -/
def run {Id D K} (o : Oracles Id D K) (start n : Nat) :
    Nat → List Op → Nat × List (Option (List (Id × D × K)))
  | round, [] => (round, [])
  | round, op :: ops =>
    let s := step o start n round op
    let r := run o start n s.1 ops
    (r.1, s.2 :: r.2)

/-! ### streaming sampler (`UniformShuffledClientSampler`) -/

/-- state of the streaming sampler: how many items of the client stream were consumed, and
`_round_num`. -/
structure SState where
  pos : Nat
  round : Nat
deriving Repr

/-- inner loop of the constructor: `for _ in range(n): next(it)`. -/
def seekInner : Nat → Nat → Nat
  | 0, pos => pos
  | k+1, pos => seekInner k (pos + 1)

/-- outer loop of the constructor: `for _ in range(start_round_num): <inner>`. -/
def seek (n : Nat) : Nat → Nat → Nat
  | 0, pos => pos
  | k+1, pos => seek n k (seekInner n pos)

/-- `UniformShuffledClientSampler(it, n, start_round_num)` on a fresh iterator. -/
def SState.init (n startRound : Nat) : SState := ⟨seek n startRound 0, startRound⟩

/-- the `for i in range(n): next(it)` loop of `sample`: stream positions consumed, in order. -/
def takePos : Nat → Nat → List Nat
  | 0, _ => []
  | k+1, pos => pos :: takePos k (pos + 1)

/-- `sample()` over the client stream `s`: returned cohort and new state. -/
def SState.sample {C K} (s : Nat → C) (keys : Nat → Nat → List K) (n : Nat) (st : SState) :
    List (C × K) × SState :=
  (((takePos n st.pos).map s).zip (keys st.round n), ⟨st.pos + n, st.round + 1⟩)

/-- `k` successive `sample()` calls; all returned cohorts and the final state. -/
def SState.samples {C K} (s : Nat → C) (keys : Nat → Nat → List K) (n : Nat) :
    Nat → SState → List (List (C × K)) × SState
  | 0, st => ([], st)
  | k+1, st =>
    let r := st.sample s keys n
    let rest := SState.samples s keys n k r.2
    (r.1 :: rest.1, rest.2)

end FedjaxVerif.Samplers
