/-
Models for C17 that are not part of the FedAvg-reduction family:
  * `agnostic_fed_avg.py` — domain weights (exponentiated gradient + renormalisation), sliding
    window of per-domain counts, scaling weights α / β, the round;
  * `optimizers.ignore_grads_haiku`.

Agnostic FedAvg is modelled **as repaired**: `α = safe_div(weights, mean(window))` and the scaled
loss divides by β with `safe_div` (the unchanged code divides unguarded: a domain without examples
in the whole window gives α = inf, β = NaN/inf and NaN parameters one round later).

Externals: `e : Rat → Rat` is `exp` (only positivity is used), `dloss` the per-domain loss sums the
evaluation pass computes for a client, `gradAB α β` the gradient of the scaled loss, optimizers.
Core Lean only.
-/
import FedjaxVerif.Model.FedAvg

namespace FedjaxVerif.Invariants
open FedjaxVerif.FedAvg

/-- `util.safe_div` -/
def safeDiv (a b : Rat) : Rat := if b = 0 then 0 else a / b

/-- `jnp.mean(jnp.asarray(window), axis=0)` for `D` domains (the window is never empty: its length
is the constant `domain_window_size ≥ 1`, theorem `C17_window`) -/
def colMean (window : List (List Rat)) (D : Nat) : List Rat :=
  (List.range D).map fun i => (window.map fun r => r.getD i 0).sum / (window.length : Rat)

/-- α: domain weights divided by the average per-domain count over the window (guarded) -/
def alpha (weights : List Rat) (window : List (List Rat)) : List Rat :=
  List.zipWith safeDiv weights (colMean window weights.length)

/-- β of a client: `sum(alpha * domain_num)` -/
def beta (al : List Rat) (dnum : List Rat) : Rat := (List.zipWith (· * ·) al dnum).sum

/-- `update_domain_weights(..., 'eg')`: `w·exp(η·L)`, clamped at 0, renormalised; `none` = the sum
is 0 and the float quotient is NaN -/
def updateWeights (w es : List Rat) : Option (List Rat) :=
  let u := (List.zipWith (· * ·) w es).map fun x => if x < 0 then 0 else x
  let t := u.sum
  if t = 0 then none else some (u.map (· / t))

/-- `domain_window[1:] + [sum_domain_num]` -/
def shiftWindow (window : List (List Rat)) (counts : List Rat) : List (List Rat) :=
  window.drop 1 ++ [counts]

def vsum (D : Nat) (vs : List (List Rat)) : List Rat :=
  (List.range D).map fun i => (vs.map fun v => v.getD i 0).sum

/-- a client of agnostic FedAvg: FedAvg client + what the domain-metrics pass needs -/
structure AClient (ι β γ : Type) extends Client ι β where
  evalData : γ
  dnum : List Rat        -- number of examples per domain

structure AgState (σs : Type) where
  params : P
  opt : σs
  weights : List Rat
  window : List (List Rat)

section
variable {β γ σc σs ι : Type}

/-- weighted running sums with real-valued weights (β instead of example counts) -/
def accumulateW (weight : ι → Rat) (zero : P) (results : List (ι × P)) : P × Rat :=
  results.foldl (fun acc r => (vadd acc.1 (vscale (weight r.1) r.2), acc.2 + weight r.1)) (zero, 0)

/-- `agnostic_federated_averaging(...).apply` with `domain_algorithm='eg'`; `none` = raises (empty
cohort) or non-finite weights -/
def agRound [DecidableEq ι] (e : Rat → Rat) (eta : Rat) (dloss : P → γ → Key → List Rat)
    (gradAB : List Rat → Rat → P → β → Key → P) (copt : Optimizer σc) (sopt : Optimizer σs)
    (s : AgState σs) (clients : List (AClient ι β γ)) : Option (AgState σs) :=
  let D := s.weights.length
  let al := alpha s.weights s.window
  -- first pass: L^k, N^k, β^k (a dict keyed by client id)
  let betaOf : ι → Rat := fun cid =>
    match clients.reverse.find? (fun c => c.id = cid) with
    | some c => beta al c.dnum
    | none => 0
  let results := clients.map fun c =>
    (c.id, clientDelta (gradAB al (betaOf c.id)) copt s.params c.batches c.key)
  let acc := accumulateW betaOf (vzero s.params) results
  let mean := inverseWeight acc.1 acc.2
  match clients with
  | [] => none
  | _ =>
    let sumLoss := vsum D (clients.map fun c => dloss s.params c.evalData c.key)
    let sumNum := vsum D (clients.map fun c => c.dnum)
    let meanLoss := List.zipWith safeDiv sumLoss sumNum
    let (opt, params) := sopt.apply mean s.opt s.params
    match updateWeights s.weights (meanLoss.map fun l => e (eta * l)) with
    | none => none
    | some w' => some { params := params, opt := opt, weights := w', window := shiftWindow s.window sumNum }

def agRounds [DecidableEq ι] (e : Rat → Rat) (eta : Rat) (dloss : P → γ → Key → List Rat)
    (gradAB : List Rat → Rat → P → β → Key → P) (copt : Optimizer σc) (sopt : Optimizer σs)
    (s : AgState σs) (cohorts : List (List (AClient ι β γ))) : Option (AgState σs) :=
  cohorts.foldlM (agRound e eta dloss gradAB copt sopt) s

end

/-! ## `optimizers.ignore_grads_haiku` -/

/-- haiku params: `(module, name) ↦ value` -/
abbrev Tree (ν : Type) := List (ν × P)

/-- an optimizer over such trees -/
structure TOptimizer (ν σ : Type) where
  init : Tree ν → σ
  apply : Tree ν → σ → Tree ν → σ × Tree ν

section
variable {ν σ : Type} [DecidableEq ν]

/-- `hk.data_structures.map(non_trainable_to_none, tree)`: the named entries become `None`, i.e.
are no leaves any more -/
def maskTree (names : List ν) (t : Tree ν) : Tree ν := t.filter fun e => !(names.contains e.1)

def ignoreInit (base : TOptimizer ν σ) (names : List ν) (params : Tree ν) : σ :=
  base.init (maskTree names params)

/-- `apply`: base optimizer on the masked trees, then the non-trainable entries are set back to
their original values; `none` = KeyError (a listed name that is not a parameter) -/
def ignoreApply (base : TOptimizer ν σ) (names : List ν) (grads : Tree ν) (st : σ) (params : Tree ν) :
    Option (σ × Tree ν) :=
  if names.all (fun n => (params.lookup n).isSome) then
    let r := base.apply (maskTree names grads) st (maskTree names params)
    some (r.1, (params.filter fun e => names.contains e.1) ++ (r.2.filter fun e => !(names.contains e.1)))
  else none

end

end FedjaxVerif.Invariants
