/-
Model of the mergeable statistics of `fedjax/core/metrics.py` (`MeanStat`, `SumStat`), of
`evaluate_batch` (vmap → replace masked rows by `zero()` → `reduce`) and of
`fedjax/core/models.py` `_evaluate_model_step` / `evaluate_model` / `ModelEvaluator`
(fold of `merge` over the batches starting from `zero()`, default all-true mask).

Exact arithmetic over core `Rat` (every finite float is a rational).  Statistics of higher rank
(per-position, per-domain, confusion matrix) are flattened row-major into lists and handled
pointwise by `vecOps`.  Core Lean only.
-/

namespace FedjaxVerif.Stats

/-! ## MeanStat -/

structure MeanStat where
  accum : Rat
  weight : Rat
deriving DecidableEq, Repr, Inhabited

namespace MeanStat

/-- `MeanStat.new`: `weight = max(0, w)`, `accum = where(weight == 0, 0, a)`. -/
def new (a w : Rat) : MeanStat :=
  let w' := max 0 w
  ⟨if w' = 0 then 0 else a, w'⟩

/-- every built-in mean metric's `zero()` is `MeanStat.new(0., 0.)`. -/
def zero : MeanStat := new 0 0

/-- `merge`: add, then sanitise. -/
def merge (s t : MeanStat) : MeanStat := new (s.accum + t.accum) (s.weight + t.weight)

/-- `reduce(axis=0)` of a rank-1 statistic: sum, then sanitise. -/
def reduce (l : List MeanStat) : MeanStat :=
  new (l.map (·.accum)).sum (l.map (·.weight)).sum

/-- `result = util.safe_div(accum, weight)`: `0` when the weight is `0`. -/
def result (s : MeanStat) : Rat := if s.weight ≠ 0 then s.accum / s.weight else 0

/-- The documented domain `{(0,0)} ∪ {(a,b) | b > 0}`. -/
def Valid (s : MeanStat) : Prop := (s.accum = 0 ∧ s.weight = 0) ∨ 0 < s.weight

end MeanStat

/-! ## SumStat -/

structure SumStat where
  accum : Rat
deriving DecidableEq, Repr, Inhabited

namespace SumStat
def new (a : Rat) : SumStat := ⟨a⟩
def zero : SumStat := new 0
def merge (s t : SumStat) : SumStat := new (s.accum + t.accum)
def reduce (l : List SumStat) : SumStat := new (l.map (·.accum)).sum
def result (s : SumStat) : Rat := s.accum
end SumStat

/-! ## The three operations every `Stat`/`Metric` pair offers -/

structure StatOps (σ : Type) where
  zero : σ
  merge : σ → σ → σ
  reduce : List σ → σ

def meanOps : StatOps MeanStat := ⟨MeanStat.zero, MeanStat.merge, MeanStat.reduce⟩
def sumOps : StatOps SumStat := ⟨SumStat.zero, SumStat.merge, SumStat.reduce⟩

/-- A statistic whose leaves have `n` entries (shape flattened): `zero` is broadcast, `merge` is
elementwise, `reduce(axis=0)` reduces every column. -/
def vecOps {σ : Type} (n : Nat) (o : StatOps σ) : StatOps (List σ) where
  zero := List.replicate n o.zero
  merge a b := List.zipWith o.merge a b
  reduce l := (List.range n).map fun i => o.reduce (l.map fun v => v.getD i o.zero)

/-! ## evaluate_batch / evaluate_model -/

/-- `tree_map(apply_mask(mask), vmap(evaluate_example)(rows), zero())`. -/
def maskRows {σ ε : Type} (o : StatOps σ) (f : ε → σ) (rows : List ε) (mask : List Bool) : List σ :=
  List.zipWith (fun r b => if b then f r else o.zero) rows mask

/-- `metrics.evaluate_batch(metric, batch, pred, mask)`; `f` is `metric.evaluate_example`. -/
def evalBatch {σ ε : Type} (o : StatOps σ) (f : ε → σ) (rows : List ε) : Option (List Bool) → σ
  | none => o.reduce (rows.map f)
  | some m => o.reduce (maskRows o f rows m)

/-- `_evaluate_model_step`: a batch without the mask feature gets an all-true mask; the batch
statistic is merged into the running one. -/
def evalStep {σ ε : Type} (o : StatOps σ) (f : ε → σ) (stat : σ) (batch : List ε × Option (List Bool)) : σ :=
  let m := batch.2.getD (List.replicate batch.1.length true)
  o.merge stat (evalBatch o f batch.1 (some m))

/-- `evaluate_model` / `ModelEvaluator`: fold from `zero()`; the caller applies `result`. -/
def evalModel {σ ε : Type} (o : StatOps σ) (f : ε → σ) (batches : List (List ε × Option (List Bool))) : σ :=
  batches.foldl (evalStep o f) o.zero

/-- the rows of a batch that are real examples -/
def unmasked {ε : Type} (rows : List ε) (mask : List Bool) : List ε :=
  (rows.zip mask).filterMap fun p => if p.2 then some p.1 else none

end FedjaxVerif.Stats
