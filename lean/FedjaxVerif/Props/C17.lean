import FedjaxVerif.Model.Algorithms
import FedjaxVerif.Model.Invariants
import FedjaxVerif.Props.C01
import FedjaxVerif.Props.C12
import Mathlib.Algebra.Order.Field.Rat
import Mathlib.Tactic.Ring
import Mathlib.Tactic.Linarith
import Mathlib.Tactic.FieldSimp
import Mathlib.Tactic.Positivity
import Mathlib.Data.List.Nodup

/-!
# C17 — algorithm-specific invariants along every training history

Agnostic FedAvg (simplex, window, α/β), APFL (coefficients in [0,1], client table keys), HypCluster
(argmin assignment, cluster-local update, empty cluster untouched), MimeLite (clip bound),
`ignore_grads_haiku` (frozen entries identical, the rest = base optimizer on the masked trees).
-/

set_option linter.unusedSimpArgs false
set_option linter.unusedVariables false

namespace FedjaxVerif.Invariants
open FedjaxVerif.FedAvg FedjaxVerif.Algorithms

/-! ## Agnostic FedAvg: the domain weights stay a probability vector -/

def IsProb (w : List Rat) : Prop := (∀ x ∈ w, 0 ≤ x) ∧ w.sum = 1

def clamp (x : Rat) : Rat := if x < 0 then 0 else x

theorem clamp_nonneg (x : Rat) : 0 ≤ clamp x := by
  unfold clamp; split <;> linarith

theorem sum_nonneg_list (l : List Rat) (h : ∀ x ∈ l, 0 ≤ x) : 0 ≤ l.sum := by
  induction l with
  | nil => simp
  | cons x l ih =>
    simp only [List.sum_cons]
    have := h x List.mem_cons_self
    have := ih (fun y hy => h y (List.mem_cons_of_mem _ hy))
    linarith

theorem sum_map_div (l : List Rat) (t : Rat) : (l.map (· / t)).sum = l.sum / t := by
  induction l with
  | nil => simp
  | cons x l ih => simp only [List.map_cons, List.sum_cons, ih]; ring

/-- if the clamped products sum to 0, the weights sum to 0 -/
theorem clamped_zero (w es : List Rat) (hlen : es.length = w.length) (hw : ∀ x ∈ w, 0 ≤ x)
    (he : ∀ x ∈ es, 0 < x) (h0 : ((List.zipWith (· * ·) w es).map clamp).sum = 0) : w.sum = 0 := by
  induction w generalizing es with
  | nil => rfl
  | cons x w ih =>
    cases es with
    | nil => simp at hlen
    | cons y es =>
      simp only [List.zipWith_cons_cons, List.map_cons, List.sum_cons] at h0 ⊢
      have hx : 0 ≤ x := hw x List.mem_cons_self
      have hy : 0 < y := he y List.mem_cons_self
      have h1 : 0 ≤ clamp (x * y) := clamp_nonneg _
      have h2 : 0 ≤ ((List.zipWith (· * ·) w es).map clamp).sum :=
        sum_nonneg_list _ (by intro z hz; obtain ⟨a, _, rfl⟩ := List.mem_map.mp hz; exact clamp_nonneg a)
      have h3 : clamp (x * y) = 0 := by linarith
      have h4 : ((List.zipWith (· * ·) w es).map clamp).sum = 0 := by linarith
      have hxy : x * y = 0 := by
        have hnn : 0 ≤ x * y := mul_nonneg hx (le_of_lt hy)
        unfold clamp at h3
        split at h3
        · linarith
        · exact h3
      have hx0 : x = 0 := by
        rcases mul_eq_zero.mp hxy with h | h
        · exact h
        · linarith
      have := ih es (by simpa using hlen) (fun z hz => hw z (List.mem_cons_of_mem _ hz))
        (fun z hz => he z (List.mem_cons_of_mem _ hz)) h4
      linarith

/-- **Simplex.** One exponentiated-gradient update of a probability vector with any positive
factors (`exp(η·Lᵢ)`) is defined (no 0/0) and is again a probability vector of the same length. -/
theorem C17_simplex (w es : List Rat) (hw : IsProb w) (hlen : es.length = w.length)
    (he : ∀ x ∈ es, 0 < x) :
    ∃ w', updateWeights w es = some w' ∧ IsProb w' ∧ w'.length = w.length := by
  unfold updateWeights
  simp only []
  have hu : ∀ x ∈ (List.zipWith (· * ·) w es).map (fun x => if x < 0 then 0 else x), 0 ≤ x := by
    intro z hz; obtain ⟨a, _, rfl⟩ := List.mem_map.mp hz; exact clamp_nonneg a
  have ht0 : ((List.zipWith (· * ·) w es).map (fun x => if x < 0 then 0 else x)).sum ≠ 0 := by
    intro h0
    have := clamped_zero w es hlen hw.1 he h0
    rw [hw.2] at this
    exact one_ne_zero this
  have htpos : 0 < ((List.zipWith (· * ·) w es).map (fun x => if x < 0 then 0 else x)).sum :=
    lt_of_le_of_ne (sum_nonneg_list _ hu) (Ne.symm ht0)
  rw [if_neg ht0]
  refine ⟨_, rfl, ⟨?_, ?_⟩, ?_⟩
  · intro z hz
    obtain ⟨a, ha, rfl⟩ := List.mem_map.mp hz
    exact div_nonneg (hu a ha) (le_of_lt htpos)
  · rw [sum_map_div]; exact div_self ht0
  · simp [hlen]

/-! ## Agnostic FedAvg: the sliding window -/

theorem shiftWindow_length (window : List (List Rat)) (c : List Rat) (h : 1 ≤ window.length) :
    (shiftWindow window c).length = window.length := by
  unfold shiftWindow
  simp; omega

/-- **Window.** After any number of rounds the window is the last `W` elements of the initial
window followed by the per-round counts, and its length is still `W`. -/
theorem C17_window (w0 : List (List Rat)) (counts : List (List Rat)) (h : 1 ≤ w0.length) :
    counts.foldl shiftWindow w0 = (w0 ++ counts).drop counts.length ∧
      (counts.foldl shiftWindow w0).length = w0.length := by
  induction counts generalizing w0 with
  | nil => simp
  | cons c cs ih =>
    simp only [List.foldl_cons, List.length_cons]
    have hl := shiftWindow_length w0 c h
    obtain ⟨h1, h2⟩ := ih (shiftWindow w0 c) (by omega)
    refine ⟨?_, by rw [h2, hl]⟩
    rw [h1]
    unfold shiftWindow
    cases w0 with
    | nil => simp at h
    | cons r w0 =>
      simp only [List.drop_one, List.tail_cons, List.append_assoc, List.cons_append, List.nil_append,
        List.drop_succ_cons, List.drop_zero]

/-! ## Agnostic FedAvg: α and β are finite and non-negative (repaired code) -/

theorem safeDiv_nonneg (a b : Rat) (ha : 0 ≤ a) (hb : 0 ≤ b) : 0 ≤ safeDiv a b := by
  unfold safeDiv
  split
  · exact le_refl 0
  · exact div_nonneg ha hb

theorem colMean_nonneg (window : List (List Rat)) (D : Nat)
    (hwin : ∀ r ∈ window, ∀ x ∈ r, 0 ≤ x) : ∀ m ∈ colMean window D, 0 ≤ m := by
  intro m hm
  unfold colMean at hm
  obtain ⟨i, _, rfl⟩ := List.mem_map.mp hm
  apply div_nonneg
  · apply sum_nonneg_list
    intro z hz
    obtain ⟨r, hr, rfl⟩ := List.mem_map.mp hz
    rw [List.getD_eq_getElem?_getD]
    cases hri : r[i]? with
    | none => simp
    | some v => simp; exact hwin r hr v (List.mem_of_getElem? hri)
  · exact Nat.cast_nonneg _

theorem zipWith_nonneg (f : Rat → Rat → Rat) (hf : ∀ a b, 0 ≤ a → 0 ≤ b → 0 ≤ f a b) (xs ys : List Rat)
    (hx : ∀ x ∈ xs, 0 ≤ x) (hy : ∀ y ∈ ys, 0 ≤ y) : ∀ z ∈ List.zipWith f xs ys, 0 ≤ z := by
  induction xs generalizing ys with
  | nil => intro z hz; simp at hz
  | cons x xs ih =>
    cases ys with
    | nil => intro z hz; simp at hz
    | cons y ys =>
      intro z hz
      simp only [List.zipWith_cons_cons, List.mem_cons] at hz
      rcases hz with rfl | hz
      · exact hf x y (hx x List.mem_cons_self) (hy y List.mem_cons_self)
      · exact ih ys (fun a ha => hx a (List.mem_cons_of_mem _ ha))
          (fun a ha => hy a (List.mem_cons_of_mem _ ha)) z hz

/-- α is a vector of non-negative rationals for every window of non-negative counts — in
particular also when a domain had no example in the whole window (guarded division: α = 0 there) -/
theorem C17_alpha_nonneg (weights : List Rat) (window : List (List Rat)) (hw : ∀ x ∈ weights, 0 ≤ x)
    (hwin : ∀ r ∈ window, ∀ x ∈ r, 0 ≤ x) : ∀ a ∈ alpha weights window, 0 ≤ a :=
  zipWith_nonneg safeDiv safeDiv_nonneg _ _ hw (colMean_nonneg window _ hwin)

theorem C17_beta_nonneg (al dnum : List Rat) (ha : ∀ a ∈ al, 0 ≤ a) (hn : ∀ n ∈ dnum, 0 ≤ n) :
    0 ≤ beta al dnum := by
  unfold beta
  exact sum_nonneg_list _ (zipWith_nonneg (· * ·) (fun a b => mul_nonneg) _ _ ha hn)

/-- where the window has seen the domain, α is the documented quotient -/
theorem C17_alpha_value (w m : Rat) (hm : m ≠ 0) : safeDiv w m = w / m := by
  unfold safeDiv; rw [if_neg hm]

/-! ## Agnostic FedAvg: a whole round and whole histories -/

theorem vsum_length (D : Nat) (vs : List (List Rat)) : (vsum D vs).length = D := by simp [vsum]

theorem agRound_spec {ι β γ σc σs} [DecidableEq ι] (e : Rat → Rat) (eta : Rat)
    (dloss : P → γ → Key → List Rat) (gradAB : List Rat → Rat → P → β → Key → P)
    (copt : Optimizer σc) (sopt : Optimizer σs) (s s' : AgState σs) (clients : List (AClient ι β γ))
    (h : agRound e eta dloss gradAB copt sopt s clients = some s') :
    s'.window = shiftWindow s.window (vsum s.weights.length (clients.map fun c => c.dnum)) ∧
    ∃ es : List Rat, es.length = s.weights.length ∧ (∀ x ∈ es, ∃ l, x = e (eta * l)) ∧
      updateWeights s.weights es = some s'.weights := by
  unfold agRound at h
  cases clients with
  | nil => simp at h
  | cons c cs =>
    simp only at h
    split at h
    · exact absurd h (by simp)
    · rename_i w' hw'
      simp only [Option.some.injEq] at h
      subst h
      refine ⟨rfl, _, ?_, ?_, hw'⟩
      · simp [vsum_length]
      · intro x hx
        obtain ⟨l, _, rfl⟩ := List.mem_map.mp hx
        exact ⟨l, rfl⟩

/-- **Simplex and window along a round**: if the round returns, the new domain weights are a
probability vector and the window moved by exactly one entry. -/
theorem C17_agnostic_round {ι β γ σc σs} [DecidableEq ι] (e : Rat → Rat) (he : ∀ x, 0 < e x) (eta : Rat)
    (dloss : P → γ → Key → List Rat) (gradAB : List Rat → Rat → P → β → Key → P)
    (copt : Optimizer σc) (sopt : Optimizer σs) (s s' : AgState σs) (clients : List (AClient ι β γ))
    (hp : IsProb s.weights) (hW : 1 ≤ s.window.length)
    (h : agRound e eta dloss gradAB copt sopt s clients = some s') :
    IsProb s'.weights ∧ s'.weights.length = s.weights.length ∧ s'.window.length = s.window.length := by
  obtain ⟨hwin, es, hlen, hes, hupd⟩ := agRound_spec e eta dloss gradAB copt sopt s s' clients h
  obtain ⟨w', hw', hprob, hl⟩ := C17_simplex s.weights es hp hlen
    (fun x hx => by obtain ⟨l, rfl⟩ := hes x hx; exact he _)
  rw [hupd] at hw'
  simp only [Option.some.injEq] at hw'
  subst hw'
  exact ⟨hprob, hl, by rw [hwin]; exact shiftWindow_length _ _ hW⟩

/-- a round over a non-empty cohort from a probability vector always returns (no NaN weights) -/
theorem C17_agnostic_defined {ι β γ σc σs} [DecidableEq ι] (e : Rat → Rat) (he : ∀ x, 0 < e x) (eta : Rat)
    (dloss : P → γ → Key → List Rat) (gradAB : List Rat → Rat → P → β → Key → P)
    (copt : Optimizer σc) (sopt : Optimizer σs) (s : AgState σs) (clients : List (AClient ι β γ))
    (hp : IsProb s.weights) (hne : clients ≠ []) :
    ∃ s', agRound e eta dloss gradAB copt sopt s clients = some s' := by
  cases clients with
  | nil => exact absurd rfl hne
  | cons c cs =>
    unfold agRound
    simp only
    obtain ⟨w', hw', _, _⟩ := C17_simplex s.weights
      ((List.zipWith safeDiv (vsum s.weights.length ((c :: cs).map fun c => dloss s.params c.evalData c.key))
        (vsum s.weights.length ((c :: cs).map fun c => c.dnum))).map fun l => e (eta * l)) hp
      (by simp [vsum_length])
      (fun x hx => by obtain ⟨l, _, rfl⟩ := List.mem_map.mp hx; exact he _)
    rw [hw']
    exact ⟨_, rfl⟩

/-- **History.** Along every multi-round history that returns, from a probability vector and a
window of length `W ≥ 1`: the domain weights are a probability vector and the window has length `W`
after every round. -/
theorem C17_agnostic_history {ι β γ σc σs} [DecidableEq ι] (e : Rat → Rat) (he : ∀ x, 0 < e x) (eta : Rat)
    (dloss : P → γ → Key → List Rat) (gradAB : List Rat → Rat → P → β → Key → P)
    (copt : Optimizer σc) (sopt : Optimizer σs) (s s' : AgState σs)
    (cohorts : List (List (AClient ι β γ)))
    (hp : IsProb s.weights) (hW : 1 ≤ s.window.length)
    (h : agRounds e eta dloss gradAB copt sopt s cohorts = some s') :
    IsProb s'.weights ∧ s'.weights.length = s.weights.length ∧ s'.window.length = s.window.length := by
  induction cohorts generalizing s with
  | nil =>
    simp only [agRounds, List.foldlM_nil, Option.pure_def, Option.some.injEq] at h
    subst h; exact ⟨hp, rfl, rfl⟩
  | cons co rest ih =>
    simp only [agRounds, List.foldlM_cons, Option.bind_eq_bind] at h
    cases h1 : agRound e eta dloss gradAB copt sopt s co with
    | none => rw [h1] at h; simp at h
    | some s1 =>
      rw [h1] at h
      simp only [Option.bind_some] at h
      obtain ⟨hp1, hl1, hw1⟩ := C17_agnostic_round e he eta dloss gradAB copt sopt s s1 co hp hW h1
      obtain ⟨a, b, c⟩ := ih s1 hp1 (by omega) h
      exact ⟨a, by rw [b, hl1], by rw [c, hw1]⟩

/-- **Window along a history of the full round model**: after `t` rounds the window is the last
`W` entries of the initial window followed by the `t` per-round per-domain example counts. -/
theorem C17_agnostic_window_history {ι β γ σc σs} [DecidableEq ι] (e : Rat → Rat) (he : ∀ x, 0 < e x)
    (eta : Rat) (dloss : P → γ → Key → List Rat) (gradAB : List Rat → Rat → P → β → Key → P)
    (copt : Optimizer σc) (sopt : Optimizer σs) (s s' : AgState σs)
    (cohorts : List (List (AClient ι β γ)))
    (hp : IsProb s.weights) (hW : 1 ≤ s.window.length)
    (h : agRounds e eta dloss gradAB copt sopt s cohorts = some s') :
    s'.window = (s.window ++ cohorts.map fun co => vsum s.weights.length (co.map fun c => c.dnum)).drop
      cohorts.length := by
  induction cohorts generalizing s with
  | nil =>
    simp only [agRounds, List.foldlM_nil, Option.pure_def, Option.some.injEq] at h
    subst h; simp
  | cons co rest ih =>
    simp only [agRounds, List.foldlM_cons, Option.bind_eq_bind] at h
    cases h1 : agRound e eta dloss gradAB copt sopt s co with
    | none => rw [h1] at h; simp at h
    | some s1 =>
      rw [h1] at h
      simp only [Option.bind_some] at h
      obtain ⟨hp1, hl1, hw1⟩ := C17_agnostic_round e he eta dloss gradAB copt sopt s s1 co hp hW h1
      obtain ⟨hwin, _⟩ := agRound_spec e eta dloss gradAB copt sopt s s1 co h1
      have := ih s1 hp1 (by omega) h
      rw [this, hl1, hwin]
      unfold shiftWindow
      cases hs : s.window with
      | nil => rw [hs] at hW; simp at hW
      | cons r w =>
        simp [List.drop_one, List.tail_cons, List.append_assoc, List.cons_append, List.nil_append,
          List.map_cons, List.length_cons, List.drop_succ_cons, List.drop_zero]

/-- … and a history of non-empty cohorts always returns. -/
theorem C17_agnostic_history_defined {ι β γ σc σs} [DecidableEq ι] (e : Rat → Rat) (he : ∀ x, 0 < e x)
    (eta : Rat) (dloss : P → γ → Key → List Rat) (gradAB : List Rat → Rat → P → β → Key → P)
    (copt : Optimizer σc) (sopt : Optimizer σs) (s : AgState σs)
    (cohorts : List (List (AClient ι β γ)))
    (hp : IsProb s.weights) (hW : 1 ≤ s.window.length) (hne : ∀ co ∈ cohorts, co ≠ []) :
    ∃ s', agRounds e eta dloss gradAB copt sopt s cohorts = some s' := by
  induction cohorts generalizing s with
  | nil => exact ⟨s, rfl⟩
  | cons co rest ih =>
    obtain ⟨s1, h1⟩ := C17_agnostic_defined e he eta dloss gradAB copt sopt s co hp
      (hne co List.mem_cons_self)
    obtain ⟨hp1, _, hw1⟩ := C17_agnostic_round e he eta dloss gradAB copt sopt s s1 co hp hW h1
    obtain ⟨s2, h2⟩ := ih s1 hp1 (by omega) (fun co' hco' => hne co' (List.mem_cons_of_mem _ hco'))
    refine ⟨s2, ?_⟩
    simp only [agRounds, List.foldlM_cons, Option.bind_eq_bind, h1, Option.bind_some]
    exact h2

/-! ## APFL: interpolation coefficients stay in [0, 1] -/

def Box (c : P) : Prop := ∀ a ∈ c, 0 ≤ a ∧ a ≤ 1

theorem clip01_box (a : Rat) : 0 ≤ clip01 a ∧ clip01 a ≤ 1 := by
  unfold clip01
  split
  · exact ⟨le_refl 0, zero_le_one⟩
  · split
    · exact ⟨zero_le_one, le_refl 1⟩
    · constructor <;> linarith

/-- **after every step** the stored coefficients are in `[0,1]`, whatever they were before and
whatever the optimizer did (the clip is the last thing a step does) -/
theorem C17_coeff_box_step {β σc} (split3 : Key → Key × Key × Key) (seg : List Nat)
    (grad : P → β → Key → P) (copt : Optimizer σc) (st : ApflStepState σc) (b : β) :
    Box (apflClientStep split3 seg grad copt st b).state.coef := by
  intro a ha
  simp only [apflClientStep] at ha
  obtain ⟨x, _, rfl⟩ := List.mem_map.mp ha
  exact clip01_box x

theorem apflFold_box {β σc} (split3 : Key → Key × Key × Key) (seg : List Nat)
    (grad : P → β → Key → P) (copt : Optimizer σc) (batches : List β) (st : ApflStepState σc)
    (h : Box st.state.coef) : Box (batches.foldl (apflClientStep split3 seg grad copt) st).state.coef := by
  induction batches generalizing st with
  | nil => exact h
  | cons b bs ih => exact ih _ (C17_coeff_box_step split3 seg grad copt st b)

def TableBox {ι} (t : List (ι × ApflClientState)) : Prop := ∀ e ∈ t, Box e.2.coef

theorem tableSet_box {ι} [DecidableEq ι] (t : List (ι × ApflClientState)) (cid : ι) (st : ApflClientState)
    (ht : TableBox t) (hs : Box st.coef) : TableBox (tableSet t cid st) := by
  unfold tableSet
  split
  · intro e he
    obtain ⟨e0, he0, rfl⟩ := List.mem_map.mp he
    split
    · exact hs
    · exact ht e0 he0
  · intro e he
    rcases List.mem_append.mp he with h | h
    · exact ht e h
    · simp only [List.mem_singleton] at h; subst h; exact hs

theorem tableGet_box {ι} [DecidableEq ι] (t : List (ι × ApflClientState)) (cid : ι) (st : ApflClientState)
    (ht : TableBox t) (h : tableGet t cid = some st) : Box st.coef := by
  unfold tableGet at h
  cases hf : t.find? (fun e => decide (e.1 = cid)) with
  | none => rw [hf] at h; simp at h
  | some e =>
    rw [hf] at h
    simp only [Option.map_some, Option.some.injEq] at h
    subst h
    exact ht e (List.mem_of_find?_eq_some hf)

theorem apflOutputs_box {ι β σc σs} [DecidableEq ι] (split3 : Key → Key × Key × Key) (seg : List Nat)
    (grad : P → β → Key → P) (copt : Optimizer σc) (coef0 : Rat) (h0 : 0 ≤ coef0 ∧ coef0 ≤ 1)
    (s : ApflServerState σs ι) (ht : TableBox s.table) (clients : List (Client ι β)) :
    ∀ o ∈ apflOutputs split3 seg grad copt coef0 s clients, Box o.2.1.coef := by
  intro o ho
  unfold apflOutputs at ho
  obtain ⟨c, _, rfl⟩ := List.mem_map.mp ho
  simp only [apflClientRun]
  apply apflFold_box
  simp only [apflClientInit]
  cases hg : tableGet s.table c.id with
  | none =>
    simp only [Option.getD_none]
    intro a ha
    rw [List.eq_of_mem_replicate ha]
    exact h0
  | some st => simp only [Option.getD_some]; exact tableGet_box s.table c.id st ht hg

/-- **Coefficient box, one round**: initial coefficient in `[0,1]` and a table whose coefficients
are in `[0,1]` give a table whose coefficients are in `[0,1]`. -/
theorem C17_coeff_box {ι β σc σs} [DecidableEq ι] (split3 : Key → Key × Key × Key) (seg : List Nat)
    (grad : P → β → Key → P) (copt : Optimizer σc) (sopt : Optimizer σs) (coef0 : Rat)
    (h0 : 0 ≤ coef0 ∧ coef0 ≤ 1) (s : ApflServerState σs ι) (ht : TableBox s.table)
    (clients : List (Client ι β)) :
    TableBox (apflRound split3 seg grad copt sopt coef0 s clients).table := by
  unfold apflRound
  simp only
  have hb := apflOutputs_box split3 seg grad copt coef0 h0 s ht clients
  generalize apflOutputs split3 seg grad copt coef0 s clients = outs at hb
  generalize s.table = t at ht
  induction outs generalizing t with
  | nil => exact ht
  | cons o os ih =>
    simp only [List.foldl_cons]
    exact ih (fun o' ho' => hb o' (List.mem_cons_of_mem _ ho')) _
      (tableSet_box t o.1 o.2.1 ht (hb o List.mem_cons_self))

/-- **Coefficient box along every history** starting from the empty table (`init`). -/
theorem C17_coeff_box_history {ι β σc σs} [DecidableEq ι] (split3 : Key → Key × Key × Key)
    (seg : List Nat) (grad : P → β → Key → P) (copt : Optimizer σc) (sopt : Optimizer σs) (coef0 : Rat)
    (h0 : 0 ≤ coef0 ∧ coef0 ≤ 1) (s : ApflServerState σs ι) (ht : TableBox s.table)
    (cohorts : List (List (Client ι β))) :
    TableBox (apflRounds split3 seg grad copt sopt coef0 s cohorts).table := by
  induction cohorts generalizing s with
  | nil => exact ht
  | cons co rest ih =>
    unfold apflRounds
    simp only [List.foldl_cons]
    exact ih _ (C17_coeff_box split3 seg grad copt sopt coef0 h0 s ht co)

/-! ## APFL: client state is stored exactly for the clients that have participated -/

def tkeys {ι} (t : List (ι × ApflClientState)) : List ι := t.map (·.1)

theorem tableSet_keys {ι} [DecidableEq ι] (t : List (ι × ApflClientState)) (cid : ι) (st : ApflClientState)
    (i : ι) : i ∈ tkeys (tableSet t cid st) ↔ i ∈ tkeys t ∨ i = cid := by
  unfold tableSet tkeys
  split
  · rename_i hany
    have hk : (t.map fun e => if e.1 = cid then (cid, st) else e).map (·.1) = t.map (·.1) := by
      rw [List.map_map]
      apply List.map_congr_left
      intro e _
      simp only [Function.comp]
      split
      · rename_i h; exact h.symm
      · rfl
    rw [hk]
    constructor
    · exact Or.inl
    · rintro (h | h)
      · exact h
      · subst h
        obtain ⟨e, he, hd⟩ := List.any_eq_true.mp hany
        exact List.mem_map.mpr ⟨e, he, by simpa using hd⟩
  · simp [List.mem_append]

theorem tableSet_nodup {ι} [DecidableEq ι] (t : List (ι × ApflClientState)) (cid : ι) (st : ApflClientState)
    (h : (tkeys t).Nodup) : (tkeys (tableSet t cid st)).Nodup := by
  unfold tableSet tkeys
  split
  · have hk : (t.map fun e => if e.1 = cid then (cid, st) else e).map (·.1) = t.map (·.1) := by
      rw [List.map_map]
      apply List.map_congr_left
      intro e _
      simp only [Function.comp]
      split
      · rename_i h; exact h.symm
      · rfl
    rw [hk]; exact h
  · rename_i hany
    rw [List.map_append]
    simp only [List.map_cons, List.map_nil]
    rw [List.nodup_append]
    refine ⟨h, List.nodup_singleton _, ?_⟩
    intro a ha b hb
    simp only [List.mem_singleton] at hb
    subst hb
    intro hab
    subst hab
    apply hany
    obtain ⟨e, he, rfl⟩ := List.mem_map.mp ha
    exact List.any_eq_true.mpr ⟨e, he, by simp⟩

theorem tableFold_keys {ι α} [DecidableEq ι] (outs : List (ι × ApflClientState × α))
    (t : List (ι × ApflClientState)) (i : ι) :
    i ∈ tkeys (outs.foldl (fun t o => tableSet t o.1 o.2.1) t) ↔ i ∈ tkeys t ∨ ∃ o ∈ outs, o.1 = i := by
  induction outs generalizing t with
  | nil => simp
  | cons o os ih =>
    simp only [List.foldl_cons]
    rw [ih, tableSet_keys]
    constructor
    · rintro ((h | h) | ⟨o', ho', h⟩)
      · exact Or.inl h
      · exact Or.inr ⟨o, List.mem_cons_self, h.symm⟩
      · exact Or.inr ⟨o', List.mem_cons_of_mem _ ho', h⟩
    · rintro (h | ⟨o', ho', h⟩)
      · exact Or.inl (Or.inl h)
      · rcases List.mem_cons.mp ho' with rfl | ho'
        · exact Or.inl (Or.inr h.symm)
        · exact Or.inr ⟨o', ho', h⟩

theorem tableFold_nodup {ι α} [DecidableEq ι] (outs : List (ι × ApflClientState × α))
    (t : List (ι × ApflClientState)) (h : (tkeys t).Nodup) :
    (tkeys (outs.foldl (fun t o => tableSet t o.1 o.2.1) t)).Nodup := by
  induction outs generalizing t with
  | nil => exact h
  | cons o os ih => exact ih _ (tableSet_nodup t o.1 o.2.1 h)

/-- **Client table keys, one round**: the ids stored after a round are the ids stored before plus
the round's participants — each once. -/
theorem C17_client_table_round {ι β σc σs} [DecidableEq ι] (split3 : Key → Key × Key × Key)
    (seg : List Nat) (grad : P → β → Key → P) (copt : Optimizer σc) (sopt : Optimizer σs) (coef0 : Rat)
    (s : ApflServerState σs ι) (clients : List (Client ι β)) (i : ι) :
    (i ∈ tkeys (apflRound split3 seg grad copt sopt coef0 s clients).table ↔
        i ∈ tkeys s.table ∨ ∃ c ∈ clients, c.id = i) ∧
      ((tkeys s.table).Nodup → (tkeys (apflRound split3 seg grad copt sopt coef0 s clients).table).Nodup) := by
  unfold apflRound
  simp only
  refine ⟨?_, tableFold_nodup _ _⟩
  rw [tableFold_keys]
  unfold apflOutputs
  simp only [List.mem_map]
  constructor
  · rintro (h | ⟨o, ⟨c, hc, rfl⟩, h⟩)
    · exact Or.inl h
    · exact Or.inr ⟨c, hc, h⟩
  · rintro (h | ⟨c, hc, h⟩)
    · exact Or.inl h
    · exact Or.inr ⟨_, ⟨c, hc, rfl⟩, h⟩

/-- **Client table keys along a history** from `init` (empty table): a client has stored state iff
it participated in some round, and it is stored once. -/
theorem C17_client_table_keys {ι β σc σs} [DecidableEq ι] (split3 : Key → Key × Key × Key)
    (seg : List Nat) (grad : P → β → Key → P) (copt : Optimizer σc) (sopt : Optimizer σs) (coef0 : Rat)
    (s : ApflServerState σs ι) (cohorts : List (List (Client ι β))) (i : ι) :
    (i ∈ tkeys (apflRounds split3 seg grad copt sopt coef0 s cohorts).table ↔
        i ∈ tkeys s.table ∨ ∃ co ∈ cohorts, ∃ c ∈ co, c.id = i) ∧
      ((tkeys s.table).Nodup → (tkeys (apflRounds split3 seg grad copt sopt coef0 s cohorts).table).Nodup) := by
  induction cohorts generalizing s with
  | nil => simp [apflRounds]
  | cons co rest ih =>
    unfold apflRounds
    simp only [List.foldl_cons]
    obtain ⟨h1, h2⟩ := ih (apflRound split3 seg grad copt sopt coef0 s co)
    obtain ⟨r1, r2⟩ := C17_client_table_round split3 seg grad copt sopt coef0 s co i
    refine ⟨?_, fun hn => h2 (r2 hn)⟩
    unfold apflRounds at h1
    rw [h1, r1]
    constructor
    · rintro ((h | ⟨c, hc, h⟩) | ⟨co', hco', c, hc, h⟩)
      · exact Or.inl h
      · exact Or.inr ⟨co, List.mem_cons_self, c, hc, h⟩
      · exact Or.inr ⟨co', List.mem_cons_of_mem _ hco', c, hc, h⟩
    · rintro (h | ⟨co', hco', c, hc, h⟩)
      · exact Or.inl (Or.inl h)
      · rcases List.mem_cons.mp hco' with rfl | hco'
        · exact Or.inl (Or.inr ⟨c, hc, h⟩)
        · exact Or.inr ⟨co', hco', c, hc, h⟩

/-! ## APFL: histories that interleave training rounds with evaluations -/

/-- **Evaluation frame.** Evaluating any client ids — trained or held out — leaves the server state,
in particular the client table, exactly as it was. -/
theorem C17_eval_frame {ι β σc σs} [DecidableEq ι] (split3 : Key → Key × Key × Key) (seg : List Nat)
    (grad : P → β → Key → P) (copt : Optimizer σc) (sopt : Optimizer σs) (coef0 : Rat)
    (s : ApflServerState σs ι) (ids : List ι) :
    apflStepOp split3 seg grad copt sopt coef0 s (ApflOp.eval ids : ApflOp ι β) = s := rfl

/-- the clients that *trained* in a step -/
def opTrainees {ι β} : ApflOp ι β → List (Client ι β)
  | .train clients => clients
  | .eval _ => []

/-- **Client table keys along a mixed history**: a client has stored state iff it was stored
before or took part in a *training* step; evaluated-only clients never appear; each id once. -/
theorem C17_client_table_keys_ops {ι β σc σs} [DecidableEq ι] (split3 : Key → Key × Key × Key)
    (seg : List Nat) (grad : P → β → Key → P) (copt : Optimizer σc) (sopt : Optimizer σs) (coef0 : Rat)
    (s : ApflServerState σs ι) (ops : List (ApflOp ι β)) (i : ι) :
    (i ∈ tkeys (apflHistory split3 seg grad copt sopt coef0 s ops).table ↔
        i ∈ tkeys s.table ∨ ∃ op ∈ ops, ∃ c ∈ opTrainees op, c.id = i) ∧
      ((tkeys s.table).Nodup → (tkeys (apflHistory split3 seg grad copt sopt coef0 s ops).table).Nodup) := by
  induction ops generalizing s with
  | nil => simp [apflHistory]
  | cons op rest ih =>
    unfold apflHistory
    simp only [List.foldl_cons]
    obtain ⟨h1, h2⟩ := ih (apflStepOp split3 seg grad copt sopt coef0 s op)
    unfold apflHistory at h1 h2
    cases op with
    | eval ids =>
      simp only [apflStepOp] at h1 h2 ⊢
      refine ⟨?_, h2⟩
      rw [h1]
      constructor
      · rintro (h | ⟨op', hop', c, hc, h⟩)
        · exact Or.inl h
        · exact Or.inr ⟨op', List.mem_cons_of_mem _ hop', c, hc, h⟩
      · rintro (h | ⟨op', hop', c, hc, h⟩)
        · exact Or.inl h
        · rcases List.mem_cons.mp hop' with rfl | hop'
          · simp [opTrainees] at hc
          · exact Or.inr ⟨op', hop', c, hc, h⟩
    | train clients =>
      simp only [apflStepOp] at h1 h2 ⊢
      obtain ⟨r1, r2⟩ := C17_client_table_round split3 seg grad copt sopt coef0 s clients i
      refine ⟨?_, fun hn => h2 (r2 hn)⟩
      rw [h1, r1]
      constructor
      · rintro ((h | ⟨c, hc, h⟩) | ⟨op', hop', c, hc, h⟩)
        · exact Or.inl h
        · exact Or.inr ⟨_, List.mem_cons_self, c, hc, h⟩
        · exact Or.inr ⟨op', List.mem_cons_of_mem _ hop', c, hc, h⟩
      · rintro (h | ⟨op', hop', c, hc, h⟩)
        · exact Or.inl (Or.inl h)
        · rcases List.mem_cons.mp hop' with rfl | hop'
          · exact Or.inl (Or.inr ⟨c, hc, h⟩)
          · exact Or.inr ⟨op', hop', c, hc, h⟩

/-- the coefficient box survives mixed histories as well -/
theorem C17_coeff_box_ops {ι β σc σs} [DecidableEq ι] (split3 : Key → Key × Key × Key)
    (seg : List Nat) (grad : P → β → Key → P) (copt : Optimizer σc) (sopt : Optimizer σs) (coef0 : Rat)
    (h0 : 0 ≤ coef0 ∧ coef0 ≤ 1) (s : ApflServerState σs ι) (ht : TableBox s.table)
    (ops : List (ApflOp ι β)) :
    TableBox (apflHistory split3 seg grad copt sopt coef0 s ops).table := by
  induction ops generalizing s with
  | nil => exact ht
  | cons op rest ih =>
    unfold apflHistory
    simp only [List.foldl_cons]
    apply ih
    cases op with
    | eval ids => exact ht
    | train clients => exact C17_coeff_box split3 seg grad copt sopt coef0 h0 s ht clients

/-! ## HypCluster: argmin assignment -/

/-- `r` is an index of `l` whose value is ≤ every value and < every earlier value -/
def IsFirstMin (l : List Rat) (r : Nat) : Prop :=
  ∃ m, l[r]? = some m ∧ ∀ j v, l[j]? = some v → m ≤ v ∧ (j < r → m < v)

theorem argminGo_spec (xs pre : List Rat) (best : Rat) (bi : Nat) (hb : pre[bi]? = some best)
    (hpre : ∀ j v, pre[j]? = some v → best ≤ v ∧ (j < bi → best < v)) :
    IsFirstMin (pre ++ xs) (argminGo xs best bi pre.length) := by
  induction xs generalizing pre best bi with
  | nil =>
    simp only [argminGo, List.append_nil]
    exact ⟨best, hb, hpre⟩
  | cons x xs ih =>
    have hbi : bi < pre.length := by
      by_contra hc
      rw [List.getElem?_eq_none (by omega)] at hb
      cases hb
    have happ : pre ++ x :: xs = (pre ++ [x]) ++ xs := by simp
    have hlen : (pre ++ [x]).length = pre.length + 1 := by simp
    unfold argminGo
    split
    · rename_i hlt
      rw [happ, ← hlen]
      apply ih
      · simp
      · intro j v hj
        by_cases hjl : j < pre.length
        · rw [List.getElem?_append_left hjl] at hj
          have := hpre j v hj
          exact ⟨by linarith [this.1], fun _ => by linarith [this.1]⟩
        · have hje : j = pre.length := by
            by_contra hne
            rw [List.getElem?_eq_none (by simp; omega)] at hj
            cases hj
          subst hje
          simp at hj
          subst hj
          exact ⟨le_refl _, fun h => absurd h (lt_irrefl _)⟩
    · rename_i hnlt
      rw [happ, ← hlen]
      apply ih
      · rw [List.getElem?_append_left hbi]; exact hb
      · intro j v hj
        by_cases hjl : j < pre.length
        · rw [List.getElem?_append_left hjl] at hj
          exact hpre j v hj
        · have hje : j = pre.length := by
            by_contra hne
            rw [List.getElem?_eq_none (by simp; omega)] at hj
            cases hj
          subst hje
          simp at hj
          subst hj
          exact ⟨not_lt.mp hnlt, fun h => by omega⟩

theorem argminFirst_spec (l : List Rat) (hne : l ≠ []) : IsFirstMin l (argminFirst l) := by
  cases l with
  | nil => exact absurd rfl hne
  | cons x xs =>
    have := argminGo_spec xs [x] x 0 rfl (by
      intro j v hj
      cases j with
      | zero => simp at hj; subst hj; exact ⟨le_refl _, fun h => absurd h (lt_irrefl _)⟩
      | succ j => simp at hj)
    simpa [argminFirst] using this

/-- **Assignment.** With at least one cluster, the cluster a client is assigned to is a valid
index, its average loss is minimal among all clusters and strictly smaller than the loss of every
cluster with a smaller index (`jnp.argmin`: first minimum). -/
theorem C17_assign_min {ι β γ} (avgLoss : P → γ → Key → Rat) (splitN : Key → Nat → List Key)
    (clusters : List P) (hne : clusters ≠ []) (c : HClient ι β γ) :
    IsFirstMin (hypLosses avgLoss splitN clusters c) (hypAssign avgLoss splitN clusters c) ∧
      hypAssign avgLoss splitN clusters c < clusters.length := by
  have hl : (hypLosses avgLoss splitN clusters c).length = clusters.length := by simp [hypLosses]
  have hne' : hypLosses avgLoss splitN clusters c ≠ [] := by
    intro h; rw [h] at hl; exact hne (List.length_eq_zero_iff.mp hl.symm)
  have hspec := argminFirst_spec _ hne'
  refine ⟨hspec, ?_⟩
  obtain ⟨m, hm, _⟩ := hspec
  unfold hypAssign
  by_contra hc
  rw [List.getElem?_eq_none (by omega)] at hm
  cases hm

/-! ## HypCluster: every cluster is updated from its own clients only -/

theorem hypSums_getElem? {ι} (assignOf : ι → Nat) (size : ι → Nat) (results : List (ι × P))
    (sums0 : List (P × Rat)) (i : Nat) :
    (results.foldl (fun sums r =>
        List.modify sums (assignOf r.1) fun a =>
          (vadd a.1 (vscale (size r.1 : Rat) r.2), a.2 + (size r.1 : Rat))) sums0)[i]?
      = (sums0[i]?).map fun a =>
          (results.filter fun r => assignOf r.1 = i).foldl
            (fun acc r => (vadd acc.1 (vscale (size r.1 : Rat) r.2), acc.2 + (size r.1 : Rat))) a := by
  induction results generalizing sums0 with
  | nil => simp
  | cons r rs ih =>
    simp only [List.foldl_cons]
    rw [ih, List.getElem?_modify]
    by_cases h : assignOf r.1 = i
    · have hd : decide (assignOf r.1 = i) = true := by simp [h]
      rw [List.filter_cons, hd]
      simp only [if_true, List.foldl_cons, h]
      cases sums0[i]? <;> simp
    · have hd : decide (assignOf r.1 = i) = false := by simp [h]
      rw [List.filter_cons, hd]
      simp only [Bool.false_eq_true, if_false, h]
      cases sums0[i]? <;> simp

/-- the running sums of cluster `i` are the FedAvg accumulation over exactly the results of the
clients assigned to `i` -/
theorem hypSums_local {ι} (clusters : List P) (assignOf : ι → Nat) (size : ι → Nat)
    (results : List (ι × P)) (i : Nat) :
    (hypSums clusters assignOf size results)[i]?
      = (clusters[i]?).map fun p =>
          accumulate size (vzero p) (results.filter fun r => assignOf r.1 = i) := by
  unfold hypSums accumulate
  rw [hypSums_getElem?]
  simp only [List.getElem?_map, Option.map_map]
  rfl

/-- **Cluster-local update.** Cluster `i` after a round is its server step on the weighted
mean (FedAvg accumulation, `C01_round_formula`) of the deltas of exactly the clients assigned to
`i` — or itself, untouched, when those clients hold no example. -/
theorem C17_cluster_local {ι β γ σc σs} [DecidableEq ι] (avgLoss : P → γ → Key → Rat)
    (splitN : Key → Nat → List Key) (grad : P → β → Key → P) (copt : Optimizer σc)
    (sopt : Optimizer σs) (s : List (ServerState σs)) (clients : List (HClient ι β γ)) (i : Nat) :
    let clusters := s.map (·.params)
    let assignOf := dictGet (fun c : HClient ι β γ => c.id) (hypAssign avgLoss splitN clusters) 0 clients
    let size := FedAvg.sizeOf (clients.map (·.toClient))
    (hypRound avgLoss splitN grad copt sopt s clients)[i]?
      = (s[i]?).map fun cl => hypServer sopt cl (hypDelta (accumulate size (vzero cl.params)
          ((hypResults grad copt clusters assignOf clients).filter fun r => assignOf r.1 = i))) := by
  intro clusters assignOf size
  unfold hypRound
  simp only [List.getElem?_zipWith, List.getElem?_map]
  rw [hypSums_local]
  simp only [List.getElem?_map]
  cases s[i]? <;> rfl

/-- **Yield order.** The per-cluster sums — hence every cluster's update — do not depend on the
order in which a backend yields the per-client results (sequential order for jit/debug, sorted by
decreasing number of batches for pmap): each delta is routed by its *client id*. -/
theorem C17_cluster_local_order {ι} (clusters : List P) (assignOf : ι → Nat) (size : ι → Nat)
    (r r' : List (ι × P)) (h : r.Perm r') :
    hypSums clusters assignOf size r = hypSums clusters assignOf size r' := by
  apply List.ext_getElem?
  intro i
  rw [hypSums_local, hypSums_local]
  congr 1
  funext p
  exact accumulate_perm size (vzero p) _ _ (h.filter _)

/-- `hypRound` is `hypRoundWith` at the first-minimum assignment -/
theorem hypRound_eq_with {ι β γ σc σs} [DecidableEq ι] (avgLoss : P → γ → Key → Rat)
    (splitN : Key → Nat → List Key) (grad : P → β → Key → P) (copt : Optimizer σc)
    (sopt : Optimizer σs) (s : List (ServerState σs)) (clients : List (HClient ι β γ)) :
    hypRound avgLoss splitN grad copt sopt s clients
      = hypRoundWith (dictGet (fun c : HClient ι β γ => c.id) (hypAssign avgLoss splitN (s.map (·.params))) 0 clients)
          grad copt sopt s clients := rfl

/-- **Cluster-local update for any assignment** (in particular for any way of breaking ties among
clusters of minimal loss): cluster `i` is updated from exactly the clients assigned to `i`, or kept
verbatim when they hold no example. -/
theorem C17_cluster_local_any_assignment {ι β γ σc σs} [DecidableEq ι] (assignOf : ι → Nat)
    (grad : P → β → Key → P) (copt : Optimizer σc) (sopt : Optimizer σs) (s : List (ServerState σs))
    (clients : List (HClient ι β γ)) (i : Nat) :
    (hypRoundWith assignOf grad copt sopt s clients)[i]?
      = (s[i]?).map fun cl => hypServer sopt cl (hypDelta (accumulate (FedAvg.sizeOf (clients.map (·.toClient)))
          (vzero cl.params)
          ((hypResults grad copt (s.map (·.params)) assignOf clients).filter fun r => assignOf r.1 = i))) := by
  unfold hypRoundWith
  simp only [List.getElem?_zipWith, List.getElem?_map]
  rw [hypSums_local]
  simp only [List.getElem?_map]
  cases s[i]? <;> rfl

theorem dictGet_of_mem {κ ι α} [DecidableEq ι] (idOf : κ → ι) (val : κ → α) (d : α) (clients : List κ)
    (hnd : (clients.map idOf).Nodup) (c : κ) (hc : c ∈ clients) :
    dictGet idOf val d clients (idOf c) = val c := by
  unfold dictGet
  have hex : ∃ c', clients.reverse.find? (fun x => decide (idOf x = idOf c)) = some c' := by
    have : (clients.reverse.find? (fun x => decide (idOf x = idOf c))).isSome := by
      rw [List.find?_isSome]
      exact ⟨c, List.mem_reverse.mpr hc, by simp⟩
    exact Option.isSome_iff_exists.mp this
  obtain ⟨c', hc'⟩ := hex
  rw [hc']
  have hmem : c' ∈ clients := List.mem_reverse.mp (List.mem_of_find?_eq_some hc')
  have hid : idOf c' = idOf c := by simpa using List.find?_some hc'
  have : c' = c := List.inj_on_of_nodup_map hnd hmem hc hid
  rw [this]

/-- **Empty cluster untouched.** A cluster none of whose assigned clients holds an example (in
particular a cluster nobody was assigned to) keeps its parameters *and* optimizer state verbatim. -/
theorem C17_empty_untouched {ι β γ σc σs} [DecidableEq ι] (avgLoss : P → γ → Key → Rat)
    (splitN : Key → Nat → List Key) (grad : P → β → Key → P) (copt : Optimizer σc)
    (sopt : Optimizer σs) (s : List (ServerState σs)) (clients : List (HClient ι β γ))
    (hnd : (clients.map (·.id)).Nodup) (i : Nat)
    (hempty : ∀ c ∈ clients, hypAssign avgLoss splitN (s.map (·.params)) c = i → c.size = 0) :
    (hypRound avgLoss splitN grad copt sopt s clients)[i]? = s[i]? := by
  rw [C17_cluster_local]
  cases hs : s[i]? with
  | none => rfl
  | some cl =>
    simp only [Option.map_some, Option.some.injEq]
    have hz : (accumulate (FedAvg.sizeOf (clients.map (·.toClient))) (vzero cl.params)
        ((hypResults grad copt (s.map (·.params))
            (dictGet (fun c : HClient ι β γ => c.id) (hypAssign avgLoss splitN (s.map (·.params))) 0 clients)
            clients).filter fun r =>
          dictGet (fun c : HClient ι β γ => c.id) (hypAssign avgLoss splitN (s.map (·.params))) 0 clients r.1 = i)).2
        = 0 := by
      unfold accumulate
      rw [accumulate_snd, zero_add]
      apply List.sum_eq_zero
      intro x hx
      obtain ⟨r, hr, rfl⟩ := List.mem_map.mp hx
      obtain ⟨hr1, hr2⟩ := List.mem_filter.mp hr
      unfold hypResults at hr1
      obtain ⟨c, hc, rfl⟩ := List.mem_map.mp hr1
      simp only [decide_eq_true_eq] at hr2
      rw [dictGet_of_mem (fun c : HClient ι β γ => c.id) _ 0 clients hnd c hc] at hr2
      have hnd' : ((clients.map (·.toClient)).map (·.id)).Nodup := by rw [List.map_map]; exact hnd
      have hsz : FedAvg.sizeOf (clients.map (·.toClient)) c.id = c.size :=
        sizeOf_of_mem (clients.map (·.toClient)) hnd' c.toClient (List.mem_map.mpr ⟨c, hc, rfl⟩)
      simp only [hsz, hempty c hc hr2, Nat.cast_zero]
    unfold hypDelta
    rw [hz, if_neg (lt_irrefl 0)]
    rfl

/-! ## MimeLite: no aggregated client update exceeds the clipping bound -/

def sqnorm (v : P) : Rat := (v.map fun x => x * x).sum

theorem sqnorm_vscale (c : Rat) (v : P) : sqnorm (vscale c v) = c * c * sqnorm v := by
  unfold sqnorm vscale
  induction v with
  | nil => simp
  | cons x v ih => simp only [List.map_cons, List.sum_cons, ih]; ring

/-- **Clip bound** for any norm function that does not under-estimate the Euclidean norm (the exact
square root, or any upward rounding of it; over `ℚ` an exact root need not exist): the clipped tree
has squared norm ≤ clip². -/
theorem C17_clip_bound_tree (nrm : P → Rat) (clip : Rat) (hc : 0 < clip) (v : P)
    (hn : 0 ≤ nrm v ∧ sqnorm v ≤ nrm v * nrm v) :
    sqnorm (clipByGlobalNorm nrm clip v) ≤ clip * clip := by
  unfold clipByGlobalNorm clipScale
  rw [sqnorm_vscale]
  obtain ⟨h0, hsq⟩ := hn
  have hs0 : 0 ≤ sqnorm v := by
    unfold sqnorm
    apply sum_nonneg_list
    intro z hz
    obtain ⟨x, _, rfl⟩ := List.mem_map.mp hz
    exact mul_self_nonneg x
  split
  · rename_i hz
    rw [hz] at hsq
    have : sqnorm v ≤ 0 := by simpa using hsq
    have hcc : 0 ≤ clip * clip := by positivity
    linarith
  · rename_i hz
    have hpos : 0 < nrm v := lt_of_le_of_ne h0 (Ne.symm hz)
    split
    · have hq : 0 ≤ clip / nrm v * (clip / nrm v) := mul_self_nonneg _
      have h1 : clip / nrm v * (clip / nrm v) * sqnorm v
          ≤ clip / nrm v * (clip / nrm v) * (nrm v * nrm v) := mul_le_mul_of_nonneg_left hsq hq
      have h2 : clip / nrm v * (clip / nrm v) * (nrm v * nrm v) = clip * clip := by
        field_simp
      linarith
    · rename_i hge
      have hle : nrm v ≤ clip := by
        have := not_lt.mp hge
        rwa [le_div_iff₀ hpos, one_mul] at this
      nlinarith

/-- a tree within the bound passes the clip unchanged -/
theorem C17_clip_noop (nrm : P → Rat) (hn : ∀ v, 0 ≤ nrm v) (clip : Rat) (v : P) (h : nrm v ≤ clip) :
    clipByGlobalNorm nrm clip v = v := by
  unfold clipByGlobalNorm clipScale
  have hone : vscale 1 v = v := by simp [vscale]
  split
  · exact hone
  · rename_i hz
    have hpos : 0 < nrm v := lt_of_le_of_ne (hn v) (Ne.symm hz)
    split
    · rename_i hlt
      rw [div_lt_one hpos] at hlt
      linarith
    · exact hone

/-- **MimeLite never aggregates a client update whose norm exceeds the clipping bound.** -/
theorem C17_clip_bound {ι β σ} (nrm : P → Rat) (hn : ∀ v, 0 ≤ nrm v ∧ sqnorm v ≤ nrm v * nrm v)
    (clip : Rat) (hc : 0 < clip) (grad : P → β → Key → P) (base : Optimizer σ) (s : ServerState σ)
    (clients : List (GClient ι β)) :
    ∀ r ∈ mimeLiteResults nrm (some clip) grad base s clients, sqnorm r.2 ≤ clip * clip := by
  intro r hr
  unfold mimeLiteResults at hr
  obtain ⟨c, _, rfl⟩ := List.mem_map.mp hr
  exact C17_clip_bound_tree nrm clip hc _ (hn _)

/-! ## `ignore_grads_haiku` -/

theorem lookup_filter_key {ν} [DecidableEq ν] (q : ν → Bool) (t : Tree ν) (n : ν) :
    (t.filter fun e => q e.1).lookup n = if q n then t.lookup n else none := by
  induction t with
  | nil => simp
  | cons e t ih =>
    obtain ⟨k, v⟩ := e
    rw [List.filter_cons]
    by_cases hq : q k = true
    · simp only [hq, if_true, List.lookup_cons]
      by_cases hnk : n = k
      · subst hnk; simp [hq]
      · have : (n == k) = false := by simp [hnk]
        simp only [this, ih]
    · simp only [hq, Bool.false_eq_true, if_false, List.lookup_cons, ih]
      by_cases hnk : n = k
      · subst hnk; simp [hq]
      · have : (n == k) = false := by simp [hnk]
        simp only [this]

/-- **Frozen entries** come back identical: for every listed name the output tree holds the value
of the input params (not the base optimizer's, not the gradient's). -/
theorem C17_ignore_frozen {ν σ} [DecidableEq ν] (base : TOptimizer ν σ) (names : List ν)
    (grads params : Tree ν) (st st' : σ) (out : Tree ν)
    (h : ignoreApply base names grads st params = some (st', out)) (n : ν) (hn : n ∈ names) :
    out.lookup n = params.lookup n := by
  unfold ignoreApply at h
  split at h
  · simp only [Option.some.injEq, Prod.mk.injEq] at h
    obtain ⟨_, rfl⟩ := h
    have hc : names.contains n = true := by simpa using hn
    rw [List.lookup_append, lookup_filter_key (fun k => names.contains k),
      lookup_filter_key (fun k => !(names.contains k))]
    simp [hc, hn]
  · cases h

/-- **The rest** is updated exactly as the base optimizer does on the masked trees, and the new
optimizer state is the base optimizer's. -/
theorem C17_ignore_rest {ν σ} [DecidableEq ν] (base : TOptimizer ν σ) (names : List ν)
    (grads params : Tree ν) (st st' : σ) (out : Tree ν)
    (h : ignoreApply base names grads st params = some (st', out)) :
    st' = (base.apply (maskTree names grads) st (maskTree names params)).1 ∧
    ∀ n, n ∉ names →
      out.lookup n = (base.apply (maskTree names grads) st (maskTree names params)).2.lookup n := by
  unfold ignoreApply at h
  split at h
  · simp only [Option.some.injEq, Prod.mk.injEq] at h
    obtain ⟨rfl, rfl⟩ := h
    refine ⟨rfl, ?_⟩
    intro n hn
    have hc : names.contains n = false := by simpa using hn
    rw [List.lookup_append, lookup_filter_key (fun k => names.contains k),
      lookup_filter_key (fun k => !(names.contains k))]
    simp [hc, hn]
  · cases h

/-- the masked trees handed to the base optimizer contain none of the listed names, and every
other entry unchanged -/
theorem C17_ignore_mask {ν} [DecidableEq ν] (names : List ν) (t : Tree ν) (n : ν) :
    (maskTree names t).lookup n = if n ∈ names then none else t.lookup n := by
  unfold maskTree
  rw [lookup_filter_key (fun k => !(names.contains k))]
  by_cases hn : n ∈ names <;> simp [hn]

/-! ## non-vacuity -/

example : IsProb [1/2, 1/2] := by constructor <;> decide +kernel
example : updateWeights [1/2, 1/2] [2, 1] = some [2/3, 1/3] := by decide +kernel
example : [[2, 3], [3, 0]].foldl shiftWindow [[1, 1]] = [[3, 0]] := by decide +kernel
/-- the history of the finding: window size 1, domain 1 absent in the last round — α stays finite -/
example : alpha [1/2, 1/2] [[3, 0]] = [1/6, 0] := by decide +kernel

/-- a norm function meeting the hypothesis of `C17_clip_bound` exists over `ℚ` -/
example : ∀ v : P, 0 ≤ (1 + sqnorm v) ∧ sqnorm v ≤ (1 + sqnorm v) * (1 + sqnorm v) := by
  intro v
  have hs0 : 0 ≤ sqnorm v := by
    unfold sqnorm
    apply sum_nonneg_list
    intro z hz
    obtain ⟨x, _, rfl⟩ := List.mem_map.mp hz
    exact mul_self_nonneg x
  constructor
  · linarith
  · nlinarith
example : clipByGlobalNorm (fun _ => 5) 1 [3, 4] = [3/5, 4/5] := by decide +kernel

/-- an APFL round in which the clip is active: coefficient 1/2, big step, stored coefficient 0 or 1 -/
example : ((apflRound (fun k => (k ++ [false, false], k ++ [false, true], k ++ [true, false])) [2] exGrad
    (sgd 4) (sgd 1) (1/2) ⟨[1, 2], (), [(7, ⟨[5, 5], [1/2]⟩)]⟩ exClients).table.map fun e => (e.1, e.2.coef))
      = [(7, [0]), (8, [1/2])] := by decide +kernel

/-- two clusters, three clients: the assignment is the first minimum, cluster 1 gets nobody and stays -/
def exLoss : P → Nat → Key → Rat := fun p n _ => (p.getD 0 0 - n) * (p.getD 0 0 - n)
def exHC : List (HClient Nat Nat Nat) :=
  [⟨⟨1, 2, [1], [false]⟩, 0⟩, ⟨⟨2, 1, [1], [true, false]⟩, 1⟩, ⟨⟨3, 0, [], [true, true, false]⟩, 9⟩]
example : exHC.map (hypAssign exLoss (fun _ _ => []) [[0], [10]]) = [0, 0, 1] := by decide +kernel
example : (hypRound exLoss (fun _ _ => []) exGrad (sgd (1/2)) (momentum 1 (1/2) false)
    [⟨[0], [1]⟩, ⟨[10], [1]⟩] exHC).map (fun c => (c.params, c.opt)) = [([-1/2], [1/2]), ([10], [1])] := by
  decide +kernel

def exTOpt : TOptimizer String Nat :=
  { init := fun _ => 0, apply := fun g n p => (n + 1, p.map fun e => (e.1, vsub e.2 ((g.lookup e.1).getD []))) }
example : ignoreApply exTOpt ["b"] [("a", [1]), ("b", [1])] 0 [("a", [5]), ("b", [7])]
    = some (1, [("b", [7]), ("a", [4])]) := by decide +kernel
example : ignoreApply exTOpt ["zz"] [("a", [1])] 0 [("a", [5])] = none := by decide +kernel

/-! further instances: every hypothesis used above is met by something non-trivial -/
example : IsFirstMin [3, 1, 1, 5] (argminFirst [3, 1, 1, 5]) := by
  refine ⟨1, by decide +kernel, ?_⟩
  intro j v hj
  match j, hj with
  | 0, hj => simp at hj; subst hj; constructor <;> intros <;> norm_num
  | 1, hj => simp at hj; subst hj; exact ⟨le_refl _, fun h => absurd h (by decide)⟩
  | 2, hj => simp at hj; subst hj; exact ⟨le_refl _, fun h => absurd h (by decide)⟩
  | 3, hj => simp at hj; subst hj; exact ⟨by norm_num, fun h => absurd h (by decide)⟩
  | (n + 4), hj => simp at hj
example : argminFirst [3, 1, 1, 5] = 1 := by decide +kernel
example : Box [0, 1/2, 1] := by
  intro a ha
  simp only [List.mem_cons, List.not_mem_nil, or_false] at ha
  rcases ha with rfl | rfl | rfl <;> constructor <;> norm_num
example : [2, -1, 1/3].map clip01 = [1, 0, 1/3] := by decide +kernel
example : TableBox ([] : List (Nat × ApflClientState)) := by intro e he; cases he
example : tkeys (tableSet (tableSet ([] : List (Nat × ApflClientState)) 7 ⟨[1], [1/2]⟩) 7 ⟨[2], [1]⟩) = [7] := by
  decide +kernel
example : (tkeys ((apflRounds (fun k => (k ++ [false, false], k ++ [false, true], k ++ [true, false])) [2] exGrad
    (sgd (1/4)) (sgd 1) (1/2) ⟨[1, 2], (), []⟩ [exClients, exClients]).table)) = [7, 8] := by decide +kernel
example : ([] : List (List Rat)) ≠ [[1, 1]] ∧ 1 ≤ ([[1, 1]] : List (List Rat)).length := by decide
example : beta (alpha [1/2, 1/2] [[3, 0]]) [2, 5] = 1/3 := by decide +kernel
example : colMean [[2, 0], [4, 2]] 2 = [3, 1] := by decide +kernel
example : updateWeights [0, 0] [1, 1] = none := by decide +kernel
example : sqnorm (clipByGlobalNorm (fun _ => 5) 1 [3, 4]) = 1 := by decide +kernel
example : clipByGlobalNorm (fun _ => 5) 6 [3, 4] = [3, 4] := by decide +kernel
example : maskTree ["b"] [("a", [1]), ("b", [2])] = [("a", [1])] := by decide +kernel

/-- a mixed history: train, evaluate a held-out id (42), train — id 42 never enters the table -/
example : tkeys ((apflHistory (fun k => (k ++ [false, false], k ++ [false, true], k ++ [true, false])) [2] exGrad
    (sgd (1/4)) (sgd 1) (1/2) ⟨[1, 2], (), []⟩
    [ApflOp.train exClients, ApflOp.eval [42, 7], ApflOp.train exClients]).table) = [7, 8] := by decide +kernel
example : apflEvalParams [2] (⟨[1, 2], (), [(7, ⟨[5, 9], [1/2]⟩)]⟩ : ApflServerState Unit Nat) 7 = [3, 11/2] ∧
    apflEvalParams [2] (⟨[1, 2], (), [(7, ⟨[5, 9], [1/2]⟩)]⟩ : ApflServerState Unit Nat) 42 = [1, 2] := by
  decide +kernel

/-- two clusters, results yielded in two different orders -/
example : hypSums [[0], [0]] (fun i : Nat => i % 2) (fun _ => 2) [(1, [1]), (2, [3]), (3, [5])]
    = hypSums [[0], [0]] (fun i : Nat => i % 2) (fun _ => 2) [(3, [5]), (2, [3]), (1, [1])] := by decide +kernel

/-- a tie (both clusters equal): the last-minimum assignment updates cluster 1 and leaves cluster 0 -/
example : (hypRoundWith (fun _ : Nat => 1) exGrad (sgd (1/2)) (sgd 1) [⟨[1], ()⟩, ⟨[1], ()⟩]
    ([⟨⟨1, 2, [1], [false]⟩, 0⟩] : List (HClient Nat Nat Nat))).map (·.params) = [[1], [1/2]] := by decide +kernel

end FedjaxVerif.Invariants
