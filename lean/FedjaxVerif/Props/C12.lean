import FedjaxVerif.Model.Algorithms
import FedjaxVerif.Props.C01
import Mathlib.Algebra.Order.Field.Rat
import Mathlib.Tactic.Ring
import Mathlib.Tactic.Linarith
import Mathlib.Tactic.FieldSimp
import Mathlib.Data.List.Nodup

/-!
# C12 — degenerate hyper-parameters reduce every algorithm to FedAvg

Theorems relating the round models of `Model/Algorithms.lean` (FedProx, HypCluster, MimeLite, APFL,
Mime) to the FedAvg round of `Model/FedAvg.lean`, for every gradient function, optimizer, batch
stream, key and population, single round and multi-round.
-/

set_option linter.unusedSimpArgs false
set_option linter.unusedVariables false

namespace FedjaxVerif.Algorithms
open FedjaxVerif.FedAvg

/-! ## FedProx -/

theorem zipIdx_map_fst {α} (g : List α) (k : Nat) : (g.zipIdx k).map (fun gi => gi.1) = g := by
  induction g generalizing k with
  | nil => rfl
  | cons x g ih => simp [List.zipIdx_cons, ih]

theorem proxGrad_zero (g p server : P) : proxGrad 0 g p server = g := by
  unfold proxGrad
  simp only [zero_mul, add_zero]
  exact zipIdx_map_fst g 0

/-- the gradient FedAvg has to be run with to reproduce FedProx in a round that starts from
`server`: gradient of `mean example loss + ½·μ·‖p − server‖²` -/
def augGrad {β} (mu : Rat) (grad : P → β → Key → P) (server : P) : P → β → Key → P :=
  fun p b k => proxGrad mu (grad p b k) p server

def toCS {σ} (st : ProxClientState σ) : ClientState σ := ⟨st.params, st.opt, st.rng⟩

theorem proxStep_sim {β σc} (mu : Rat) (grad : P → β → Key → P) (copt : Optimizer σc)
    (st : ProxClientState σc) (b : β) :
    toCS (proxClientStep mu grad copt st b)
        = clientStep (augGrad mu grad st.serverParams) copt (toCS st) b ∧
      (proxClientStep mu grad copt st b).serverParams = st.serverParams := by
  constructor <;> rfl

theorem proxFold_sim {β σc} (mu : Rat) (grad : P → β → Key → P) (copt : Optimizer σc)
    (batches : List β) (st : ProxClientState σc) :
    toCS (batches.foldl (proxClientStep mu grad copt) st)
      = batches.foldl (clientStep (augGrad mu grad st.serverParams) copt) (toCS st) := by
  induction batches generalizing st with
  | nil => rfl
  | cons b bs ih =>
    simp only [List.foldl_cons]
    rw [ih, (proxStep_sim mu grad copt st b).1, (proxStep_sim mu grad copt st b).2]

theorem proxClientDelta_eq {β σc} (mu : Rat) (grad : P → β → Key → P) (copt : Optimizer σc)
    (server : P) (batches : List β) (key : Key) :
    proxClientDelta mu grad copt server batches key
      = clientDelta (augGrad mu grad server) copt server batches key := by
  unfold proxClientDelta clientDelta
  have := proxFold_sim mu grad copt batches (proxClientInit copt server key)
  have h2 : (batches.foldl (proxClientStep mu grad copt) (proxClientInit copt server key)).params
      = (toCS (batches.foldl (proxClientStep mu grad copt) (proxClientInit copt server key))).params := rfl
  rw [h2, this]
  rfl

/-- **FedProx, any weight.** A FedProx round is a FedAvg round (same optimizers, batches, keys,
clients) run with the gradient of the loss augmented by the proximal penalty toward *this round's*
server parameters. -/
theorem C12_fedprox_aug {ι β σc σs} [DecidableEq ι] (mu : Rat) (grad : P → β → Key → P)
    (copt : Optimizer σc) (sopt : Optimizer σs) (s : ServerState σs) (clients : List (Client ι β)) :
    fedProxRound mu grad copt sopt s clients
      = round (augGrad mu grad s.params) copt sopt s clients := by
  unfold fedProxRound FedAvg.round clientResults
  congr 1
  apply List.map_congr_left
  intro c _
  rw [proxClientDelta_eq]

theorem augGrad_zero {β} (grad : P → β → Key → P) (server : P) : augGrad 0 grad server = grad := by
  funext p b k
  exact proxGrad_zero _ _ _

/-- **FedProx with proximal weight 0 is FedAvg** (state and all). -/
theorem C12_fedprox_zero {ι β σc σs} [DecidableEq ι] (grad : P → β → Key → P)
    (copt : Optimizer σc) (sopt : Optimizer σs) (s : ServerState σs) (clients : List (Client ι β)) :
    fedProxRound 0 grad copt sopt s clients = round grad copt sopt s clients := by
  rw [C12_fedprox_aug, augGrad_zero]

/-- … round after round. -/
theorem C12_fedprox_zero_rounds {ι β σc σs} [DecidableEq ι] (grad : P → β → Key → P)
    (copt : Optimizer σc) (sopt : Optimizer σs) (s : ServerState σs)
    (cohorts : List (List (Client ι β))) :
    fedProxRounds 0 grad copt sopt s cohorts = rounds grad copt sopt s cohorts := by
  unfold fedProxRounds rounds
  congr 1
  funext s c
  exact C12_fedprox_zero grad copt sopt s c

/-- multi-round FedProx: every round is a FedAvg round on the loss augmented toward the
parameters that round started from -/
theorem C12_fedprox_aug_rounds {ι β σc σs} [DecidableEq ι] (mu : Rat) (grad : P → β → Key → P)
    (copt : Optimizer σc) (sopt : Optimizer σs) (s : ServerState σs)
    (cohorts : List (List (Client ι β))) :
    fedProxRounds mu grad copt sopt s cohorts
      = cohorts.foldl (fun s c => round (augGrad mu grad s.params) copt sopt s c) s := by
  unfold fedProxRounds
  congr 1
  funext s c
  exact C12_fedprox_aug mu grad copt sopt s c

/-- on equal shapes (the only ones JAX accepts) the proximal gradient is `g + μ·(p − server)` in
the vector vocabulary of the FedAvg model -/
theorem proxGrad_eq_vadd (mu : Rat) (g p server : P) (h1 : p.length = g.length)
    (h2 : server.length = g.length) :
    proxGrad mu g p server = vadd g (vscale mu (vsub p server)) := by
  apply List.ext_getElem?
  intro j
  unfold proxGrad vadd vscale vsub
  by_cases hj : j < g.length
  · have hp : j < p.length := h1 ▸ hj
    have hs : j < server.length := h2 ▸ hj
    simp [List.getElem?_zipWith, List.getElem?_eq_getElem, hj, hp, hs, List.getD_eq_getElem?_getD]
  · have hj' : g.length ≤ j := Nat.le_of_not_lt hj
    simp [List.getElem?_zipWith, List.getElem?_eq_none, hj']

/-- the penalty `½·μ·Σ (pᵢ − qᵢ)²` and the exact expansion that makes `μ·(p − q)` its gradient:
moving coordinate-wise by `t·v` changes it by `t·⟨μ(p − q), v⟩ + ½·μ·t²·‖v‖²`. -/
def proxPenalty (mu : Rat) : P → P → Rat
  | x :: p, y :: q => mu / 2 * (x - y) * (x - y) + proxPenalty mu p q
  | _, _ => 0

def vdot : P → P → Rat
  | x :: p, y :: q => x * y + vdot p q
  | _, _ => 0

theorem C12_prox_gradient (mu t : Rat) (p q v : P) (h1 : q.length = p.length)
    (h2 : v.length = p.length) :
    proxPenalty mu (vadd p (vscale t v)) q
      = proxPenalty mu p q + t * vdot (vscale mu (vsub p q)) v + mu / 2 * t * t * vdot v v := by
  induction p generalizing q v with
  | nil => cases q <;> cases v <;> simp_all [proxPenalty, vdot, vadd, vscale, vsub]
  | cons x p ih =>
    cases q with
    | nil => simp at h1
    | cons y q =>
      cases v with
      | nil => simp at h2
      | cons z v =>
        simp only [List.length_cons, Nat.add_right_cancel_iff] at h1 h2
        have := ih q v h1 h2
        simp only [vadd, vscale, vsub, List.map_cons, List.zipWith_cons_cons, proxPenalty, vdot] at this ⊢
        rw [this]
        ring

/-! ## losses that ignore their key -/

/-- "the loss ignores its random key" -/
def KeyFree {β} (grad : P → β → Key → P) : Prop := ∀ p b k k', grad p b k = grad p b k'

theorem clientFold_keyfree {β σc} (grad : P → β → Key → P) (copt : Optimizer σc) (hk : KeyFree grad)
    (batches : List β) (st st' : ClientState σc) (hp : st.params = st'.params) (ho : st.opt = st'.opt) :
    (batches.foldl (clientStep grad copt) st).params = (batches.foldl (clientStep grad copt) st').params := by
  induction batches generalizing st st' with
  | nil => exact hp
  | cons b bs ih =>
    simp only [List.foldl_cons]
    apply ih
    · simp only [clientStep, split, hp, ho]
      rw [hk st'.params b (st.rng ++ [true]) (st'.rng ++ [true])]
    · simp only [clientStep, split, hp, ho]
      rw [hk st'.params b (st.rng ++ [true]) (st'.rng ++ [true])]

theorem clientDelta_keyfree {β σc} (grad : P → β → Key → P) (copt : Optimizer σc) (hk : KeyFree grad)
    (server : P) (batches : List β) (k k' : Key) :
    clientDelta grad copt server batches k = clientDelta grad copt server batches k' := by
  unfold clientDelta
  rw [clientFold_keyfree grad copt hk batches (clientInit copt server k) (clientInit copt server k') rfl rfl]

theorem sizeOf_map {κ ι β} [DecidableEq ι] (g : κ → Client ι β) (l : List κ) (cid : ι) :
    FedAvg.sizeOf (l.map g) cid
      = ((l.reverse.find? (fun c => decide ((g c).id = cid))).map (fun c => (g c).size)).getD 0 := by
  unfold FedAvg.sizeOf
  rw [← List.map_reverse, List.find?_map]
  cases h : List.find? ((fun c => decide (c.id = cid)) ∘ g) l.reverse with
  | none =>
    have : List.find? (fun c => decide ((g c).id = cid)) l.reverse = none := h
    simp [this]
  | some c =>
    have : List.find? (fun c => decide ((g c).id = cid)) l.reverse = some c := h
    simp [this]

theorem sizeOf_map_congr {κ ι β} [DecidableEq ι] (g g' : κ → Client ι β) (l : List κ)
    (h : ∀ c, (g c).id = (g' c).id ∧ (g c).size = (g' c).size) :
    FedAvg.sizeOf (l.map g) = FedAvg.sizeOf (l.map g') := by
  funext cid
  rw [sizeOf_map, sizeOf_map]
  have e1 : (fun c => decide ((g c).id = cid)) = (fun c => decide ((g' c).id = cid)) := by
    funext c; rw [(h c).1]
  have e2 : (fun c => (g c).size) = (fun c => (g' c).size) := by funext c; exact (h c).2
  rw [e1, e2]

/-- with a key-free loss the keys handed to the clients do not matter for a FedAvg round -/
theorem round_keyfree {ι β σc σs} [DecidableEq ι] (grad : P → β → Key → P) (copt : Optimizer σc)
    (sopt : Optimizer σs) (hk : KeyFree grad) (s : ServerState σs) (clients : List (Client ι β))
    (f : Client ι β → Key) :
    round grad copt sopt s (clients.map fun c => ⟨c.id, c.size, c.batches, f c⟩)
      = round grad copt sopt s clients := by
  unfold FedAvg.round aggregate clientResults
  have hs : FedAvg.sizeOf (clients.map fun c => (⟨c.id, c.size, c.batches, f c⟩ : Client ι β))
      = FedAvg.sizeOf clients := by
    have := sizeOf_map_congr (fun c : Client ι β => (⟨c.id, c.size, c.batches, f c⟩ : Client ι β)) id clients
      (fun c => ⟨rfl, rfl⟩)
    simpa using this
  have hr : List.map (fun c : Client ι β => (c.id, clientDelta grad copt s.params c.batches c.key))
      (clients.map fun c => (⟨c.id, c.size, c.batches, f c⟩ : Client ι β))
      = List.map (fun c : Client ι β => (c.id, clientDelta grad copt s.params c.batches c.key)) clients := by
    rw [List.map_map]
    apply List.map_congr_left
    intro c _
    simp only [Function.comp]
    rw [clientDelta_keyfree grad copt hk s.params c.batches (f c) c.key]
  rw [hs, hr]

/-! ## HypCluster with a single cluster -/

/-- the FedAvg client a HypCluster client is in the expectation step: same id, size and batches,
trained with the second half of its split key -/
def trainClient {ι β γ} (c : HClient ι β γ) : Client ι β := ⟨c.id, c.size, c.batches, (split c.key).2⟩

theorem hypAssign_single {ι β γ} (avgLoss : P → γ → Key → Rat) (splitN : Key → Nat → List Key) (p : P)
    (c : HClient ι β γ) : hypAssign avgLoss splitN [p] c = 0 := by
  simp [hypAssign, hypLosses, argminFirst, argminGo]

theorem dictGet_const {ι α κ} [DecidableEq ι] (idOf : κ → ι) (val : κ → α) (d : α) (clients : List κ)
    (h : ∀ c, val c = d) (cid : ι) : dictGet idOf val d clients cid = d := by
  unfold dictGet
  split <;> simp [h]

theorem hypSums_single_aux {ι} (size : ι → Nat) (results : List (ι × P)) (a : P × Rat) :
    results.foldl (fun sums r =>
        List.modify sums 0 fun a => (vadd a.1 (vscale (size r.1 : Rat) r.2), a.2 + (size r.1 : Rat))) [a]
      = [results.foldl (fun acc r => (vadd acc.1 (vscale (size r.1 : Rat) r.2), acc.2 + (size r.1 : Rat))) a] := by
  induction results generalizing a with
  | nil => rfl
  | cons r rs ih =>
    simp only [List.foldl_cons]
    rw [show List.modify [a] 0 (fun a => (vadd a.1 (vscale (size r.1 : Rat) r.2), a.2 + (size r.1 : Rat)))
      = [(vadd a.1 (vscale (size r.1 : Rat) r.2), a.2 + (size r.1 : Rat))] from rfl]
    exact ih _

theorem hypSums_single {ι} (p : P) (size : ι → Nat) (results : List (ι × P)) :
    hypSums [p] (fun _ => 0) size results = [accumulate size (vzero p) results] := by
  unfold hypSums accumulate
  exact hypSums_single_aux size results (vzero p, 0)

theorem accumulate_snd {ι} (size : ι → Nat) (results : List (ι × P)) (z : P) (w : Rat) :
    (results.foldl (fun acc r => (vadd acc.1 (vscale (size r.1 : Rat) r.2), acc.2 + (size r.1 : Rat))) (z, w)).2
      = w + (results.map fun r => (size r.1 : Rat)).sum := by
  induction results generalizing z w with
  | nil => simp
  | cons r rs ih =>
    simp only [List.foldl_cons, List.map_cons, List.sum_cons]
    rw [ih]; ring

theorem cast_sum_nat (l : List Nat) : (Nat.cast (List.sum l) : Rat) = (l.map fun (n : Nat) => (n : Rat)).sum := by
  induction l with
  | nil => simp
  | cons x l ih => simp [List.sum_cons, ih]

/-- total weight seen by the aggregation = total number of examples (distinct ids) -/
theorem accumulate_total {ι β} [DecidableEq ι] (cl : List (Client ι β)) (hnd : (cl.map (·.id)).Nodup)
    (f : Client ι β → P) (z : P) :
    (accumulate (FedAvg.sizeOf cl) z (cl.map fun c => (c.id, f c))).2
      = (Nat.cast (List.sum (cl.map fun c => c.size)) : Rat) := by
  unfold accumulate
  rw [accumulate_snd, cast_sum_nat, zero_add, List.map_map, List.map_map]
  congr 1
  apply List.map_congr_left
  intro c hc
  simp [Function.comp, sizeOf_of_mem cl hnd c hc]

theorem hypRound_single {ι β γ σc σs} [DecidableEq ι] (avgLoss : P → γ → Key → Rat)
    (splitN : Key → Nat → List Key) (grad : P → β → Key → P) (copt : Optimizer σc)
    (sopt : Optimizer σs) (cl : ServerState σs) (clients : List (HClient ι β γ)) :
    hypRound avgLoss splitN grad copt sopt [cl] clients
      = [hypServer sopt cl (hypDelta (accumulate (FedAvg.sizeOf (clients.map trainClient)) (vzero cl.params)
          (clientResults grad copt cl.params (clients.map trainClient))))] := by
  unfold hypRound
  simp only [List.map_cons, List.map_nil]
  have ha : dictGet (fun c : HClient ι β γ => c.id) (hypAssign avgLoss splitN [cl.params]) 0 clients
      = fun _ => 0 := by
    funext cid
    exact dictGet_const _ _ 0 clients (hypAssign_single avgLoss splitN cl.params) cid
  rw [ha, hypSums_single]
  have hs : FedAvg.sizeOf (clients.map (·.toClient)) = FedAvg.sizeOf (clients.map trainClient) :=
    sizeOf_map_congr _ _ clients (fun c => ⟨rfl, rfl⟩)
  have hr : hypResults grad copt [cl.params] (fun _ => 0) clients
      = clientResults grad copt cl.params (clients.map trainClient) := by
    unfold hypResults clientResults
    rw [List.map_map]
    apply List.map_congr_left
    intro c _
    rfl
  rw [hs, hr]
  rfl

/-- **HypCluster with a single cluster = FedAvg** on a cohort that saw at least one example: the
cluster's params and optimizer state after the round are FedAvg's, each client being trained with
the second half of its split key (`rng[1]`). -/
theorem C12_hyp_single {ι β γ σc σs} [DecidableEq ι] (avgLoss : P → γ → Key → Rat)
    (splitN : Key → Nat → List Key) (grad : P → β → Key → P) (copt : Optimizer σc)
    (sopt : Optimizer σs) (cl : ServerState σs) (clients : List (HClient ι β γ))
    (hnd : (clients.map (·.id)).Nodup) (hpos : 0 < (clients.map (·.size)).sum) :
    hypRound avgLoss splitN grad copt sopt [cl] clients
      = [round grad copt sopt cl (clients.map trainClient)] := by
  rw [hypRound_single]
  have hnd' : ((clients.map trainClient).map (·.id)).Nodup := by
    rw [List.map_map]; exact hnd
  have htot := accumulate_total (clients.map trainClient) hnd'
    (fun c => clientDelta grad copt cl.params c.batches c.key) (vzero cl.params)
  have hsz : ((clients.map trainClient).map (·.size)) = clients.map (·.size) := by
    rw [List.map_map]; rfl
  rw [hsz] at htot
  have hgt : (accumulate (FedAvg.sizeOf (clients.map trainClient)) (vzero cl.params)
      (clientResults grad copt cl.params (clients.map trainClient))).2 > 0 := by
    unfold clientResults
    rw [htot]
    exact_mod_cast hpos
  unfold hypDelta
  rw [if_pos hgt]
  rfl

/-- … and when the loss ignores its key, FedAvg on the very same clients (same keys). -/
theorem C12_hyp_single_keyfree {ι β γ σc σs} [DecidableEq ι] (avgLoss : P → γ → Key → Rat)
    (splitN : Key → Nat → List Key) (grad : P → β → Key → P) (copt : Optimizer σc)
    (sopt : Optimizer σs) (hk : KeyFree grad) (cl : ServerState σs) (clients : List (HClient ι β γ))
    (hnd : (clients.map (·.id)).Nodup) (hpos : 0 < (clients.map (·.size)).sum) :
    hypRound avgLoss splitN grad copt sopt [cl] clients
      = [round grad copt sopt cl (clients.map (·.toClient))] := by
  rw [C12_hyp_single avgLoss splitN grad copt sopt cl clients hnd hpos]
  have := round_keyfree grad copt sopt hk cl (clients.map (·.toClient)) (fun c => (split c.key).2)
  rw [List.map_map] at this
  rw [← this]
  rfl

theorem nat_sum_zero (l : List Nat) (h : l.sum = 0) : ∀ x ∈ l, x = 0 := by
  induction l with
  | nil => intro x hx; cases hx
  | cons y l ih =>
    simp only [List.sum_cons] at h
    intro x hx
    rcases List.mem_cons.mp hx with rfl | hx
    · omega
    · exact ih (by omega) x hx

/-- **single cluster, plain-SGD server**: no guard on the cohort — an example-free cohort leaves
both algorithms where they were. -/
theorem C12_hyp_single_sgd {ι β γ σc} [DecidableEq ι] (avgLoss : P → γ → Key → Rat)
    (splitN : Key → Nat → List Key) (grad : P → β → Key → P) (copt : Optimizer σc) (lr : Rat)
    (cl : ServerState Unit) (clients : List (HClient ι β γ))
    (hnd : (clients.map (·.id)).Nodup)
    (hlen : ∀ c ∈ clients,
      (clientDelta grad copt cl.params c.batches (split c.key).2).length = cl.params.length) :
    hypRound avgLoss splitN grad copt (sgd lr) [cl] clients
      = [round grad copt (sgd lr) cl (clients.map trainClient)] := by
  by_cases hpos : 0 < (clients.map (·.size)).sum
  · exact C12_hyp_single avgLoss splitN grad copt (sgd lr) cl clients hnd hpos
  · have hz : (clients.map (·.size)).sum = 0 := by omega
    have hzero : ∀ c ∈ clients.map trainClient, c.size = 0 := by
      intro c hc
      obtain ⟨c0, hc0, rfl⟩ := List.mem_map.mp hc
      exact nat_sum_zero _ hz _ (List.mem_map.mpr ⟨c0, hc0, rfl⟩)
    have hnd' : ((clients.map trainClient).map (·.id)).Nodup := by
      rw [List.map_map]; exact hnd
    have hlen' : ∀ c ∈ clients.map trainClient,
        (clientDelta grad copt cl.params c.batches c.key).length = cl.params.length := by
      intro c hc
      obtain ⟨c0, hc0, rfl⟩ := List.mem_map.mp hc
      exact hlen c0 hc0
    rw [C01_sgd_fixed_point grad copt lr cl _ hnd' hlen' hzero, hypRound_single]
    have htot := accumulate_total (clients.map trainClient) hnd'
      (fun c => clientDelta grad copt cl.params c.batches c.key) (vzero cl.params)
    have hsz : ((clients.map trainClient).map (·.size)) = clients.map (·.size) := by
      rw [List.map_map]; rfl
    rw [hsz, hz] at htot
    have hng : ¬ (accumulate (FedAvg.sizeOf (clients.map trainClient)) (vzero cl.params)
        (clientResults grad copt cl.params (clients.map trainClient))).2 > 0 := by
      unfold clientResults
      rw [htot]; simp
    unfold hypDelta
    rw [if_neg hng]
    rfl

/-- **round after round** (every cohort of the history saw at least one example) -/
theorem C12_hyp_single_rounds {ι β γ σc σs} [DecidableEq ι] (avgLoss : P → γ → Key → Rat)
    (splitN : Key → Nat → List Key) (grad : P → β → Key → P) (copt : Optimizer σc)
    (sopt : Optimizer σs) (cl : ServerState σs) (cohorts : List (List (HClient ι β γ)))
    (h : ∀ co ∈ cohorts, (co.map (·.id)).Nodup ∧ 0 < (co.map (·.size)).sum) :
    hypRounds avgLoss splitN grad copt sopt [cl] cohorts
      = [rounds grad copt sopt cl (cohorts.map fun co => co.map trainClient)] := by
  induction cohorts generalizing cl with
  | nil => rfl
  | cons co rest ih =>
    have hco := h co List.mem_cons_self
    unfold hypRounds rounds
    simp only [List.foldl_cons, List.map_cons]
    rw [C12_hyp_single avgLoss splitN grad copt sopt cl co hco.1 hco.2]
    exact ih _ (fun co' hco' => h co' (List.mem_cons_of_mem _ hco'))

theorem rounds_keyfree {ι β σc σs} [DecidableEq ι] (grad : P → β → Key → P) (copt : Optimizer σc)
    (sopt : Optimizer σs) (hk : KeyFree grad) (s : ServerState σs) (cohorts : List (List (Client ι β)))
    (f : Client ι β → Key) :
    rounds grad copt sopt s (cohorts.map fun co => co.map fun c => ⟨c.id, c.size, c.batches, f c⟩)
      = rounds grad copt sopt s cohorts := by
  induction cohorts generalizing s with
  | nil => rfl
  | cons co rest ih =>
    unfold rounds
    simp only [List.foldl_cons, List.map_cons]
    rw [round_keyfree grad copt sopt hk s co f]
    exact ih _

theorem C12_hyp_single_rounds_keyfree {ι β γ σc σs} [DecidableEq ι] (avgLoss : P → γ → Key → Rat)
    (splitN : Key → Nat → List Key) (grad : P → β → Key → P) (copt : Optimizer σc)
    (sopt : Optimizer σs) (hk : KeyFree grad) (cl : ServerState σs)
    (cohorts : List (List (HClient ι β γ)))
    (h : ∀ co ∈ cohorts, (co.map (·.id)).Nodup ∧ 0 < (co.map (·.size)).sum) :
    hypRounds avgLoss splitN grad copt sopt [cl] cohorts
      = [rounds grad copt sopt cl (cohorts.map fun co => co.map (·.toClient))] := by
  rw [C12_hyp_single_rounds avgLoss splitN grad copt sopt cl cohorts h]
  have := rounds_keyfree grad copt sopt hk cl (cohorts.map fun co => co.map (·.toClient))
    (fun c => (split c.key).2)
  rw [← this]
  congr 2
  rw [List.map_map]
  apply List.map_congr_left
  intro co _
  simp only [Function.comp, List.map_map]
  rfl

/-! ## MimeLite -/

/-- an optimizer whose state is frozen at `st`: MimeLite's local steps -/
def freeze {σ} (base : Optimizer σ) (st : σ) : Optimizer Unit :=
  { init := fun _ => (), apply := fun g _ p => ((), (base.apply g st p).2) }

theorem freeze_sgd (lr : Rat) : freeze (sgd lr) () = sgd lr := rfl

theorem mimeLiteFold_sim {β σ} (grad : P → β → Key → P) (base : Optimizer σ) (st : σ)
    (batches : List β) (x : P × Key) :
    (batches.foldl (mimeLiteClientStep grad base st) x).1
      = (batches.foldl (clientStep grad (freeze base st)) ⟨x.1, (), x.2⟩).params := by
  induction batches generalizing x with
  | nil => rfl
  | cons b bs ih =>
    simp only [List.foldl_cons]
    rw [ih]
    rfl

theorem mimeLiteClientDelta_eq {β σ} (grad : P → β → Key → P) (base : Optimizer σ) (st : σ)
    (server : P) (batches : List β) (key : Key) :
    mimeLiteClientDelta grad base st server batches key
      = clientDelta grad (freeze base st) server batches key := by
  unfold mimeLiteClientDelta clientDelta
  rw [mimeLiteFold_sim]
  rfl

theorem vsub_vscale (c : Rat) (p v : P) : vsub p (vscale c v) = vadd p (vscale (-c) v) := by
  unfold vsub vadd vscale
  rw [List.zipWith_map_right, List.zipWith_map_right]
  congr 1
  funext a b
  ring

theorem serverGrads_some {ι β} (grad : P → β → Key → P) (params : P) (clients : List (GClient ι β))
    (hne : clients ≠ []) : ∃ sg, serverGrads grad params clients = some sg := by
  cases clients with
  | nil => exact absurd rfl hne
  | cons c cs => exact ⟨_, rfl⟩

/-- **MimeLite, any base optimizer**: without clipping, the new parameters are those of FedAvg with
the base optimizer *frozen at the server's optimizer state* as client optimizer and plain SGD with
the server learning rate as server optimizer. -/
theorem C12_mimelite_frozen {ι β σ} [DecidableEq ι] (nrm : P → Rat) (grad : P → β → Key → P)
    (base : Optimizer σ) (lr : Rat) (s : ServerState σ) (clients : List (GClient ι β))
    (hne : clients ≠ []) :
    ∃ sg, serverGrads grad s.params clients = some sg ∧
      mimeLiteRound nrm none grad base lr s clients
        = some { params := (round grad (freeze base s.opt) (sgd lr) ⟨s.params, ()⟩
                    (clients.map (·.toClient))).params,
                 opt := (base.apply sg s.opt s.params).1 } := by
  obtain ⟨sg, hsg⟩ := serverGrads_some grad s.params clients hne
  refine ⟨sg, hsg, ?_⟩
  unfold mimeLiteRound
  simp only [hsg]
  have hr : mimeLiteResults nrm none grad base s clients
      = clientResults grad (freeze base s.opt) s.params (clients.map (·.toClient)) := by
    unfold mimeLiteResults clientResults maybeClip
    rw [List.map_map]
    apply List.map_congr_left
    intro c _
    simp only [Function.comp]
    rw [mimeLiteClientDelta_eq]
  rw [hr, vsub_vscale]
  rfl

/-- **MimeLite with plain SGD as base optimizer = FedAvg with SGD(η) clients and SGD(server lr)
server** — the whole server state; server learning rate 1 is the case named in the property. -/
theorem C12_mimelite_sgd_lr {ι β} [DecidableEq ι] (nrm : P → Rat) (grad : P → β → Key → P)
    (η lr : Rat) (s : ServerState Unit) (clients : List (GClient ι β)) (hne : clients ≠ []) :
    mimeLiteRound nrm none grad (sgd η) lr s clients
      = some (round grad (sgd η) (sgd lr) s (clients.map (·.toClient))) := by
  obtain ⟨sg, _, h⟩ := C12_mimelite_frozen nrm grad (sgd η) lr s clients hne
  rw [h]
  rfl

theorem C12_mimelite_sgd {ι β} [DecidableEq ι] (nrm : P → Rat) (grad : P → β → Key → P)
    (η : Rat) (s : ServerState Unit) (clients : List (GClient ι β)) (hne : clients ≠ []) :
    mimeLiteRound nrm none grad (sgd η) 1 s clients
      = some (round grad (sgd η) (sgd 1) s (clients.map (·.toClient))) :=
  C12_mimelite_sgd_lr nrm grad η 1 s clients hne

/-- … round after round (non-empty cohorts; the code raises on an empty one). -/
theorem C12_mimelite_sgd_rounds {ι β} [DecidableEq ι] (nrm : P → Rat) (grad : P → β → Key → P)
    (η lr : Rat) (s : ServerState Unit) (cohorts : List (List (GClient ι β)))
    (hne : ∀ co ∈ cohorts, co ≠ []) :
    mimeLiteRounds nrm none grad (sgd η) lr s cohorts
      = some (rounds grad (sgd η) (sgd lr) s (cohorts.map fun co => co.map (·.toClient))) := by
  induction cohorts generalizing s with
  | nil => rfl
  | cons co rest ih =>
    unfold mimeLiteRounds rounds
    simp only [List.foldlM_cons, List.foldl_cons, List.map_cons]
    rw [C12_mimelite_sgd_lr nrm grad η lr s co (hne co List.mem_cons_self)]
    exact ih _ (fun co' hco' => hne co' (List.mem_cons_of_mem _ hco'))

/-! ## APFL: the global model -/

theorem apflFold_server {β σc} (split3 : Key → Key × Key × Key) (seg : List Nat)
    (grad : P → β → Key → P) (copt : Optimizer σc) (hk : KeyFree grad) (batches : List β)
    (st : ApflStepState σc) (st' : ClientState σc)
    (hp : st.serverParams = st'.params) (ho : st.serverOpt = st'.opt) :
    (batches.foldl (apflClientStep split3 seg grad copt) st).serverParams
      = (batches.foldl (clientStep grad copt) st').params := by
  induction batches generalizing st st' with
  | nil => exact hp
  | cons b bs ih =>
    simp only [List.foldl_cons]
    apply ih
    · simp only [apflClientStep, clientStep, split, hp, ho]
      rw [hk st'.params b (split3 st.rng).2.1 (st'.rng ++ [true])]
    · simp only [apflClientStep, clientStep, split, hp, ho]
      rw [hk st'.params b (split3 st.rng).2.1 (st'.rng ++ [true])]

theorem apflOutputs_deltas {ι β σc σs} [DecidableEq ι] (split3 : Key → Key × Key × Key)
    (seg : List Nat) (grad : P → β → Key → P) (copt : Optimizer σc) (hk : KeyFree grad) (coef0 : Rat)
    (s : ApflServerState σs ι) (clients : List (Client ι β)) :
    (apflOutputs split3 seg grad copt coef0 s clients).map (fun o => (o.1, o.2.2))
      = clientResults grad copt s.params clients := by
  unfold apflOutputs clientResults
  rw [List.map_map]
  apply List.map_congr_left
  intro c _
  simp only [Function.comp, clientDelta, apflClientRun]
  rw [apflFold_server split3 seg grad copt hk c.batches _ (clientInit copt s.params c.key) rfl rfl]

def apflGlobal {σs ι} (s : ApflServerState σs ι) : ServerState σs := ⟨s.params, s.opt⟩

/-- **APFL's global model = FedAvg** when the loss ignores its key: server params and server
optimizer state after a round are FedAvg's, whatever the personal models and coefficients do. -/
theorem C12_apfl_global {ι β σc σs} [DecidableEq ι] (split3 : Key → Key × Key × Key)
    (seg : List Nat) (grad : P → β → Key → P) (copt : Optimizer σc) (sopt : Optimizer σs)
    (hk : KeyFree grad) (coef0 : Rat) (s : ApflServerState σs ι) (clients : List (Client ι β)) :
    apflGlobal (apflRound split3 seg grad copt sopt coef0 s clients)
      = round grad copt sopt (apflGlobal s) clients := by
  unfold apflRound FedAvg.round apflGlobal
  simp only
  rw [apflOutputs_deltas split3 seg grad copt hk coef0 s clients]

theorem C12_apfl_global_rounds {ι β σc σs} [DecidableEq ι] (split3 : Key → Key × Key × Key)
    (seg : List Nat) (grad : P → β → Key → P) (copt : Optimizer σc) (sopt : Optimizer σs)
    (hk : KeyFree grad) (coef0 : Rat) (s : ApflServerState σs ι) (cohorts : List (List (Client ι β))) :
    apflGlobal (apflRounds split3 seg grad copt sopt coef0 s cohorts)
      = rounds grad copt sopt (apflGlobal s) cohorts := by
  induction cohorts generalizing s with
  | nil => rfl
  | cons co rest ih =>
    unfold apflRounds rounds
    simp only [List.foldl_cons]
    rw [← C12_apfl_global split3 seg grad copt sopt hk coef0 s co]
    exact ih _

/-! ## Mime with plain SGD and a single local step -/

theorem gradsFold_length {β} (grad : P → β → Key → P) (hgrad : ∀ p b k, (grad p b k).length = p.length)
    (params : P) (gb : List (β × Nat)) (st : Key × P × Rat) (h : st.2.1.length = params.length) :
    (gb.foldl (fun (st : Key × P × Rat) b =>
      ((split st.1).1, vadd (vscale (b.2 : Rat) (grad params b.1 (split st.1).2)) st.2.1,
        st.2.2 + (b.2 : Rat))) st).2.1.length = params.length := by
  induction gb generalizing st with
  | nil => exact h
  | cons b bs ih =>
    simp only [List.foldl_cons]
    apply ih
    simp [vadd_length, vscale_length, hgrad, h]

theorem gradsClient_length {β} (grad : P → β → Key → P) (hgrad : ∀ p b k, (grad p b k).length = p.length)
    (params : P) (gb : List (β × Nat)) (key : Key) :
    (gradsClient grad params gb key).1.length = params.length := by
  unfold gradsClient
  exact gradsFold_length grad hgrad params gb (key, vzero params, 0) (by simp [vzero])

theorem treeFold_length (d : Nat) (rest : List (P × Rat)) (h : ∀ x ∈ rest, x.1.length = d) (x : P × Rat)
    (hx : x.1.length = d) :
    (rest.foldl (fun acc y => (vadd acc.1 y.1, acc.2 + y.2)) x).1.length = d := by
  induction rest generalizing x with
  | nil => exact hx
  | cons y ys ih =>
    simp only [List.foldl_cons]
    apply ih (fun z hz => h z (List.mem_cons_of_mem _ hz))
    simp [vadd_length, hx, h y List.mem_cons_self]

theorem serverGrads_length {ι β} (grad : P → β → Key → P)
    (hgrad : ∀ p b k, (grad p b k).length = p.length) (params : P) (clients : List (GClient ι β))
    (sg : P) (h : serverGrads grad params clients = some sg) : sg.length = params.length := by
  unfold serverGrads at h
  cases clients with
  | nil => simp [treeSum] at h
  | cons c cs =>
    simp only [List.map_cons, treeSum, Option.map_some, Option.some.injEq] at h
    rw [← h]
    unfold inverseWeight
    rw [vscale_length]
    apply treeFold_length
    · intro x hx
      obtain ⟨c', _, rfl⟩ := List.mem_map.mp hx
      exact gradsClient_length grad hgrad params _ _
    · exact gradsClient_length grad hgrad params _ _

/-- one corrected SGD step from the server params moves by `η·G` whatever the batch: the two
gradients at the server params cancel and the control variate `G` remains -/
theorem mime_step_delta (η : Rat) (p g G : P) (hg : g.length = p.length) (hG : G.length = p.length) :
    vsub p (vadd p (vscale (-η) (vadd (vsub g g) G))) = vscale η G := by
  apply List.ext_getElem?
  intro j
  by_cases hj : j < p.length
  · have h1 : p[j]? = some p[j] := List.getElem?_eq_getElem hj
    have h2 : g[j]? = some (g[j]'(hg ▸ hj)) := List.getElem?_eq_getElem (hg ▸ hj)
    have h3 : G[j]? = some (G[j]'(hG ▸ hj)) := List.getElem?_eq_getElem (hG ▸ hj)
    simp only [vsub, vadd, vscale, List.getElem?_zipWith, List.getElem?_map, h1, h2, h3, Option.map_some]
    congr 1
    ring
  · have hj' : p.length ≤ j := Nat.le_of_not_lt hj
    have h1 : p[j]? = none := List.getElem?_eq_none hj'
    have h3 : G[j]? = none := List.getElem?_eq_none (hG ▸ hj')
    simp [vsub, vadd, vscale, List.getElem?_zipWith, h1, h3]

theorem vsub_self_zero (p : P) : vsub p p = vzero p := by
  unfold vsub vzero
  induction p with
  | nil => rfl
  | cons x p ih => simp [List.zipWith_cons_cons]

theorem mimeClientDelta_cases {β} (grad : P → β → Key → P)
    (hgrad : ∀ p b k, (grad p b k).length = p.length) (η : Rat) (p G : P) (hG : G.length = p.length)
    (batches : List β) (key : Key) (hle : batches.length ≤ 1) :
    (mimeClientDelta grad (sgd η) () p G batches key).length = p.length ∧
      (batches.length = 1 → mimeClientDelta grad (sgd η) () p G batches key = vscale η G) := by
  match batches, hle with
  | [], _ =>
    refine ⟨?_, fun h => by simp at h⟩
    simp [mimeClientDelta, vsub]
  | [b], _ =>
    have : mimeClientDelta grad (sgd η) () p G [b] key = vscale η G := by
      simp only [mimeClientDelta, List.foldl_cons, List.foldl_nil, mimeClientStep, sgd, split]
      exact mime_step_delta η p _ G (hgrad _ _ _) hG
    exact ⟨by rw [this, vscale_length, hG], fun _ => this⟩

theorem accumulate_const {ι} (size : ι → Nat) (d : Nat) (D : P) (hD : D.length = d)
    (results : List (ι × P)) (h : ∀ r ∈ results, r.2.length = d ∧ (size r.1 = 0 ∨ r.2 = D))
    (z : P) (hz : z.length = d) (w : Rat) :
    results.foldl (fun acc r => (vadd acc.1 (vscale (size r.1 : Rat) r.2), acc.2 + (size r.1 : Rat))) (z, w)
      = (vadd z (vscale ((results.map fun r => (size r.1 : Rat)).sum) D),
         w + (results.map fun r => (size r.1 : Rat)).sum) := by
  induction results generalizing z w with
  | nil =>
    simp only [List.foldl_nil, List.map_nil, List.sum_nil, add_zero, Prod.mk.injEq, and_true]
    apply List.ext_getElem?
    intro j
    by_cases hj : j < d
    · have h1 : z[j]? = some (z[j]'(hz ▸ hj)) := List.getElem?_eq_getElem (hz ▸ hj)
      have h2 : D[j]? = some (D[j]'(hD ▸ hj)) := List.getElem?_eq_getElem (hD ▸ hj)
      simp only [vadd, vscale, List.getElem?_zipWith, List.getElem?_map, h1, h2, Option.map_some]
      congr 1
      ring
    · have h1 : z[j]? = none := List.getElem?_eq_none (by omega)
      simp [vadd, List.getElem?_zipWith, h1]
  | cons r rs ih =>
    have hr := h r List.mem_cons_self
    have hz' : (vadd z (vscale (size r.1 : Rat) r.2)).length = d := by
      simp [vadd_length, vscale_length, hz, hr.1]
    simp only [List.foldl_cons, List.map_cons, List.sum_cons]
    rw [ih (fun r' hr' => h r' (List.mem_cons_of_mem _ hr')) _ hz']
    simp only [Prod.mk.injEq]
    refine ⟨?_, by ring⟩
    apply List.ext_getElem?
    intro j
    by_cases hj : j < d
    · have h1 : z[j]? = some (z[j]'(hz ▸ hj)) := List.getElem?_eq_getElem (hz ▸ hj)
      have h2 : D[j]? = some (D[j]'(hD ▸ hj)) := List.getElem?_eq_getElem (hD ▸ hj)
      have h3 : r.2[j]? = some (r.2[j]'(hr.1 ▸ hj)) := List.getElem?_eq_getElem (hr.1 ▸ hj)
      rcases hr.2 with h0 | hrD
      · simp only [vadd, vscale, List.getElem?_zipWith, List.getElem?_map, h1, h2, h3, Option.map_some, h0]
        congr 1
        push_cast
        ring
      · have h3' : r.2[j]? = some (D[j]'(hD ▸ hj)) := by rw [hrD]; exact h2
        simp only [vadd, vscale, List.getElem?_zipWith, List.getElem?_map, h1, h2, h3', Option.map_some]
        congr 1
        ring
    · have h1 : z[j]? = none := List.getElem?_eq_none (by omega)
      simp [vadd, List.getElem?_zipWith, h1]

theorem mean_of_const (N : Rat) (hN : 0 < N) (p D : P) (hD : D.length = p.length) :
    inverseWeight (vadd (vzero p) (vscale N D)) N = D := by
  unfold inverseWeight
  rw [if_pos hN]
  apply List.ext_getElem?
  intro j
  by_cases hj : j < p.length
  · have h1 : p[j]? = some p[j] := List.getElem?_eq_getElem hj
    have h2 : D[j]? = some (D[j]'(hD ▸ hj)) := List.getElem?_eq_getElem (hD ▸ hj)
    simp only [vadd, vscale, vzero, List.getElem?_zipWith, List.getElem?_map, h1, h2, Option.map_some]
    congr 1
    field_simp
    ring
  · have h2 : D[j]? = none := List.getElem?_eq_none (by omega)
    simp [vadd, vscale, List.getElem?_zipWith, h2]

theorem mime_results_spec {ι β} [DecidableEq ι] (grad : P → β → Key → P)
    (hgrad : ∀ p b k, (grad p b k).length = p.length) (η : Rat) (p G : P) (hG : G.length = p.length)
    (clients : List (GClient ι β)) (hnd : (clients.map (·.id)).Nodup)
    (hone : ∀ c ∈ clients, c.batches.length ≤ 1 ∧ (c.size ≠ 0 → c.batches.length = 1)) :
    ∀ r ∈ clients.map (fun c => (c.id, mimeClientDelta grad (sgd η) () p G c.batches c.key)),
      r.2.length = p.length ∧
        (FedAvg.sizeOf (clients.map (·.toClient)) r.1 = 0 ∨ r.2 = vscale η G) := by
  intro r hr
  obtain ⟨c, hc, rfl⟩ := List.mem_map.mp hr
  have hcases := mimeClientDelta_cases grad hgrad η p G hG c.batches c.key (hone c hc).1
  refine ⟨hcases.1, ?_⟩
  have hnd' : ((clients.map (·.toClient)).map (·.id)).Nodup := by
    rw [List.map_map]; exact hnd
  have hsz : FedAvg.sizeOf (clients.map (·.toClient)) c.id = c.size :=
    sizeOf_of_mem (clients.map (·.toClient)) hnd' c.toClient (List.mem_map.mpr ⟨c, hc, rfl⟩)
  by_cases h0 : c.size = 0
  · left; simp only; rw [hsz, h0]
  · right; exact hcases.2 ((hone c hc).2 h0)

/-- **Mime, plain SGD(η), exactly one local step per client with examples**: the round is one
full-batch gradient step `p − η_server·η·G`, `G` being the example-weighted gradient of the cohort
at the server params that the first pass computes (`serverGrads`). -/
theorem C12_mime_one_step {ι β} [DecidableEq ι] (grad : P → β → Key → P)
    (hgrad : ∀ p b k, (grad p b k).length = p.length) (η lr : Rat) (s : ServerState Unit)
    (clients : List (GClient ι β)) (hnd : (clients.map (·.id)).Nodup)
    (hone : ∀ c ∈ clients, c.batches.length ≤ 1 ∧ (c.size ≠ 0 → c.batches.length = 1))
    (hpos : 0 < (clients.map (·.size)).sum) :
    ∃ G, serverGrads grad s.params clients = some G ∧
      mimeRound grad (sgd η) lr s clients
        = some ⟨vsub s.params (vscale lr (vscale η G)), ()⟩ := by
  have hne : clients ≠ [] := by
    intro h; rw [h] at hpos; simp at hpos
  obtain ⟨G, hG⟩ := serverGrads_some grad s.params clients hne
  have hGl := serverGrads_length grad hgrad s.params clients G hG
  refine ⟨G, hG, ?_⟩
  unfold mimeRound
  simp only [hG]
  have hspec := mime_results_spec grad hgrad η s.params G hGl clients hnd hone
  have hacc := accumulate_const (FedAvg.sizeOf (clients.map (·.toClient))) s.params.length (vscale η G)
    (by rw [vscale_length, hGl]) _ hspec (vzero s.params) (by simp [vzero]) 0
  have hnd' : ((clients.map (·.toClient)).map (·.id)).Nodup := by
    rw [List.map_map]; exact hnd
  have htot := accumulate_total (clients.map (·.toClient)) hnd'
    (fun c => mimeClientDelta grad (sgd η) () s.params G c.batches c.key) (vzero s.params)
  have hsz : ((clients.map (·.toClient)).map (·.size)) = clients.map (·.size) := by
    rw [List.map_map]; rfl
  rw [hsz, List.map_map] at htot
  unfold accumulate at htot ⊢
  have hres : (List.map (fun c : GClient ι β => (c.id, mimeClientDelta grad (sgd η) () s.params G c.batches c.key)) clients)
      = List.map ((fun c : Client ι β => (c.id, mimeClientDelta grad (sgd η) () s.params G c.batches c.key)) ∘ fun c => c.toClient) clients := rfl
  rw [← hres] at htot
  rw [hacc] at htot ⊢
  simp only [zero_add] at htot ⊢
  rw [htot]
  have hN : (0 : Rat) < (Nat.cast (List.sum (clients.map fun c => c.size)) : Rat) := by exact_mod_cast hpos
  rw [mean_of_const _ hN s.params (vscale η G) (by rw [vscale_length, hGl])]

/-- … and a cohort without any example leaves the parameters where they were. -/
theorem C12_mime_one_step_empty {ι β} [DecidableEq ι] (grad : P → β → Key → P)
    (hgrad : ∀ p b k, (grad p b k).length = p.length) (η lr : Rat) (s : ServerState Unit)
    (clients : List (GClient ι β)) (hne : clients ≠ []) (hnd : (clients.map (·.id)).Nodup)
    (hone : ∀ c ∈ clients, c.batches.length ≤ 1 ∧ (c.size ≠ 0 → c.batches.length = 1))
    (hzero : (clients.map (·.size)).sum = 0) :
    mimeRound grad (sgd η) lr s clients = some s := by
  obtain ⟨G, hG⟩ := serverGrads_some grad s.params clients hne
  have hGl := serverGrads_length grad hgrad s.params clients G hG
  unfold mimeRound
  simp only [hG]
  have hspec := mime_results_spec grad hgrad η s.params G hGl clients hnd hone
  have hacc := accumulate_const (FedAvg.sizeOf (clients.map (·.toClient))) s.params.length (vscale η G)
    (by rw [vscale_length, hGl]) _ hspec (vzero s.params) (by simp [vzero]) 0
  have hnd' : ((clients.map (·.toClient)).map (·.id)).Nodup := by
    rw [List.map_map]; exact hnd
  have htot := accumulate_total (clients.map (·.toClient)) hnd'
    (fun c => mimeClientDelta grad (sgd η) () s.params G c.batches c.key) (vzero s.params)
  have hsz : ((clients.map (·.toClient)).map (·.size)) = clients.map (·.size) := by
    rw [List.map_map]; rfl
  rw [hsz, List.map_map, hzero] at htot
  unfold accumulate at htot ⊢
  have hres : (List.map (fun c : GClient ι β => (c.id, mimeClientDelta grad (sgd η) () s.params G c.batches c.key)) clients)
      = List.map ((fun c : Client ι β => (c.id, mimeClientDelta grad (sgd η) () s.params G c.batches c.key)) ∘ fun c => c.toClient) clients := rfl
  rw [← hres] at htot
  rw [hacc] at htot ⊢
  simp only [zero_add, Nat.cast_zero] at htot ⊢
  rw [htot]
  have : vsub s.params (vscale lr (inverseWeight (vadd (vzero s.params) (vscale 0 (vscale η G))) 0)) = s.params := by
    apply List.ext_getElem?
    intro j
    by_cases hj : j < s.params.length
    · have h1 : s.params[j]? = some s.params[j] := List.getElem?_eq_getElem hj
      have h2 : G[j]? = some (G[j]'(hGl ▸ hj)) := List.getElem?_eq_getElem (hGl ▸ hj)
      have hn : ¬ ((0 : Rat) > 0) := lt_irrefl 0
      simp only [inverseWeight, if_neg hn, vsub, vadd, vscale, vzero, List.getElem?_zipWith,
        List.getElem?_map, h1, h2, Option.map_some]
      congr 1
      ring
    · have h1 : s.params[j]? = none := List.getElem?_eq_none (by omega)
      simp [vsub, List.getElem?_zipWith, h1]
  rw [this]

/-! ## Mime: what `G` is, and multi-round -/

/-- the `(number of examples, gradient)` terms of one client's gradient pass, with the documented
key chain (`rng, use_rng = split(rng)` per batch) -/
def gradTerms {β} (grad : P → β → Key → P) (params : P) : List (β × Nat) → Key → List (Nat × P)
  | [], _ => []
  | b :: bs, key => (b.2, grad params b.1 (split key).2) :: gradTerms grad params bs (split key).1

theorem gradsFold_eq {β} (grad : P → β → Key → P) (params : P) (gb : List (β × Nat)) (key : Key)
    (a : P) (w : Rat) :
    (gb.foldl (fun (st : Key × P × Rat) b =>
        ((split st.1).1, vadd (vscale (b.2 : Rat) (grad params b.1 (split st.1).2)) st.2.1,
          st.2.2 + (b.2 : Rat))) (key, a, w)).2
      = (gradTerms grad params gb key).foldl
          (fun acc r => (vadd acc.1 (vscale ((id r.1 : Nat) : Rat) r.2), acc.2 + ((id r.1 : Nat) : Rat))) (a, w) := by
  induction gb generalizing key a w with
  | nil => rfl
  | cons b bs ih =>
    simp only [List.foldl_cons, gradTerms]
    rw [ih, vadd_comm (vscale (b.2 : Rat) (grad params b.1 (split key).2)) a]
    rfl

theorem gradsClient_eq_accumulate {β} (grad : P → β → Key → P) (params : P) (gb : List (β × Nat))
    (key : Key) :
    gradsClient grad params gb key = accumulate id (vzero params) (gradTerms grad params gb key) := by
  unfold gradsClient accumulate
  exact gradsFold_eq grad params gb key (vzero params) 0

theorem gradTerms_length {β} (grad : P → β → Key → P) (hgrad : ∀ p b k, (grad p b k).length = p.length)
    (params : P) (gb : List (β × Nat)) (key : Key) :
    ∀ r ∈ gradTerms grad params gb key, r.2.length = params.length := by
  induction gb generalizing key with
  | nil => intro r hr; cases hr
  | cons b bs ih =>
    intro r hr
    simp only [gradTerms, List.mem_cons] at hr
    rcases hr with rfl | hr
    · exact hgrad _ _ _
    · exact ih _ r hr

/-- adding the accumulated sums of a further block of terms = accumulating over the concatenation -/
theorem accumulate_append_add (d : Nat) (t1 t2 : List (Nat × P)) (z : P) (hz : z.length = d)
    (h1 : ∀ r ∈ t1, r.2.length = d) (h2 : ∀ r ∈ t2, r.2.length = d) :
    (vadd (accumulate id z t1).1 (accumulate id (vzero z) t2).1,
      (accumulate id z t1).2 + (accumulate id (vzero z) t2).2) = accumulate id z (t1 ++ t2) := by
  have hzz : (vzero z).length = d := by simp [vzero, hz]
  obtain ⟨a1, a2, a3⟩ := accumulate_spec id d t1 h1 z 0 hz
  obtain ⟨b1, b2, b3⟩ := accumulate_spec id d t2 h2 (vzero z) 0 hzz
  obtain ⟨c1, c2, c3⟩ := accumulate_spec id d (t1 ++ t2)
    (fun r hr => (List.mem_append.mp hr).elim (h1 r) (h2 r)) z 0 hz
  unfold accumulate
  apply Prod.ext
  · apply List.ext_getElem?
    intro j
    by_cases hj : j < d
    · simp only
      rw [c3 j hj, vadd_getElem? _ _ j _ _ (a3 j hj) (b3 j hj)]
      have hzj : (vzero z)[j]? = some 0 := vzero_getElem? z j (hz ▸ hj)
      simp only [hzj, Option.getD_some, List.map_append, List.sum_append]
      congr 1; ring
    · have hj' : d ≤ j := Nat.le_of_not_lt hj
      simp only
      rw [List.getElem?_eq_none, List.getElem?_eq_none]
      all_goals first
        | (rw [c1]; exact hj')
        | (rw [vadd_length, a1, b1]; simpa using hj')
  · simp only
    rw [a2, b2, c2]
    simp only [List.map_append, List.sum_append]; ring

theorem treeFold_eq_accumulate (d : Nat) (z : P) (hz : z.length = d) (blocks : List (List (Nat × P)))
    (hb : ∀ t ∈ blocks, ∀ r ∈ t, r.2.length = d) (t0 : List (Nat × P)) (h0 : ∀ r ∈ t0, r.2.length = d) :
    (blocks.map fun t => accumulate id (vzero z) t).foldl (fun acc y => (vadd acc.1 y.1, acc.2 + y.2))
        (accumulate id z t0)
      = accumulate id z (t0 ++ blocks.flatten) := by
  induction blocks generalizing t0 with
  | nil => simp
  | cons t ts ih =>
    simp only [List.map_cons, List.foldl_cons, List.flatten_cons]
    rw [accumulate_append_add d t0 t z hz h0 (hb t List.mem_cons_self),
      ih (fun t' ht' => hb t' (List.mem_cons_of_mem _ ht')) (t0 ++ t)
        (fun r hr => (List.mem_append.mp hr).elim (h0 r) (hb t List.mem_cons_self r)),
      List.append_assoc]

theorem vzero_vzero (z : P) : vzero (vzero z) = vzero z := by simp [vzero]

/-- **What `G` is.** The control variate / server gradient of Mime and MimeLite is the
example-count-weighted mean (`wmean`, coordinate-wise `Σ nᵦ·gᵦ / Σ nᵦ`, zero when no example) of the
batch gradients at the server params over *all* gradient batches of *all* clients of the cohort —
for a `grad` that is the mean per-example gradient of its batch, the full-batch gradient of the
cohort. -/
theorem C12_mime_G_formula {ι β} (grad : P → β → Key → P)
    (hgrad : ∀ p b k, (grad p b k).length = p.length) (params : P) (clients : List (GClient ι β))
    (hne : clients ≠ []) :
    serverGrads grad params clients
      = some (wmean params.length
          (clients.map fun c => gradTerms grad params c.gbatches c.key).flatten) := by
  cases clients with
  | nil => exact absurd rfl hne
  | cons c cs =>
    unfold serverGrads
    simp only [List.map_cons, treeSum, Option.map_some, Option.some.injEq]
    have hlen : ∀ t ∈ (cs.map fun c => gradTerms grad params c.gbatches c.key), ∀ r ∈ t,
        r.2.length = params.length := by
      intro t ht r hr
      obtain ⟨c', _, rfl⟩ := List.mem_map.mp ht
      exact gradTerms_length grad hgrad params _ _ r hr
    have h0 := gradTerms_length grad hgrad params c.gbatches c.key
    have hfold := treeFold_eq_accumulate params.length (vzero params) (by simp [vzero])
      (cs.map fun c => gradTerms grad params c.gbatches c.key) hlen
      (gradTerms grad params c.gbatches c.key) h0
    rw [vzero_vzero] at hfold
    have hmap : (cs.map fun c => gradsClient grad params c.gbatches c.key)
        = ((cs.map fun c => gradTerms grad params c.gbatches c.key).map fun t =>
            accumulate id (vzero params) t) := by
      rw [List.map_map]
      apply List.map_congr_left
      intro c' _
      exact gradsClient_eq_accumulate grad params _ _
    rw [hmap, gradsClient_eq_accumulate, hfold, List.flatten_cons]
    -- coordinates of the accumulated sums = the weighted mean
    have hall : ∀ r ∈ gradTerms grad params c.gbatches c.key ++
        (cs.map fun c => gradTerms grad params c.gbatches c.key).flatten, r.2.length = params.length := by
      intro r hr
      rcases List.mem_append.mp hr with h | h
      · exact h0 r h
      · obtain ⟨t, ht, hrt⟩ := List.mem_flatten.mp h
        exact hlen t ht r hrt
    generalize gradTerms grad params c.gbatches c.key ++
        (cs.map fun c => gradTerms grad params c.gbatches c.key).flatten = terms at hall
    obtain ⟨h1, h2, h3⟩ := accumulate_spec id params.length terms hall (vzero params) 0 (by simp [vzero])
    unfold accumulate
    apply List.ext_getElem?
    intro j
    unfold inverseWeight wmean
    rw [vscale_getElem?]
    by_cases hj : j < params.length
    · rw [h3 j hj, vzero_getElem? _ _ hj]
      simp only [Option.getD_some, Option.map_some, List.getElem?_map, List.getElem?_range hj, zero_add]
      rw [h2]
      unfold wmeanCoord
      simp only [zero_add, id]
      split
      · congr 1; ring
      · simp
    · have hj' : params.length ≤ j := Nat.le_of_not_lt hj
      rw [List.getElem?_eq_none (by rw [h1]; exact hj')]
      simp [List.getElem?_eq_none, hj']

/-- one Mime round as a gradient step on the cohort (the step function of `C12_mime_one_step`) -/
def mimeGD {ι β} (grad : P → β → Key → P) (η lr : Rat) (s : ServerState Unit) (clients : List (GClient ι β)) :
    ServerState Unit :=
  match serverGrads grad s.params clients with
  | some G => ⟨vsub s.params (vscale lr (vscale η G)), ()⟩
  | none => s

/-- **round after round**: under the one-step hypotheses a Mime history is the iteration of
full-batch gradient steps `p ← p − η_server·η·G(p, cohort)`. -/
theorem C12_mime_one_step_rounds {ι β} [DecidableEq ι] (grad : P → β → Key → P)
    (hgrad : ∀ p b k, (grad p b k).length = p.length) (η lr : Rat) (s : ServerState Unit)
    (cohorts : List (List (GClient ι β)))
    (h : ∀ co ∈ cohorts, (co.map (·.id)).Nodup ∧ 0 < (co.map (·.size)).sum ∧
      ∀ c ∈ co, c.batches.length ≤ 1 ∧ (c.size ≠ 0 → c.batches.length = 1)) :
    mimeRounds grad (sgd η) lr s cohorts = some (cohorts.foldl (mimeGD grad η lr) s) := by
  induction cohorts generalizing s with
  | nil => rfl
  | cons co rest ih =>
    obtain ⟨hnd, hpos, hone⟩ := h co List.mem_cons_self
    obtain ⟨G, hG, hr⟩ := C12_mime_one_step grad hgrad η lr s co hnd hone hpos
    unfold mimeRounds
    simp only [List.foldlM_cons, List.foldl_cons, hr, Option.bind_eq_bind, Option.bind_some]
    have : mimeGD grad η lr s co = ⟨vsub s.params (vscale lr (vscale η G)), ()⟩ := by
      unfold mimeGD; rw [hG]
    rw [this]
    exact ih _ (fun co' hco' => h co' (List.mem_cons_of_mem _ hco'))

/-! ## the guard of `C12_hyp_single` is needed (known finding) -/

/-- An all-empty cohort with a *stateful* server optimizer: FedAvg applies a zero update and the
momentum term still moves the parameters (`1 ↦ 1/2`), single-cluster HypCluster skips the update.
This is why `C12_hyp_single` assumes at least one example; the real code shows the same difference
(known finding `C12/hyp-single/empty-cohort-stateful-server-opt`). -/
theorem C12_hyp_single_guard_needed :
    let cl : ServerState P := ⟨[1], [1]⟩
    let clients : List (HClient Nat Nat Unit) := [⟨⟨7, 0, [], [false]⟩, ()⟩]
    (hypRound (fun _ _ _ => 0) (fun _ _ => []) exGrad (sgd (1/2)) (momentum 1 (1/2) false) [cl] clients).map (·.params)
        = [[1]] ∧
      (round exGrad (sgd (1/2)) (momentum 1 (1/2) false) cl (clients.map trainClient)).params = [1/2] := by
  decide +kernel

/-! ## non-vacuity -/

example : KeyFree exGrad := fun _ _ _ _ => rfl
example : ∀ p b k, (exGrad p b k).length = p.length := by intro p b k; simp [exGrad, vscale]

/-- FedProx with a positive weight really differs from FedAvg on the example cohort, weight 0 does not -/
example : (fedProxRound 1 exGrad (sgd (1/2)) (sgd 1) ⟨[1, 2], ()⟩ exClients).params
    ≠ (round exGrad (sgd (1/2)) (sgd 1) ⟨[1, 2], ()⟩ exClients).params := by decide +kernel
example : (fedProxRound 0 exGrad (sgd (1/2)) (sgd 1) ⟨[1, 2], ()⟩ exClients).params = [0, 0] := by
  decide +kernel

def exHClients : List (HClient Nat Nat Unit) := exClients.map fun c => ⟨c, ()⟩
def exGClients : List (GClient Nat Nat) := [⟨⟨7, 2, [1], [false]⟩, [(1, 2)]⟩, ⟨⟨8, 0, [], [true, false]⟩, []⟩]

example : (exHClients.map (·.id)).Nodup ∧ 0 < (exHClients.map (·.size)).sum := by decide
example : (hypRound (fun _ _ _ => 0) (fun _ _ => []) exGrad (sgd (1/2)) (momentum 1 (1/2) false)
    [⟨[1, 2], [0, 0]⟩] exHClients).map (·.params) = [[0, 0]] := by decide +kernel
example : exGClients ≠ [] := by decide
example : (exGClients.map (·.id)).Nodup ∧ 0 < (exGClients.map (·.size)).sum ∧
    ∀ c ∈ exGClients, c.batches.length ≤ 1 ∧ (c.size ≠ 0 → c.batches.length = 1) := by decide
example : (mimeRound exGrad (sgd (1/2)) (1/2) ⟨[1, 2], ()⟩ exGClients).map (·.params) = some [3/4, 3/2] := by
  decide +kernel
example : (mimeLiteRound (fun _ => 0) none exGrad (sgd (1/2)) 1 ⟨[1, 2], ()⟩ exGClients).map (·.params)
    = some (round exGrad (sgd (1/2)) (sgd 1) ⟨[1, 2], ()⟩ (exGClients.map (·.toClient))).params := by
  decide +kernel
example : (apflRound (fun k => (k ++ [false, false], k ++ [false, true], k ++ [true, false])) [2] exGrad
    (sgd (1/2)) (sgd 1) (1/2) ⟨[1, 2], (), []⟩ exClients).params = [0, 0] := by decide +kernel

example : gradTerms exGrad [1, 2] [((1 : Nat), 2), (3, 1)] [false] = [(2, [1, 2]), (1, [3, 6])] := by decide +kernel
example : serverGrads exGrad [1, 2] exGClients = some [1, 2] := by decide +kernel
example : (mimeRounds exGrad (sgd (1/2)) (1/2) ⟨[1, 2], ()⟩ [exGClients, exGClients]).map (·.params)
    = some [9/16, 9/8] := by decide +kernel
example : (fedProxRounds 0 exGrad (sgd (1/2)) (sgd 1) ⟨[1, 2], ()⟩ [exClients, exClients]).params = [0, 0] := by
  decide +kernel
example : (hypRounds (fun _ _ _ => 0) (fun _ _ => []) exGrad (sgd (1/2)) (sgd 1)
    [⟨[1, 2], ()⟩] [exHClients, exHClients]).map (·.params) = [[0, 0]] := by decide +kernel
example : (mimeLiteRounds (fun _ => 0) none exGrad (sgd (1/2)) 1 ⟨[1, 2], ()⟩ [exGClients, exGClients]).map (·.params)
    = some (rounds exGrad (sgd (1/2)) (sgd 1) ⟨[1, 2], ()⟩ [exGClients.map (·.toClient), exGClients.map (·.toClient)]).params := by
  decide +kernel
example : (apflRounds (fun k => (k ++ [false, false], k ++ [false, true], k ++ [true, false])) [2] exGrad
    (sgd (1/4)) (sgd 1) (1/2) ⟨[1, 2], (), []⟩ [exClients, exClients]).params
    = (rounds exGrad (sgd (1/4)) (sgd 1) ⟨[1, 2], ()⟩ [exClients, exClients]).params := by decide +kernel
example : proxGrad 2 [1, 1] [3, 5] [1, 1] = [5, 9] := by decide +kernel
example : mimeRound exGrad (sgd (1/2)) 1 ⟨[1, 2], ()⟩ ([] : List (GClient Nat Nat)) = none := by decide +kernel

/-- a cohort that lists client 7 twice (same id, its own key): `C12_fedprox_zero` needs no
distinct-ids hypothesis, and every listed entry counts in numerator and denominator
(weights 2, 1, 2 — not 2, 1) -/
def exDup : List (Client Nat Nat) :=
  [⟨7, 2, [1, 2], [false]⟩, ⟨8, 1, [1], [true, false]⟩, ⟨7, 2, [1, 2], [true, true, false]⟩]
example : fedProxRound 0 exGrad (sgd (1/2)) (sgd 1) ⟨[1, 2], ()⟩ exDup
    = round exGrad (sgd (1/2)) (sgd 1) ⟨[1, 2], ()⟩ exDup := C12_fedprox_zero _ _ _ _ _
example : (FedAvg.round exGrad (sgd (1/2)) (sgd 1) ⟨[1, 2], ()⟩ exDup).params = [1/10, 1/5] ∧
    (FedAvg.round exGrad (sgd (1/2)) (sgd 1) ⟨[1, 2], ()⟩ (exDup.take 2)).params = [1/6, 1/3] := by decide +kernel

end FedjaxVerif.Algorithms
