import FedjaxVerif.Model.Cache

/-!
# C19 — downloaded and decompressed cache files appear only when complete

Theorems about `Model/Cache.lean`.  They quantify over every payload length, every block size `≥ 1`,
every initial cache directory whose *final* names are complete (temp names may hold anything,
including stale garbage), every call, every crash point `(c, p)` (`c` completed effects, `p` bytes of
the next write) and every sequence of interrupted calls.
-/

namespace FedjaxVerif.Cache

/-! ## helper lemmas -/

@[simp] theorem set_same (fs : FS) (n : Name) (c : Option Content) : fs.set n c n = c := by
  simp [FS.set]

theorem set_other (fs : FS) (n m : Name) (c : Option Content) (h : m ≠ n) : fs.set n c m = fs m := by
  simp [FS.set, h]

/-- the effect can only change what is stored under `tmp` -/
def OnlyTmp (tmp : Name) : Eff → Prop
  | .truncate n => n = tmp
  | .net => True
  | .read => True
  | .append n _ => n = tmp
  | .rename _ _ => False

theorem applyEff_frame (tmp : Name) (fs : FS) (e : Eff) (h : OnlyTmp tmp e) (n : Name) (hn : n ≠ tmp) :
    applyEff fs e n = fs n := by
  cases e with
  | truncate m => simp only [OnlyTmp] at h; subst h; simp [applyEff, set_other _ _ _ _ hn]
  | net => rfl
  | read => rfl
  | append m k =>
    simp only [OnlyTmp] at h; subst h
    simp only [applyEff]
    cases fs m <;> simp [set_other _ _ _ _ hn]
  | rename a b => simp [OnlyTmp] at h

theorem applyEffs_frame (tmp : Name) (es : List Eff) (h : ∀ e ∈ es, OnlyTmp tmp e) (fs : FS)
    (n : Name) (hn : n ≠ tmp) : applyEffs fs es n = fs n := by
  induction es generalizing fs with
  | nil => rfl
  | cons e es ih =>
    simp only [applyEffs, List.foldl_cons]
    have := ih (fun e' he' => h e' (List.mem_cons_of_mem _ he')) (applyEff fs e)
    simp only [applyEffs] at this
    rw [this, applyEff_frame tmp fs e (h e (List.mem_cons_self)) n hn]

theorem applyPartial_frame (tmp : Name) (fs : FS) (p : Nat) (oe : Option Eff)
    (h : ∀ e, oe = some e → OnlyTmp tmp e) (n : Name) (hn : n ≠ tmp) :
    applyPartial fs p oe n = fs n := by
  cases oe with
  | none => rfl
  | some e =>
    have he := h e rfl
    cases e with
    | append m k =>
      simp only [OnlyTmp] at he; subst he
      simp only [applyPartial]
      exact applyEff_frame m fs _ (by simp [OnlyTmp]) n hn
    | truncate m => rfl
    | net => rfl
    | read => rfl
    | rename a b => rfl

theorem applyEffs_append (fs : FS) (a b : List Eff) :
    applyEffs fs (a ++ b) = applyEffs (applyEffs fs a) b := by
  simp [applyEffs, List.foldl_append]

/-- the first `k` rounds of the block loop -/
def transferK (rd : Eff) (tmp : Name) (L B k : Nat) : List Eff :=
  (List.range k).flatMap fun i => [rd, Eff.append tmp (blockLen L B i)]

theorem transfer_eq (rd : Eff) (tmp : Name) (L B : Nat) :
    transfer rd tmp L B = transferK rd tmp L B (nBlocks L B) := rfl

theorem transferK_onlyTmp (rd : Eff) (hrd : OnlyTmp tmp rd) (L B k : Nat) :
    ∀ e ∈ transferK rd tmp L B k, OnlyTmp tmp e := by
  intro e he
  simp only [transferK, List.mem_flatMap, List.mem_range] at he
  obtain ⟨i, _, hi⟩ := he
  simp only [List.mem_cons, List.not_mem_nil, or_false] at hi
  rcases hi with rfl | rfl
  · exact hrd
  · simp [OnlyTmp]

/-- after `k` blocks the temp file has grown by `min (k*B) L` bytes -/
theorem transferK_content (rd : Eff) (hrd : ∀ fs, applyEff fs rd = fs) (tmp : Name) (L B k : Nat)
    (fs : FS) (c : Content) (h : fs tmp = some c) :
    applyEffs fs (transferK rd tmp L B k) tmp = some ⟨c.len + min (k * B) L, c.ok⟩ := by
  induction k with
  | zero => simp [transferK, applyEffs, h]
  | succ k ih =>
    have : transferK rd tmp L B (k+1) = transferK rd tmp L B k ++ [rd, Eff.append tmp (blockLen L B k)] := by
      simp [transferK, List.range_succ, List.flatMap_append]
    rw [this, applyEffs_append]
    simp only [applyEffs, List.foldl_cons, List.foldl_nil, hrd]
    simp only [applyEffs] at ih
    simp only [applyEff, ih, set_same, blockLen]
    congr 2
    rw [Nat.succ_mul]
    generalize k * B = t
    omega

theorem ceil_mul_ge (L B : Nat) (h : 0 < B) : L ≤ nBlocks L B * B := by
  unfold nBlocks
  have h1 := Nat.div_add_mod (L + B - 1) B
  have h2 := Nat.mod_lt (L + B - 1) h
  rw [Nat.mul_comm] at h1
  omega

/-- the whole write phase `open(tmp,'wb'); …; block loop` leaves the complete payload under `tmp` -/
theorem transfer_complete (rd : Eff) (hrd : ∀ fs, applyEff fs rd = fs) (tmp : Name) (L B : Nat)
    (hB : 0 < B) (fs : FS) (c : Content) (h : fs tmp = some c) (hc : c = ⟨0, true⟩) :
    applyEffs fs (transfer rd tmp L B) tmp = some ⟨L, true⟩ := by
  rw [transfer_eq, transferK_content rd hrd tmp L B _ fs c h, hc]
  have := ceil_mul_ge L B hB
  simp [Nat.min_eq_right this]

/-- the two finals -/
def Final : Name → Prop
  | .dl => True | .dec => True | _ => False

/-- **the invariant**: a file visible under a final name holds the complete, correct payload -/
def Inv (z : Sizes) (fs : FS) : Prop :=
  (∀ c, fs .dl = some c → c = ⟨z.dlLen, true⟩) ∧ (∀ c, fs .dec = some c → c = ⟨z.decLen, true⟩)

/-- shape of the plans: a write phase that only touches the temp name, then one rename -/
theorem download_shape (z : Sizes) (fs : FS) (h : fs .dl = none) :
    downloadEffs z fs =
      ([Eff.truncate .dlPart, Eff.net] ++ transfer .net .dlPart z.dlLen z.dlBlock) ++ [Eff.rename .dlPart .dl] := by
  simp [downloadEffs, h]

theorem download_pre_onlyTmp (z : Sizes) :
    ∀ e ∈ [Eff.truncate .dlPart, Eff.net] ++ transfer .net .dlPart z.dlLen z.dlBlock, OnlyTmp .dlPart e := by
  intro e he
  rw [List.mem_append] at he
  rcases he with he | he
  · simp only [List.mem_cons, List.not_mem_nil, or_false] at he
    rcases he with rfl | rfl <;> simp [OnlyTmp]
  · exact transferK_onlyTmp (tmp := .dlPart) .net (by simp [OnlyTmp]) _ _ _ e he

theorem decompress_pre_onlyTmp (z : Sizes) :
    ∀ e ∈ [Eff.read, Eff.truncate .decPart] ++ transfer .read .decPart z.decLen z.decBlock ++ [Eff.read],
      OnlyTmp .decPart e := by
  intro e he
  rw [List.mem_append, List.mem_append] at he
  rcases he with (he | he) | he
  · simp only [List.mem_cons, List.not_mem_nil, or_false] at he
    rcases he with rfl | rfl <;> simp [OnlyTmp]
  · exact transferK_onlyTmp (tmp := .decPart) .read (by simp [OnlyTmp]) _ _ _ e he
  · simp only [List.mem_cons, List.not_mem_nil, or_false] at he
    subst he; simp [OnlyTmp]

/-- A crash inside `pre ++ [rename tmp fin]`, where `pre` only touches `tmp`, is either a state in
which everything except `tmp` is unchanged, or the final state of the whole list. -/
theorem crash_cases (tmp fin : Name) (pre : List Eff) (hpre : ∀ e ∈ pre, OnlyTmp tmp e)
    (fs : FS) (c p : Nat) :
    (∀ n, n ≠ tmp → applyPartial (applyEffs fs ((pre ++ [Eff.rename tmp fin]).take c)) p
        (pre ++ [Eff.rename tmp fin])[c]? n = fs n)
    ∨ applyPartial (applyEffs fs ((pre ++ [Eff.rename tmp fin]).take c)) p
        (pre ++ [Eff.rename tmp fin])[c]? = applyEffs fs (pre ++ [Eff.rename tmp fin]) := by
  by_cases hc : c ≤ pre.length
  · left
    intro n hn
    have htake : (pre ++ [Eff.rename tmp fin]).take c = pre.take c := by
      rw [List.take_append_of_le_length hc]
    rw [htake]
    have hframe : applyEffs fs (pre.take c) n = fs n :=
      applyEffs_frame tmp _ (fun e he => hpre e (List.mem_of_mem_take he)) fs n hn
    by_cases hc' : c < pre.length
    · have hget : (pre ++ [Eff.rename tmp fin])[c]? = pre[c]? := by
        rw [List.getElem?_append_left hc']
      rw [hget, applyPartial_frame tmp _ p _ _ n hn, hframe]
      intro e he
      exact hpre e (List.mem_of_getElem? he)
    · have hceq : c = pre.length := by omega
      have hget : (pre ++ [Eff.rename tmp fin])[c]? = some (Eff.rename tmp fin) := by
        subst hceq; simp
      rw [hget]
      simp only [applyPartial]
      exact hframe
  · right
    have hlen : (pre ++ [Eff.rename tmp fin]).length ≤ c := by simp; omega
    rw [List.take_of_length_le hlen, List.getElem?_eq_none hlen]
    rfl

theorem applyEffs_rename_last (fs : FS) (pre : List Eff) (a b : Name) :
    applyEffs fs (pre ++ [Eff.rename a b]) = applyEff (applyEffs fs pre) (Eff.rename a b) := by
  simp [applyEffs, List.foldl_append]

/-- completed download from a state without `dl`: `dl` holds the payload, `dec` untouched -/
theorem download_final (z : Sizes) (hB : 0 < z.dlBlock) (fs : FS) (h : fs .dl = none) :
    applyEffs fs (downloadEffs z fs) .dl = some ⟨z.dlLen, true⟩ ∧
    applyEffs fs (downloadEffs z fs) .dec = fs .dec ∧
    applyEffs fs (downloadEffs z fs) .dlPart = none := by
  rw [download_shape z fs h, applyEffs_rename_last]
  have hpart : applyEffs fs ([Eff.truncate .dlPart, Eff.net] ++ transfer .net .dlPart z.dlLen z.dlBlock) .dlPart
      = some ⟨z.dlLen, true⟩ := by
    rw [applyEffs_append]
    apply transfer_complete .net (fun _ => rfl) .dlPart _ _ hB _ ⟨0, true⟩ _ rfl
    simp [applyEffs, applyEff]
  have hdec : applyEffs fs ([Eff.truncate .dlPart, Eff.net] ++ transfer .net .dlPart z.dlLen z.dlBlock) .dec
      = fs .dec := applyEffs_frame .dlPart _ (download_pre_onlyTmp z) fs .dec (by decide)
  simp only [applyEff, hpart]
  refine ⟨by simp, ?_, by simp [FS.set]⟩
  rw [set_other _ _ _ _ (by decide), set_other _ _ _ _ (by decide), hdec]

theorem decompress_shape (z : Sizes) (fs : FS) (h : fs .dec = none) (c : Content)
    (hdl : fs .dl = some c) (hc : c = ⟨z.dlLen, true⟩) :
    decompressEffs z fs = some
      (([Eff.read, Eff.truncate .decPart] ++ transfer .read .decPart z.decLen z.decBlock ++ [Eff.read])
        ++ [Eff.rename .decPart .dec]) := by
  simp [decompressEffs, h, hdl, hc]

theorem decompress_final (z : Sizes) (hB : 0 < z.decBlock) (fs : FS) :
    let es := ([Eff.read, Eff.truncate .decPart] ++ transfer .read .decPart z.decLen z.decBlock ++ [Eff.read])
        ++ [Eff.rename .decPart .dec]
    applyEffs fs es .dec = some ⟨z.decLen, true⟩ ∧ applyEffs fs es .dl = fs .dl ∧
    applyEffs fs es .decPart = none := by
  intro es
  simp only [es]
  rw [applyEffs_rename_last]
  have hpart : applyEffs fs ([Eff.read, Eff.truncate .decPart] ++ transfer .read .decPart z.decLen z.decBlock
      ++ [Eff.read]) .decPart = some ⟨z.decLen, true⟩ := by
    rw [applyEffs_append, applyEffs_append]
    have : ∀ g : FS, applyEffs g [Eff.read] = g := fun _ => rfl
    rw [this]
    apply transfer_complete .read (fun _ => rfl) .decPart _ _ hB _ ⟨0, true⟩ _ rfl
    simp [applyEffs, applyEff]
  have hdl : applyEffs fs ([Eff.read, Eff.truncate .decPart] ++ transfer .read .decPart z.decLen z.decBlock
      ++ [Eff.read]) .dl = fs .dl := applyEffs_frame .decPart _ (decompress_pre_onlyTmp z) fs .dl (by decide)
  simp only [applyEff, hpart]
  refine ⟨by simp, ?_, by simp [FS.set]⟩
  rw [set_other _ _ _ _ (by decide), set_other _ _ _ _ (by decide), hdl]

/-! ## property theorems -/

/-- **Core.** After a crash at any point `(c, p)` of any call, a file visible under a final name is
complete: the invariant is preserved by every interrupted call. -/
theorem C19_final_complete_step (z : Sizes) (hB : 0 < z.dlBlock) (hB' : 0 < z.decBlock)
    (call : Call) (fs : FS) (c p : Nat) (h : Inv z fs) : Inv z (crash z call fs c p) := by
  unfold crash
  cases call with
  | download =>
    simp only [plan]
    cases hdl : fs .dl with
    | some c0 =>
      have : downloadEffs z fs = [] := by simp [downloadEffs, hdl]
      rw [this]; simpa [applyEffs, applyPartial] using h
    | none =>
      rw [download_shape z fs hdl]
      rcases crash_cases .dlPart .dl _ (download_pre_onlyTmp z) fs c p with hk | hk
      · constructor
        · intro c1 hc1; rw [hk .dl (by decide)] at hc1; exact h.1 c1 hc1
        · intro c1 hc1; rw [hk .dec (by decide)] at hc1; exact h.2 c1 hc1
      · rw [hk, ← download_shape z fs hdl]
        obtain ⟨h1, h2, _⟩ := download_final z hB fs hdl
        constructor
        · intro c1 hc1; rw [h1] at hc1; injection hc1 with e; exact e.symm
        · intro c1 hc1; rw [h2] at hc1; exact h.2 c1 hc1
  | decompress =>
    simp only [plan]
    cases hdec : fs .dec with
    | some c0 =>
      have : decompressEffs z fs = some [] := by simp [decompressEffs, hdec]
      rw [this]; simpa [applyEffs, applyPartial] using h
    | none =>
      cases hdl : fs .dl with
      | none =>
        have : decompressEffs z fs = none := by simp [decompressEffs, hdec, hdl]
        rw [this]; exact h
      | some c0 =>
        have hc0 := h.1 c0 hdl
        rw [decompress_shape z fs hdec c0 hdl hc0]
        simp only []
        rcases crash_cases .decPart .dec _ (decompress_pre_onlyTmp z) fs c p with hk | hk
        · constructor
          · intro c1 hc1; rw [hk .dl (by decide)] at hc1; exact h.1 c1 hc1
          · intro c1 hc1; rw [hk .dec (by decide)] at hc1; rw [hdec] at hc1; cases hc1
        · rw [hk]
          obtain ⟨h1, h2, _⟩ := decompress_final z hB' fs
          constructor
          · intro c1 hc1; rw [h2] at hc1; exact h.1 c1 hc1
          · intro c1 hc1; rw [h1] at hc1; injection hc1 with e; exact e.symm

/-- **Core.** The invariant holds after every sequence of interrupted calls. -/
theorem C19_final_complete (z : Sizes) (hB : 0 < z.dlBlock) (hB' : 0 < z.decBlock)
    (sched : List (Call × Nat × Nat)) (fs : FS) (h : Inv z fs) : Inv z (crashes z sched fs) := by
  induction sched generalizing fs with
  | nil => exact h
  | cons x xs ih =>
    simp only [crashes, List.foldl_cons]
    exact ih _ (C19_final_complete_step z hB hB' x.1 fs x.2.1 x.2.2 h)

/-- A completed call also preserves the invariant. -/
theorem C19_complete_inv (z : Sizes) (hB : 0 < z.dlBlock) (hB' : 0 < z.decBlock)
    (call : Call) (fs fs' : FS) (h : Inv z fs) (hc : complete z call fs = some fs') : Inv z fs' := by
  -- a completed call is the crash "after all effects"
  unfold complete at hc
  cases hp : plan z call fs with
  | none => rw [hp] at hc; cases hc
  | some es =>
    rw [hp] at hc
    simp only [Option.map_some, Option.some.injEq] at hc
    have := C19_final_complete_step z hB hB' call fs es.length 0 h
    unfold crash at this
    rw [hp] at this
    simp only [List.take_length] at this
    rw [List.getElem?_eq_none (Nat.le_refl _)] at this
    simp only [applyPartial] at this
    rw [← hc]; exact this

/-- Once present, a final file is never changed or removed by later (interrupted) calls. -/
theorem C19_persist_step (z : Sizes) (call : Call) (fs : FS) (c p : Nat) (n : Name) (hn : Final n)
    (c0 : Content) (h : fs n = some c0) (hinv : Inv z fs) : crash z call fs c p n = some c0 := by
  unfold crash
  cases call with
  | download =>
    simp only [plan]
    cases hdl : fs .dl with
    | some c1 =>
      have : downloadEffs z fs = [] := by simp [downloadEffs, hdl]
      rw [this]; simpa [applyEffs, applyPartial] using h
    | none =>
      have hn' : n = .dec := by
        cases n <;> simp_all [Final]
      subst hn'
      rw [download_shape z fs hdl]
      rcases crash_cases .dlPart .dl _ (download_pre_onlyTmp z) fs c p with hk | hk
      · rw [hk .dec (by decide)]; exact h
      · rw [hk, applyEffs_rename_last]
        simp only [applyEff]
        have hdec := applyEffs_frame .dlPart _ (download_pre_onlyTmp z) fs .dec (by decide)
        cases hx : applyEffs fs ([Eff.truncate .dlPart, Eff.net] ++ transfer .net .dlPart z.dlLen z.dlBlock) .dlPart with
        | none => simp only []; rw [hdec]; exact h
        | some cx =>
          simp only []
          rw [set_other _ _ _ _ (by decide), set_other _ _ _ _ (by decide), hdec]; exact h
  | decompress =>
    simp only [plan]
    cases hdec : fs .dec with
    | some c1 =>
      have : decompressEffs z fs = some [] := by simp [decompressEffs, hdec]
      rw [this]; simpa [applyEffs, applyPartial] using h
    | none =>
      have hn' : n = .dl := by
        cases n <;> simp_all [Final]
      subst hn'
      have hc0 := hinv.1 c0 h
      rw [decompress_shape z fs hdec c0 h hc0]
      simp only []
      rcases crash_cases .decPart .dec _ (decompress_pre_onlyTmp z) fs c p with hk | hk
      · rw [hk .dl (by decide)]; exact h
      · rw [hk, applyEffs_rename_last]
        simp only [applyEff]
        have hdl := applyEffs_frame .decPart _ (decompress_pre_onlyTmp z) fs .dl (by decide)
        cases hx : applyEffs fs ([Eff.read, Eff.truncate .decPart] ++ transfer .read .decPart z.decLen z.decBlock
            ++ [Eff.read]) .decPart with
        | none => simp only []; rw [hdl]; exact h
        | some cx =>
          simp only []
          rw [set_other _ _ _ _ (by decide), set_other _ _ _ _ (by decide), hdl]; exact h

/-- … and by any sequence of interrupted calls. -/
theorem C19_persist (z : Sizes) (hB : 0 < z.dlBlock) (hB' : 0 < z.decBlock)
    (sched : List (Call × Nat × Nat)) (fs : FS) (n : Name) (hn : Final n)
    (c0 : Content) (h : fs n = some c0) (hinv : Inv z fs) : crashes z sched fs n = some c0 := by
  induction sched generalizing fs with
  | nil => exact h
  | cons x xs ih =>
    simp only [crashes, List.foldl_cons]
    exact ih _ (C19_persist_step z x.1 fs x.2.1 x.2.2 n hn c0 h hinv)
      (C19_final_complete_step z hB hB' x.1 fs x.2.1 x.2.2 hinv)

/-- **Core (repair, download).** After any number of interrupted calls, a call of `maybe_download`
that runs to completion returns the complete file. -/
theorem C19_repair_download (z : Sizes) (hB : 0 < z.dlBlock) (hB' : 0 < z.decBlock)
    (sched : List (Call × Nat × Nat)) (fs : FS) (h : Inv z fs) :
    ∃ fs', complete z .download (crashes z sched fs) = some fs' ∧
      result .download fs' = some ⟨z.dlLen, true⟩ ∧ Inv z fs' := by
  have hinv := C19_final_complete z hB hB' sched fs h
  generalize crashes z sched fs = g at hinv
  refine ⟨applyEffs g (downloadEffs z g), rfl, ?_, ?_⟩
  · simp only [result]
    cases hdl : g .dl with
    | some c0 =>
      have : downloadEffs z g = [] := by simp [downloadEffs, hdl]
      rw [this]; simp only [applyEffs, List.foldl_nil]; rw [hdl, hinv.1 c0 hdl]
    | none => exact (download_final z hB g hdl).1
  · exact C19_complete_inv z hB hB' .download g _ hinv rfl

/-- **Core (repair, decompress).** Once the compressed file is in the cache, after any number of
interrupted calls a call of `maybe_lzma_decompress` that runs to completion returns the complete
decompressed file (and leaves the compressed one alone). -/
theorem C19_repair_decompress (z : Sizes) (hB : 0 < z.dlBlock) (hB' : 0 < z.decBlock)
    (sched : List (Call × Nat × Nat)) (fs : FS) (h : Inv z fs) (c0 : Content) (hdl : fs .dl = some c0) :
    ∃ fs', complete z .decompress (crashes z sched fs) = some fs' ∧
      result .decompress fs' = some ⟨z.decLen, true⟩ ∧ result .download fs' = some ⟨z.dlLen, true⟩ ∧
      Inv z fs' := by
  have hinv := C19_final_complete z hB hB' sched fs h
  have hdl' := C19_persist z hB hB' sched fs .dl (by simp [Final]) c0 hdl h
  have hc0 := h.1 c0 hdl
  generalize crashes z sched fs = g at hinv hdl'
  cases hdec : g .dec with
  | some c1 =>
    refine ⟨g, ?_, ?_, ?_, hinv⟩
    · simp [complete, plan, decompressEffs, hdec, applyEffs]
    · simp only [result]; rw [hdec, hinv.2 c1 hdec]
    · simp only [result]; rw [hdl', hc0]
  | none =>
    have hplan := decompress_shape z g hdec c0 hdl' hc0
    obtain ⟨h1, h2, _⟩ := decompress_final z hB' g
    refine ⟨applyEffs g (([Eff.read, Eff.truncate .decPart] ++ transfer .read .decPart z.decLen z.decBlock
        ++ [Eff.read]) ++ [Eff.rename .decPart .dec]),
      by simp only [complete, plan, hplan, Option.map_some], ?_, ?_, ?_⟩
    · exact h1
    · simp only [result]; rw [h2, hdl', hc0]
    · exact C19_complete_inv z hB hB' .decompress g _ hinv (by simp only [complete, plan, hplan, Option.map_some])

/-- **Core (repair, whole pipeline).** From any cache directory whose finals are complete, after any
interrupted calls: download to completion, more interrupted calls, decompress to completion —
both returned files are complete. -/
theorem C19_repair (z : Sizes) (hB : 0 < z.dlBlock) (hB' : 0 < z.decBlock)
    (s1 s2 : List (Call × Nat × Nat)) (fs : FS) (h : Inv z fs) :
    ∃ fs1 fs2, complete z .download (crashes z s1 fs) = some fs1 ∧
      complete z .decompress (crashes z s2 fs1) = some fs2 ∧
      result .download fs2 = some ⟨z.dlLen, true⟩ ∧ result .decompress fs2 = some ⟨z.decLen, true⟩ := by
  obtain ⟨fs1, hc1, hr1, hi1⟩ := C19_repair_download z hB hB' s1 fs h
  obtain ⟨fs2, hc2, hr2, hr2', _⟩ := C19_repair_decompress z hB hB' s2 fs1 hi1 _ hr1
  exact ⟨fs1, fs2, hc1, hc2, hr2', hr2⟩

/-- **Core (reuse).** If the final name is present, the call has no effect at all: its effect trace
is empty (no network read, no write, no rename) and the directory is returned unchanged. -/
theorem C19_reuse (z : Sizes) (call : Call) (fs : FS) (h : (result call fs).isSome) :
    plan z call fs = some [] ∧ complete z call fs = some fs ∧ ∀ c p, crash z call fs c p = fs := by
  cases call with
  | download =>
    simp only [result] at h
    have : downloadEffs z fs = [] := by simp [downloadEffs, h]
    refine ⟨by simp [plan, this], by simp [complete, plan, this, applyEffs], ?_⟩
    intro c p; simp [crash, plan, this, applyEffs, applyPartial]
  | decompress =>
    simp only [result] at h
    have : decompressEffs z fs = some [] := by simp [decompressEffs, h]
    refine ⟨by simp [plan, this], by simp [complete, plan, this, applyEffs], ?_⟩
    intro c p; simp [crash, plan, this, applyEffs, applyPartial]

/-- Decompression never touches the network. -/
theorem C19_decompress_offline (z : Sizes) (fs : FS) (es : List Eff)
    (h : plan z .decompress fs = some es) : Eff.net ∉ es := by
  simp only [plan, decompressEffs] at h
  split at h
  · cases h; simp
  · split at h
    · cases h
    · split at h
      · cases h
        intro hmem
        simp only [List.mem_append, List.mem_cons, List.not_mem_nil, or_false, reduceCtorEq, false_or, or_false] at hmem
        simp only [transfer, List.mem_flatMap, List.mem_range, List.mem_cons, List.not_mem_nil, or_false,
          reduceCtorEq] at hmem
        obtain ⟨_, _, hh⟩ := hmem
        cases hh
      · cases h

/-- The block loop moves exactly the payload: the byte counts of the writes of a completed
download add up to the content length (no truncation without a crash, for every block size ≥ 1). -/
theorem C19_blocks_cover (L B : Nat) (hB : 0 < B) :
    ((List.range (nBlocks L B)).map (blockLen L B)).sum = L := by
  have key : ∀ k, ((List.range k).map (blockLen L B)).sum = min (k * B) L := by
    intro k
    induction k with
    | zero => simp
    | succ k ih =>
      rw [List.range_succ, List.map_append, List.sum_append, ih]
      simp only [List.map_cons, List.map_nil, List.sum_cons, List.sum_nil, blockLen, Nat.succ_mul]
      generalize k * B = t
      omega
  rw [key]
  exact Nat.min_eq_right (ceil_mul_ge L B hB)

/-! ## non-vacuity: concrete instances -/

/-- cache with a stale garbage `.partial`, nothing else -/
def fs0 : FS := fun n => match n with | .dlPart => some ⟨3, false⟩ | _ => none
def z0 : Sizes := ⟨10, 20, 4, 8⟩

example : Inv z0 fs0 := by constructor <;> intro c h <;> simp [fs0] at h
-- the plan of a download is non-trivial and a crash in the middle leaves a truncated temp file only
example : (downloadEffs z0 fs0).length = 9 := by decide
example : crash z0 .download fs0 3 2 .dlPart = some ⟨2, true⟩ ∧ crash z0 .download fs0 3 2 .dl = none := by
  decide
example : (complete z0 .download fs0).map (fun fs => fs .dl) = some (some ⟨10, true⟩) := by decide
-- an in-place decompression would violate the invariant: the model's protocol does not
example : (crashes z0 [(.download, 100, 0), (.decompress, 5, 3)] fs0) .dec = none ∧
    (crashes z0 [(.download, 100, 0), (.decompress, 5, 3)] fs0) .decPart = some ⟨11, true⟩ := by decide
example : ((List.range (nBlocks 10 4)).map (blockLen 10 4)) = [4, 4, 2] := by decide
example : ((plan z0 .decompress (crashes z0 [(.download, 100, 0)] fs0)).map List.length) = some 10 := by
  decide
example : (result .download (crashes z0 [(.download, 100, 0)] fs0)).isSome := by decide

end FedjaxVerif.Cache
