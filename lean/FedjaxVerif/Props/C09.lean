import FedjaxVerif.Model.Experiment
import FedjaxVerif.Model.FedAvg

/-!
# C09 — an interrupted experiment resumes to the uninterrupted result

Theorems about `Model/Experiment.lean`.  They quantify over every algorithm (`Alg σ`, any state
type), every configuration (`numRounds`, `freq`, `keep ≥ 1` where retention is concerned, `evalFreq`,
number of final evaluations, number of partial-write states of checkpoint and `.tsv` writes), every
starting directory that satisfies the invariant (in particular the empty one), every crash point and
every sequence of crashes.
-/

namespace FedjaxVerif.Experiment

set_option linter.unusedSimpArgs false

variable {σ : Type}

/-! ## file-system algebra -/

theorem get_cons (p : Name × Content σ) (fs : FS σ) (m : Name) :
    FS.get (p :: fs) m = if p.1 = m then some p.2 else FS.get fs m := by
  unfold FS.get
  by_cases h : p.1 = m <;> simp [List.find?_cons, h]

theorem get_remove (fs : FS σ) (n m : Name) :
    (fs.remove n).get m = if m = n then none else fs.get m := by
  induction fs with
  | nil => simp [FS.remove, FS.get]
  | cons p fs ih =>
    have hrem : FS.remove (p :: fs) n = if p.1 ≠ n then p :: FS.remove fs n else FS.remove fs n := by
      unfold FS.remove
      by_cases hp : p.1 = n <;> simp [List.filter_cons, hp]
    rw [hrem]
    by_cases hp : p.1 = n
    · simp only [hp, ne_eq, not_true_eq_false, if_false]
      rw [ih, get_cons]
      by_cases hm : m = n
      · simp [hm]
      · have : ¬ p.1 = m := by rw [hp]; exact fun h => hm h.symm
        simp [hm, this]
    · simp only [ne_eq, hp, not_false_eq_true, if_true]
      rw [get_cons, get_cons, ih]
      by_cases hm : m = n
      · subst hm
        simp [hp]
      · simp [hm]

theorem get_remove_same (fs : FS σ) (n : Name) : (fs.remove n).get n = none := by
  rw [get_remove]; simp

theorem get_remove_other (fs : FS σ) (n m : Name) (h : m ≠ n) : (fs.remove n).get m = fs.get m := by
  rw [get_remove]; simp [h]

theorem get_write_same (fs : FS σ) (n : Name) (c : Content σ) : (fs.write n c).get n = some c := by
  simp [FS.write, get_cons]

theorem get_write_other (fs : FS σ) (n m : Name) (c : Content σ) (h : m ≠ n) :
    (fs.write n c).get m = fs.get m := by
  unfold FS.write
  rw [get_cons]
  have : ¬ n = m := fun h' => h h'.symm
  simp only [this, if_false]
  exact get_remove_other fs n m h

theorem mem_ckpts (fs : FS σ) (r : Nat) : r ∈ fs.ckpts ↔ ∃ c, fs.get (.ckpt r) = some c := by
  induction fs with
  | nil => simp [FS.ckpts, FS.get]
  | cons p fs ih =>
    have hck : FS.ckpts (p :: fs) = (match ckptOf p.1 with | some q => [q] | none => []) ++ FS.ckpts fs := by
      unfold FS.ckpts
      rw [List.filterMap_cons]
      cases ckptOf p.1 <;> simp
    rw [hck, List.mem_append, ih, get_cons]
    by_cases hp : p.1 = .ckpt r
    · simp [hp, ckptOf]
    · have : r ∉ (match ckptOf p.1 with | some q => [q] | none => []) := by
        cases hn : p.1 with
        | ckpt q =>
          simp only [ckptOf, List.mem_cons, List.not_mem_nil, or_false]
          intro h; apply hp; rw [hn, h]
        | tmp q => simp [ckptOf]
        | tsv q => simp [ckptOf]
      simp [hp, this]

theorem ckpts_remove (fs : FS σ) (n : Name) :
    (fs.remove n).ckpts = match ckptOf n with
      | some q => fs.ckpts.filter (· ≠ q)
      | none => fs.ckpts := by
  induction fs with
  | nil => cases ckptOf n <;> simp [FS.remove, FS.ckpts]
  | cons p fs ih =>
    have hrem : FS.remove (p :: fs) n = if p.1 ≠ n then p :: FS.remove fs n else FS.remove fs n := by
      unfold FS.remove
      by_cases hp : p.1 = n <;> simp [List.filter_cons, hp]
    have hck : ∀ (q : Name × Content σ) (l : FS σ),
        FS.ckpts (q :: l) = (match ckptOf q.1 with | some q => [q] | none => []) ++ FS.ckpts l := by
      intro q l
      unfold FS.ckpts
      rw [List.filterMap_cons]
      cases ckptOf q.1 <;> simp
    rw [hrem]
    by_cases hp : p.1 = n
    · simp only [hp, ne_eq, not_true_eq_false, if_false]
      rw [ih, hck, hp]
      cases hn : n with
      | ckpt q => simp [ckptOf]
      | tmp q => simp [ckptOf]
      | tsv q => simp [ckptOf]
    · simp only [ne_eq, hp, not_false_eq_true, if_true]
      rw [hck, hck, ih]
      cases hn : n with
      | ckpt q =>
        simp only [ckptOf]
        cases hp1 : p.1 with
        | ckpt q' =>
          have : q' ≠ q := by
            intro h; apply hp; rw [hp1, hn, h]
          simp [ckptOf, List.filter_cons, this]
        | tmp q' => simp [ckptOf]
        | tsv q' => simp [ckptOf]
      | tmp q => simp [ckptOf]
      | tsv q => simp [ckptOf]

theorem ckpts_write (fs : FS σ) (n : Name) (c : Content σ) :
    (fs.write n c).ckpts = match ckptOf n with
      | some q => q :: fs.ckpts.filter (· ≠ q)
      | none => fs.ckpts := by
  unfold FS.write
  have : FS.ckpts ((n, c) :: fs.remove n)
      = (match ckptOf n with | some q => [q] | none => []) ++ FS.ckpts (fs.remove n) := by
    unfold FS.ckpts
    rw [List.filterMap_cons]
    cases ckptOf n <;> simp
  rw [this, ckpts_remove]
  cases ckptOf n <;> simp

/-- well-formed directory: no name occurs twice -/
def WF (fs : FS σ) : Prop := (fs.map (·.1)).Nodup

theorem wf_nil : WF ([] : FS σ) := by simp [WF]

theorem wf_remove (fs : FS σ) (n : Name) (h : WF fs) : WF (fs.remove n) := by
  unfold WF FS.remove at *
  exact List.Nodup.sublist (List.Sublist.map _ List.filter_sublist) h

theorem wf_write (fs : FS σ) (n : Name) (c : Content σ) (h : WF fs) : WF (fs.write n c) := by
  have h1 := wf_remove fs n h
  unfold WF FS.write at *
  simp only [List.map_cons, List.nodup_cons]
  refine ⟨?_, h1⟩
  simp only [FS.remove, List.mem_map, List.mem_filter]
  rintro ⟨p, ⟨_, hp⟩, hpn⟩
  simp at hp
  exact hp hpn

theorem ckpts_nodup (fs : FS σ) (h : WF fs) : fs.ckpts.Nodup := by
  unfold WF at h
  unfold FS.ckpts
  rw [List.nodup_iff_pairwise_ne] at h ⊢
  have h' : List.Pairwise (fun (a b : Name × Content σ) => a.1 ≠ b.1) fs := by
    rw [List.pairwise_map] at h; exact h
  refine List.Pairwise.filterMap _ ?_ h'
  intro a a' hne b hb b' hb' hbb
  apply hne
  cases ha : a.1 <;> cases ha' : a'.1 <;> simp_all [ckptOf]

/-! ## effects -/

theorem applyEffs_append (fs : FS σ) (a b : List (Eff σ)) :
    applyEffs fs (a ++ b) = applyEffs (applyEffs fs a) b := by
  simp [applyEffs, List.foldl_append]

theorem applyEffs_cons (fs : FS σ) (e : Eff σ) (es : List (Eff σ)) :
    applyEffs fs (e :: es) = applyEffs (applyEff fs e) es := rfl

/-- the effect may change what is stored under `m` -/
def Touches (m : Name) : Eff σ → Prop
  | .step => False
  | .write n _ => n = m
  | .rename a b => a = m ∨ b = m
  | .remove n => n = m

theorem get_applyEff_untouched (fs : FS σ) (e : Eff σ) (m : Name) (h : ¬ Touches m e) :
    (applyEff fs e).get m = fs.get m := by
  cases e with
  | step => rfl
  | write n c => exact get_write_other fs n m c (fun h' => h h'.symm)
  | remove n => exact get_remove_other fs n m (fun h' => h h'.symm)
  | rename a b =>
    simp only [Touches, not_or] at h
    simp only [applyEff]
    cases fs.get a with
    | none => rfl
    | some c =>
      simp only []
      rw [get_write_other _ _ _ _ (fun h' => h.2 h'.symm), get_remove_other _ _ _ (fun h' => h.1 h'.symm)]

theorem get_applyEffs_untouched (es : List (Eff σ)) (m : Name) (h : ∀ e ∈ es, ¬ Touches m e) (fs : FS σ) :
    (applyEffs fs es).get m = fs.get m := by
  induction es generalizing fs with
  | nil => rfl
  | cons e es ih =>
    rw [applyEffs_cons, ih (fun e' he' => h e' (List.mem_cons_of_mem _ he')),
      get_applyEff_untouched fs e m (h e List.mem_cons_self)]

theorem wf_applyEff (fs : FS σ) (e : Eff σ) (h : WF fs) : WF (applyEff fs e) := by
  cases e with
  | step => exact h
  | write n c => exact wf_write fs n c h
  | remove n => exact wf_remove fs n h
  | rename a b =>
    simp only [applyEff]
    cases fs.get a with
    | none => exact h
    | some c => exact wf_write _ _ _ (wf_remove _ _ h)

theorem wf_applyEffs (es : List (Eff σ)) (fs : FS σ) (h : WF fs) : WF (applyEffs fs es) := by
  induction es generalizing fs with
  | nil => exact h
  | cons e es ih => exact ih _ (wf_applyEff fs e h)

/-- a file written in pieces ends up complete -/
theorem get_writeEffs (fs : FS σ) (n : Name) (parts : Nat → Content σ) (whole : Content σ) (k : Nat) :
    (applyEffs fs (writeEffs n parts whole k)).get n = some whole := by
  unfold writeEffs
  rw [applyEffs_append]
  simp [applyEffs, applyEff, get_write_same]

theorem writeEffs_touch (n : Name) (parts : Nat → Content σ) (whole : Content σ) (k : Nat) (m : Name)
    (h : m ≠ n) : ∀ e ∈ writeEffs n parts whole k, ¬ Touches m e := by
  intro e he
  unfold writeEffs at he
  simp only [List.mem_append, List.mem_map, List.mem_range, List.mem_cons, List.not_mem_nil, or_false] at he
  rcases he with ⟨i, _, rfl⟩ | rfl <;> exact fun h' => h h'.symm

/-! ## the invariant and the effects that preserve it -/

/-- **the invariant**: a file visible under a checkpoint name `r` is the complete pickle of the
state of the uninterrupted run after `r` rounds (and `r` is a round of this experiment). -/
def Inv (alg : Alg σ) (R : Nat) (fs : FS σ) : Prop :=
  ∀ r c, fs.get (.ckpt r) = some c → c = .full (S alg r) ∧ r ≤ R

theorem inv_nil (alg : Alg σ) (R : Nat) : Inv alg R ([] : FS σ) := by
  intro r c h; simp [FS.get] at h

/-- effects that never create or change a checkpoint name -/
def Harmless : Eff σ → Prop
  | .step => True
  | .write n _ => ckptOf n = none
  | .rename _ _ => False
  | .remove _ => True

/-- harmless, or the publication `rename (tmp r) (ckpt r)` of a complete temp file -/
def EffOK (alg : Alg σ) (R : Nat) (fs : FS σ) : Eff σ → Prop
  | .rename a b => ∃ r, a = .tmp r ∧ b = .ckpt r ∧ fs.get (.tmp r) = some (.full (S alg r)) ∧ r ≤ R
  | e => Harmless e

theorem effOK_of_harmless (alg : Alg σ) (R : Nat) (fs : FS σ) (e : Eff σ) (h : Harmless e) :
    EffOK alg R fs e := by
  cases e <;> simp_all [EffOK, Harmless]

theorem inv_applyEff (alg : Alg σ) (R : Nat) (fs : FS σ) (e : Eff σ) (hi : Inv alg R fs)
    (he : EffOK alg R fs e) : Inv alg R (applyEff fs e) := by
  cases e with
  | step => exact hi
  | write n c =>
    simp only [EffOK, Harmless] at he
    intro r c' h
    rw [applyEff, get_write_other] at h
    · exact hi r c' h
    · intro h'; rw [← h'] at he; simp [ckptOf] at he
  | remove n =>
    intro r c' h
    rw [applyEff, get_remove] at h
    split at h
    · cases h
    · exact hi r c' h
  | rename a b =>
    obtain ⟨r, rfl, rfl, hget, hr⟩ := he
    intro q c' h
    simp only [applyEff, hget] at h
    by_cases hq : q = r
    · subst hq
      rw [get_write_same] at h
      injection h with h
      exact ⟨h.symm, hr⟩
    · rw [get_write_other _ _ _ _ (by intro h'; injection h' with h'; exact hq h'),
        get_remove_other _ _ _ (by intro h'; cases h')] at h
      exact hi q c' h

def ListOK (alg : Alg σ) (R : Nat) : FS σ → List (Eff σ) → Prop
  | _, [] => True
  | fs, e :: es => EffOK alg R fs e ∧ ListOK alg R (applyEff fs e) es

theorem listOK_append (alg : Alg σ) (R : Nat) (a b : List (Eff σ)) (fs : FS σ) :
    ListOK alg R fs (a ++ b) ↔ ListOK alg R fs a ∧ ListOK alg R (applyEffs fs a) b := by
  induction a generalizing fs with
  | nil => simp [ListOK, applyEffs]
  | cons e a ih =>
    simp only [List.cons_append, ListOK, applyEffs_cons, ih, and_assoc]

theorem listOK_harmless (alg : Alg σ) (R : Nat) (es : List (Eff σ)) (h : ∀ e ∈ es, Harmless e)
    (fs : FS σ) : ListOK alg R fs es := by
  induction es generalizing fs with
  | nil => trivial
  | cons e es ih =>
    exact ⟨effOK_of_harmless alg R fs e (h e List.mem_cons_self),
      ih (fun e' he' => h e' (List.mem_cons_of_mem _ he')) _⟩

/-- the invariant holds after **every prefix** of an OK effect list -/
theorem inv_prefix (alg : Alg σ) (R : Nat) (es : List (Eff σ)) (fs : FS σ) (hi : Inv alg R fs)
    (hok : ListOK alg R fs es) (c : Nat) : Inv alg R (applyEffs fs (es.take c)) := by
  induction es generalizing fs c with
  | nil => simpa [applyEffs] using hi
  | cons e es ih =>
    cases c with
    | zero => simpa [applyEffs] using hi
    | succ c =>
      rw [List.take_succ_cons, applyEffs_cons]
      exact ih _ (inv_applyEff alg R fs e hi hok.1) hok.2 c

theorem inv_all (alg : Alg σ) (R : Nat) (es : List (Eff σ)) (fs : FS σ) (hi : Inv alg R fs)
    (hok : ListOK alg R fs es) : Inv alg R (applyEffs fs es) := by
  have := inv_prefix alg R es fs hi hok es.length
  rwa [List.take_length] at this

/-! ## `save_checkpoint` -/

theorem writeEffs_harmless (n : Name) (hn : ckptOf n = none) (parts : Nat → Content σ) (whole : Content σ)
    (k : Nat) : ∀ e ∈ writeEffs n parts whole k, Harmless e := by
  intro e he
  unfold writeEffs at he
  simp only [List.mem_append, List.mem_map, List.mem_range, List.mem_cons, List.not_mem_nil, or_false] at he
  rcases he with ⟨i, _, rfl⟩ | rfl <;> exact hn

theorem saveEffs_ok (alg : Alg σ) (cfg : Cfg) (R : Nat) (fs : FS σ) (r : Nat) (hr : r ≤ R) :
    ListOK alg R fs (saveEffs cfg fs r (S alg r)) := by
  unfold saveEffs
  simp only []
  rw [listOK_append, listOK_append, listOK_append]
  refine ⟨⟨⟨?_, ?_⟩, ?_⟩, ?_⟩
  · exact listOK_harmless alg R _ (writeEffs_harmless _ rfl _ _ _) fs
  · refine ⟨⟨r, rfl, rfl, ?_, hr⟩, trivial⟩
    exact get_writeEffs fs _ _ _ _
  · exact ⟨trivial, trivial⟩
  · apply listOK_harmless
    intro e he
    simp only [List.mem_map] at he
    obtain ⟨q, _, rfl⟩ := he
    trivial

/-! ## the training loop -/

structure LoopInv (alg : Alg σ) (cfg : Cfg) (fs0 : FS σ) (b : Nat) (st : LoopSt σ) : Prop where
  s_eq : st.s = S alg b
  samp_eq : st.samp = b + 1
  round_eq : st.roundNum = b
  fs_eq : applyEffs fs0 st.effs = st.fs
  ok : ListOK alg cfg.numRounds fs0 st.effs

theorem body_inv (alg : Alg σ) (cfg : Cfg) (start : Nat) (fs0 : FS σ) (b : Nat) (st : LoopSt σ)
    (h : LoopInv alg cfg fs0 b st) (hb : b + 1 ≤ cfg.numRounds) :
    LoopInv alg cfg fs0 (b + 1) (roundBody alg cfg start st (b + 1)) := by
  have hs : alg.F st.s st.samp = S alg (b + 1) := by rw [h.s_eq, h.samp_eq]; rfl
  have hse : ListOK alg cfg.numRounds st.fs
      (if shouldSave cfg start (b + 1) then saveEffs cfg st.fs (b + 1) (alg.F st.s st.samp) else []) := by
    split
    · rw [hs]; exact saveEffs_ok alg cfg _ st.fs (b + 1) hb
    · trivial
  constructor
  · exact hs
  · simp [roundBody, h.samp_eq]
  · rfl
  · simp only [roundBody, applyEffs_append, h.fs_eq]
    have h1 : ∀ g : FS σ, applyEffs g [Eff.step, Eff.step] = g := fun _ => rfl
    have h2 : ∀ g : FS σ, applyEffs g [Eff.step] = g := fun _ => rfl
    have h3 : ∀ g : FS σ, applyEffs g (if shouldEval cfg start (b + 1) then [Eff.step] else []) = g := by
      intro g; split <;> rfl
    rw [h1, h3, h2]
  · simp only [roundBody]
    rw [listOK_append, listOK_append, listOK_append, listOK_append]
    have h1 : ∀ g : FS σ, applyEffs g [Eff.step, Eff.step] = g := fun _ => rfl
    refine ⟨⟨⟨⟨h.ok, ⟨trivial, trivial, trivial⟩⟩, ?_⟩, ?_⟩, ⟨trivial, trivial⟩⟩
    · rw [applyEffs_append, h1, h.fs_eq]; exact hse
    · have h4 : ∀ g : FS σ, ListOK alg cfg.numRounds g
          (if shouldEval cfg start (b + 1) then [Eff.step] else []) := by
        intro g
        by_cases hc : shouldEval cfg start (b + 1) = true
        · rw [if_pos hc]; exact ⟨trivial, trivial⟩
        · rw [if_neg hc]; trivial
      exact h4 _

theorem loop_inv (alg : Alg σ) (cfg : Cfg) (start : Nat) (fs0 : FS σ) (n : Nat) :
    ∀ (b : Nat) (st : LoopSt σ), LoopInv alg cfg fs0 b st → b + n ≤ cfg.numRounds →
      LoopInv alg cfg fs0 (b + n) ((List.range' (b + 1) n).foldl (roundBody alg cfg start) st) := by
  induction n with
  | zero => intro b st h _; simpa using h
  | succ n ih =>
    intro b st h hb
    rw [List.range'_succ, List.foldl_cons]
    have := ih (b + 1) _ (body_inv alg cfg start fs0 b st h (by omega)) (by omega)
    have e : b + 1 + n = b + (n + 1) := by omega
    rw [e] at this
    exact this

/-- final evaluation: after it, `<e>.tsv` holds the complete output for every `e < nFinal` -/
theorem final_tsv (n : Nat) (s : σ) (r k : Nat) (g : FS σ) (e : Nat) (he : e < n) :
    (applyEffs g ((List.range n).flatMap fun e => tsvEffs e s r k)).get (.tsv e) = some (.out e s r) := by
  induction n with
  | zero => omega
  | succ n ih =>
    rw [List.range_succ, List.flatMap_append, applyEffs_append]
    simp only [List.flatMap_cons, List.flatMap_nil, List.append_nil]
    by_cases hen : e = n
    · subst hen
      unfold tsvEffs
      rw [applyEffs_cons]
      exact get_writeEffs _ _ _ _ _
    · rw [get_applyEffs_untouched]
      · exact ih (by omega)
      · intro x hx
        unfold tsvEffs at hx
        rcases List.mem_cons.mp hx with rfl | hx
        · exact fun h => h
        · exact writeEffs_touch _ _ _ _ _ (by intro h; injection h with h; exact hen h) x hx

theorem finalEffs_harmless (cfg : Cfg) (s : σ) (r : Nat) : ∀ e ∈ finalEffs cfg s r, Harmless e := by
  intro x hx
  unfold finalEffs at hx
  simp only [List.mem_flatMap, List.mem_range] at hx
  obtain ⟨e, _, hx⟩ := hx
  unfold tsvEffs at hx
  rcases List.mem_cons.mp hx with rfl | hx
  · trivial
  · exact writeEffs_harmless _ rfl _ _ _ x hx

/-- everything after a successful load of `(S b, b)`, `b ≤ numRounds` -/
theorem runFrom_spec (alg : Alg σ) (cfg : Cfg) (fs : FS σ) (b : Nat) (hb : b ≤ cfg.numRounds) :
    (runFrom alg cfg fs (S alg b) (b + 1)).state = S alg cfg.numRounds ∧
    (runFrom alg cfg fs (S alg b) (b + 1)).evalRound = cfg.numRounds ∧
    ListOK alg cfg.numRounds fs (runFrom alg cfg fs (S alg b) (b + 1)).effs ∧
    ∀ e, e < cfg.nFinal →
      (applyEffs fs (runFrom alg cfg fs (S alg b) (b + 1)).effs).get (.tsv e)
        = some (.out e (S alg cfg.numRounds) cfg.numRounds) := by
  have h0 : LoopInv alg cfg fs b ⟨S alg b, fs, b + 1, b + 1 - 1, [Eff.step, Eff.step]⟩ :=
    ⟨rfl, rfl, by simp, rfl, ⟨trivial, trivial, trivial⟩⟩
  have hn : cfg.numRounds + 1 - (b + 1) = cfg.numRounds - b := by omega
  have hl := loop_inv alg cfg (b + 1) fs (cfg.numRounds - b) b _ h0 (by omega)
  have hbn : b + (cfg.numRounds - b) = cfg.numRounds := by omega
  rw [hbn] at hl
  unfold runFrom
  simp only [hn]
  refine ⟨hl.s_eq, hl.round_eq, ?_, ?_⟩
  · rw [listOK_append]
    exact ⟨hl.ok, listOK_harmless alg _ _ (finalEffs_harmless cfg _ _) _⟩
  · intro e he
    rw [applyEffs_append, hl.s_eq, hl.round_eq]
    exact final_tsv cfg.nFinal _ _ _ _ e he

/-! ## loading -/

theorem insertSorted_perm (x : Nat) (l : List Nat) : (insertSorted x l).Perm (x :: l) := by
  induction l with
  | nil => exact List.Perm.refl _
  | cons y ys ih =>
    unfold insertSorted
    split
    · exact List.Perm.refl _
    · exact ((List.Perm.cons y ih).trans (List.Perm.swap x y ys))

theorem sortNat_perm (l : List Nat) : (sortNat l).Perm l := by
  induction l with
  | nil => exact List.Perm.refl _
  | cons x l ih =>
    show (insertSorted x (sortNat l)).Perm (x :: l)
    exact (insertSorted_perm x _).trans (List.Perm.cons x ih)

theorem insertSorted_sorted (x : Nat) (l : List Nat) (h : l.Pairwise (· ≤ ·)) :
    (insertSorted x l).Pairwise (· ≤ ·) := by
  induction l with
  | nil => simp [insertSorted]
  | cons y ys ih =>
    rw [List.pairwise_cons] at h
    unfold insertSorted
    split
    · rename_i hxy
      rw [List.pairwise_cons]
      refine ⟨?_, List.pairwise_cons.mpr h⟩
      intro a ha
      rcases List.mem_cons.mp ha with rfl | ha
      · exact hxy
      · exact Nat.le_trans hxy (h.1 a ha)
    · rename_i hxy
      rw [List.pairwise_cons]
      refine ⟨?_, ih h.2⟩
      intro a ha
      have := ((insertSorted_perm x ys).mem_iff).mp ha
      rcases List.mem_cons.mp this with rfl | ha'
      · omega
      · exact h.1 a ha'

theorem sortNat_sorted (l : List Nat) : (sortNat l).Pairwise (· ≤ ·) := by
  induction l with
  | nil => simp [sortNat]
  | cons x l ih => exact insertSorted_sorted x _ ih

theorem sortNat_getLast (l : List Nat) (m : Nat) (h : (sortNat l).getLast? = some m) :
    m ∈ l ∧ ∀ x ∈ l, x ≤ m := by
  obtain ⟨ys, hys⟩ := List.getLast?_eq_some_iff.mp h
  have hs := sortNat_sorted l
  rw [hys, List.pairwise_append] at hs
  have hmem : ∀ x, x ∈ l ↔ x ∈ ys ++ [m] := by
    intro x; rw [← hys]; exact ((sortNat_perm l).mem_iff).symm
  refine ⟨(hmem m).mpr (by simp), ?_⟩
  intro x hx
  rcases List.mem_append.mp ((hmem x).mp hx) with hx | hx
  · exact hs.2.2 x hx m (by simp)
  · simp at hx; omega

theorem sortNat_getLast_none (l : List Nat) (h : (sortNat l).getLast? = none) : l = [] := by
  rw [List.getLast?_eq_none_iff] at h
  have := (sortNat_perm l).length_eq
  rw [h] at this
  exact List.eq_nil_of_length_eq_zero this.symm

/-- `load` under the invariant: never corrupt; either nothing to load or the newest checkpoint -/
theorem load_spec (alg : Alg σ) (R : Nat) (fs : FS σ) (hi : Inv alg R fs) :
    (load fs = .fresh ∧ fs.ckpts = []) ∨
    ∃ r, load fs = .ok (S alg r) r ∧ r ≤ R ∧ r ∈ fs.ckpts ∧ ∀ q ∈ fs.ckpts, q ≤ r := by
  unfold load
  cases hl : (sortNat fs.ckpts).getLast? with
  | none => left; exact ⟨rfl, sortNat_getLast_none _ hl⟩
  | some r =>
    right
    obtain ⟨hmem, hmax⟩ := sortNat_getLast _ _ hl
    obtain ⟨c, hc⟩ := (mem_ckpts fs r).mp hmem
    obtain ⟨hfull, hr⟩ := hi r c hc
    refine ⟨r, ?_, hr, hmem, hmax⟩
    simp only [hc, hfull]

/-- one invocation from a directory that satisfies the invariant -/
theorem plan_spec (alg : Alg σ) (cfg : Cfg) (fs : FS σ) (hi : Inv alg cfg.numRounds fs) :
    ∃ p, plan alg cfg fs = some p ∧ p.state = S alg cfg.numRounds ∧ p.evalRound = cfg.numRounds ∧
      ListOK alg cfg.numRounds fs p.effs ∧
      ∀ e, e < cfg.nFinal →
        (applyEffs fs p.effs).get (.tsv e) = some (.out e (S alg cfg.numRounds) cfg.numRounds) := by
  unfold plan
  rcases load_spec alg cfg.numRounds fs hi with ⟨hl, _⟩ | ⟨r, hl, hr, _, _⟩
  · rw [hl]
    exact ⟨_, rfl, runFrom_spec alg cfg fs 0 (Nat.zero_le _)⟩
  · rw [hl]
    exact ⟨_, rfl, runFrom_spec alg cfg fs r hr⟩

/-! ## property theorems -/

/-- **Core (visible ⇒ complete).** After a crash at *any* point of an invocation — between any two
steps, after any partial chunk of a checkpoint or `.tsv` write, before the rename, before or between
the deletions — every file visible under a checkpoint name is the complete pickle of the right state. -/
theorem C09_visible_complete_step (alg : Alg σ) (cfg : Cfg) (fs : FS σ) (c : Nat)
    (hi : Inv alg cfg.numRounds fs) : Inv alg cfg.numRounds (crashAt alg cfg fs c) := by
  obtain ⟨p, hp, _, _, hok, _⟩ := plan_spec alg cfg fs hi
  unfold crashAt
  rw [hp]
  exact inv_prefix alg _ p.effs fs hi hok c

/-- **Core.** … and after any sequence of crashes, starting from the empty directory (or any
directory satisfying the invariant). -/
theorem C09_visible_complete (alg : Alg σ) (cfg : Cfg) (cs : List Nat) (fs : FS σ)
    (hi : Inv alg cfg.numRounds fs) : Inv alg cfg.numRounds (crashes alg cfg cs fs) := by
  induction cs generalizing fs with
  | nil => exact hi
  | cons c cs ih =>
    simp only [crashes, List.foldl_cons]
    exact ih _ (C09_visible_complete_step alg cfg fs c hi)

/-- Hence a visible checkpoint is always loadable: `load` never fails after any crash sequence. -/
theorem C09_loadable (alg : Alg σ) (cfg : Cfg) (cs : List Nat) :
    load (crashes alg cfg cs ([] : FS σ)) = .fresh ∨
    ∃ r, load (crashes alg cfg cs ([] : FS σ)) = .ok (S alg r) r ∧ r ≤ cfg.numRounds := by
  rcases load_spec alg cfg.numRounds _ (C09_visible_complete alg cfg cs [] (inv_nil alg _)) with h | ⟨r, h, hr, _⟩
  · exact Or.inl h.1
  · exact Or.inr ⟨r, h, hr⟩

/-- **Core (newest wins), ordering part** — no invariant needed: whatever `load` returns is the
content of the numerically largest checkpoint name (`checkpoint_00000010` beats `…09`). -/
theorem C09_newest_wins_order (fs : FS σ) (s : σ) (r : Nat) (h : load fs = .ok s r) :
    r ∈ fs.ckpts ∧ (∀ q ∈ fs.ckpts, q ≤ r) ∧ fs.get (.ckpt r) = some (.full s) := by
  unfold load at h
  cases hl : (sortNat fs.ckpts).getLast? with
  | none => rw [hl] at h; cases h
  | some m =>
    rw [hl] at h
    simp only [] at h
    obtain ⟨hmem, hmax⟩ := sortNat_getLast _ _ hl
    cases hg : fs.get (.ckpt m) with
    | none => rw [hg] at h; cases h
    | some c =>
      rw [hg] at h
      cases c with
      | full s' =>
        simp only [Loaded.ok.injEq] at h
        obtain ⟨rfl, rfl⟩ := h
        exact ⟨hmem, hmax, hg⟩
      | part _ _ => cases h
      | out _ _ _ => cases h
      | outPart _ _ _ _ => cases h

/-- **Core (newest wins).** After any crash sequence, if any checkpoint is visible, `load` returns
`(S r*, r*)` for the numerically largest visible round `r*`. -/
theorem C09_newest_wins (alg : Alg σ) (cfg : Cfg) (cs : List Nat) (fs : FS σ)
    (hi : Inv alg cfg.numRounds fs) (hne : (crashes alg cfg cs fs).ckpts ≠ []) :
    ∃ r, load (crashes alg cfg cs fs) = .ok (S alg r) r ∧ r ∈ (crashes alg cfg cs fs).ckpts ∧
      ∀ q ∈ (crashes alg cfg cs fs).ckpts, q ≤ r := by
  rcases load_spec alg cfg.numRounds _ (C09_visible_complete alg cfg cs fs hi) with h | ⟨r, h, _, hm, hx⟩
  · exact absurd h.2 hne
  · exact ⟨r, h, hm, hx⟩

/-- **Core (resume).** After any sequence of crashes, re-running the same call completes, returns
the final state of the uninterrupted run, evaluates with the last round number and leaves the
complete final-evaluation output of that state in every `.tsv` — also when the restart happens after
the last round (no loop iteration) or after a crash during final evaluation. -/
theorem C09_resume (alg : Alg σ) (cfg : Cfg) (cs : List Nat) (fs : FS σ) (hi : Inv alg cfg.numRounds fs) :
    ∃ res, runAll alg cfg (crashes alg cfg cs fs) = some res ∧
      res.state = S alg cfg.numRounds ∧ res.evalRound = cfg.numRounds ∧
      (∀ e, e < cfg.nFinal → res.fs.get (.tsv e) = some (.out e (S alg cfg.numRounds) cfg.numRounds)) ∧
      Inv alg cfg.numRounds res.fs := by
  have hi' := C09_visible_complete alg cfg cs fs hi
  obtain ⟨p, hp, hs, hr, hok, htsv⟩ := plan_spec alg cfg _ hi'
  refine ⟨⟨p.state, p.evalRound, applyEffs _ p.effs⟩, ?_, hs, hr, htsv, inv_all alg _ p.effs _ hi' hok⟩
  unfold runAll
  rw [hp]
  rfl

/-- **Core (resume = uninterrupted).** The resumed run and the run that was never interrupted
(both from the empty directory) return the same state, evaluate at the same round and write the same
final-evaluation output. -/
theorem C09_resume_eq_uninterrupted (alg : Alg σ) (cfg : Cfg) (cs : List Nat) :
    ∃ res res0, runAll alg cfg (crashes alg cfg cs ([] : FS σ)) = some res ∧
      runAll alg cfg ([] : FS σ) = some res0 ∧
      res.state = res0.state ∧ res.evalRound = res0.evalRound ∧
      ∀ e, e < cfg.nFinal → res.fs.get (.tsv e) = res0.fs.get (.tsv e) ∧ (res.fs.get (.tsv e)).isSome := by
  obtain ⟨res, h1, hs, hr, ht, _⟩ := C09_resume alg cfg cs [] (inv_nil alg _)
  obtain ⟨res0, h2, hs0, hr0, ht0, _⟩ := C09_resume alg cfg [] [] (inv_nil alg _)
  refine ⟨res, res0, h1, h2, by rw [hs, hs0], by rw [hr, hr0], ?_⟩
  intro e he
  rw [ht e he, ht0 e he]
  exact ⟨rfl, rfl⟩


/-! ## composition with the round model of C01 and the sampler purity of C13

`run_federated_experiment` is instantiated with federated averaging and a round-indexed sampler.
C13 shows that the sampler's cohort is a function `cohortOf` of the round number alone; C01 models the
round.  The experiment of C09 then runs the algorithm `F s r = FedAvg.round … s (cohortOf r)`, and
resuming after any crash schedule returns exactly the `R`-round FedAvg fold over the cohorts of
rounds `1 … R` — the same state an uninterrupted run computes. -/

section
open FedjaxVerif.FedAvg

variable {β σc σs ι : Type} [DecidableEq ι]

/-- federated averaging driven by a round-indexed sampler, as an experiment algorithm -/
def fedAvgAlg (grad : P → β → Key → P) (copt : FedAvg.Optimizer σc) (sopt : FedAvg.Optimizer σs)
    (s0 : ServerState σs) (cohortOf : Nat → List (FedAvg.Client ι β)) : Alg (ServerState σs) :=
  { init := s0, F := fun s r => FedAvg.round grad copt sopt s (cohortOf r) }

theorem S_fedAvg (grad : P → β → Key → P) (copt : FedAvg.Optimizer σc) (sopt : FedAvg.Optimizer σs)
    (s0 : ServerState σs) (cohortOf : Nat → List (FedAvg.Client ι β)) (R : Nat) :
    S (fedAvgAlg grad copt sopt s0 cohortOf) R
      = FedAvg.rounds grad copt sopt s0 ((List.range R).map fun i => cohortOf (i + 1)) := by
  induction R with
  | zero => rfl
  | succ R ih =>
    rw [List.range_succ, List.map_append]
    simp only [S, List.map_cons, List.map_nil]
    rw [ih]
    unfold FedAvg.rounds
    rw [List.foldl_append]
    rfl

/-- **End-to-end resume.** For federated averaging with any gradient function, optimizers and
round-indexed cohorts, any experiment configuration and any crash schedule: the re-run completes and
its final server state is the `numRounds`-round FedAvg fold over the cohorts of rounds
`1 … numRounds` (parameters *and* server optimizer state), and the final evaluation is made with the
last round number. -/
theorem C09_resume_fedavg (grad : P → β → Key → P) (copt : FedAvg.Optimizer σc)
    (sopt : FedAvg.Optimizer σs) (s0 : ServerState σs) (cohortOf : Nat → List (FedAvg.Client ι β))
    (cfg : Cfg) (cs : List Nat) :
    ∃ res, runAll (fedAvgAlg grad copt sopt s0 cohortOf) cfg
        (crashes (fedAvgAlg grad copt sopt s0 cohortOf) cfg cs []) = some res ∧
      res.state = FedAvg.rounds grad copt sopt s0
        ((List.range cfg.numRounds).map fun i => cohortOf (i + 1)) ∧
      res.evalRound = cfg.numRounds := by
  obtain ⟨res, h1, hs, hr, _, _⟩ :=
    C09_resume (fedAvgAlg grad copt sopt s0 cohortOf) cfg cs [] (inv_nil _ _)
  exact ⟨res, h1, by rw [hs, S_fedAvg], hr⟩

end

/-! ## retention -/

/-- effects that leave the set of checkpoint names alone -/
def NoCkpt : Eff σ → Prop
  | .step => True
  | .write n _ => ckptOf n = none
  | .remove n => ckptOf n = none
  | .rename _ _ => False

theorem ckpts_applyEffs_noCkpt (es : List (Eff σ)) (h : ∀ e ∈ es, NoCkpt e) (fs : FS σ) :
    (applyEffs fs es).ckpts = fs.ckpts := by
  induction es generalizing fs with
  | nil => rfl
  | cons e es ih =>
    rw [applyEffs_cons, ih (fun e' he' => h e' (List.mem_cons_of_mem _ he'))]
    have he := h e List.mem_cons_self
    cases e with
    | step => rfl
    | write n c => simp only [NoCkpt] at he; simp only [applyEff]; rw [ckpts_write, he]
    | remove n => simp only [NoCkpt] at he; simp only [applyEff]; rw [ckpts_remove, he]
    | rename a b => simp [NoCkpt] at he

theorem writeEffs_noCkpt (n : Name) (hn : ckptOf n = none) (parts : Nat → Content σ) (whole : Content σ)
    (k : Nat) : ∀ e ∈ writeEffs n parts whole k, NoCkpt e := by
  intro e he
  unfold writeEffs at he
  simp only [List.mem_append, List.mem_map, List.mem_range, List.mem_cons, List.not_mem_nil, or_false] at he
  rcases he with ⟨i, _, rfl⟩ | rfl <;> exact hn

/-- checkpoint names right after the new checkpoint has been published -/
theorem ckpts_publish (fs : FS σ) (r : Nat) (s : σ) (k : Nat) :
    (applyEffs fs (writeEffs (.tmp r) (fun k => .part s k) (.full s) k ++ [Eff.rename (.tmp r) (.ckpt r)])).ckpts
      = r :: fs.ckpts.filter (· ≠ r) := by
  rw [applyEffs_append]
  have hg := get_writeEffs fs (.tmp r) (fun k => Content.part s k) (.full s) k
  have hc := ckpts_applyEffs_noCkpt _ (writeEffs_noCkpt (.tmp r) rfl (fun k => Content.part s k) (.full s) k) fs
  simp only [applyEffs, List.foldl_cons, List.foldl_nil] at hg hc ⊢
  simp only [applyEff, hg]
  rw [ckpts_write, ckpts_remove]
  simp only [ckptOf]
  rw [hc]

theorem ckpts_removes (dels : List Nat) (g : FS σ) :
    (applyEffs g (dels.map fun q => Eff.remove (.ckpt q))).ckpts = g.ckpts.filter (fun x => decide (x ∉ dels)) := by
  induction dels generalizing g with
  | nil =>
    simp only [List.map_nil, applyEffs, List.foldl_nil, List.not_mem_nil, not_false_eq_true, decide_true]
    exact (List.filter_eq_self.mpr (fun _ _ => rfl)).symm
  | cons q ds ih =>
    rw [List.map_cons, applyEffs_cons, ih]
    simp only [applyEff]
    rw [ckpts_remove]
    simp only [ckptOf, List.filter_filter]
    apply List.filter_congr
    intro x _
    by_cases h1 : x = q <;> by_cases h2 : x ∈ ds <;> simp [h1, h2]

theorem filter_notin_take (l : List Nat) (hn : l.Nodup) (k : Nat) :
    l.filter (fun x => decide (x ∉ l.take k)) = l.drop k := by
  have hsplit := List.take_append_drop k l
  have hn' : (l.take k ++ l.drop k).Nodup := by rw [hsplit]; exact hn
  rw [List.nodup_append] at hn'
  obtain ⟨_, _, hdis⟩ := hn'
  conv => lhs; arg 2; rw [← hsplit]
  rw [List.filter_append]
  have h1 : (l.take k).filter (fun x => decide (x ∉ l.take k)) = [] := by
    rw [List.filter_eq_nil_iff]
    intro a ha; simp [ha]
  have h2 : (l.drop k).filter (fun x => decide (x ∉ l.take k)) = l.drop k := by
    rw [List.filter_eq_self]
    intro a ha
    simp only [decide_not, Bool.not_eq_eq_eq_not, Bool.not_true, decide_eq_false_iff_not]
    intro hb
    exact hdis a hb a ha rfl
  rw [h1, h2, List.nil_append]

/-- the list `save_checkpoint` sorts: the new round and the other visible rounds -/
def withNew (fs : FS σ) (r : Nat) : List Nat := r :: fs.ckpts.filter (· ≠ r)

theorem withNew_nodup (fs : FS σ) (hwf : WF fs) (r : Nat) : (withNew fs r).Nodup := by
  unfold withNew
  rw [List.nodup_cons]
  refine ⟨by simp, ?_⟩
  exact List.Nodup.sublist List.filter_sublist (ckpts_nodup fs hwf)

/-- **Retention (which files).** After a completed `save_checkpoint` with `keep ≥ 1`, the visible
checkpoints are exactly the `keep` numerically largest of (the new one + those visible before). -/
theorem C09_retention_newest (cfg : Cfg) (hk : 1 ≤ cfg.keep) (fs : FS σ) (hwf : WF fs) (r : Nat) (s : σ) :
    ((applyEffs fs (saveEffs cfg fs r s)).ckpts).Perm
      ((sortNat (withNew fs r)).drop ((withNew fs r).length - cfg.keep)) := by
  unfold saveEffs
  simp only []
  have hk0 : cfg.keep ≠ 0 := by omega
  rw [applyEffs_append, applyEffs_append, ckpts_removes]
  have hstep : ∀ g : FS σ, applyEffs g [Eff.step] = g := fun _ => rfl
  rw [hstep, ckpts_publish]
  rw [show r :: List.filter (fun x => decide (x ≠ r)) fs.ckpts = withNew fs r from rfl]
  simp only [hk0, if_false]
  have hperm := sortNat_perm (withNew fs r)
  have hnd : (sortNat (withNew fs r)).Nodup := (hperm.nodup_iff).mpr (withNew_nodup fs hwf r)
  have hlen : (sortNat (withNew fs r)).length = (withNew fs r).length := hperm.length_eq
  show (List.filter _ (withNew fs r)).Perm _
  rw [hlen]
  have h1 := (hperm.symm).filter (fun x => decide (x ∉ (sortNat (withNew fs r)).take ((withNew fs r).length - cfg.keep)))
  refine h1.trans ?_
  rw [filter_notin_take _ hnd]

/-- **Core (retention, count).** After every completed save the number of checkpoint files is
`min keep (previous + 1)` (previous = those visible before, not counting a file of the same round). -/
theorem C09_retention (cfg : Cfg) (hk : 1 ≤ cfg.keep) (fs : FS σ) (hwf : WF fs) (r : Nat) (s : σ) :
    (applyEffs fs (saveEffs cfg fs r s)).ckpts.length
      = min cfg.keep ((fs.ckpts.filter (· ≠ r)).length + 1) := by
  rw [(C09_retention_newest cfg hk fs hwf r s).length_eq, List.length_drop,
    (sortNat_perm (withNew fs r)).length_eq]
  simp only [withNew, List.length_cons]
  omega

/-- In particular at most `keep` checkpoints are retained after every save. -/
theorem C09_retention_le (cfg : Cfg) (hk : 1 ≤ cfg.keep) (fs : FS σ) (hwf : WF fs) (r : Nat) (s : σ) :
    (applyEffs fs (saveEffs cfg fs r s)).ckpts.length ≤ cfg.keep := by
  rw [C09_retention cfg hk fs hwf r s]; omega

/-- Every checkpoint that a save removes is older than every checkpoint it retains, and the retained
ones were all visible before (or are the new one). -/
theorem C09_retention_oldest_removed (cfg : Cfg) (hk : 1 ≤ cfg.keep) (fs : FS σ) (hwf : WF fs) (r : Nat) (s : σ)
    (q q' : Nat) (hq : q ∈ (applyEffs fs (saveEffs cfg fs r s)).ckpts)
    (hq' : q' ∈ withNew fs r) (hrm : q' ∉ (applyEffs fs (saveEffs cfg fs r s)).ckpts) :
    q' ≤ q ∧ q ∈ withNew fs r := by
  have hperm := C09_retention_newest cfg hk fs hwf r s
  have hs := sortNat_sorted (withNew fs r)
  have hp := sortNat_perm (withNew fs r)
  generalize hkk : (withNew fs r).length - cfg.keep = k at hperm
  rw [← List.take_append_drop k (sortNat (withNew fs r)), List.pairwise_append] at hs
  have hqd : q ∈ (sortNat (withNew fs r)).drop k := (hperm.mem_iff).mp hq
  have hq'd : q' ∉ (sortNat (withNew fs r)).drop k := fun h => hrm ((hperm.mem_iff).mpr h)
  have hq's : q' ∈ sortNat (withNew fs r) := (hp.mem_iff).mpr hq'
  rw [← List.take_append_drop k (sortNat (withNew fs r)), List.mem_append] at hq's
  rcases hq's with h | h
  · exact ⟨hs.2.2 q' h q hqd, (hp.mem_iff).mp (List.mem_of_mem_drop hqd)⟩
  · exact absurd h hq'd

/-- The checkpoint just written survives its own clean-up when it is the newest (as it always is in
the experiment loop: rounds only grow). -/
theorem C09_retention_keeps_new (cfg : Cfg) (hk : 1 ≤ cfg.keep) (fs : FS σ) (hwf : WF fs) (r : Nat) (s : σ)
    (hmax : ∀ q ∈ fs.ckpts, q ≤ r) : r ∈ (applyEffs fs (saveEffs cfg fs r s)).ckpts := by
  rw [(C09_retention_newest cfg hk fs hwf r s).mem_iff]
  have hp := sortNat_perm (withNew fs r)
  have hne : (sortNat (withNew fs r)).getLast? ≠ none := by
    intro h
    have := sortNat_getLast_none _ h
    simp [withNew] at this
  obtain ⟨m, hm⟩ := Option.ne_none_iff_exists'.mp hne
  obtain ⟨hmem, hmx⟩ := sortNat_getLast _ _ hm
  have hmr : m = r := by
    have h1 : r ≤ m := hmx r (by simp [withNew])
    have h2 : m ≤ r := by
      simp only [withNew, List.mem_cons, List.mem_filter] at hmem
      rcases hmem with rfl | ⟨h, _⟩
      · exact Nat.le_refl _
      · exact hmax m h
    omega
  obtain ⟨ys, hys⟩ := List.getLast?_eq_some_iff.mp hm
  have hlen : (withNew fs r).length = ys.length + 1 := by
    rw [← hp.length_eq, hys]; simp
  rw [hys, hlen, hmr, List.drop_append_of_le_length (by omega)]
  simp

/-! ### retention along a whole run -/

theorem wf_crashAt (alg : Alg σ) (cfg : Cfg) (fs : FS σ) (c : Nat) (h : WF fs) : WF (crashAt alg cfg fs c) := by
  unfold crashAt
  cases plan alg cfg fs with
  | none => exact h
  | some p => exact wf_applyEffs _ _ h

theorem wf_crashes (alg : Alg σ) (cfg : Cfg) (cs : List Nat) (fs : FS σ) (h : WF fs) :
    WF (crashes alg cfg cs fs) := by
  induction cs generalizing fs with
  | nil => exact h
  | cons c cs ih => exact ih _ (wf_crashAt alg cfg fs c h)

theorem loop_fs_eq (alg : Alg σ) (cfg : Cfg) (start : Nat) (fs0 : FS σ) (l : List Nat) :
    ∀ st : LoopSt σ, applyEffs fs0 st.effs = st.fs →
      applyEffs fs0 (l.foldl (roundBody alg cfg start) st).effs = (l.foldl (roundBody alg cfg start) st).fs := by
  induction l with
  | nil => intro st h; exact h
  | cons r l ih =>
    intro st h
    rw [List.foldl_cons]
    apply ih
    simp only [roundBody, applyEffs_append, h]
    have h1 : ∀ g : FS σ, applyEffs g [Eff.step, Eff.step] = g := fun _ => rfl
    have h2 : ∀ g : FS σ, applyEffs g [Eff.step] = g := fun _ => rfl
    have h3 : ∀ g : FS σ, applyEffs g (if shouldEval cfg start r then [Eff.step] else []) = g := by
      intro g; split <;> rfl
    rw [h1, h3, h2]

theorem loop_count (alg : Alg σ) (cfg : Cfg) (hk : 1 ≤ cfg.keep) (hf : cfg.freq ≠ 0) (start : Nat) (n : Nat) :
    ∀ (a : Nat) (st : LoopSt σ), start ≤ a → WF st.fs → (start < a → st.fs.ckpts.length ≤ cfg.keep) →
      WF ((List.range' a n).foldl (roundBody alg cfg start) st).fs ∧
      (start < a + n → ((List.range' a n).foldl (roundBody alg cfg start) st).fs.ckpts.length ≤ cfg.keep) := by
  induction n with
  | zero => intro a st _ hwf hc; exact ⟨hwf, by simpa using hc⟩
  | succ n ih =>
    intro a st ha hwf hc
    rw [List.range'_succ, List.foldl_cons]
    have hbody : WF (roundBody alg cfg start st a).fs ∧
        (start < a + 1 → (roundBody alg cfg start st a).fs.ckpts.length ≤ cfg.keep) := by
      simp only [roundBody]
      by_cases hs : shouldSave cfg start a = true
      · rw [if_pos hs]
        exact ⟨wf_applyEffs _ _ hwf, fun _ => C09_retention_le cfg hk st.fs hwf a _⟩
      · rw [if_neg hs]
        refine ⟨hwf, ?_⟩
        intro hlt
        apply hc
        simp only [shouldSave, hf, ne_eq, not_false_eq_true, decide_true, Bool.true_and, Bool.or_eq_true,
          decide_eq_true_eq, not_or] at hs
        omega
    have := ih (a + 1) _ (by omega) hbody.1 hbody.2
    have e : a + 1 + n = a + (n + 1) := by omega
    rw [e] at this
    exact this

theorem finalEffs_noCkpt (cfg : Cfg) (s : σ) (r : Nat) : ∀ e ∈ finalEffs cfg s r, NoCkpt e := by
  intro x hx
  unfold finalEffs at hx
  simp only [List.mem_flatMap, List.mem_range] at hx
  obtain ⟨e, _, hx⟩ := hx
  unfold tsvEffs at hx
  rcases List.mem_cons.mp hx with rfl | hx
  · trivial
  · exact writeEffs_noCkpt _ rfl _ _ _ x hx

theorem runFrom_count (alg : Alg σ) (cfg : Cfg) (hk : 1 ≤ cfg.keep) (hf : cfg.freq ≠ 0) (fs : FS σ)
    (hwf : WF fs) (s : σ) (start : Nat) (hst : start ≤ cfg.numRounds) :
    (applyEffs fs (runFrom alg cfg fs s start).effs).ckpts.length ≤ cfg.keep := by
  unfold runFrom
  simp only []
  rw [applyEffs_append, ckpts_applyEffs_noCkpt _ (finalEffs_noCkpt cfg _ _)]
  rw [loop_fs_eq alg cfg start fs _ ⟨s, fs, start, start - 1, [Eff.step, Eff.step]⟩ rfl]
  have := loop_count alg cfg hk hf start (cfg.numRounds + 1 - start) start
    ⟨s, fs, start, start - 1, [Eff.step, Eff.step]⟩ (Nat.le_refl _) hwf (by intro h; omega)
  exact this.2 (by omega)

/-- **Retention along a run.** After any crash sequence (where more than `keep` checkpoints may be
lying around), a re-run that executes at least one round ends with at most `keep` checkpoints:
the surplus lasts only until the next save. -/
theorem C09_retention_run (alg : Alg σ) (cfg : Cfg) (hk : 1 ≤ cfg.keep) (hf : cfg.freq ≠ 0) (cs : List Nat)
    (res : Result σ) (hres : runAll alg cfg (crashes alg cfg cs ([] : FS σ)) = some res)
    (hfresh : load (crashes alg cfg cs ([] : FS σ)) = .fresh → 1 ≤ cfg.numRounds)
    (hok : ∀ s r, load (crashes alg cfg cs ([] : FS σ)) = .ok s r → r < cfg.numRounds) :
    res.fs.ckpts.length ≤ cfg.keep := by
  have hwf := wf_crashes alg cfg cs ([] : FS σ) wf_nil
  generalize crashes alg cfg cs ([] : FS σ) = g at *
  unfold runAll plan at hres
  cases hl : load g with
  | corrupt => rw [hl] at hres; cases hres
  | fresh =>
    rw [hl] at hres
    simp only [Option.map_some, Option.some.injEq] at hres
    rw [← hres]
    exact runFrom_count alg cfg hk hf g hwf _ 1 (hfresh hl)
  | ok s r =>
    rw [hl] at hres
    simp only [Option.map_some, Option.some.injEq] at hres
    rw [← hres]
    exact runFrom_count alg cfg hk hf g hwf _ (r + 1) (hok s r hl)

/-! ## non-vacuity: concrete instances -/

/-- the free algorithm: the state is the list of rounds applied -/
def algFree : Alg (List Nat) := ⟨[], fun s r => s ++ [r]⟩
def cfg0 : Cfg := ⟨3, 1, 1, 2, 2, 1, 1⟩

-- the invariant holds of the empty directory and of a non-trivial one
example : Inv algFree 3 ([] : FS (List Nat)) := inv_nil _ _
example : S algFree 3 = [1, 2, 3] := by decide
-- a crash in the middle of the second checkpoint write: tmp file partial, checkpoint 1 complete
example : crashAt algFree cfg0 [] 14 = [(.tmp 2, .part [1, 2] 0), (.ckpt 1, .full [1])] := by decide
-- after these three crashes two checkpoints are visible although keep = 1 (crash before the deletion) …
example : (crashes algFree cfg0 [14, 9, 3] []).ckpts = [2, 1] := by decide
-- … the resumed run returns the uninterrupted state and output, and ends with one checkpoint
example : ((runAll algFree cfg0 (crashes algFree cfg0 [14, 9, 3] [])).map fun r => r.fs.ckpts) = some [3] := by
  decide
example : (runAll algFree cfg0 (crashes algFree cfg0 [14, 9, 3] [])).map (fun r => (r.state, r.evalRound))
    = some ([1, 2, 3], 3) := by decide
example : ((runAll algFree cfg0 (crashes algFree cfg0 [14, 9, 3] [])).map fun r => r.fs.get (.tsv 0))
    = some (some (.out 0 [1, 2, 3] 3)) := by decide
-- restart after the last round: no loop iteration, final evaluation with round 3
example : ((runAll algFree cfg0 [(.ckpt 3, .full [1, 2, 3])]).map fun r => (r.state, r.evalRound))
    = some ([1, 2, 3], 3) := by decide
-- an in-place (non-atomic) write would break the invariant: a truncated newest checkpoint kills every re-run
example : (runAll algFree cfg0 [(.ckpt 2, .part [1, 2] 0), (.ckpt 1, .full [1])]).isNone := by decide
-- numeric, not lexical, order
example : load ([(.ckpt 9, .full [9]), (.ckpt 10, .full [10])] : FS (List Nat)) = .ok [10] 10 := by decide
-- retention: keep = 2, three visible + the new one -> two newest remain
def fs3 : FS (List Nat) := [(.ckpt 1, .full [1]), (.ckpt 5, .full [5]), (.ckpt 3, .full [3])]
example : (applyEffs fs3 (saveEffs ⟨9, 1, 2, 0, 1, 0, 0⟩ fs3 7 [7])).ckpts = [7, 5] := by decide
example : WF fs3 := by unfold WF; decide
example : load (crashes algFree cfg0 [14] []) = .ok [1] 1 := by decide

end FedjaxVerif.Experiment
