import FedjaxVerif.Model.Shakespeare
import FedjaxVerif.Model.Emnist
import FedjaxVerif.Model.Cifar
import FedjaxVerif.Model.Labels
import FedjaxVerif.Model.Stackoverflow
import FedjaxVerif.Model.Loss
import Mathlib.Algebra.Order.Field.Basic
import Mathlib.Tactic.Ring
import Mathlib.Tactic.NormNum
import Mathlib.Algebra.Order.Field.Rat
import Mathlib.Data.List.Perm.Basic
import Mathlib.Tactic.Linarith
import Mathlib.Tactic.FieldSimp
import Mathlib.Analysis.Real.Sqrt

/-!
# C20 — packaged dataset preprocessors and models agree with each other

Theorems about the models of
* `fedjax/datasets/shakespeare.py: preprocess_client` (`Model/Shakespeare.lean`) — for every
  look-up table with values in `[3, V)`, every sequence length `L ≥ 2`, every snippet list;
* `fedjax/datasets/emnist.py: domain_id` (`Model/Emnist.lean`) — both id formats, every 4-digit
  number, every prefix/suffix;
* `fedjax/datasets/cifar100.py: preprocess_image_tff` (`Model/Cifar.lean`) — the crop is the
  sub-window at an in-range offset; the standardisation (divisor `max(σ, 1/√n)`, as
  `tf.image.per_image_standardization` defines it) has mean 0, unit variance when `σ ≥ 1/√n`,
  and maps a constant image to 0 — over every linearly ordered field with a square root, and
  over `ℝ` with `Real.sqrt`;
* the label-id agreement predicate evaluated by the driver on introspected constants
  (`Model/Labels.lean`);
* `fedjax/datasets/stackoverflow.py: DefaultWordTokenizer` (`Model/Stackoverflow.lean`) — layout,
  shift, truncation at the preprocessor's own `max_length`, label range; word splitting and the
  vocabulary look-up are externals (the sentence enters as its look-up results);
* the reduction of per-token losses in the language models' `train_loss` (`Model/Loss.lean`):
  PAD positions never contribute, all-PAD rows give 0, rows are independent; the per-token cross
  entropies are an external.

Not modelled (monitored by the harness only): row independence of the haiku networks.
-/

namespace FedjaxVerif.C20
open FedjaxVerif Shakespeare Emnist Cifar Labels

/-! ## Shakespeare tokeniser -/

theorem joined_length (table : Nat → Nat) (snips : List (List Nat)) :
    (joined table snips).length = joinedLength snips := by
  induction snips with
  | nil => rfl
  | cons s rest ih => simp [joined, joinedLength, encodeSnippet, ih]; omega

theorem rows_length (n L : Nat) (l : List Nat) : (rows n L l).length = n := by
  induction n generalizing l with
  | zero => rfl
  | succ n ih => simp [rows, ih]

theorem rows_flatten (n L : Nat) (l : List Nat) (h : l.length = n * L) :
    (rows n L l).flatten = l := by
  induction n generalizing l with
  | zero => simp at h; simp [rows, h]
  | succ n ih =>
    simp only [rows, List.flatten_cons]
    rw [ih]
    · exact List.take_append_drop L l
    · simp [h, Nat.succ_mul]

theorem rows_row_length (n L : Nat) (l : List Nat) (h : l.length = n * L) :
    ∀ r ∈ rows n L l, r.length = L := by
  induction n generalizing l with
  | zero => simp [rows]
  | succ n ih =>
    intro r hr
    simp only [rows, List.mem_cons] at hr
    rcases hr with rfl | hr
    · simp [h, Nat.succ_mul]
    · exact ih (l.drop L) (by simp [h, Nat.succ_mul]) r hr

theorem rows_mem (n L : Nat) (l : List Nat) : ∀ r ∈ rows n L l, ∀ v ∈ r, v ∈ l := by
  induction n generalizing l with
  | zero => simp [rows]
  | succ n ih =>
    intro r hr v hv
    simp only [rows, List.mem_cons] at hr
    rcases hr with rfl | hr
    · exact List.mem_of_mem_take hv
    · exact List.mem_of_mem_drop (ih _ r hr v hv)

/-- `paddedLength` is the least multiple of `L` that is `≥ J - 1`. -/
theorem paddedLength_spec (J L : Nat) (hL : 0 < L) :
    J - 1 ≤ paddedLength J L ∧ paddedLength J L < J - 1 + L ∧
    paddedLength J L / L = (J - 1 + L - 1) / L := by
  unfold paddedLength
  have h1 := Nat.div_add_mod (J - 1 + L - 1) L
  have h2 := Nat.mod_lt (J - 1 + L - 1) hL
  have h3 : (J - 1 + L - 1) / L * L = L * ((J - 1 + L - 1) / L) := Nat.mul_comm _ _
  refine ⟨by omega, by omega, Nat.mul_div_cancel _ hL⟩

theorem stripPad_append (l : List Nat) (k : Nat) (h : ∀ v ∈ l, v ≠ PAD) :
    stripPad (l ++ List.replicate k PAD) = l := by
  unfold stripPad
  rw [List.reverse_append, List.reverse_replicate]
  have h1 : ∀ (k : Nat) (m : List Nat), (List.replicate k PAD ++ m).dropWhile (· == PAD)
      = m.dropWhile (· == PAD) := by
    intro k m
    induction k with
    | zero => simp
    | succ k ih => simp [List.replicate_succ, ih]
  rw [h1]
  have h2 : l.reverse.dropWhile (· == PAD) = l.reverse := by
    cases hr : l.reverse with
    | nil => rfl
    | cons a t =>
      have ha : a ∈ l := by
        have : a ∈ l.reverse := by rw [hr]; simp
        simpa using this
      have := h a ha
      simp [this]
  rw [h2, List.reverse_reverse]

theorem joined_mem (table : Nat → Nat) (snips : List (List Nat)) :
    ∀ v ∈ joined table snips, v = BOS ∨ v = EOS ∨ ∃ b, v = table b := by
  induction snips with
  | nil => simp [joined]
  | cons s rest ih =>
    intro v hv
    simp only [joined, encodeSnippet, List.mem_append, List.mem_cons, List.mem_map] at hv
    rcases hv with (rfl | ⟨b, _, rfl⟩ | h) | h
    · exact Or.inl rfl
    · exact Or.inr (Or.inr ⟨b, rfl⟩)
    · simp at h; exact Or.inr (Or.inl h)
    · exact ih v h


theorem padTo_length (n : Nat) (l : List Nat) (h : l.length ≤ n) : (padTo n l).length = n := by
  simp [padTo]; omega

theorem paddedLength_div_mul (J L : Nat) : paddedLength J L / L * L = paddedLength J L :=
  Nat.div_mul_cancel ⟨_, Nat.mul_comm _ _⟩

/-- the flat input array: `joined[:-1]` followed by fewer than `L` pads -/
theorem x_flat (table : Nat → Nat) (L : Nat) (snips : List (List Nat)) (hL : 0 < L) :
    (preprocess table L snips).1.flatten =
      padTo (paddedLength (joined table snips).length L) (joined table snips).dropLast := by
  simp only [preprocess]
  apply rows_flatten
  rw [paddedLength_div_mul, padTo_length]
  have := (paddedLength_spec (joined table snips).length L hL).1
  simpa using this

theorem y_flat (table : Nat → Nat) (L : Nat) (snips : List (List Nat)) (hL : 0 < L) :
    (preprocess table L snips).2.flatten =
      padTo (paddedLength (joined table snips).length L) (joined table snips).tail := by
  simp only [preprocess]
  apply rows_flatten
  rw [paddedLength_div_mul, padTo_length]
  have := (paddedLength_spec (joined table snips).length L hL).1
  simpa using this

theorem joined_ne_pad (table : Nat → Nat) (snips : List (List Nat)) (htab : ∀ b, 3 ≤ table b) :
    ∀ v ∈ joined table snips, v ≠ PAD := by
  intro v hv
  rcases joined_mem table snips v hv with rfl | rfl | ⟨b, rfl⟩
  · decide
  · decide
  · have := htab b; simp [PAD]; omega

theorem C20_shk_lossless (table : Nat → Nat) (L : Nat) (snips : List (List Nat))
    (hL : 2 ≤ L) (htab : ∀ b, 3 ≤ table b) :
    stripPad (preprocess table L snips).1.flatten = (joined table snips).dropLast ∧
    stripPad (preprocess table L snips).2.flatten = (joined table snips).tail := by
  have hL' : 0 < L := by omega
  have hne := joined_ne_pad table snips htab
  constructor
  · rw [x_flat _ _ _ hL', padTo]
    exact stripPad_append _ _ (fun v hv => hne v (List.dropLast_subset _ hv))
  · rw [y_flat _ _ _ hL', padTo]
    exact stripPad_append _ _ (fun v hv => hne v (List.mem_of_mem_tail hv))

theorem C20_shk_shift (table : Nat → Nat) (L : Nat) (snips : List (List Nat)) (hL : 2 ≤ L)
    (t : Nat) (ht : t + 1 < (joined table snips).length - 1) :
    (preprocess table L snips).2.flatten[t]? = (joined table snips)[t + 1]? ∧
    (preprocess table L snips).1.flatten[t + 1]? = (joined table snips)[t + 1]? ∧
    (joined table snips)[t + 1]? ≠ none := by
  have hL' : 0 < L := by omega
  rw [x_flat _ _ _ hL', y_flat _ _ _ hL', padTo, padTo]
  refine ⟨?_, ?_, ?_⟩
  · rw [List.getElem?_append_left (by simp; omega)]
    simp [List.getElem?_tail]
  · rw [List.getElem?_append_left (by simp; omega)]
    rw [List.getElem?_dropLast]
    simp [ht]
  · simp; omega


theorem padTo_mem (n : Nat) (l : List Nat) : ∀ v ∈ padTo n l, v ∈ l ∨ v = PAD := by
  intro v hv
  simp only [padTo, List.mem_append, List.mem_replicate] at hv
  rcases hv with h | ⟨_, h⟩
  · exact Or.inl h
  · exact Or.inr h

theorem C20_shk_range (table : Nat → Nat) (V L : Nat) (snips : List (List Nat))
    (htab : ∀ b, 3 ≤ table b ∧ table b < V) :
    (∀ r ∈ (preprocess table L snips).1, ∀ v ∈ r, v < V) ∧
    (∀ r ∈ (preprocess table L snips).2, ∀ v ∈ r, v < V) := by
  have hV : 3 < V := by have := htab 0; omega
  have hj : ∀ v ∈ joined table snips, v < V := by
    intro v hv
    rcases joined_mem table snips v hv with rfl | rfl | ⟨b, rfl⟩
    · simp [BOS]; omega
    · simp [EOS]; omega
    · exact (htab b).2
  constructor
  · intro r hr v hv
    rcases padTo_mem _ _ v (rows_mem _ _ _ r hr v hv) with h | rfl
    · exact hj v (List.dropLast_subset _ h)
    · simp [PAD]; omega
  · intro r hr v hv
    rcases padTo_mem _ _ v (rows_mem _ _ _ r hr v hv) with h | rfl
    · exact hj v (List.mem_of_mem_tail h)
    · simp [PAD]; omega

/-- number of rows `= ⌈(J − 1)/L⌉`, every row has `L` labels, no snippets ↦ no rows -/
theorem C20_shk_rows (table : Nat → Nat) (L : Nat) (snips : List (List Nat)) (hL : 2 ≤ L) :
    let J := joinedLength snips
    let x := (preprocess table L snips).1
    let y := (preprocess table L snips).2
    x.length = (J - 1 + L - 1) / L ∧ y.length = x.length ∧
    (J - 1 ≤ x.length * L ∧ x.length * L < J - 1 + L) ∧
    (∀ r ∈ x, r.length = L) ∧ (∀ r ∈ y, r.length = L) ∧
    (snips = [] → x = [] ∧ y = []) := by
  have hL' : 0 < L := by omega
  intro J x y
  have hJ : (joined table snips).length = J := joined_length table snips
  have hs := paddedLength_spec (joined table snips).length L hL'
  have hx : x.length = paddedLength (joined table snips).length L / L := by
    simp [x, preprocess, rows_length]
  have hy : y.length = paddedLength (joined table snips).length L / L := by
    simp [y, preprocess, rows_length]
  have hlenx : (padTo (paddedLength (joined table snips).length L) (joined table snips).dropLast).length
      = paddedLength (joined table snips).length L / L * L := by
    rw [paddedLength_div_mul, padTo_length]; simpa using hs.1
  have hleny : (padTo (paddedLength (joined table snips).length L) (joined table snips).tail).length
      = paddedLength (joined table snips).length L / L * L := by
    rw [paddedLength_div_mul, padTo_length]; simpa using hs.1
  refine ⟨?_, ?_, ?_, ?_, ?_, ?_⟩
  · rw [hx, hs.2.2, hJ]
  · rw [hx, hy]
  · rw [hx, paddedLength_div_mul, ← hJ]; exact ⟨hs.1, hs.2.1⟩
  · exact rows_row_length _ _ _ hlenx
  · exact rows_row_length _ _ _ hleny
  · intro h
    have h0 : paddedLength (joined table snips).length L / L = 0 := by
      subst h
      rw [hs.2.2]
      simp only [joined, List.length_nil]
      exact Nat.div_eq_of_lt (by omega)
    constructor
    · apply List.eq_nil_of_length_eq_zero; rw [hx, h0]
    · apply List.eq_nil_of_length_eq_zero; rw [hy, h0]

/-- the stream starts with `BOS` and its last real target is `EOS` -/
theorem C20_shk_bos_eos (table : Nat → Nat) (L : Nat) (snips : List (List Nat)) (hL : 2 ≤ L)
    (hne : snips ≠ []) :
    (preprocess table L snips).1.flatten[0]? = some BOS ∧
    (preprocess table L snips).2.flatten[joinedLength snips - 2]? = some EOS := by
  have hL' : 0 < L := by omega
  have hJ := joined_length table snips
  rw [x_flat _ _ _ hL', y_flat _ _ _ hL', padTo, padTo]
  obtain ⟨s, rest, rfl⟩ := List.exists_cons_of_ne_nil hne
  have hlast : ∀ (ss : List (List Nat)), ss ≠ [] → (joined table ss).getLast? = some EOS := by
    intro ss
    induction ss with
    | nil => intro h; exact absurd rfl h
    | cons a t ih =>
      intro _
      cases t with
      | nil =>
        simp only [joined, encodeSnippet, List.append_nil]
        rw [← List.cons_append, List.getLast?_append]; simp
      | cons b t' =>
        have := ih (by simp)
        simp only [joined] at this ⊢
        rw [List.getLast?_append, this]; simp
  constructor
  · rw [List.getElem?_append_left]
    · simp [joined, encodeSnippet, List.dropLast]
    · simp [joined, encodeSnippet]
  · have h2 : 2 ≤ joinedLength (s :: rest) := by simp [joinedLength]; omega
    rw [List.getElem?_append_left (by simp [hJ]; omega)]
    rw [List.getElem?_tail]
    have := hlast (s :: rest) (by simp)
    rw [List.getLast?_eq_getElem?, hJ] at this
    rw [← this]; congr 1; omega


/-! ## EMNIST domain ids -/

theorem parse_digits4 (n : Nat) (hn : n < 10000) : parseInt? (digits4 n) = some n := by
  have d : ∀ k, k < 10 → digit? (48 + k) = some k := by
    intro k hk; unfold digit?; rw [if_pos (by omega)]; congr 1; omega
  simp only [parseInt?, digits4, List.isEmpty_cons, parseDigits?,
    d _ (Nat.mod_lt _ (by decide : 0 < 10))]
  simp only [Bool.false_eq_true, if_false]
  congr 1; omega

theorem C20_emnist_domain (n : Nat) (hn : n < 10000) (pre suf : List Nat) (hsuf : suf.length = 3) :
    (pre.length = 18 → domainId (pre ++ digits4 n ++ suf)
        = some (if 2100 ≤ n ∧ n ≤ 2599 then 0 else 1)) ∧
    (pre.length = 1 → domainId (pre ++ digits4 n ++ suf)
        = some (if 2100 ≤ n ∧ n ≤ 2599 then 0 else 1)) := by
  have hd : (digits4 n).length = 4 := rfl
  constructor
  · intro hp
    have hlen : (pre ++ digits4 n ++ suf).length = 25 := by simp [hp, hsuf, hd]
    unfold domainId
    rw [if_pos hlen, List.append_assoc, List.drop_left' hp, List.take_left' hd, parse_digits4 n hn]
    rfl
  · intro hp
    have hlen : (pre ++ digits4 n ++ suf).length = 8 := by simp [hp, hsuf, hd]
    unfold domainId
    rw [if_neg (by omega), if_pos hlen, List.append_assoc, List.drop_left' hp, List.take_left' hd,
      parse_digits4 n hn]
    rfl

theorem C20_emnist_rejects (id : List Nat) (h25 : id.length ≠ 25) (h8 : id.length ≠ 8) :
    domainId id = none := by
  simp [domainId, h25, h8]


/-! ## CIFAR-100 crop -/

theorem C20_crop_offsets (u H h : Nat) :
    centreOff H h ≤ H - h ∧ randOff u H h ≤ H - h := by
  constructor
  · exact Nat.div_le_self _ _
  · have := Nat.mod_lt u (show 0 < H - h + 1 by omega); unfold randOff; omega

theorem C20_crop_window {α} (img : List (List α)) (H W h w oi oj : Nat)
    (hH : img.length = H) (hW : ∀ row ∈ img, row.length = W)
    (hi : oi + h ≤ H) (hj : oj + w ≤ W) :
    (crop h w oi oj img).length = h ∧
    (∀ row ∈ crop h w oi oj img, row.length = w) ∧
    (∀ i j, i < h → j < w →
      ((crop h w oi oj img)[i]?.bind (·[j]?)) = (img[oi + i]?.bind (·[oj + j]?)) ∧
      (img[oi + i]?.bind (·[oj + j]?)).isSome) := by
  refine ⟨?_, ?_, ?_⟩
  · simp [crop]; omega
  · intro row hr
    simp only [crop, List.mem_map] at hr
    obtain ⟨r, hr, rfl⟩ := hr
    have : r ∈ img := List.mem_of_mem_drop (List.mem_of_mem_take hr)
    simp [hW r this]; omega
  · intro i j hi' hj'
    have hlt : oi + i < img.length := by omega
    have hrow : (img[oi + i]'hlt).length = W := hW _ (List.getElem_mem _)
    simp only [crop, List.getElem?_map, List.getElem?_take, if_pos hi', List.getElem?_drop]
    rw [List.getElem?_eq_getElem hlt]
    simp only [Option.map_some, Option.bind_some, List.getElem?_take, if_pos hj',
      List.getElem?_drop]
    refine ⟨trivial, ?_⟩
    rw [List.getElem?_eq_getElem (by omega)]; rfl

theorem C20_crop_flip {α} (img : List (List α)) (w : Nat) (hW : ∀ row ∈ img, row.length = w)
    (i j : Nat) (hj : j < w) :
    ((flipLR img)[i]?.bind (·[j]?)) = (img[i]?.bind (·[w - 1 - j]?)) := by
  simp only [flipLR, List.getElem?_map]
  cases h : img[i]? with
  | none => rfl
  | some row =>
    have hl : row.length = w := hW row (List.mem_of_getElem? h)
    simp only [Option.map_some, Option.bind_some]
    rw [List.getElem?_reverse (by omega), hl]


/-! ## CIFAR-100 per-image standardisation -/

section field
variable {K : Type} [Field K] [LinearOrder K] [IsStrictOrderedRing K]

/-- the facts about the square root the theorems use -/
structure IsSqrt (sqrt : K → K) : Prop where
  nonneg : ∀ x, 0 ≤ x → 0 ≤ sqrt x
  sq : ∀ x, 0 ≤ x → sqrt x * sqrt x = x

/-- the divisor `max(std, 1/sqrt n)` -/
def adjStd (sqrt : K → K) (xs : List K) : K :=
  max (sqrt (variance xs)) (stdFloor sqrt xs.length)

omit [IsStrictOrderedRing K] in
theorem standardise_eq (sqrt : K → K) (xs : List K) :
    standardise sqrt xs = xs.map fun x => (x - mean xs) / adjStd sqrt xs := rfl

theorem sum_map_sub_div (xs : List K) (c d : K) :
    (xs.map fun x => (x - c) / d).sum = (xs.sum - (xs.length : K) * c) / d := by
  induction xs with
  | nil => simp
  | cons x xs ih =>
    simp only [List.map_cons, List.sum_cons, ih, List.length_cons]
    push_cast; ring

theorem sum_sq_div (xs : List K) (c d : K) :
    (xs.map fun x => ((x - c) / d - 0) * ((x - c) / d - 0)).sum
      = (xs.map fun x => (x - c) * (x - c)).sum / (d * d) := by
  induction xs with
  | nil => simp
  | cons x xs ih =>
    simp only [List.map_cons, List.sum_cons, ih]
    ring

theorem sum_sq_nonneg (xs : List K) (c : K) : 0 ≤ (xs.map fun x => (x - c) * (x - c)).sum := by
  induction xs with
  | nil => simp
  | cons x xs ih =>
    simp only [List.map_cons, List.sum_cons]
    exact add_nonneg (mul_self_nonneg _) ih

theorem length_pos_cast (xs : List K) (hne : xs ≠ []) : (0 : K) < (xs.length : K) := by
  have : 0 < xs.length := List.length_pos_of_ne_nil hne
  exact_mod_cast this

theorem variance_nonneg (xs : List K) (hne : xs ≠ []) : 0 ≤ variance xs :=
  div_nonneg (sum_sq_nonneg xs _) (length_pos_cast xs hne).le

theorem stdFloor_pos (sqrt : K → K) (hs : IsSqrt sqrt) (n : Nat) (hn : 0 < n) :
    0 < stdFloor sqrt n := by
  have hn' : (0 : K) < (n : K) := by exact_mod_cast hn
  have h1 := hs.nonneg _ hn'.le
  have h2 := hs.sq _ hn'.le
  have : 0 < sqrt (n : K) := by
    rcases h1.lt_or_eq with h | h
    · exact h
    · rw [← h] at h2; simp at h2; exact absurd h2.symm hn'.ne'
  unfold stdFloor
  simp only [Nat.cast_one]
  exact one_div_pos.mpr this

theorem adjStd_pos (sqrt : K → K) (hs : IsSqrt sqrt) (xs : List K) (hne : xs ≠ []) :
    0 < adjStd sqrt xs :=
  lt_of_lt_of_le (stdFloor_pos sqrt hs _ (List.length_pos_of_ne_nil hne)) (le_max_right _ _)

/-- mean 0 (in fact the sum of the outputs is 0), for every non-empty image -/
theorem C20_standardise_mean (sqrt : K → K) (xs : List K) (hne : xs ≠ []) :
    (standardise sqrt xs).sum = 0 ∧ mean (standardise sqrt xs) = 0 := by
  have hn := (length_pos_cast xs hne).ne'
  have h : (standardise sqrt xs).sum = 0 := by
    rw [standardise_eq, sum_map_sub_div]
    unfold mean
    rw [mul_div_cancel₀ _ hn]; simp
  exact ⟨h, by unfold mean; rw [h]; simp⟩

/-- unit variance whenever the standard deviation is at least the floor `1/sqrt n` -/
theorem C20_standardise_var (sqrt : K → K) (hs : IsSqrt sqrt) (xs : List K) (hne : xs ≠ [])
    (hfloor : stdFloor sqrt xs.length ≤ sqrt (variance xs)) :
    variance (standardise sqrt xs) = 1 := by
  have hn := (length_pos_cast xs hne).ne'
  have hadj : adjStd sqrt xs = sqrt (variance xs) := max_eq_left hfloor
  have hpos := adjStd_pos sqrt hs xs hne
  have hsq := hs.sq _ (variance_nonneg xs hne)
  unfold variance
  rw [(C20_standardise_mean sqrt xs hne).2]
  rw [standardise_eq, List.map_map]
  simp only [Function.comp_def, List.length_map]
  rw [sum_sq_div, hadj, hsq]
  have hv : variance xs ≠ 0 := by
    intro h0; rw [hadj, h0] at hpos
    have := hs.sq 0 le_rfl
    have h1 : sqrt 0 = 0 := by
      rcases mul_self_eq_zero.mp this with h; exact h
    rw [h1] at hpos; exact lt_irrefl _ hpos
  have : (xs.map fun x => (x - mean xs) * (x - mean xs)).sum = variance xs * (xs.length : K) := by
    unfold variance; field_simp
  rw [this]; field_simp

omit [IsStrictOrderedRing K] in
/-- low-contrast images are scaled by `sqrt n` (so their variance is `n·σ² ≤ 1`, not 1) -/
theorem C20_standardise_low (sqrt : K → K) (xs : List K)
    (hlow : sqrt (variance xs) ≤ stdFloor sqrt xs.length) :
    standardise sqrt xs = xs.map fun x => (x - mean xs) / (1 / sqrt (xs.length : K)) := by
  rw [standardise_eq]
  have : adjStd sqrt xs = 1 / sqrt (xs.length : K) := by
    unfold adjStd; rw [max_eq_right hlow]; simp [stdFloor]
  rw [this]

/-- a constant image is mapped to the all-zero image (no division by zero) -/
theorem C20_standardise_const (sqrt : K → K) (hs : IsSqrt sqrt) (n : Nat) (hn : 0 < n) (c : K) :
    standardise sqrt (List.replicate n c) = List.replicate n 0 := by
  have hne : List.replicate n c ≠ [] := by
    intro h; have := congrArg List.length h; simp at this; omega
  have hpos := adjStd_pos sqrt hs _ hne
  have hn' : (n : K) ≠ 0 := by exact_mod_cast hn.ne'
  have hm : mean (List.replicate n c) = c := by
    unfold mean; simp [List.sum_replicate]; field_simp
  rw [standardise_eq, hm, List.map_replicate]
  simp

omit [IsStrictOrderedRing K] in
theorem standardise_length (sqrt : K → K) (xs : List K) :
    (standardise sqrt xs).length = xs.length := by simp [standardise]

end field

theorem real_isSqrt : IsSqrt Real.sqrt :=
  ⟨fun x _ => Real.sqrt_nonneg x, fun _ h => Real.mul_self_sqrt h⟩

/-- The statement of the property over `ℝ` with the real square root: per-image standardisation
has mean 0; unit variance when `σ ≥ 1/√n`; and a constant image becomes 0. -/
theorem C20_standardise (xs : List ℝ) (hne : xs ≠ []) :
    mean (standardise Real.sqrt xs) = 0 ∧
    (stdFloor Real.sqrt xs.length ≤ Real.sqrt (variance xs) →
      variance (standardise Real.sqrt xs) = 1) ∧
    (∀ c, xs = List.replicate xs.length c → standardise Real.sqrt xs = List.replicate xs.length 0) :=
  ⟨(C20_standardise_mean _ xs hne).2, C20_standardise_var _ real_isSqrt xs hne,
   fun c h => by
    rw [h, List.length_replicate]
    exact C20_standardise_const _ real_isSqrt _ (by
      have := List.length_pos_of_ne_nil hne; exact this) c⟩


/-! ## Label conventions -/

/-- what the driver's Boolean says, as a proposition: the model's output width is the dataset's
vocabulary size and every metric masks the dataset's PAD, masks only special labels (never a
vocabulary label) as a target, masks only special labels as a prediction (over a mask of vocabulary width), and uses the
dataset's OOV set and EOS id. -/
theorem C20_labels_agree (d : DatasetIds) (m : ModelIds) :
    labelsAgree d m = true ↔
      m.width = d.vocab ∧ ∀ k ∈ m.metrics,
        d.pad ∈ k.masked ∧ (∀ v ∈ k.masked, v = d.pad ∨ v = d.bos ∨ v = d.eos ∨ v ∈ d.oov) ∧
        (∀ ws, k.logitsMask = some ws → ws.1 = d.vocab ∧
            ∀ v ∈ ws.2, v = d.pad ∨ v = d.bos ∨ v = d.eos ∨ v ∈ d.oov) ∧
        (∀ o, k.oov = some o → (∀ v, v ∈ o ↔ v ∈ d.oov)) ∧
        (∀ e, k.eos = some e → e = d.eos) := by
  simp only [labelsAgree, Bool.and_eq_true, beq_iff_eq, List.all_eq_true]
  apply and_congr_right; intro _
  apply forall_congr'; intro k
  apply imp_congr_right; intro _
  obtain ⟨masked, lm, oov, eos⟩ := k
  have hset : ∀ o : List Nat, ((∀ x ∈ o, x ∈ d.oov) ∧ (∀ x ∈ d.oov, x ∈ o)) ↔
      (∀ v, v ∈ o ↔ v ∈ d.oov) :=
    fun o => ⟨fun h v => ⟨h.1 v, h.2 v⟩, fun h => ⟨fun v => (h v).1, fun v => (h v).2⟩⟩
  cases lm with
  | none =>
    cases oov <;> cases eos <;>
      simp [metricAgrees, isSpecial, hset, and_assoc, or_assoc]
  | some ws =>
    obtain ⟨w, s⟩ := ws
    cases oov <;> cases eos <;>
      simp [metricAgrees, isSpecial, hset, and_assoc, or_assoc]


/-! ## StackOverflow word tokeniser (one sentence, one `max_length`) -/

theorem so_toDense_length (L : Nat) (r : List Nat) : (Stackoverflow.toDense L r).length = L := by
  simp [Stackoverflow.toDense]; omega

/-- Layout: both rows have exactly this preprocessor's `max_length`; `x` is `Stackoverflow.BOS, words+3`
cut/padded, `y` is `words+3, Stackoverflow.EOS` cut/padded. -/
theorem C20_so_layout (nv L : Nat) (ws : List (Option Nat)) :
    (Stackoverflow.tokenize nv L ws).1.length = L ∧ (Stackoverflow.tokenize nv L ws).2.length = L ∧
    (Stackoverflow.tokenize nv L ws).1 = Stackoverflow.toDense L (Stackoverflow.BOS :: ws.map (fun w => Stackoverflow.lookup nv w + 3)) ∧
    (Stackoverflow.tokenize nv L ws).2 = Stackoverflow.toDense L (ws.map (fun w => Stackoverflow.lookup nv w + 3) ++ [Stackoverflow.EOS]) := by
  refine ⟨so_toDense_length _ _, so_toDense_length _ _, ?_, ?_⟩
  · simp only [Stackoverflow.tokenize, Stackoverflow.tokenIds]
    congr 1
    rw [← List.cons_append, List.dropLast_concat]
  · simp [Stackoverflow.tokenize, Stackoverflow.tokenIds]

/-- targets are inputs shifted by one inside the kept, unpadded part -/
theorem C20_so_shift (nv L : Nat) (ws : List (Option Nat)) (t : Nat)
    (ht : t + 1 < L) (hw : t + 1 ≤ ws.length) :
    (Stackoverflow.tokenize nv L ws).2[t]? = (Stackoverflow.tokenize nv L ws).1[t + 1]? ∧
    (Stackoverflow.tokenize nv L ws).2[t]? = (ws[t]?).map (fun w => Stackoverflow.lookup nv w + 3) := by
  obtain ⟨_, _, hx, hy⟩ := C20_so_layout nv L ws
  rw [hx, hy]
  simp only [Stackoverflow.toDense]
  have h1 : t < ((ws.map (fun w => Stackoverflow.lookup nv w + 3) ++ [Stackoverflow.EOS]).take L).length := by
    simp; omega
  have h2 : t + 1 < ((Stackoverflow.BOS :: ws.map (fun w => Stackoverflow.lookup nv w + 3)).take L).length := by
    simp; omega
  rw [List.getElem?_append_left h1, List.getElem?_append_left h2]
  rw [List.getElem?_take, List.getElem?_take, if_pos (by omega), if_pos ht]
  rw [List.getElem?_cons_succ, List.getElem?_append_left (by simp; omega)]
  simp

/-- truncation at `max_length`: a sentence of `n` words keeps its Stackoverflow.EOS iff `n + 1 ≤ L`; then the
row is `words, Stackoverflow.EOS, Stackoverflow.PAD…`; otherwise the row is the first `L` word labels (no Stackoverflow.EOS, no Stackoverflow.PAD). -/
theorem C20_so_truncation (nv L : Nat) (ws : List (Option Nat)) :
    (ws.length + 1 ≤ L →
      (Stackoverflow.tokenize nv L ws).2 = ws.map (fun w => Stackoverflow.lookup nv w + 3) ++ Stackoverflow.EOS ::
        List.replicate (L - (ws.length + 1)) Stackoverflow.PAD) ∧
    (L < ws.length + 1 →
      (Stackoverflow.tokenize nv L ws).2 = (ws.map (fun w => Stackoverflow.lookup nv w + 3)).take L ∧
      Stackoverflow.EOS ∉ (Stackoverflow.tokenize nv L ws).2 ∧ Stackoverflow.PAD ∉ (Stackoverflow.tokenize nv L ws).2) := by
  obtain ⟨_, _, _, hy⟩ := C20_so_layout nv L ws
  constructor
  · intro h
    rw [hy, Stackoverflow.toDense, List.take_of_length_le (by simp; omega)]
    simp
  · intro h
    have hy' : (Stackoverflow.tokenize nv L ws).2 = (ws.map (fun w => Stackoverflow.lookup nv w + 3)).take L := by
      rw [hy, Stackoverflow.toDense, List.take_append_of_le_length (by simp; omega)]
      have : L - (ws.map (fun w => Stackoverflow.lookup nv w + 3) ++ [Stackoverflow.EOS]).length = 0 := by simp; omega
      rw [this]; simp
    refine ⟨hy', ?_, ?_⟩ <;>
    · rw [hy']
      intro hmem
      have := List.mem_of_mem_take hmem
      simp only [List.mem_map] at this
      obtain ⟨w, _, hw⟩ := this
      have h2 : Stackoverflow.EOS = 2 := rfl
      have h0 : Stackoverflow.PAD = 0 := rfl
      omega

/-- every label is below the vocabulary size `nv + 4` (ids of in-vocabulary words `< nv`) -/
theorem C20_so_range (nv L : Nat) (ws : List (Option Nat)) (hws : ∀ i, some i ∈ ws → i < nv) :
    (∀ v ∈ (Stackoverflow.tokenize nv L ws).1, v < nv + 4) ∧ (∀ v ∈ (Stackoverflow.tokenize nv L ws).2, v < nv + 4) := by
  have hl : ∀ w ∈ ws, Stackoverflow.lookup nv w + 3 < nv + 4 := by
    intro w hw
    cases w with
    | none => simp [Stackoverflow.lookup]
    | some i => have := hws i hw; simp [Stackoverflow.lookup]; omega
  have hids : ∀ v ∈ Stackoverflow.tokenIds nv ws, v < nv + 4 := by
    intro v hv
    simp only [Stackoverflow.tokenIds, List.mem_cons, List.mem_append, List.mem_map, List.not_mem_nil,
      or_false] at hv
    rcases hv with rfl | ⟨w, hw, rfl⟩ | rfl
    · simp [Stackoverflow.BOS]
    · exact hl w hw
    · simp [Stackoverflow.EOS]
  have hd : ∀ (r : List Nat), (∀ v ∈ r, v < nv + 4) → ∀ v ∈ Stackoverflow.toDense L r, v < nv + 4 := by
    intro r hr v hv
    simp only [Stackoverflow.toDense, List.mem_append, List.mem_replicate] at hv
    rcases hv with h | ⟨_, rfl⟩
    · exact hr v (List.mem_of_mem_take h)
    · simp [Stackoverflow.PAD]
  exact ⟨hd _ (fun v hv => hids v (List.dropLast_subset _ hv)),
         hd _ (fun v hv => hids v (List.mem_of_mem_tail hv))⟩


/-! ## Train-loss reduction of the language models (per-token losses are an external) -/

/-- PAD positions never contribute: two per-token loss rows that agree at every non-PAD target
position give the same masked losses (whatever the values at PAD positions are). -/
theorem loss_masked_congr (pad : Nat) (targets : List Nat) (ce ce' : List Rat)
    (hlen : ce.length = ce'.length)
    (h : ∀ i : Nat, targets[i]? ≠ some pad → ce[i]? = ce'[i]?) :
    Loss.masked pad targets ce = Loss.masked pad targets ce' := by
  induction targets generalizing ce ce' with
  | nil => simp [Loss.masked]
  | cons t ts ih =>
    cases ce with
    | nil => cases ce' with
      | nil => rfl
      | cons _ _ => simp at hlen
    | cons c cs => cases ce' with
      | nil => simp at hlen
      | cons c' cs' =>
        simp only [Loss.masked, List.zipWith_cons_cons]
        have ht := ih cs cs' (by simpa using hlen) (fun i hi => by simpa using h (i + 1) (by simpa using hi))
        simp only [Loss.masked] at ht
        rw [ht]
        by_cases hp : t = pad
        · simp [hp]
        · have := h 0 (by simpa using hp)
          simp at this
          simp [hp, this]

theorem C20_loss_pad_invariant (pad : Nat) (el : Option Rat) (targets : List Nat) (ce ce' : List Rat)
    (hlen : ce.length = ce'.length)
    (h : ∀ i : Nat, targets[i]? ≠ some pad → ce[i]? = ce'[i]?) :
    Loss.soLoss pad el targets ce = Loss.soLoss pad el targets ce' ∧
    Loss.shkLoss pad targets ce = Loss.shkLoss pad targets ce' := by
  have hm := loss_masked_congr pad targets ce ce' hlen h
  constructor
  · cases el <;> simp [Loss.soLoss, Loss.maskedSum, hm]
  · simp [Loss.shkLoss, Loss.maskedSum, hm]

/-- an all-PAD row (a batch-padding row, or an empty sentence row) has loss 0 -/
theorem C20_loss_all_pad (pad : Nat) (el : Option Rat) (targets : List Nat) (ce : List Rat)
    (h : ∀ t ∈ targets, t = pad) :
    Loss.soLoss pad el targets ce = 0 ∧ Loss.shkLoss pad targets ce = 0 := by
  have hm : Loss.maskedSum pad targets ce = 0 := by
    unfold Loss.maskedSum Loss.masked
    induction targets generalizing ce with
    | nil => simp
    | cons t ts ih =>
      cases ce with
      | nil => simp
      | cons c cs =>
        have ht : t = pad := h t (by simp)
        simp [List.zipWith_cons_cons, ht, ih cs (fun t' ht' => h t' (by simp [ht']))]
  constructor
  · cases el <;> simp [Loss.soLoss, hm]
  · simp [Loss.shkLoss, hm]

/-- the loss is the PAD-masked sum over the non-PAD positions only: appending PAD positions
(a longer `max_length`) does not change the StackOverflow loss -/
theorem C20_loss_padding_irrelevant (pad : Nat) (el : Option Rat) (targets : List Nat) (ce : List Rat)
    (hlen : ce.length = targets.length) (k : Nat) (junk : List Rat) (hj : junk.length = k) :
    Loss.soLoss pad el (targets ++ List.replicate k pad) (ce ++ junk) = Loss.soLoss pad el targets ce := by
  have hm : Loss.maskedSum pad (targets ++ List.replicate k pad) (ce ++ junk)
      = Loss.maskedSum pad targets ce := by
    unfold Loss.maskedSum Loss.masked
    rw [List.zipWith_append (by omega)]
    have hz : (List.zipWith (fun t c => if t = pad then (0 : Rat) else c) (List.replicate k pad) junk).sum = 0 := by
      subst hj
      induction junk with
      | nil => simp
      | cons j js ih => simp [List.replicate_succ, List.zipWith_cons_cons, ih]
    simp [hz]
  cases el <;> simp [Loss.soLoss, hm]

/-- row independence: the loss of row `i` of a batch is the loss of that row alone, so replacing
the other rows or permuting the batch cannot change it -/
theorem C20_loss_row_independent (f : List Nat → List Rat → Rat) (rows : List (List Nat × List Rat)) :
    (∀ i : Nat, (Loss.batchLoss f rows)[i]? = (rows[i]?).map (fun r : List Nat × List Rat => f r.1 r.2)) ∧
    (∀ rows', rows.Perm rows' → (Loss.batchLoss f rows).Perm (Loss.batchLoss f rows')) := by
  constructor
  · intro i; simp [Loss.batchLoss]
  · intro rows' hp; exact hp.map _

/-- the expected-length variant is the unscaled loss times the constant `1 / expected_length` -/
theorem C20_loss_scale (pad : Nat) (e : Rat) (targets : List Nat) (ce : List Rat) :
    Loss.soLoss pad (some e) targets ce = Loss.soLoss pad none targets ce * (1 / e) := rfl


/-! ## Non-vacuity: concrete instances meeting the hypotheses -/

/-- a table with values in `[3, 90)` like the real one -/
def exTable : Nat → Nat := fun b => 3 + b % 86

theorem exTable_ok : ∀ b, 3 ≤ exTable b ∧ exTable b < 90 := by
  intro b; unfold exTable; omega

/-- the docstring example `[b'ABCD', b'E']`, `L = 3` -/
example : preprocess exTable 3 [[65, 66, 67, 68], [69]] =
    ([[1, 68, 69], [70, 71, 2], [1, 72, 0]], [[68, 69, 70], [71, 2, 1], [72, 2, 0]]) := by decide

example := C20_shk_lossless exTable 3 [[65, 66, 67, 68], [69]] (by decide)
  (fun b => (exTable_ok b).1)
example := C20_shk_shift exTable 3 [[65, 66, 67, 68], [69]] (by decide) 6 (by decide)
example := C20_shk_range exTable 90 3 [[65, 66, 67, 68], [], [255]] exTable_ok
example := C20_shk_rows exTable 3 [[65, 66, 67, 68], [69]] (by decide)
example := C20_shk_rows exTable 2 [] (by decide)
example := C20_shk_bos_eos exTable 2 [[], [7]] (by decide) (by simp)
-- a length that is exactly a multiple of `L` gets no padding row
example : (preprocess exTable 4 [[65, 66, 67]]).1 = [[1, 68, 69, 70]] := by decide

example : domainId ("f2100_45".toList.map Char.toNat) = some 0 := by decide
example : domainId ("0123456789abcdef:f2600_00".toList.map Char.toNat) = some 1 := by decide
example := C20_emnist_domain 2599 (by decide) [102] [95, 48, 49] rfl
example := C20_emnist_rejects [102, 50] (by decide) (by decide)
example : domainId ("f21x0_45".toList.map Char.toNat) = none := by decide

example := C20_crop_offsets 1234567 32 24
example := C20_crop_window [[0, 1, 2, 3], [4, 5, 6, 7], [8, 9, 10, 11], [12, 13, 14, 15]] 4 4 2 2 1 2
  rfl (by decide) (by decide) (by decide)
example : cropTff 4 4 2 2 none [[0, 1, 2, 3], [4, 5, 6, 7], [8, 9, 10, 11], [12, 13, 14, 15]]
    = [[5, 6], [9, 10]] := by decide
example : cropTff 4 4 2 3 (some (7, 5, true)) [[0, 1, 2, 3], [4, 5, 6, 7], [8, 9, 10, 11], [12, 13, 14, 15]]
    = [[7, 6, 5], [11, 10, 9]] := by decide
example := C20_crop_flip [[5, 6], [9, 10]] 2 (by decide) 1 0 (by decide)

-- the square-root hypothesis is satisfiable (`ℝ`), and both branches of the floor occur
example : IsSqrt Real.sqrt := real_isSqrt
example : variance [(0 : ℝ), 2] = 1 := by norm_num [variance, mean]
example : stdFloor Real.sqrt [(0 : ℝ), 2].length ≤ Real.sqrt (variance [(0 : ℝ), 2]) := by
  have h : variance [(0 : ℝ), 2] = 1 := by norm_num [variance, mean]
  rw [h, Real.sqrt_one]
  simp only [stdFloor, List.length_cons, List.length_nil, Nat.cast_one]
  rw [div_le_one (Real.sqrt_pos.mpr (by norm_num))]
  exact Real.one_le_sqrt.mpr (by norm_num)
example : variance (standardise Real.sqrt [(0 : ℝ), 2]) = 1 := by
  apply C20_standardise_var _ real_isSqrt _ (by simp)
  have h : variance [(0 : ℝ), 2] = 1 := by norm_num [variance, mean]
  rw [h, Real.sqrt_one]
  simp only [stdFloor, List.length_cons, List.length_nil, Nat.cast_one]
  rw [div_le_one (Real.sqrt_pos.mpr (by norm_num))]
  exact Real.one_le_sqrt.mpr (by norm_num)
example : Real.sqrt (variance [(7 : ℝ), 7]) ≤ stdFloor Real.sqrt [(7 : ℝ), 7].length := by
  have h : variance [(7 : ℝ), 7] = 0 := by norm_num [variance, mean]
  rw [h, Real.sqrt_zero]
  exact (stdFloor_pos _ real_isSqrt 2 (by decide)).le
example := C20_standardise_mean Real.sqrt [(100 : ℝ), 101, 109] (by simp)
example := C20_standardise_const Real.sqrt real_isSqrt 1728 (by decide) (37 : ℝ)
example := C20_standardise [(100 : ℝ), 101, 109] (by simp)

/-- the ids of `fedjax/datasets/shakespeare.py` -/
def exShk : DatasetIds := ⟨0, 1, 2, [89], 90⟩
/-- the repaired model configuration agrees … -/
example : labelsAgree exShk ⟨90, [⟨[0, 2], some (90, [0, 1, 2, 89]), none, none⟩,
    ⟨[0], none, some [89], none⟩, ⟨[0], none, none, some 2⟩]⟩ = true := by decide
/-- … and the unrepaired one (`bos = 87, eos = 88`, DESIGN §6 row 17) does not. -/
example : labelsAgree exShk ⟨90, [⟨[0, 88], some (90, [0, 87, 88, 89]), none, none⟩,
    ⟨[0], none, some [89], none⟩]⟩ = false := by decide

-- StackOverflow tokeniser: padding, truncation, OOV
example : Stackoverflow.tokenize 3 4 [some 0, none, some 2] = ([1, 3, 6, 5], [3, 6, 5, 2]) := by decide
example : Stackoverflow.tokenize 3 2 [some 0, none, some 2] = ([1, 3], [3, 6]) := by decide
example : Stackoverflow.tokenize 3 6 [some 0] = ([1, 3, 0, 0, 0, 0], [3, 2, 0, 0, 0, 0]) := by decide
example := C20_so_shift 3 4 [some 0, none, some 2] 2 (by decide) (by decide)
example := (C20_so_truncation 3 2 [some 0, none, some 2]).2 (by decide)
example := C20_so_range 3 4 [some 0, none, some 2] (by simp)

-- train-loss reduction
example : Loss.soLoss 0 none [3, 2, 0] [1/2, 1/4, 7] = 3/4 := by
  norm_num [Loss.soLoss, Loss.maskedSum, Loss.masked]
example : Loss.soLoss 0 (some (133/10)) [3, 2, 0] [1/2, 1/4, 7] = 3/4 * (10/133) := by
  norm_num [Loss.soLoss, Loss.maskedSum, Loss.masked]
example : Loss.shkLoss 0 [3, 2, 0, 0] [1/2, 1/4, 7, 9] = 3/16 := by
  norm_num [Loss.shkLoss, Loss.maskedSum, Loss.masked]
example := C20_loss_pad_invariant 0 (some (133/10)) [3, 2, 0] [1/2, 1/4, 7] [1/2, 1/4, -100] rfl
  (by intro i; match i with | 0 => simp | 1 => simp | 2 => simp | (n+3) => simp)
example := C20_loss_all_pad 0 (some 2) [0, 0, 0] [5, 6, 7] (by simp)
example := C20_loss_padding_irrelevant 0 none [3, 2] [1/2, 1/4] rfl 2 [9, 9] rfl
example := (C20_loss_row_independent (Loss.soLoss 0 none) [([3, 2, 0], [1/2, 1/4, 7]), ([0, 0, 0], [1, 1, 1])]).1 1

end FedjaxVerif.C20
