import FedjaxVerif.Model.Centralised
import FedjaxVerif.Props.C03

/-!
# C15 — centralised streams over many clients neither lose nor duplicate
-/

namespace FedjaxVerif.Centralised
open FedjaxVerif.Batching

/-! ## padded_batch_client_datasets -/

/-- `emitFull` emits whole `bs`-chunks of `xs.drop start` and stops at `start'`. -/
theorem emitFull_spec {α} (bs : Nat) (hbs : 0 < bs) (xs : List α) :
    ∀ fuel start, xs.length ≤ start + fuel * bs → start ≤ xs.length →
      let r := emitFull bs xs fuel start
      r.1.flatten ++ xs.drop r.2 = xs.drop start ∧ (∀ b ∈ r.1, b.length = bs) ∧
      start ≤ r.2 ∧ r.2 ≤ xs.length ∧ xs.length ≤ r.2 + bs := by
  intro fuel
  induction fuel with
  | zero =>
    intro start h hs
    simp only [emitFull]
    refine ⟨by simp, by simp, Nat.le_refl _, hs, by omega⟩
  | succ fuel ih =>
    intro start h hs
    simp only [emitFull]
    by_cases hc : start + bs < xs.length
    · simp only [hc, if_true]
      have := ih (start + bs) (by rw [Nat.succ_mul] at h; omega) (by omega)
      obtain ⟨h1, h2, h3, h4, h5⟩ := this
      refine ⟨?_, ?_, by omega, h4, h5⟩
      · simp only [List.flatten_cons, List.append_assoc]
        rw [h1, ← List.drop_drop, List.take_append_drop]
      · intro b hb
        simp only [List.mem_cons] at hb
        rcases hb with rfl | hb
        · simp [List.length_take, List.length_drop]; omega
        · exact h2 b hb
    · simp only [hc, if_false]
      refine ⟨by simp, by simp, Nat.le_refl _, hs, by omega⟩

/-- the inner loop never consumes the last row: something is left to buffer -/
theorem emitFull_lt {α} (bs : Nat) (xs : List α) :
    ∀ fuel start, start < xs.length → (emitFull bs xs fuel start).2 < xs.length := by
  intro fuel
  induction fuel with
  | zero => intro start h; simpa [emitFull] using h
  | succ fuel ih =>
    intro start h
    simp only [emitFull]
    by_cases hc : start + bs < xs.length
    · simp only [hc, if_true]; exact ih _ hc
    · simp only [hc, if_false]; exact h

/-- The loop invariant of `padded_batch_client_datasets` after the datasets `consumed`:
`buf_size` is the number of buffered rows and is **at most** `bs` (not `<` as the source comment
says), batches yielded so far are full, yielded ++ buffered rows = consumed rows in order, and
once a dataset has been consumed something has been yielded or buffered. -/
def MInv {α} (bs : Nat) (st : MState α) (consumed : List (List α)) : Prop :=
  st.bufSize = st.buf.flatten.length ∧ st.bufSize ≤ bs ∧
  st.out.flatten ++ st.buf.flatten = consumed.flatten ∧ (∀ b ∈ st.out, b.length = bs) ∧
  (consumed ≠ [] → st.out ≠ [] ∨ st.buf ≠ [])

theorem MInv_init {α} (bs : Nat) : MInv bs (MState.init : MState α) [] := by
  simp [MInv, MState.init]

theorem isEmpty_false_of_ne {α} {l : List α} (h : l ≠ []) : l.isEmpty = false := by
  cases l with
  | nil => exact absurd rfl h
  | cons a t => rfl

theorem MInv_step {α} (bs : Nat) (hbs : 0 < bs) (st : MState α) (c : List (List α)) (xs : List α)
    (h : MInv bs st c) : MInv bs (stepDataset bs st xs) (c ++ [xs]) := by
  obtain ⟨h1, h2, h3, h4, h5⟩ := h
  have hc : (c ++ [xs]).flatten = c.flatten ++ xs := by simp
  unfold stepDataset
  by_cases hfit : st.bufSize + xs.length < bs
  · simp only [hfit, if_true]
    refine ⟨by simp [h1], by show st.bufSize + xs.length ≤ bs; omega, ?_, h4, fun _ => Or.inr (by simp)⟩
    simp only [List.flatten_append, List.flatten_cons, List.flatten_nil, List.append_nil]
    rw [← h3, List.append_assoc]
  · simp only [hfit, if_false]
    by_cases hemp : st.buf = []
    · -- empty buffer: start = 0
      have hz : st.bufSize = 0 := by rw [h1, hemp]; rfl
      simp only [hemp, List.isEmpty_nil, if_true]
      have hsz : 0 < xs.length := by omega
      obtain ⟨e1, e2, e3, e4, e5⟩ := emitFull_spec bs hbs xs (xs.length + 1) 0
        (by have := Nat.le_mul_of_pos_right (xs.length + 1) hbs; omega) (Nat.zero_le _)
      have hlt := emitFull_lt bs xs (xs.length + 1) 0 hsz
      simp only [hlt, if_true]
      rw [hemp] at h3
      simp only [List.flatten_nil, List.append_nil] at h3
      refine ⟨by simp, by simp only []; omega, ?_, ?_, fun _ => Or.inr (by simp)⟩
      · simp only [List.flatten_append, List.flatten_cons, List.flatten_nil, List.append_nil]
        rw [List.append_assoc, e1, List.drop_zero, h3]
      · intro b hb
        rcases List.mem_append.mp hb with hb | hb
        · exact h4 b hb
        · exact e2 b hb
    · -- non-empty buffer: complete it with the head of `xs`
      have hne := isEmpty_false_of_ne hemp
      simp only [hne, Bool.false_eq_true, if_false]
      have hst : bs - st.bufSize ≤ xs.length := by omega
      obtain ⟨e1, e2, e3, e4, e5⟩ := emitFull_spec bs hbs xs (xs.length + 1) (bs - st.bufSize)
        (by have := Nat.le_mul_of_pos_right (xs.length + 1) hbs; omega) hst
      have hfirst : ((st.buf ++ [xs.take (bs - st.bufSize)]).flatten).length = bs := by
        simp only [List.flatten_append, List.flatten_cons, List.flatten_nil, List.append_nil,
          List.length_append, List.length_take]
        omega
      have hall : ∀ b ∈ (st.out ++ [(st.buf ++ [xs.take (bs - st.bufSize)]).flatten]) ++
          (emitFull bs xs (xs.length + 1) (bs - st.bufSize)).1, b.length = bs := by
        intro b hb
        rcases List.mem_append.mp hb with hb | hb
        · rcases List.mem_append.mp hb with hb | hb
          · exact h4 b hb
          · simp only [List.mem_singleton] at hb; rw [hb]; exact hfirst
        · exact e2 b hb
      have hcat : (st.out ++ [(st.buf ++ [xs.take (bs - st.bufSize)]).flatten]).flatten ++
          ((emitFull bs xs (xs.length + 1) (bs - st.bufSize)).1.flatten ++
            xs.drop (emitFull bs xs (xs.length + 1) (bs - st.bufSize)).2) = c.flatten ++ xs := by
        rw [e1]
        simp only [List.flatten_append, List.flatten_cons, List.flatten_nil, List.append_nil,
          List.append_assoc, List.take_append_drop]
        rw [← h3, List.append_assoc]
      by_cases hlt : (emitFull bs xs (xs.length + 1) (bs - st.bufSize)).2 < xs.length
      · simp only [hlt, if_true]
        refine ⟨by simp, by simp only []; omega, ?_, hall, fun _ => Or.inr (by simp)⟩
        simp only [List.flatten_append (L₁ := _ ++ _), List.flatten_cons (l := List.drop _ _),
          List.flatten_nil, List.append_nil]
        rw [hc, List.append_assoc]
        exact hcat
      · simp only [hlt, if_false]
        have hd : xs.drop (emitFull bs xs (xs.length + 1) (bs - st.bufSize)).2 = [] :=
          List.drop_of_length_le (by omega)
        rw [hd, List.append_nil] at hcat
        refine ⟨rfl, Nat.zero_le _, ?_, hall, fun _ => Or.inl (by simp)⟩
        simp only [List.flatten_nil, List.append_nil]
        rw [hc, List.flatten_append]
        exact hcat

theorem MInv_fold {α} (bs : Nat) (hbs : 0 < bs) (dsets : List (List α)) :
    ∀ (st : MState α) (c : List (List α)), MInv bs st c →
      MInv bs (dsets.foldl (stepDataset bs) st) (c ++ dsets) := by
  induction dsets with
  | nil => intro st c h; simpa using h
  | cons xs rest ih =>
    intro st c h
    have := ih (stepDataset bs st xs) (c ++ [xs]) (MInv_step bs hbs st c xs h)
    simpa [List.append_assoc] using this

/-- normal form of the final padded batch: the buffered rows, then `z` rows up to the bucket size -/
def lastBatch {α} (bs B : Nat) (z : α) (rest : List α) : List α × List Bool :=
  (rest ++ List.replicate (pickFinal rest.length bs B - rest.length) z,
   List.replicate rest.length true ++ List.replicate (pickFinal rest.length bs B - rest.length) false)

def fullBatches {α} (bs : Nat) (out : List (List α)) : List (List α × List Bool) :=
  out.map fun b => (b, List.replicate bs true)

/-- a buffer of at most `bs` rows always fits the bucket size chosen for it -/
theorem fits_pickFinal (r bs B : Nat) (hbs : 0 < bs) (hB : 0 < B) (hr : r ≤ bs) :
    r ≤ pickFinal r bs B := by
  by_cases h : r = bs
  · subst h
    rw [C03_pickFinal_exact _ _ _ (Nat.mod_self _)]
    exact Nat.le_refl _
  · have := pickFinal_ge r bs B hbs hB
    rw [Nat.mod_eq_of_lt (by omega)] at this
    exact this

theorem finish_form {α} (bs B : Nat) (hbs : 0 < bs) (hB : 0 < B) (z : α) (st : MState α)
    (c : List (List α)) (h : MInv bs st c) :
    finish bs B z st = some (fullBatches bs st.out ++
      (if st.buf.isEmpty then [] else [lastBatch bs B z st.buf.flatten])) := by
  obtain ⟨h1, h2, _, _, _⟩ := h
  unfold finish
  by_cases he : st.buf.isEmpty
  · simp [he, fullBatches]
  · simp only [he, Bool.false_eq_true, if_false]
    have hfit := fits_pickFinal st.bufSize bs B hbs hB h2
    unfold padTo
    rw [← h1]
    have : ¬ st.bufSize > pickFinal st.bufSize bs B := by omega
    rw [if_neg this, mask_prefix _ _ hfit]
    simp only [Option.map_some, lastBatch, fullBatches, ← h1]

theorem unpad_full {α} (bs : Nat) (out : List (List α)) (h : ∀ b ∈ out, b.length = bs) :
    unpad (fullBatches bs out) = out.flatten := by
  induction out with
  | nil => rfl
  | cons b out ih =>
    have hb : b.length = bs := h b (List.mem_cons_self)
    have e : unpadBatch (b, List.replicate bs true) = b := by
      have := unpadBatch_prefix b [] [] (by intro x hx; cases hx)
      simpa [hb] using this
    simp only [fullBatches, unpad, List.map_cons, List.flatMap_cons, List.flatten_cons] at ih ⊢
    rw [e, ih (fun x hx => h x (List.mem_cons_of_mem _ hx))]

theorem unpad_last {α} (bs B : Nat) (z : α) (rest : List α) :
    unpadBatch (lastBatch bs B z rest) = rest :=
  unpadBatch_prefix _ _ _ (by intro b hb; exact (List.mem_replicate.mp hb).2)

/-- state after the whole `for` loop -/
def finalState {α} (bs : Nat) (dsets : List (List α)) : MState α :=
  dsets.foldl (stepDataset bs) MState.init

theorem MInv_final {α} (bs : Nat) (hbs : 0 < bs) (dsets : List (List α)) :
    MInv bs (finalState bs dsets) dsets := by
  have := MInv_fold bs hbs dsets MState.init [] (MInv_init bs)
  simpa [finalState] using this

/-! ### property theorems: padded batching over many clients -/

/-- The carry-over buffer never holds more than `bs` rows and `buf_size` is its row count — after
any number of clients of any sizes.  (The source comment claims `<`; `≤` is tight, see the
`example` at the end.) -/
theorem C15_buf_invariant {α} (bs : Nat) (hbs : 0 < bs) (dsets : List (List α)) :
    (finalState bs dsets).bufSize = (finalState bs dsets).buf.flatten.length ∧
    (finalState bs dsets).bufSize ≤ bs ∧
    (∀ b ∈ (finalState bs dsets).out, b.length = bs) :=
  let h := MInv_final bs hbs dsets
  ⟨h.1, h.2.1, h.2.2.2.1⟩

/-- **Main clause.** Removing the padded rows gives exactly the concatenation of the datasets in
client order and example order (nothing lost, nothing duplicated) — for every mix of sizes,
including empty clients; and `pad_examples` never raises. -/
theorem C15_multi_concat {α} (bs B : Nat) (hbs : 0 < bs) (hB : 0 < B) (z : α)
    (dsets : List (List α)) :
    ∃ v, multiBatch bs B z dsets = some v ∧ unpad v = dsets.flatten := by
  have h := MInv_final bs hbs dsets
  have hform : multiBatch bs B z dsets = _ := finish_form bs B hbs hB z (finalState bs dsets) dsets h
  refine ⟨_, hform, ?_⟩
  obtain ⟨_, _, h3, h4, _⟩ := h
  unfold unpad at *
  rw [List.flatMap_append]
  have hf := unpad_full bs _ h4
  unfold unpad at hf
  rw [hf, ← h3]
  congr 1
  by_cases he : (finalState bs dsets).buf.isEmpty
  · have : (finalState bs dsets).buf = [] := List.isEmpty_iff.mp he
    simp [this]
  · simp only [he, Bool.false_eq_true, if_false, List.flatMap_cons, List.flatMap_nil, List.append_nil]
    exact unpad_last bs B z _

/-- Client boundaries are invisible in the example stream: two cohorts whose datasets concatenate to the
same example sequence (clients split, merged, or empty clients inserted anywhere) give the same stream
after removing the padded rows. -/
theorem C15_multi_regroup {α} (bs B : Nat) (hbs : 0 < bs) (hB : 0 < B) (z : α)
    (dsets dsets' : List (List α)) (h : dsets.flatten = dsets'.flatten) :
    ∃ v v', multiBatch bs B z dsets = some v ∧ multiBatch bs B z dsets' = some v' ∧
      unpad v = unpad v' := by
  obtain ⟨v, hv, hu⟩ := C15_multi_concat bs B hbs hB z dsets
  obtain ⟨v', hv', hu'⟩ := C15_multi_concat bs B hbs hB z dsets'
  exact ⟨v, v', hv, hv', by rw [hu, hu', h]⟩

/-- Conservation of examples: the number of real (unpadded) rows in the stream is the sum of the client
sizes. -/
theorem C15_multi_count {α} (bs B : Nat) (hbs : 0 < bs) (hB : 0 < B) (z : α)
    (dsets : List (List α)) :
    ∃ v, multiBatch bs B z dsets = some v ∧ (unpad v).length = (dsets.map List.length).sum := by
  obtain ⟨v, hv, hu⟩ := C15_multi_concat bs B hbs hB z dsets
  exact ⟨v, hv, by rw [hu, List.length_flatten]⟩

/-- Shape of the stream: full batches of exactly `bs` real rows with the all-true mask, then at
most one final batch holding the `r ≤ bs` remaining rows, padded with `z` rows to the bucket size
`pickFinal r bs B ≥ r`, its mask a `true`-prefix of length `r`; and there is no batch at all iff
there is no client. -/
theorem C15_multi_full {α} (bs B : Nat) (hbs : 0 < bs) (hB : 0 < B) (z : α)
    (dsets : List (List α)) :
    ∃ (full : List (List α)) (rest : List α) (tail : List (List α × List Bool)),
      multiBatch bs B z dsets = some (fullBatches bs full ++ tail) ∧
      (∀ b ∈ full, b.length = bs) ∧
      ((tail = [] ∧ rest = []) ∨ tail = [lastBatch bs B z rest]) ∧
      rest.length ≤ bs ∧ rest.length ≤ pickFinal rest.length bs B ∧
      full.flatten ++ rest = dsets.flatten ∧
      (multiBatch bs B z dsets = some [] ↔ dsets = []) := by
  have h := MInv_final bs hbs dsets
  have hform : multiBatch bs B z dsets = _ := finish_form bs B hbs hB z (finalState bs dsets) dsets h
  obtain ⟨h1, h2, h3, h4, h5⟩ := h
  refine ⟨(finalState bs dsets).out, (finalState bs dsets).buf.flatten, _, hform, h4, ?_, by omega,
    fits_pickFinal _ bs B hbs hB (by omega), h3, ?_⟩
  · by_cases he : (finalState bs dsets).buf.isEmpty
    · have : (finalState bs dsets).buf = [] := List.isEmpty_iff.mp he
      left; simp [this]
    · right; simp [he]
  · constructor
    · intro hm
      have hm' : multiBatch bs B z dsets = some [] := hm
      rw [hform] at hm'
      have hnil := Option.some.inj hm'
      have hout : (finalState bs dsets).out = [] := by
        cases ho : (finalState bs dsets).out with
        | nil => rfl
        | cons a t => rw [ho] at hnil; simp [fullBatches] at hnil
      have hbuf : (finalState bs dsets).buf = [] := by
        by_cases he : (finalState bs dsets).buf.isEmpty
        · exact List.isEmpty_iff.mp he
        · simp [he] at hnil
      by_cases hd : dsets = []
      · exact hd
      · rcases h5 hd with h | h
        · exact absurd hout h
        · exact absurd hbuf h
    · intro hd
      subst hd
      simp [multiBatch, finish, MState.init]

/-! ### consistency checks -/

/-- does `d` carry the same preprocessor object and feature set as the first dataset? -/
def sameAs {α} (p f : Nat) (d : DS α) : Bool := d.pre == p && d.feats == f

theorem checkedLoop_spec {α} (bs : Nat) (p f : Nat) :
    ∀ (ds : List (DS α)) (c : CState α), c.pre = some p → c.feats = some f →
      checkedLoop bs c ds =
        (((ds.takeWhile (sameAs p f)).map DS.rows).foldl (stepDataset bs) c.st, !ds.all (sameAs p f)) := by
  intro ds
  induction ds with
  | nil => intro c _ _; simp [checkedLoop]
  | cons d ds ih =>
    intro c hp hf
    simp only [checkedLoop, hp, hf, mismatch]
    by_cases h1 : d.pre = p
    · by_cases h2 : d.feats = f
      · have hs : sameAs p f d = true := by simp [sameAs, h1, h2]
        simp only [h1, h2, bne_self_eq_false, Bool.false_eq_true, if_false, Option.getD_some]
        rw [ih _ rfl rfl]
        simp [hs]
      · have hs : sameAs p f d = false := by simp [sameAs, h2]
        have : (d.feats != f) = true := by simp [h2]
        simp [h1, this, hs]
    · have hs : sameAs p f d = false := by simp [sameAs, h1]
      have : (d.pre != p) = true := by simp [h1]
      simp [this, hs]

theorem takeWhile_of_all {α} (p : α → Bool) (l : List α) (h : l.all p = true) : l.takeWhile p = l := by
  induction l with
  | nil => rfl
  | cons a l ih =>
    simp only [List.all_cons, Bool.and_eq_true] at h
    rw [List.takeWhile_cons, if_pos h.1, ih h.2]

/-- Mismatching preprocessors or feature sets are rejected: the stream ends in `ValueError` iff
some dataset differs from the first one, exactly when the first such dataset is reached (the
batches completed by the datasets before it have been yielded, nothing else); with consistent
datasets the checks change nothing. -/
theorem C15_multi_reject {α} (bs B : Nat) (z : α) (d0 : DS α) (rest : List (DS α)) :
    multiBatchChecked bs B z ([] : List (DS α)) = some ([], false) ∧
    (rest.all (sameAs d0.pre d0.feats) = true →
      multiBatchChecked bs B z (d0 :: rest)
        = (multiBatch bs B z ((d0 :: rest).map DS.rows)).map fun v => (v, false)) ∧
    (rest.all (sameAs d0.pre d0.feats) = false →
      multiBatchChecked bs B z (d0 :: rest)
        = some (fullBatches bs
            (finalState bs ((d0 :: rest.takeWhile (sameAs d0.pre d0.feats)).map DS.rows)).out, true)) := by
  have key : checkedLoop bs { pre := none, feats := none, st := MState.init } (d0 :: rest) =
      (((rest.takeWhile (sameAs d0.pre d0.feats)).map DS.rows).foldl (stepDataset bs)
          (stepDataset bs MState.init d0.rows), !rest.all (sameAs d0.pre d0.feats)) := by
    simp only [checkedLoop, mismatch, Bool.false_eq_true, if_false, Option.getD_none]
    exact checkedLoop_spec bs d0.pre d0.feats rest _ rfl rfl
  refine ⟨by simp [multiBatchChecked, checkedLoop, finish, MState.init], ?_, ?_⟩
  · intro hall
    have htw : rest.takeWhile (sameAs d0.pre d0.feats) = rest := takeWhile_of_all _ _ hall
    simp only [multiBatchChecked, key, hall, htw, Bool.not_true, Bool.false_eq_true, if_false,
      multiBatch, List.map_cons, List.foldl_cons]
  · intro hall
    simp only [multiBatchChecked, key, hall, Bool.not_false, if_true, finalState, fullBatches,
      List.map_cons, List.foldl_cons]

/-! ## buffered_shuffle -/

theorem swap0_perm {α} (buf : List α) (s : Nat) : (swap0 buf s).Perm buf := by
  unfold swap0
  split
  · rename_i a tl s'
    split
    · rename_i x hx
      obtain ⟨hlt, hget⟩ := List.getElem?_eq_some_iff.mp hx
      rw [List.set_eq_take_append_cons_drop, if_pos hlt]
      have htl : tl = tl.take s' ++ x :: tl.drop (s' + 1) := by
        rw [← hget, ← List.drop_eq_getElem_cons hlt, List.take_append_drop]
      have p1 : (x :: (tl.take s' ++ a :: tl.drop (s' + 1))).Perm (x :: a :: (tl.take s' ++ tl.drop (s' + 1))) :=
        List.Perm.cons x List.perm_middle
      have p2 : (x :: a :: (tl.take s' ++ tl.drop (s' + 1))).Perm (a :: x :: (tl.take s' ++ tl.drop (s' + 1))) :=
        List.Perm.swap a x _
      have p3 : (a :: x :: (tl.take s' ++ tl.drop (s' + 1))).Perm (a :: (tl.take s' ++ x :: tl.drop (s' + 1))) :=
        List.Perm.cons a List.perm_middle.symm
      have := p1.trans (p2.trans p3)
      rw [← htl] at this
      exact this
    · exact List.Perm.refl _
  · exact List.Perm.refl _

theorem bshufLoop_perm {α} (B : Nat) :
    ∀ (rest buf : List α) (swaps : List Nat), (buf ≠ [] ∨ rest = []) →
      (bshufLoop B buf rest swaps).Perm (buf ++ rest) := by
  intro rest
  induction rest with
  | nil => intro buf swaps _; simp [bshufLoop]
  | cons i rest ih =>
    intro buf swaps h
    cases buf with
    | nil => rcases h with h | h <;> simp at h
    | cons r tl =>
      simp only [bshufLoop]
      have hb2 : (if swaps.headD 0 < B - 1 then swap0 (i :: tl) (swaps.headD 0) else i :: tl).Perm (i :: tl) := by
        split
        · exact swap0_perm _ _
        · exact List.Perm.refl _
      have hne : (if swaps.headD 0 < B - 1 then swap0 (i :: tl) (swaps.headD 0) else i :: tl) ≠ [] := by
        intro h0
        have := hb2.length_eq
        rw [h0] at this
        simp at this
      have p1 := ih _ swaps.tail (Or.inl hne)
      have p2 : ((if swaps.headD 0 < B - 1 then swap0 (i :: tl) (swaps.headD 0) else i :: tl) ++ rest).Perm
          ((i :: tl) ++ rest) := List.Perm.append_right rest hb2
      have p3 : ((i :: tl) ++ rest).Perm (tl ++ i :: rest) := by
        simpa using (List.perm_middle (a := i) (l₁ := tl) (l₂ := rest)).symm
      exact List.Perm.cons r (p1.trans (p2.trans p3))

/-- **Buffered shuffling emits every input item exactly once per pass**, for every buffer size
`B ≥ 1` (also `B` longer than the stream), every sequence of `randint` draws and every shuffle
of the initial buffer that is a permutation. -/
theorem C15_bshuffle_perm {α} (B : Nat) (hB : 0 < B) (shuf : List α → List α) (swaps : List Nat)
    (src : List α) (hshuf : (shuf (src.take B)).Perm (src.take B)) :
    (bufferedShuffle B shuf swaps src).Perm src := by
  unfold bufferedShuffle
  have hcond : shuf (src.take B) ≠ [] ∨ src.drop B = [] := by
    by_cases hl : src.length ≤ B
    · exact Or.inr (List.drop_of_length_le hl)
    · left
      intro h0
      have := hshuf.length_eq
      rw [h0, List.length_take] at this
      simp at this
      omega
  have p1 := bshufLoop_perm B (src.drop B) (shuf (src.take B)) swaps hcond
  have p2 : (shuf (src.take B) ++ src.drop B).Perm (src.take B ++ src.drop B) :=
    List.Perm.append_right _ hshuf
  rw [List.take_append_drop] at p2
  exact p1.trans p2

theorem bshufLoop_window {α} (B : Nat) :
    ∀ (rest buf : List α) (swaps : List Nat) (t : Nat) (x : α),
      (bshufLoop B buf rest swaps)[t]? = some x → x ∈ buf ++ rest.take t := by
  intro rest
  induction rest with
  | nil =>
    intro buf swaps t x h
    simp only [bshufLoop] at h
    simpa using List.mem_of_getElem? h
  | cons i rest ih =>
    intro buf swaps t x h
    cases buf with
    | nil => simp [bshufLoop] at h
    | cons r tl =>
      simp only [bshufLoop] at h
      cases t with
      | zero =>
        simp only [List.getElem?_cons_zero, Option.some.injEq] at h
        simp [h]
      | succ t =>
        rw [List.getElem?_cons_succ] at h
        have hm := ih _ _ t x h
        have hb2 : (if swaps.headD 0 < B - 1 then swap0 (i :: tl) (swaps.headD 0) else i :: tl).Perm (i :: tl) := by
          split
          · exact swap0_perm _ _
          · exact List.Perm.refl _
        rcases List.mem_append.mp hm with hm | hm
        · have := (hb2.mem_iff).mp hm
          simp only [List.mem_cons] at this
          rcases this with rfl | this
          · simp
          · simp [this]
        · simp [List.take_succ_cons, hm]

/-- The buffer size is respected: the `t`-th emitted item is one of the first `B + t` items of
the source (an item cannot leave before it was read, at most `B` items wait). -/
theorem C15_bshuffle_window {α} (B : Nat) (shuf : List α → List α) (swaps : List Nat)
    (src : List α) (hshuf : (shuf (src.take B)).Perm (src.take B)) (t : Nat) (x : α)
    (hx : (bufferedShuffle B shuf swaps src)[t]? = some x) : x ∈ src.take (B + t) := by
  unfold bufferedShuffle at hx
  have := bshufLoop_window B _ _ _ t x hx
  rw [List.take_add]
  rcases List.mem_append.mp this with h | h
  · exact List.mem_append_left _ ((hshuf.mem_iff).mp h)
  · exact List.mem_append_right _ h

/-- `shuffled_clients`: every pass over the clients is a permutation of the clients. -/
theorem C15_shuffled_clients {α} (B : Nat) (hB : 0 < B) (shuf : Nat → List α → List α)
    (swaps : Nat → List Nat) (clients : List α)
    (hshuf : ∀ p, (shuf p (clients.take B)).Perm (clients.take B)) (passes p : Nat) (hp : p < passes) :
    (((shuffledClients B shuf swaps clients passes).drop (p * clients.length)).take clients.length).Perm
      clients := by
  have hlen : ∀ q, (bufferedShuffle B (shuf q) (swaps q) clients).length = clients.length :=
    fun q => (C15_bshuffle_perm B hB (shuf q) (swaps q) clients (hshuf q)).length_eq
  have key : ∀ passes p, p < passes →
      ((shuffledClients B shuf swaps clients passes).drop (p * clients.length)).take clients.length
        = bufferedShuffle B (shuf p) (swaps p) clients := by
    intro passes
    induction passes with
    | zero => intro p hp; omega
    | succ n ih =>
      intro p hp
      have hlenN : (shuffledClients B shuf swaps clients n).length = n * clients.length := by
        clear ih hp
        induction n with
        | zero => simp [shuffledClients]
        | succ m ihm =>
          simp only [shuffledClients, List.range_succ, List.flatMap_append, List.flatMap_cons,
            List.flatMap_nil, List.append_nil, List.length_append, hlen] at ihm ⊢
          rw [ihm, Nat.succ_mul]
      have hsplit : shuffledClients B shuf swaps clients (n + 1) =
          shuffledClients B shuf swaps clients n ++ bufferedShuffle B (shuf n) (swaps n) clients := by
        simp [shuffledClients, List.range_succ, List.flatMap_append]
      rw [hsplit]
      by_cases hpn : p < n
      · have h1 : (p + 1) * clients.length ≤ n * clients.length := Nat.mul_le_mul_right _ hpn
        rw [Nat.succ_mul] at h1
        rw [List.drop_append_of_le_length (by rw [hlenN]; omega),
          List.take_append_of_le_length (by rw [List.length_drop, hlenN]; omega)]
        exact ih p hpn
      · have : p = n := by omega
        subst this
        rw [List.drop_append, List.drop_of_length_le (by rw [hlenN]; exact Nat.le_refl _), hlenN,
          Nat.sub_self, List.drop_zero, List.nil_append]
        exact List.take_of_length_le (by rw [hlen]; exact Nat.le_refl _)
  rw [key passes p hp]
  exact C15_bshuffle_perm B hB (shuf p) (swaps p) clients (hshuf p)

/-! ## buffered_shuffle_batch_client_datasets -/

theorem chunkLoop_spec {α} (bs : Nat) (hbs : 0 < bs) :
    ∀ (items buf : List α), buf.length < bs →
      ∃ (full last : List (List α)), chunkLoop bs buf items = full ++ last ∧
        (∀ b ∈ full, b.length = bs) ∧
        (last = [] ∨ ∃ b, last = [b] ∧ 1 ≤ b.length ∧ b.length ≤ bs) ∧
        (full ++ last).flatten = buf ++ items := by
  intro items
  induction items with
  | nil =>
    intro buf hb
    cases buf with
    | nil => exact ⟨[], [], by simp [chunkLoop], by simp, Or.inl rfl, by simp⟩
    | cons a t =>
      refine ⟨[], [a :: t], by simp [chunkLoop], by simp, Or.inr ⟨a :: t, rfl, by simp, by omega⟩, by simp⟩
  | cons x xs ih =>
    intro buf hb
    simp only [chunkLoop]
    by_cases hfull : (buf ++ [x]).length = bs
    · rw [if_pos hfull]
      obtain ⟨full, last, e, h1, h2, h3⟩ := ih [] hbs
      refine ⟨(buf ++ [x]) :: full, last, by rw [e]; rfl, ?_, h2, ?_⟩
      · intro b hb'
        rcases List.mem_cons.mp hb' with rfl | hb'
        · exact hfull
        · exact h1 b hb'
      · simp only [List.cons_append, List.flatten_cons, h3, List.nil_append, List.append_assoc]
    · rw [if_neg hfull]
      obtain ⟨full, last, e, h1, h2, h3⟩ := ih (buf ++ [x]) (by
        simp only [List.length_append, List.length_singleton] at hfull ⊢; omega)
      exact ⟨full, last, e, h1, h2, by rw [h3]; simp⟩

/-- One pass of `buffered_shuffle_batch_client_datasets`: the batches contain every example of every
client exactly once (a permutation of the concatenated datasets), every batch has `bs` rows except
possibly the last, which has between 1 and `bs`. -/
theorem C15_shuffle_batch {α} (bs B : Nat) (hbs : 0 < bs) (hB : 0 < B) (shuf : List α → List α)
    (swaps : List Nat) (dsets : List (List α))
    (hshuf : (shuf (dsets.flatten.take B)).Perm (dsets.flatten.take B)) :
    ∃ (full last : List (List α)), shuffleBatch bs B shuf swaps dsets = full ++ last ∧
      (∀ b ∈ full, b.length = bs) ∧
      (last = [] ∨ ∃ b, last = [b] ∧ 1 ≤ b.length ∧ b.length ≤ bs) ∧
      (shuffleBatch bs B shuf swaps dsets).flatten.Perm dsets.flatten := by
  obtain ⟨full, last, e, h1, h2, h3⟩ :=
    chunkLoop_spec bs hbs (bufferedShuffle B shuf swaps dsets.flatten) [] hbs
  refine ⟨full, last, e, h1, h2, ?_⟩
  unfold shuffleBatch
  rw [e, h3, List.nil_append]
  exact C15_bshuffle_perm B hB shuf swaps _ hshuf

/-! ## RepeatableIterator -/

/-- state after `k` calls of `next` -/
def RepIter.after {α} : Nat → RepIter α → RepIter α
  | 0, s => s
  | k+1, s => RepIter.after k s.next.2

theorem nexts_add {α} : ∀ (a b : Nat) (s : RepIter α),
    RepIter.nexts (a + b) s = RepIter.nexts a s ++ RepIter.nexts b (RepIter.after a s) := by
  intro a
  induction a with
  | zero => intro b s; simp [RepIter.nexts, RepIter.after]
  | succ a ih =>
    intro b s
    have : a + 1 + b = (a + b) + 1 := by omega
    rw [this]
    simp only [RepIter.nexts, RepIter.after, ih, List.cons_append]

theorem after_add {α} : ∀ (a b : Nat) (s : RepIter α),
    RepIter.after (a + b) s = RepIter.after b (RepIter.after a s) := by
  intro a
  induction a with
  | zero => intro b s; simp [RepIter.after]
  | succ a ih =>
    intro b s
    have : a + 1 + b = (a + b) + 1 := by omega
    rw [this]
    simp only [RepIter.after, ih]

/-- one pass from any state: the remaining items, then `StopIteration`; afterwards the iterator
stands at the start of the buffer -/
theorem pass_spec {α} : ∀ (it : List α) (fp : Bool) (buf : List α),
    RepIter.nexts (it.length + 1) { firstPass := fp, iter := it, buf := buf } = it.map some ++ [none] ∧
    RepIter.after (it.length + 1) { firstPass := fp, iter := it, buf := buf } =
      { firstPass := false, iter := if fp then buf ++ it else buf, buf := if fp then buf ++ it else buf } := by
  intro it
  induction it with
  | nil =>
    intro fp buf
    cases fp <;> simp [RepIter.nexts, RepIter.after, RepIter.next]
  | cons v rest ih =>
    intro fp buf
    have := ih fp (if fp then buf ++ [v] else buf)
    have hn : RepIter.next { firstPass := fp, iter := v :: rest, buf := buf } =
        (some v, { firstPass := fp, iter := rest, buf := if fp then buf ++ [v] else buf }) := rfl
    have e1 : RepIter.nexts ((v :: rest).length + 1) { firstPass := fp, iter := v :: rest, buf := buf } =
        some v :: RepIter.nexts (rest.length + 1)
          { firstPass := fp, iter := rest, buf := if fp then buf ++ [v] else buf } := by
      show RepIter.nexts ((rest.length + 1) + 1) _ = _
      rw [RepIter.nexts, hn]
    have e2 : RepIter.after ((v :: rest).length + 1) { firstPass := fp, iter := v :: rest, buf := buf } =
        RepIter.after (rest.length + 1)
          { firstPass := fp, iter := rest, buf := if fp then buf ++ [v] else buf } := by
      show RepIter.after ((rest.length + 1) + 1) _ = _
      rw [RepIter.after, hn]
    rw [e1, e2, this.1, this.2]
    refine ⟨by simp, ?_⟩
    cases fp <;> simp

/-- the sequence one pass produces -/
def passOf {α} (base : List α) : List (Option α) := base.map some ++ [none]

theorem container_passes {α} (base : List α) : ∀ p,
    RepIter.nexts (p * (base.length + 1)) (RepIter.ofContainer base)
      = (List.replicate p (passOf base)).flatten ∧
    RepIter.after (p * (base.length + 1)) (RepIter.ofContainer base) = RepIter.ofContainer base := by
  intro p
  induction p with
  | zero => simp [RepIter.nexts, RepIter.after]
  | succ p ih =>
    have hp := pass_spec base false base
    simp only [Bool.false_eq_true, if_false] at hp
    rw [Nat.succ_mul, nexts_add, after_add, ih.1, ih.2]
    refine ⟨?_, hp.2⟩
    unfold RepIter.ofContainer
    rw [hp.1, List.replicate_succ', List.flatten_append]
    simp [passOf]

/-- **A repeatable iterator replays exactly the items of its first pass on every later pass**:
`p` complete passes over a general iterable (copied during the first pass) yield `p` times
"the items of `base` in order, then StopIteration"; the same for builtin containers (never
copied: their buffer is the container itself and stays so). -/
theorem C15_repiter {α} (base : List α) (p : Nat) :
    RepIter.nexts (p * (base.length + 1)) (RepIter.ofIterable base)
      = (List.replicate p (passOf base)).flatten ∧
    RepIter.nexts (p * (base.length + 1)) (RepIter.ofContainer base)
      = (List.replicate p (passOf base)).flatten ∧
    (RepIter.after (p * (base.length + 1)) (RepIter.ofContainer base)).buf = base := by
  refine ⟨?_, (container_passes base p).1, by rw [(container_passes base p).2]; rfl⟩
  cases p with
  | zero => simp [RepIter.nexts]
  | succ p =>
    have hp := pass_spec base true []
    simp only [if_true, List.nil_append] at hp
    rw [Nat.succ_mul, Nat.add_comm, nexts_add]
    unfold RepIter.ofIterable
    rw [hp.1, hp.2]
    have := (container_passes base p).1
    unfold RepIter.ofContainer at this
    rw [this, List.replicate_succ, List.flatten_cons]
    rfl

/-- … and any number `k` of `next` calls (complete passes or not, on either kind of base) yields
the first `k` entries of that repetition. -/
theorem C15_repiter_prefix {α} (base : List α) (k : Nat) :
    RepIter.nexts k (RepIter.ofIterable base) = ((List.replicate k (passOf base)).flatten).take k ∧
    RepIter.nexts k (RepIter.ofContainer base) = ((List.replicate k (passOf base)).flatten).take k := by
  have hlen : ∀ (s : RepIter α) n, (RepIter.nexts n s).length = n := by
    intro s n
    induction n generalizing s with
    | zero => rfl
    | succ n ih => simp [RepIter.nexts, ih]
  have hk : k * (base.length + 1) = k + k * base.length := by rw [Nat.mul_succ]; omega
  constructor
  · rw [← (C15_repiter base k).1, hk, nexts_add, List.take_left' (hlen _ _)]
  · rw [← (C15_repiter base k).2.1, hk, nexts_add, List.take_left' (hlen _ _)]

/-! ## non-vacuity: the hypotheses are met by concrete non-trivial instances -/

-- fits / completes a batch / spans several batches / leaves an exact batch at the end
example : multiBatch 3 2 0 [[1, 2], [], [3, 4, 5, 6, 7], [8, 9]] =
    some [([1, 2, 3], [true, true, true]), ([4, 5, 6], [true, true, true]),
          ([7, 8, 9], [true, true, true])] := by decide
example : multiBatch 4 3 0 [[1], [2, 3, 4, 5, 6, 7]] =
    some [([1, 2, 3, 4], [true, true, true, true]), ([5, 6, 7, 0], [true, true, true, false])] := by decide
example : multiBatch 4 3 0 [[1, 2, 3, 4, 5]] =
    some [([1, 2, 3, 4], [true, true, true, true]), ([5], [true])] := by decide
example : multiBatch 3 1 (0 : Nat) [[], []] = some [([0, 0, 0], [false, false, false])] := by decide
example : multiBatch 3 1 (0 : Nat) [] = some [] := by decide
/-- the source comment's invariant `buf_size < batch_size` is false: `≤` is tight -/
example : (finalState 3 [[1, 2, 3]]).bufSize = 3 ∧ (finalState 3 [[1, 2, 3]]).out = [] := by decide
example : multiBatchChecked 2 1 0 [⟨7, 1, [1, 2, 3]⟩, ⟨7, 1, [4]⟩, ⟨8, 1, [5]⟩, ⟨7, 1, [6]⟩] =
    some ([([1, 2], [true, true]), ([3, 4], [true, true])], true) := by decide
example : multiBatchChecked 2 1 0 [⟨7, 1, [1, 2, 3]⟩, ⟨7, 1, [4]⟩, ⟨7, 1, [5]⟩] =
    some ([([1, 2], [true, true]), ([3, 4], [true, true]), ([5, 0], [true, false])], false) := by decide
example : bufferedShuffle 3 (fun l => l.reverse) [1, 0, 2, 1] [0, 1, 2, 3, 4, 5, 6] = [2, 1, 4, 5, 3, 6, 0] := by
  decide
example : (bufferedShuffle 3 (fun l => l.reverse) [1, 0, 2, 1] [0, 1, 2, 3, 4, 5, 6]).Perm [0, 1, 2, 3, 4, 5, 6] :=
  C15_bshuffle_perm 3 (by decide) _ _ _ (List.reverse_perm _)
example : bufferedShuffle 10 (fun l => l.reverse) [] [0, 1, 2] = [2, 1, 0] := by decide
example : shuffleBatch 2 3 (fun l => l.reverse) [1, 0, 2, 1] [[1, 2], [], [3, 4, 5, 6, 7]] =
    [[3, 2], [5, 6], [4, 7], [1]] := by decide
example : RepIter.nexts 9 (RepIter.ofIterable [5, 6, 7]) =
    [some 5, some 6, some 7, none, some 5, some 6, some 7, none, some 5] := by decide
example : RepIter.nexts 3 (RepIter.ofIterable ([] : List Nat)) = [none, none, none] := by decide

end FedjaxVerif.Centralised
