import FedjaxVerif.Model.Quantize
import Mathlib.Algebra.Order.Field.Rat
import Mathlib.Tactic.Ring
import Mathlib.Tactic.Linarith
import Mathlib.Tactic.FieldSimp
import Mathlib.Tactic.Positivity
import Mathlib.MeasureTheory.Integral.IntervalIntegral.Basic

/-!
# C11 — stochastic quantizers are unbiased, bounded, finite and accounted

Property theorems about `Model/Quantize.lean`.  All statements quantify over every rational vector
(every finite float is a rational), every level count `L ≥ 2` and every draw.

Core:    `C11_guard_only_zero_over_zero`, `C11_neighbours`, `C11_threshold`, `C11_fixed_points`
         (`_const`, `_binary`), `C11_binary`, `C11_terngrad`, `C11_drive_finite`, `C11_aggregate`,
         `C11_bits`, `C11_keys_fresh` (`_rotated`), `C11_state_rng`.
Stretch: `C11_unbiased`, `C11_unbiased_binary_terngrad` (interval integrals over the uniform draw).
Extra:   `C11_scale` (positive homogeneity: why the rotation's `1/√d` can be applied as `1/d`).
Defects: the model is the *repaired* behaviour in two places; `C11_counterexample_binary_strict` and
         `C11_counterexample_drive_zero_leaf` state what the unrepaired source does on the witnesses
         the harness replays on the real code, and (`C11_repair_binary_conservative`, second half of
         the DRIVE theorem) that the repairs change nothing else.
Float-only behaviour (overflow of `max - min` or of `Σx²` in float32) is outside these theorems and
is probed on the real code by the harness (known findings).
-/

namespace FedjaxVerif.Quantize

/-! ## scalar helpers -/

theorem rmin_le_left (a b : Rat) : rmin a b ≤ a := by unfold rmin; split_ifs <;> linarith
theorem rmin_le_right (a b : Rat) : rmin a b ≤ b := by unfold rmin; split_ifs <;> linarith
theorem le_rmax_left (a b : Rat) : a ≤ rmax a b := by unfold rmax; split_ifs <;> linarith
theorem le_rmax_right (a b : Rat) : b ≤ rmax a b := by unfold rmax; split_ifs <;> linarith
theorem rmin_cases (a b : Rat) : rmin a b = a ∨ rmin a b = b := by unfold rmin; split_ifs <;> simp
theorem rmax_cases (a b : Rat) : rmax a b = a ∨ rmax a b = b := by unfold rmax; split_ifs <;> simp

theorem clamp01_of_mem {x : Rat} (h0 : 0 ≤ x) (h1 : x ≤ 1) : clamp01 x = x := by
  unfold clamp01 rmax rmin; split_ifs; linarith

theorem rabs_nonneg (x : Rat) : 0 ≤ rabs x := by unfold rabs; split_ifs <;> linarith
theorem rabs_eq_zero {x : Rat} (h : rabs x = 0) : x = 0 := by
  unfold rabs at h; split_ifs at h <;> linarith
theorem rabs_mul_sgn (x : Rat) : rabs x * sgn x = x := by
  unfold rabs sgn; split_ifs <;> linarith
theorem sgn_zero : sgn 0 = 0 := by unfold sgn; simp
theorem sgn_cases (x : Rat) : sgn x = 1 ∨ sgn x = -1 ∨ sgn x = 0 := by
  unfold sgn; split_ifs <;> simp

theorem guardDiv_zero_right (a : Rat) : guardDiv a 0 = 0 := by simp [guardDiv]
theorem guardDiv_of_ne {a b : Rat} (h : b ≠ 0) : guardDiv a b = a / b := by simp [guardDiv, h]

/-! ## `amin` / `amax` -/

theorem minL_le : ∀ {v : List Rat} {x : Rat}, x ∈ v → minL v ≤ x
  | [_], x, h => by simp at h; simp [minL, h]
  | a :: b :: r, x, h => by
    rcases List.mem_cons.mp h with rfl | h'
    · exact rmin_le_left _ _
    · exact le_trans (rmin_le_right _ _) (minL_le h')

theorem le_maxL : ∀ {v : List Rat} {x : Rat}, x ∈ v → x ≤ maxL v
  | [_], x, h => by simp at h; simp [maxL, h]
  | a :: b :: r, x, h => by
    rcases List.mem_cons.mp h with rfl | h'
    · exact le_rmax_left _ _
    · exact le_trans (le_maxL h') (le_rmax_right _ _)

theorem minL_mem : ∀ {v : List Rat}, v ≠ [] → minL v ∈ v
  | [a], _ => by simp [minL]
  | a :: b :: r, _ => by
    have ih : minL (b :: r) ∈ b :: r := minL_mem (by simp)
    rcases rmin_cases a (minL (b :: r)) with h | h
    · simp only [minL, h]; exact List.mem_cons_self
    · simp only [minL, h]; exact List.mem_cons_of_mem _ ih

theorem maxL_mem : ∀ {v : List Rat}, v ≠ [] → maxL v ∈ v
  | [a], _ => by simp [maxL]
  | a :: b :: r, _ => by
    have ih : maxL (b :: r) ∈ b :: r := maxL_mem (by simp)
    rcases rmax_cases a (maxL (b :: r)) with h | h
    · simp only [maxL, h]; exact List.mem_cons_self
    · simp only [maxL, h]; exact List.mem_cons_of_mem _ ih

theorem minL_le_maxL {v : List Rat} (h : v ≠ []) : minL v ≤ maxL v :=
  le_maxL (minL_mem h)

/-! ## floor / ceil on the grid -/

theorem ceil_eq_floor_or (t : Rat) : t.ceil = t.floor ∨ t.ceil = t.floor + 1 := by
  unfold Rat.ceil Rat.floor; split_ifs <;> simp

theorem ceil_eq_floor_iff (t : Rat) : t.ceil = t.floor ↔ ((t.floor : Int) : Rat) = t := by
  constructor
  · intro h
    have h1 : t ≤ ((t.ceil : Int) : Rat) := Rat.le_ceil
    have h2 := Rat.floor_le t
    rw [h] at h1
    linarith
  · intro h
    rcases ceil_eq_floor_or t with h' | h'
    · exact h'
    · have h1 : ((t.ceil : Int) : Rat) < t + 1 := Rat.ceil_lt
      rw [h'] at h1
      push_cast at h1
      linarith

/-- position of `x` on the `(L-1)`-grid between `mn` and `mx` -/
def tOf (L : Nat) (mn mx x : Rat) : Rat := (x - mn) * ((L : Rat) - 1) / (mx - mn)

/-- the `j`-th grid level `mn + (mx - mn)·j/(L-1)` -/
def levelVal (L : Nat) (mn mx : Rat) (j : Int) : Rat := mn + (mx - mn) * (j : Rat) / ((L : Rat) - 1)

theorem k_pos {L : Nat} (hL : 2 ≤ L) : (0 : Rat) < (L : Rat) - 1 := by
  have : (2 : Rat) ≤ (L : Rat) := by exact_mod_cast hL
  linarith

/-- the rescaled coordinate of the source (`v` after lines 91–92) -/
def sOf (mn mx x : Rat) : Rat := clamp01 (guardDiv (x - mn) (mx - mn))

theorem sOf_eq {mn mx x : Rat} (hlt : mn < mx) (h0 : mn ≤ x) (h1 : x ≤ mx) :
    sOf mn mx x = (x - mn) / (mx - mn) := by
  have hd : mx - mn ≠ 0 := by intro h; linarith
  have hpos : 0 < mx - mn := by linarith
  unfold sOf
  rw [guardDiv_of_ne hd]
  apply clamp01_of_mem
  · apply div_nonneg <;> linarith
  · rw [div_le_one hpos]; linarith

theorem sOf_const (mn x : Rat) : sOf mn mn x = 0 := by
  unfold sOf; simp [guardDiv, clamp01, rmax, rmin]

theorem uniformCoord_unfold (L : Nat) (mn mx u x : Rat) :
    uniformCoord L mn mx u x =
      mn + (if u > guardDiv (sOf mn mx x - ((sOf mn mx x * ((L : Rat) - 1)).floor : Int) / ((L : Rat) - 1))
                      (((sOf mn mx x * ((L : Rat) - 1)).ceil : Int) / ((L : Rat) - 1) -
                        ((sOf mn mx x * ((L : Rat) - 1)).floor : Int) / ((L : Rat) - 1))
            then (((sOf mn mx x * ((L : Rat) - 1)).floor : Int) : Rat) / ((L : Rat) - 1)
            else (((sOf mn mx x * ((L : Rat) - 1)).ceil : Int) : Rat) / ((L : Rat) - 1)) * (mx - mn) := rfl

/-- Closed form of one quantised coordinate: the lower level if `u` exceeds the fractional part of
the grid position, the upper level otherwise. -/
theorem uniformCoord_spec {L : Nat} (hL : 2 ≤ L) {mn mx x : Rat} (u : Rat)
    (hlt : mn < mx) (h0 : mn ≤ x) (h1 : x ≤ mx) :
    uniformCoord L mn mx u x =
      if u > tOf L mn mx x - ((tOf L mn mx x).floor : Int) then levelVal L mn mx (tOf L mn mx x).floor
      else levelVal L mn mx (tOf L mn mx x).ceil := by
  have hk := k_pos hL
  have hk0 : ((L : Rat) - 1) ≠ 0 := ne_of_gt hk
  have hd : mx - mn ≠ 0 := by intro h; linarith
  have hs : sOf mn mx x * ((L : Rat) - 1) = tOf L mn mx x := by
    rw [sOf_eq hlt h0 h1]; unfold tOf; field_simp
  have hs' : sOf mn mx x = tOf L mn mx x / ((L : Rat) - 1) := by
    rw [← hs]; field_simp
  rw [uniformCoord_unfold, hs]
  set t := tOf L mn mx x with ht
  rcases ceil_eq_floor_or t with hc | hc
  · -- on the grid: both levels coincide, the guard yields threshold 0
    rw [hc]
    simp only [sub_self, guardDiv_zero_right, ite_self]
    unfold levelVal
    field_simp
  · have hthr : guardDiv (sOf mn mx x - ((t.floor : Int) : Rat) / ((L : Rat) - 1))
        (((t.ceil : Int) : Rat) / ((L : Rat) - 1) - ((t.floor : Int) : Rat) / ((L : Rat) - 1))
        = t - ((t.floor : Int) : Rat) := by
      rw [hc, hs']
      have : ((((t.floor + 1 : Int)) : Rat) / ((L : Rat) - 1) - ((t.floor : Int) : Rat) / ((L : Rat) - 1)) ≠ 0 := by
        have : ((((t.floor + 1 : Int)) : Rat) / ((L : Rat) - 1) - ((t.floor : Int) : Rat) / ((L : Rat) - 1))
            = 1 / ((L : Rat) - 1) := by push_cast; field_simp; ring
        rw [this]; exact one_div_ne_zero hk0
      rw [guardDiv_of_ne this]
      push_cast; field_simp; ring
    rw [hthr]
    unfold levelVal
    split_ifs <;> field_simp

theorem uniformCoord_const (L : Nat) (mn u x : Rat) : uniformCoord L mn mn u x = mn := by
  rw [uniformCoord_unfold]; simp

/-! ## grid levels as a monotone affine map -/

/-- `mn + (mx - mn)·r/(L-1)` for a rational position `r`. -/
def lvR (L : Nat) (mn mx r : Rat) : Rat := mn + (mx - mn) * r / ((L : Rat) - 1)

theorem levelVal_eq_lvR (L : Nat) (mn mx : Rat) (j : Int) : levelVal L mn mx j = lvR L mn mx (j : Rat) := rfl

theorem lvR_mono {L : Nat} (hL : 2 ≤ L) {mn mx a b : Rat} (hle : mn ≤ mx) (hab : a ≤ b) :
    lvR L mn mx a ≤ lvR L mn mx b := by
  have hk := k_pos hL
  have h1 : (mx - mn) * a ≤ (mx - mn) * b := mul_le_mul_of_nonneg_left hab (by linarith)
  have h2 := div_le_div_of_nonneg_right h1 hk.le
  unfold lvR; linarith

theorem lvR_tOf {L : Nat} (hL : 2 ≤ L) {mn mx : Rat} (x : Rat) (hlt : mn < mx) :
    lvR L mn mx (tOf L mn mx x) = x := by
  have hk0 : ((L : Rat) - 1) ≠ 0 := ne_of_gt (k_pos hL)
  have hd : mx - mn ≠ 0 := by intro h; linarith
  unfold lvR tOf; field_simp; ring

theorem lvR_add_one {L : Nat} (hL : 2 ≤ L) (mn mx r : Rat) :
    lvR L mn mx (r + 1) = lvR L mn mx r + (mx - mn) / ((L : Rat) - 1) := by
  have hk0 : ((L : Rat) - 1) ≠ 0 := ne_of_gt (k_pos hL)
  unfold lvR; field_simp; ring

theorem lvR_zero (L : Nat) (mn mx : Rat) : lvR L mn mx 0 = mn := by simp [lvR]

theorem lvR_top {L : Nat} (hL : 2 ≤ L) (mn mx : Rat) : lvR L mn mx ((L : Rat) - 1) = mx := by
  have hk0 : ((L : Rat) - 1) ≠ 0 := ne_of_gt (k_pos hL)
  unfold lvR; field_simp; ring

theorem tOf_nonneg {L : Nat} (hL : 2 ≤ L) {mn mx x : Rat} (hlt : mn < mx) (h0 : mn ≤ x) :
    0 ≤ tOf L mn mx x := by
  have hk := k_pos hL
  unfold tOf
  apply div_nonneg
  · apply mul_nonneg <;> linarith
  · linarith

theorem tOf_le {L : Nat} (hL : 2 ≤ L) {mn mx x : Rat} (hlt : mn < mx) (h1 : x ≤ mx) :
    tOf L mn mx x ≤ (L : Rat) - 1 := by
  have hk := k_pos hL
  have hpos : 0 < mx - mn := by linarith
  unfold tOf
  rw [div_le_iff₀ hpos]
  have : (x - mn) * ((L : Rat) - 1) ≤ (mx - mn) * ((L : Rat) - 1) :=
    mul_le_mul_of_nonneg_right (by linarith) hk.le
  linarith

theorem rabs_le {a b : Rat} (h1 : -b ≤ a) (h2 : a ≤ b) : rabs a ≤ b := by
  unfold rabs; split_ifs <;> linarith

/-! ## C11: the uniform quantizer -/

/-- **Neighbouring levels, one-step error, range.**  For every vector `v`, every coordinate `x` of it,
every `L ≥ 2` and every draw `u` (no hypothesis on `u`), the quantised coordinate is the grid level
just below or just above `x` on the `(L-1)`-grid between `min v` and `max v`; these two levels
bracket `x` and are at most one grid step apart; hence the error is at most one grid step and the
value stays in `[min v, max v]`.  (For a constant vector `t = 0` and both levels are `min v`.) -/
theorem C11_neighbours {L : Nat} (hL : 2 ≤ L) {v : List Rat} {x : Rat} (hx : x ∈ v) (u : Rat) :
    let mn := minL v
    let mx := maxL v
    let t := tOf L mn mx x
    let out := uniformCoord L mn mx u x
    (out = levelVal L mn mx t.floor ∨ out = levelVal L mn mx t.ceil) ∧
    levelVal L mn mx t.floor ≤ x ∧ x ≤ levelVal L mn mx t.ceil ∧
    levelVal L mn mx t.ceil - levelVal L mn mx t.floor ≤ (mx - mn) / ((L : Rat) - 1) ∧
    rabs (out - x) ≤ (mx - mn) / ((L : Rat) - 1) ∧ mn ≤ out ∧ out ≤ mx := by
  intro mn mx t out
  have hk := k_pos hL
  have h0 : mn ≤ x := minL_le hx
  have h1 : x ≤ mx := le_maxL hx
  rcases lt_or_eq_of_le (le_trans h0 h1) with hlt | heq
  · -- genuine range
    have hle : mn ≤ mx := le_of_lt hlt
    have hspec := uniformCoord_spec hL u hlt h0 h1
    have hxt : lvR L mn mx t = x := lvR_tOf hL x hlt
    have hfl : ((t.floor : Int) : Rat) ≤ t := Rat.floor_le t
    have hfl' : t < ((t.floor : Int) : Rat) + 1 := by
      have := Rat.lt_floor_add_one t; push_cast at this; exact this
    have hce : t ≤ ((t.ceil : Int) : Rat) := Rat.le_ceil
    have hce' : ((t.ceil : Int) : Rat) < t + 1 := Rat.ceil_lt
    have hlo : levelVal L mn mx t.floor ≤ x := by
      rw [levelVal_eq_lvR, ← hxt]; exact lvR_mono hL hle hfl
    have hhi : x ≤ levelVal L mn mx t.ceil := by
      rw [levelVal_eq_lvR, ← hxt]; exact lvR_mono hL hle hce
    have hlo' : x - (mx - mn) / ((L : Rat) - 1) ≤ levelVal L mn mx t.floor := by
      have := lvR_mono hL hle (le_of_lt hfl')
      rw [lvR_add_one hL, hxt] at this
      rw [levelVal_eq_lvR]; linarith
    have hhi' : levelVal L mn mx t.ceil ≤ x + (mx - mn) / ((L : Rat) - 1) := by
      have := lvR_mono hL hle (le_of_lt hce')
      rw [lvR_add_one hL, hxt] at this
      rw [levelVal_eq_lvR]; linarith
    have hgap : levelVal L mn mx t.ceil - levelVal L mn mx t.floor ≤ (mx - mn) / ((L : Rat) - 1) := by
      rcases ceil_eq_floor_or t with hc | hc
      · rw [hc]; simp only [sub_self]
        apply div_nonneg <;> linarith
      · rw [hc, levelVal_eq_lvR, levelVal_eq_lvR]; push_cast
        rw [lvR_add_one hL]; linarith
    have hmn : mn ≤ levelVal L mn mx t.floor := by
      have h0t : (0 : Rat) ≤ ((t.floor : Int) : Rat) := by
        have : (0 : Int) ≤ t.floor := Rat.le_floor_iff.mpr (by simpa using tOf_nonneg hL hlt h0)
        exact_mod_cast this
      have := lvR_mono hL hle h0t
      rw [lvR_zero] at this
      rw [levelVal_eq_lvR]; exact this
    have hmx : levelVal L mn mx t.ceil ≤ mx := by
      have hct : ((t.ceil : Int) : Rat) ≤ (L : Rat) - 1 := by
        have : t.ceil ≤ ((L : Int) - 1) := Rat.ceil_le_iff.mpr (by push_cast; exact tOf_le hL hlt h1)
        have h2 : ((t.ceil : Int) : Rat) ≤ (((L : Int) - 1 : Int) : Rat) := by exact_mod_cast this
        push_cast at h2; exact h2
      have := lvR_mono hL hle hct
      rw [lvR_top hL] at this
      rw [levelVal_eq_lvR]; exact this
    have hout : out = levelVal L mn mx t.floor ∨ out = levelVal L mn mx t.ceil := by
      show uniformCoord L mn mx u x = _ ∨ uniformCoord L mn mx u x = _
      rw [hspec]; split_ifs
      · left; rfl
      · right; rfl
    refine ⟨hout, hlo, hhi, hgap, ?_, ?_, ?_⟩
    · rcases hout with h | h <;> rw [h] <;> apply rabs_le <;> linarith
    · rcases hout with h | h <;> rw [h] <;> linarith
    · rcases hout with h | h <;> rw [h] <;> linarith
  · -- constant vector
    have hxm : x = mn := by linarith
    have hout : out = mn := by
      show uniformCoord L mn mx u x = mn
      rw [← heq]; exact uniformCoord_const L mn u x
    have hlv : ∀ j : Int, levelVal L mn mx j = mn := by
      intro j; rw [← heq]; simp [levelVal]
    have hstep : (mx - mn) / ((L : Rat) - 1) = 0 := by rw [← heq]; simp
    refine ⟨Or.inl (by rw [hout, hlv]), by rw [hlv, hxm], by rw [hlv, hxm], by rw [hlv, hlv, hstep]; simp,
      ?_, by rw [hout], by rw [hout, ← heq]⟩
    rw [hout, hxm, hstep]; simp [rabs]

/-- **Threshold characterisation and the expectation identity.**  With `frac = t - ⌊t⌋ ∈ [0,1)` the
fractional grid position of `x`: the output is the upper level exactly when `u ≤ frac` and the lower
level exactly when `u > frac`; and `upper·frac + lower·(1 - frac) = x`.  For a draw `u` uniform on
`[0,1)` the upper level therefore has probability `frac`, so the expectation is `x`
(`C11_unbiased` states this as an integral). -/
theorem C11_threshold {L : Nat} (hL : 2 ≤ L) {v : List Rat} {x : Rat} (hx : x ∈ v)
    (hrange : minL v < maxL v) (u : Rat) :
    let mn := minL v
    let mx := maxL v
    let t := tOf L mn mx x
    let lower := levelVal L mn mx t.floor
    let upper := levelVal L mn mx t.ceil
    let frac := t - ((t.floor : Int) : Rat)
    let out := uniformCoord L mn mx u x
    0 ≤ frac ∧ frac < 1 ∧
    (u ≤ frac → out = upper) ∧ (frac < u → out = lower) ∧
    (lower ≠ upper → (out = upper ↔ u ≤ frac)) ∧ (lower ≠ upper → (out = lower ↔ frac < u)) ∧
    upper * frac + lower * (1 - frac) = x := by
  intro mn mx t lower upper frac out
  have hk := k_pos hL
  have hk0 : ((L : Rat) - 1) ≠ 0 := ne_of_gt hk
  have h0 : mn ≤ x := minL_le hx
  have h1 : x ≤ mx := le_maxL hx
  have hspec : out = if u > frac then lower else upper := uniformCoord_spec hL u hrange h0 h1
  have hfl : ((t.floor : Int) : Rat) ≤ t := Rat.floor_le t
  have hfl' : t < ((t.floor : Int) : Rat) + 1 := by
    have := Rat.lt_floor_add_one t; push_cast at this; exact this
  have hup : u ≤ frac → out = upper := by
    intro h; rw [hspec, if_neg (not_lt.mpr h)]
  have hdn : frac < u → out = lower := by
    intro h; rw [hspec, if_pos h]
  refine ⟨by show 0 ≤ t - _; linarith, by show t - _ < 1; linarith, hup, hdn, ?_, ?_, ?_⟩
  · intro hne
    refine ⟨fun h => ?_, hup⟩
    by_contra hcon
    exact hne ((hdn (not_le.mp hcon)).symm.trans h)
  · intro hne
    refine ⟨fun h => ?_, hdn⟩
    by_contra hcon
    exact hne (h.symm.trans (hup (not_lt.mp hcon)))
  · have hxt : lvR L mn mx t = x := lvR_tOf hL x hrange
    rcases ceil_eq_floor_or t with hc | hc
    · have ht : ((t.floor : Int) : Rat) = t := (ceil_eq_floor_iff t).mp hc
      show levelVal L mn mx t.ceil * (t - _) + levelVal L mn mx t.floor * (1 - (t - _)) = x
      rw [hc, ht, levelVal_eq_lvR, ht, hxt]; ring
    · show levelVal L mn mx t.ceil * (t - _) + levelVal L mn mx t.floor * (1 - (t - _)) = x
      rw [hc, ← hxt]; unfold levelVal lvR; push_cast; field_simp; ring

theorem zipWith_eq_right {f : Rat → Rat → Rat} :
    ∀ {us v : List Rat}, us.length = v.length → (∀ x ∈ v, ∀ u ∈ us, f u x = x) → List.zipWith f us v = v
  | [], [], _, _ => rfl
  | [], _ :: _, h, _ => by simp at h
  | _ :: _, [], h, _ => by simp at h
  | u :: us, x :: v, h, hf => by
    rw [List.zipWith_cons_cons, hf x List.mem_cons_self u List.mem_cons_self,
      zipWith_eq_right (by simpa using h)
        (fun y hy w hw => hf y (List.mem_cons_of_mem _ hy) w (List.mem_cons_of_mem _ hw))]

theorem tOf_levelVal {L : Nat} (hL : 2 ≤ L) {mn mx : Rat} (hlt : mn < mx) (j : Int) :
    tOf L mn mx (levelVal L mn mx j) = (j : Rat) := by
  have hk0 : ((L : Rat) - 1) ≠ 0 := ne_of_gt (k_pos hL)
  have hd : mx - mn ≠ 0 := by intro h; linarith
  unfold tOf levelVal; field_simp; ring

theorem uniformCoord_on_grid {L : Nat} (hL : 2 ≤ L) {mn mx x : Rat} (u : Rat) (hle : mn ≤ mx)
    (h0 : mn ≤ x) (h1 : x ≤ mx) (hg : ∃ j : Int, x = levelVal L mn mx j) :
    uniformCoord L mn mx u x = x := by
  rcases lt_or_eq_of_le hle with hlt | heq
  · obtain ⟨j, rfl⟩ := hg
    rw [uniformCoord_spec hL u hlt h0 h1, tOf_levelVal hL hlt j, Rat.floor_intCast, Rat.ceil_intCast]
    simp
  · rw [← heq] at h1 ⊢
    rw [uniformCoord_const]; linarith

/-- **Fixed points of the uniform quantizer.**  A vector all of whose coordinates lie on the
`L`-level grid between its own minimum and maximum is returned unchanged, for every draw vector.
Constant vectors (in particular all-zero vectors) are the special case `min = max`. -/
theorem C11_fixed_points {L : Nat} (hL : 2 ≤ L) {v us : List Rat} (hlen : us.length = v.length)
    (hgrid : ∀ x ∈ v, ∃ j : Int, x = levelVal L (minL v) (maxL v) j) :
    uniformQ L us v = v := by
  unfold uniformQ
  apply zipWith_eq_right hlen
  intro x hx u _
  have hne : v ≠ [] := List.ne_nil_of_mem hx
  exact uniformCoord_on_grid hL u (minL_le_maxL hne) (minL_le hx) (le_maxL hx) (hgrid x hx)

theorem minL_replicate : ∀ (n : Nat) (c : Rat), minL (List.replicate (n + 1) c) = c
  | 0, c => rfl
  | n + 1, c => by
    rw [List.replicate_succ, List.replicate_succ, minL, ← List.replicate_succ, minL_replicate n c]
    simp [rmin]

theorem maxL_replicate : ∀ (n : Nat) (c : Rat), maxL (List.replicate (n + 1) c) = c
  | 0, c => rfl
  | n + 1, c => by
    rw [List.replicate_succ, List.replicate_succ, maxL, ← List.replicate_succ, maxL_replicate n c]
    simp [rmax]

/-- constant vectors (any constant, any size, incl. all-zero) pass through the uniform quantizer -/
theorem C11_fixed_points_const {L : Nat} (hL : 2 ≤ L) (n : Nat) (c : Rat) {us : List Rat}
    (hlen : us.length = n) : uniformQ L us (List.replicate n c) = List.replicate n c := by
  cases n with
  | zero => simp [uniformQ]
  | succ n =>
    apply C11_fixed_points hL (by simpa using hlen)
    intro x hx
    refine ⟨0, ?_⟩
    rw [minL_replicate, maxL_replicate, List.eq_of_mem_replicate hx]
    simp [levelVal]

/-! ## C11: the binary quantizer (repaired comparison `rand >= v`) -/

theorem sOf_min (mn mx : Rat) : sOf mn mx mn = 0 := by
  unfold sOf guardDiv; split_ifs <;> simp [clamp01, rmax, rmin]

theorem sOf_max {mn mx : Rat} (hlt : mn < mx) : sOf mn mx mx = 1 := by
  rw [sOf_eq hlt (le_of_lt hlt) le_rfl]
  have hd : mx - mn ≠ 0 := by intro h; linarith
  field_simp

theorem sOf_mem (mn mx x : Rat) : 0 ≤ sOf mn mx x ∧ sOf mn mx x ≤ 1 := by
  unfold sOf clamp01 rmax rmin; split_ifs <;> constructor <;> linarith

theorem binaryCoord_unfold (mn mx u x : Rat) :
    binaryCoord mn mx u x = if u ≥ sOf mn mx x then mn else mx := rfl

/-- **Fixed points of the binary quantizer.**  A vector with at most two distinct values (each
coordinate is the minimum or the maximum; constants and zeros included) is returned unchanged for
every draw vector in `[0,1)`. -/
theorem C11_fixed_points_binary {v us : List Rat} (hlen : us.length = v.length)
    (hu : ∀ u ∈ us, 0 ≤ u ∧ u < 1) (hgrid : ∀ x ∈ v, x = minL v ∨ x = maxL v) :
    binaryQ us v = v := by
  unfold binaryQ
  apply zipWith_eq_right hlen
  intro x hx u huu
  have hne : v ≠ [] := List.ne_nil_of_mem hx
  obtain ⟨hu0, hu1⟩ := hu u huu
  rw [binaryCoord_unfold]
  rcases lt_or_eq_of_le (minL_le_maxL hne) with hlt | heq
  · rcases hgrid x hx with h | h
    · rw [h, sOf_min, if_pos hu0]
    · rw [h, sOf_max hlt, if_neg (not_le.mpr hu1)]
  · rcases hgrid x hx with h | h
    · rw [h]; split_ifs <;> simp [heq]
    · rw [h]; split_ifs <;> simp [heq]

/-- the comparison of the source before the repair: `jnp.where(rand > v, v_min, v_max)` -/
def binaryCoordUnrepaired (mn mx u x : Rat) : Rat := if u > sOf mn mx x then mn else mx

/-- Why the repair was needed: with the original strict comparison the on-grid vector `[0, 1]`
is changed to `[1, 1]` by the draw `u = 0` (which `jax.random.uniform` produces with probability
`2⁻²³` per coordinate).  Replayed on the real code by the `grid_big` cases of the harness. -/
theorem C11_counterexample_binary_strict :
    List.zipWith (binaryCoordUnrepaired (minL [0, 1]) (maxL [0, 1])) [0, 0] [0, 1] = [1, 1] := by
  have hmn : minL [0, 1] = 0 := by simp [minL, rmin]
  have hmx : maxL [0, 1] = 1 := by simp [maxL, rmax]
  have h0 : sOf 0 1 0 = 0 := sOf_min 0 1
  have h1 : sOf 0 1 1 = 1 := sOf_max (by norm_num)
  simp [binaryCoordUnrepaired, hmn, hmx, h0, h1]

/-- **Binary quantizer: levels, threshold, expectation identity.**  Every output is the minimum or
the maximum; it is the maximum exactly when `u < s` (`s ∈ [0,1]` the rescaled coordinate, so for a
draw uniform on `[0,1)` this has probability `s`), and `max·s + min·(1 - s) = x`. -/
theorem C11_binary {v : List Rat} {x : Rat} (hx : x ∈ v) (u : Rat) :
    let mn := minL v
    let mx := maxL v
    let s := sOf mn mx x
    let out := binaryCoord mn mx u x
    (out = mn ∨ out = mx) ∧ 0 ≤ s ∧ s ≤ 1 ∧ (u < s → out = mx) ∧ (s ≤ u → out = mn) ∧
    mx * s + mn * (1 - s) = x := by
  intro mn mx s out
  have h0 : mn ≤ x := minL_le hx
  have h1 : x ≤ mx := le_maxL hx
  obtain ⟨hs0, hs1⟩ := sOf_mem mn mx x
  have hout : out = if u ≥ s then mn else mx := rfl
  refine ⟨?_, hs0, hs1, ?_, ?_, ?_⟩
  · rw [hout]; split_ifs <;> simp
  · intro h; rw [hout, if_neg (not_le.mpr h)]
  · intro h; rw [hout, if_pos h]
  · rcases lt_or_eq_of_le (le_trans h0 h1) with hlt | heq
    · have hd : mx - mn ≠ 0 := by intro h; linarith
      show mx * sOf mn mx x + mn * (1 - sOf mn mx x) = x
      rw [sOf_eq hlt h0 h1]; field_simp; ring
    · have hxm : x = mn := by linarith
      show mx * sOf mn mx x + mn * (1 - sOf mn mx x) = x
      rw [← heq, sOf_const, hxm]; ring

/-! ## C11: TernGrad -/

theorem clipCoord_eq {σ : Rat} (hσ : 0 ≤ σ) (x : Rat) :
    clipCoord σ x = if x > 5 / 2 * σ then 5 / 2 * σ else if x < -(5 / 2 * σ) then -(5 / 2 * σ) else x := by
  unfold clipCoord rabs sgn
  split_ifs <;> linarith

theorem rabs_clipCoord_le {σ : Rat} (hσ : 0 ≤ σ) (x : Rat) : rabs (clipCoord σ x) ≤ 5 / 2 * σ := by
  rw [clipCoord_eq hσ]; unfold rabs; split_ifs <;> linarith

theorem ternQ_getElem (σ : Rat) (us v : List Rat) (i : Nat) (h : i < (ternQ σ us v).length)
    (hu : i < us.length) (hv : i < v.length) :
    (ternQ σ us v)[i] =
      binaryCoord 0 (maxL ((v.map (clipCoord σ)).map rabs)) us[i] (rabs (clipCoord σ v[i])) *
        sgn (clipCoord σ v[i]) := by
  simp [ternQ]

/-- **TernGrad.**  With `c` the input clipped to `[-2.5σ, 2.5σ]` and `s` the largest clipped
magnitude of the vector: every output is `0`, `s` or `-s` (more precisely `0` or `s·sign c`); it is
`s·sign c` exactly when `u < |c|/s`, so for `u` uniform on `[0,1)` the expectation is
`s·sign c·|c|/s = c`, the clipped input. Holds for every `σ ≥ 0` (the harness supplies `jnp.std`). -/
theorem C11_terngrad {σ : Rat} (hσ : 0 ≤ σ) {v : List Rat} {x : Rat} (hx : x ∈ v) (u : Rat) :
    let c := clipCoord σ x
    let s := maxL ((v.map (clipCoord σ)).map rabs)
    let out := binaryCoord 0 s u (rabs c) * sgn c
    (c = if x > 5 / 2 * σ then 5 / 2 * σ else if x < -(5 / 2 * σ) then -(5 / 2 * σ) else x) ∧
    rabs c ≤ s ∧ s ≤ 5 / 2 * σ ∧
    (out = 0 ∨ out = s ∨ out = -s) ∧
    (0 < s → (u < rabs c / s → out = s * sgn c) ∧ (rabs c / s ≤ u → out = 0) ∧
      (s * sgn c) * (rabs c / s) + 0 * (1 - rabs c / s) = c) ∧
    (s = 0 → out = 0 ∧ c = 0) := by
  intro c s out
  have hmem : rabs c ∈ (v.map (clipCoord σ)).map rabs :=
    List.mem_map.mpr ⟨c, List.mem_map.mpr ⟨x, hx, rfl⟩, rfl⟩
  have hcs : rabs c ≤ s := le_maxL hmem
  have hs0 : 0 ≤ s := le_trans (rabs_nonneg c) hcs
  have hsb : s ≤ 5 / 2 * σ := by
    have hne : (v.map (clipCoord σ)).map rabs ≠ [] := List.ne_nil_of_mem hmem
    obtain ⟨y, hy, hys⟩ := List.mem_map.mp (maxL_mem hne)
    obtain ⟨z, _, hzy⟩ := List.mem_map.mp hy
    show maxL _ ≤ _
    rw [← hys, ← hzy]; exact rabs_clipCoord_le hσ z
  have hout : out = (if u ≥ sOf 0 s (rabs c) then 0 else s) * sgn c := rfl
  refine ⟨clipCoord_eq hσ x, hcs, hsb, ?_, ?_, ?_⟩
  · rw [hout]
    rcases sgn_cases c with h | h | h <;> rw [h] <;> split_ifs <;> simp
  · intro hpos
    have hsof : sOf 0 s (rabs c) = rabs c / s := by
      rw [sOf_eq hpos (rabs_nonneg c) hcs]; simp
    refine ⟨fun h => ?_, fun h => ?_, ?_⟩
    · rw [hout, hsof, if_neg (not_le.mpr h)]
    · rw [hout, hsof, if_pos h]; simp
    · have : s ≠ 0 := ne_of_gt hpos
      field_simp
      have := rabs_mul_sgn c
      nlinarith
  · intro hz
    have hc0 : c = 0 := rabs_eq_zero (le_antisymm (by rw [← hz]; exact hcs) (rabs_nonneg c))
    refine ⟨?_, hc0⟩
    rw [hout, hc0, sgn_zero]; simp

/-! ## C11: DRIVE (repaired: guarded division) -/

theorem sum_map_rabs_nonneg : ∀ v : List Rat, 0 ≤ (v.map rabs).sum
  | [] => by simp
  | a :: l => by
    simp only [List.map_cons, List.sum_cons]
    have := sum_map_rabs_nonneg l
    have := rabs_nonneg a
    linarith

theorem rabs_le_sum : ∀ {v : List Rat} {x : Rat}, x ∈ v → rabs x ≤ (v.map rabs).sum
  | a :: l, x, h => by
    simp only [List.map_cons, List.sum_cons]
    rcases List.mem_cons.mp h with rfl | h'
    · have := sum_map_rabs_nonneg l; linarith
    · have := rabs_le_sum h'; have := rabs_nonneg a; linarith

theorem all_zero_of_norm1_zero {v : List Rat} (h : (v.map rabs).sum = 0) : ∀ x ∈ v, x = 0 := by
  intro x hx
  exact rabs_eq_zero (le_antisymm (by rw [← h]; exact rabs_le_sum hx) (rabs_nonneg x))

theorem rabs_pos {x : Rat} (h : x ≠ 0) : 0 < rabs x :=
  lt_of_le_of_ne (rabs_nonneg x) (fun h' => h (rabs_eq_zero h'.symm))

/-- **DRIVE is defined for every leaf.**  An all-zero leaf is mapped to itself (the source before the
repair produced `0/0 = NaN` here); any other leaf has `‖v‖₁ > 0` and every coordinate becomes
`(‖v‖₂² / ‖v‖₁)·sign x`. -/
theorem C11_drive_finite (v : List Rat) :
    ((∀ x ∈ v, x = 0) → drive v = v) ∧
    ((∃ x ∈ v, x ≠ 0) → 0 < (v.map rabs).sum ∧
      drive v = v.map fun x => (v.map fun y => y * y).sum / (v.map rabs).sum * sgn x) := by
  constructor
  · intro h
    unfold drive
    conv_rhs => rw [← List.map_id v]
    apply List.map_congr_left
    intro x hx
    rw [h x hx, sgn_zero]; simp [guardDiv]
  · rintro ⟨x, hx, hne⟩
    have hpos : 0 < (v.map rabs).sum := lt_of_lt_of_le (rabs_pos hne) (rabs_le_sum hx)
    refine ⟨hpos, ?_⟩
    unfold drive
    apply List.map_congr_left
    intro y _
    rw [guardDiv_of_ne (ne_of_gt hpos)]; ring

/-! ## C11: every `nan_to_num` / guarded division is reached only as `0/0` -/

/-- **The guards only ever see `0/0`.**  At each division of the model that the source protects with
`nan_to_num` (and at the repaired DRIVE division) a zero denominator implies a zero numerator, so no
guard ever hides an infinity: (1) `(v - min)/(max - min)`; (2) the threshold
`(v - floor)/(ceil - floor)` for any rescaled value `s` and `L ≥ 2`; (3) TernGrad's
`|c| / max|c|`; (4) DRIVE's `‖v‖₂²·sign x / ‖v‖₁`. -/
theorem C11_guard_only_zero_over_zero :
    (∀ (v : List Rat) (x : Rat), x ∈ v → maxL v - minL v = 0 → x - minL v = 0) ∧
    (∀ (L : Nat) (s : Rat), 2 ≤ L →
      (((s * ((L : Rat) - 1)).ceil : Int) : Rat) / ((L : Rat) - 1) -
        (((s * ((L : Rat) - 1)).floor : Int) : Rat) / ((L : Rat) - 1) = 0 →
      s - (((s * ((L : Rat) - 1)).floor : Int) : Rat) / ((L : Rat) - 1) = 0) ∧
    (∀ (σ : Rat) (v : List Rat) (y : Rat), y ∈ v.map (clipCoord σ) →
      maxL ((v.map (clipCoord σ)).map rabs) - 0 = 0 → rabs y - 0 = 0) ∧
    (∀ (v : List Rat) (x : Rat), x ∈ v → (v.map rabs).sum = 0 → (v.map fun y => y * y).sum * sgn x = 0) := by
  refine ⟨?_, ?_, ?_, ?_⟩
  · intro v x hx h
    have h0 := minL_le hx
    have h1 := le_maxL hx
    linarith
  · intro L s hL h
    have hk0 : ((L : Rat) - 1) ≠ 0 := ne_of_gt (k_pos hL)
    set t := s * ((L : Rat) - 1) with ht
    have hcf : ((t.ceil : Int) : Rat) = ((t.floor : Int) : Rat) := by
      field_simp at h; linarith
    have hcf' : t.ceil = t.floor := by exact_mod_cast hcf
    have := (ceil_eq_floor_iff t).mp hcf'
    rw [this, ht]; field_simp; ring
  · intro σ v y hy h
    have hmem : rabs y ∈ (v.map (clipCoord σ)).map rabs := List.mem_map.mpr ⟨y, hy, rfl⟩
    have h1 := le_maxL hmem
    have h2 := rabs_nonneg y
    linarith
  · intro v x hx h
    rw [all_zero_of_norm1_zero h x hx, sgn_zero]; simp

/-! ## C11: positive homogeneity (why the rotated aggregators can be modelled without `√d`) -/

theorem sOf_scale {c : Rat} (hc : 0 < c) (mn mx x : Rat) : sOf (c * mn) (c * mx) (c * x) = sOf mn mx x := by
  unfold sOf guardDiv
  have hc0 : c ≠ 0 := ne_of_gt hc
  have h1 : c * mx - c * mn = c * (mx - mn) := by ring
  have h2 : c * x - c * mn = c * (x - mn) := by ring
  rw [h1, h2]
  by_cases hd : mx - mn = 0
  · simp [hd]
  · have : c * (mx - mn) ≠ 0 := mul_ne_zero hc0 hd
    rw [if_neg this, if_neg hd, mul_div_mul_left _ _ hc0]

theorem uniformCoord_scale {c : Rat} (hc : 0 < c) (L : Nat) (mn mx u x : Rat) :
    uniformCoord L (c * mn) (c * mx) u (c * x) = c * uniformCoord L mn mx u x := by
  rw [uniformCoord_unfold, uniformCoord_unfold, sOf_scale hc]
  split_ifs <;> ring

theorem rmin_scale {c : Rat} (hc : 0 < c) (a b : Rat) : rmin (c * a) (c * b) = c * rmin a b := by
  unfold rmin
  by_cases h : a ≤ b
  · rw [if_pos h, if_pos (mul_le_mul_of_nonneg_left h hc.le)]
  · rw [if_neg h, if_neg]; intro h'; exact h (le_of_mul_le_mul_left h' hc)

theorem rmax_scale {c : Rat} (hc : 0 < c) (a b : Rat) : rmax (c * a) (c * b) = c * rmax a b := by
  unfold rmax
  by_cases h : a ≤ b
  · rw [if_pos h, if_pos (mul_le_mul_of_nonneg_left h hc.le)]
  · rw [if_neg h, if_neg]; intro h'; exact h (le_of_mul_le_mul_left h' hc)

theorem minL_scale {c : Rat} (hc : 0 < c) : ∀ v : List Rat, minL (v.map (c * ·)) = c * minL v
  | [] => by simp [minL]
  | [a] => by simp [minL]
  | a :: b :: r => by
    have ih := minL_scale hc (b :: r)
    simp only [List.map_cons, minL] at ih ⊢
    rw [ih, rmin_scale hc]

theorem maxL_scale {c : Rat} (hc : 0 < c) : ∀ v : List Rat, maxL (v.map (c * ·)) = c * maxL v
  | [] => by simp [maxL]
  | [a] => by simp [maxL]
  | a :: b :: r => by
    have ih := maxL_scale hc (b :: r)
    simp only [List.map_cons, maxL] at ih ⊢
    rw [ih, rmax_scale hc]

theorem rabs_scale {c : Rat} (hc : 0 < c) (x : Rat) : rabs (c * x) = c * rabs x := by
  unfold rabs
  by_cases h : 0 ≤ x
  · rw [if_pos h, if_pos (mul_nonneg hc.le h)]
  · rw [if_neg h, if_neg]
    · ring
    · intro h'; exact h (by by_contra hx; have := mul_neg_of_pos_of_neg hc (not_le.mp hx); linarith)

theorem sgn_scale {c : Rat} (hc : 0 < c) (x : Rat) : sgn (c * x) = sgn x := by
  unfold sgn
  have h1 : 0 < c * x ↔ 0 < x := by
    constructor
    · intro h; by_contra hx; have := mul_nonpos_of_nonneg_of_nonpos hc.le (not_lt.mp hx); linarith
    · intro h; exact mul_pos hc h
  have h2 : c * x < 0 ↔ x < 0 := by
    constructor
    · intro h; by_contra hx; have := mul_nonneg hc.le (not_lt.mp hx); linarith
    · intro h; exact mul_neg_of_pos_of_neg hc h
  simp only [h1, h2]

theorem sum_map_mul (c : Rat) (f : Rat → Rat) : ∀ v : List Rat, (v.map fun x => c * f x).sum = c * (v.map f).sum
  | [] => by simp
  | a :: l => by simp only [List.map_cons, List.sum_cons, sum_map_mul c f l]; ring

/-- **Positive homogeneity.**  For `c > 0`, quantising `c·v` gives `c` times the quantisation of `v`
with the same draws (uniform quantizer), and `drive (c·v) = c·drive v`.  This is what allows the model
of the rotated aggregators to apply the two factors `1/√d` of the rotation together, as `1/d`. -/
theorem C11_scale {c : Rat} (hc : 0 < c) (L : Nat) (us v : List Rat) :
    uniformQ L us (v.map (c * ·)) = (uniformQ L us v).map (c * ·) ∧
    drive (v.map (c * ·)) = (drive v).map (c * ·) := by
  constructor
  · unfold uniformQ
    rw [minL_scale hc, maxL_scale hc, List.zipWith_map_right, List.map_zipWith]
    congr 1
    funext u x
    exact uniformCoord_scale hc L _ _ u x
  · unfold drive
    have h2 : ((v.map (c * ·)).map fun x => x * x).sum = c * c * (v.map fun x => x * x).sum := by
      rw [List.map_map, ← sum_map_mul (c * c) (fun x => x * x)]
      congr 1; apply List.map_congr_left; intro x _; simp only [Function.comp]; ring
    have h1 : ((v.map (c * ·)).map rabs).sum = c * (v.map rabs).sum := by
      rw [List.map_map, ← sum_map_mul c rabs]
      congr 1; apply List.map_congr_left; intro x _; simp only [Function.comp]; exact rabs_scale hc x
    rw [h1, h2, List.map_map, List.map_map]
    apply List.map_congr_left
    intro x _
    simp only [Function.comp, sgn_scale hc]
    unfold guardDiv
    have hc0 : c ≠ 0 := ne_of_gt hc
    by_cases hn : (v.map rabs).sum = 0
    · simp [hn]
    · rw [if_neg (mul_ne_zero hc0 hn), if_neg hn]; field_simp

/-! ## C11: key handling -/

theorem replicate_prefix {α : Type} {z o : α} (hzo : z ≠ o) :
    ∀ (a a' : Nat) (X Y : List α),
      List.replicate a z ++ o :: X <+: List.replicate a' z ++ o :: Y → a = a' ∧ X <+: Y
  | 0, 0, X, Y, h => by
    simp only [List.replicate_zero, List.nil_append] at h
    exact ⟨rfl, (List.cons_prefix_cons.mp h).2⟩
  | 0, a' + 1, X, Y, h => by
    simp only [List.replicate_zero, List.nil_append, List.replicate_succ, List.cons_append] at h
    exact absurd (List.cons_prefix_cons.mp h).1.symm hzo
  | a + 1, 0, X, Y, h => by
    simp only [List.replicate_zero, List.nil_append, List.replicate_succ, List.cons_append] at h
    exact absurd (List.cons_prefix_cons.mp h).1 hzo
  | a + 1, a' + 1, X, Y, h => by
    simp only [List.replicate_succ, List.cons_append] at h
    obtain ⟨h1, h2⟩ := replicate_prefix hzo a a' X Y (List.cons_prefix_cons.mp h).2
    exact ⟨by omega, h2⟩

theorem z_ne_o : ((2, 0) : Nat × Nat) ≠ (2, 1) := by decide

theorem drawKey_eq (root : Path) (nl r c l : Nat) :
    drawKey root nl r c l =
      root ++ (List.replicate r (2, 0) ++ (2, 1) :: (List.replicate c (2, 0) ++ (2, 1) :: [(nl, l)])) := by
  simp [drawKey, leafKey, clientKey, stateRng, List.append_assoc]

theorem rotDrawKey_eq (root : Path) (nl r c l : Nat) :
    rotDrawKey root nl r c l =
      root ++ (List.replicate (2 * r + 1) (2, 0) ++ (2, 1) :: (List.replicate c (2, 0) ++ (2, 1) :: [(nl, l)])) := by
  simp [rotDrawKey, leafKey, clientKey, stateRng, List.append_assoc, List.replicate_succ']

theorem rotSignKey_eq (root : Path) (nl r l : Nat) :
    rotSignKey root nl r l = root ++ (List.replicate (2 * r) (2, 0) ++ (2, 1) :: [(nl, l)]) := by
  simp [rotSignKey, leafKey, stateRng, List.append_assoc]

theorem singleton_prefix {a b : Nat × Nat} (h : [a] <+: [b]) : a = b :=
  (List.cons_prefix_cons.mp h).1

/-- **Fresh keys (uniform, TernGrad, DRIVE aggregators).**  Over any number of rounds and clients the
key paths used for the draws of `(round, client, leaf)` are pairwise distinct, and none is a prefix
of another (a key that is drawn from is never split again): if the path of `(r, c, l)` is a prefix
of — in particular equal to — the path of `(r', c', l')`, the triples coincide. -/
theorem C11_keys_fresh (root : Path) (nl r c l r' c' l' : Nat)
    (h : drawKey root nl r c l <+: drawKey root nl r' c' l') : r = r' ∧ c = c' ∧ l = l' := by
  rw [drawKey_eq, drawKey_eq] at h
  have h1 := (List.prefix_append_right_inj root).mp h
  obtain ⟨hr, h2⟩ := replicate_prefix z_ne_o _ _ _ _ h1
  obtain ⟨hc, h3⟩ := replicate_prefix z_ne_o _ _ _ _ h2
  have := singleton_prefix h3
  exact ⟨hr, hc, by simpa using this⟩

/-- **Fresh keys (rotated aggregator).**  The quantisation draws of `(r, c, l)` are prefix-free among
themselves, the rotation-sign keys of `(r, l)` are prefix-free among themselves, and no
quantisation key is a prefix of a rotation key or vice versa. -/
theorem C11_keys_fresh_rotated (root : Path) (nl r c l r' c' l' : Nat) :
    (rotDrawKey root nl r c l <+: rotDrawKey root nl r' c' l' → r = r' ∧ c = c' ∧ l = l') ∧
    (rotSignKey root nl r l <+: rotSignKey root nl r' l' → r = r' ∧ l = l') ∧
    ¬ rotDrawKey root nl r c l <+: rotSignKey root nl r' l' ∧
    ¬ rotSignKey root nl r' l' <+: rotDrawKey root nl r c l := by
  refine ⟨fun h => ?_, fun h => ?_, fun h => ?_, fun h => ?_⟩
  · rw [rotDrawKey_eq, rotDrawKey_eq] at h
    have h1 := (List.prefix_append_right_inj root).mp h
    obtain ⟨hr, h2⟩ := replicate_prefix z_ne_o _ _ _ _ h1
    obtain ⟨hc, h3⟩ := replicate_prefix z_ne_o _ _ _ _ h2
    have := singleton_prefix h3
    exact ⟨by omega, hc, by simpa using this⟩
  · rw [rotSignKey_eq, rotSignKey_eq] at h
    have h1 := (List.prefix_append_right_inj root).mp h
    obtain ⟨hr, h2⟩ := replicate_prefix z_ne_o _ _ _ _ h1
    have := singleton_prefix h2
    exact ⟨by omega, by simpa using this⟩
  · rw [rotDrawKey_eq, rotSignKey_eq] at h
    have h1 := (List.prefix_append_right_inj root).mp h
    obtain ⟨hr, _⟩ := replicate_prefix z_ne_o _ _ _ _ h1
    omega
  · rw [rotDrawKey_eq, rotSignKey_eq] at h
    have h1 := (List.prefix_append_right_inj root).mp h
    obtain ⟨hr, _⟩ := replicate_prefix z_ne_o _ _ _ _ h1
    omega

theorem finalState_rng (step : CState → List (Tree × Rat) → Option Tree × CState) (k : Nat)
    (hstep : ∀ st cs, (step st cs).2.rng = st.rng ++ List.replicate k (2, 0)) :
    ∀ (rounds : List (List (Tree × Rat))) (st : CState),
      (finalState step st rounds).rng = st.rng ++ List.replicate (k * rounds.length) (2, 0)
  | [], st => by simp [finalState]
  | cs :: rest, st => by
    have ih := finalState_rng step k hstep rest (step st cs).2
    simp only [finalState, List.foldl_cons] at ih ⊢
    rw [ih, hstep, List.append_assoc, ← List.replicate_add, List.length_cons]
    congr 2; ring

/-- **The state key advances every round**, and the keys named by `C11_keys_fresh` are the ones the
round functions use: after `R` rounds from `initState root` the state key is `stateRng k root R`
(`k = 1`; `k = 2` for the rotated aggregator), and in a round started from state key `s` the draw
for `(client c, leaf l)` is requested at `leafKey (clientKey (s ++ [(2,1)]) c) nl l`
(`drawKey root nl r c l` when `s = stateRng 1 root r`), by definition of the round functions. -/
theorem C11_state_rng (L : Nat) (draw : Path → List Rat) (sigma : Path → Rat) (root : Path)
    (rounds : List (List (Tree × Rat))) :
    (finalState (uniformRound L draw) (initState root) rounds).rng = stateRng 1 root rounds.length ∧
    (finalState (ternRound draw sigma) (initState root) rounds).rng = stateRng 1 root rounds.length ∧
    (finalState (driveRound draw) (initState root) rounds).rng = stateRng 1 root rounds.length ∧
    (finalState (rotatedRound L draw) (initState root) rounds).rng = stateRng 2 root rounds.length := by
  refine ⟨?_, ?_, ?_, ?_⟩
  · exact finalState_rng _ 1 (fun st cs => by simp [uniformRound]) rounds _
  · exact finalState_rng _ 1 (fun st cs => by simp [ternRound]) rounds _
  · exact finalState_rng _ 1 (fun st cs => by simp [driveRound]) rounds _
  · exact finalState_rng _ 2 (fun st cs => by simp [rotatedRound, List.replicate_succ]) rounds _

/-! ## C11: tree shapes through the aggregators -/

/-- leaf sizes of a tree -/
def shape (t : Tree) : List Nat := t.map List.length

theorem shape_treeScale (w : Rat) (t : Tree) : shape (treeScale w t) = shape t := by
  simp [shape, treeScale]

theorem shape_treeAdd : ∀ (a b : Tree), shape a = shape b → shape (treeAdd a b) = shape a
  | [], [], _ => rfl
  | [], _ :: _, h => by simp [shape] at h
  | _ :: _, [], h => by simp [shape] at h
  | x :: a, y :: b, h => by
    simp only [shape, List.map_cons, List.cons.injEq] at h
    have ih := shape_treeAdd a b h.2
    simp only [shape, treeAdd, List.zipWith_cons_cons, List.map_cons, List.length_zipWith] at ih ⊢
    rw [ih, h.1, Nat.min_self]

theorem shape_foldl_add (sh : List Nat) :
    ∀ (rest : List (Tree × Rat)) (init : Tree), shape init = sh → (∀ p ∈ rest, shape p.1 = sh) →
      shape (rest.foldl (fun acc p => treeAdd acc (treeScale p.2 p.1)) init) = sh
  | [], init, h, _ => h
  | p :: rest, init, h, hr => by
    rw [List.foldl_cons]
    apply shape_foldl_add sh rest
    · rw [shape_treeAdd _ _ (by rw [shape_treeScale, h, hr p List.mem_cons_self]), h]
    · intro q hq; exact hr q (List.mem_cons_of_mem _ hq)

theorem treeMean_shape {sh : List Nat} {cs : List (Tree × Rat)} (hne : cs ≠ [])
    (hsh : ∀ p ∈ cs, shape p.1 = sh) : ∃ t, treeMean cs = some t ∧ shape t = sh := by
  cases cs with
  | nil => exact absurd rfl hne
  | cons p rest =>
    obtain ⟨t, w⟩ := p
    refine ⟨_, rfl, ?_⟩
    rw [shape_treeScale]
    apply shape_foldl_add sh rest
    · rw [shape_treeScale]; exact hsh (t, w) List.mem_cons_self
    · intro q hq; exact hsh q (List.mem_cons_of_mem _ hq)

theorem mem_zipWith_exists {α β γ : Type} (g : α → β → γ) :
    ∀ (is : List α) (cl : List β) (p : γ), p ∈ List.zipWith g is cl → ∃ i q, q ∈ cl ∧ p = g i q
  | [], _, p, h => by simp at h
  | _ :: _, [], p, h => by simp at h
  | i :: is, q :: cl, p, h => by
    rw [List.zipWith_cons_cons] at h
    rcases List.mem_cons.mp h with h | h
    · exact ⟨i, q, List.mem_cons_self, h⟩
    · obtain ⟨i', q', hq', hp⟩ := mem_zipWith_exists g is cl p h
      exact ⟨i', q', List.mem_cons_of_mem _ hq', hp⟩

theorem quantClients_ne_nil (f : Path → Tree → Tree) (use : Path) {clients : List (Tree × Rat)}
    (hne : clients ≠ []) : quantClients f use clients ≠ [] := by
  intro h
  have := congrArg List.length h
  simp [quantClients] at this
  exact hne this

/-- one round: if every client tree has leaf sizes `sh` and the per-client transformation keeps
them, the aggregate exists and has leaf sizes `sh`. -/
theorem round_agg_shape {sh : List Nat} (f : Path → Tree → Tree) (use : Path)
    {clients : List (Tree × Rat)} (hne : clients ≠ []) (hsh : ∀ p ∈ clients, shape p.1 = sh)
    (hkeep : ∀ key t, shape t = sh → shape (f key t) = sh) :
    ∃ t, treeMean (quantClients f use clients) = some t ∧ shape t = sh := by
  apply treeMean_shape (quantClients_ne_nil f use hne)
  intro p hp
  obtain ⟨c, q, hq, rfl⟩ := mem_zipWith_exists _ _ _ p hp
  exact hkeep _ _ (hsh q hq)

theorem shape_zipWith_range (F : Nat → List Rat → List Rat) (t : Tree)
    (hF : ∀ l (h : l < t.length), (F l t[l]).length = t[l].length) :
    shape ((List.range t.length).zipWith F t) = shape t := by
  unfold shape
  apply List.ext_getElem
  · simp
  · intro i h1 h2
    simp only [List.length_map] at h2
    simp only [List.getElem_map, List.getElem_zipWith, List.getElem_range]
    exact hF i h2

/-- the draws supplied for leaf index `l` have the size of that leaf (`pad = false`:
`jax.random.uniform(key, leaf.shape)`) or of the padded rotated leaf (`pad = true`:
`rademacher(key, (2^⌈log₂ n⌉,))` / uniform draws on the rotated leaf). -/
def DrawsFit (draw : Path → List Rat) (sh : List Nat) (pad : Bool) : Prop :=
  ∀ (key : Path) (l : Nat) (h : l < sh.length),
    (draw (leafKey key sh.length l)).length = if pad then 2 ^ ceilLog2 sh[l] else sh[l]

theorem shape_length {t : Tree} {sh : List Nat} (h : shape t = sh) : t.length = sh.length := by
  rw [← h]; simp [shape]

theorem shape_getElem {t : Tree} {sh : List Nat} (h : shape t = sh) (l : Nat) (h1 : l < t.length)
    (h2 : l < sh.length) : t[l].length = sh[l] := by
  subst h; simp [shape]

theorem ceilLog2Go_spec (n : Nat) : ∀ (fuel k : Nat), n ≤ 2 ^ (k + fuel) → n ≤ 2 ^ ceilLog2Go n fuel k
  | 0, k, h => by simpa [ceilLog2Go] using h
  | fuel + 1, k, h => by
    unfold ceilLog2Go
    split_ifs with hk
    · exact hk
    · exact ceilLog2Go_spec n fuel (k + 1) (by rw [show k + 1 + fuel = k + (fuel + 1) by omega]; exact h)

theorem le_two_pow_ceilLog2 (n : Nat) : n ≤ 2 ^ ceilLog2 n :=
  ceilLog2Go_spec n n 0 (by rw [Nat.zero_add]; exact Nat.le_of_lt Nat.lt_two_pow_self)

theorem length_hadamard (k : Nat) (y : List Rat) : (hadamard k y).length = 2 ^ k := by
  simp [hadamard]

theorem length_invRotU {signs : List Rat} {n : Nat} (y : List Rat)
    (hs : signs.length = 2 ^ ceilLog2 n) : (invRotU signs n y).length = n := by
  have := le_two_pow_ceilLog2 n
  simp only [invRotU, List.length_map, List.length_take, List.length_zipWith, length_hadamard, hs]
  omega

theorem keep_uniform {sh : List Nat} (L : Nat) {draw : Path → List Rat} (hd : DrawsFit draw sh false)
    (key : Path) (t : Tree) (ht : shape t = sh) :
    shape (mapLeaves (fun k leaf => uniformQ L (draw k) leaf) key t) = sh := by
  subst ht
  apply shape_zipWith_range
  intro l h
  have := hd key l (by simpa [shape] using h)
  simp only [shape, Bool.false_eq_true, if_false, List.length_map, List.getElem_map] at this
  simp only [uniformQ, List.length_zipWith, this, Nat.min_self]

theorem keep_tern {sh : List Nat} {draw : Path → List Rat} (sigma : Path → Rat)
    (hd : DrawsFit draw sh false) (key : Path) (t : Tree) (ht : shape t = sh) :
    shape (mapLeaves (fun k leaf => ternQ (sigma k) (draw k) leaf) key t) = sh := by
  subst ht
  apply shape_zipWith_range
  intro l h
  have := hd key l (by simpa [shape] using h)
  simp only [shape, Bool.false_eq_true, if_false, List.length_map, List.getElem_map] at this
  simp only [ternQ, List.length_zipWith, List.length_map, this, Nat.min_self]

theorem keep_drive {sh : List Nat} {draw : Path → List Rat} (hd : DrawsFit draw sh true)
    (key : Path) (t : Tree) (ht : shape t = sh) :
    shape (mapLeaves (fun k leaf => invRotU (draw k) leaf.length (drive (rotU (draw k) leaf))) key t) = sh := by
  subst ht
  apply shape_zipWith_range
  intro l h
  have := hd key l (by simpa [shape] using h)
  simp only [shape, if_true, List.length_map, List.getElem_map] at this
  exact length_invRotU _ this

theorem keep_rotated {sh : List Nat} (L : Nat) {draw : Path → List Rat} (hd : DrawsFit draw sh true)
    (rot key : Path) (t : Tree) (ht : shape t = sh) :
    shape ((List.range t.length).zipWith (fun l leaf =>
      invRotU (draw (leafKey rot t.length l)) leaf.length
        (uniformQ L (draw (leafKey key t.length l)) (rotU (draw (leafKey rot t.length l)) leaf))) t) = sh := by
  subst ht
  apply shape_zipWith_range
  intro l h
  have := hd rot l (by simpa [shape] using h)
  simp only [shape, if_true, List.length_map, List.getElem_map] at this
  exact length_invRotU _ this

/-! ## C11: bit accounting -/

theorem aggSize_of_shape {t : Tree} {sh : List Nat} (h : shape t = sh) : treeSize t = sh.sum := by
  rw [← h]; rfl

theorem finalState_bits (step : CState → List (Tree × Rat) → Option Tree × CState) (a b : Nat) :
    ∀ (rounds : List (List (Tree × Rat))),
      (∀ st, ∀ cs ∈ rounds, (step st cs).2.logBits = st.logBits + a ∧
        (step st cs).2.constBits = st.constBits + b) →
      ∀ st, (finalState step st rounds).logBits = st.logBits + rounds.length * a ∧
        (finalState step st rounds).constBits = st.constBits + rounds.length * b
  | [], _, st => by simp [finalState]
  | cs :: rest, h, st => by
    have ih := finalState_bits step a b rest (fun st' cs' hcs' => h st' cs' (List.mem_cons_of_mem _ hcs'))
      (step st cs).2
    have h0 := h st cs List.mem_cons_self
    simp only [finalState, List.foldl_cons, List.length_cons] at ih ⊢
    rw [ih.1, ih.2, h0.1, h0.2]
    constructor <;> ring

/-- **Bit accounting.**  If in every round there is at least one client and all client trees have
leaf sizes `sh` (`P = Σ sh` parameters in `nl` leaves), then after `R` rounds the counter has grown
by exactly `R·(log₂L·P + 64·nl)` for the uniform and rotated aggregators, `R·(log₂3·P + 64·nl)` for
TernGrad (`logBits` is the coefficient of the logarithm, `constBits` the constant part) and
`R·(P + 64·nl)` for DRIVE.  `DrawsFit` says the supplied draws have the shape of the (padded) leaf,
as `jax.random.uniform(key, shape)` / `rademacher(key, (d,))` do. -/
theorem C11_bits (L : Nat) (draw : Path → List Rat) (sigma : Path → Rat) (sh : List Nat) (st : CState)
    (rounds : List (List (Tree × Rat))) (hne : ∀ cs ∈ rounds, cs ≠ [])
    (hsh : ∀ cs ∈ rounds, ∀ p ∈ cs, shape p.1 = sh) :
    let P := sh.sum
    let nl := sh.length
    let R := rounds.length
    (DrawsFit draw sh false →
      ((finalState (uniformRound L draw) st rounds).logBits = st.logBits + R * P ∧
        (finalState (uniformRound L draw) st rounds).constBits = st.constBits + R * (64 * nl)) ∧
      ((finalState (ternRound draw sigma) st rounds).logBits = st.logBits + R * P ∧
        (finalState (ternRound draw sigma) st rounds).constBits = st.constBits + R * (64 * nl))) ∧
    (DrawsFit draw sh true →
      ((finalState (rotatedRound L draw) st rounds).logBits = st.logBits + R * P ∧
        (finalState (rotatedRound L draw) st rounds).constBits = st.constBits + R * (64 * nl)) ∧
      ((finalState (driveRound draw) st rounds).logBits = st.logBits + R * 0 ∧
        (finalState (driveRound draw) st rounds).constBits = st.constBits + R * (P + 64 * nl))) := by
  intro P nl R
  refine ⟨fun hd => ⟨?_, ?_⟩, fun hd => ⟨?_, ?_⟩⟩
  · apply finalState_bits
    intro st' cs hcs
    obtain ⟨t, ht, hts⟩ := round_agg_shape _ (st'.rng ++ [(2, 1)]) (hne cs hcs) (hsh cs hcs) (keep_uniform L hd)
    simp only [uniformRound, ht, aggSize, aggLeaves, aggSize_of_shape hts, shape_length hts]
    exact ⟨rfl, by omega⟩
  · apply finalState_bits
    intro st' cs hcs
    obtain ⟨t, ht, hts⟩ := round_agg_shape _ (st'.rng ++ [(2, 1)]) (hne cs hcs) (hsh cs hcs) (keep_tern sigma hd)
    simp only [ternRound, ht, aggSize, aggLeaves, aggSize_of_shape hts, shape_length hts]
    exact ⟨rfl, by omega⟩
  · apply finalState_bits
    intro st' cs hcs
    obtain ⟨t, ht, hts⟩ := round_agg_shape _ (st'.rng ++ [(2, 0)] ++ [(2, 1)]) (hne cs hcs) (hsh cs hcs)
      (keep_rotated L hd (st'.rng ++ [(2, 1)]))
    simp only [rotatedRound, ht, aggSize, aggLeaves, aggSize_of_shape hts, shape_length hts]
    exact ⟨rfl, by omega⟩
  · apply finalState_bits
    intro st' cs hcs
    obtain ⟨t, ht, hts⟩ := round_agg_shape _ (st'.rng ++ [(2, 1)]) (hne cs hcs) (hsh cs hcs) (keep_drive hd)
    simp only [driveRound, ht, aggSize, aggLeaves, aggSize_of_shape hts, shape_length hts]
    exact ⟨rfl, by omega⟩

/-! ## C11: the aggregate is the weighted mean, within the largest per-client error -/

/-- coordinate `j` of leaf `l` (`0` outside the tree) -/
def coord (t : Tree) (l j : Nat) : Rat := ((t[l]?).getD [])[j]?.getD 0

theorem getD_map_mul (w : Rat) (x : List Rat) (j : Nat) :
    (x.map (w * ·))[j]?.getD 0 = w * x[j]?.getD 0 := by
  simp only [List.getElem?_map]
  cases x[j]? <;> simp

theorem coord_treeScale (w : Rat) (t : Tree) (l j : Nat) : coord (treeScale w t) l j = w * coord t l j := by
  unfold coord treeScale
  rw [List.getElem?_map]
  cases t[l]? with
  | none => simp
  | some x => simpa using getD_map_mul w x j

theorem getD_zipWith_add : ∀ (x y : List Rat) (j : Nat), x.length = y.length →
    (List.zipWith (· + ·) x y)[j]?.getD 0 = x[j]?.getD 0 + y[j]?.getD 0
  | [], [], j, _ => by simp
  | [], _ :: _, _, h => by simp at h
  | _ :: _, [], _, h => by simp at h
  | a :: x, b :: y, 0, _ => by simp
  | a :: x, b :: y, j + 1, h => by
    simpa using getD_zipWith_add x y j (by simpa using h)

theorem coord_treeAdd : ∀ (a b : Tree) (l j : Nat), shape a = shape b →
    coord (treeAdd a b) l j = coord a l j + coord b l j
  | [], [], l, j, _ => by simp [coord, treeAdd]
  | [], _ :: _, _, _, h => by simp [shape] at h
  | _ :: _, [], _, _, h => by simp [shape] at h
  | x :: a, y :: b, 0, j, h => by
    simp only [shape, List.map_cons, List.cons.injEq] at h
    simpa [coord, treeAdd] using getD_zipWith_add x y j h.1
  | x :: a, y :: b, l + 1, j, h => by
    simp only [shape, List.map_cons, List.cons.injEq] at h
    simpa [coord, treeAdd] using coord_treeAdd a b l j h.2

theorem coord_foldl_add (sh : List Nat) (l j : Nat) :
    ∀ (rest : List (Tree × Rat)) (init : Tree), shape init = sh → (∀ p ∈ rest, shape p.1 = sh) →
      coord (rest.foldl (fun acc p => treeAdd acc (treeScale p.2 p.1)) init) l j =
        coord init l j + (rest.map fun p => p.2 * coord p.1 l j).sum
  | [], init, _, _ => by simp
  | p :: rest, init, h, hr => by
    have hp := hr p List.mem_cons_self
    rw [List.foldl_cons, coord_foldl_add sh l j rest _
      (by rw [shape_treeAdd _ _ (by rw [shape_treeScale, h, hp]), h])
      (fun q hq => hr q (List.mem_cons_of_mem _ hq)),
      coord_treeAdd _ _ l j (by rw [shape_treeScale, h, hp]), coord_treeScale]
    simp only [List.map_cons, List.sum_cons]; ring

theorem foldl_weight : ∀ (rest : List (Tree × Rat)) (w0 : Rat),
    rest.foldl (fun acc p => acc + p.2) w0 = w0 + (rest.map (·.2)).sum
  | [], w0 => by simp
  | p :: rest, w0 => by
    rw [List.foldl_cons, foldl_weight rest]; simp only [List.map_cons, List.sum_cons]; ring

/-- every coordinate of `tree_mean` is the guarded weighted mean of that coordinate -/
theorem coord_treeMean {sh : List Nat} {cs : List (Tree × Rat)} {t : Tree} (h : treeMean cs = some t)
    (hsh : ∀ p ∈ cs, shape p.1 = sh) (l j : Nat) :
    coord t l j = (if 0 < (cs.map (·.2)).sum then 1 / (cs.map (·.2)).sum else 0) *
      (cs.map fun p => p.2 * coord p.1 l j).sum := by
  cases cs with
  | nil => simp [treeMean] at h
  | cons p rest =>
    obtain ⟨t0, w0⟩ := p
    simp only [treeMean, Option.some.injEq] at h
    rw [← h, coord_treeScale, foldl_weight,
      coord_foldl_add sh l j rest _ (by rw [shape_treeScale]; exact hsh (t0, w0) List.mem_cons_self)
        (fun q hq => hsh q (List.mem_cons_of_mem _ hq)), coord_treeScale]
    simp only [List.map_cons, List.sum_cons, zero_add]

theorem rabs_le_iff {a b : Rat} : rabs a ≤ b ↔ -b ≤ a ∧ a ≤ b := by
  unfold rabs; split_ifs <;> constructor <;> intro h <;> first | (constructor <;> linarith) | linarith [h.1, h.2]

theorem wsum_diff_bounds (E : Rat) :
    ∀ (cs : List (Rat × Rat × Rat)), (∀ p ∈ cs, 0 ≤ p.2.2) → (∀ p ∈ cs, rabs (p.1 - p.2.1) ≤ E) →
      -(E * (cs.map (·.2.2)).sum) ≤ (cs.map fun p => p.2.2 * p.1).sum - (cs.map fun p => p.2.2 * p.2.1).sum ∧
      (cs.map fun p => p.2.2 * p.1).sum - (cs.map fun p => p.2.2 * p.2.1).sum ≤ E * (cs.map (·.2.2)).sum
  | [], _, _ => by simp
  | p :: cs, hw, he => by
    obtain ⟨ih1, ih2⟩ := wsum_diff_bounds E cs (fun q hq => hw q (List.mem_cons_of_mem _ hq))
      (fun q hq => he q (List.mem_cons_of_mem _ hq))
    obtain ⟨e1, e2⟩ := rabs_le_iff.mp (he p List.mem_cons_self)
    have hwp := hw p List.mem_cons_self
    have h1 : p.2.2 * (p.1 - p.2.1) ≤ p.2.2 * E := mul_le_mul_of_nonneg_left e2 hwp
    have h2 : p.2.2 * (-E) ≤ p.2.2 * (p.1 - p.2.1) := mul_le_mul_of_nonneg_left e1 hwp
    simp only [List.map_cons, List.sum_cons]
    constructor <;> nlinarith

/-- **Convexity of the weighted mean (tree form).**  For clients given as triples
`(quantised tree, exact tree, weight)` with all trees of leaf sizes `sh`, weights `≥ 0` and positive
total weight: both `tree_mean`s exist and at every coordinate they differ by at most any bound `E`
on the per-client differences at that coordinate. -/
theorem treeMean_convex {sh : List Nat} {cs : List (Tree × Tree × Rat)} (hne : cs ≠ [])
    (hq : ∀ p ∈ cs, shape p.1 = sh) (hx : ∀ p ∈ cs, shape p.2.1 = sh)
    (hw : ∀ p ∈ cs, 0 ≤ p.2.2) (hW : 0 < (cs.map (·.2.2)).sum) (l j : Nat) (E : Rat)
    (he : ∀ p ∈ cs, rabs (coord p.1 l j - coord p.2.1 l j) ≤ E) :
    ∃ tq tx, treeMean (cs.map fun p => (p.1, p.2.2)) = some tq ∧
      treeMean (cs.map fun p => (p.2.1, p.2.2)) = some tx ∧ rabs (coord tq l j - coord tx l j) ≤ E := by
  have hne1 : (cs.map fun p => (p.1, p.2.2)) ≠ [] := by simpa using hne
  have hne2 : (cs.map fun p => (p.2.1, p.2.2)) ≠ [] := by simpa using hne
  have hq' : ∀ p ∈ cs.map (fun p => (p.1, p.2.2)), shape p.1 = sh := by
    intro p hp; obtain ⟨r, hr, rfl⟩ := List.mem_map.mp hp; exact hq r hr
  have hx' : ∀ p ∈ cs.map (fun p => (p.2.1, p.2.2)), shape p.1 = sh := by
    intro p hp; obtain ⟨r, hr, rfl⟩ := List.mem_map.mp hp; exact hx r hr
  obtain ⟨tq, htq, _⟩ := treeMean_shape hne1 hq'
  obtain ⟨tx, htx, _⟩ := treeMean_shape hne2 hx'
  refine ⟨tq, tx, htq, htx, ?_⟩
  rw [coord_treeMean htq hq' l j, coord_treeMean htx hx' l j]
  simp only [List.map_map, Function.comp_def]
  rw [if_pos hW]
  set W := (cs.map fun p => p.2.2).sum with hWdef
  have hb := wsum_diff_bounds E (cs.map fun p => (coord p.1 l j, coord p.2.1 l j, p.2.2))
    (by intro p hp; obtain ⟨r, hr, rfl⟩ := List.mem_map.mp hp; exact hw r hr)
    (by intro p hp; obtain ⟨r, hr, rfl⟩ := List.mem_map.mp hp; exact he r hr)
  simp only [List.map_map, Function.comp_def] at hb
  rw [← hWdef] at hb
  obtain ⟨b1, b2⟩ := hb
  have hW0 : W ≠ 0 := ne_of_gt hW
  rw [rabs_le_iff]
  constructor
  · rw [← mul_sub, one_div, inv_mul_eq_div, le_div_iff₀ hW]; linarith
  · rw [← mul_sub, one_div, inv_mul_eq_div, div_le_iff₀ hW]; linarith

theorem zipWith_snd_eq {α β : Type} (g : α → β → β) (hg : ∀ a b, g a b = b) :
    ∀ (is : List α) (cl : List β), is.length = cl.length → List.zipWith g is cl = cl
  | [], [], _ => rfl
  | [], _ :: _, h => by simp at h
  | _ :: _, [], h => by simp at h
  | i :: is, q :: cl, h => by
    rw [List.zipWith_cons_cons, hg, zipWith_snd_eq g hg is cl (by simpa using h)]

theorem coord_zipWith_range (F : Nat → List Rat → List Rat) (t : Tree) (l : Nat) (h : l < t.length)
    (j : Nat) : coord ((List.range t.length).zipWith F t) l j = (F l t[l])[j]?.getD 0 := by
  unfold coord
  rw [List.getElem?_zipWith, List.getElem?_range h, List.getElem?_eq_getElem h]
  simp

theorem coord_eq_getElem (t : Tree) (l j : Nat) (h : l < t.length) (hj : j < t[l].length) :
    coord t l j = t[l][j] := by
  unfold coord
  rw [List.getElem?_eq_getElem h]
  simp [List.getElem?_eq_getElem hj]

theorem coord_mapLeaves_uniform_err {L : Nat} (hL : 2 ≤ L) (draw : Path → List Rat) (key : Path)
    (t : Tree) (l j : Nat) (hlt : l < t.length) (hjl : j < t[l].length)
    (hdl : (draw (leafKey key t.length l)).length = t[l].length) :
    rabs (coord (mapLeaves (fun k leaf => uniformQ L (draw k) leaf) key t) l j - coord t l j) ≤
      (maxL t[l] - minL t[l]) / ((L : Rat) - 1) := by
  rw [mapLeaves, coord_zipWith_range _ _ l hlt, coord_eq_getElem _ l j hlt hjl]
  have hlen : j < (uniformQ L (draw (leafKey key t.length l)) t[l]).length := by
    simp only [uniformQ, List.length_zipWith, hdl, Nat.min_self]; exact hjl
  rw [List.getElem?_eq_getElem hlen, Option.getD_some]
  simp only [uniformQ, List.getElem_zipWith]
  have hx : t[l][j] ∈ t[l] := List.getElem_mem hjl
  exact (C11_neighbours hL hx _).2.2.2.2.1

/-- **Aggregation.**  (1) For each of the four aggregators the returned tree is, by definition of the
round function, `tree_mean` of the per-client quantised trees with the clients' weights.
(2) For the uniform aggregator with `L ≥ 2`, at least one client, all client trees of leaf sizes
`sh`, draws of the leaves' shapes, weights `≥ 0` with positive sum: the aggregate and the exact
weighted mean of the client trees both exist, and at every coordinate `(l, j)` of the tree they
differ by at most any `E` that bounds the clients' one-step errors `(max - min)/(L-1)` on leaf `l`
— the largest per-client error bound. -/
theorem C11_aggregate (L : Nat) (draw : Path → List Rat) (sigma : Path → Rat) (st : CState)
    (clients : List (Tree × Rat)) :
    ((uniformRound L draw st clients).1 =
        treeMean (quantClients (mapLeaves fun k leaf => uniformQ L (draw k) leaf) (st.rng ++ [(2, 1)]) clients) ∧
      (ternRound draw sigma st clients).1 =
        treeMean (quantClients (mapLeaves fun k leaf => ternQ (sigma k) (draw k) leaf) (st.rng ++ [(2, 1)]) clients) ∧
      (driveRound draw st clients).1 =
        treeMean (quantClients (mapLeaves fun k leaf => invRotU (draw k) leaf.length (drive (rotU (draw k) leaf)))
          (st.rng ++ [(2, 1)]) clients) ∧
      (∀ p ∈ quantClients (mapLeaves fun k leaf => uniformQ L (draw k) leaf) (st.rng ++ [(2, 1)]) clients,
        ∃ q ∈ clients, p.2 = q.2)) ∧
    (∀ (sh : List Nat), 2 ≤ L → clients ≠ [] → (∀ p ∈ clients, shape p.1 = sh) → DrawsFit draw sh false →
      (∀ p ∈ clients, 0 ≤ p.2) → 0 < (clients.map (·.2)).sum →
      ∀ (l j : Nat) (hl : l < sh.length), j < sh[l] → ∀ E : Rat,
        (∀ p ∈ clients, (maxL ((p.1[l]?).getD []) - minL ((p.1[l]?).getD [])) / ((L : Rat) - 1) ≤ E) →
        ∃ tq tx, (uniformRound L draw st clients).1 = some tq ∧ treeMean clients = some tx ∧
          rabs (coord tq l j - coord tx l j) ≤ E) := by
  refine ⟨⟨rfl, rfl, rfl, ?_⟩, ?_⟩
  · intro p hp
    obtain ⟨c, q, hq, rfl⟩ := mem_zipWith_exists _ _ _ p hp
    exact ⟨q, hq, rfl⟩
  · intro sh hL hne hsh hd hw hW l j hl hj E hE
    set use := st.rng ++ [(2, 1)] with huse
    set f : Path → Tree → Tree := mapLeaves fun k leaf => uniformQ L (draw k) leaf with hf
    -- triples (quantised, exact, weight)
    set cs : List (Tree × Tree × Rat) :=
      (List.range clients.length).zipWith (fun c p => (f (clientKey use c) p.1, p.1, p.2)) clients with hcs
    have hmapq : (cs.map fun p => (p.1, p.2.2)) = quantClients f use clients := by
      rw [hcs, List.map_zipWith]; rfl
    have hmapx : (cs.map fun p => (p.2.1, p.2.2)) = clients := by
      rw [hcs, List.map_zipWith]
      exact zipWith_snd_eq _ (fun _ _ => rfl) _ _ (by simp)
    have hmem : ∀ p ∈ cs, ∃ c q, q ∈ clients ∧ p = (f (clientKey use c) q.1, q.1, q.2) :=
      fun p hp => mem_zipWith_exists _ _ _ p hp
    have hcsne : cs ≠ [] := by
      intro h; have := congrArg List.length h; simp [hcs] at this; exact hne this
    have hWcs : (cs.map (·.2.2)).sum = (clients.map (·.2)).sum := by
      have := congrArg (fun l => (l.map (·.2)).sum) hmapx
      simpa [List.map_map, Function.comp_def] using this
    have key := treeMean_convex (sh := sh) hcsne
      (by intro p hp; obtain ⟨c, q, hq, rfl⟩ := hmem p hp; exact keep_uniform L hd _ _ (hsh q hq))
      (by intro p hp; obtain ⟨c, q, hq, rfl⟩ := hmem p hp; exact hsh q hq)
      (by intro p hp; obtain ⟨c, q, hq, rfl⟩ := hmem p hp; exact hw q hq)
      (by rw [hWcs]; exact hW) l j E
      (by
        intro p hp
        obtain ⟨c, q, hq, rfl⟩ := hmem p hp
        have hqs := hsh q hq
        have hlt : l < q.1.length := by rw [shape_length hqs]; exact hl
        have hleaf : q.1[l].length = sh[l] := shape_getElem hqs l hlt hl
        have hjl : j < q.1[l].length := by rw [hleaf]; exact hj
        have hdl : (draw (leafKey (clientKey use c) q.1.length l)).length = q.1[l].length := by
          have := hd (clientKey use c) l hl
          simp only [Bool.false_eq_true, if_false] at this
          rw [shape_length hqs, hleaf]; exact this
        have hEq := hE q hq
        rw [List.getElem?_eq_getElem hlt, Option.getD_some] at hEq
        exact le_trans (coord_mapLeaves_uniform_err hL draw _ q.1 l j hlt hjl hdl) hEq)
    obtain ⟨tq, tx, h1, h2, h3⟩ := key
    rw [hmapq] at h1
    rw [hmapx] at h2
    exact ⟨tq, tx, h1, h2, h3⟩

/-! ## C11: unbiasedness as an integral over the idealised uniform draw -/

open MeasureTheory Set in
/-- `∫₀¹ (if u > t then lo else hi) du = hi·t + lo·(1 - t)` for `0 ≤ t ≤ 1`. -/
theorem step_integral (t lo hi : ℝ) (h0 : 0 ≤ t) (h1 : t ≤ 1) :
    ∫ u in (0:ℝ)..1, (if u > t then lo else hi) = hi * t + lo * (1 - t) := by
  have hA : EqOn (fun u : ℝ => if u > t then lo else hi) (fun _ => hi) (uIoc 0 t) := by
    intro u hu
    rw [uIoc_of_le h0] at hu
    simp only [gt_iff_lt, if_neg (not_lt.mpr hu.2)]
  have hB : EqOn (fun u : ℝ => if u > t then lo else hi) (fun _ => lo) (uIoc t 1) := by
    intro u hu
    rw [uIoc_of_le h1] at hu
    simp only [gt_iff_lt, if_pos hu.1]
  have iA : IntervalIntegrable (fun u : ℝ => if u > t then lo else hi) volume 0 t :=
    (intervalIntegrable_congr hA).mpr intervalIntegrable_const
  have iB : IntervalIntegrable (fun u : ℝ => if u > t then lo else hi) volume t 1 :=
    (intervalIntegrable_congr hB).mpr intervalIntegrable_const
  rw [← intervalIntegral.integral_add_adjacent_intervals iA iB,
    intervalIntegral.integral_congr_ae (Filter.Eventually.of_forall hA),
    intervalIntegral.integral_congr_ae (Filter.Eventually.of_forall hB)]
  simp only [intervalIntegral.integral_const, smul_eq_mul]
  ring

open MeasureTheory Set in
/-- the same with the non-strict comparison (the two integrands differ only at `u = t`) -/
theorem step_integral_ge (t lo hi : ℝ) (h0 : 0 ≤ t) (h1 : t ≤ 1) :
    ∫ u in (0:ℝ)..1, (if u ≥ t then lo else hi) = hi * t + lo * (1 - t) := by
  rw [← step_integral t lo hi h0 h1]
  apply intervalIntegral.integral_congr_ae
  have hnull : volume ({t} : Set ℝ) = 0 := Real.volume_singleton
  have : ∀ᵐ u ∂(volume : Measure ℝ), u ≠ t := by
    rw [ae_iff]; simp [hnull]
  filter_upwards [this] with u hu _
  by_cases h : u > t
  · simp [h, le_of_lt h]
  · have : ¬ u ≥ t := fun h' => h (lt_of_le_of_ne h' (Ne.symm hu))
    simp [h, this]

/-- one uniformly quantised coordinate as a function of a *real* draw: the threshold function of
`C11_threshold` (lower level above the fractional grid position, upper level otherwise). -/
noncomputable def uniformCoordR (L : Nat) (mn mx x : Rat) (u : ℝ) : ℝ :=
  if u > ((tOf L mn mx x - (((tOf L mn mx x).floor : Int) : Rat) : Rat) : ℝ) then
    ((levelVal L mn mx (tOf L mn mx x).floor : Rat) : ℝ)
  else ((levelVal L mn mx (tOf L mn mx x).ceil : Rat) : ℝ)

/-- **Unbiasedness.**  For every vector, every coordinate `x` of it and every `L ≥ 2`: the real
function `uniformCoordR` agrees with the model on every rational draw, and its integral over the
idealised uniform draw on `[0,1]` is `x`:  `E_u[uniform_stochastic_quantize(v)ᵢ] = vᵢ`. -/
theorem C11_unbiased {L : Nat} (hL : 2 ≤ L) {v : List Rat} {x : Rat} (hx : x ∈ v) :
    (∀ q : Rat, uniformCoordR L (minL v) (maxL v) x (q : ℝ) = ((uniformCoord L (minL v) (maxL v) q x : Rat) : ℝ)) ∧
    ∫ u in (0:ℝ)..1, uniformCoordR L (minL v) (maxL v) x u = (x : ℝ) := by
  have h0 : minL v ≤ x := minL_le hx
  have h1 : x ≤ maxL v := le_maxL hx
  rcases lt_or_eq_of_le (le_trans h0 h1) with hlt | heq
  · obtain ⟨hf0, hf1, _, _, _, _, hexp⟩ := C11_threshold hL hx hlt 0
    constructor
    · intro q
      rw [uniformCoord_spec hL q hlt h0 h1]
      unfold uniformCoordR
      by_cases hq : q > tOf L (minL v) (maxL v) x - (((tOf L (minL v) (maxL v) x).floor : Int) : Rat)
      · rw [if_pos hq, if_pos (by exact_mod_cast hq)]
      · rw [if_neg hq, if_neg (by exact_mod_cast hq)]
    · unfold uniformCoordR
      rw [step_integral _ _ _ (by exact_mod_cast hf0) (by exact_mod_cast le_of_lt hf1)]
      exact_mod_cast hexp
  · have hxm : x = minL v := by linarith
    have hF : ∀ u : ℝ, uniformCoordR L (minL v) (maxL v) x u = (x : ℝ) := by
      intro u
      unfold uniformCoordR
      rw [← heq]
      have hlv : ∀ j : Int, levelVal L (minL v) (minL v) j = minL v := by intro j; simp [levelVal]
      simp only [hlv, ite_self, hxm]
    constructor
    · intro q
      rw [hF, ← heq, uniformCoord_const, hxm]
    · simp only [hF, intervalIntegral.integral_const, smul_eq_mul]; ring

/-- **Unbiasedness of the binary quantizer and of TernGrad.**  With the (repaired) rule
`u ≥ s ↦ min`, the integral over the uniform draw of a binary-quantised coordinate is the
coordinate; for TernGrad (any `σ ≥ 0`) it is the coordinate clipped at `2.5σ`. -/
theorem C11_unbiased_binary_terngrad {v : List Rat} {x : Rat} (hx : x ∈ v) :
    (∫ u in (0:ℝ)..1, (if u ≥ ((sOf (minL v) (maxL v) x : Rat) : ℝ) then ((minL v : Rat) : ℝ)
        else ((maxL v : Rat) : ℝ)) = (x : ℝ)) ∧
    (∀ q : Rat, (if (q : ℝ) ≥ ((sOf (minL v) (maxL v) x : Rat) : ℝ) then ((minL v : Rat) : ℝ) else ((maxL v : Rat) : ℝ))
        = ((binaryCoord (minL v) (maxL v) q x : Rat) : ℝ)) ∧
    (∀ σ : Rat, 0 ≤ σ →
      let c := clipCoord σ x
      let s := maxL ((v.map (clipCoord σ)).map rabs)
      (∫ u in (0:ℝ)..1, (if u ≥ ((sOf 0 s (rabs c) : Rat) : ℝ) then (((0 : Rat) * sgn c : Rat) : ℝ)
          else ((s * sgn c : Rat) : ℝ)) = (c : ℝ)) ∧
      (∀ q : Rat, (if (q : ℝ) ≥ ((sOf 0 s (rabs c) : Rat) : ℝ) then (((0 : Rat) * sgn c : Rat) : ℝ)
          else ((s * sgn c : Rat) : ℝ)) = ((binaryCoord 0 s q (rabs c) * sgn c : Rat) : ℝ))) := by
  refine ⟨?_, ?_, ?_⟩
  · obtain ⟨_, hs0, hs1, _, _, hexp⟩ := C11_binary hx 0
    rw [step_integral_ge _ _ _ (by exact_mod_cast hs0) (by exact_mod_cast hs1)]
    exact_mod_cast hexp
  · intro q
    rw [binaryCoord_unfold]
    by_cases hq : q ≥ sOf (minL v) (maxL v) x
    · rw [if_pos hq, if_pos (by exact_mod_cast hq)]
    · rw [if_neg hq, if_neg (by exact_mod_cast hq)]
  · intro σ hσ c s
    obtain ⟨_, hcs, _, _, hpos, hzero⟩ := C11_terngrad hσ hx 0
    obtain ⟨hs0', hs1'⟩ := sOf_mem 0 s (rabs c)
    constructor
    · rw [step_integral_ge _ _ _ (by exact_mod_cast hs0') (by exact_mod_cast hs1')]
      have hs0 : 0 ≤ s := le_trans (rabs_nonneg c) hcs
      rcases lt_or_eq_of_le hs0 with hp | hz
      · have hsof : sOf 0 s (rabs c) = rabs c / s := by
          rw [sOf_eq hp (rabs_nonneg c) hcs]; simp
        have := (hpos hp).2.2
        rw [hsof]
        have hcast : ((s * sgn c : Rat) : ℝ) * ((rabs c / s : Rat) : ℝ) + (((0 : Rat) * sgn c : Rat) : ℝ) * (1 - ((rabs c / s : Rat) : ℝ))
            = (((s * sgn c) * (rabs c / s) + 0 * (1 - rabs c / s) : Rat) : ℝ) := by push_cast; ring
        rw [hcast, this]
      · have hc0 : c = 0 := (hzero hz.symm).2
        have hsg : sgn c = 0 := by rw [hc0]; exact sgn_zero
        rw [hsg, hc0]; simp
    · intro q
      rw [binaryCoord_unfold]
      by_cases hq : q ≥ sOf 0 s (rabs c)
      · rw [if_pos hq, if_pos (by exact_mod_cast hq)]
      · rw [if_neg hq, if_neg (by exact_mod_cast hq)]

/-! ## admissible values: what the correspondence check compares (no draws involved) -/

theorem admCoord_eq {L : Nat} {mn mx x : Rat} (hne : mx ≠ mn) :
    admCoord L mn mx x =
      (levelVal L mn mx (tOf L mn mx x).floor, levelVal L mn mx (tOf L mn mx x).ceil) := by
  unfold admCoord levelVal tOf
  rw [if_neg hne]

/-- **Admissible outputs.**  Whatever the draws are, every coordinate of the uniform, binary and
TernGrad quantizers is one of the two values listed by `admUniform` / `admBinary` / `admTern`
(these lists do not depend on the draws: they are what the harness compares the real outputs with,
so the comparison does not depend on how an implementation turns its random stream into up/down
decisions). -/
theorem C11_admissible {L : Nat} (hL : 2 ≤ L) (σ : Rat) {v : List Rat} {x : Rat}
    (hx : x ∈ v) (u : Rat) :
    (uniformCoord L (minL v) (maxL v) u x = (admCoord L (minL v) (maxL v) x).1 ∨
      uniformCoord L (minL v) (maxL v) u x = (admCoord L (minL v) (maxL v) x).2) ∧
    (binaryCoord (minL v) (maxL v) u x = minL v ∨ binaryCoord (minL v) (maxL v) u x = maxL v) ∧
    (binaryCoord 0 (maxL ((v.map (clipCoord σ)).map rabs)) u (rabs (clipCoord σ x)) * sgn (clipCoord σ x) = 0 ∨
      binaryCoord 0 (maxL ((v.map (clipCoord σ)).map rabs)) u (rabs (clipCoord σ x)) * sgn (clipCoord σ x) =
        maxL ((v.map (clipCoord σ)).map rabs) * sgn (clipCoord σ x)) := by
  refine ⟨?_, (C11_binary hx u).1, ?_⟩
  · by_cases hne : maxL v = minL v
    · have : admCoord L (minL v) (maxL v) x = (minL v, minL v) := by unfold admCoord; rw [if_pos hne]
      rw [this, hne, uniformCoord_const]; simp
    · rw [admCoord_eq hne]
      exact (C11_neighbours hL hx u).1
  · rw [binaryCoord_unfold]
    split_ifs <;> simp

theorem admUniform_getElem (L : Nat) (v : List Rat) (i : Nat) (h : i < (admUniform L v).length)
    (hv : i < v.length) : (admUniform L v)[i] = admCoord L (minL v) (maxL v) v[i] := by
  simp [admUniform]

/-! ## the two repairs change nothing else -/

/-- the source before the repair, with the division Option-valued (`none` = the float `0/0 = NaN`) -/
def driveUnrepaired (v : List Rat) : Option (List Rat) :=
  if (v.map rabs).sum = 0 then none
  else some (v.map fun x => (v.map fun y => y * y).sum * sgn x / (v.map rabs).sum)

/-- **Why DRIVE was repaired, and that the repair is conservative.**  On an all-zero leaf the
original formula is `0/0` (NaN in floats; replayed on the real code by the harness); on every other
leaf the repaired `drive` computes exactly the original formula. -/
theorem C11_counterexample_drive_zero_leaf :
    driveUnrepaired [0, 0, 0, 0] = none ∧
    ∀ v : List Rat, (∃ x ∈ v, x ≠ 0) → driveUnrepaired v = some (drive v) := by
  constructor
  · simp [driveUnrepaired, rabs]
  · rintro v ⟨x, hx, hne⟩
    have hpos : 0 < (v.map rabs).sum := lt_of_lt_of_le (rabs_pos hne) (rabs_le_sum hx)
    unfold driveUnrepaired drive
    rw [if_neg (ne_of_gt hpos)]
    congr 1
    apply List.map_congr_left
    intro y _
    rw [guardDiv_of_ne (ne_of_gt hpos)]

/-- the repaired binary comparison differs from the original only on the tie `u = s` -/
theorem C11_repair_binary_conservative (mn mx u x : Rat) (h : u ≠ sOf mn mx x) :
    binaryCoord mn mx u x = binaryCoordUnrepaired mn mx u x := by
  rw [binaryCoord_unfold]; unfold binaryCoordUnrepaired
  by_cases h1 : u > sOf mn mx x
  · rw [if_pos h1, if_pos (le_of_lt h1)]
  · rw [if_neg h1, if_neg]
    intro h2; exact h1 (lt_of_le_of_ne h2 (Ne.symm h))

/-! ## non-vacuity: the hypotheses are met by concrete non-trivial instances -/

-- a non-constant vector, an interior coordinate, L = 4 (grid 0, 5/3, 10/3, 5; x = 1 lies between)
example : (1 : Rat) ∈ [0, 1, 2, 5] ∧ minL [0, 1, 2, 5] < maxL [0, 1, 2, 5] := by
  norm_num [minL, maxL, rmin, rmax]
example := C11_neighbours (L := 4) (by norm_num) (v := [0, 1, 2, 5]) (x := 1) (by simp) (1 / 8)
example := C11_threshold (L := 4) (by norm_num) (v := [0, 1, 2, 5]) (x := 1) (by simp)
  (by norm_num [minL, maxL, rmin, rmax]) (7 / 8)
example := C11_unbiased (L := 4) (by norm_num) (v := [0, 1, 2, 5]) (x := 1) (by simp)
example := C11_binary (v := [0, 1, 2, 5]) (x := 2) (by simp) (1 / 2)
example := C11_unbiased_binary_terngrad (v := [0, 1, 2, 5]) (x := 2) (by simp)
-- the model really moves an off-grid coordinate to a neighbouring level, depending on the draw
example : uniformQ 4 [1/8, 7/8, 1/2, 1/2] [0, 1, 2, 5] = [0, 0, 5/3, 5] := by decide +kernel
example : uniformQ 4 [1/8, 1/2, 1/2, 1/2] [0, 1, 2, 5] = [0, 5/3, 5/3, 5] := by decide +kernel
-- an on-grid, non-constant vector (levels 0, 2, 4 of the 3-level grid on [0, 4])
example : ∀ x ∈ ([0, 2, 2, 4] : List Rat), ∃ j : Int, x = levelVal 3 (minL [0, 2, 2, 4]) (maxL [0, 2, 2, 4]) j := by
  have hmn : minL [0, 2, 2, 4] = 0 := by norm_num [minL, rmin]
  have hmx : maxL [0, 2, 2, 4] = 4 := by norm_num [maxL, rmax]
  intro x hx
  simp only [List.mem_cons, List.not_mem_nil, or_false] at hx
  rw [hmn, hmx]
  rcases hx with rfl | rfl | rfl | rfl
  · exact ⟨0, by norm_num [levelVal]⟩
  · exact ⟨1, by norm_num [levelVal]⟩
  · exact ⟨1, by norm_num [levelVal]⟩
  · exact ⟨2, by norm_num [levelVal]⟩
example : uniformQ 3 [1/8, 7/8, 0, 1/2] [0, 2, 2, 4] = [0, 2, 2, 4] := by decide +kernel
-- binary fixed points: draws in [0,1) including the exact 0 that broke the unrepaired code
example : binaryQ [0, 0, 1/2] [0, 2, 2] = [0, 2, 2] := by decide +kernel
example : (∀ u ∈ ([0, 0, 1/2] : List Rat), 0 ≤ u ∧ u < 1) ∧
    ∀ x ∈ ([0, 2, 2] : List Rat), x = minL [0, 2, 2] ∨ x = maxL [0, 2, 2] := by
  have hmn : minL [0, 2, 2] = 0 := by norm_num [minL, rmin]
  have hmx : maxL [0, 2, 2] = 2 := by norm_num [maxL, rmax]
  constructor
  · intro u hu
    simp only [List.mem_cons, List.not_mem_nil, or_false] at hu
    rcases hu with rfl | rfl | rfl <;> norm_num
  · intro x hx
    simp only [List.mem_cons, List.not_mem_nil, or_false] at hx
    rw [hmn, hmx]
    rcases hx with rfl | rfl | rfl <;> simp
example := C11_admissible (L := 4) (by norm_num) 2 (v := [0, 1, 2, 5]) (x := 1) (by simp) (1 / 8)
example : admUniform 4 [0, 1, 2, 5] = [(0, 0), (0, 5/3), (5/3, 10/3), (5, 5)] := by decide +kernel
example : admTern 2 [0, -1, 2, 9] = [(0, 0), (0, -5), (0, 5), (0, 5)] := by decide +kernel
-- TernGrad with σ = 2 on [0,1,2,9]: 9 is clipped to 5, levels {0, ±5}
example := C11_terngrad (σ := 2) (by norm_num) (v := [0, 1, 2, 9]) (x := 9) (by simp) (1 / 4)
example : ternQ 2 [1/4, 1/4, 3/4, 3/4] [0, -1, 2, 9] = [0, 0, 0, 5] := by decide +kernel
example : ternQ 2 [1/4, 1/10, 3/4, 3/4] [0, -1, 2, 9] = [0, -5, 0, 5] := by decide +kernel
-- DRIVE on a non-zero and on a zero leaf
example : drive [0, 1, 2, 5] = [0, 15/4, 15/4, 15/4] ∧ drive [0, 0] = [0, 0] := by decide +kernel
example : ∃ x ∈ ([0, 1, 2, 5] : List Rat), x ≠ 0 := ⟨1, by simp, by norm_num⟩
example := (C11_scale (c := 3) (by norm_num) 4 [1/8, 7/8, 1/2, 1/2] [0, 1, 2, 5])
-- keys: two different (round, client, leaf) triples get different, prefix-free paths
example : drawKey [] 2 1 0 1 ≠ drawKey [] 2 0 1 1 ∧ drawKey [] 2 1 0 1 = [(2,0), (2,1), (2,1), (2,1)] := by decide
example : rotDrawKey [] 1 0 0 0 = [(2,0), (2,1), (2,1), (1,0)] ∧ rotSignKey [] 1 0 0 = [(2,1), (1,0)] := by decide
-- bits / aggregate: a concrete two-client, two-leaf round satisfying the hypotheses
example : let clients : List (Tree × Rat) := [([[0, 1, 2, 5], [1, 1]], 2), ([[0, 2, 4, 10], [3, 0]], 1)]
    clients ≠ [] ∧ (∀ p ∈ clients, shape p.1 = [4, 2]) ∧ (∀ p ∈ clients, 0 ≤ p.2) ∧
      0 < (clients.map (·.2)).sum := by
  refine ⟨by simp, ?_, ?_, by norm_num⟩
  · intro p hp; simp only [List.mem_cons, List.not_mem_nil, or_false] at hp
    rcases hp with rfl | rfl <;> rfl
  · intro p hp; simp only [List.mem_cons, List.not_mem_nil, or_false] at hp
    rcases hp with rfl | rfl <;> norm_num
example : DrawsFit (fun k => match k.getLast? with | some (_, 0) => [1/8, 7/8, 1/2, 1/2] | _ => [1/4, 3/4])
    [4, 2] false := by
  intro key l h
  have : l = 0 ∨ l = 1 := by simp at h; omega
  rcases this with rfl | rfl <;> simp [leafKey]
example :
    (uniformRound 4 (fun k => match k.getLast? with | some (_, 0) => [1/8, 7/8, 1/2, 1/2] | _ => [1/4, 3/4])
      (initState []) [([[0, 1, 2, 5], [1, 1]], 2), ([[0, 2, 4, 10], [3, 0]], 1)]) =
    (some [[0, 0, 20/9, 20/3], [5/3, 2/3]], ⟨6, 128, [(2, 0)]⟩) := by decide +kernel

end FedjaxVerif.Quantize
