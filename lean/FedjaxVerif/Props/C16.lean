import FedjaxVerif.Model.Serialize

/-!
# C16 — serialization round-trips every supported value exactly

Property theorems about `Model/Serialize.lean` (the model of `msgpack_serialize` /
`msgpack_deserialize` with their ext-type hooks, and of the SQLite builder/reader).
All statements quantify over every tree (any nesting depth), every shape, every supported dtype,
both byte orders, every item content.
-/

namespace FedjaxVerif.Serialize

/-! ## helper lemmas: dtype names -/

theorem ofName_name_numeric (d : DType) (h : d.numeric = true) : DType.ofName d.name = some d := by
  cases d <;> first | rfl | (simp [DType.numeric] at h)

macro "lit_ne" : tactic =>
  `(tactic| (intro h; have h' := congrArg String.toList h; simp at h'))

theorem ofName_str (b : Nat) : DType.ofName ("str" ++ toString b) = none := by
  unfold DType.ofName
  iterate 17 rw [if_neg (by lit_ne)]

theorem ofName_bytes (b : Nat) : DType.ofName ("bytes" ++ toString b) = none := by
  unfold DType.ofName
  iterate 17 rw [if_neg (by lit_ne)]

theorem ofName_void (b : Nat) : DType.ofName ("void" ++ toString b) = none := by
  unfold DType.ofName
  iterate 17 rw [if_neg (by lit_ne)]

theorem ofName_name_flex (d : DType) (h : d.numeric = false) : DType.ofName d.name = none := by
  cases d <;> simp [DType.numeric] at h
  · exact ofName_str _
  · exact ofName_bytes _
  · exact ofName_void _

theorem itemsize_pos (d : DType) (h : d.numeric = true) : 0 < d.itemsize := by
  cases d <;> simp [DType.numeric] at h <;> simp [DType.itemsize]

/-! ## helper lemmas: items ↔ buffer -/

theorem length_flatten_const (k : Nat) (items : List Bytes) (h : ∀ it ∈ items, it.length = k) :
    items.flatten.length = items.length * k := by
  induction items with
  | nil => simp
  | cons x xs ih =>
    have hx := h x (by simp)
    have := ih (fun it hit => h it (by simp [hit]))
    simp [List.flatten_cons, List.length_append, hx, this, Nat.succ_mul, Nat.add_comm]

theorem chunkGo_flatten (k : Nat) (items : List Bytes) (h : ∀ it ∈ items, it.length = k) :
    chunkGo k items.length items.flatten = items := by
  induction items with
  | nil => simp [chunkGo]
  | cons x xs ih =>
    have hx := h x (by simp)
    have := ih (fun it hit => h it (by simp [hit]))
    simp only [List.length_cons, List.flatten_cons, chunkGo]
    rw [List.take_left' hx, List.drop_left' hx, this]

theorem chunks_flatten (k : Nat) (hk : 0 < k) (items : List Bytes)
    (h : ∀ it ∈ items, it.length = k) : chunks k items.flatten = some items := by
  unfold chunks
  have hl := length_flatten_const k items h
  have h1 : ¬ (k = 0 ∨ items.flatten.length % k ≠ 0) := by
    rw [hl]; simp [Nat.mul_mod_left]; omega
  rw [if_neg h1, hl, Nat.mul_div_cancel _ hk, chunkGo_flatten k items h]

theorem mapO_shape (sh : List Nat) :
    mapO toNat? (sh.map fun (n : Nat) => MVal.int (n : Int)) = some sh := by
  induction sh with
  | nil => rfl
  | cons n ns ih => simp [mapO, toNat?, ih]

theorem swapItem_length (dt : DType) (b : Bytes) : (swapItem dt b).length = b.length := by
  unfold swapItem
  split
  · simp; omega
  · simp

theorem nativeElems_length (a : Nd) : a.nativeElems.length = a.elems.length := by
  unfold Nd.nativeElems; split <;> simp

theorem nativeElems_item (a : Nd) (k : Nat) (h : ∀ it ∈ a.elems, it.length = k) :
    ∀ it ∈ a.nativeElems, it.length = k := by
  unfold Nd.nativeElems
  split
  · intro it hit
    simp only [List.mem_map] at hit
    obtain ⟨x, hx, rfl⟩ := hit
    rw [swapItem_length]; exact h x hx
  · exact h

theorem wf_items (a : Nd) (h : a.wf = true) :
    a.elems.length = prod a.shape ∧ ∀ it ∈ a.elems, it.length = a.dtype.itemsize := by
  simp [Nd.wf, List.all_eq_true] at h
  exact h

/-- `_ndarray_from_bytes (_ndarray_to_bytes a)` is `a` in native byte order. -/
theorem nd_roundtrip (a : Nd) (hw : a.wf = true) (hn : a.dtype.numeric = true) :
    ∃ m, ndarrayToBytes .repaired a = .ok m ∧ ndarrayFromBytes m = .ok a.toNative := by
  obtain ⟨hlen, hit⟩ := wf_items a hw
  refine ⟨.arr [.arr (a.shape.map fun (n : Nat) => .int (n : Int)), .str a.dtype.name,
                .bin (tobytes .repaired a)], ?_, ?_⟩
  · unfold ndarrayToBytes
    cases hd : a.dtype <;> simp [hd, DType.numeric] at hn ⊢
  · simp only [ndarrayFromBytes, mapO_shape, ofName_name_numeric _ hn, tobytes, Variant.repaired,
      if_true]
    rw [chunks_flatten _ (itemsize_pos _ hn) _ (nativeElems_item a _ hit)]
    simp [nativeElems_length, hlen, Nd.toNative]

/-- arrays of a non-numeric dtype are rejected: at encode (aligned struct) or at decode (name not understood). -/
theorem nd_reject (a : Nd) (hn : a.dtype.numeric = false) :
    (∃ e, ndarrayToBytes .repaired a = .error e) ∨
    (∃ m, ndarrayToBytes .repaired a = .ok m ∧ ∃ e, ndarrayFromBytes m = .error e) := by
  have hnone := ofName_name_flex _ hn
  unfold ndarrayToBytes
  cases hd : a.dtype <;> simp [hd, DType.numeric] at hn
  · right; refine ⟨_, rfl, .typeError, ?_⟩
    simp [ndarrayFromBytes, mapO_shape, hd ▸ hnone]
  · right; refine ⟨_, rfl, .typeError, ?_⟩
    simp [ndarrayFromBytes, mapO_shape, hd ▸ hnone]
  · rename_i bits al
    cases al
    · right; refine ⟨_, rfl, .typeError, ?_⟩
      simp [ndarrayFromBytes, mapO_shape, hd ▸ hnone]
    · left; exact ⟨_, rfl⟩

/-! ## helper lemmas: object arrays -/

theorem objarr_roundtrip (flat : List PyVal) (h : flat.all PyVal.isBytes = true) :
    ∃ ms, mapE packPlain flat = .ok ms ∧ mapE rawElem ms = .ok flat := by
  induction flat with
  | nil => exact ⟨[], rfl, rfl⟩
  | cons x xs ih =>
    simp only [List.all_cons, Bool.and_eq_true] at h
    obtain ⟨ms, h1, h2⟩ := ih h.2
    cases x <;> simp [PyVal.isBytes] at h
    rename_i b
    exact ⟨.bin b :: ms, by simp [mapE, packPlain, h1], by simp [mapE, rawElem, h2]⟩

/-! ## the round trip, by structural induction on trees -/

def IsErr {α} (r : Except Err α) : Prop := ∃ e, r = .error e

def rtList (v : Variant) (l : List PyVal) : Except Err (List PyVal) :=
  match encodeList v l with
  | .error e => .error e
  | .ok ms => decodeList ms

def rtKVs (v : Variant) (l : List (PyVal × PyVal)) : Except Err (List (PyVal × PyVal)) :=
  match encodeKVs v l with
  | .error e => .error e
  | .ok ms => decodeKVs ms

theorem rt_ok_iff (v : Variant) (x y : PyVal) :
    roundtrip v x = .ok y ↔ ∃ m, encode v x = .ok m ∧ decode m = .ok y := by
  unfold roundtrip
  cases h : encode v x <;> simp

theorem rt_err_iff (v : Variant) (x : PyVal) :
    IsErr (roundtrip v x) ↔ IsErr (encode v x) ∨ ∃ m, encode v x = .ok m ∧ IsErr (decode m) := by
  unfold roundtrip IsErr
  cases h : encode v x <;> simp

theorem rtList_ok_cons (v : Variant) (x y : PyVal) (xs ys : List PyVal)
    (hx : roundtrip v x = .ok y) (hxs : rtList v xs = .ok ys) : rtList v (x :: xs) = .ok (y :: ys) := by
  obtain ⟨m, h1, h2⟩ := (rt_ok_iff v x y).mp hx
  unfold rtList at hxs ⊢
  cases h3 : encodeList v xs with
  | error e => simp [h3] at hxs
  | ok ms =>
    simp only [h3] at hxs
    simp [encodeList, h1, h3, decodeList, h2, hxs]

theorem rtList_err_head (v : Variant) (x : PyVal) (xs : List PyVal)
    (hx : IsErr (roundtrip v x)) : IsErr (rtList v (x :: xs)) := by
  unfold rtList
  rcases (rt_err_iff v x).mp hx with ⟨e, he⟩ | ⟨m, hm, e, he⟩
  · exact ⟨e, by simp [encodeList, he]⟩
  · cases h3 : encodeList v xs with
    | error e' => exact ⟨e', by simp [encodeList, hm, h3]⟩
    | ok ms => exact ⟨e, by simp [encodeList, hm, h3, decodeList, he]⟩

theorem rtList_err_tail (v : Variant) (x : PyVal) (xs : List PyVal)
    (hxs : IsErr (rtList v xs)) : IsErr (rtList v (x :: xs)) := by
  unfold rtList at hxs ⊢
  cases h1 : encode v x with
  | error e => exact ⟨e, by simp [encodeList, h1]⟩
  | ok m =>
    cases h3 : encodeList v xs with
    | error e' => exact ⟨e', by simp [encodeList, h1, h3]⟩
    | ok ms =>
      obtain ⟨e, he⟩ := hxs
      simp only [h3] at he
      cases h2 : decode m with
      | error e' => exact ⟨e', by simp [encodeList, h1, h3, decodeList, h2]⟩
      | ok y => exact ⟨e, by simp [encodeList, h1, h3, decodeList, h2, he]⟩

theorem rtKVs_ok_cons (v : Variant) (k k' x y : PyVal) (r r' : List (PyVal × PyVal))
    (hk : roundtrip v k = .ok k') (hkey : k'.isKey = true) (hx : roundtrip v x = .ok y)
    (hr : rtKVs v r = .ok r') : rtKVs v ((k, x) :: r) = .ok ((k', y) :: r') := by
  obtain ⟨mk, h1, h2⟩ := (rt_ok_iff v k k').mp hk
  obtain ⟨mx, h3, h4⟩ := (rt_ok_iff v x y).mp hx
  unfold rtKVs at hr ⊢
  cases h5 : encodeKVs v r with
  | error e => simp [h5] at hr
  | ok ms =>
    simp only [h5] at hr
    simp [encodeKVs, h1, h3, h5, decodeKVs, h2, h4, hkey, hr]

/-- any failure inside one entry (key, value, key type) or in the rest fails the whole map -/
theorem rtKVs_err (v : Variant) (k x : PyVal) (r : List (PyVal × PyVal))
    (h : IsErr (roundtrip v k) ∨ IsErr (roundtrip v x) ∨ IsErr (rtKVs v r) ∨
         ∃ k', roundtrip v k = .ok k' ∧ k'.isKey = false) : IsErr (rtKVs v ((k, x) :: r)) := by
  unfold rtKVs
  cases h1 : encode v k with
  | error e => exact ⟨e, by simp [encodeKVs, h1]⟩
  | ok mk =>
  cases h2 : encode v x with
  | error e => exact ⟨e, by simp [encodeKVs, h1, h2]⟩
  | ok mx =>
  cases h3 : encodeKVs v r with
  | error e => exact ⟨e, by simp [encodeKVs, h1, h2, h3]⟩
  | ok ms =>
  cases h4 : decode mk with
  | error e => exact ⟨e, by simp [encodeKVs, h1, h2, h3, decodeKVs, h4]⟩
  | ok k' =>
  cases h5 : decode mx with
  | error e => exact ⟨e, by simp [encodeKVs, h1, h2, h3, decodeKVs, h4, h5]⟩
  | ok y =>
  cases h6 : k'.isKey with
  | false => exact ⟨.valueError, by simp [encodeKVs, h1, h2, h3, decodeKVs, h4, h5, h6]⟩
  | true =>
  cases h7 : decodeKVs ms with
  | error e => exact ⟨e, by simp [encodeKVs, h1, h2, h3, decodeKVs, h4, h5, h6, h7]⟩
  | ok vs =>
    exfalso
    rcases h with ⟨e, he⟩ | ⟨e, he⟩ | ⟨e, he⟩ | ⟨k'', hk, hkey⟩
    · simp [roundtrip, h1, h4] at he
    · simp [roundtrip, h2, h5] at he
    · simp [rtKVs, h3, h7] at he
    · simp [roundtrip, h1, h4] at hk
      subst hk; simp [h6] at hkey

theorem native_isKey (k : PyVal) : (native k).isKey = k.isKey := by
  cases k <;> simp [native, PyVal.isKey]

theorem isKey_supported (k : PyVal) (h : k.isKey = true) : supported k = true ∧ native k = k := by
  cases k <;> simp [PyVal.isKey] at h <;> simp [supported, native]

/-- The combined statement proved by structural induction: a well-formed tree either is supported and
round-trips to its native-order self, or is unsupported and is rejected. -/
def Good (x : PyVal) : Prop :=
  (supported x = true → roundtrip .repaired x = .ok (native x)) ∧
  (supported x = false → IsErr (roundtrip .repaired x))

def GoodList (l : List PyVal) : Prop :=
  (supportedList l = true → rtList .repaired l = .ok (nativeList l)) ∧
  (supportedList l = false → IsErr (rtList .repaired l))

def GoodKVs (l : List (PyVal × PyVal)) : Prop :=
  (supportedKVs l = true → rtKVs .repaired l = .ok (nativeKVs l)) ∧
  (supportedKVs l = false → IsErr (rtKVs .repaired l))

theorem rt_list (l : List PyVal) :
    roundtrip .repaired (.list l) =
      match rtList .repaired l with
      | .ok vs => .ok (.list vs)
      | .error e => .error e := by
  unfold roundtrip rtList
  cases h : encodeList .repaired l with
  | error e => simp [encode, h]
  | ok ms => cases h2 : decodeList ms <;> simp [encode, h, decode, h2]

theorem rt_dict (l : List (PyVal × PyVal)) :
    roundtrip .repaired (.dict l) =
      match rtKVs .repaired l with
      | .ok vs => .ok (.dict vs)
      | .error e => .error e := by
  unfold roundtrip rtKVs
  cases h : encodeKVs .repaired l with
  | error e => simp [encode, h]
  | ok ms => cases h2 : decodeKVs ms <;> simp [encode, h, decode, h2]

mutual
theorem good (x : PyVal) (hw : wf x = true) : Good x := by
  match x, hw with
  | .none, _ => exact ⟨fun _ => rfl, fun h => by simp [supported] at h⟩
  | .bool _, _ => exact ⟨fun _ => rfl, fun h => by simp [supported] at h⟩
  | .float _, _ => exact ⟨fun _ => rfl, fun h => by simp [supported] at h⟩
  | .str _, _ => exact ⟨fun _ => rfl, fun h => by simp [supported] at h⟩
  | .bytes _, _ => exact ⟨fun _ => rfl, fun h => by simp [supported] at h⟩
  | .complex _ _, _ =>
    exact ⟨fun _ => by simp [roundtrip, encode, decode, extUnpack, native],
           fun h => by simp [supported] at h⟩
  | .int i, _ =>
    refine ⟨fun h => ?_, fun h => ?_⟩
    · simp only [supported] at h
      simp [roundtrip, encode, h, decode, native]
    · simp only [supported] at h
      exact ⟨.overflowError, by simp [roundtrip, encode, h]⟩
  | .ndarray a, hw =>
    simp only [wf] at hw
    refine ⟨fun h => ?_, fun h => ?_⟩
    · simp only [supported] at h
      obtain ⟨m, h1, h2⟩ := nd_roundtrip a hw h
      simp [roundtrip, encode, h1, decode, extUnpack, h2, native]
    · simp only [supported] at h
      rcases nd_reject a h with ⟨e, he⟩ | ⟨m, hm, e, he⟩
      · exact ⟨e, by simp [roundtrip, encode, he]⟩
      · exact ⟨e, by simp [roundtrip, encode, hm, decode, extUnpack, he]⟩
  | .npscalar dt item, hw =>
    simp only [wf, decide_eq_true_eq] at hw
    refine ⟨fun h => ?_, fun h => ?_⟩
    · simp only [supported] at h
      have hwf : (⟨[], dt, false, [item]⟩ : Nd).wf = true := by simp [Nd.wf, prod, hw]
      obtain ⟨m, h1, h2⟩ := nd_roundtrip ⟨[], dt, false, [item]⟩ hwf h
      simp [roundtrip, encode, h1, decode, extUnpack, h2, native, Nd.toNative, Nd.nativeElems]
    · simp only [supported] at h
      rcases nd_reject ⟨[], dt, false, [item]⟩ h with ⟨e, he⟩ | ⟨m, hm, e, he⟩
      · exact ⟨e, by simp [roundtrip, encode, he]⟩
      · exact ⟨e, by simp [roundtrip, encode, hm, decode, extUnpack, he]⟩
  | .objarr shape elems, hw =>
    simp only [wf, decide_eq_true_eq] at hw
    refine ⟨fun h => ?_, fun h => ?_⟩
    · simp only [supported] at h
      obtain ⟨ms, h1, h2⟩ := objarr_roundtrip elems h
      simp [roundtrip, encode, bytesNdarrayToBytes, Variant.repaired, h, h1, decode, extUnpack,
        objectNdarrayFromBytes, mapO_shape, h2, hw, native]
    · simp only [supported] at h
      exact ⟨.valueError, by simp [roundtrip, encode, bytesNdarrayToBytes, Variant.repaired, h]⟩
  | .tuple _, _ => exact ⟨fun h => by simp [supported] at h, fun _ => ⟨.typeError, rfl⟩⟩
  | .other, _ => exact ⟨fun h => by simp [supported] at h, fun _ => ⟨.typeError, rfl⟩⟩
  | .extType _ _, hw => simp [wf] at hw
  | .list l, hw =>
    simp only [wf] at hw
    have ih := goodList l hw
    refine ⟨fun h => ?_, fun h => ?_⟩
    · simp only [supported] at h
      rw [rt_list, ih.1 h]; simp [native]
    · simp only [supported] at h
      obtain ⟨e, he⟩ := ih.2 h
      exact ⟨e, by rw [rt_list, he]⟩
  | .dict l, hw =>
    simp only [wf] at hw
    have ih := goodKVs l hw
    refine ⟨fun h => ?_, fun h => ?_⟩
    · simp only [supported] at h
      rw [rt_dict, ih.1 h]; simp [native]
    · simp only [supported] at h
      obtain ⟨e, he⟩ := ih.2 h
      exact ⟨e, by rw [rt_dict, he]⟩

theorem goodList (l : List PyVal) (hw : wfList l = true) : GoodList l := by
  match l, hw with
  | [], _ => exact ⟨fun _ => rfl, fun h => by simp [supportedList] at h⟩
  | x :: xs, hw =>
    simp only [wfList, Bool.and_eq_true] at hw
    have ihx := good x hw.1
    have ihxs := goodList xs hw.2
    refine ⟨fun h => ?_, fun h => ?_⟩
    · simp only [supportedList, Bool.and_eq_true] at h
      simpa [nativeList] using rtList_ok_cons _ _ _ _ _ (ihx.1 h.1) (ihxs.1 h.2)
    · simp only [supportedList, Bool.and_eq_false_iff] at h
      rcases h with h | h
      · exact rtList_err_head _ _ _ (ihx.2 h)
      · exact rtList_err_tail _ _ _ (ihxs.2 h)

theorem goodKVs (l : List (PyVal × PyVal)) (hw : wfKVs l = true) : GoodKVs l := by
  match l, hw with
  | [], _ => exact ⟨fun _ => rfl, fun h => by simp [supportedKVs] at h⟩
  | (k, x) :: r, hw =>
    simp only [wfKVs, Bool.and_eq_true] at hw
    have ihk := good k hw.1.1
    have ihx := good x hw.1.2
    have ihr := goodKVs r hw.2
    refine ⟨fun h => ?_, fun h => ?_⟩
    · simp only [supportedKVs, Bool.and_eq_true] at h
      obtain ⟨hs, hn⟩ := isKey_supported k h.1.1
      have hk := ihk.1 hs
      rw [hn] at hk
      simpa [nativeKVs] using rtKVs_ok_cons _ _ _ _ _ _ _ hk h.1.1 (ihx.1 h.1.2) (ihr.1 h.2)
    · simp only [supportedKVs, Bool.and_eq_false_iff] at h
      apply rtKVs_err
      rcases h with (h | h) | h
      · cases hs : supported k with
        | false => exact Or.inl (ihk.2 hs)
        | true =>
          exact Or.inr (Or.inr (Or.inr ⟨native k, ihk.1 hs, by rw [native_isKey]; exact h⟩))
      · exact Or.inr (Or.inl (ihx.2 h))
      · exact Or.inr (Or.inr (Or.inl (ihr.2 h)))
end

/-! ## property theorems: msgpack round trip -/

/-- **Round trip.** Every supported tree (any nesting of lists and str/bytes-keyed dicts over
numeric/bool arrays of any shape and byte order, bytes-object arrays, numpy scalars, Python scalars)
deserialises to itself, arrays being returned in native byte order. -/
theorem C16_roundtrip (t : PyVal) (hw : wf t = true) (hs : supported t = true) :
    roundtrip .repaired t = .ok (native t) := (good t hw).1 hs

/-- **Rejection.** A tree containing, at any depth, a tuple, a fixed-width str/bytes array, a
structured/void dtype, an object array with a non-bytes element, an out-of-range int, a non-str/bytes
dict key or any other object is rejected with an error by `msgpack_serialize` or by
`msgpack_deserialize`. -/
theorem C16_reject (t : PyVal) (hw : wf t = true) (hs : supported t = false) :
    ∃ e, roundtrip .repaired t = .error e := (good t hw).2 hs

/-- **Never silently altered.** Whenever the round trip returns a value at all, the input was
supported and the value is the input (in native byte order). -/
theorem C16_never_altered (t v : PyVal) (hw : wf t = true) (h : roundtrip .repaired t = .ok v) :
    supported t = true ∧ v = native t := by
  cases hs : supported t with
  | true =>
    have := C16_roundtrip t hw hs
    rw [this] at h
    exact ⟨rfl, (Except.ok.inj h).symm⟩
  | false =>
    obtain ⟨e, he⟩ := C16_reject t hw hs
    rw [he] at h; cases h

/-- The stage is visible too: a supported tree is accepted by `msgpack_serialize`. -/
theorem C16_encode_ok (t : PyVal) (hw : wf t = true) (hs : supported t = true) :
    ∃ m, encode .repaired t = .ok m ∧ decode m = .ok (native t) :=
  (rt_ok_iff _ _ _).mp (C16_roundtrip t hw hs)

/-- dtype naming: `np.dtype(d.name)` gives `d` back exactly for the numeric/bool dtypes and is
"not understood" for every fixed-width str/bytes/void dtype, whatever its width. -/
theorem C16_dtype_name (d : DType) :
    (d.numeric = true → DType.ofName d.name = some d) ∧
    (d.numeric = false → DType.ofName d.name = none) :=
  ⟨ofName_name_numeric d, ofName_name_flex d⟩

/-- Leaf-level form of the rejection clause, with the exception class the code raises. -/
theorem C16_reject_kinds :
    (∀ l, roundtrip .repaired (.tuple l) = .error .typeError) ∧
    (∀ a : Nd, (∃ b, a.dtype = .strN b) ∨ (∃ b, a.dtype = .bytesN b) ∨ (∃ b, a.dtype = .voidN b false) →
        roundtrip .repaired (.ndarray a) = .error .typeError) ∧
    (∀ a : Nd, (∃ b, a.dtype = .voidN b true) → roundtrip .repaired (.ndarray a) = .error .valueError) ∧
    (∀ shape elems, elems.all PyVal.isBytes = false →
        roundtrip .repaired (.objarr shape elems) = .error .valueError) ∧
    (∀ l, l ≠ [] → roundtrip .repaired (.list [.tuple l]) = .error .typeError) := by
  refine ⟨fun _ => rfl, ?_, ?_, ?_, fun _ _ => rfl⟩
  · intro a h
    have hnone : DType.ofName a.dtype.name = none :=
      ofName_name_flex _ (by rcases h with ⟨b, hb⟩ | ⟨b, hb⟩ | ⟨b, hb⟩ <;> rw [hb] <;> rfl)
    rcases h with ⟨b, hb⟩ | ⟨b, hb⟩ | ⟨b, hb⟩ <;>
      simp [roundtrip, encode, ndarrayToBytes, hb, decode, extUnpack, ndarrayFromBytes, mapO_shape,
        hb ▸ hnone]
  · intro a ⟨b, hb⟩
    simp [roundtrip, encode, ndarrayToBytes, hb]
  · intro shape elems h
    simp [roundtrip, encode, bytesNdarrayToBytes, Variant.repaired, h]

/-! ## property theorems: byte order and values -/

theorem itemValue_swap (dt : DType) (it : Bytes) (h : it.length = dt.itemsize) :
    itemValue dt false (swapItem dt it) = itemValue dt true it := by
  unfold itemValue swapItem
  cases hc : dt.isComplex
  · simp
  · have h1 : ((it.take (dt.itemsize / 2)).reverse).length = dt.itemsize / 2 := by
      simp [List.length_take]; omega
    simp only [if_true, Bool.false_eq_true, if_false]
    rw [List.take_left' h1, List.drop_left' h1]

/-- **Native order keeps dtype, shape and values.** `native` (what a round trip returns) changes
nothing but the byte order flag: the numbers denoted by the items are the same. -/
theorem C16_native_preserves (a : Nd) (hw : a.wf = true) :
    a.toNative.shape = a.shape ∧ a.toNative.dtype = a.dtype ∧ a.toNative.swapped = false ∧
    a.toNative.values = a.values ∧ a.toNative.wf = true := by
  obtain ⟨hlen, hit⟩ := wf_items a hw
  refine ⟨rfl, rfl, rfl, ?_, ?_⟩
  · unfold Nd.values Nd.toNative Nd.nativeElems
    cases hs : a.swapped
    · simp
    · simp only [if_true, List.map_map]
      apply List.map_congr_left
      intro it hmem
      exact itemValue_swap _ _ (hit it hmem)
  · simp only [Nd.wf, Bool.and_eq_true, decide_eq_true_eq, List.all_eq_true]
    exact ⟨by simp [Nd.toNative, nativeElems_length, hlen],
           fun it hmem => nativeElems_item a _ hit it hmem⟩

/-- a native-order array is returned bit for bit -/
theorem C16_native_id (a : Nd) (h : a.swapped = false) : a.toNative = a := by
  cases a; simp_all [Nd.toNative, Nd.nativeElems]

/-- **Byte order.** For every numeric array, of either byte order: the round trip returns an array
with the same shape, the same dtype, and the same values. -/
theorem C16_byteorder (a : Nd) (hw : a.wf = true) (hn : a.dtype.numeric = true) :
    ∃ b, roundtrip .repaired (.ndarray a) = .ok (.ndarray b) ∧
      b.shape = a.shape ∧ b.dtype = a.dtype ∧ b.values = a.values := by
  obtain ⟨h1, h2, _, h4, _⟩ := C16_native_preserves a hw
  have hw' : wf (.ndarray a) = true := by simpa [wf] using hw
  have hs' : supported (.ndarray a) = true := by simpa [supported] using hn
  have hrt := C16_roundtrip (.ndarray a) hw' hs'
  exact ⟨a.toNative, by simpa [native] using hrt, h1, h2, h4⟩

/-- The code of the unchanged tree (`Variant.asIs`: `tobytes` of the memory bytes under a
byte-order-free dtype name) does **not** have this property: the big-endian int32 array `[1]`
comes back as `[16777216]`. -/
theorem C16_byteorder_asis_counterexample :
    let a : Nd := ⟨[1], .int32, true, [[0, 0, 0, 1]]⟩
    ∃ b, roundtrip .asIs (.ndarray a) = .ok (.ndarray b) ∧
      a.values = [[1]] ∧ b.values = [[16777216]] :=
  ⟨⟨[1], .int32, false, [[0, 0, 0, 1]]⟩, rfl, by decide, by decide⟩

/-- The code of the unchanged tree type-checks only the first element of an object array:
`np.array([b'a', 'b'], dtype=object)` is accepted and comes back with its second element turned
into bytes — an unsupported leaf silently altered. The repaired variant rejects it. -/
theorem C16_objarr_asis_counterexample :
    let x : PyVal := .objarr [2] [.bytes [97], .str "b"]
    supported x = false ∧
    roundtrip .asIs x = .ok (.objarr [2] [.bytes [97], .bytes (utf8 "b")]) ∧
    roundtrip .repaired x = .error .valueError :=
  ⟨rfl, rfl, rfl⟩

/-! ## property theorems: SQLite builder / reader -/

/-- examples of one client: a non-empty dict keyed by str/bytes whose features are supported arrays
with leading dimension `n` -/
def ValidExamples (n : Nat) : PyVal → Prop
  | .dict kvs => kvs ≠ [] ∧ ∀ kv ∈ kvs, kv.1.isKey = true ∧ wf kv.2 = true ∧ supported kv.2 = true ∧
      leadDim kv.2 = .ok n
  | _ => False

theorem allDims_valid (n : Nat) (kvs : List (PyVal × PyVal)) (h : ∀ kv ∈ kvs, leadDim kv.2 = .ok n) :
    allDims kvs = .ok (List.replicate kvs.length n) := by
  induction kvs with
  | nil => rfl
  | cons kv r ih =>
    obtain ⟨k, x⟩ := kv
    have h1 : leadDim x = .ok n := h (k, x) (by simp)
    have h2 := ih (fun kv hkv => h kv (by simp [hkv]))
    simp [allDims, h1, h2, List.replicate_succ]

theorem kvs_wf_supported (kvs : List (PyVal × PyVal))
    (h : ∀ kv ∈ kvs, kv.1.isKey = true ∧ wf kv.2 = true ∧ supported kv.2 = true) :
    wfKVs kvs = true ∧ supportedKVs kvs = true := by
  induction kvs with
  | nil => exact ⟨rfl, rfl⟩
  | cons kv r ih =>
    obtain ⟨k, x⟩ := kv
    obtain ⟨hk, hwx, hsx⟩ := h (k, x) (by simp)
    obtain ⟨h1, h2⟩ := ih (fun kv hkv => h kv (by simp [hkv]))
    have hwk : wf k = true := by cases k <;> simp [PyVal.isKey] at hk <;> rfl
    simp [wfKVs, supportedKVs, hk, hwx, hsx, h1, h2, hwk]

theorem valid_facts (n : Nat) (ex : PyVal) (h : ValidExamples n ex) :
    numExamples ex = .ok n ∧ wf ex = true ∧ supported ex = true := by
  cases ex <;> simp only [ValidExamples] at h
  rename_i kvs
  obtain ⟨hne, hall⟩ := h
  obtain ⟨h1, h2⟩ := kvs_wf_supported kvs (fun kv hkv => ⟨(hall kv hkv).1, (hall kv hkv).2.1, (hall kv hkv).2.2.1⟩)
  refine ⟨?_, by simpa [wf] using h1, by simpa [supported] using h2⟩
  have hd := allDims_valid n kvs (fun kv hkv => (hall kv hkv).2.2.2)
  cases kvs with
  | nil => exact absurd rfl hne
  | cons kv r =>
    simp only [numExamples, hd, List.length_cons, List.replicate_succ]
    simp

/-- the row `add_many` stores for one client -/
def rowOf {β} (c : Codec β) (ce : Bytes × PyVal) : Row β :=
  ⟨ce.1,
   c.enc (match encode .repaired ce.2 with | .ok m => m | .error _ => .nil),
   match numExamples ce.2 with | .ok n => n | .error _ => 0⟩

theorem any_id_false {β} (t : Table β) (i : Bytes) (h : i ∉ clientIds t) :
    t.any (fun r => r.id == i) = false := by
  induction t with
  | nil => rfl
  | cons r rs ih =>
    simp only [clientIds, List.map_cons, List.mem_cons, not_or] at h
    have := ih (by simpa [clientIds] using h.2)
    simp only [List.any_cons, this, Bool.or_false]
    have hne : r.id ≠ i := fun e => h.1 e.symm
    simpa using hne

theorem find_id_none {β} (t : Table β) (i : Bytes) (h : i ∉ clientIds t) :
    t.find? (fun r => r.id == i) = none := by
  have := any_id_false t i h
  rw [List.find?_eq_none]
  intro r hr
  have h2 := List.any_eq_false.mp this r hr
  simpa using h2

theorem addMany_ok {β} (c : Codec β) (cs : List (Bytes × PyVal)) :
    ∀ (t : Table β),
    (∀ ce ∈ cs, ∃ n, ValidExamples n ce.2) →
    (cs.map Prod.fst).Nodup → (∀ ce ∈ cs, ce.1 ∉ clientIds t) →
    addMany c .repaired t cs = .ok (t ++ cs.map (rowOf c)) := by
  induction cs with
  | nil => intro t _ _ _; simp [addMany]
  | cons ce rest ih =>
    intro t hv hnd hdis
    obtain ⟨n, hn⟩ := hv ce (by simp)
    obtain ⟨h1, h2, h3⟩ := valid_facts n ce.2 hn
    obtain ⟨m, hm, _⟩ := C16_encode_ok ce.2 h2 h3
    have hany := any_id_false t ce.1 (hdis ce (by simp))
    have hone : addOne c .repaired t ce = .ok (t ++ [rowOf c ce]) := by
      simp [addOne, h1, hm, hany, rowOf]
    simp only [List.map_cons, List.nodup_cons] at hnd
    have hrec := ih (t ++ [rowOf c ce]) (fun x hx => hv x (by simp [hx])) hnd.2 (by
      intro x hx
      simp only [clientIds, List.map_append, List.map_cons, List.map_nil, List.mem_append,
        List.mem_singleton, not_or]
      refine ⟨by simpa [clientIds] using hdis x (by simp [hx]), ?_⟩
      intro e
      apply hnd.1
      have : (rowOf c ce).id = ce.1 := rfl
      rw [this] at e
      rw [← e]
      exact List.mem_map_of_mem hx)
    simp [addMany, hone, hrec, List.append_assoc]

theorem find_rowOf {β} (c : Codec β) (cs : List (Bytes × PyVal)) (ce : Bytes × PyVal)
    (hmem : ce ∈ cs) (hnd : (cs.map Prod.fst).Nodup) :
    (cs.map (rowOf c)).find? (fun r => r.id == ce.1) = some (rowOf c ce) := by
  induction cs with
  | nil => cases hmem
  | cons x rest ih =>
    simp only [List.map_cons, List.nodup_cons] at hnd
    rcases List.mem_cons.mp hmem with rfl | h
    · simp [rowOf]
    · have hne : x.1 ≠ ce.1 := by
        intro e; apply hnd.1; rw [e]; exact List.mem_map_of_mem h
      have hne' : ((rowOf c x).id == ce.1) = false := by
        have : (rowOf c x).id = x.1 := rfl
        rw [this]; simpa using hne
      simp only [List.map_cons, List.find?_cons, hne']
      exact ih h hnd.2

/-- **SQLite round trip.** For every sequence of clients with distinct ids whose examples are valid
(supported features with a common number of rows), written by one `add_many` into a table that does
not contain those ids: the build succeeds; the table lists exactly the old ids followed by the new ids in
insertion order; `client_sizes` reports for every new client the number of rows of its examples; and
`get_client` returns every client's examples unchanged (in native byte order). The codec of the
`data` column (zlib ∘ msgpack bytes) enters through `dec (enc m) = some m`. -/
theorem C16_sqlite_roundtrip {β} (c : Codec β) (hc : ∀ m, c.dec (c.enc m) = some m)
    (t0 : Table β) (cs : List (Bytes × PyVal))
    (hv : ∀ ce ∈ cs, ∃ n, ValidExamples n ce.2)
    (hnd : (cs.map Prod.fst).Nodup) (hdis : ∀ ce ∈ cs, ce.1 ∉ clientIds t0) :
    ∃ t, addMany c .repaired t0 cs = .ok t ∧
      clientIds t = clientIds t0 ++ cs.map Prod.fst ∧
      (clientSizes t).map Prod.fst = clientIds t ∧
      (∀ r ∈ t0, r ∈ t) ∧
      ∀ ce ∈ cs, ∀ n, ValidExamples n ce.2 →
        clientSize t ce.1 = .ok n ∧ (ce.1, n) ∈ clientSizes t ∧
        getClient c t ce.1 = .ok (native ce.2) := by
  refine ⟨t0 ++ cs.map (rowOf c), addMany_ok c cs t0 hv hnd hdis, ?_, ?_, ?_, ?_⟩
  · simp [clientIds, List.map_map, Function.comp_def, rowOf]
  · simp [clientSizes, clientIds, List.map_map, Function.comp_def]
  · intro r hr; simp [hr]
  · intro ce hmem n hn
    obtain ⟨h1, h2, h3⟩ := valid_facts n ce.2 hn
    obtain ⟨m, hm, hdec⟩ := C16_encode_ok ce.2 h2 h3
    have hfind : (t0 ++ cs.map (rowOf c)).find? (fun r => r.id == ce.1) = some (rowOf c ce) := by
      rw [List.find?_append, find_id_none t0 ce.1 (hdis ce hmem)]
      simpa using find_rowOf c cs ce hmem hnd
    have hnum : (rowOf c ce).num = n := by simp [rowOf, h1]
    have hdata : (rowOf c ce).data = c.enc m := by simp [rowOf, hm]
    refine ⟨by simp [clientSize, hfind, hnum], ?_, by simp [getClient, hfind, hdata, hc, hdec]⟩
    simp only [clientSizes, List.map_append, List.mem_append, List.mem_map]
    exact Or.inr ⟨rowOf c ce, ⟨ce, hmem, rfl⟩, by rw [hnum]; rfl⟩

/-- `num_examples` stored by the builder is the common leading dimension of every feature. -/
theorem C16_sqlite_num_examples (n : Nat) (ex : PyVal) (h : ValidExamples n ex) :
    numExamples ex = .ok n := (valid_facts n ex h).1

/-- a duplicate client id is rejected (primary key), the table is not changed -/
theorem C16_sqlite_duplicate {β} (c : Codec β) (v : Variant) (t : Table β) (ce : Bytes × PyVal)
    (h : ce.1 ∈ clientIds t) : ∃ e, addOne c v t ce = .error e := by
  have hany : t.any (fun r => r.id == ce.1) = true := by
    simp only [clientIds, List.mem_map] at h
    obtain ⟨r, hr, e⟩ := h
    exact List.any_eq_true.mpr ⟨r, hr, by simp [e]⟩
  unfold addOne
  cases numExamples ce.2 with
  | error e => exact ⟨e, rfl⟩
  | ok n =>
    cases encode v ce.2 with
    | error e => exact ⟨e, rfl⟩
    | ok m => exact ⟨.integrityError, by simp [hany]⟩

/-! ## non-vacuity: concrete non-trivial instances meet the hypotheses -/

/-- a nested tree: dict of a big-endian int32 matrix, a bytes-object array (with an empty element),
a list holding a float16 scalar, a complex, a 0-d bool array, an empty (0,3) float64 array, and an
empty dict -/
def sampleTree : PyVal :=
  .dict [(.str "x", .ndarray ⟨[2, 1], .int32, true, [[0, 0, 0, 1], [0, 0, 1, 0]]⟩),
         (.bytes [107], .objarr [2] [.bytes [97, 98], .bytes []]),
         (.str "rest", .list [.npscalar .float16 [0, 60], .complex [0,0,0,0,0,0,240,63] [0,0,0,0,0,0,0,64],
                              .ndarray ⟨[], .bool, false, [[1]]⟩, .ndarray ⟨[0, 3], .float64, true, []⟩,
                              .dict [], .int (-5), .none, .list []])]

example : wf sampleTree = true ∧ supported sampleTree = true := by decide
example : roundtrip .repaired sampleTree = .ok (native sampleTree) :=
  C16_roundtrip sampleTree (by decide) (by decide)
example : roundtrip .repaired (.ndarray ⟨[2], .int32, true, [[0, 0, 0, 1], [0, 0, 0, 2]]⟩) =
    .ok (.ndarray ⟨[2], .int32, false, [[1, 0, 0, 0], [2, 0, 0, 0]]⟩) := rfl
example : roundtrip .repaired (.ndarray ⟨[1], .complex64, true, [[63, 128, 0, 0, 64, 0, 0, 0]]⟩) =
    .ok (.ndarray ⟨[1], .complex64, false, [[0, 0, 128, 63, 0, 0, 0, 64]]⟩) := rfl
example : (⟨[2], .int32, true, [[0, 0, 0, 1], [0, 0, 0, 2]]⟩ : Nd).wf = true ∧
    (⟨[2], .int32, true, [[0, 0, 0, 1], [0, 0, 0, 2]]⟩ : Nd).values = [[1], [2]] := by decide
example : ∃ e, roundtrip .repaired (.dict [(.str "a", .list [.int 1, .tuple [.int 2]])]) = .error e :=
  C16_reject _ (by decide) (by decide)
example : roundtrip .repaired (.ndarray ⟨[1], .strN 32, false, [[97, 0, 0, 0]]⟩) = .error .typeError :=
  C16_reject_kinds.2.1 _ (Or.inl ⟨32, rfl⟩)
example : roundtrip .repaired (.dict [(.int 1, .int 2)]) = .error .valueError := rfl
example : ValidExamples 2 (.dict [(.str "x", .ndarray ⟨[2, 1], .int8, false, [[1], [2]]⟩),
                                  (.str "y", .objarr [2] [.bytes [1], .bytes []])]) := by
  refine ⟨by simp, ?_⟩
  intro kv hkv
  simp only [List.mem_cons, List.not_mem_nil, or_false] at hkv
  rcases hkv with rfl | rfl <;> exact ⟨rfl, rfl, rfl, rfl⟩
example : ∃ t, addMany idCodec .repaired []
      [([1], .dict [(.str "x", .ndarray ⟨[2], .int16, true, [[0, 1], [0, 2]]⟩)]),
       ([2], .dict [(.str "x", .ndarray ⟨[0], .int16, true, []⟩)])] = .ok t ∧
    clientSizes t = [([1], 2), ([2], 0)] ∧
    getClient idCodec t [1] = .ok (.dict [(.str "x", .ndarray ⟨[2], .int16, false, [[1, 0], [2, 0]]⟩)]) :=
  ⟨_, rfl, rfl, rfl⟩

example : supported sampleTree = true ∧ roundtrip .repaired sampleTree = .ok (native sampleTree) := by
  have h := C16_roundtrip sampleTree (by decide) (by decide)
  exact ⟨(C16_never_altered sampleTree _ (by decide) h).1, h⟩
example : DType.ofName (DType.name .bfloat16) = some .bfloat16 ∧ DType.ofName (DType.name (.strN 32)) = none :=
  ⟨(C16_dtype_name _).1 rfl, (C16_dtype_name _).2 rfl⟩
example : (⟨[1], .complex64, true, [[63, 128, 0, 0, 64, 0, 0, 0]]⟩ : Nd).toNative.values =
    (⟨[1], .complex64, true, [[63, 128, 0, 0, 64, 0, 0, 0]]⟩ : Nd).values :=
  (C16_native_preserves _ (by decide)).2.2.2.1
example : ∃ m, encode .repaired sampleTree = .ok m ∧ decode m = .ok (native sampleTree) :=
  C16_encode_ok sampleTree (by decide) (by decide)
example : ∃ e, addOne idCodec .repaired [⟨[1], .nil, 0⟩] ([1], .dict [(.str "x", .ndarray ⟨[0], .int8, false, []⟩)])
    = .error e := C16_sqlite_duplicate _ _ _ _ (by decide)
example : numExamples (.dict [(.str "x", .ndarray ⟨[2, 1], .int8, false, [[1], [2]]⟩),
                              (.str "y", .objarr [2] [.bytes [1], .bytes []])]) = .ok 2 := rfl

/-! ## checkpoint directory: arbitrary histories of `save_checkpoint` -/

section Ckpt
variable {σ : Type}

/-- the listing is strictly ascending by round -/
def DirSorted (d : Dir σ) : Prop := d.Pairwise (fun a b => a.1 < b.1)

theorem mem_dirInsert (r : Nat) (s : σ) (d : Dir σ) (hd : DirSorted d) (p : Nat × σ) :
    p ∈ dirInsert r s d ↔ p = (r, s) ∨ (p ∈ d ∧ p.1 ≠ r) := by
  induction d with
  | nil => simp [dirInsert]
  | cons q rest ih =>
    obtain ⟨r', s'⟩ := q
    have hd' := List.pairwise_cons.mp hd
    unfold dirInsert
    by_cases h1 : r < r'
    · simp only [h1, if_true, List.mem_cons]
      constructor
      · rintro (h | h | h)
        · exact Or.inl h
        · right; subst h; exact ⟨Or.inl rfl, by simp; omega⟩
        · right; exact ⟨Or.inr h, by have := hd'.1 p h; simp at this; omega⟩
      · rintro (h | ⟨h | h, _⟩)
        · exact Or.inl h
        · exact Or.inr (Or.inl h)
        · exact Or.inr (Or.inr h)
    · by_cases h2 : r = r'
      · subst h2
        simp only [Nat.lt_irrefl, if_false, if_true, List.mem_cons]
        constructor
        · rintro (h | h)
          · exact Or.inl h
          · right; exact ⟨Or.inr h, by have := hd'.1 p h; simp at this; omega⟩
        · rintro (h | ⟨h | h, hne⟩)
          · exact Or.inl h
          · subst h; simp at hne
          · exact Or.inr h
      · simp only [h1, h2, if_false, List.mem_cons]
        rw [ih hd'.2]
        constructor
        · rintro (h | h | ⟨h, hne⟩)
          · right; subst h; exact ⟨Or.inl rfl, by simp; omega⟩
          · exact Or.inl h
          · exact Or.inr ⟨Or.inr h, hne⟩
        · rintro (h | ⟨h | h, hne⟩)
          · exact Or.inr (Or.inl h)
          · exact Or.inl h
          · exact Or.inr (Or.inr ⟨h, hne⟩)

theorem sorted_dirInsert (r : Nat) (s : σ) (d : Dir σ) (hd : DirSorted d) :
    DirSorted (dirInsert r s d) := by
  induction d with
  | nil => simp [dirInsert, DirSorted]
  | cons q rest ih =>
    obtain ⟨r', s'⟩ := q
    have hd' := List.pairwise_cons.mp hd
    unfold dirInsert
    by_cases h1 : r < r'
    · simp only [h1, if_true]
      refine List.pairwise_cons.mpr ⟨?_, hd⟩
      intro p hp
      rcases List.mem_cons.mp hp with rfl | hp
      · exact h1
      · have := hd'.1 p hp; simp at this ⊢; omega
    · by_cases h2 : r = r'
      · subst h2
        simp only [Nat.lt_irrefl, if_false, if_true]
        exact List.pairwise_cons.mpr ⟨fun p hp => hd'.1 p hp, hd'.2⟩
      · simp only [h1, h2, if_false]
        refine List.pairwise_cons.mpr ⟨?_, ih hd'.2⟩
        intro p hp
        rcases (mem_dirInsert r s rest hd'.2 p).mp hp with rfl | ⟨hp, _⟩
        · simp; omega
        · exact hd'.1 p hp

theorem length_dirInsert_pos (r : Nat) (s : σ) (d : Dir σ) : 0 < (dirInsert r s d).length := by
  cases d with
  | nil => simp [dirInsert]
  | cons q rest =>
    obtain ⟨r', s'⟩ := q
    unfold dirInsert
    split
    · simp
    · split <;> simp

theorem length_dirInsert_ge (r : Nat) (s : σ) (d : Dir σ) : d.length ≤ (dirInsert r s d).length := by
  induction d with
  | nil => simp
  | cons q rest ih =>
    obtain ⟨r', s'⟩ := q
    unfold dirInsert
    split
    · simp
    · split
      · simp
      · simp only [List.length_cons]; omega

theorem sorted_saveCkpt (keep r : Nat) (s : σ) (d : Dir σ) (hd : DirSorted d) :
    DirSorted (saveCkpt keep d r s) := by
  unfold saveCkpt
  have h := sorted_dirInsert r s d hd
  simp only
  split
  · exact h
  · exact List.Pairwise.sublist (List.drop_sublist _ _) h

theorem mem_saveCkpt (keep r : Nat) (s : σ) (d : Dir σ) (p : Nat × σ) (hp : p ∈ saveCkpt keep d r s) :
    p ∈ dirInsert r s d := by
  unfold saveCkpt at hp
  simp only at hp
  split at hp
  · exact hp
  · exact List.mem_of_mem_drop hp

theorem length_saveCkpt (keep r : Nat) (s : σ) (d : Dir σ) (hk : 0 < keep) :
    (saveCkpt keep d r s).length ≤ keep ∧ 0 < (saveCkpt keep d r s).length := by
  unfold saveCkpt
  have := length_dirInsert_pos r s d
  simp only [Nat.ne_of_gt hk, if_false, List.length_drop]
  omega

/-- in a sorted listing the last entry has the highest round -/
theorem getLast_max (d : Dir σ) (hd : DirSorted d) (p : Nat × σ) (hp : d.getLast? = some p) :
    p ∈ d ∧ ∀ q ∈ d, q.1 ≤ p.1 := by
  induction d with
  | nil => simp at hp
  | cons q rest ih =>
    have hd' := List.pairwise_cons.mp hd
    cases rest with
    | nil =>
      simp at hp; subst hp
      exact ⟨by simp, by simp⟩
    | cons q2 rest2 =>
      rw [List.getLast?_cons_cons] at hp
      obtain ⟨h1, h2⟩ := ih hd'.2 hp
      refine ⟨List.mem_cons_of_mem _ h1, ?_⟩
      intro x hx
      rcases List.mem_cons.mp hx with rfl | hx
      · exact Nat.le_of_lt (hd'.1 p h1)
      · exact h2 x hx

theorem lastSaved_snoc (h : List (Nat × σ)) (r r' : Nat) (s : σ) :
    lastSaved (h ++ [(r, s)]) r' = if r = r' then some s else lastSaved h r' := by
  unfold lastSaved
  simp only [List.reverse_append, List.reverse_cons, List.reverse_nil, List.nil_append,
    List.singleton_append, List.find?_cons]
  by_cases hr : r = r'
  · simp [hr]
  · have : (r == r') = false := by simpa using hr
    simp [this, hr]

theorem runHist_snoc (keep : Nat) (h : List (Nat × σ)) (r : Nat) (s : σ) :
    runHist keep (h ++ [(r, s)]) = saveCkpt keep (runHist keep h) r s := by
  simp [runHist, List.foldl_append]

/-- the invariant of a checkpoint directory produced by any history -/
structure CkptInv (keep : Nat) (h : List (Nat × σ)) (d : Dir σ) : Prop where
  sorted : DirSorted d
  size : 0 < keep → d.length ≤ keep
  content : ∀ p ∈ d, lastSaved h p.1 = some p.2
  dropped : ∀ p ∈ h, (∃ s, (p.1, s) ∈ d) ∨ (0 < keep ∧ d.length = keep ∧ ∀ q ∈ d, p.1 < q.1)

theorem ckptInv_step (keep : Nat) (h : List (Nat × σ)) (d : Dir σ) (r : Nat) (s : σ)
    (inv : CkptInv keep h d) : CkptInv keep (h ++ [(r, s)]) (saveCkpt keep d r s) := by
  have hs' := sorted_dirInsert r s d inv.sorted
  have hmem := mem_dirInsert r s d inv.sorted
  refine ⟨sorted_saveCkpt keep r s d inv.sorted, fun hk => (length_saveCkpt keep r s d hk).1, ?_, ?_⟩
  · intro p hp
    rw [lastSaved_snoc]
    rcases (hmem p).mp (mem_saveCkpt keep r s d p hp) with rfl | ⟨hp, hne⟩
    · simp
    · have : ¬ r = p.1 := fun e => hne e.symm
      simp [this, inv.content p hp]
  · -- every round ever saved is either still there, or the directory is full of higher rounds
    -- first: the same statement for members of the freshly written listing
    have key : ∀ x ∈ dirInsert r s d, (∃ t, (x.1, t) ∈ saveCkpt keep d r s) ∨
        (0 < keep ∧ (saveCkpt keep d r s).length = keep ∧ ∀ q ∈ saveCkpt keep d r s, x.1 < q.1) := by
      intro x hx
      unfold saveCkpt
      simp only
      by_cases hk : keep = 0
      · left; exact ⟨x.2, by simpa [hk] using hx⟩
      · simp only [hk, if_false]
        have hsplit := List.take_append_drop ((dirInsert r s d).length - keep) (dirInsert r s d)
        rw [← hsplit] at hx
        rcases List.mem_append.mp hx with hx | hx
        · right
          have hpw : (List.take ((dirInsert r s d).length - keep) (dirInsert r s d) ++
              List.drop ((dirInsert r s d).length - keep) (dirInsert r s d)).Pairwise
              (fun a b => a.1 < b.1) := by rw [hsplit]; exact hs'
          have hlt := (List.pairwise_append.mp hpw).2.2 x hx
          have hlen : 0 < (List.take ((dirInsert r s d).length - keep) (dirInsert r s d)).length :=
            List.length_pos_of_mem hx
          simp only [List.length_take] at hlen
          refine ⟨by omega, by simp only [List.length_drop]; omega, hlt⟩
        · left; exact ⟨x.2, hx⟩
    intro p hp
    rcases List.mem_append.mp hp with hp | hp
    · rcases inv.dropped p hp with ⟨t, ht⟩ | ⟨hk, hlen, hall⟩
      · by_cases hpr : p.1 = r
        · have := key (r, s) ((hmem _).mpr (Or.inl rfl))
          rw [hpr]; exact this
        · exact key (p.1, t) ((hmem _).mpr (Or.inr ⟨ht, hpr⟩))
      · -- p was already dropped: the directory was full of higher rounds, and stays so
        by_cases hpr : p.1 = r
        · have := key (r, s) ((hmem _).mpr (Or.inl rfl))
          rw [hpr]; exact this
        · right
          have hk0 : keep ≠ 0 := by omega
          refine ⟨hk, ?_, ?_⟩
          · have hl := length_saveCkpt keep r s d hk
            -- the new listing has at least `keep` entries: all of `d` (minus an overwritten one) plus the new one
            have hge : keep ≤ (dirInsert r s d).length := by
              have := length_dirInsert_ge r s d
              omega
            unfold saveCkpt
            simp only [hk0, if_false, List.length_drop]
            omega
          · intro q hq
            have hq' := (hmem q).mp (mem_saveCkpt keep r s d q hq)
            rcases hq' with rfl | ⟨hq', _⟩
            · -- q is the new entry; it survived, so it is not the minimum that was cut … use `key`-style split
              -- the new listing has keep+1 or keep entries; if r were ≤ p.1 it would be below all of d
              -- and hence the (only) dropped entry
              by_cases hlt : p.1 < r
              · exact hlt
              · exfalso
                have hrlt : ∀ q ∈ d, r < q.1 := fun q hq => by have := hall q hq; omega
                -- then dirInsert = (r,s) :: d and one entry is dropped: (r,s)
                have hins : dirInsert r s d = (r, s) :: d := by
                  cases hd : d with
                  | nil => simp [dirInsert]
                  | cons q0 rest =>
                    obtain ⟨r0, s0⟩ := q0
                    have := hrlt (r0, s0) (by simp [hd])
                    simp [dirInsert, this]
                have : saveCkpt keep d r s = d := by
                  unfold saveCkpt
                  simp only [hk0, if_false, hins, List.length_cons, hlen]
                  simp
                rw [this] at hq
                have := hrlt _ hq
                simp at this
            · exact hall q hq'
    · simp only [List.mem_singleton] at hp
      subst hp
      exact key (r, s) ((hmem _).mpr (Or.inl rfl))

theorem ckptInv_foldl (keep : Nat) (h : List (Nat × σ)) :
    ∀ (h0 : List (Nat × σ)) (d : Dir σ), CkptInv keep h0 d →
      CkptInv keep (h0 ++ h) (h.foldl (fun d p => saveCkpt keep d p.1 p.2) d) := by
  induction h with
  | nil => intro h0 d inv; simpa using inv
  | cons p rest ih =>
    intro h0 d inv
    obtain ⟨r, s⟩ := p
    have := ih (h0 ++ [(r, s)]) _ (ckptInv_step keep h0 d r s inv)
    simpa [List.append_assoc] using this

theorem ckptInv_runHist (keep : Nat) (h : List (Nat × σ)) : CkptInv keep h (runHist keep h) := by
  have := ckptInv_foldl keep h [] [] ⟨List.Pairwise.nil, fun _ => Nat.zero_le _, by simp, by simp⟩
  simpa [runHist] using this

/-- **Checkpoint histories.** After ANY history of `save_checkpoint` calls (any order of round
numbers, rounds saved repeatedly, `keep ≥ 1`): `load_latest_checkpoint` returns a checkpoint; its
round is the highest round on disk; and its state is the state LAST saved under that round. -/
theorem C16_ckpt_latest (keep : Nat) (hk : 0 < keep) (h : List (Nat × σ)) (hne : h ≠ []) :
    ∃ s r, loadLatest (runHist keep h) = some (s, r) ∧
      (r, s) ∈ runHist keep h ∧ (∀ q ∈ runHist keep h, q.1 ≤ r) ∧ lastSaved h r = some s := by
  have inv := ckptInv_runHist keep h
  have hpos : 0 < (runHist keep h).length := by
    obtain ⟨h', p, rfl⟩ : ∃ h' p, h = h' ++ [p] := by
      rcases List.eq_nil_or_concat h with e | ⟨l, a, e⟩
      · exact absurd e hne
      · exact ⟨l, a, by simpa using e⟩
    rw [runHist_snoc]
    exact (length_saveCkpt keep p.1 p.2 _ hk).2
  cases hl : (runHist keep h).getLast? with
  | none => rw [List.getLast?_eq_none_iff] at hl; rw [hl] at hpos; simp at hpos
  | some p =>
    obtain ⟨r, s⟩ := p
    obtain ⟨hm, hmax⟩ := getLast_max _ inv.sorted _ hl
    exact ⟨s, r, by simp [loadLatest, hl], hm, hmax, inv.content _ hm⟩

/-- at most `keep` files, distinct rounds in ascending order, and every surviving file holds the state
last saved under its round — after any history. -/
theorem C16_ckpt_files (keep : Nat) (h : List (Nat × σ)) :
    DirSorted (runHist keep h) ∧ (0 < keep → (runHist keep h).length ≤ keep) ∧
    (∀ r s, loadRound (runHist keep h) r = some s → lastSaved h r = some s) ∧
    (∀ p ∈ runHist keep h, loadRound (runHist keep h) p.1 = some p.2) := by
  have inv := ckptInv_runHist keep h
  have hfind : ∀ p ∈ runHist keep h, loadRound (runHist keep h) p.1 = some p.2 := by
    intro p hp
    unfold loadRound
    have hs := inv.sorted
    generalize runHist keep h = d at hp hs
    induction d with
    | nil => cases hp
    | cons q rest ih =>
      have hd' := List.pairwise_cons.mp hs
      rcases List.mem_cons.mp hp with rfl | hp
      · simp
      · have hne : (q.1 == p.1) = false := by
          have := hd'.1 p hp
          simp; omega
        simp only [List.find?_cons, hne]
        exact ih hp hd'.2
  refine ⟨inv.sorted, inv.size, ?_, hfind⟩
  intro r s hl
  unfold loadRound at hl
  cases hf : (runHist keep h).find? (fun p => p.1 == r) with
  | none => simp [hf] at hl
  | some p =>
    simp [hf] at hl
    have hm := List.mem_of_find?_eq_some hf
    have hr : p.1 = r := by simpa using List.find?_some hf
    rw [← hr, ← hl]; exact inv.content p hm

/-- which rounds survive: a round that was saved at some point and is no longer on disk has been pushed out
by `keep` higher rounds (so the files are the `keep` highest distinct rounds ever saved). -/
theorem C16_ckpt_survivors (keep : Nat) (h : List (Nat × σ)) (p : Nat × σ) (hp : p ∈ h) :
    (∃ s, (p.1, s) ∈ runHist keep h) ∨
    (0 < keep ∧ (runHist keep h).length = keep ∧ ∀ q ∈ runHist keep h, p.1 < q.1) :=
  (ckptInv_runHist keep h).dropped p hp

/-- a save under a round at least as high as everything on disk (the normal case, and the case of saving
the SAME round again with another state) is what `load_latest_checkpoint` returns next. -/
theorem C16_ckpt_save_then_load (keep : Nat) (hk : 0 < keep) (h : List (Nat × σ)) (r : Nat) (s : σ)
    (hmax : ∀ q ∈ runHist keep h, q.1 ≤ r) :
    loadLatest (runHist keep (h ++ [(r, s)])) = some (s, r) := by
  obtain ⟨s', r', hl, hm, hmax', hlast⟩ := C16_ckpt_latest keep hk (h ++ [(r, s)]) (by simp)
  rw [runHist_snoc] at hm hmax'
  have hin : (r, s) ∈ dirInsert r s (runHist keep h) :=
    (mem_dirInsert r s _ (ckptInv_runHist keep h).sorted _).mpr (Or.inl rfl)
  -- the written entry survives: it is the maximum of the new listing
  have hr' : r' = r := by
    rcases (mem_dirInsert r s _ (ckptInv_runHist keep h).sorted _).mp (mem_saveCkpt keep r s _ _ hm) with e | ⟨hq, _⟩
    · exact (Prod.mk.inj e).1
    · have h1 := hmax _ hq
      -- (r,s) survives the cut because nothing in the new listing is above it
      have hsurv : (r, s) ∈ saveCkpt keep (runHist keep h) r s := by
        have key := ckptInv_step keep h _ r s (ckptInv_runHist keep h)
        rcases key.dropped (r, s) (by simp) with ⟨t, ht⟩ | ⟨_, _, hall⟩
        · rcases (mem_dirInsert r s _ (ckptInv_runHist keep h).sorted _).mp (mem_saveCkpt keep r s _ _ ht) with e | ⟨_, hne⟩
          · rw [(Prod.mk.inj e).2] at ht; exact ht
          · exact absurd rfl hne
        · have := hall _ hm; simp at this; omega
      have := hmax' _ hsurv
      simp at this h1; omega
  subst hr'
  rw [lastSaved_snoc] at hlast
  simp at hlast
  rw [hl, hlast]

/-- what the code does with a round below a full directory: the file is written and removed again at once,
the directory (and hence what is loaded) is unchanged — the state just saved cannot be loaded back. -/
theorem C16_ckpt_low_round_dropped (keep : Nat) (hk : 0 < keep) (d : Dir σ) (r : Nat) (s : σ)
    (hfull : d.length = keep) (hlow : ∀ q ∈ d, r < q.1) : saveCkpt keep d r s = d := by
  have hins : dirInsert r s d = (r, s) :: d := by
    cases hd : d with
    | nil => simp [dirInsert]
    | cons q0 rest =>
      obtain ⟨r0, s0⟩ := q0
      have := hlow (r0, s0) (by simp [hd])
      simp [dirInsert, this]
  unfold saveCkpt
  simp only [Nat.ne_of_gt hk, if_false, hins, List.length_cons, hfull]
  simp

end Ckpt

example : runHist 2 [(3, "a"), (0, "b"), (3, "c"), (2, "d"), (0, "e"), (4, "f")] = [(3, "c"), (4, "f")] := by
  decide
example : loadLatest (runHist 1 [(5, "old"), (5, "new")]) = some ("new", 5) :=
  C16_ckpt_save_then_load 1 (by decide) [(5, "old")] 5 "new" (by decide)
example : ∃ s r, loadLatest (runHist 2 [(1, 10), (2, 20), (3, 30), (2, 21), (3, 31), (4, 40)]) = some (s, r) ∧ r = 4 ∧ s = 40 :=
  ⟨40, 4, by decide, rfl, rfl⟩
example : saveCkpt 2 [(5, "x"), (7, "y")] 3 "z" = [(5, "x"), (7, "y")] :=
  C16_ckpt_low_round_dropped 2 (by decide) _ 3 "z" rfl (by decide)
example : (runHist 2 [(3, 0), (1, 1), (2, 2)]).length ≤ 2 := (C16_ckpt_files 2 _).2.1 (by decide)

end FedjaxVerif.Serialize
