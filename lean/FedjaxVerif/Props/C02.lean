import FedjaxVerif.Model.ForEach

/-!
# C02 — all for-each-client backends equal the sequential per-client fold

`seqRun` is the model of the jit and debug backends (their agreement with it is a matter of the
correspondence check).  The theorems below show that the pmap backend's blockify / mask / unpad
pipeline computes, for *every* `init`/`step`/`final`, every padding input, padding batch and
zeroing function, exactly the sequential fold per real client, and that the backend choice is
scoped per thread and restored by the context manager.
-/

namespace FedjaxVerif.ForEach

variable {ι β γ σ₀ σ ρ ω : Type}

/-! ## helper lemmas -/

theorem foldSteps_length (step : σ → β → σ × ρ) (st : σ) (bs : List β) :
    (foldSteps step st bs).2.length = bs.length := by
  induction bs generalizing st with
  | nil => rfl
  | cons b bs ih => simp [foldSteps, ih]

/-- masked fold over real batches followed by padding batches: the state is the sequential
state; the first `bs.length` results are the sequential results. Nothing is assumed about
`step` on the padding batches. -/
theorem foldMasked_real_pad (step : σ → β → σ × ρ) (zeroR : ρ → ρ) (bs pads : List β) :
    ∀ st : σ,
    (foldMasked step zeroR st (bs.map (·, true) ++ pads.map (·, false))).1 = (foldSteps step st bs).1 ∧
    (foldMasked step zeroR st (bs.map (·, true) ++ pads.map (·, false))).2.take bs.length
      = (foldSteps step st bs).2 := by
  induction bs with
  | nil =>
    intro st
    simp only [List.map_nil, List.nil_append, List.length_nil, List.take_zero, foldSteps, and_true]
    induction pads generalizing st with
    | nil => rfl
    | cons p pads ih => simp [foldMasked, ih]
  | cons b bs ih =>
    intro st
    simp only [List.map_cons, List.cons_append, foldMasked, foldSteps, if_true, List.length_cons,
      List.take_succ_cons]
    obtain ⟨h1, h2⟩ := ih (step st b).1
    exact ⟨h1, by rw [h2]⟩

theorem maskedBatches_eq (pb : β) (M : Nat) (bs : List β) (h : bs.length ≤ M) :
    maskedBatches pb M bs = bs.map (·, true) ++ (List.replicate (M - bs.length) pb).map (·, false) := by
  unfold maskedBatches
  apply List.ext_getElem
  · simp; omega
  · intro i h1 h2
    simp only [List.length_map, List.length_range] at h1
    simp only [List.getElem_map, List.getElem_range, List.getElem_append, List.length_map]
    by_cases hi : i < bs.length
    · simp [hi]
    · have : bs[i]? = none := by simp; omega
      simp [hi, this]

/-- one client of a block whose slot count `M` is at least its batch count -/
theorem client_in_block (init : σ₀ → γ → σ) (step : σ → β → σ × ρ) (final : σ₀ → σ → ω)
    (zeroR : ρ → ρ) (shared : σ₀) (pb : β) (M : Nat) (c : Client ι β γ) (h : c.batches.length ≤ M) :
    let q := foldMasked step zeroR (init shared c.input) (maskedBatches pb M c.batches)
    (c.id, final shared q.1, q.2.take c.batches.length) = seqRun init step final shared c := by
  simp only [seqRun]
  rw [maskedBatches_eq pb M c.batches h]
  obtain ⟨h1, h2⟩ := foldMasked_real_pad step zeroR c.batches
    (List.replicate (M - c.batches.length) pb) (init shared c.input)
  rw [h1, h2]

/-- a block whose first client has the maximal batch count is processed like the sequential map -/
theorem runBlock_eq (init : σ₀ → γ → σ) (step : σ → β → σ × ρ) (final : σ₀ → σ → ω)
    (padI : γ → γ) (padB : β → β) (zeroR : ρ → ρ) (D : Nat) (shared : σ₀)
    (c0 : Client ι β γ) (rest : List (Client ι β γ))
    (hmax : ∀ c ∈ c0 :: rest, c.batches.length ≤ c0.batches.length) :
    runBlock init step final padI padB zeroR D shared (c0 :: rest)
      = (c0 :: rest).map (seqRun init step final shared) := by
  unfold runBlock
  apply List.map_congr_left
  intro c hc
  have hle := hmax c hc
  cases hb : c0.batches with
  | nil =>
    have h0 : c.batches.length = 0 := by rw [hb] at hle; simpa using hle
    have hnil : c.batches = [] := List.length_eq_zero_iff.mp h0
    simp [seqRun, hnil, foldSteps]
  | cons b0 bs0 =>
    simp only [List.head?_cons, Option.map_some]
    rw [hb] at hle
    exact client_in_block init step final zeroR shared (padB b0) _ c hle

theorem chunk_flatten {α} (D : Nat) (hD : 0 < D) :
    ∀ fuel (xs : List α), xs.length ≤ fuel → (chunk D fuel xs).flatten = xs := by
  intro fuel
  induction fuel with
  | zero => intro xs h; have : xs = [] := List.length_eq_zero_iff.mp (by omega); simp [chunk, this]
  | succ fuel ih =>
    intro xs h
    cases xs with
    | nil => simp [chunk]
    | cons x xs =>
      simp only [chunk, List.isEmpty_cons, Bool.false_eq_true, if_false, List.flatten_cons]
      rw [ih _ (by simp only [List.length_drop, List.length_cons] at h ⊢; omega)]
      exact List.take_append_drop _ _

theorem chunk_sublist {α} (D : Nat) (hD : 0 < D) : ∀ fuel (xs : List α), ∀ c ∈ chunk D fuel xs, c.Sublist xs ∧ c ≠ [] ∧ c.length ≤ D := by
  intro fuel
  induction fuel with
  | zero => intro xs c hc; simp [chunk] at hc
  | succ fuel ih =>
    intro xs c hc
    cases xs with
    | nil => simp [chunk] at hc
    | cons x xs =>
      simp only [chunk, List.isEmpty_cons, Bool.false_eq_true, if_false, List.mem_cons] at hc
      rcases hc with rfl | hc
      · refine ⟨List.take_sublist _ _, ?_, by simp [List.length_take]; omega⟩
        cases D with
        | zero => omega
        | succ D => simp
      · obtain ⟨h1, h2, h3⟩ := ih _ c hc
        exact ⟨h1.trans (List.drop_sublist _ _), h2, h3⟩


theorem sortDesc_perm (cs : List (Client ι β γ)) : (sortDesc cs).Perm cs :=
  List.mergeSort_perm _ _

theorem sortDesc_pairwise (cs : List (Client ι β γ)) :
    (sortDesc cs).Pairwise (fun a b => b.batches.length ≤ a.batches.length) := by
  have := List.pairwise_mergeSort
    (le := fun (a b : Client ι β γ) => decide (b.batches.length ≤ a.batches.length))
    (by intro a b c h1 h2; simp at *; omega)
    (by intro a b; simp; omega) cs
  simpa [sortDesc] using this

/-- in a chunk of a descending-sorted list the first client has the maximal batch count -/
theorem chunk_head_max (D : Nat) (hD : 0 < D) (fuel : Nat) (xs : List (Client ι β γ))
    (hs : xs.Pairwise (fun a b => b.batches.length ≤ a.batches.length)) :
    ∀ blk ∈ chunk D fuel xs, ∃ c0 rest, blk = c0 :: rest ∧
      ∀ c ∈ c0 :: rest, c.batches.length ≤ c0.batches.length := by
  intro blk hblk
  obtain ⟨hsub, hne, _⟩ := chunk_sublist D hD fuel xs blk hblk
  have hp := hs.sublist hsub
  cases blk with
  | nil => exact absurd rfl hne
  | cons c0 rest =>
    refine ⟨c0, rest, rfl, ?_⟩
    intro c hc
    rcases List.mem_cons.mp hc with rfl | hc
    · exact Nat.le_refl _
    · exact (List.pairwise_cons.mp hp).1 c hc

/-! ## property theorems -/

/-- **pmap = sequential fold.** For every program (`init`, `step`, `final`), every padding
input/batch/zeroing, every device count `D ≥ 1` and every client list (any batch counts, any
length, not necessarily a multiple of `D`), the pmap backend yields exactly the sequential result
of every real client, in the (stable, descending batch count) sorted order. -/
theorem C02_pmap_eq_seq (init : σ₀ → γ → σ) (step : σ → β → σ × ρ) (final : σ₀ → σ → ω)
    (padI : γ → γ) (padB : β → β) (zeroR : ρ → ρ) (D : Nat) (hD : 0 < D) (shared : σ₀)
    (cs : List (Client ι β γ)) :
    pmapRun init step final padI padB zeroR D shared cs
      = (sortDesc cs).map (seqRun init step final shared) := by
  unfold pmapRun
  simp only
  have hmax := chunk_head_max D hD (sortDesc cs).length (sortDesc cs) (sortDesc_pairwise cs)
  have hflat := chunk_flatten D hD (sortDesc cs).length (sortDesc cs) (Nat.le_refl _)
  generalize chunk D (sortDesc cs).length (sortDesc cs) = blocks at *
  rw [← hflat]
  clear hflat
  induction blocks with
  | nil => rfl
  | cons blk blocks ih =>
    rw [List.flatMap_cons, List.flatten_cons, List.map_append]
    obtain ⟨c0, rest, rfl, hm⟩ := hmax blk (List.mem_cons_self)
    rw [runBlock_eq init step final padI padB zeroR D shared c0 rest hm]
    rw [ih (fun b hb => hmax b (List.mem_cons_of_mem _ hb))]

/-- …hence, as a collection, exactly one result per input client, equal to the sequential one. -/
theorem C02_pmap_perm (init : σ₀ → γ → σ) (step : σ → β → σ × ρ) (final : σ₀ → σ → ω)
    (padI : γ → γ) (padB : β → β) (zeroR : ρ → ρ) (D : Nat) (hD : 0 < D) (shared : σ₀)
    (cs : List (Client ι β γ)) :
    (pmapRun init step final padI padB zeroR D shared cs).Perm
      (cs.map (seqRun init step final shared)) := by
  rw [C02_pmap_eq_seq init step final padI padB zeroR D hD shared cs]
  exact (sortDesc_perm cs).map _

/-- Padding clients and padding batches are never observable: the result does not depend on the
padding input, the padding batch, the zeroing of step results or the device count. -/
theorem C02_no_padding_observable (init : σ₀ → γ → σ) (step : σ → β → σ × ρ) (final : σ₀ → σ → ω)
    (padI padI' : γ → γ) (padB padB' : β → β) (zeroR zeroR' : ρ → ρ) (D D' : Nat)
    (hD : 0 < D) (hD' : 0 < D') (shared : σ₀) (cs : List (Client ι β γ)) :
    pmapRun init step final padI padB zeroR D shared cs
      = pmapRun init step final padI' padB' zeroR' D' shared cs ∧
    (pmapRun init step final padI padB zeroR D shared cs).length = cs.length ∧
    ((pmapRun init step final padI padB zeroR D shared cs).map (·.1)).Perm (cs.map (·.id)) := by
  rw [C02_pmap_eq_seq _ _ _ padI padB zeroR D hD, C02_pmap_eq_seq _ _ _ padI' padB' zeroR' D' hD']
  refine ⟨rfl, ?_, ?_⟩
  · rw [List.length_map]; exact (sortDesc_perm cs).length_eq
  · rw [List.map_map]
    exact (sortDesc_perm cs).map _

/-- Shape of the blocks: every block is a non-empty run of at most `D` clients of the sorted
list, its first client has the block's maximal batch count (the number of masked batch slots),
every client gets exactly that many masked batches, and the blocks partition the sorted list. -/
theorem C02_block_shape (D : Nat) (hD : 0 < D) (cs : List (Client ι β γ)) (pb : β) :
    let blocks := chunk D (sortDesc cs).length (sortDesc cs)
    blocks.flatten = sortDesc cs ∧
    ∀ blk ∈ blocks, blk ≠ [] ∧ blk.length ≤ D ∧
      ∃ c0 rest, blk = c0 :: rest ∧
        ∀ c ∈ blk, c.batches.length ≤ c0.batches.length ∧
          (maskedBatches pb c0.batches.length c.batches).length = c0.batches.length := by
  refine ⟨chunk_flatten D hD _ _ (Nat.le_refl _), ?_⟩
  intro blk hblk
  obtain ⟨_, hne, hlen⟩ := chunk_sublist D hD _ _ blk hblk
  obtain ⟨c0, rest, rfl, hm⟩ := chunk_head_max D hD _ _ (sortDesc_pairwise cs) blk hblk
  exact ⟨hne, hlen, c0, rest, rfl, fun c hc => ⟨hm c hc, by simp [maskedBatches]⟩⟩

/-- A client's result under the pmap backend does not depend on which other clients share the call
(nor on how they are blocked over devices): every client of the cohort gets exactly its own sequential
result, and every yielded result is the sequential result of one cohort member with one step result
per batch. -/
theorem C02_client_independent (init : σ₀ → γ → σ) (step : σ → β → σ × ρ) (final : σ₀ → σ → ω)
    (padI : γ → γ) (padB : β → β) (zeroR : ρ → ρ) (D : Nat) (hD : 0 < D) (shared : σ₀)
    (cs : List (Client ι β γ)) :
    (∀ c ∈ cs, seqRun init step final shared c ∈ pmapRun init step final padI padB zeroR D shared cs) ∧
    (∀ r ∈ pmapRun init step final padI padB zeroR D shared cs,
      ∃ c ∈ cs, r = seqRun init step final shared c ∧ r.2.2.length = c.batches.length) := by
  have hp := C02_pmap_perm init step final padI padB zeroR D hD shared cs
  constructor
  · intro c hc
    exact hp.mem_iff.mpr (List.mem_map_of_mem hc)
  · intro r hr
    obtain ⟨c, hc, rfl⟩ := List.mem_map.mp (hp.mem_iff.mp hr)
    exact ⟨c, hc, rfl, by simp [seqRun, foldSteps_length]⟩

/-- A client with zero batches: `final(shared, init(shared, input))` and no step results. -/
theorem C02_zero_batch_client (init : σ₀ → γ → σ) (step : σ → β → σ × ρ) (final : σ₀ → σ → ω)
    (shared : σ₀) (c : Client ι β γ) (h : c.batches = []) :
    seqRun init step final shared c = (c.id, final shared (init shared c.input), []) := by
  simp [seqRun, h, foldSteps]

/-- `with_step_result=False`: wrapping the step as `(step(state, batch), ())` gives the plain
left fold of `step` as the client's final state. -/
theorem C02_with_step_result (f : σ → β → σ) (st : σ) (bs : List β) :
    (foldSteps (fun s b => (f s b, ())) st bs).1 = bs.foldl f st := by
  induction bs generalizing st with
  | nil => rfl
  | cons b bs ih => simp [foldSteps, ih]

/-! ### backend choice: context manager and threads -/

/-- well-bracketed op sequences of one thread; an `enter` with an unsupported name raises, so its
block (and its `exit`) never runs -/
inductive Balanced {B : Type} : List (Op B) → Prop
  | nil : Balanced []
  | get {ops} : Balanced ops → Balanced (.get :: ops)
  | set {a ops} : Balanced ops → Balanced (.set a :: ops)
  | enterBad {ops} : Balanced ops → Balanced (.enter .bad :: ops)
  | block {a inner ops} : a ≠ .bad → Balanced inner → Balanced ops →
      Balanced (.enter a :: (inner ++ .exit :: ops))

theorem trun_append {B} (dflt : B) (s : TState B) (xs ys : List (Op B)) :
    trun dflt s (xs ++ ys) = trun dflt (trun dflt s xs) ys := by
  simp [trun, List.foldl_append]

theorem trun_cons {B} (dflt : B) (s : TState B) (o : Op B) (ys : List (Op B)) :
    trun dflt s (o :: ys) = trun dflt (tstep dflt s o).1 ys := rfl

theorem tstep_exit {B} (dflt : B) (s : TState B) (old : Option B) (rest : List (Option B))
    (h : s.stack = old :: rest) : (tstep dflt s .exit).1 = ⟨old, rest⟩ := by
  simp [tstep, h]

theorem tstep_enter_stack {B} (dflt : B) (s : TState B) (a : Arg B) (ha : a ≠ .bad) :
    (tstep dflt s (.enter a)).1.stack = s.cur :: s.stack := by
  cases a with
  | none => rfl
  | ok b => rfl
  | bad => exact absurd rfl ha

/-- a balanced sequence leaves the stack of saved choices as it found it -/
theorem balanced_stack {B} (dflt : B) (ops : List (Op B)) (h : Balanced ops) :
    ∀ s : TState B, (trun dflt s ops).stack = s.stack := by
  induction h with
  | nil => intro s; rfl
  | get _ ih =>
    intro s; rw [trun_cons, ih]
    simp only [tstep]; split <;> rfl
  | @set a _ _ ih =>
    intro s; rw [trun_cons, ih]
    cases a <;> rfl
  | enterBad _ ih => intro s; rw [trun_cons, ih]; rfl
  | @block a inner ops ha _ _ ih1 ih2 =>
    intro s
    rw [trun_cons, trun_append, trun_cons, ih2]
    have h1 := ih1 (tstep dflt s (.enter a)).1
    rw [tstep_enter_stack dflt s a ha] at h1
    rw [tstep_exit dflt _ _ _ h1]

/-- **The context manager restores the choice.** For every thread state, every argument and every
balanced body (nested contexts, `set`s, `get`s, failed `enter`s): after the matching `exit` — reached
normally or by an exception unwinding the block — the raw choice and the stack are what they were
before the `enter`. -/
theorem C02_ctx_restores {B} (dflt : B) (s : TState B) (a : Arg B) (inner : List (Op B))
    (hin : Balanced inner) :
    a ≠ .bad → trun dflt s (.enter a :: (inner ++ [.exit])) = s := by
  intro ha
  rw [trun_cons, trun_append]
  have h1 := balanced_stack dflt inner hin (tstep dflt s (.enter a)).1
  rw [tstep_enter_stack dflt s a ha] at h1
  rw [trun_cons, tstep_exit dflt _ _ _ h1]
  rfl

/-- An `enter` with an unsupported backend name raises `ValueError` from inside the `try`; the
`finally` restores the previous choice: the state is unchanged. -/
theorem C02_ctx_bad_name {B} (dflt : B) (s : TState B) :
    (tstep dflt s (.enter .bad)).1 = s ∧ (tstep dflt s (.enter .bad)).2.valueError = true := by
  exact ⟨rfl, rfl⟩

/-- ops of thread `t` in a schedule -/
def opsOf {B} (t : Nat) (sched : List (Nat × Op B)) : List (Op B) :=
  (sched.filter (fun p => p.1 = t)).map (·.2)

/-- **Thread frame.** For every interleaving, the state of thread `u` after the schedule is the
result of running only `u`'s own ops, in their order: other threads' selections are invisible. -/
theorem C02_thread_frame {B} (dflt : B) (sched : List (Nat × Op B)) :
    ∀ (g : Nat → TState B) (u : Nat), grun dflt g sched u = trun dflt (g u) (opsOf u sched) := by
  induction sched with
  | nil => intro g u; rfl
  | cons p sched ih =>
    intro g u
    simp only [grun, List.foldl_cons] at *
    rw [ih]
    by_cases h : p.1 = u
    · subst h
      simp [opsOf, gstep, trun]
    · have h' : ¬ u = p.1 := fun e => h e.symm
      simp [opsOf, gstep, h, h']

/-! ## non-vacuity -/

example : Balanced ([.get, .enter (.ok 3), .set .none, .enter .bad, .get, .exit, .get] : List (Op Nat)) :=
  .get (.block (by decide) (.set (.enterBad (.get .nil))) (.get .nil))

example : trun 1 ⟨some 7, []⟩ ([.enter (.ok 3), .set .none, .get, .exit] : List (Op Nat)) = ⟨some 7, []⟩ :=
  C02_ctx_restores 1 _ _ _ (.set (.get .nil)) (by decide)

example :
    pmapRun (fun (s : Nat) (i : Nat) => s + i) (fun st (b : Nat) => (st * 2 + b, st)) (fun s st => s + st)
      (fun _ => 0) (fun _ => 0) (fun _ => 0) 2 1
      [(⟨7, [1, 2], 1⟩ : Client Nat Nat Nat), ⟨8, [], 0⟩, ⟨9, [4, 4, 4], 5⟩]
    = (sortDesc [(⟨7, [1, 2], 1⟩ : Client Nat Nat Nat), ⟨8, [], 0⟩, ⟨9, [4, 4, 4], 5⟩]).map
        (seqRun (fun (s : Nat) (i : Nat) => s + i) (fun st (b : Nat) => (st * 2 + b, st)) (fun s st => s + st) 1) :=
  C02_pmap_eq_seq _ _ _ _ _ _ 2 (by decide) 1 _

end FedjaxVerif.ForEach
