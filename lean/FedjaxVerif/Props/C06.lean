import FedjaxVerif.Model.Masked
import FedjaxVerif.Props.C03
import FedjaxVerif.Props.C07

/-!
# C06 — masked gradients and losses ignore padding and batch geometry

Property theorems about `Model/Masked.lean`.  A batch is a list of rows; a row carries its mask bit,
its per-example loss `ℓ`, its per-example gradient `g` and its domain id.  Rows with `mask = false`
are padding: the theorems quantify over *arbitrary* values in them, over arbitrary positions of the
real rows, over any number of padding rows (including batches with no real row) and over any split of
a dataset into batches.  `real rows` is the list of unpadded rows.

Everything is over `Rat`, so every per-example loss/gradient is finite.  That hypothesis is forced:
in float arithmetic `0 * NaN = NaN`, see `C06_nonfinite_padding_counterexample` at the end.
-/

namespace FedjaxVerif.Masked
open FedjaxVerif.TreeUtil

/-! ## specification vocabulary -/

/-- the real (unpadded) rows of a masked batch, in order -/
def real (rows : List Row) : List Row := rows.filter (·.mask)

/-- the rows that count in a batch of the average-loss step -/
def Batch.real (b : Batch) : List Row := if b.masked then Masked.real b.rows else b.rows

/-- all real rows of a list of masked batches -/
def allReal (batches : List (List Row)) : List Row := (batches.map real).flatten

/-- `Σ ℓ` -/
def sumLoss (rows : List Row) : Rat := (rows.map (·.loss)).sum

/-- `Σ g[k]` -/
def sumGradAt (k : Nat) (rows : List Row) : Rat := (rows.map fun x => x.grad.getD k 0).sum

/-- `s / n`, and `0` for `n = 0`: the mean over `n` examples, `0` (not NaN) without examples -/
def meanOr0 (s : Rat) (n : Nat) : Rat := if n = 0 then 0 else s / n

/-! ## helper lemmas -/

theorem sum_mask (f : Row → Rat) (rows : List Row) :
    (rows.map fun r => f r * r.m).sum = ((real rows).map f).sum := by
  induction rows with
  | nil => simp [real]
  | cons a rows ih =>
    simp only [real] at ih ⊢
    rw [List.map_cons, List.sum_cons, ih, List.filter_cons]
    cases h : a.mask <;> simp [Row.m, h]

theorem maskSum_eq (rows : List Row) : maskSum rows = ((real rows).length : Rat) := by
  have := sum_mask (fun _ => 1) rows
  simp only [one_mul] at this
  unfold maskSum
  rw [this]
  simp

theorem lossDot_eq (rows : List Row) : lossDot rows = sumLoss (real rows) := sum_mask _ rows

theorem gradDotAt_eq (k : Nat) (rows : List Row) : gradDotAt k rows = sumGradAt k (real rows) :=
  sum_mask _ rows

theorem safeDiv_nat (s : Rat) (n : Nat) : safeDiv s (n : Rat) = meanOr0 s n := by
  unfold safeDiv meanOr0
  by_cases h : n = 0
  · simp [h]
  · have : (n : Rat) ≠ 0 := Nat.cast_ne_zero.mpr h
    simp [h, this]

theorem real_real (rows : List Row) : real (real rows) = real rows := by
  simp [real]

theorem real_of_all_true (rows : List Row) (h : ∀ r ∈ rows, r.mask = true) : real rows = rows := by
  simp only [real, List.filter_eq_self]
  exact h

theorem sumLoss_append (a b : List Row) : sumLoss (a ++ b) = sumLoss a + sumLoss b := by
  simp [sumLoss]

theorem sumGradAt_append (k : Nat) (a b : List Row) :
    sumGradAt k (a ++ b) = sumGradAt k a + sumGradAt k b := by
  simp [sumGradAt]

/-! ## one padded batch: `models.grad` / `model_grad` -/

/-- The loss of a padded batch is the mean loss of its real rows plus the regularizer (once); it is
what the unpadded computation (`jnp.mean`) gives on the real rows alone; with no real row it is
`0 + ρ`, not NaN. -/
theorem C06_loss_padding (rows : List Row) (ρ : Rat) :
    lossMasked rows ρ = meanOr0 (sumLoss (real rows)) (real rows).length + ρ ∧
    (real rows ≠ [] → lossUnmasked (real rows) ρ = some (lossMasked rows ρ)) ∧
    (real rows = [] → lossMasked rows ρ = ρ) := by
  have h1 : lossMasked rows ρ = meanOr0 (sumLoss (real rows)) (real rows).length + ρ := by
    unfold lossMasked
    rw [lossDot_eq, maskSum_eq, safeDiv_nat]
  refine ⟨h1, ?_, ?_⟩
  · intro hne
    have hl : (real rows).length ≠ 0 := by simpa using hne
    rw [h1]
    simp [lossUnmasked, meanOr0, hl, sumLoss]
  · intro he
    rw [h1, he]; simp [meanOr0]

/-- The gradient of a padded batch is, coordinate by coordinate, the mean gradient of its real rows
plus the regularizer's gradient (once); it equals the unpadded computation on the real rows; with no
real row it is the regularizer's gradient alone (loss part `0`, not NaN). -/
theorem C06_grad_padding (d : Nat) (rows : List Row) (r : List Rat) :
    gradMasked d rows r
      = (List.range d).map (fun k =>
          meanOr0 (sumGradAt k (real rows)) (real rows).length + r.getD k 0) ∧
    (real rows ≠ [] → gradUnmasked d (real rows) r = some (gradMasked d rows r)) ∧
    (real rows = [] → gradMasked d rows r = (List.range d).map fun k => r.getD k 0) := by
  have h1 : gradMasked d rows r = (List.range d).map (fun k =>
      meanOr0 (sumGradAt k (real rows)) (real rows).length + r.getD k 0) := by
    unfold gradMasked
    apply List.map_congr_left
    intro k _
    rw [gradDotAt_eq, maskSum_eq, safeDiv_nat]
  refine ⟨h1, ?_, ?_⟩
  · intro hne
    have hl : (real rows).length ≠ 0 := by simpa using hne
    rw [h1]
    simp [gradUnmasked, meanOr0, hl, sumGradAt]
  · intro he
    rw [h1, he]; simp [meanOr0]

/-- Hence gradient and loss depend only on the real rows: content, number and position of the padding
rows are irrelevant. -/
theorem C06_ignores_padding (d : Nat) (rows rows' : List Row) (r : List Rat) (ρ : Rat)
    (h : real rows = real rows') :
    gradMasked d rows r = gradMasked d rows' r ∧ lossMasked rows ρ = lossMasked rows' ρ := by
  rw [(C06_grad_padding d rows r).1, (C06_grad_padding d rows' r).1,
    (C06_loss_padding rows ρ).1, (C06_loss_padding rows' ρ).1, h]
  exact ⟨rfl, rfl⟩

/-- … nor does the order of the real rows matter. -/
theorem C06_ignores_order (d : Nat) (rows rows' : List Row) (r : List Rat) (ρ : Rat)
    (h : (real rows).Perm (real rows')) :
    gradMasked d rows r = gradMasked d rows' r ∧ lossMasked rows ρ = lossMasked rows' ρ := by
  rw [(C06_grad_padding d rows r).1, (C06_grad_padding d rows' r).1,
    (C06_loss_padding rows ρ).1, (C06_loss_padding rows' ρ).1]
  have hl : (real rows).length = (real rows').length := h.length_eq
  have hs : sumLoss (real rows) = sumLoss (real rows') := (h.map _).sum_eq
  have hg : ∀ k, sumGradAt k (real rows) = sumGradAt k (real rows') := fun k => (h.map _).sum_eq
  simp only [hl, hs, hg, and_self]

/-! ## average loss over a dataset's batches -/

/-- all rows that count, over a list of average-loss batches -/
def allRealB (bs : List Batch) : List Row := (bs.map Batch.real).flatten

theorem lossStep_eq (st : Rat × Rat) (b : Batch) :
    lossStep st b = (st.1 + sumLoss b.real, st.2 + (b.real.length : Rat)) := by
  unfold lossStep Batch.real
  cases h : b.masked
  · simp [sumLoss]
  · simp [lossDot_eq, maskSum_eq]

theorem foldl_lossStep (bs : List Batch) :
    ∀ st : Rat × Rat, bs.foldl lossStep st
      = (st.1 + sumLoss (allRealB bs), st.2 + ((allRealB bs).length : Rat)) := by
  induction bs with
  | nil => intro st; simp [allRealB, sumLoss]
  | cons b bs ih =>
    intro st
    rw [List.foldl_cons, ih, lossStep_eq]
    simp only [allRealB, List.map_cons, List.flatten_cons, sumLoss_append, List.length_append,
      Nat.cast_add]
    congr 1 <;> ring

/-- `evaluate_average_loss` / `AverageLossEvaluator` / HypCluster's cluster loss over *any* list of
batches (padded or not, any sizes, fully padded batches anywhere) is `(Σℓ)/N + ρ` over the real
examples, with the regularizer added exactly once, and `0 + ρ` when there is no real example. -/
theorem C06_avg_loss_geometry (bs : List Batch) (ρ : Rat) :
    avgLoss bs ρ = meanOr0 (sumLoss (allRealB bs)) (allRealB bs).length + ρ := by
  unfold avgLoss
  simp only [foldl_lossStep, zero_add]
  rw [safeDiv_nat]

/-- Two batchings with the same real examples (in any order) have the same average loss. -/
theorem C06_avg_loss_perm (bs bs' : List Batch) (ρ : Rat) (h : (allRealB bs).Perm (allRealB bs')) :
    avgLoss bs ρ = avgLoss bs' ρ := by
  rw [C06_avg_loss_geometry, C06_avg_loss_geometry, h.length_eq]
  have : sumLoss (allRealB bs) = sumLoss (allRealB bs') := (h.map _).sum_eq
  rw [this]

/-- No real example at all: the average loss is `0` plus the regularizer, not NaN. -/
theorem C06_avg_loss_empty (bs : List Batch) (ρ : Rat) (h : allRealB bs = []) : avgLoss bs ρ = ρ := by
  rw [C06_avg_loss_geometry, h]; simp [meanOr0]

/-! ## Mime full-batch gradient -/

theorem gradMasked_length (d : Nat) (rows : List Row) (r : List Rat) :
    (gradMasked d rows r).length = d := by simp [gradMasked]

theorem coord_range_map (n k : Nat) (f : Nat → Rat) (hk : k < n) :
    coord k ((List.range n).map f) = f k := by
  simp [coord, List.getD_eq_getElem?_getD, hk]

/-- per batch: `num · grad = Σ g over the real rows + num · r` (the division cancels; a fully
padded batch contributes nothing) -/
theorem weighted_grad (k : Nat) (rows : List Row) (rk : Rat) :
    (meanOr0 (sumGradAt k (real rows)) (real rows).length + rk) * ((real rows).length : Rat)
      = sumGradAt k (real rows) + ((real rows).length : Rat) * rk := by
  unfold meanOr0
  by_cases h : (real rows).length = 0
  · have : real rows = [] := List.eq_nil_of_length_eq_zero h
    simp [this, sumGradAt]
  · have hne : ((real rows).length : Rat) ≠ 0 := Nat.cast_ne_zero.mpr h
    simp only [h, if_false]
    field_simp

theorem allReal_cons (b : List Row) (bs : List (List Row)) : allReal (b :: bs) = real b ++ allReal bs := by
  simp [allReal]

theorem foldl_mimeStep (d : Nat) (r : List Rat) (batches : List (List Row)) :
    ∀ st : List Rat × Rat, st.1.length = d →
      batches.foldl (mimeStep d r) st
        = ((List.range d).map (fun k => coord k st.1 + sumGradAt k (allReal batches)
              + ((allReal batches).length : Rat) * r.getD k 0),
           st.2 + ((allReal batches).length : Rat)) := by
  induction batches with
  | nil =>
    intro st hst
    simp only [List.foldl_nil, allReal, List.map_nil, List.flatten_nil, sumGradAt, List.sum_nil,
      List.length_nil, Nat.cast_zero, zero_mul, add_zero]
    rw [← eq_range_map d st.1 hst]
  | cons b bs ih =>
    intro st hst
    rw [List.foldl_cons]
    have hlen : (mimeStep d r st b).1.length = d := by
      simp only [mimeStep]
      exact treeAdd_length d _ _ (by simp [treeWeight, gradMasked_length]) hst
    rw [ih _ hlen]
    simp only [allReal_cons, sumGradAt_append, List.length_append, Nat.cast_add]
    congr 1
    · apply List.map_congr_left
      intro k hk
      rw [List.mem_range] at hk
      simp only [mimeStep]
      rw [coord_treeAdd d _ _ (by simp [treeWeight, gradMasked_length]) hst k hk, coord_treeWeight,
        (C06_grad_padding d b r).1, coord_range_map d k _ hk, maskSum_eq, weighted_grad]
      ring
    · simp only [mimeStep, maskSum_eq]; ring

/-- One client's output of `create_grads_for_each_client`: `(Σ g + N·r, N)` over its real rows —
whatever the padded batch size and bucket count were. -/
theorem C06_mime_client (d : Nat) (r : List Rat) (batches : List (List Row)) :
    mimeClient d r batches
      = ((List.range d).map (fun k => sumGradAt k (allReal batches)
            + ((allReal batches).length : Rat) * r.getD k 0),
         ((allReal batches).length : Rat)) := by
  unfold mimeClient
  rw [foldl_mimeStep d r batches _ (by simp)]
  congr 1
  · apply List.map_congr_left
    intro k hk
    rw [List.mem_range] at hk
    have : coord k (List.replicate d (0 : Rat)) = 0 := by
      simp [coord, List.getD_eq_getElem?_getD, hk]
    rw [this]; ring
  · ring

/-- all real rows of a cohort -/
def cohortReal (clients : List (List (List Row))) : List Row := (clients.map allReal).flatten

theorem sum_map_flatten (f : Row → Rat) (ls : List (List Row)) :
    ((ls.flatten).map f).sum = (ls.map fun l => (l.map f).sum).sum := by
  induction ls with
  | nil => simp
  | cons l ls _ => simp [Function.comp_def]

theorem length_flatten_cast (ls : List (List Row)) :
    ((ls.flatten).length : Rat) = (ls.map fun l => (l.length : Rat)).sum := by
  induction ls with
  | nil => simp
  | cons l ls _ => simp [Function.comp_def]

/-- The server's full-batch gradient over a cohort is `(Σ g)/N + r` over all real examples of all
clients — the example-weighted combination, regularizer once — for every padded batching of every
client (fully padded batches and empty clients contribute weight `0`); and `0`, not NaN, when the
cohort has no real example. -/
theorem C06_full_grad_geometry (d : Nat) (r : List Rat) (clients : List (List (List Row)))
    (hne : clients ≠ []) :
    fullGrad d r clients
      = some ((List.range d).map fun k =>
          if (cohortReal clients).length = 0 then 0
          else sumGradAt k (cohortReal clients) / ((cohortReal clients).length : Rat) + r.getD k 0) := by
  unfold fullGrad
  have hne' : (clients.map fun c => (mimeClient d r c).2 :: (mimeClient d r c).1) ≠ [] := by
    simpa using hne
  have hlen : ∀ t ∈ (clients.map fun c => (mimeClient d r c).2 :: (mimeClient d r c).1),
      t.length = d + 1 := by
    intro t ht
    obtain ⟨c, _, rfl⟩ := List.mem_map.mp ht
    simp [C06_mime_client]
  rw [C07_sum_formula (d + 1) _ hne' hlen, List.range_succ_eq_map]
  -- total weight and total gradient sum
  have hnum : ((clients.map fun c => (mimeClient d r c).2 :: (mimeClient d r c).1).map (coord 0)).sum
      = ((cohortReal clients).length : Rat) := by
    rw [List.map_map, cohortReal, length_flatten_cast, List.map_map]
    congr 1
    apply List.map_congr_left
    intro c _
    simp [coord, C06_mime_client]
  have hg : ∀ k, k < d →
      ((clients.map fun c => (mimeClient d r c).2 :: (mimeClient d r c).1).map (coord (k + 1))).sum
        = sumGradAt k (cohortReal clients) + ((cohortReal clients).length : Rat) * r.getD k 0 := by
    intro k hk
    rw [List.map_map]
    have : ∀ c ∈ clients, ((coord (k + 1)) ∘ fun c => (mimeClient d r c).2 :: (mimeClient d r c).1) c
        = sumGradAt k (allReal c) + ((allReal c).length : Rat) * r.getD k 0 := by
      intro c _
      show coord (k + 1) ((mimeClient d r c).2 :: (mimeClient d r c).1) = _
      have h1 : coord (k + 1) ((mimeClient d r c).2 :: (mimeClient d r c).1)
          = coord k (mimeClient d r c).1 := by simp [coord]
      rw [h1]
      simp only [C06_mime_client]
      exact coord_range_map d k _ hk
    rw [List.map_congr_left this]
    unfold sumGradAt cohortReal
    rw [sum_map_flatten, length_flatten_cast, List.map_map, List.map_map]
    generalize r.getD k 0 = rk
    clear this hnum hlen hne' hne
    induction clients with
    | nil => simp
    | cons c cs ih =>
      simp only [List.map_cons, List.sum_cons, Function.comp] at *
      rw [ih]; ring
  simp only [List.map_cons]
  rw [hnum]
  congr 1
  unfold treeInverseWeight treeWeight
  rw [List.map_map, List.map_map]
  apply List.map_congr_left
  intro k hk
  rw [List.mem_range] at hk
  simp only [Function.comp, Nat.succ_eq_add_one, hg k hk, inverseWeight_mul]
  by_cases h0 : (cohortReal clients).length = 0
  · simp [h0]
  · have hpos : (0 : Rat) < ((cohortReal clients).length : Rat) :=
      Nat.cast_pos.mpr (Nat.pos_of_ne_zero h0)
    simp only [h0, if_false, hpos, if_true]
    field_simp

/-! ## agnostic FedAvg per-domain sums -/

theorem segmentSum_length (D : Nat) (rows : List Row) (f : Row → Rat) :
    (segmentSum D rows f).length = D := by simp [segmentSum]

theorem real_filter (p : Row → Bool) (rows : List Row) :
    real (rows.filter p) = (real rows).filter p := by
  simp only [real, List.filter_filter]
  congr 1
  funext x
  exact Bool.and_comm _ _

/-- rows of domain `j` -/
def ofDomain (j : Nat) (rows : List Row) : List Row := rows.filter fun r => r.dom == j

theorem foldl_domainStep (D : Nat) (batches : List (List Row)) :
    ∀ st : List Rat × List Rat, st.1.length = D → st.2.length = D →
      batches.foldl (domainStep D) st
        = ((List.range D).map (fun j => coord j st.1 + sumLoss (ofDomain j (allReal batches))),
           (List.range D).map (fun j => coord j st.2 + ((ofDomain j (allReal batches)).length : Rat))) := by
  induction batches with
  | nil =>
    intro st h1 h2
    simp only [List.foldl_nil, allReal, ofDomain, List.map_nil, List.flatten_nil, List.filter_nil,
      sumLoss, List.sum_nil, List.length_nil, Nat.cast_zero, add_zero]
    rw [← eq_range_map D st.1 h1, ← eq_range_map D st.2 h2]
  | cons b bs ih =>
    intro st h1 h2
    rw [List.foldl_cons]
    have hl1 : (domainStep D st b).1.length = D :=
      treeAdd_length D _ _ h1 (segmentSum_length _ _ _)
    have hl2 : (domainStep D st b).2.length = D :=
      treeAdd_length D _ _ h2 (segmentSum_length _ _ _)
    rw [ih _ hl1 hl2]
    simp only [allReal_cons, ofDomain, List.filter_append, sumLoss_append, List.length_append,
      Nat.cast_add]
    congr 1
    · apply List.map_congr_left
      intro j hj
      rw [List.mem_range] at hj
      simp only [domainStep]
      rw [coord_treeAdd D _ _ h1 (segmentSum_length _ _ _) j hj]
      simp only [segmentSum, coord_range_map D j _ hj]
      rw [sum_mask, real_filter]
      simp only [sumLoss]; ring
    · apply List.map_congr_left
      intro j hj
      rw [List.mem_range] at hj
      simp only [domainStep]
      rw [coord_treeAdd D _ _ h2 (segmentSum_length _ _ _) j hj]
      simp only [segmentSum, coord_range_map D j _ hj]
      have := maskSum_eq (b.filter fun r => r.dom == j)
      unfold maskSum at this
      rw [this, real_filter]
      ring

/-- Per-domain loss sums and example counts of a client depend only on its real examples: for every
padded batching, entry `j` is `Σ ℓ` resp. the number of real examples with `domain_id = j`. -/
theorem C06_domain_geometry (D : Nat) (batches : List (List Row)) :
    domainSums D batches
      = ((List.range D).map (fun j => sumLoss (ofDomain j (allReal batches))),
         (List.range D).map (fun j => ((ofDomain j (allReal batches)).length : Rat))) := by
  unfold domainSums
  rw [foldl_domainStep D batches _ (by simp) (by simp)]
  congr 1 <;>
  · apply List.map_congr_left
    intro j hj
    rw [List.mem_range] at hj
    have : coord j (List.replicate D (0 : Rat)) = 0 := by
      simp [coord, List.getD_eq_getElem?_getD, hj]
    rw [this]; ring

/-- Two batchings of a client with the same real examples, in any order, give the same per-domain
sums and counts. -/
theorem C06_domain_perm (D : Nat) (batches batches' : List (List Row))
    (h : (allReal batches).Perm (allReal batches')) :
    domainSums D batches = domainSums D batches' := by
  rw [C06_domain_geometry, C06_domain_geometry]
  congr 1
  · apply List.map_congr_left
    intro j _
    exact ((h.filter _).map _).sum_eq
  · apply List.map_congr_left
    intro j _
    have := (h.filter (fun r => r.dom == j)).length_eq
    simp only [ofDomain, this]

/-! ## tie to the padded batching of C03: independence of `(batch_size, num_batch_size_buckets)` -/

/-- the rows of a padded batch `(examples, mask)` of `PaddedBatchView`, given the per-example
quantities `f e` (evaluated on padding rows as well — there they are arbitrary) -/
def rowsOf {α} (f : α → Row) (p : List α × List Bool) : List Row :=
  List.zipWith (fun e m => { f e with mask := m }) p.1 p.2

theorem real_rowsOf {α} (f : α → Row) (p : List α × List Bool) :
    real (rowsOf f p) = (Batching.unpadBatch p).map fun e => { f e with mask := true } := by
  obtain ⟨es, ms⟩ := p
  unfold rowsOf Batching.unpadBatch real
  induction es generalizing ms with
  | nil => simp
  | cons e es ih =>
    cases ms with
    | nil => simp
    | cons m ms =>
      simp only [List.zipWith_cons_cons, List.zip_cons_cons, List.filter_cons, List.filterMap_cons]
      cases m <;> simp [ih]

/-- For every batch size and bucket count, the real rows of `padded_batch` are exactly the dataset's
examples, each once, in order: so every quantity above, being a function of the real rows, is
independent of `(batch_size, num_batch_size_buckets)`. -/
theorem C06_padded_view_real {α} (f : α → Row) (bs B : Nat) (hbs : 0 < bs) (hB : 0 < B) (z : α)
    (xs : List α) :
    ∃ v, Batching.paddedView bs B z xs = some v ∧
      allReal (v.map (rowsOf f)) = xs.map fun e => { f e with mask := true } := by
  obtain ⟨v, hv, hu⟩ := Batching.C03_padded_unpad bs B hbs hB z xs
  refine ⟨v, hv, ?_⟩
  rw [← hu]
  unfold allReal Batching.unpad
  rw [List.map_map, List.flatMap_def, List.map_flatten, List.map_map]
  congr 2
  funext p
  exact real_rowsOf f p

/-- Average loss, Mime client output and per-domain sums computed from `padded_batch(bs, B)` and from
`padded_batch(bs', B')` of the same dataset coincide. -/
theorem C06_batch_size_independent {α} (f : α → Row) (bs B bs' B' : Nat) (hbs : 0 < bs) (hB : 0 < B)
    (hbs' : 0 < bs') (hB' : 0 < B') (z : α) (xs : List α) (ρ : Rat) (d D : Nat) (r : List Rat) :
    ∃ v v', Batching.paddedView bs B z xs = some v ∧ Batching.paddedView bs' B' z xs = some v' ∧
      avgLoss (v.map fun p => ⟨true, rowsOf f p⟩) ρ = avgLoss (v'.map fun p => ⟨true, rowsOf f p⟩) ρ ∧
      mimeClient d r (v.map (rowsOf f)) = mimeClient d r (v'.map (rowsOf f)) ∧
      domainSums D (v.map (rowsOf f)) = domainSums D (v'.map (rowsOf f)) := by
  obtain ⟨v, hv, h1⟩ := C06_padded_view_real f bs B hbs hB z xs
  obtain ⟨v', hv', h2⟩ := C06_padded_view_real f bs' B' hbs' hB' z xs
  refine ⟨v, v', hv, hv', ?_, ?_, ?_⟩
  · have e : ∀ w : List (List α × List Bool),
        allRealB (w.map fun p => (⟨true, rowsOf f p⟩ : Batch)) = allReal (w.map (rowsOf f)) := by
      intro w
      simp [allRealB, allReal, Batch.real, List.map_map, Function.comp_def]
    rw [C06_avg_loss_geometry, C06_avg_loss_geometry, e, e, h1, h2]
  · rw [C06_mime_client, C06_mime_client, h1, h2]
  · rw [C06_domain_geometry, C06_domain_geometry, h1, h2]

/-! ## the finiteness hypothesis is forced (DESIGN §6 row 20, known finding)

`Row.loss`/`Row.grad` are rationals, i.e. finite.  In float arithmetic the code multiplies *every*
row's value by its mask bit, and `0 * NaN = NaN`, `0 * ±Inf = NaN`: a per-example gradient that is
non-finite on a padding row (e.g. `log x` on an all-zero row) poisons `Σ maskᵢ·gᵢ`.  The following
float-faithful variant of `gradDotAt` (value `none` = non-finite) shows the gap. -/

/-- a row whose per-example gradient may be non-finite (`none`) -/
structure FRow where
  mask : Bool
  grad : Option (List Rat)

/-- float-faithful `Σ maskᵢ · gᵢ[k]`: a non-finite term makes the sum non-finite, masked or not -/
def gradDotAtF (k : Nat) (rows : List FRow) : Option Rat :=
  rows.foldl (fun acc r => match acc, r.grad with
    | some a, some g => some (a + g.getD k 0 * (if r.mask then 1 else 0))
    | _, _ => none) (some 0)

/-- what the property demands: only the real rows count -/
def gradDotAtSpec (k : Nat) (rows : List FRow) : Option Rat :=
  (rows.filter (·.mask)).foldl (fun acc r => match acc, r.grad with
    | some a, some g => some (a + g.getD k 0)
    | _, _ => none) (some 0)

/-- A padded batch whose real rows are all finite but whose padding row is not: the code's sum is
non-finite although the property's value is finite. -/
theorem C06_nonfinite_padding_counterexample :
    ∃ rows : List FRow, (∀ r ∈ rows, r.mask = true → r.grad.isSome) ∧
      gradDotAtF 0 rows = none ∧ gradDotAtSpec 0 rows = some 1 := by
  refine ⟨[⟨true, some [1]⟩, ⟨false, none⟩], ?_, ?_, ?_⟩
  · intro r hr hm
    simp only [List.mem_cons, List.not_mem_nil, or_false] at hr
    rcases hr with rfl | rfl
    · rfl
    · simp at hm
  · simp [gradDotAtF]
  · simp [gradDotAtSpec]

/-- With every row finite the float-faithful sum is the model's `gradDotAt`. -/
theorem C06_finite_rows_agree (k : Nat) (rows : List Row) :
    gradDotAtF k (rows.map fun r => ⟨r.mask, some r.grad⟩) = some (gradDotAt k rows) := by
  have : ∀ (a : Rat), (rows.map fun r => (⟨r.mask, some r.grad⟩ : FRow)).foldl
      (fun acc r => match acc, r.grad with
        | some a, some g => some (a + g.getD k 0 * (if r.mask then 1 else 0))
        | _, _ => none) (some a) = some (a + gradDotAt k rows) := by
    induction rows with
    | nil => intro a; simp [gradDotAt]
    | cons x xs ih =>
      intro a
      simp only [List.map_cons, List.foldl_cons]
      rw [ih]
      simp only [gradDotAt, List.map_cons, List.sum_cons, Row.m]
      congr 1; ring
  unfold gradDotAtF
  rw [this 0]; simp

/-! ## non-vacuity -/

example : gradMasked 2 [⟨true, 3, [1, 2], 0⟩, ⟨false, 100, [50, 60], 0⟩, ⟨true, 5, [3, 4], 1⟩] [1/2, 0]
    = [5/2, 3] := by
  rw [(C06_grad_padding _ _ _).1]
  norm_num [real, sumGradAt, meanOr0, List.range, List.range.loop]
example : real [⟨true, 3, [1, 2], 0⟩, ⟨false, 100, [50, 60], 0⟩, ⟨true, 5, [3, 4], 1⟩]
    = [⟨true, 3, [1, 2], 0⟩, ⟨true, 5, [3, 4], 1⟩] := by simp [real]
example : gradMasked 2 [⟨false, 100, [50, 60], 0⟩] [1/2, 0] = [1/2, 0] := by
  rw [(C06_grad_padding _ _ _).2.2 (by simp [real])]
  simp [List.range, List.range.loop]
example : avgLoss [⟨true, [⟨true, 3, [], 0⟩, ⟨false, 100, [], 0⟩]⟩, ⟨false, [⟨true, 5, [], 0⟩]⟩] (1/4)
    = 17/4 := by
  rw [C06_avg_loss_geometry]
  norm_num [allRealB, Batch.real, real, sumLoss, meanOr0]
example : fullGrad 1 [1/2] [[[⟨true, 3, [1], 0⟩, ⟨false, 9, [9], 0⟩], [⟨false, 9, [9], 0⟩]], [[⟨true, 5, [3], 0⟩]]]
    = some [5/2] := by
  rw [C06_full_grad_geometry _ _ _ (by simp)]
  norm_num [cohortReal, allReal, real, sumGradAt, List.range, List.range.loop]
example : domainSums 2 [[⟨true, 3, [], 0⟩, ⟨false, 100, [], 0⟩], [⟨true, 5, [], 1⟩, ⟨true, 7, [], 0⟩]]
    = ([10, 5], [2, 1]) := by
  rw [C06_domain_geometry]
  norm_num [allReal, real, ofDomain, sumLoss, List.range, List.range.loop]

example : lossMasked [⟨true, 3, [], 0⟩, ⟨false, 100, [], 0⟩, ⟨true, 5, [], 0⟩] (1/4) = 17/4 := by
  rw [(C06_loss_padding _ _).1]
  norm_num [real, sumLoss, meanOr0]
example : gradMasked 1 [⟨true, 3, [1], 0⟩, ⟨false, 100, [50], 0⟩] [1/2]
    = gradMasked 1 [⟨false, 7, [7], 2⟩, ⟨false, 8, [8], 1⟩, ⟨true, 3, [1], 0⟩] [1/2] :=
  (C06_ignores_padding 1 _ _ [1/2] 0 (by simp [real])).1
example : lossMasked [⟨true, 3, [1], 0⟩, ⟨false, 100, [50], 0⟩, ⟨true, 5, [2], 0⟩] 1
    = lossMasked [⟨true, 5, [2], 0⟩, ⟨true, 3, [1], 0⟩] 1 :=
  (C06_ignores_order 1 _ _ [] 1 (by simp [real]; exact List.Perm.swap _ _ _)).2
example : avgLoss [⟨true, [⟨true, 3, [], 0⟩, ⟨false, 9, [], 0⟩]⟩, ⟨true, [⟨true, 5, [], 0⟩]⟩] 1
    = avgLoss [⟨false, [⟨true, 5, [], 0⟩, ⟨true, 3, [], 0⟩]⟩] 1 :=
  C06_avg_loss_perm _ _ 1 (by simp [allRealB, Batch.real, real]; exact List.Perm.swap _ _ _)
example : avgLoss [⟨true, [⟨false, 9, [], 0⟩]⟩, ⟨true, []⟩] (1/4) = 1/4 :=
  C06_avg_loss_empty _ _ (by simp [allRealB, Batch.real, real])
example : mimeClient 1 [1/2] [[⟨true, 3, [1], 0⟩, ⟨false, 9, [9], 0⟩], [⟨false, 9, [9], 0⟩], [⟨true, 5, [3], 0⟩]]
    = ([5], 2) := by
  rw [C06_mime_client]
  norm_num [allReal, real, sumGradAt, List.range, List.range.loop]
example : domainSums 2 [[⟨true, 3, [], 0⟩, ⟨false, 100, [], 0⟩], [⟨true, 5, [], 1⟩]]
    = domainSums 2 [[⟨true, 5, [], 1⟩, ⟨true, 3, [], 0⟩]] :=
  C06_domain_perm 2 _ _ (by simp [allReal, real]; exact List.Perm.swap _ _ _)
example : ∃ v, Batching.paddedView 2 1 (0 : Rat) [1, 2, 3] = some v ∧
    allReal (v.map (rowsOf fun e => ⟨true, e, [e], 0⟩))
      = [1, 2, 3].map fun e => { (⟨true, e, [e], 0⟩ : Row) with mask := true } :=
  C06_padded_view_real _ 2 1 (by decide) (by decide) 0 [1, 2, 3]
example : ∃ v v', Batching.paddedView 2 1 (0 : Rat) [1, 2, 3] = some v ∧
    Batching.paddedView 3 2 (0 : Rat) [1, 2, 3] = some v' ∧
    avgLoss (v.map fun p => ⟨true, rowsOf (fun e => ⟨true, e, [e], 0⟩) p⟩) 1
      = avgLoss (v'.map fun p => ⟨true, rowsOf (fun e => ⟨true, e, [e], 0⟩) p⟩) 1 ∧
    mimeClient 1 [1] (v.map (rowsOf fun e => ⟨true, e, [e], 0⟩))
      = mimeClient 1 [1] (v'.map (rowsOf fun e => ⟨true, e, [e], 0⟩)) ∧
    domainSums 2 (v.map (rowsOf fun e => ⟨true, e, [e], 0⟩))
      = domainSums 2 (v'.map (rowsOf fun e => ⟨true, e, [e], 0⟩)) :=
  C06_batch_size_independent _ 2 1 3 2 (by decide) (by decide) (by decide) (by decide) 0 [1, 2, 3] 1 1 2 [1]
example : gradDotAtF 0 (([⟨true, 3, [1], 0⟩, ⟨false, 9, [9], 0⟩] : List Row).map fun r => ⟨r.mask, some r.grad⟩)
    = some (gradDotAt 0 [⟨true, 3, [1], 0⟩, ⟨false, 9, [9], 0⟩]) := C06_finite_rows_agree 0 _

end FedjaxVerif.Masked
