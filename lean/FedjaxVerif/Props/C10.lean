import FedjaxVerif.Model.Purity
import Mathlib.Data.List.Nodup
import Mathlib.Tactic.Ring
import Mathlib.Tactic.Linarith

/-!
# C10 — a training round is a pure function of (server state, clients)

In Lean a round *is* a function: `round s c = round s c` holds by `rfl` and says nothing about
Python, so it is **not** stated here.  That the real `apply` does not write into the caller's
containers, does not donate the caller's buffers and keeps no state outside its arguments is
decided on every run by the correspondence monitor (harness/props/c10.py), on generated
histories only — this is why the property is labelled *partial*.

What is proved is the logic of the state that must flow explicitly (model: `Model/Purity.lean`):

* APFL's client-state table: the new table is the input table updated at exactly the participating
  ids, every participant starts from its entry of the *input* table, the result depends on the
  table only as a map; the in-place code as it stood computes the same single-call result for
  distinct ids, and the monitor's "call twice" test provably exposes it.
* compression aggregators: next state `(bits + Δ, carried key)`, the output is determined by
  `(inputs, state)` and the quantizer restricted to keys below the state key, the keys of different
  rounds / clients are pairwise prefix-free paths of the splitting tree.
* checkpoint-and-continue: with a codec `load ∘ save = id` (or `≈ id` for a congruence of the
  round) every history with save/load round trips at arbitrary rounds equals the plain history.
* agnostic FedAvg's sliding window is a function of the previous window value and keeps its length.
-/

namespace FedjaxVerif.Purity
open FedjaxVerif.FedAvg (P Optimizer ServerState)

/-! ## tables -/

namespace Table
variable {ι α : Type} [DecidableEq ι]

theorem get?_set_eq (t : Table ι α) (i : ι) (v : α) : (t.set i v).get? i = some v := by
  induction t with
  | nil => simp [set, get?]
  | cons p t ih =>
    obtain ⟨j, w⟩ := p
    by_cases h : j = i
    · simp [set, get?, h]
    · simp only [set, h, if_false]
      simp only [get?, List.find?_cons, h, decide_false] at ih ⊢
      exact ih

theorem get?_set_ne (t : Table ι α) (i j : ι) (v : α) (h : j ≠ i) :
    (t.set i v).get? j = t.get? j := by
  induction t with
  | nil => simp [set, get?, Ne.symm h]
  | cons p t ih =>
    obtain ⟨k, w⟩ := p
    by_cases hk : k = i
    · subst hk
      have : ¬ k = j := fun e => h e.symm
      simp [set, get?, this]
    · simp only [set, hk, if_false]
      by_cases hkj : k = j
      · simp [get?, hkj]
      · simp only [get?, List.find?_cons, hkj, decide_false] at ih ⊢
        exact ih

theorem mem_keys_set (t : Table ι α) (i j : ι) (v : α) :
    j ∈ (t.set i v).keys ↔ j ∈ t.keys ∨ j = i := by
  induction t with
  | nil => simp [set, keys]
  | cons p t ih =>
    obtain ⟨k, w⟩ := p
    by_cases hk : k = i
    · subst hk
      simp only [set, if_true, keys, List.map_cons, List.mem_cons]
      tauto
    · simp only [set, hk, if_false]
      simp only [keys, List.map_cons, List.mem_cons] at ih ⊢
      rw [ih]
      tauto

theorem mem_keys_iff (t : Table ι α) (i : ι) : i ∈ t.keys ↔ (t.get? i).isSome := by
  induction t with
  | nil => simp [keys, get?]
  | cons p t ih =>
    obtain ⟨k, w⟩ := p
    by_cases hk : k = i
    · simp [keys, get?, hk]
    · simp only [keys, List.map_cons, List.mem_cons, get?, List.find?_cons, hk, decide_false] at ih ⊢
      rw [← ih]
      constructor
      · rintro (h | h)
        · exact absurd h.symm hk
        · exact h
      · exact Or.inr

/-- the last assignment to `i` in a list of assignments -/
def lastFor (rs : List (ι × α)) (i : ι) : Option α :=
  (rs.reverse.find? (fun r => r.1 = i)).map (·.2)

theorem lastFor_cons (r : ι × α) (rs : List (ι × α)) (i : ι) :
    lastFor (r :: rs) i = (lastFor rs i).or (if r.1 = i then some r.2 else none) := by
  unfold lastFor
  rw [List.reverse_cons, List.find?_append]
  cases h : rs.reverse.find? (fun r => decide (r.1 = i)) with
  | some x => simp
  | none =>
    by_cases hr : r.1 = i <;> simp [hr]

/-- a dict after a sequence of assignments: the last assignment to a key wins, the other keys keep
their value -/
theorem get?_setAll (t : Table ι α) (rs : List (ι × α)) (i : ι) :
    (t.setAll rs).get? i = (lastFor rs i).or (t.get? i) := by
  induction rs generalizing t with
  | nil => simp [setAll, lastFor]
  | cons r rs ih =>
    have : setAll t (r :: rs) = setAll (t.set r.1 r.2) rs := rfl
    rw [this, ih, lastFor_cons]
    cases h : lastFor rs i with
    | some x => simp
    | none =>
      by_cases hr : r.1 = i
      · subst hr; simp [get?_set_eq]
      · simp [hr, get?_set_ne t r.1 i r.2 (fun e => hr e.symm)]

theorem lastFor_eq_none (rs : List (ι × α)) (i : ι) :
    lastFor rs i = none ↔ ∀ r ∈ rs, r.1 ≠ i := by
  unfold lastFor
  simp [List.find?_eq_none]

theorem mem_keys_setAll (t : Table ι α) (rs : List (ι × α)) (i : ι) :
    i ∈ (t.setAll rs).keys ↔ i ∈ t.keys ∨ ∃ r ∈ rs, r.1 = i := by
  induction rs generalizing t with
  | nil => simp [setAll]
  | cons r rs ih =>
    have : setAll t (r :: rs) = setAll (t.set r.1 r.2) rs := rfl
    rw [this, ih, mem_keys_set]
    simp only [List.mem_cons, exists_eq_or_imp]
    constructor
    · rintro ((h | h) | h)
      · exact Or.inl h
      · exact Or.inr (Or.inl h.symm)
      · exact Or.inr (Or.inr h)
    · rintro (h | h | h)
      · exact Or.inl (Or.inl h)
      · exact Or.inl (Or.inr h.symm)
      · exact Or.inr h

/-- with pairwise distinct keys the last assignment to `r.1` is `r` itself -/
theorem lastFor_of_nodup (rs : List (ι × α)) (hnd : (rs.map (·.1)).Nodup) (r : ι × α) (hr : r ∈ rs) :
    lastFor rs r.1 = some r.2 := by
  induction rs with
  | nil => cases hr
  | cons x rs ih =>
    rw [lastFor_cons]
    simp only [List.map_cons, List.nodup_cons] at hnd
    rcases List.mem_cons.mp hr with h | h
    · subst h
      have : lastFor rs r.1 = none := by
        rw [lastFor_eq_none]
        intro y hy e
        exact hnd.1 (List.mem_map.mpr ⟨y, hy, e⟩)
      simp [this]
    · rw [ih hnd.2 h]; simp

end Table

/-! ## APFL: the per-client state table -/

section apfl
variable {β σc σs ι : Type} [DecidableEq ι]

/-- the new persistent state of participant `i` according to the round's results (last one wins) -/
def resultFor (rs : List (ι × ClientSt × P)) (i : ι) : Option ClientSt :=
  Table.lastFor (rs.map fun r => (r.1, r.2.1)) i

/-- **Table update.** After a round the table maps every participating id to the state its training
produced in this round and every other id to what the *input* table held. -/
theorem C10_apfl_table (grad : P → β → NKey → P) (copt : Optimizer σc) (sopt : Optimizer σs)
    (c0 : Rat) (s : AState ι σs) (clients : List (AClient ι β)) (i : ι) :
    (apflRound grad copt sopt c0 s clients).table.get? i
      = (resultFor (apflResults grad copt c0 s clients) i).or (s.table.get? i) := by
  simp only [apflRound, resultFor]
  exact Table.get?_setAll _ _ _

/-- **Frame.** The entry of an id that did not participate is the input's entry. -/
theorem C10_apfl_table_frame (grad : P → β → NKey → P) (copt : Optimizer σc) (sopt : Optimizer σs)
    (c0 : Rat) (s : AState ι σs) (clients : List (AClient ι β)) (i : ι)
    (hi : ∀ c ∈ clients, c.id ≠ i) :
    (apflRound grad copt sopt c0 s clients).table.get? i = s.table.get? i := by
  rw [C10_apfl_table]
  have : resultFor (apflResults grad copt c0 s clients) i = none := by
    unfold resultFor
    rw [Table.lastFor_eq_none]
    intro r hr
    simp only [apflResults, List.map_map, List.mem_map, Function.comp] at hr
    obtain ⟨c, hc, rfl⟩ := hr
    exact hi c hc
  simp [this]

/-- **Participants start from the input table.** With pairwise distinct ids, the new entry of a
participant is its training started from the server params and from the entry the *input* table
holds for it (or the default state) — never from a state written earlier in the same round or by
an earlier call. -/
theorem C10_apfl_reads_input (grad : P → β → NKey → P) (copt : Optimizer σc) (sopt : Optimizer σs)
    (c0 : Rat) (s : AState ι σs) (clients : List (AClient ι β))
    (hnd : (clients.map (·.id)).Nodup) (c : AClient ι β) (hc : c ∈ clients) :
    (apflRound grad copt sopt c0 s clients).table.get? c.id
      = some (trainClient grad copt s.server.params
          (s.table.getD c.id (defaultSt s.server.params c0)) c).1 := by
  rw [C10_apfl_table]
  unfold resultFor
  have hnd' : (((apflResults grad copt c0 s clients).map fun r => (r.1, r.2.1)).map (·.1)).Nodup := by
    simp only [apflResults, List.map_map]
    exact hnd
  have hmem : (c.id, (trainClient grad copt s.server.params
      (s.table.getD c.id (defaultSt s.server.params c0)) c).1) ∈
      (apflResults grad copt c0 s clients).map fun r => (r.1, r.2.1) := by
    simp only [apflResults, List.map_map, List.mem_map, Function.comp]
    exact ⟨c, hc, rfl⟩
  rw [Table.lastFor_of_nodup _ hnd' _ hmem]
  rfl

/-- **Key set.** The ids of the new table are the ids of the input table plus the participants. -/
theorem C10_apfl_table_keys (grad : P → β → NKey → P) (copt : Optimizer σc) (sopt : Optimizer σs)
    (c0 : Rat) (s : AState ι σs) (clients : List (AClient ι β)) (i : ι) :
    i ∈ (apflRound grad copt sopt c0 s clients).table.keys
      ↔ i ∈ s.table.keys ∨ ∃ c ∈ clients, c.id = i := by
  simp only [apflRound]
  rw [Table.mem_keys_setAll]
  simp [apflResults]

/-- **The table matters only as a map.** Two input states with the same server part whose tables
agree as maps (e.g. a restored copy whose dict is ordered differently) give the same new server
state and tables that again agree as maps. -/
theorem C10_apfl_map_congr (grad : P → β → NKey → P) (copt : Optimizer σc) (sopt : Optimizer σs)
    (c0 : Rat) (s s' : AState ι σs) (clients : List (AClient ι β))
    (hs : s.server = s'.server) (ht : ∀ i, s.table.get? i = s'.table.get? i) :
    (apflRound grad copt sopt c0 s clients).server = (apflRound grad copt sopt c0 s' clients).server
    ∧ ∀ i, (apflRound grad copt sopt c0 s clients).table.get? i
          = (apflRound grad copt sopt c0 s' clients).table.get? i := by
  have hr : apflResults grad copt c0 s clients = apflResults grad copt c0 s' clients := by
    simp only [apflResults, Table.getD, ht, hs]
  refine ⟨?_, fun i => ?_⟩
  · simp only [apflRound, hr, hs]
  · rw [C10_apfl_table, C10_apfl_table, hr, ht]

/-- **Only a participant's own entry matters.** Two input states with the same server part whose
tables agree at the ids of the participants give the same per-client results (new states and
deltas) — whatever else the tables hold, and in particular whether or not *other* clients have an
entry.  (The harness tests exactly this: removing one returning client's entry changes that
client's new entry and nobody else's.) -/
theorem C10_apfl_entry_local (grad : P → β → NKey → P) (copt : Optimizer σc) (c0 : Rat)
    (s s' : AState ι σs) (clients : List (AClient ι β)) (hs : s.server = s'.server)
    (ht : ∀ c ∈ clients, s.table.get? c.id = s'.table.get? c.id) :
    apflResults grad copt c0 s clients = apflResults grad copt c0 s' clients := by
  unfold apflResults
  apply List.map_congr_left
  intro c hc
  simp only [Table.getD, ht c hc, hs]

/-- fold invariant of the in-place code -/
theorem inplace_fold (grad : P → β → NKey → P) (copt : Optimizer σc) (c0 : Rat) (s : AState ι σs) :
    ∀ (cs : List (AClient ι β)) (T : Table ι ClientSt) (L : List (ι × P)),
    (cs.map (·.id)).Nodup → (∀ c ∈ cs, T.get? c.id = s.table.get? c.id) →
    cs.foldl (fun (acc : Table ι ClientSt × List (ι × P)) c =>
      let r := trainClient grad copt s.server.params
        (acc.1.getD c.id (defaultSt s.server.params c0)) c
      (acc.1.set c.id r.1, acc.2 ++ [(c.id, r.2)])) (T, L)
    = (T.setAll ((apflResults grad copt c0 s cs).map fun r => (r.1, r.2.1)),
       L ++ (apflResults grad copt c0 s cs).map fun r => (r.1, r.2.2)) := by
  intro cs
  induction cs with
  | nil => intro T L _ _; simp [apflResults, Table.setAll]
  | cons c cs ih =>
    intro T L hnd hT
    simp only [List.map_cons, List.nodup_cons] at hnd
    rw [List.foldl_cons]
    have hget : T.getD c.id (defaultSt s.server.params c0)
        = s.table.getD c.id (defaultSt s.server.params c0) := by
      simp only [Table.getD, hT c (List.mem_cons_self)]
    simp only [hget]
    rw [ih _ _ hnd.2]
    · simp only [apflResults, List.map_cons, Table.setAll, List.foldl_cons, List.append_assoc,
        List.cons_append, List.nil_append]
    · intro c' hc'
      have hne : c'.id ≠ c.id := fun e => hnd.1 (List.mem_map.mpr ⟨c', hc', e⟩)
      rw [Table.get?_set_ne _ _ _ _ hne]
      exact hT c' (List.mem_cons_of_mem _ hc')

/-- **A single call of the in-place code is right.** For pairwise distinct ids the code as it stood
(one dict read and written while looping) returns exactly the state of `apflRound`; the defect is
not in the value returned by one call but in what happens to the caller's dict. -/
theorem C10_apfl_inplace_agrees (grad : P → β → NKey → P) (copt : Optimizer σc) (sopt : Optimizer σs)
    (c0 : Rat) (s : AState ι σs) (clients : List (AClient ι β))
    (hnd : (clients.map (·.id)).Nodup) :
    apflRoundInPlace grad copt sopt c0 s clients = apflRound grad copt sopt c0 s clients := by
  unfold apflRoundInPlace apflRound
  rw [inplace_fold grad copt c0 s clients s.table [] hnd (fun _ _ => rfl)]
  simp

/-- **The call-twice monitor exposes an in-place table.** Under the in-place code the caller's
state holds the *output* table after the first call.  If some participant's training is not
idempotent (training again from its new state moves it), the second call with "the same" state
returns a different table — so the monitor's comparison of two identical calls fails. -/
theorem C10_alias_detected (grad : P → β → NKey → P) (copt : Optimizer σc) (sopt : Optimizer σs)
    (c0 : Rat) (s : AState ι σs) (clients : List (AClient ι β))
    (hnd : (clients.map (·.id)).Nodup) (c : AClient ι β) (hc : c ∈ clients)
    (hmove :
      (trainClient grad copt s.server.params
        (trainClient grad copt s.server.params
          (s.table.getD c.id (defaultSt s.server.params c0)) c).1 c).1
      ≠ (trainClient grad copt s.server.params
          (s.table.getD c.id (defaultSt s.server.params c0)) c).1) :
    let out1 := apflRoundInPlace grad copt sopt c0 s clients
    let out2 := apflRoundInPlace grad copt sopt c0 ⟨s.server, out1.table⟩ clients
    out2.table ≠ out1.table := by
  intro out1 out2 heq
  have h1 : out1.table.get? c.id = some (trainClient grad copt s.server.params
      (s.table.getD c.id (defaultSt s.server.params c0)) c).1 := by
    simp only [out1, C10_apfl_inplace_agrees grad copt sopt c0 s clients hnd]
    exact C10_apfl_reads_input grad copt sopt c0 s clients hnd c hc
  have h2 : out2.table.get? c.id = some (trainClient grad copt s.server.params
      (out1.table.getD c.id (defaultSt s.server.params c0)) c).1 := by
    simp only [out2, C10_apfl_inplace_agrees grad copt sopt c0 ⟨s.server, out1.table⟩ clients hnd]
    exact C10_apfl_reads_input grad copt sopt c0 ⟨s.server, out1.table⟩ clients hnd c hc
  have hD : out1.table.getD c.id (defaultSt s.server.params c0)
      = (trainClient grad copt s.server.params
          (s.table.getD c.id (defaultSt s.server.params c0)) c).1 := by
    simp [Table.getD, h1]
  rw [heq, h1, hD] at h2
  exact hmove (Option.some.inj h2).symm

/-- **Multi-round.** A run of `t+1` rounds is round `t+1` applied to the state (server part *and*
table) that `t` rounds produced: nothing else is carried. -/
theorem C10_apfl_multi_round (grad : P → β → NKey → P) (copt : Optimizer σc) (sopt : Optimizer σs)
    (c0 : Rat) (s : AState ι σs) (cohorts : List (List (AClient ι β))) (cohort : List (AClient ι β)) :
    apflRounds grad copt sopt c0 s (cohorts ++ [cohort])
      = apflRound grad copt sopt c0 (apflRounds grad copt sopt c0 s cohorts) cohort := by
  simp [apflRounds, List.foldl_append]

end apfl

/-! ## compression aggregators -/

theorem prefix_child (k : NKey) (i : Nat) : k <+: child k i := List.prefix_append _ _

theorem prefix_seqKey (k : NKey) (i : Nat) : k <+: seqKey k i := by
  unfold seqKey; rw [List.append_assoc]; exact List.prefix_append _ _

/-- **Next state.** One `apply` returns the state `(bits + Δ, carried key)`; the carried key is
`split(rng)[0]` (`split(split(rng)[0])[0]` for the rotated quantizer), the accounting adds the
bits of this round. -/
theorem C10_compression_state {ι : Type} (rotated : Bool) (quant : Option NKey → NKey → P → P)
    (newBits : List (P × Rat) → Rat) (inputs : List (ι × P × Rat)) (st : CompState) :
    (compApply rotated quant newBits inputs st).2
      = ⟨st.bits + newBits (quantised quant (roundKeys rotated st.rng) inputs),
         if rotated then child (child st.rng 0) 0 else child st.rng 0⟩ := by
  cases rotated <;> rfl

/-- every key a round uses lies below the state key -/
theorem roundKeys_below (rotated : Bool) (k : NKey) :
    k <+: (roundKeys rotated k).next ∧ k <+: (roundKeys rotated k).use
      ∧ ∀ r ∈ (roundKeys rotated k).rot, k <+: r := by
  cases rotated
  · refine ⟨prefix_child _ _, prefix_child _ _, ?_⟩
    intro r hr; simp [roundKeys] at hr
  · refine ⟨(prefix_child _ _).trans (prefix_child _ _), (prefix_child _ _).trans (prefix_child _ _), ?_⟩
    intro r hr
    simp only [roundKeys, if_true, Option.mem_def, Option.some.injEq] at hr
    subst hr; exact prefix_child _ _

/-- **No hidden state.** The output and the next state are determined by `(inputs, state)` and by
the quantizer *restricted to keys derived from the state key*: two quantizers that agree on all
keys below `state.rng` give identical results.  In particular there is no other source of
randomness (no global counter, no key from outside the state). -/
theorem C10_compression_local {ι : Type} (rotated : Bool) (quant quant' : Option NKey → NKey → P → P)
    (newBits : List (P × Rat) → Rat) (inputs : List (ι × P × Rat)) (st : CompState)
    (h : ∀ rot key p, st.rng <+: key → (∀ r ∈ rot, st.rng <+: r) → quant rot key p = quant' rot key p) :
    compApply rotated quant newBits inputs st = compApply rotated quant' newBits inputs st := by
  have hq : quantised quant (roundKeys rotated st.rng) inputs
      = quantised quant' (roundKeys rotated st.rng) inputs := by
    unfold quantised
    apply List.map_congr_left
    intro x _
    obtain ⟨_, huse, hrot⟩ := roundKeys_below rotated st.rng
    rw [h _ _ _ (huse.trans (prefix_seqKey _ _)) hrot]
  simp only [compApply, hq]

/-! ### the weighted mean with one-hot weights returns that client's quantised value -/

open FedjaxVerif.FedAvg (vadd vscale) in
theorem vadd_vscale_zero (a x : P) (h : a.length = x.length) : vadd a (vscale 0 x) = a := by
  induction a generalizing x with
  | nil => simp [vadd]
  | cons y a ih =>
    cases x with
    | nil => simp at h
    | cons z x =>
      simp only [List.length_cons, Nat.add_right_cancel_iff] at h
      have := ih x h
      simp only [vadd, vscale, List.map_cons, List.zipWith_cons_cons] at this ⊢
      rw [this]; simp

open FedjaxVerif.FedAvg (vadd vscale) in
theorem fold_zero_weights (d : Nat) (xs : List P) (hx : ∀ p ∈ xs, p.length = d) (a : P) (ha : a.length = d)
    (w : Rat) :
    (xs.map fun p => (p, (0 : Rat))).foldl
      (fun (acc : P × Rat) x => (vadd acc.1 (vscale x.2 x.1), acc.2 + x.2)) (a, w) = (a, w) := by
  induction xs with
  | nil => rfl
  | cons p xs ih =>
    simp only [List.map_cons, List.foldl_cons]
    rw [vadd_vscale_zero a p (by rw [ha, hx p List.mem_cons_self]), add_zero]
    exact ih (fun q hq => hx q (List.mem_cons_of_mem _ hq))

open FedjaxVerif.FedAvg (vadd vscale) in
theorem vscale_zero_vadd (p q : P) (h : p.length = q.length) : vadd (vscale 0 p) q = q := by
  induction p generalizing q with
  | nil => cases q with
    | nil => rfl
    | cons _ _ => simp at h
  | cons y p ih =>
    cases q with
    | nil => simp at h
    | cons z q =>
      simp only [List.length_cons, Nat.add_right_cancel_iff] at h
      have := ih q h
      simp only [vadd, vscale, List.map_cons, List.zipWith_cons_cons] at this ⊢
      rw [this]; simp

open FedjaxVerif.FedAvg (vadd vscale) in
/-- **One-hot weights isolate a client.** With weight `1` for one client and `0` for all others the
aggregate is exactly that client's quantised value: this is how the harness reads the per-client
quantised values off the real aggregator without replicating its key stream. -/
theorem C10_wmean_onehot (d : Nat) (pre post : List P) (q : P) (hq : q.length = d)
    (hpre : ∀ p ∈ pre, p.length = d) (hpost : ∀ p ∈ post, p.length = d) :
    wmean ((pre.map fun p => (p, (0 : Rat))) ++ (q, 1) :: post.map fun p => (p, (0 : Rat))) = some q := by
  have hone : vscale 1 q = q := by simp [vscale]
  cases pre with
  | nil =>
    have hacc : (post.map fun p => (p, (0 : Rat))).foldl
        (fun (acc : P × Rat) x => (vadd acc.1 (vscale x.2 x.1), acc.2 + x.2)) (vscale 1 q, 1) = (q, 1) := by
      rw [hone]; exact fold_zero_weights d post hpost q hq 1
    simp only [List.map_nil, List.nil_append, wmean, hacc]
    simp [hone]
  | cons p0 pre =>
    have hz : (vscale 0 p0).length = d := by simp [vscale, hpre p0 List.mem_cons_self]
    have hacc : ((pre.map fun p => (p, (0 : Rat))) ++ (q, 1) :: post.map fun p => (p, (0 : Rat))).foldl
        (fun (acc : P × Rat) x => (vadd acc.1 (vscale x.2 x.1), acc.2 + x.2)) (vscale 0 p0, 0) = (q, 1) := by
      rw [List.foldl_append, fold_zero_weights d pre (fun p hp => hpre p (List.mem_cons_of_mem _ hp)) _ hz 0]
      simp only [List.foldl_cons]
      rw [hone, vscale_zero_vadd p0 q (by rw [hq, hpre p0 List.mem_cons_self]),
        fold_zero_weights d post hpost q hq (0 + 1)]
      simp
    simp only [List.map_cons, List.cons_append, wmean, hacc]
    simp [hone]

/-- the family `k·0ⁿ·1·x` is prefix-free in `n` -/
theorem zeros_one_prefix (a b : Nat) (x y : List Nat)
    (h : List.replicate a 0 ++ 1 :: x <+: List.replicate b 0 ++ 1 :: y) : a = b ∧ x <+: y := by
  induction a generalizing b with
  | zero =>
    cases b with
    | zero => simpa using h
    | succ b =>
      simp only [List.replicate_zero, List.nil_append, List.replicate_succ, List.cons_append] at h
      have := (List.cons_prefix_cons.mp h).1
      omega
  | succ a ih =>
    cases b with
    | zero =>
      simp only [List.replicate_zero, List.nil_append, List.replicate_succ, List.cons_append] at h
      have := (List.cons_prefix_cons.mp h).1
      omega
    | succ b =>
      simp only [List.replicate_succ, List.cons_append] at h
      have := ih b (List.cons_prefix_cons.mp h).2
      exact ⟨by omega, this.2⟩

theorem family_prefix (k : NKey) (a b : Nat) (x y : List Nat)
    (h : k ++ List.replicate a 0 ++ 1 :: x <+: k ++ List.replicate b 0 ++ 1 :: y) : a = b ∧ x <+: y := by
  rw [List.append_assoc, List.append_assoc] at h
  exact zeros_one_prefix a b x y ((List.prefix_append_right_inj k).mp h)

theorem carried_eq (rotated : Bool) (t : Nat) (k : NKey) :
    carried rotated t k = k ++ List.replicate ((if rotated then 2 else 1) * t) 0 := by
  induction t generalizing k with
  | zero => simp [carried]
  | succ t ih =>
    rw [carried, ih]
    cases rotated
    · simp only [roundKeys, child, Bool.false_eq_true, if_false, one_mul, List.append_assoc]
      rw [show t + 1 = 1 + t by omega, List.replicate_add]; rfl
    · simp only [roundKeys, child, if_true, List.append_assoc]
      rw [show 2 * (t + 1) = 2 + 2 * t by omega, List.replicate_add]; rfl

/-- all keys (use key, rotation key) handed out in round `t` of a run that started from key `k` -/
def keysOfRound (rotated : Bool) (t : Nat) (k : NKey) : List NKey :=
  let ks := roundKeys rotated (carried rotated t k)
  ks.use :: ks.rot.toList

theorem keysOfRound_form (rotated : Bool) (t : Nat) (k : NKey) (a : NKey)
    (ha : a ∈ keysOfRound rotated t k) :
    ∃ n, a = k ++ List.replicate n 0 ++ [1] ∧ (if rotated then n / 2 = t else n = t) := by
  unfold keysOfRound at ha
  rw [carried_eq] at ha
  cases rotated
  · simp only [roundKeys, child, Bool.false_eq_true, if_false, one_mul, Option.toList_none,
      List.mem_singleton] at ha
    exact ⟨t, ha, by simp⟩
  · simp only [roundKeys, child, if_true, Option.toList_some, List.mem_cons, List.not_mem_nil,
      or_false] at ha
    rcases ha with ha | ha
    · refine ⟨2 * t + 1, ?_, by simp; omega⟩
      rw [ha, List.replicate_add]; simp
    · exact ⟨2 * t, ha, by simp⟩

/-- **Successive rounds use different keys.** In a run from any initial key, no key handed out in
round `i` is equal to, or an ancestor of, a key handed out in a different round `j` (in the
splitting tree independent streams are exactly the prefix-free paths). -/
theorem C10_compression_fresh_keys (rotated : Bool) (k : NKey) (i j : Nat) (hij : i ≠ j)
    (a b : NKey) (ha : a ∈ keysOfRound rotated i k) (hb : b ∈ keysOfRound rotated j k) :
    ¬ a <+: b := by
  obtain ⟨n, rfl, hn⟩ := keysOfRound_form rotated i k a ha
  obtain ⟨m, rfl, hm⟩ := keysOfRound_form rotated j k b hb
  intro h
  have := (family_prefix k n m [] [] h).1
  subst this
  cases rotated
  · simp at hn hm; omega
  · simp at hn hm; omega

/-- the rotation key and the use key of one round are unrelated as well -/
theorem C10_compression_rot_use (k : NKey) :
    let ks := roundKeys true k
    ∀ r ∈ ks.rot, ¬ r <+: ks.use ∧ ¬ ks.use <+: r := by
  intro ks r hr
  simp only [ks, roundKeys, if_true, Option.mem_def, Option.some.injEq] at hr
  subst hr
  simp only [ks, roundKeys, if_true, child]
  constructor
  · intro h; simp at h
  · intro h; simp at h

/-- **Clients get different keys.** Within a round client `a` and client `b ≠ a` are quantised
with unrelated keys. -/
theorem C10_compression_client_keys (u : NKey) (a b : Nat) (h : seqKey u a <+: seqKey u b) : a = b := by
  unfold seqKey at h
  exact (family_prefix u a b [] [] h).1

/-- **State along a history.** After each round of a multi-round run the state key is the carried
key — a function of the initial key and the number of rounds only (not of the inputs). -/
theorem C10_compression_history {ι : Type} (rotated : Bool) (quant : Option NKey → NKey → P → P)
    (newBits : List (P × Rat) → Rat) (st : CompState) (rounds : List (List (ι × P × Rat))) :
    (compRun rotated quant newBits st rounds).map (·.2.rng)
      = (List.range rounds.length).map fun t => carried rotated (t + 1) st.rng := by
  induction rounds generalizing st with
  | nil => simp [compRun]
  | cons r rs ih =>
    simp only [compRun, List.map_cons, List.length_cons]
    rw [ih, List.range_succ_eq_map, List.map_cons, List.map_map]
    congr 1

/-- bits only ever grow by the per-round amounts -/
theorem C10_compression_bits {ι : Type} (rotated : Bool) (quant : Option NKey → NKey → P → P)
    (newBits : List (P × Rat) → Rat) (inputs : List (ι × P × Rat)) (st : CompState) :
    (compApply rotated quant newBits inputs st).2.bits - st.bits
      = newBits (quantised quant (roundKeys rotated st.rng) inputs) := by
  simp only [compApply]; ring

/-! ## checkpoint and continue -/

section history
variable {S C B : Type}

/-- **Serialise and continue = continue.** For a codec with `load (save s) = s`, saving and
restoring the state before any subset of the rounds leaves the whole subsequent history unchanged
(induction over the history). -/
theorem C10_serialise_continue (round : S → C → S) (save : S → B) (load : B → S)
    (hcodec : ∀ s, load (save s) = s) (s : S) (cs : List (C × Bool)) :
    historyCkpt round save load s cs = history round s (cs.map (·.1)) := by
  induction cs generalizing s with
  | nil => rfl
  | cons c cs ih =>
    obtain ⟨c, ck⟩ := c
    simp only [historyCkpt, history, List.map_cons, hcodec, ite_self]
    rw [ih]

/-- **…up to a congruence.** If the codec restores the state only up to a relation `R` that the
round respects (e.g. a dict restored with another key order, a list restored as a tuple), the two
histories are related round by round. -/
theorem C10_serialise_continue_equiv (round : S → C → S) (save : S → B) (load : B → S)
    (R : S → S → Prop)
    (hround : ∀ s s' c, R s s' → R (round s c) (round s' c))
    (hcodec : ∀ s s', R s s' → R (load (save s)) s') (s s' : S) (hs : R s s') (cs : List (C × Bool)) :
    List.Forall₂ R (historyCkpt round save load s cs) (history round s' (cs.map (·.1))) := by
  induction cs generalizing s s' with
  | nil => exact List.Forall₂.nil
  | cons c cs ih =>
    obtain ⟨c, ck⟩ := c
    simp only [historyCkpt, history, List.map_cons]
    have h1 : R (round (if ck = true then load (save s) else s) c) (round s' c) := by
      apply hround
      cases ck
      · simpa using hs
      · simpa using hcodec s s' hs
    exact List.Forall₂.cons h1 (ih _ _ h1)

/-- branching: continuing from a restored copy of the state reached after a prefix of the history
gives the same remaining history as continuing from the original -/
theorem C10_serialise_branch (round : S → C → S) (save : S → B) (load : B → S)
    (hcodec : ∀ s, load (save s) = s) (s : S) (cs : List C) :
    history round (load (save s)) cs = history round s cs := by
  rw [hcodec]

end history

/-- the APFL round respects "same server part, tables equal as maps": the instance of the
congruence needed by `C10_serialise_continue_equiv` -/
theorem C10_apfl_congruence {β σc σs ι : Type} [DecidableEq ι] (grad : P → β → NKey → P)
    (copt : Optimizer σc) (sopt : Optimizer σs) (c0 : Rat) (s s' : AState ι σs)
    (clients : List (AClient ι β))
    (h : s.server = s'.server ∧ ∀ i, s.table.get? i = s'.table.get? i) :
    (apflRound grad copt sopt c0 s clients).server = (apflRound grad copt sopt c0 s' clients).server
    ∧ ∀ i, (apflRound grad copt sopt c0 s clients).table.get? i
          = (apflRound grad copt sopt c0 s' clients).table.get? i :=
  C10_apfl_map_congr grad copt sopt c0 s s' clients h.1 h.2

/-! ## agnostic FedAvg's window -/

/-- the window keeps its length (for the configured size `W ≥ 1`) -/
theorem C10_window_length (w : List P) (n : P) (hw : w ≠ []) :
    (windowStep w n).length = w.length := by
  cases w with
  | nil => exact absurd rfl hw
  | cons x w => simp [windowStep]

/-- after round `t` the window is the last `W` elements of `initial window ++ counts so far`:
a function of the input window value and the rounds' domain counts only -/
theorem C10_window_history (w : List P) (ns : List P) (hw : w ≠ []) (t : Nat) (ht : t < ns.length) :
    (windowRun w ns)[t]? = some ((w ++ ns.take (t + 1)).drop (t + 1)) := by
  induction ns generalizing w t with
  | nil => simp at ht
  | cons n ns ih =>
    have hstep : windowStep w n = (w ++ [n]).drop 1 := by
      cases w with
      | nil => exact absurd rfl hw
      | cons x w => simp [windowStep]
    cases t with
    | zero => simp [windowRun, hstep]
    | succ t =>
      simp only [windowRun, List.getElem?_cons_succ]
      have hw' : windowStep w n ≠ [] := by
        intro e
        have := C10_window_length w n hw
        rw [e] at this
        cases w with
        | nil => exact hw rfl
        | cons x w => simp at this
      rw [ih (windowStep w n) hw' t (by simpa using ht), hstep]
      congr 1
      cases w with
      | nil => exact absurd rfl hw
      | cons x w => simp [List.take_succ_cons]

/-! ## non-vacuity -/

open FedjaxVerif.FedAvg (sgd momentum vscale)

def exGrad : P → Nat → NKey → P := fun p b k => vscale ((b + k.length : Nat) : Rat) p
def exClients : List (AClient Nat Nat) := [⟨7, 2, [1, 2], [0]⟩, ⟨9, 1, [1], [1]⟩]
def exState : AState Nat Unit := ⟨⟨[1, 2], ()⟩, [(9, ⟨[3, 1], 1/4⟩), (4, ⟨[0, 0], 1/2⟩)]⟩

-- distinct ids; client 9 has an entry, client 7 starts from the default, client 4 is framed
example : (exClients.map (·.id)).Nodup := by decide
example : ((apflRound exGrad (sgd (1/8)) (sgd 1) (1/2) exState exClients).table.keys) = [9, 4, 7] := by
  decide +kernel
example : (apflRound exGrad (sgd (1/8)) (sgd 1) (1/2) exState exClients).table.get? 4
    = some ⟨[0, 0], 1/2⟩ := by decide +kernel
-- the hypothesis of `C10_alias_detected` is satisfiable: training client 9 again moves its state
example :
    (trainClient exGrad (sgd (1/8)) exState.server.params
      (trainClient exGrad (sgd (1/8)) exState.server.params
        (exState.table.getD 9 (defaultSt exState.server.params (1/2))) ⟨9, 1, [1], [1]⟩).1
      (⟨9, 1, [1], [1]⟩ : AClient Nat Nat)).1
    ≠ (trainClient exGrad (sgd (1/8)) exState.server.params
        (exState.table.getD 9 (defaultSt exState.server.params (1/2))) ⟨9, 1, [1], [1]⟩).1 := by
  decide +kernel
/-- **Counterexample for the code as it stood.** Under the in-place semantics a second call with
"the same" state (whose dict now holds the first call's table) returns another table: the witness
behind finding C10/apfl/input-mutated. -/
theorem C10_inplace_counterexample :
    (apflRoundInPlace exGrad (sgd (1/8)) (sgd 1) (1/2)
      ⟨exState.server, (apflRoundInPlace exGrad (sgd (1/8)) (sgd 1) (1/2) exState exClients).table⟩
      exClients).table
    ≠ (apflRoundInPlace exGrad (sgd (1/8)) (sgd 1) (1/2) exState exClients).table := by
  decide +kernel
-- the clip is active in the example family (coefficient leaves [0,1] without it)
example : clip01 (5/4) = 1 ∧ clip01 (-1/4) = 0 ∧ clip01 (1/3) = 1/3 := by decide +kernel

-- compression: a quantizer that really depends on its key; two rounds, two clients
def exQuant : Option NKey → NKey → P → P := fun rot key p =>
  p.map fun x => x + (key.length : Rat) + ((rot.map List.length).getD 0 : Nat)
def exBits : List (P × Rat) → Rat := fun q => (q.length : Rat) * 3
example : (compApply false exQuant exBits [(1, [1, 2], 1), (2, [3, 4], 3)] ⟨5, [7]⟩)
    = (some [25 / 4, 29 / 4], ⟨11, [7, 0]⟩) := by decide +kernel
example : (compRun true exQuant exBits ⟨0, []⟩
    [[(1, [1], 1)], [(1, [1], 1)]]).map (·.2.rng) = [[0, 0], [0, 0, 0, 0]] := by decide +kernel
example : keysOfRound true 1 [5] = [[5, 0, 0, 0, 1], [5, 0, 0, 1]] := by decide +kernel

example : wmean [([5, 7], 0), ([1, 2], 1), ([9, 9], 0)] = some [1, 2] := by decide +kernel
-- a table that lacks client 7's entry but agrees at the participant 9 gives the same results
example : apflResults exGrad (sgd (1/8)) (1/2) exState [⟨9, 1, [1], [1]⟩]
    = apflResults exGrad (sgd (1/8)) (1/2) (⟨exState.server, [(9, ⟨[3, 1], 1/4⟩)]⟩ : AState Nat Unit)
        [⟨9, 1, [1], [1]⟩] := by decide +kernel

-- serialise/continue: a codec that is not the identity on representations
example : historyCkpt (fun (s : Nat) (c : Nat) => s * 2 + c) (fun s => [s, s]) (fun b => b.headD 0) 1
    [(1, true), (0, false), (5, true)] = [3, 6, 17] := by decide
-- window of size 2
example : windowRun [[1, 1], [1, 1]] [[2, 0], [0, 3], [4, 4]]
    = [[[1, 1], [2, 0]], [[2, 0], [0, 3]], [[0, 3], [4, 4]]] := by decide +kernel

end FedjaxVerif.Purity
