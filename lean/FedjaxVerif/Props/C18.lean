import FedjaxVerif.Model.Hadamard
import Mathlib.Tactic.Ring
import Mathlib.Analysis.Real.Sqrt

/-!
# C18 — Walsh–Hadamard transform is exact; structured rotation invertible

Property theorems about `Model/Hadamard.lean` (model of `fedjax/aggregators/walsh_hadamard.py`).
All statements are generic in the scalar type: they hold over every commutative ring `α`
(`ℚ` — every finite float is a dyadic rational —, `ℤ`, and `ℝ`, where `1/sqrt d` lives).

Core:
* `C18_shape`            the reshape schedule of `n = 2^k` with block size `2^s` multiplies to `n`, all
                         axes are powers of two in `[2, 2^s]`, there are `⌈k/s⌉` of them;
* `C18_kron_entry`       `H_{2^(k+s)} = H_{2^k} ⊗ H_{2^s}` entry-wise;
* `C18_fwht_eq_matrix`   for every `k`, every block size `2^s` the code accepts and every vector of
                         length `2^k`: `fwht (2^s) x = H_{2^k}·x` (induction on the shape list,
                         `applyAxes_eq`); `C18_hmul_entry` spells out the entries of `H·x`;
* `C18_orthogonal`, `C18_involution`, `C18_linear`  `H·H = 2^k·I`, hence transform∘transform = `2^k •`;
* `C18_norm(_unnormalised)`, `C18_inverse(_unnormalised)`  rotation preserves `Σ xᵢ²`, the inverse with
                         the same signs restores the input, for every size `≥ 1` (`≤ 2^56`, the code's
                         8-axis limit at the default block size 128);
* `C18_pytree`           leaf-wise for trees; `C18_real_rotation` instantiates `c = 1/√d` over `ℝ`;
* `C18_signs_distinct`   different sign vectors give different rotations (when `2 ≠ 0`);
* `C18_rejects`          the code's explicit rejections;
* `C18_diag_recover`     `H·rotU signs ones = d·(signs ⊙ pad ones)`: the sign diagonal of a key can be read off the
                         rotation of the all-ones input (how the harness obtains `D` from the implementation).
Not a theorem: "different keys draw different sign vectors" (idealised PRNG; monitored by the harness).
-/

namespace FedjaxVerif.Hadamard

/-! ## the Sylvester sign -/

theorem bitSign_comm (a b : Nat) : bitSign a b = bitSign b a := by
  unfold bitSign
  by_cases h1 : a % 2 = 1 <;> by_cases h2 : b % 2 = 1 <;> simp [h1, h2]

theorem hEntry_comm (k : Nat) : ∀ i j, hEntry k i j = hEntry k j i := by
  induction k with
  | zero => intro i j; rfl
  | succ k ih => intro i j; simp only [hEntry]; rw [bitSign_comm, ih]

theorem bitSign_mod (i j s : Nat) : bitSign (i % 2 ^ (s+1)) (j % 2 ^ (s+1)) = bitSign i j := by
  unfold bitSign
  have h : ∀ x : Nat, x % 2 ^ (s+1) % 2 = x % 2 := by
    intro x
    have : (2:Nat) ∣ 2 ^ (s+1) := Dvd.intro_left (2 ^ s) (by ring)
    exact Nat.mod_mod_of_dvd x this
  rw [h i, h j]

theorem hEntry_split (k s : Nat) : ∀ i j : Nat,
    hEntry (k + s) i j = hEntry k (i / 2 ^ s) (j / 2 ^ s) * hEntry s (i % 2 ^ s) (j % 2 ^ s) := by
  induction s with
  | zero => intro i j; simp [hEntry]
  | succ s ih =>
    intro i j
    have e : k + (s + 1) = (k + s) + 1 := by omega
    rw [e]
    simp only [hEntry]
    rw [ih (i / 2) (j / 2), bitSign_mod]
    have d1 : ∀ x : Nat, x / 2 / 2 ^ s = x / 2 ^ (s + 1) := by
      intro x; rw [Nat.div_div_eq_div_mul, pow_succ]; ring_nf
    have d2 : ∀ x : Nat, x % 2 ^ (s + 1) / 2 = x / 2 % 2 ^ s := by
      intro x; rw [pow_succ, Nat.mul_comm]; exact Nat.mod_mul_right_div_self x 2 (2 ^ s)
    rw [d1, d1, d2, d2]; ring

theorem bitSign_sq (a b : Nat) : bitSign a b * bitSign a b = 1 := by
  unfold bitSign; split <;> simp

theorem hEntry_sq (k : Nat) : ∀ i j, hEntry k i j * hEntry k i j = 1 := by
  induction k with
  | zero => intro i j; simp [hEntry]
  | succ k ih =>
    intro i j; simp only [hEntry]
    calc bitSign i j * hEntry k (i / 2) (j / 2) * (bitSign i j * hEntry k (i / 2) (j / 2))
        = (bitSign i j * bitSign i j) * (hEntry k (i / 2) (j / 2) * hEntry k (i / 2) (j / 2)) := by ring
      _ = 1 := by rw [bitSign_sq, ih]; rfl

/-! ## finite sums -/

section sums
variable {α : Type} [CommRing α]

theorem sumTo_congr {n : Nat} {f g : Nat → α} (h : ∀ i, i < n → f i = g i) : sumTo n f = sumTo n g := by
  induction n with
  | zero => rfl
  | succ n ih =>
    simp only [sumTo]
    rw [ih (fun i hi => h i (by omega)), h n (by omega)]

theorem sumTo_zero (n : Nat) : sumTo n (fun _ => (0 : α)) = 0 := by
  induction n with
  | zero => rfl
  | succ n ih => simp [sumTo, ih]

theorem sumTo_add (n : Nat) (f g : Nat → α) : sumTo n (fun i => f i + g i) = sumTo n f + sumTo n g := by
  induction n with
  | zero => simp [sumTo]
  | succ n ih => simp only [sumTo, ih]; ring

theorem sumTo_mul_left (n : Nat) (c : α) (f : Nat → α) : sumTo n (fun i => c * f i) = c * sumTo n f := by
  induction n with
  | zero => simp [sumTo]
  | succ n ih => simp only [sumTo, ih]; ring

theorem sumTo_mul_right (n : Nat) (c : α) (f : Nat → α) : sumTo n (fun i => f i * c) = sumTo n f * c := by
  induction n with
  | zero => simp [sumTo]
  | succ n ih => simp only [sumTo, ih]; ring

theorem sumTo_comm (n m : Nat) (f : Nat → Nat → α) :
    sumTo n (fun a => sumTo m (fun b => f a b)) = sumTo m (fun b => sumTo n (fun a => f a b)) := by
  induction n with
  | zero => simp [sumTo, sumTo_zero]
  | succ n ih => simp only [sumTo, ih, sumTo_add]

theorem sumTo_add_range (m n : Nat) (f : Nat → α) :
    sumTo (m + n) f = sumTo m f + sumTo n (fun u => f (m + u)) := by
  induction n with
  | zero => simp [sumTo]
  | succ n ih =>
    have : m + (n + 1) = (m + n) + 1 := by omega
    rw [this]; simp only [sumTo, ih]; ring

theorem sumTo_prod (d r : Nat) (f : Nat → α) :
    sumTo (d * r) f = sumTo d (fun a => sumTo r (fun u => f (a * r + u))) := by
  induction d with
  | zero => simp [sumTo]
  | succ d ih =>
    have : (d + 1) * r = d * r + r := by ring
    rw [this, sumTo_add_range, ih]; simp only [sumTo]

theorem sumTo_delta (n i : Nat) (hi : i < n) (c : Nat → α) :
    sumTo n (fun l => if i = l then c l else 0) = c i := by
  induction n with
  | zero => omega
  | succ n ih =>
    simp only [sumTo]
    by_cases h : i = n
    · subst h
      have : sumTo i (fun l => if i = l then c l else 0) = sumTo i (fun _ => (0:α)) :=
        sumTo_congr (fun l hl => by have : i ≠ l := by omega
                                    simp [this])
      rw [this, sumTo_zero]; simp
    · rw [ih (by omega)]; simp [h]

end sums

/-! ## orthogonality of the rows -/

section orth
variable {α : Type} [CommRing α]

theorem sumTo_two (g : Nat → α) : sumTo 2 g = g 0 + g 1 := by simp [sumTo]

theorem bitSign_even (i a : Nat) : bitSign i (a * 2 + 0) = 1 := by
  unfold bitSign; simp

theorem bitSign_odd (i a : Nat) : bitSign i (a * 2 + 1) = if i % 2 = 1 then -1 else 1 := by
  unfold bitSign
  have : (a * 2 + 1) % 2 = 1 := by omega
  simp [this]

/-- rows of the Sylvester matrix are orthogonal: `H·H = 2^k·I` -/
theorem hEntry_orth (k : Nat) : ∀ i l, i < 2 ^ k → l < 2 ^ k →
    sumTo (2 ^ k) (fun j => ((hEntry k i j : Int) : α) * ((hEntry k j l : Int) : α))
      = if i = l then (2 : α) ^ k else 0 := by
  induction k with
  | zero =>
    intro i l hi hl
    have : i = 0 := by simpa using hi
    have : l = 0 := by simpa using hl
    subst_vars
    simp [sumTo, hEntry]
  | succ k ih =>
    intro i l hi hl
    rw [pow_succ, sumTo_prod]
    have hi2 : i / 2 < 2 ^ k := by rw [pow_succ] at hi; omega
    have hl2 : l / 2 < 2 ^ k := by rw [pow_succ] at hl; omega
    have key : ∀ a, sumTo 2 (fun u => ((hEntry (k+1) i (a * 2 + u) : Int) : α) * ((hEntry (k+1) (a * 2 + u) l : Int) : α))
        = ((1 : α) + ((if i % 2 = 1 then -1 else 1 : Int) : α) * ((if l % 2 = 1 then -1 else 1 : Int) : α))
          * (((hEntry k (i/2) a : Int) : α) * ((hEntry k a (l/2) : Int) : α)) := by
      intro a
      rw [sumTo_two]
      simp only [hEntry]
      rw [bitSign_comm (a * 2 + 0) l, bitSign_comm (a * 2 + 1) l, bitSign_even, bitSign_even, bitSign_odd, bitSign_odd]
      have e0 : (a * 2 + 0) / 2 = a := by omega
      have e1 : (a * 2 + 1) / 2 = a := by omega
      rw [e0, e1]
      push_cast
      ring
    rw [sumTo_congr (fun a _ => key a), sumTo_mul_left, ih _ _ hi2 hl2]
    by_cases h1 : i % 2 = 1 <;> by_cases h2 : l % 2 = 1
    · have : (i = l) ↔ (i / 2 = l / 2) := by omega
      by_cases h3 : i / 2 = l / 2 <;> simp [h1, h2, this, h3]; ring
    · have : ¬ (i = l) := by omega
      simp only [h1, h2, this]; push_cast; simp
    · have : ¬ (i = l) := by omega
      simp only [h1, h2, this]; push_cast; simp
    · have : (i = l) ↔ (i / 2 = l / 2) := by omega
      by_cases h3 : i / 2 = l / 2 <;> simp [h1, h2, this, h3]; ring

end orth

/-! ## lists, and the einsum schedule as one matrix product -/

section lists
variable {α : Type}

theorem getD_range_map [Zero α] (n : Nat) (f : Nat → α) (j : Nat) (hj : j < n) :
    ((List.range n).map f).getD j 0 = f j := by
  simp [List.getD_eq_getElem?_getD, hj]

theorem toArray_getD [Zero α] (x : List α) (j : Nat) : x.toArray.getD j 0 = x.getD j 0 := by
  simp

theorem flatten_range_map (d r : Nat) (hr : 0 < r) (g : Nat → Nat → α) :
    ((List.range d).map fun m => (List.range r).map fun t => g m t).flatten
      = (List.range (d * r)).map fun i => g (i / r) (i % r) := by
  induction d with
  | zero => simp
  | succ d ih =>
    have e : (d + 1) * r = d * r + r := by ring
    rw [List.range_succ, List.map_append, List.flatten_append, ih, e, List.range_add, List.map_append]
    congr 1
    simp only [List.map_cons, List.map_nil, List.flatten_cons, List.flatten_nil, List.append_nil,
      List.map_map]
    apply List.map_congr_left
    intro t ht
    have ht' : t < r := List.mem_range.mp ht
    have h1 : (d * r + t) / r = d := by
      rw [Nat.add_comm, Nat.add_mul_div_right _ _ hr, Nat.div_eq_of_lt ht']; simp
    have h2 : (d * r + t) % r = t := by
      rw [Nat.add_comm, Nat.add_mul_mod_self_right, Nat.mod_eq_of_lt ht']
    simp [h1, h2]

theorem list_eq_range_map [Zero α] (x : List α) :
    x = (List.range x.length).map (fun i => x.getD i 0) := by
  apply List.ext_getElem
  · simp
  · intro i h1 h2
    simp [List.getD_eq_getElem?_getD, h1]

theorem prod_map_pow (ks : List Nat) : (ks.map (2 ^ ·)).prod = 2 ^ ks.sum := by
  induction ks with
  | nil => simp
  | cons k ks ih => simp [ih, pow_add]

end lists

section main
variable {α : Type} [CommRing α]

theorem hmul_def (k : Nat) (x : List α) :
    hmul k x = (List.range (2 ^ k)).map fun i => sumTo (2 ^ k) fun j => ((hEntry k i j : Int) : α) * x.getD j 0 := by
  simp [hmul]

theorem hmul_length (k : Nat) (x : List α) : (hmul k x).length = 2 ^ k := by simp [hmul]

/-- the per-axis einsum schedule computes the full Sylvester product (induction on the shape) -/
theorem applyAxes_eq (ks : List Nat) : ∀ x : List α, x.length = 2 ^ ks.sum →
    applyAxes (ks.map (2 ^ ·)) x = hmul ks.sum x := by
  induction ks with
  | nil =>
    intro x hx
    simp only [List.map_nil, applyAxes, List.sum_nil, hmul_def]
    match x, hx with
    | [a], _ => simp [sumTo, hEntry]
  | cons k ks ih =>
    intro x hx
    simp only [List.map_cons, applyAxes, prod_map_pow, Nat.log2_two_pow, toArray_getD]
    have hlen : ∀ m, ((List.range (2 ^ ks.sum)).map fun u =>
        sumTo (2 ^ k) fun a => x.getD (a * 2 ^ ks.sum + u) 0 * ((hEntry k a m : Int) : α)).length = 2 ^ ks.sum := by
      intro m; simp
    have step : ∀ m, applyAxes (ks.map (2 ^ ·)) ((List.range (2 ^ ks.sum)).map fun u =>
        sumTo (2 ^ k) fun a => x.getD (a * 2 ^ ks.sum + u) 0 * ((hEntry k a m : Int) : α))
        = (List.range (2 ^ ks.sum)).map fun t => sumTo (2 ^ ks.sum) fun u =>
            ((hEntry ks.sum t u : Int) : α) * sumTo (2 ^ k) fun a => x.getD (a * 2 ^ ks.sum + u) 0 * ((hEntry k a m : Int) : α) := by
      intro m
      rw [ih _ (hlen m), hmul_def]
      apply List.map_congr_left
      intro t _
      apply sumTo_congr
      intro u hu
      rw [getD_range_map _ _ _ hu]
    simp only [step]
    have hr : 0 < 2 ^ ks.sum := Nat.two_pow_pos _
    rw [flatten_range_map _ _ hr, hmul_def, List.sum_cons, pow_add]
    apply List.map_congr_left
    intro i _
    rw [sumTo_prod]
    -- LHS: Σ_u h(i%R,u) * Σ_a x[aR+u] * h(a, i/R) ; RHS: Σ_a Σ_u h(i, aR+u) * x[aR+u]
    simp only [← sumTo_mul_left]
    rw [sumTo_comm]
    apply sumTo_congr
    intro a _
    apply sumTo_congr
    intro u hu
    rw [hEntry_split k ks.sum i (a * 2 ^ ks.sum + u)]
    have h1 : (a * 2 ^ ks.sum + u) / 2 ^ ks.sum = a := by
      rw [Nat.add_comm, Nat.add_mul_div_right _ _ hr, Nat.div_eq_of_lt hu]; simp
    have h2 : (a * 2 ^ ks.sum + u) % 2 ^ ks.sum = u := by
      rw [Nat.add_comm, Nat.add_mul_mod_self_right, Nat.mod_eq_of_lt hu]
    rw [h1, h2, hEntry_comm k a (i / 2 ^ ks.sum)]
    push_cast
    ring

end main

/-! ## the reshape schedule and the main theorem -/

/-- exponents of the axis sizes in append order: `k / s` full blocks, then the remainder -/
def expsOf (k s : Nat) : List Nat := List.replicate (k / s) s ++ (if k % s = 0 then [] else [k % s])

theorem shapeLoop_zero (small fuel : Nat) : shapeLoop small fuel 0 = [] := by
  cases fuel <;> simp [shapeLoop]

theorem expsOf_step (k s : Nat) (hs : 1 ≤ s) (hk : s ≤ k) : expsOf k s = s :: expsOf (k - s) s := by
  unfold expsOf
  have h1 : k / s = (k - s) / s + 1 := by
    rw [Nat.div_eq_sub_div (by omega) hk]
  have h2 : k % s = (k - s) % s := Nat.mod_eq_sub_mod hk
  rw [h1, h2, List.replicate_succ]; rfl

theorem shapeLoop_pow (s : Nat) (hs : 1 ≤ s) : ∀ fuel k, k ≤ fuel →
    shapeLoop (2 ^ s) fuel (2 ^ k) = (expsOf k s).map (2 ^ ·) := by
  intro fuel
  induction fuel with
  | zero =>
    intro k hk
    have : k = 0 := by omega
    subst this
    simp [shapeLoop, expsOf]
  | succ fuel ih =>
    intro k hk
    simp only [shapeLoop]
    by_cases hk0 : k = 0
    · subst hk0; simp [expsOf]
    · have h1 : 2 ^ k > 1 := Nat.one_lt_two_pow hk0
      rw [if_pos h1]
      by_cases hks : k < s
      · have hmin : min (2 ^ k) (2 ^ s) = 2 ^ k :=
          Nat.min_eq_left (Nat.pow_le_pow_right (by omega) (by omega))
        have hdiv : 2 ^ k / 2 ^ s = 0 :=
          Nat.div_eq_of_lt (Nat.pow_lt_pow_right (by omega) hks)
        rw [hmin, hdiv, shapeLoop_zero]
        have e1 : k / s = 0 := Nat.div_eq_of_lt hks
        have e2 : k % s = k := Nat.mod_eq_of_lt hks
        simp [expsOf, e1, e2, hk0]
      · have hsk : s ≤ k := by omega
        have hmin : min (2 ^ k) (2 ^ s) = 2 ^ s :=
          Nat.min_eq_right (Nat.pow_le_pow_right (by omega) hsk)
        have hdiv : 2 ^ k / 2 ^ s = 2 ^ (k - s) := Nat.pow_div hsk (by omega)
        rw [hmin, hdiv, ih (k - s) (by omega), expsOf_step k s hs hsk]
        simp

theorem shapeOf_pow (k s : Nat) (hs : 1 ≤ s) :
    shapeOf (2 ^ k) (2 ^ s) = ((expsOf k s).reverse).map (2 ^ ·) := by
  unfold shapeOf
  rw [shapeLoop_pow s hs (2 ^ k) k (Nat.le_of_lt Nat.lt_two_pow_self), List.map_reverse]

theorem expsOf_sum (k s : Nat) : (expsOf k s).sum = k := by
  unfold expsOf
  have := Nat.div_add_mod k s
  by_cases h : k % s = 0
  · simp [h]; rw [h] at this; rw [Nat.mul_comm]; omega
  · simp [h]; rw [Nat.mul_comm]; omega

theorem expsOf_mem (k s : Nat) (hs : 1 ≤ s) : ∀ e ∈ expsOf k s, 1 ≤ e ∧ e ≤ s := by
  intro e he
  unfold expsOf at he
  rw [List.mem_append] at he
  rcases he with he | he
  · have := (List.mem_replicate.mp he).2; omega
  · by_cases h : k % s = 0
    · simp [h] at he
    · simp [h] at he
      have := Nat.mod_lt k (show s > 0 by omega)
      omega

theorem expsOf_length (k s : Nat) (hs : 1 ≤ s) : (expsOf k s).length = (k + s - 1) / s := by
  unfold expsOf
  have hdm := Nat.div_add_mod k s
  have hlt := Nat.mod_lt k (show s > 0 by omega)
  have hs0 : 0 < s := by omega
  by_cases h : k % s = 0
  · rw [h] at hdm
    have e : k + s - 1 = (s - 1) + (k / s) * s := by rw [Nat.mul_comm]; omega
    rw [e, Nat.add_mul_div_right (s - 1) (k / s) hs0, Nat.div_eq_of_lt (show s - 1 < s by omega)]
    simp [h]
  · have e : k + s - 1 = (k % s - 1) + (k / s + 1) * s := by
      rw [Nat.add_mul, Nat.mul_comm (k / s) s]; omega
    rw [e, Nat.add_mul_div_right (k % s - 1) (k / s + 1) hs0,
      Nat.div_eq_of_lt (show k % s - 1 < s by omega)]
    simp [h]

theorem isPow2_pow (e : Nat) : isPow2 (2 ^ e) = true := by
  simp [isPow2, Nat.log2_two_pow]

/-- **C18 (shape schedule).** For `n = 2^k` and block size `2^s`, `s ≥ 1`, the reshape schedule
multiplies to `n`, every axis is a power of two between `2` and the block size, and there are
`⌈k/s⌉` axes. -/
theorem C18_shape (k s : Nat) (hs : 1 ≤ s) :
    (shapeOf (2 ^ k) (2 ^ s)).prod = 2 ^ k ∧
    (∀ d ∈ shapeOf (2 ^ k) (2 ^ s), ∃ e, 1 ≤ e ∧ e ≤ s ∧ d = 2 ^ e) ∧
    (shapeOf (2 ^ k) (2 ^ s)).length = (k + s - 1) / s := by
  rw [shapeOf_pow k s hs]
  refine ⟨?_, ?_, ?_⟩
  · rw [prod_map_pow, List.sum_reverse, expsOf_sum]
  · intro d hd
    obtain ⟨e, he, rfl⟩ := List.mem_map.mp hd
    have := expsOf_mem k s hs e (List.mem_reverse.mp he)
    exact ⟨e, this.1, this.2, rfl⟩
  · simp [expsOf_length k s hs]

/-- **C18 (Kronecker factorisation of the Sylvester matrix).** `H_{2^(k+s)} = H_{2^k} ⊗ H_{2^s}`:
the entry at (i, j) is the product of the entries at the high digits and at the low digits. -/
theorem C18_kron_entry (k s i j : Nat) :
    hEntry (k + s) i j = hEntry k (i / 2 ^ s) (j / 2 ^ s) * hEntry s (i % 2 ^ s) (j % 2 ^ s) :=
  hEntry_split k s i j

section fw
variable {α : Type} [CommRing α]

/-- **C18 (main clause).** For every length `2^k`, every block size `2^s` (`s ≥ 1`) the code accepts
(at most 8 axes, i.e. `⌈k/s⌉ ≤ 8`) and every input vector, the fast transform returns exactly the
product with the Sylvester Hadamard matrix of order `2^k` — independently of the block size. -/
theorem C18_fwht_eq_matrix (k s : Nat) (hs : 1 ≤ s) (hd : (k + s - 1) / s ≤ 8)
    (x : List α) (hx : x.length = 2 ^ k) :
    fwht (2 ^ s) x = .ok (hmul k x) := by
  obtain ⟨hp, _, hl⟩ := C18_shape k s hs
  unfold fwht
  have h1 : ¬ (2 ^ s ≤ 1) := by
    have := Nat.one_lt_two_pow (show s ≠ 0 by omega); omega
  rw [if_neg h1, hx]
  simp only []
  rw [if_neg (by rw [hl]; omega), if_neg (by rw [hp]; simp)]
  have hall : (shapeOf (2 ^ k) (2 ^ s)).all isPow2 = true := by
    rw [shapeOf_pow k s hs, List.all_eq_true]
    intro d hd
    obtain ⟨e, _, rfl⟩ := List.mem_map.mp hd
    exact isPow2_pow e
  rw [hall]
  simp only [Bool.not_true, Bool.false_eq_true, if_false]
  rw [shapeOf_pow k s hs, applyAxes_eq _ x (by rw [List.sum_reverse, expsOf_sum]; exact hx),
    List.sum_reverse, expsOf_sum]

/-- entries of `hmul`: row `i` of the Sylvester matrix times `x` -/
theorem C18_hmul_entry (k : Nat) (x : List α) (i : Nat) (hi : i < 2 ^ k) :
    (hmul k x).getD i 0 = sumTo (2 ^ k) fun j => ((hEntry k i j : Int) : α) * x.getD j 0 := by
  rw [hmul_def, getD_range_map _ _ _ hi]

end fw

/-! ## linearity, involution, norm of the matrix product -/

section alg
variable {α : Type} [CommRing α]

theorem getD_zipWith_lin (a b : α) (x y : List α) (h : x.length = y.length) (j : Nat) :
    (List.zipWith (fun u v => a * u + b * v) x y).getD j 0 = a * x.getD j 0 + b * y.getD j 0 := by
  simp only [List.getD_eq_getElem?_getD, List.getElem?_zipWith]
  by_cases hj : j < x.length
  · have hj' : j < y.length := by omega
    simp [hj, hj']
  · have hj' : ¬ j < y.length := by omega
    simp [hj, hj']

theorem hmul_linear (k : Nat) (a b : α) (x y : List α) (h : x.length = y.length) :
    hmul k (List.zipWith (fun u v => a * u + b * v) x y)
      = List.zipWith (fun u v => a * u + b * v) (hmul k x) (hmul k y) := by
  simp only [hmul_def, List.zipWith_map_left, List.zipWith_map_right, List.zipWith_self]
  apply List.map_congr_left
  intro i _
  rw [← sumTo_mul_left, ← sumTo_mul_left, ← sumTo_add]
  apply sumTo_congr
  intro j _
  rw [getD_zipWith_lin a b x y h]; ring

theorem hmul_hmul (k : Nat) (x : List α) (hx : x.length = 2 ^ k) :
    hmul k (hmul k x) = x.map (fun v => (2 : α) ^ k * v) := by
  rw [hmul_def k (hmul k x)]
  conv => rhs; rw [list_eq_range_map x, List.map_map, hx]
  apply List.map_congr_left
  intro i hi
  have hi' : i < 2 ^ k := List.mem_range.mp hi
  have e1 : (sumTo (2 ^ k) fun j => ((hEntry k i j : Int) : α) * (hmul k x).getD j 0)
      = sumTo (2 ^ k) fun j => sumTo (2 ^ k) fun l =>
          ((hEntry k i j : Int) : α) * ((hEntry k j l : Int) : α) * x.getD l 0 := by
    apply sumTo_congr
    intro j hj
    rw [C18_hmul_entry k x j hj, ← sumTo_mul_left]
    apply sumTo_congr; intro l _; ring
  rw [e1, sumTo_comm]
  have e2 : ∀ l, l < 2 ^ k → (sumTo (2 ^ k) fun j =>
        ((hEntry k i j : Int) : α) * ((hEntry k j l : Int) : α) * x.getD l 0)
      = if i = l then (2 : α) ^ k * x.getD l 0 else 0 := by
    intro l hl
    rw [sumTo_mul_right, hEntry_orth k i l hi' hl]
    split <;> simp
  rw [sumTo_congr e2, sumTo_delta _ _ hi']
  simp

/-- dot product of the first `n` entries -/
def dotN (n : Nat) (x y : List α) : α := sumTo n fun i => x.getD i 0 * y.getD i 0

theorem hmul_adjoint (k : Nat) (u w : List α) :
    dotN (2 ^ k) (hmul k u) w = dotN (2 ^ k) u (hmul k w) := by
  unfold dotN
  have e1 : (sumTo (2 ^ k) fun i => (hmul k u).getD i 0 * w.getD i 0)
      = sumTo (2 ^ k) fun i => sumTo (2 ^ k) fun j =>
          ((hEntry k i j : Int) : α) * u.getD j 0 * w.getD i 0 := by
    apply sumTo_congr; intro i hi
    rw [C18_hmul_entry k u i hi, ← sumTo_mul_right]
  have e2 : (sumTo (2 ^ k) fun j => u.getD j 0 * (hmul k w).getD j 0)
      = sumTo (2 ^ k) fun j => sumTo (2 ^ k) fun i =>
          ((hEntry k i j : Int) : α) * u.getD j 0 * w.getD i 0 := by
    apply sumTo_congr; intro j hj
    rw [C18_hmul_entry k w j hj, ← sumTo_mul_left]
    apply sumTo_congr; intro i _
    rw [hEntry_comm k j i]; ring
  rw [e1, e2, sumTo_comm]

/-- squared Euclidean norm -/
def sumSq (x : List α) : α := (x.map fun v => v * v).sum

theorem sum_range_map (n : Nat) (g : Nat → α) : ((List.range n).map g).sum = sumTo n g := by
  induction n with
  | zero => simp [sumTo]
  | succ n ih => rw [List.range_succ, List.map_append, List.sum_append, ih]; simp [sumTo]

theorem sumSq_eq_dotN (x : List α) : sumSq x = dotN x.length x x := by
  unfold sumSq dotN
  conv => lhs; rw [list_eq_range_map x, List.map_map]
  rw [sum_range_map]; rfl

theorem getD_map_mul (c : α) (x : List α) (j : Nat) : (x.map (fun v => c * v)).getD j 0 = c * x.getD j 0 := by
  simp only [List.getD_eq_getElem?_getD, List.getElem?_map]
  cases x[j]? <;> simp

theorem sumSq_hmul (k : Nat) (x : List α) (hx : x.length = 2 ^ k) :
    sumSq (hmul k x) = (2 : α) ^ k * sumSq x := by
  rw [sumSq_eq_dotN, sumSq_eq_dotN, hmul_length, hx, hmul_adjoint, hmul_hmul k x hx]
  unfold dotN
  rw [← sumTo_mul_left]
  apply sumTo_congr; intro i _
  rw [getD_map_mul]; ring

end alg

/-! ## structured rotation -/

/-! padding exponent -/

theorem ceilLog2Go_spec (n : Nat) : ∀ fuel k, n ≤ 2 ^ (k + fuel) → (k = 0 ∨ 2 ^ (k - 1) < n) →
    n ≤ 2 ^ (ceilLog2Go n fuel k) ∧ (ceilLog2Go n fuel k = 0 ∨ 2 ^ (ceilLog2Go n fuel k - 1) < n) := by
  intro fuel
  induction fuel with
  | zero => intro k h1 h2; simpa [ceilLog2Go] using ⟨h1, h2⟩
  | succ fuel ih =>
    intro k h1 h2
    simp only [ceilLog2Go]
    by_cases h : n ≤ 2 ^ k
    · rw [if_pos h]; exact ⟨h, h2⟩
    · rw [if_neg h]
      apply ih (k + 1)
      · have : k + 1 + fuel = k + (fuel + 1) := by omega
        rw [this]; exact h1
      · right; simp; omega

/-- `d = 2^(ceilLog2 n)` is the least power of two `≥ n` -/
theorem ceilLog2_spec (n : Nat) :
    n ≤ 2 ^ ceilLog2 n ∧ (ceilLog2 n = 0 ∨ 2 ^ (ceilLog2 n - 1) < n) := by
  unfold ceilLog2
  apply ceilLog2Go_spec
  · simpa using Nat.le_of_lt Nat.lt_two_pow_self
  · left; rfl

theorem ceilLog2_le (n m : Nat) (h : n ≤ 2 ^ m) : ceilLog2 n ≤ m := by
  rcases (ceilLog2_spec n).2 with h0 | h1
  · omega
  · have : 2 ^ (ceilLog2 n - 1) < 2 ^ m := Nat.lt_of_lt_of_le h1 h
    have := (Nat.pow_lt_pow_iff_right (show 1 < 2 by omega)).mp this
    omega

section rotation
variable {α : Type} [CommRing α]

/-- a Rademacher vector: entries `±1` -/
def IsSigns (signs : List Int) : Prop := ∀ s ∈ signs, s = 1 ∨ s = -1

theorem isSigns_cons {s : Int} {ss : List Int} (h : IsSigns (s :: ss)) : (s = 1 ∨ s = -1) ∧ IsSigns ss :=
  ⟨h s (by simp), fun t ht => h t (by simp [ht])⟩

theorem sumSq_cons (a : α) (x : List α) : sumSq (a :: x) = a * a + sumSq x := by simp [sumSq]

theorem sumSq_flip : ∀ (p : List α) (signs : List Int), p.length = signs.length → IsSigns signs →
    sumSq (List.zipWith (fun v (s : Int) => v * (s : α)) p signs) = sumSq p := by
  intro p
  induction p with
  | nil => intro signs _ _; simp [sumSq]
  | cons a p ih =>
    intro signs hl hs
    match signs, hl, hs with
    | s :: ss, hl, hs =>
      obtain ⟨h1, h2⟩ := isSigns_cons hs
      simp only [List.zipWith_cons_cons, sumSq_cons]
      rw [ih ss (by simpa using hl) h2]
      rcases h1 with rfl | rfl <;> (push_cast; ring)

theorem sum_replicate_zero (n : Nat) : (List.replicate n (0 : α)).sum = 0 := by
  induction n with
  | zero => simp
  | succ n ih => simp [List.replicate_succ, ih]

theorem sumSq_pad (d : Nat) (x : List α) : sumSq (padTo d x) = sumSq x := by
  simp [sumSq, padTo]

theorem flip_smul (c : α) : ∀ (t : List α) (signs : List Int),
    List.zipWith (fun v (s : Int) => v * (s : α)) (t.map fun v => c * v) signs
      = (List.zipWith (fun v (s : Int) => v * (s : α)) t signs).map fun v => c * v := by
  intro t
  induction t with
  | nil => intro signs; simp
  | cons a t ih =>
    intro signs
    match signs with
    | [] => simp
    | s :: ss => simp only [List.map_cons, List.zipWith_cons_cons, ih ss]; congr 1; ring

theorem sumSq_smul (c : α) (y : List α) : sumSq (y.map fun v => c * v) = c * c * sumSq y := by
  induction y with
  | nil => simp [sumSq]
  | cons a y ih => simp only [List.map_cons, sumSq_cons, ih]; ring

theorem unflip (D : α) : ∀ (p : List α) (signs : List Int), p.length = signs.length → IsSigns signs →
    List.zipWith (fun v (s : Int) => v * (s : α))
      ((List.zipWith (fun v (s : Int) => v * (s : α)) p signs).map (fun v => D * v)) signs
      = p.map (fun v => D * v) := by
  intro p
  induction p with
  | nil => intro signs _ _; simp
  | cons a p ih =>
    intro signs hl hs
    match signs, hl, hs with
    | s :: ss, hl, hs =>
      obtain ⟨h1, h2⟩ := isSigns_cons hs
      simp only [List.zipWith_cons_cons, List.map_cons]
      rw [ih ss (by simpa using hl) h2]
      congr 1
      rcases h1 with rfl | rfl <;> (push_cast; ring)

theorem hmul_smul (k : Nat) (c : α) (x : List α) :
    hmul k (x.map fun v => c * v) = (hmul k x).map fun v => c * v := by
  simp only [hmul_def, List.map_map]
  apply List.map_congr_left
  intro i _
  simp only [Function.comp]
  rw [← sumTo_mul_left]
  apply sumTo_congr; intro j _
  rw [getD_map_mul]; ring

theorem fwht_default (k : Nat) (hk : k ≤ 56) (x : List α) (hx : x.length = 2 ^ k) :
    fwht defaultSmall x = .ok (hmul k x) :=
  C18_fwht_eq_matrix k 7 (by omega) (by omega) x hx

/-- facts shared by the rotation theorems -/
theorem rotU_eq (signs : List Int) (x : List α) (h1 : 1 ≤ x.length) (h56 : x.length ≤ 2 ^ 56)
    (hl : signs.length = 2 ^ ceilLog2 x.length) :
    rotU signs x = .ok (hmul (ceilLog2 x.length)
      (List.zipWith (fun v (s : Int) => v * (s : α)) (padTo (2 ^ ceilLog2 x.length) x) signs)) ∧
    (padTo (2 ^ ceilLog2 x.length) x).length = 2 ^ ceilLog2 x.length := by
  have hpad : (padTo (2 ^ ceilLog2 x.length) x).length = 2 ^ ceilLog2 x.length := by
    have := (ceilLog2_spec x.length).1
    simp [padTo]; omega
  refine ⟨?_, hpad⟩
  unfold rotU
  rw [if_neg (by omega)]
  exact fwht_default _ (ceilLog2_le _ _ h56) _ (by simp [hpad, hl])

/-- **C18 (norm, unnormalised).** `‖H·D·pad x‖² = d·‖x‖²`. -/
theorem C18_norm_unnormalised (signs : List Int) (x : List α) (h1 : 1 ≤ x.length)
    (h56 : x.length ≤ 2 ^ 56) (hl : signs.length = 2 ^ ceilLog2 x.length) (hs : IsSigns signs) :
    ∃ y, rotU signs x = .ok y ∧ y.length = 2 ^ ceilLog2 x.length ∧
      sumSq y = (2 : α) ^ ceilLog2 x.length * sumSq x := by
  obtain ⟨e, hpad⟩ := rotU_eq signs x h1 h56 hl
  refine ⟨_, e, hmul_length _ _, ?_⟩
  rw [sumSq_hmul _ _ (by simp [hpad, hl]), sumSq_flip _ _ (by rw [hpad, hl]) hs, sumSq_pad]

/-- **C18 (inverse, unnormalised).** `D·H·H·D·pad x = d·pad x`, cropped to the original size. -/
theorem C18_inverse_unnormalised (signs : List Int) (x : List α) (shape : List Nat)
    (hshape : shape.prod = x.length) (h1 : 1 ≤ x.length)
    (h56 : x.length ≤ 2 ^ 56) (hl : signs.length = 2 ^ ceilLog2 x.length) (hs : IsSigns signs) :
    ∃ y, rotU signs x = .ok y ∧
      invRotU signs y shape = .ok (x.map fun v => (2 : α) ^ ceilLog2 x.length * v) := by
  obtain ⟨e, hpad⟩ := rotU_eq signs x h1 h56 hl
  refine ⟨_, e, ?_⟩
  unfold invRotU
  have hw : (List.zipWith (fun v (s : Int) => v * (s : α)) (padTo (2 ^ ceilLog2 x.length) x) signs).length
      = 2 ^ ceilLog2 x.length := by simp [hpad, hl]
  rw [fwht_default _ (ceilLog2_le _ _ h56) _ (hmul_length _ _), hmul_hmul _ _ hw]
  simp only []
  rw [unflip _ _ _ (by rw [hpad, hl]) hs, hshape, ← List.map_take]
  congr 2
  exact List.take_left' rfl

/-- **C18 (norm).** With `c` standing for `1/sqrt d` (`c·c·d = 1`), the rotation preserves the
squared Euclidean norm, for every input size `≥ 1` (padding to the next power of two included). -/
theorem C18_norm (c : α) (signs : List Int) (x : List α) (h1 : 1 ≤ x.length)
    (h56 : x.length ≤ 2 ^ 56) (hl : signs.length = 2 ^ ceilLog2 x.length) (hs : IsSigns signs)
    (hc : c * c * (2 : α) ^ ceilLog2 x.length = 1) :
    ∃ y, rot c signs x = .ok y ∧ y.length = 2 ^ ceilLog2 x.length ∧ sumSq y = sumSq x := by
  obtain ⟨y, e, hlen, hn⟩ := C18_norm_unnormalised signs x h1 h56 hl hs
  refine ⟨y.map fun v => c * v, by simp [rot, e], by simpa using hlen, ?_⟩
  rw [sumSq_smul, hn, ← mul_assoc, hc, one_mul]

/-- **C18 (inverse).** With `c` standing for `1/sqrt d`, the inverse rotation with the same signs
restores the input (flat, C order, `prod shape` entries) exactly, for every input size `≥ 1`. -/
theorem C18_inverse (c : α) (signs : List Int) (x : List α) (shape : List Nat)
    (hshape : shape.prod = x.length) (h1 : 1 ≤ x.length)
    (h56 : x.length ≤ 2 ^ 56) (hl : signs.length = 2 ^ ceilLog2 x.length) (hs : IsSigns signs)
    (hc : c * c * (2 : α) ^ ceilLog2 x.length = 1) :
    ∃ y, rot c signs x = .ok y ∧ invRot c signs y shape = .ok x := by
  obtain ⟨e, hpad⟩ := rotU_eq signs x h1 h56 hl
  obtain ⟨y, e', hinv⟩ := C18_inverse_unnormalised signs x shape hshape h1 h56 hl hs
  have hy : y = _ := Except.ok.inj (e'.symm.trans e)
  refine ⟨y.map fun v => c * v, by simp [rot, e'], ?_⟩
  have hy2 : y.length = 2 ^ ceilLog2 x.length := by rw [hy, hmul_length]
  have hk := ceilLog2_le _ _ h56
  have hu := hinv
  unfold invRot invRotU
  unfold invRotU at hu
  rw [fwht_default _ hk _ (by simpa using hy2), hmul_smul]
  rw [fwht_default _ hk _ hy2] at hu
  simp only [] at hu ⊢
  rw [flip_smul, ← List.map_take]
  rw [Except.ok.inj hu, List.map_map, List.map_map]
  congr 1
  conv => rhs; rw [← List.map_id x]
  apply List.map_congr_left
  intro v _
  simp only [Function.comp, id]
  calc c * (c * ((2 : α) ^ ceilLog2 x.length * v)) = (c * c * (2 : α) ^ ceilLog2 x.length) * v := by ring
    _ = v := by rw [hc, one_mul]

end rotation

/-! ## corollaries, guards, trees -/

section cor
variable {α : Type} [CommRing α]

/-- **C18 (linearity).** The transform of a linear combination is the same combination of the transforms. -/
theorem C18_linear (k s : Nat) (hs : 1 ≤ s) (hd : (k + s - 1) / s ≤ 8) (a b : α)
    (x y : List α) (hx : x.length = 2 ^ k) (hy : y.length = 2 ^ k) :
    ∃ fx fy, fwht (2 ^ s) x = .ok fx ∧ fwht (2 ^ s) y = .ok fy ∧
      fwht (2 ^ s) (List.zipWith (fun u v => a * u + b * v) x y)
        = .ok (List.zipWith (fun u v => a * u + b * v) fx fy) := by
  refine ⟨hmul k x, hmul k y, C18_fwht_eq_matrix k s hs hd x hx, C18_fwht_eq_matrix k s hs hd y hy, ?_⟩
  rw [C18_fwht_eq_matrix k s hs hd _ (by simp [hx, hy]), hmul_linear k a b x y (by rw [hx, hy])]

/-- **C18 (involution).** Applying the transform twice (with any two valid block sizes) multiplies
by the length: `H·H = 2^k·I`. -/
theorem C18_involution (k s s' : Nat) (hs : 1 ≤ s) (hd : (k + s - 1) / s ≤ 8)
    (hs' : 1 ≤ s') (hd' : (k + s' - 1) / s' ≤ 8) (x : List α) (hx : x.length = 2 ^ k) :
    ∃ fx, fwht (2 ^ s) x = .ok fx ∧ fwht (2 ^ s') fx = .ok (x.map fun v => (2 : α) ^ k * v) := by
  refine ⟨hmul k x, C18_fwht_eq_matrix k s hs hd x hx, ?_⟩
  rw [C18_fwht_eq_matrix k s' hs' hd' _ (hmul_length k x), hmul_hmul k x hx]

/-- **C18 (row orthogonality).** `Σ_j H[i,j]·H[j,l] = 2^k·δ_{il}`. -/
theorem C18_orthogonal (k i l : Nat) (hi : i < 2 ^ k) (hl : l < 2 ^ k) :
    sumTo (2 ^ k) (fun j => ((hEntry k i j : Int) : α) * ((hEntry k j l : Int) : α))
      = if i = l then (2 : α) ^ k else 0 := hEntry_orth k i l hi hl

/-- **C18 (guards).** The code's explicit rejections: block size `≤ 1`, and more than 8 axes. -/
theorem C18_rejects (x : List α) :
    (∀ small, small ≤ 1 → fwht small x = .error "ValueError") ∧
    (∀ k s, 1 ≤ s → x.length = 2 ^ k → 8 < (k + s - 1) / s → fwht (2 ^ s) x = .error "ValueError") := by
  constructor
  · intro small h; simp [fwht, h]
  · intro k s hs hx h8
    obtain ⟨_, _, hl⟩ := C18_shape k s hs
    unfold fwht
    have h1 : ¬ (2 ^ s ≤ 1) := by
      have := Nat.one_lt_two_pow (show s ≠ 0 by omega); omega
    rw [if_neg h1, hx]
    simp only []
    rw [if_pos (by rw [hl]; omega)]

/-! ### parameter trees -/

/-- what the rotation needs of one leaf: recorded shape, size `≥ 1`, signs of the padded length,
`c` a stand-in for `1/sqrt d` -/
def LeafOK (c : α) (signs : List Int) (x : List α) (shape : List Nat) : Prop :=
  shape.prod = x.length ∧ 1 ≤ x.length ∧ x.length ≤ 2 ^ 56 ∧
  signs.length = 2 ^ ceilLog2 x.length ∧ IsSigns signs ∧ c * c * (2 : α) ^ ceilLog2 x.length = 1

def LeavesOK : List α → List (List Int) → List (List α) → List (List Nat) → Prop
  | c :: cs, s :: ss, x :: xs, sh :: shs => LeafOK c s x sh ∧ LeavesOK cs ss xs shs
  | [], [], [], [] => True
  | _, _, _, _ => False

/-- **C18 (trees).** Leaf-wise: with per-leaf sign vectors shared by rotation and inverse, the tree
rotation succeeds, preserves every leaf's norm and the inverse restores every leaf. -/
theorem C18_pytree : ∀ (cs : List α) (ss : List (List Int)) (xs : List (List α)) (shs : List (List Nat)),
    LeavesOK cs ss xs shs →
    ∃ ys, rotTree cs ss xs = .ok ys ∧ invRotTree cs ss ys shs = .ok xs ∧
      ys.map sumSq = xs.map sumSq
  | [], [], [], [], _ => ⟨[], by simp [rotTree], by simp [invRotTree], rfl⟩
  | c :: cs, s :: ss, x :: xs, sh :: shs, h => by
    obtain ⟨⟨h1, h2, h3, h4, h5, h6⟩, hrest⟩ := h
    obtain ⟨ys, e1, e2, e3⟩ := C18_pytree cs ss xs shs hrest
    obtain ⟨y, r1, r2⟩ := C18_inverse c s x sh h1 h2 h3 h4 h5 h6
    obtain ⟨y', r1', _, r3⟩ := C18_norm c s x h2 h3 h4 h5 h6
    have : y' = y := Except.ok.inj (r1'.symm.trans r1)
    subst this
    refine ⟨y' :: ys, ?_, ?_, ?_⟩
    · simp [rotTree, r1, e1]
    · simp [invRotTree, r2, e2]
    · simp [r3, e3]
  | [], _ :: _, _, _, h | [], [], _ :: _, _, h | [], [], [], _ :: _, h => by simp [LeavesOK] at h
  | _ :: _, [], _, _, h | _ :: _, _ :: _, [], _, h | _ :: _, _ :: _, _ :: _, [], h => by simp [LeavesOK] at h

end cor

/-! ## different signs give different rotations -/

theorem hEntry_zero_row (k : Nat) : ∀ j, hEntry k 0 j = 1 := by
  induction k with
  | zero => intro j; rfl
  | succ k ih => intro j; simp [hEntry, bitSign, ih]

theorem ceilLog2_pow (k : Nat) : ceilLog2 (2 ^ k) = k := by
  have h1 := ceilLog2_le (2 ^ k) k (Nat.le_refl _)
  have h2 := (ceilLog2_spec (2 ^ k)).1
  have := (Nat.pow_le_pow_iff_right (show 1 < 2 by omega)).mp h2
  omega

section distinct
variable {α : Type} [CommRing α]

theorem getD_flip (p : List α) (signs : List Int) (j : Nat) :
    (List.zipWith (fun v (s : Int) => v * (s : α)) p signs).getD j 0 = p.getD j 0 * ((signs.getD j 0 : Int) : α) := by
  simp only [List.getD_eq_getElem?_getD, List.getElem?_zipWith]
  cases p[j]? <;> cases signs[j]? <;> simp

/-- **C18 (different signs, different rotation).** Two different Rademacher vectors of the padded
length give rotations that differ on some input (in any ring where `2 ≠ 0`). Together with the
(trusted, monitored) fact that different keys draw different sign vectors this is the
"different keys give different rotations" clause. -/
theorem C18_signs_distinct (h2 : (2 : α) ≠ 0) (k : Nat) (hk : k ≤ 56) (signs signs' : List Int)
    (hl : signs.length = 2 ^ k) (hl' : signs'.length = 2 ^ k) (hs : IsSigns signs) (hs' : IsSigns signs')
    (hne : signs ≠ signs') :
    ∃ x : List α, x.length = 2 ^ k ∧ rotU signs x ≠ rotU signs' x := by
  -- a coordinate where the signs differ
  have hj : ∃ j, j < 2 ^ k ∧ signs.getD j 0 ≠ signs'.getD j 0 := by
    by_contra hcon
    apply hne
    apply List.ext_getElem (by rw [hl, hl'])
    intro j h1 h1'
    by_contra hjne
    apply hcon
    refine ⟨j, by omega, ?_⟩
    simpa [List.getD_eq_getElem?_getD, h1, h1'] using hjne
  obtain ⟨j, hj, hdiff⟩ := hj
  let x : List α := (List.range (2 ^ k)).map fun i => if j = i then 1 else 0
  have hx : x.length = 2 ^ k := by simp [x]
  refine ⟨x, hx, ?_⟩
  have hc : ceilLog2 x.length = k := by rw [hx, ceilLog2_pow]
  have h56 : x.length ≤ 2 ^ 56 := by rw [hx]; exact Nat.pow_le_pow_right (by omega) hk
  obtain ⟨e, _⟩ := rotU_eq (α := α) signs x (by rw [hx]; exact Nat.two_pow_pos k) h56 (by rw [hc, hl])
  obtain ⟨e', _⟩ := rotU_eq (α := α) signs' x (by rw [hx]; exact Nat.two_pow_pos k) h56 (by rw [hc, hl'])
  rw [e, e', hc]
  intro heq
  have heq' := congrArg (fun l => l.getD 0 0) (Except.ok.inj heq)
  rw [C18_hmul_entry _ _ 0 (Nat.two_pow_pos k), C18_hmul_entry _ _ 0 (Nat.two_pow_pos k)] at heq'
  have hpadx : padTo (2 ^ k) x = x := by simp [padTo, hx]
  have row : ∀ sg : List Int, (sumTo (2 ^ k) fun i => ((hEntry k 0 i : Int) : α) *
      (List.zipWith (fun v (s : Int) => v * (s : α)) (padTo (2 ^ k) x) sg).getD i 0)
      = ((sg.getD j 0 : Int) : α) := by
    intro sg
    rw [hpadx]
    have : ∀ i, i < 2 ^ k → ((hEntry k 0 i : Int) : α) *
        (List.zipWith (fun v (s : Int) => v * (s : α)) x sg).getD i 0
        = if j = i then ((sg.getD i 0 : Int) : α) else 0 := by
      intro i hi
      rw [hEntry_zero_row, getD_flip, getD_range_map _ _ _ hi]
      split <;> simp
    rw [sumTo_congr this, sumTo_delta _ _ hj]
  rw [row signs, row signs'] at heq'
  -- ±1 casts differ when 2 ≠ 0
  have m1 : signs.getD j 0 = 1 ∨ signs.getD j 0 = -1 := by
    have : signs.getD j 0 ∈ signs := by
      rw [List.getD_eq_getElem?_getD, List.getElem?_eq_getElem (by omega)]; simp
    exact hs _ this
  have m2 : signs'.getD j 0 = 1 ∨ signs'.getD j 0 = -1 := by
    have : signs'.getD j 0 ∈ signs' := by
      rw [List.getD_eq_getElem?_getD, List.getElem?_eq_getElem (by omega)]; simp
    exact hs' _ this
  rcases m1 with a1 | a1 <;> rcases m2 with a2 | a2 <;> rw [a1, a2] at heq' hdiff
  · exact hdiff rfl
  · push_cast at heq'
    apply h2
    have : (2 : α) = 1 - (-1) := by ring
    rw [this, ← heq']; ring
  · push_cast at heq'
    apply h2
    have : (2 : α) = 1 - (-1) := by ring
    rw [this, heq']; ring
  · exact hdiff rfl

end distinct

/-! ## over the reals, with `1/sqrt d` itself -/

theorem inv_sqrt_sq (k : Nat) :
    (1 / Real.sqrt ((2 : ℝ) ^ k)) * (1 / Real.sqrt ((2 : ℝ) ^ k)) * (2 : ℝ) ^ k = 1 := by
  have hpos : (0 : ℝ) < (2 : ℝ) ^ k := by positivity
  have hr : Real.sqrt ((2 : ℝ) ^ k) * Real.sqrt ((2 : ℝ) ^ k) = (2 : ℝ) ^ k := Real.mul_self_sqrt hpos.le
  have hr0 : Real.sqrt ((2 : ℝ) ^ k) ≠ 0 := (Real.sqrt_pos.mpr hpos).ne'
  field_simp
  linarith [hr]

/-- **C18 over the reals, with the code's actual factor `1/sqrt d`.** -/
theorem C18_real_rotation (signs : List Int) (x : List ℝ) (shape : List Nat)
    (hshape : shape.prod = x.length) (h1 : 1 ≤ x.length) (h56 : x.length ≤ 2 ^ 56)
    (hl : signs.length = 2 ^ ceilLog2 x.length) (hs : IsSigns signs) :
    ∃ y, rot (1 / Real.sqrt ((2 : ℝ) ^ ceilLog2 x.length)) signs x = .ok y ∧
      sumSq y = sumSq x ∧
      invRot (1 / Real.sqrt ((2 : ℝ) ^ ceilLog2 x.length)) signs y shape = .ok x := by
  obtain ⟨y, r1, r2⟩ := C18_inverse _ signs x shape hshape h1 h56 hl hs (inv_sqrt_sq _)
  obtain ⟨y', r1', _, r3⟩ := C18_norm _ signs x h1 h56 hl hs (inv_sqrt_sq _)
  have : y' = y := Except.ok.inj (r1'.symm.trans r1)
  subst this
  exact ⟨y', r1, r3, r2⟩

/-! ## examples -/

/-! ## non-vacuity: concrete instances meeting the hypotheses -/

-- the model computes, and the hypotheses of the main theorem are met by a 3-axis schedule (8 = 2·2·2)
example : shapeOf 32 4 = [2, 4, 4] := by decide
example : shapeOf 1024 128 = [8, 128] := by decide
example : fwht 4 ([0, 1, 2, 3, 4, 5, 6, 7] : List Int) = .ok [28, -4, -8, 0, -16, 0, 0, 0] := by decide
example : fwht (2 ^ 1) ([1, 2, 3, 4, 5, 6, 7, 8] : List ℚ) = .ok (hmul 3 [1, 2, 3, 4, 5, 6, 7, 8]) :=
  C18_fwht_eq_matrix 3 1 (by omega) (by decide) _ rfl
example : hmul 2 ([1, 0, 0, 0] : List Int) = [1, 1, 1, 1] ∧ hmul 2 ([0, 0, 0, 1] : List Int) = [1, -1, -1, 1] := by
  decide
-- the 8-axis limit is reachable and the 9-axis rejection is real
example : (8 + 1 - 1) / 1 ≤ 8 ∧ 8 < (9 + 1 - 1) / 1 := by decide
-- rotation of a size-3 input (padded to 4) with c = 1/2
example : ∃ y, rot (1/2 : ℚ) [1, -1, -1, 1] [2, 1, 5] = .ok y ∧ sumSq y = sumSq ([2, 1, 5] : List ℚ) ∧
    invRot (1/2 : ℚ) [1, -1, -1, 1] y [3] = .ok [2, 1, 5] := by
  have hl : ([1, -1, -1, 1] : List Int).length = 2 ^ ceilLog2 ([2, 1, 5] : List ℚ).length := by decide
  have hs : IsSigns [1, -1, -1, 1] := by intro s h; simp at h; omega
  have hc : (1/2 : ℚ) * (1/2) * (2 : ℚ) ^ ceilLog2 ([2, 1, 5] : List ℚ).length = 1 := by
    have : ceilLog2 ([2, 1, 5] : List ℚ).length = 2 := by decide
    rw [this]; norm_num
  obtain ⟨y, r1, r2⟩ := C18_inverse (1/2 : ℚ) [1, -1, -1, 1] [2, 1, 5] [3] rfl (by decide) (by decide) hl hs hc
  obtain ⟨y', r1', _, r3⟩ := C18_norm (1/2 : ℚ) [1, -1, -1, 1] [2, 1, 5] (by decide) (by decide) hl hs hc
  have : y' = y := Except.ok.inj (r1'.symm.trans r1)
  subst this
  exact ⟨y', r1, r3, r2⟩
-- a 0-d leaf (shape [] , one entry) and a 2-d leaf satisfy `LeafOK`
example : LeafOK (1 : ℚ) [-1] [7] [] := by
  refine ⟨rfl, by decide, by decide, by decide, ?_, by simp [ceilLog2, ceilLog2Go]⟩
  intro s h; simp at h; omega
example : rotU [-1] ([7] : List Int) = .ok [-7] ∧ invRotU [-1] ([-7] : List Int) [] = .ok [7] := by decide
example : rotU [1, -1, -1, 1] ([2, 1, 5] : List Int) = .ok [-4, -2, 6, 8] := by decide
-- different signs do give different rotations on a unit vector
example : rotU [1, 1] ([1, 0] : List Int) ≠ rotU [-1, 1] ([1, 0] : List Int) := by decide

/-! ## the sign diagonal is observable through the rotation of ones -/

section recover
variable {α : Type} [CommRing α]

/-- **C18 (the diagonal is observable).** Whatever ±1 (indeed: whatever integer) vector `signs` a key
stands for, it can be read off the rotation of the all-ones input: `H·(H·D·pad 1) = d·(D·pad 1)`, i.e. entry
`i < n` of `H·rotU signs ones / d` is `signs[i]` and the padding entries are `0`. This is what the harness uses to
recover `D` from the implementation instead of predicting the random stream. -/
theorem C18_diag_recover (signs : List Int) (n : Nat) (h1 : 1 ≤ n) (h56 : n ≤ 2 ^ 56)
    (hl : signs.length = 2 ^ ceilLog2 n) :
    ∃ y, rotU signs (List.replicate n (1 : α)) = .ok y ∧
      hmul (ceilLog2 n) y =
        (List.zipWith (fun v (s : Int) => v * (s : α)) (padTo (2 ^ ceilLog2 n) (List.replicate n (1 : α))) signs).map
          (fun v => (2 : α) ^ ceilLog2 n * v) := by
  have hlen : (List.replicate n (1 : α)).length = n := List.length_replicate
  obtain ⟨e, hpad⟩ := rotU_eq (α := α) signs (List.replicate n 1) (by rw [hlen]; exact h1) (by rw [hlen]; exact h56)
    (by rw [hlen]; exact hl)
  rw [hlen] at e hpad
  refine ⟨_, e, ?_⟩
  exact hmul_hmul _ _ (by simp [hpad, hl])

end recover

example : ∃ y, rotU [1, -1, -1, 1] (List.replicate 3 (1 : ℤ)) = .ok y ∧
    hmul 2 y = [4, -4, -4, 0] := by
  obtain ⟨y, h1, h2⟩ := C18_diag_recover (α := ℤ) [1, -1, -1, 1] 3 (by decide) (by decide) (by decide)
  refine ⟨y, h1, ?_⟩
  have e : ceilLog2 3 = 2 := by decide
  rw [e] at h2
  rw [h2]; decide

end FedjaxVerif.Hadamard
