import FedjaxVerif.Model.Samplers
import Mathlib.NumberTheory.LucasPrimality
import Mathlib.Tactic.NormNum.Prime

/-!
# C13 — client sampling is a pure function of (seed, round number)

Property theorems about `Model/Samplers.lean` (model of `UniformGetClientSampler`,
`get_pseudo_random_state`, `UniformShuffledClientSampler`).  numpy's `choice`, jax's
`split(PRNGKey(round), n)` and the dataset lookup are arbitrary oracles; every statement holds
for all oracles, all seeds (`start`), all cohort sizes, all round numbers and all call histories.
-/

namespace FedjaxVerif.Samplers

/-! ## helper lemmas: modular exponentiation -/

theorem powModF_eq (fuel : Nat) : ∀ (b e m : Nat), e < 2 ^ fuel → powModF fuel b e m = b ^ e % m := by
  induction fuel with
  | zero =>
    intro b e m h
    have : e = 0 := by simpa using h
    subst this; simp [powModF]
  | succ f ih =>
    intro b e m h
    unfold powModF
    by_cases he : e = 0
    · subst he; simp
    · simp only [he, if_false]
      have h2 : e / 2 < 2 ^ f := by
        rw [Nat.div_lt_iff_lt_mul (by decide)]; rw [Nat.pow_succ] at h; exact h
      rw [ih _ _ _ h2, ← Nat.pow_mod, ← Nat.pow_two, ← Nat.pow_mul]
      by_cases hodd : e % 2 = 1
      · simp only [hodd, if_true]
        have he2 : e = 2 * (e / 2) + 1 := by omega
        conv_rhs => rw [he2, Nat.pow_succ, Nat.mul_comm]
        rw [Nat.mul_mod, Nat.mod_mod, ← Nat.mul_mod]
      · simp only [hodd, if_false]
        have he2 : e = 2 * (e / 2) := by omega
        conv_rhs => rw [he2]

/-- `powMod` is Python's three-argument `pow` for every exponent. -/
theorem powMod_eq (b e m : Nat) : powMod b e m = b ^ e % m :=
  powModF_eq _ _ _ _ Nat.lt_log2_self

/-- closed form of the numpy seed of round `r`. -/
theorem lehmer_eq (start r : Nat) : lehmer start r = G ^ r * start % P := by
  unfold lehmer
  rw [powMod_eq, Nat.mod_mul_mod]

/-! ## helper lemmas: `2^31 - 1` is prime and `16807` is a primitive root -/

theorem P_pred_factor : P - 1 = 2 * 3 * 3 * 7 * 11 * 31 * 151 * 331 := by decide

theorem prime_dvd_P_pred {q : Nat} (hq : q.Prime) (hd : q ∣ P - 1) :
    q = 2 ∨ q = 3 ∨ q = 7 ∨ q = 11 ∨ q = 31 ∨ q = 151 ∨ q = 331 := by
  rw [P_pred_factor] at hd
  have e := fun (p : Nat) (hp : p.Prime) (h : q ∣ p) => (Nat.prime_dvd_prime_iff_eq hq hp).mp h
  rcases (Nat.Prime.dvd_mul hq).mp hd with hd | h
  rcases (Nat.Prime.dvd_mul hq).mp hd with hd | h
  rcases (Nat.Prime.dvd_mul hq).mp hd with hd | h
  rcases (Nat.Prime.dvd_mul hq).mp hd with hd | h
  rcases (Nat.Prime.dvd_mul hq).mp hd with hd | h
  rcases (Nat.Prime.dvd_mul hq).mp hd with hd | h
  rcases (Nat.Prime.dvd_mul hq).mp hd with hd | h
  · exact Or.inl (e 2 (by norm_num) hd)
  all_goals first
    | exact Or.inr (Or.inl (e 3 (by norm_num) h))
    | exact Or.inr (Or.inr (Or.inl (e 7 (by norm_num) h)))
    | exact Or.inr (Or.inr (Or.inr (Or.inl (e 11 (by norm_num) h))))
    | exact Or.inr (Or.inr (Or.inr (Or.inr (Or.inl (e 31 (by norm_num) h)))))
    | exact Or.inr (Or.inr (Or.inr (Or.inr (Or.inr (Or.inl (e 151 (by norm_num) h))))))
    | exact Or.inr (Or.inr (Or.inr (Or.inr (Or.inr (Or.inr (e 331 (by norm_num) h))))))

/-- transfer of a `powMod` evaluation to `ZMod P`. -/
theorem zmod_pow_of_powMod (e v : Nat) (h : powMod G e P = v) : (G : ZMod P) ^ e = (v : ZMod P) := by
  rw [powMod_eq] at h
  have : ((G ^ e : Nat) : ZMod P) = ((G ^ e % P : Nat) : ZMod P) := by
    rw [ZMod.natCast_mod]
  rw [h] at this
  rw [← this]; push_cast; rfl

theorem zmod_ne_one_of_lt (v : Nat) (h1 : v ≠ 1) (h2 : v < P) (h0 : 1 < P := by decide) :
    (v : ZMod P) ≠ 1 := by
  intro h
  have : ((v : Nat) : ZMod P) = ((1 : Nat) : ZMod P) := by simpa using h
  rw [ZMod.natCast_eq_natCast_iff'] at this
  rw [Nat.mod_eq_of_lt h2, Nat.mod_eq_of_lt h0] at this
  exact h1 this

theorem G_pow_full : (G : ZMod P) ^ (P - 1) = 1 := by
  have := zmod_pow_of_powMod (P - 1) 1 (by decide +kernel)
  simpa using this

theorem G_pow_div {q : Nat} (hq : q.Prime) (hd : q ∣ P - 1) : (G : ZMod P) ^ ((P - 1) / q) ≠ 1 := by
  rcases prime_dvd_P_pred hq hd with h | h | h | h | h | h | h <;> subst h
  · rw [zmod_pow_of_powMod ((P - 1) / 2) (powMod G ((P - 1) / 2) P) rfl]
    exact zmod_ne_one_of_lt _ (by decide +kernel) (by decide +kernel)
  · rw [zmod_pow_of_powMod ((P - 1) / 3) (powMod G ((P - 1) / 3) P) rfl]
    exact zmod_ne_one_of_lt _ (by decide +kernel) (by decide +kernel)
  · rw [zmod_pow_of_powMod ((P - 1) / 7) (powMod G ((P - 1) / 7) P) rfl]
    exact zmod_ne_one_of_lt _ (by decide +kernel) (by decide +kernel)
  · rw [zmod_pow_of_powMod ((P - 1) / 11) (powMod G ((P - 1) / 11) P) rfl]
    exact zmod_ne_one_of_lt _ (by decide +kernel) (by decide +kernel)
  · rw [zmod_pow_of_powMod ((P - 1) / 31) (powMod G ((P - 1) / 31) P) rfl]
    exact zmod_ne_one_of_lt _ (by decide +kernel) (by decide +kernel)
  · rw [zmod_pow_of_powMod ((P - 1) / 151) (powMod G ((P - 1) / 151) P) rfl]
    exact zmod_ne_one_of_lt _ (by decide +kernel) (by decide +kernel)
  · rw [zmod_pow_of_powMod ((P - 1) / 331) (powMod G ((P - 1) / 331) P) rfl]
    exact zmod_ne_one_of_lt _ (by decide +kernel) (by decide +kernel)

/-- `2^31 - 1` is prime (Lucas test with witness `16807`). -/
theorem prime_P : Nat.Prime P :=
  lucas_primality P (G : ZMod P) G_pow_full (fun _ hq hd => G_pow_div hq hd)

/-! ## the Lehmer seed derivation -/

/-- One more round = one Lehmer step `x ↦ 16807·x mod (2^31−1)`; round 0 is the start value. -/
theorem C13_lehmer_step (start r : Nat) :
    lehmer start (r + 1) = G * lehmer start r % P ∧ lehmer start 0 = start % P := by
  refine ⟨?_, by simp [lehmer_eq]⟩
  rw [lehmer_eq, lehmer_eq, Nat.pow_succ, Nat.mul_mod_mod, Nat.mul_comm (G ^ r) G, Nat.mul_assoc]

/-- The numpy seed of every round lies in `[1, 2^31−2]` (never 0, never out of numpy's seed range)
when the start value does (`randint(1, 2^31−2)` guarantees it). -/
theorem C13_lehmer_nonzero (start r : Nat) (h1 : 1 ≤ start) (h2 : start < P) :
    1 ≤ lehmer start r ∧ lehmer start r ≤ P - 1 := by
  have hlt : lehmer start r < P := by rw [lehmer_eq]; exact Nat.mod_lt _ (by decide)
  have hne : lehmer start r ≠ 0 := by
    rw [lehmer_eq]
    intro h0
    have hd : P ∣ G ^ r * start := Nat.dvd_of_mod_eq_zero h0
    rcases (Nat.Prime.dvd_mul prime_P).mp hd with h | h
    · have := Nat.Prime.dvd_of_dvd_pow prime_P h
      exact absurd (Nat.le_of_dvd (by decide) this) (by decide)
    · exact absurd (Nat.le_of_dvd (by omega) h) (by omega)
  have : P = 2147483647 := rfl
  omega

/-- `16807` is a primitive root modulo `2^31 − 1`. -/
theorem orderOf_G : orderOf (G : ZMod P) = P - 1 :=
  orderOf_eq_of_pow_and_pow_div_prime (by decide) G_pow_full (fun _ hq hd => G_pow_div hq hd)

/-- Two rounds get the same numpy seed iff they differ by a multiple of `2^31 − 2` (the full
period of the generator): within any `2^31 − 2` consecutive rounds all seeds are distinct. -/
theorem C13_lehmer_injective (start r₁ r₂ : Nat) (h1 : 1 ≤ start) (h2 : start < P) :
    lehmer start r₁ = lehmer start r₂ ↔ r₁ % (P - 1) = r₂ % (P - 1) := by
  have : Fact P.Prime := ⟨prime_P⟩
  have hs : (start : ZMod P) ≠ 0 := by
    intro h
    rw [ZMod.natCast_eq_zero_iff] at h
    exact absurd (Nat.le_of_dvd (by omega) h) (by omega)
  have hG : (G : ZMod P) ≠ 0 := by
    intro h
    rw [ZMod.natCast_eq_zero_iff] at h
    exact absurd (Nat.le_of_dvd (by decide) h) (by decide)
  have key : lehmer start r₁ = lehmer start r₂ ↔ (G : ZMod P) ^ r₁ = (G : ZMod P) ^ r₂ := by
    rw [lehmer_eq, lehmer_eq]
    have : G ^ r₁ * start % P = G ^ r₂ * start % P ↔
        ((G ^ r₁ * start : Nat) : ZMod P) = ((G ^ r₂ * start : Nat) : ZMod P) := by
      rw [ZMod.natCast_eq_natCast_iff']
    rw [this]; push_cast
    exact mul_left_inj' hs
  rw [key]
  set u : (ZMod P)ˣ := Units.mk0 (G : ZMod P) hG with hu
  have hord : orderOf u = P - 1 := by
    rw [← orderOf_units, hu, Units.val_mk0, orderOf_G]
  have : (G : ZMod P) ^ r₁ = (G : ZMod P) ^ r₂ ↔ u ^ r₁ = u ^ r₂ := by
    rw [Units.ext_iff, Units.val_pow_eq_pow_val, Units.val_pow_eq_pow_val, hu, Units.val_mk0]
  rw [this, pow_inj_mod, hord]

/-! ## the round-indexed sampler -/

theorem run_append {Id D K} (o : Oracles Id D K) (start n : Nat) (a b : List Op) (r : Nat) :
    run o start n r (a ++ b) =
      ((run o start n (run o start n r a).1 b).1,
       (run o start n r a).2 ++ (run o start n (run o start n r a).1 b).2) := by
  induction a generalizing r with
  | nil => simp [run]
  | cons op ops ih => simp [run, ih]

theorem run_length {Id D K} (o : Oracles Id D K) (start n : Nat) (a : List Op) (r : Nat) :
    (run o start n r a).2.length = a.length := by
  induction a generalizing r with
  | nil => simp [run]
  | cons op ops ih => simp [run, ih]

theorem run_samples {Id D K} (o : Oracles Id D K) (start n : Nat) (k r : Nat) :
    run o start n r (List.replicate k .sample) =
      (r + k, (List.range k).map fun i => some (cohort o start n (r + i))) := by
  induction k generalizing r with
  | zero => simp [run]
  | succ k ih =>
    rw [List.replicate_succ, run, step, ih, List.range_succ_eq_map]
    simp only [List.map_cons, List.map_map, Prod.mk.injEq, List.cons.injEq]
    refine ⟨by omega, by simp, ?_⟩
    apply List.map_congr_left
    intro i _
    simp only [Function.comp]
    congr 2; omega

/-- **History independence.** `sample()` returns a function of the current round number only and
advances it by one; consequently, whatever two histories `h₁`, `h₂` (any mix of `sample` and
`set_round_num`, from any starting rounds) leave the sampler at the same round, *every* later call
sequence `ops` returns exactly the same values and ends at the same round. -/
theorem C13_history_independent {Id D K} (o : Oracles Id D K) (start n : Nat)
    (r₁ r₂ : Nat) (h₁ h₂ ops : List Op)
    (heq : (run o start n r₁ h₁).1 = (run o start n r₂ h₂).1) :
    (run o start n r₁ (h₁ ++ ops)).2.drop h₁.length = (run o start n r₂ (h₂ ++ ops)).2.drop h₂.length ∧
    (run o start n r₁ (h₁ ++ ops)).1 = (run o start n r₂ (h₂ ++ ops)).1 ∧
    (∀ r, step o start n r .sample = (r + 1, some (cohort o start n r))) := by
  rw [run_append, run_append, heq]
  refine ⟨?_, rfl, fun _ => rfl⟩
  simp only
  rw [List.drop_left' (run_length ..), List.drop_left' (run_length ..)]

/-- The value of the next `sample()` after any history is the cohort of the round the history ends
in: ids `choice(RandomState(lehmer start r))`, their datasets, keys `split(PRNGKey(r), n)`. -/
theorem C13_next_sample {Id D K} (o : Oracles Id D K) (start n r₀ : Nat) (h : List Op) :
    (run o start n r₀ (h ++ [.sample])).2 =
      (run o start n r₀ h).2 ++ [some (cohort o start n (run o start n r₀ h).1)] ∧
    (run o start n r₀ (h ++ [.sample])).1 = (run o start n r₀ h).1 + 1 := by
  rw [run_append]; simp [run, step]

/-- **Restart.** After *any* history, `set_round_num(r)` followed by `k` calls of `sample()` returns
the cohorts of rounds `r, r+1, …, r+k−1` — exactly what an uninterrupted run from round 0 returned
at its calls number `r … r+k−1` — and leaves the sampler at round `r + k`.  A sampler constructed
with `start_round_num = r` behaves the same. -/
theorem C13_restart {Id D K} (o : Oracles Id D K) (start n r₀ r k m : Nat) (h : List Op)
    (hm : r + k ≤ m) :
    let original := (run o start n 0 (List.replicate m .sample)).2
    (run o start n r₀ (h ++ .setRound r :: List.replicate k .sample)).2.drop (h.length + 1)
        = (original.drop r).take k ∧
    (run o start n r₀ (h ++ .setRound r :: List.replicate k .sample)).1 = r + k ∧
    (run o start n r (List.replicate k .sample)).2 = (original.drop r).take k := by
  have horig : ((run o start n 0 (List.replicate m .sample)).2.drop r).take k
      = (List.range k).map fun i => some (cohort o start n (r + i)) := by
    rw [run_samples]
    simp only [Nat.zero_add]
    rw [← List.map_drop, ← List.map_take]
    have : ((List.range m).drop r).take k = (List.range k).map (r + ·) := by
      apply List.ext_getElem
      · simp; omega
      · intro i h1 h2
        simp
    rw [this, List.map_map]; rfl
  intro original
  refine ⟨?_, ?_, ?_⟩
  · rw [run_append]
    simp only [run, step]
    rw [run_samples, horig]
    have hl : (run o start n r₀ h).2.length = h.length := run_length ..
    rw [← hl, show ∀ (l : List (Option (List (Id × D × K)))) x t, l ++ x :: t = (l ++ [x]) ++ t by simp]
    rw [List.drop_left' (by simp)]
  · rw [run_append]; simp only [run, step]; rw [run_samples]
  · rw [run_samples, horig]

/-- is this call a `sample()` that raised while loading its datasets? -/
def Op.isFailed : Op → Bool
  | .failedSample => true
  | _ => false

@[simp] theorem isFailed_sample : Op.isFailed .sample = false := rfl
@[simp] theorem isFailed_setRound (r : Nat) : Op.isFailed (.setRound r) = false := rfl
@[simp] theorem isFailed_failedSample : Op.isFailed .failedSample = true := rfl

/-- **Failed samples leave no trace.** A `sample()` call that raises while the datasets are loaded
returns nothing and does not consume its round: any history with such failed calls anywhere in it ends
at the same round and hands out exactly the same cohorts, in the same order, as the history with the
failed calls removed.  In particular the retry right after a failure returns the cohort of the round
the failed call was asked for. -/
theorem C13_failed_sample_frame {Id D K} (o : Oracles Id D K) (start n : Nat) (ops : List Op) (r : Nat) :
    (run o start n r ops).1 = (run o start n r (ops.filter fun op => !op.isFailed)).1 ∧
    (run o start n r ops).2.filterMap id =
      (run o start n r (ops.filter fun op => !op.isFailed)).2.filterMap id ∧
    (∀ h, (run o start n r (h ++ [.failedSample, .sample])).2.getLast? =
      some (some (cohort o start n (run o start n r h).1))) := by
  refine ⟨?_, ?_, ?_⟩
  · induction ops generalizing r with
    | nil => rfl
    | cons op ops ih =>
      cases op <;> simp [run, step, ih]
  · induction ops generalizing r with
    | nil => rfl
    | cons op ops ih =>
      cases op <;> simp [run, step] <;> exact ih _
  · intro h
    rw [run_append]
    simp [run, step]

/-! ## cohort content under the oracle hypotheses (numpy `choice` without replacement) -/

theorem cohort_ids {Id D K} (o : Oracles Id D K) (start n r : Nat)
    (hc : (o.choice (lehmer start r) n).length = n) (hk : (o.keys r n).length = n) :
    (cohort o start n r).map (·.1) = o.choice (lehmer start r) n := by
  unfold cohort
  rw [List.map_map]
  have : ((fun x : Id × D × K => x.1) ∘ fun p : Id × K => (p.1, o.data p.1, p.2)) = Prod.fst := rfl
  rw [this, List.map_fst_zip]
  omega

/-- A cohort has exactly `n` members, carries the keys `split(PRNGKey(r), n)` in order (client `i`
gets key `i`), and every member's dataset is the dataset of its own id. -/
theorem C13_cohort_shape {Id D K} (o : Oracles Id D K) (start n r : Nat)
    (hc : (o.choice (lehmer start r) n).length = n) (hk : (o.keys r n).length = n) :
    (cohort o start n r).length = n ∧
    (cohort o start n r).map (·.2.2) = o.keys r n ∧
    (∀ x ∈ cohort o start n r, x.2.1 = o.data x.1) := by
  refine ⟨by simp [cohort, hc, hk], ?_, ?_⟩
  · unfold cohort
    rw [List.map_map]
    have : ((fun x : Id × D × K => x.2.2) ∘ fun p : Id × K => (p.1, o.data p.1, p.2)) = Prod.snd := rfl
    rw [this, List.map_snd_zip]
    omega
  · intro x hx
    simp only [cohort, List.mem_map] at hx
    obtain ⟨p, _, rfl⟩ := hx
    rfl

/-- Under the oracle hypothesis that `choice(replace=False)` returns no duplicates, a cohort never
repeats a client. -/
theorem C13_no_repeat {Id D K} (o : Oracles Id D K) (start n r : Nat)
    (hc : (o.choice (lehmer start r) n).length = n) (hk : (o.keys r n).length = n)
    (hnd : (o.choice (lehmer start r) n).Nodup) :
    ((cohort o start n r).map (·.1)).Nodup := by
  rw [cohort_ids o start n r hc hk]; exact hnd

/-- Under the oracle hypothesis that `choice` draws from the id array, a cohort only contains
clients of the dataset, with their exact ids. -/
theorem C13_ids_member {Id D K} (o : Oracles Id D K) (start n r : Nat) (ids : List Id)
    (hc : (o.choice (lehmer start r) n).length = n) (hk : (o.keys r n).length = n)
    (hsub : ∀ i ∈ o.choice (lehmer start r) n, i ∈ ids) :
    ∀ x ∈ cohort o start n r, x.1 ∈ ids := by
  intro x hx
  apply hsub
  rw [← cohort_ids o start n r hc hk]
  exact List.mem_map_of_mem hx

/-! ## the streaming sampler -/

theorem seekInner_eq (k pos : Nat) : seekInner k pos = pos + k := by
  induction k generalizing pos with
  | zero => rfl
  | succ k ih => rw [seekInner, ih]; omega

theorem seek_eq (n k pos : Nat) : seek n k pos = pos + k * n := by
  induction k generalizing pos with
  | zero => simp [seek]
  | succ k ih => rw [seek, ih, seekInner_eq, Nat.succ_mul]; omega

theorem takePos_eq (k pos : Nat) : takePos k pos = (List.range k).map (pos + ·) := by
  induction k generalizing pos with
  | zero => rfl
  | succ k ih =>
    rw [takePos, ih, List.range_succ_eq_map]
    simp only [List.map_cons, List.map_map, Nat.add_zero, List.cons.injEq, true_and]
    apply List.map_congr_left
    intro i _; simp only [Function.comp]; omega

theorem samples_eq {C K} (s : Nat → C) (keys : Nat → Nat → List K) (n k : Nat) (st : SState) :
    SState.samples s keys n k st =
      ((List.range k).map (fun j =>
          ((List.range n).map (fun i => s (st.pos + j * n + i))).zip (keys (st.round + j) n)),
       ⟨st.pos + k * n, st.round + k⟩) := by
  induction k generalizing st with
  | zero => simp [SState.samples]
  | succ k ih =>
    rw [SState.samples, ih, List.range_succ_eq_map]
    simp only [SState.sample, List.map_cons, List.map_map, takePos_eq]
    refine Prod.ext ?_ ?_
    · simp only [List.cons.injEq]
      refine ⟨by simp [Function.comp_def], ?_⟩
      apply List.map_congr_left
      intro j _
      simp only [Function.comp]
      have h1 : st.pos + n + j * n = st.pos + (j + 1) * n := by rw [Nat.succ_mul]; omega
      have h2 : st.round + 1 + j = st.round + (j + 1) := by omega
      rw [h1, h2]
    · simp only [Nat.succ_mul]
      congr 1 <;> omega

/-- What the `j`-th call (from 0) of a streaming sampler started at round `r₀` returns: stream
items number `(r₀+j)·n … (r₀+j)·n + n − 1`, paired with the keys `split(PRNGKey(r₀+j), n)`. -/
theorem C13_stream_explicit {C K} (s : Nat → C) (keys : Nat → Nat → List K) (n r₀ k : Nat) :
    (SState.samples s keys n k (SState.init n r₀)).1 =
      (List.range k).map (fun j =>
        ((List.range n).map (fun i => s ((r₀ + j) * n + i))).zip (keys (r₀ + j) n)) := by
  rw [samples_eq]
  simp only [SState.init, seek_eq, Nat.zero_add]
  apply List.map_congr_left
  intro j _
  rw [Nat.add_mul]

/-- **Streaming restart.** A streaming sampler constructed with `start_round_num = r₀` over a fresh
iterator of the same seeded client stream returns, at its calls `0 … k−1`, exactly what a sampler
started at round 0 returns at its calls `r₀ … r₀+k−1` (clients, datasets and keys). -/
theorem C13_stream_restart {C K} (s : Nat → C) (keys : Nat → Nat → List K) (n r₀ k : Nat) :
    (SState.samples s keys n k (SState.init n r₀)).1 =
      ((SState.samples s keys n (r₀ + k) (SState.init n 0)).1).drop r₀ := by
  rw [C13_stream_explicit, C13_stream_explicit]
  rw [← List.map_drop]
  have : (List.range (r₀ + k)).drop r₀ = (List.range k).map (r₀ + ·) := by
    apply List.ext_getElem
    · simp
    · intro i h1 h2; simp
  rw [this, List.map_map]
  apply List.map_congr_left
  intro j _
  simp only [Function.comp, Nat.zero_add]

/-! ## non-vacuity: concrete instances -/

/-- the property's own example shape: seed start 12345, cohort 2, rounds 0,1, jump to 7, back to 0 -/
example : run (Id := Nat) (D := Nat) (K := Nat)
      ⟨fun s n => List.replicate n s, fun r n => List.replicate n r, id⟩ 12345 2 0
      [.sample, .sample, .setRound 7, .sample, .setRound 0, .sample] =
    (1, [some [(12345, 12345, 0), (12345, 12345, 0)],
         some [(207482415, 207482415, 1), (207482415, 207482415, 1)], none,
         some [(1644515420, 1644515420, 7), (1644515420, 1644515420, 7)], none,
         some [(12345, 12345, 0), (12345, 12345, 0)]]) := by decide +kernel
/-- a failed `sample()` between two successful ones: the retry returns the round that failed -/
example : (run (Id := Nat) (D := Nat) (K := Nat)
      ⟨fun s n => List.replicate n s, fun r n => List.replicate n r, id⟩ 12345 1 0
      [.sample, .failedSample, .failedSample, .sample]).2.filterMap id =
    [[(12345, 12345, 0)], [(207482415, 207482415, 1)]] := by decide +kernel
example : 1 ≤ (12345 : Nat) ∧ 12345 < P := by decide
example : lehmer 12345 1 = 207482415 ∧ lehmer 12345 (P - 1) = 12345 ∧ lehmer 12345 (P - 2) ≠ 12345 := by
  decide +kernel
example : (SState.samples (fun i => i) (fun r n => List.replicate n r) 3 2 (SState.init 3 2)).1 =
    [[(6, 2), (7, 2), (8, 2)], [(9, 3), (10, 3), (11, 3)]] := by decide
example : ((SState.samples (fun i => i) (fun r n => List.replicate n r) 3 4 (SState.init 3 0)).1).drop 2 =
    [[(6, 2), (7, 2), (8, 2)], [(9, 3), (10, 3), (11, 3)]] := by decide
/-- the oracle hypotheses of `C13_no_repeat` are satisfiable with a non-trivial cohort -/
example : let o : Oracles Nat Nat Nat := ⟨fun s n => (List.range n).map (· + s), fun r n => (List.range n).map (· + 100 * r), id⟩
    (o.choice (lehmer 5 3) 4).length = 4 ∧ (o.keys 3 4).length = 4 ∧ (o.choice (lehmer 5 3) 4).Nodup := by
  decide +kernel

end FedjaxVerif.Samplers
