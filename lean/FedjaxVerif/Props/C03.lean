import FedjaxVerif.Model.Batching

/-!
# C03 — sequential batching is an exact, order-preserving partition

Property theorems about `Model/Batching.lean` (the model of `BatchView`, `PaddedBatchView`,
`_pick_final_batch_size`, `pad_examples`).  All statements quantify over every element type,
every list (dataset), every batch size `bs ≥ 1` and every bucket count.
-/

namespace FedjaxVerif.Batching

/-! ## helper lemmas -/

/-- the `i`-th slice `raw[i*bs : i*bs+bs]` -/
def slice {α} (bs : Nat) (xs : List α) (i : Nat) : List α := (xs.drop (i * bs)).take bs

theorem starts_map {α} (N bs : Nat) (f : Nat → α) :
    (starts N bs).map f = (List.range ((N + bs - 1) / bs)).map (fun i => f (i * bs)) := by
  simp [starts, List.map_map, Function.comp_def]

theorem flatten_slices {α} (bs : Nat) (xs : List α) (k : Nat) :
    ((List.range k).map (slice bs xs)).flatten = xs.take (k * bs) := by
  induction k with
  | zero => simp
  | succ k ih =>
    rw [List.range_succ, List.map_append, List.flatten_append, ih]
    simp only [List.map_cons, List.map_nil, List.flatten_cons, List.flatten_nil, List.append_nil, slice]
    rw [Nat.succ_mul, List.take_add]

theorem ceil_mul_ge (N bs : Nat) (h : 0 < bs) : N ≤ (N + bs - 1) / bs * bs := by
  have h1 := Nat.div_add_mod (N + bs - 1) bs
  have h2 := Nat.mod_lt (N + bs - 1) h
  rw [Nat.mul_comm] at h1
  omega

theorem batchView_false {α} (bs : Nat) (xs : List α) :
    batchView bs false xs = (List.range ((xs.length + bs - 1) / bs)).map (slice bs xs) := by
  unfold batchView
  simp only [Bool.not_false, Bool.true_or, if_true]
  have : (fun s => some (List.take bs (List.drop s xs))) = some ∘ (fun s => List.take bs (List.drop s xs)) := rfl
  rw [this, List.filterMap_eq_map, starts_map]
  rfl

theorem filterMap_range_prefix {α} (f : Nat → α) (q : Nat) (k : Nat) :
    (List.range k).filterMap (fun i => if i < q then some (f i) else none)
      = (List.range (min k q)).map f := by
  induction k with
  | zero => simp
  | succ k ih =>
    rw [List.range_succ, List.filterMap_append, ih]
    by_cases h : k < q
    · have : min (k+1) q = min k q + 1 := by omega
      rw [this, List.range_succ, List.map_append]
      have hk : min k q = k := by omega
      simp [h, hk]
    · have : min (k+1) q = min k q := by omega
      simp [h, this]

theorem full_iff (N bs i : Nat) (h : 0 < bs) : i * bs + bs ≤ N ↔ i < N / bs := by
  rw [Nat.lt_iff_add_one_le, Nat.le_div_iff_mul_le h, Nat.succ_mul]

theorem batchView_true {α} (bs : Nat) (h : 0 < bs) (xs : List α) :
    batchView bs true xs = (List.range (xs.length / bs)).map (slice bs xs) := by
  unfold batchView starts
  rw [List.filterMap_map]
  have : ((fun s => if (!true || decide (s + bs ≤ xs.length)) = true then some (List.take bs (List.drop s xs)) else none) ∘ fun x => x * bs)
      = fun i => if i < xs.length / bs then some (slice bs xs i) else none := by
    funext i
    simp only [Function.comp, Bool.not_true, Bool.false_or, decide_eq_true_eq, slice]
    by_cases hc : i * bs + bs ≤ xs.length
    · simp [hc, (full_iff _ _ _ h).mp hc]
    · have : ¬ i < xs.length / bs := fun h' => hc ((full_iff _ _ _ h).mpr h')
      simp [hc, this]
  rw [this, filterMap_range_prefix]
  congr 2
  have := Nat.div_le_div_right (c := bs) (show xs.length ≤ xs.length + bs - 1 by omega)
  omega

/-! ## property theorems -/

/-- Plain batches concatenate to the dataset: each example once, in the original order. -/
theorem C03_concat {α} (bs : Nat) (hbs : 0 < bs) (xs : List α) :
    (batchView bs false xs).flatten = xs := by
  rw [batchView_false, flatten_slices]
  exact List.take_of_length_le (ceil_mul_ge _ _ hbs)


theorem slice_length {α} (bs : Nat) (xs : List α) (i : Nat) :
    (slice bs xs i).length = min bs (xs.length - i * bs) := by
  simp [slice, List.length_take, List.length_drop]

/-- Number of batches, sizes of all batches but the last, size of the last one. -/
theorem C03_sizes {α} (bs : Nat) (hbs : 0 < bs) (xs : List α) :
    (batchView bs false xs).length = (xs.length + bs - 1) / bs ∧
    (∀ b ∈ (batchView bs false xs).dropLast, b.length = bs) ∧
    (∀ b, (batchView bs false xs).getLast? = some b → 1 ≤ b.length ∧ b.length ≤ bs) := by
  rw [batchView_false]
  have hK := Nat.div_add_mod (xs.length + bs - 1) bs
  have hR := Nat.mod_lt (xs.length + bs - 1) hbs
  generalize hKd : (xs.length + bs - 1) / bs = K at *
  refine ⟨by simp, ?_, ?_⟩
  · intro b hb
    rw [List.dropLast_eq_take, ← List.map_take, List.take_range] at hb
    simp only [List.length_map, List.length_range, List.mem_map, List.mem_range] at hb
    obtain ⟨i, hi, rfl⟩ := hb
    rw [slice_length]
    have h1 : (i + 1) * bs ≤ (K - 1) * bs := Nat.mul_le_mul_right _ (by omega)
    have h2 : (K - 1) * bs + bs = K * bs := by
      have : K - 1 + 1 = K := by omega
      rw [← Nat.succ_mul, Nat.succ_eq_add_one, this]
    rw [Nat.mul_comm bs K] at hK
    rw [Nat.succ_mul] at h1
    omega
  · intro b hb
    cases K with
    | zero => simp at hb
    | succ K =>
      rw [List.range_succ, List.map_append] at hb
      simp at hb
      subst hb
      rw [slice_length]
      rw [Nat.mul_comm bs (K+1), Nat.succ_mul] at hK
      omega

/-- `drop_remainder=True` removes only an incomplete final batch. -/
theorem C03_drop_remainder {α} (bs : Nat) (hbs : 0 < bs) (xs : List α) :
    batchView bs true xs = (batchView bs false xs).take (xs.length / bs) ∧
    (batchView bs true xs).flatten = xs.take (xs.length / bs * bs) ∧
    (∀ b ∈ batchView bs true xs, b.length = bs) := by
  rw [batchView_true bs hbs, batchView_false]
  refine ⟨?_, flatten_slices _ _ _, ?_⟩
  · rw [← List.map_take, List.take_range]
    congr 2
    have := Nat.div_le_div_right (c := bs) (show xs.length ≤ xs.length + bs - 1 by omega)
    omega
  · intro b hb
    simp only [List.mem_map, List.mem_range] at hb
    obtain ⟨i, hi, rfl⟩ := hb
    rw [slice_length]
    have := (full_iff xs.length bs i hbs).mpr hi
    omega

/-- When the batch size divides the dataset size there is no remainder to drop: `drop_remainder=True`
and `False` give the same batches. -/
theorem C03_drop_remainder_exact {α} (bs : Nat) (hbs : 0 < bs) (xs : List α)
    (hdiv : xs.length % bs = 0) :
    batchView bs true xs = batchView bs false xs := by
  rw [(C03_drop_remainder bs hbs xs).1]
  apply List.take_of_length_le
  rw [(C03_sizes bs hbs xs).1]
  have h1 := Nat.div_add_mod xs.length bs
  rw [hdiv, Nat.add_zero] at h1
  have : (xs.length + bs - 1) / bs ≤ xs.length / bs := by
    rw [Nat.div_le_iff_le_mul_add_pred hbs]
    rw [Nat.mul_comm] at h1
    have h2 : bs * (xs.length / bs) = xs.length := by rw [Nat.mul_comm]; exact h1
    omega
  exact this

/-- No batch is empty (plain mode), and the empty dataset has no batches. -/
theorem C03_no_empty_batch {α} (bs : Nat) (hbs : 0 < bs) (xs : List α) :
    (∀ b ∈ batchView bs false xs, 1 ≤ b.length ∧ b.length ≤ bs) ∧
    (batchView bs false xs = [] ↔ xs = []) := by
  obtain ⟨hlen, hfull, hlast⟩ := C03_sizes bs hbs xs
  constructor
  · intro b hb
    rcases List.eq_nil_or_concat (batchView bs false xs) with hnil | ⟨init, lst, hcat⟩
    · rw [hnil] at hb; simp at hb
    · have hdl : (batchView bs false xs).dropLast = init := by rw [hcat]; simp
      have hgl : (batchView bs false xs).getLast? = some lst := by rw [hcat]; simp
      rw [hcat, List.concat_eq_append] at hb
      rcases List.mem_append.mp hb with hi | hl
      · have := hfull b (by rw [hdl]; exact hi)
        omega
      · have : b = lst := by simpa using hl
        subst this
        exact hlast b hgl
  · constructor
    · intro h
      have h0 : (batchView bs false xs).flatten = xs := C03_concat bs hbs xs
      rw [h] at h0
      simpa using h0.symm
    · intro h
      subst h
      have : (batchView bs false ([] : List α)).length = 0 := by
        rw [(C03_sizes bs hbs ([] : List α)).1]
        simp only [List.length_nil, Nat.zero_add]
        exact Nat.div_eq_of_lt (by omega)
      exact List.length_eq_zero_iff.mp this

/-- Batching commutes with any per-example preprocessor. -/
theorem C03_preprocess {α β} (g : α → β) (bs : Nat) (hbs : 0 < bs) (d : Bool) (xs : List α) :
    (batchView bs d xs).map (List.map g) = batchView bs d (xs.map g) := by
  have hs : ∀ i, (slice bs xs i).map g = slice bs (xs.map g) i := by
    intro i; simp [slice, List.map_take, List.map_drop]
  cases d
  · rw [batchView_false, batchView_false, List.map_map, List.length_map]
    congr 1; funext i; exact hs i
  · rw [batchView_true bs hbs, batchView_true bs hbs, List.map_map, List.length_map]
    congr 1; funext i; exact hs i

/-! ### bucket rule -/

/-- loop invariant form: started at (high = bs / 2^j, low = bs / 2^(j+1), n = j+1) with r ≤ high -/
theorem pickGo_spec (r B bs : Nat) :
    ∀ fuel j, j + fuel ≥ B → j + 1 ≤ B ∨ fuel = 0 → r ≤ bs / 2 ^ j →
      ∃ j', j ≤ j' ∧ j' < max B (j+1) ∧
        pickGo r B fuel (bs / 2 ^ j) (bs / 2 ^ (j+1)) (j+1) = bs / 2 ^ j' ∧
        r ≤ bs / 2 ^ j' ∧ (j' + 1 < B → bs / 2 ^ (j'+1) < r) := by
  intro fuel
  induction fuel with
  | zero =>
    intro j hj _ hr
    refine ⟨j, Nat.le_refl _, ?_, rfl, hr, ?_⟩
    · omega
    · intro h; omega
  | succ fuel ih =>
    intro j hj hB hr
    simp only [pickGo]
    by_cases hc : bs / 2 ^ (j+1) ≥ r ∧ j + 1 < B
    · rw [if_pos hc]
      have e : bs / 2 ^ (j + 1) / 2 = bs / 2 ^ (j + 1 + 1) := by
        rw [Nat.div_div_eq_div_mul, ← Nat.pow_succ]
      rw [e]
      obtain ⟨j', h1, h2, h3, h4, h5⟩ := ih (j+1) (by omega) (by omega) hc.1
      refine ⟨j', by omega, by omega, h3, h4, h5⟩
    · rw [if_neg hc]
      refine ⟨j, Nat.le_refl _, by omega, rfl, hr, ?_⟩
      intro h
      have : ¬ bs / 2 ^ (j+1) ≥ r := fun h' => hc ⟨h', h⟩
      omega

/-- The final batch size is `bs` halved `j < B` times, holds the remainder, and halving once
more (if still allowed) would not. Fuel `B` suffices for the loop (`C03_pickFinal_fuel` is
implicit: the statement is about `pickFinal`, which runs the loop with fuel `B`). -/
theorem C03_pickFinal_spec (N bs B : Nat) (hbs : 0 < bs) (hB : 0 < B) (hr : N % bs ≠ 0) :
    ∃ j, j < B ∧ pickFinal N bs B = bs / 2 ^ j ∧ N % bs ≤ bs / 2 ^ j ∧
      (j + 1 < B → bs / 2 ^ (j+1) < N % bs) := by
  unfold pickFinal
  simp only [hr, if_false]
  have h0 : N % bs ≤ bs / 2 ^ 0 := by simp; exact Nat.le_of_lt (Nat.mod_lt _ hbs)
  obtain ⟨j', _, h2, h3, h4, h5⟩ := pickGo_spec (N % bs) B bs B 0 (by omega) (by omega) h0
  refine ⟨j', by omega, ?_, h4, h5⟩
  simpa using h3

theorem div_pow_anti (bs : Nat) {a b : Nat} (h : a ≤ b) : bs / 2 ^ b ≤ bs / 2 ^ a :=
  Nat.div_le_div_left (Nat.pow_le_pow_right (by omega) h) (Nat.pow_pos (by omega))

/-- …hence it is the *smallest* among `bs` halved `0 … B-1` times that still holds the remainder. -/
theorem C03_pickFinal_min (N bs B : Nat) (hbs : 0 < bs) (hB : 0 < B) (hr : N % bs ≠ 0) :
    ∀ j', j' < B → N % bs ≤ bs / 2 ^ j' → pickFinal N bs B ≤ bs / 2 ^ j' := by
  obtain ⟨j, hj, he, _, hmin⟩ := C03_pickFinal_spec N bs B hbs hB hr
  intro j' hj' hle
  rw [he]
  by_cases hc : j' ≤ j
  · exact div_pow_anti bs hc
  · have h1 : bs / 2 ^ j' ≤ bs / 2 ^ (j+1) := div_pow_anti bs (by omega)
    have := hmin (by omega)
    omega

/-- no remainder ⇒ no padding: the final batch size is `bs`. -/
theorem C03_pickFinal_exact (N bs B : Nat) (hr : N % bs = 0) : pickFinal N bs B = bs := by
  simp [pickFinal, hr]

theorem pickFinal_ge (N bs B : Nat) (hbs : 0 < bs) (hB : 0 < B) : N % bs ≤ pickFinal N bs B := by
  by_cases hr : N % bs = 0
  · rw [hr]; exact Nat.zero_le _
  · obtain ⟨j, _, he, h, _⟩ := C03_pickFinal_spec N bs B hbs hB hr
    rw [he]; exact h


/-! ### padded view -/

theorem mask_prefix (size r : Nat) (h : r ≤ size) :
    (List.range size).map (fun i => decide (i < r))
      = List.replicate r true ++ List.replicate (size - r) false := by
  apply List.ext_getElem
  · simp; omega
  · intro i h1 h2
    simp only [List.getElem_map, List.getElem_range, List.getElem_append, List.length_replicate,
      List.getElem_replicate]
    by_cases hi : i < r <;> simp [hi]

theorem unpadBatch_allFalse {α} (rows : List α) (m : List Bool) (h : ∀ b ∈ m, b = false) :
    unpadBatch (rows, m) = [] := by
  unfold unpadBatch
  simp only [List.filterMap_eq_nil_iff]
  intro p hp
  have := h p.2 (List.of_mem_zip hp).2
  simp [this]

theorem unpadBatch_prefix {α} (rows pad : List α) (m : List Bool) (h : ∀ b ∈ m, b = false) :
    unpadBatch (rows ++ pad, List.replicate rows.length true ++ m) = rows := by
  induction rows with
  | nil => simpa using unpadBatch_allFalse pad m h
  | cons a rows ih =>
    unfold unpadBatch at *
    simp only [List.cons_append, List.length_cons, List.replicate_succ, List.zip_cons_cons,
      List.filterMap_cons, if_true]
    rw [ih]

theorem mapM_some_of_forall {α β} (f : α → Option β) (g : α → β) (l : List α)
    (h : ∀ x ∈ l, f x = some (g x)) : l.mapM f = some (l.map g) := by
  induction l with
  | nil => simp
  | cons a l ih =>
    rw [List.mapM_cons, h a (List.mem_cons_self), ih (fun x hx => h x (List.mem_cons_of_mem _ hx))]
    simp

/-- the `i`-th padded batch in normal form -/
def paddedBatch {α} (bs B : Nat) (z : α) (xs : List α) (i : Nat) : List α × List Bool :=
  let rows := slice bs xs i
  let s := if i * bs + bs ≤ xs.length then bs else pickFinal xs.length bs B
  (rows ++ List.replicate (s - rows.length) z,
   List.replicate rows.length true ++ List.replicate (s - rows.length) false)

/-- rows of the `i`-th batch fit into its declared size (so `pad_examples` never raises) -/
theorem paddedBatch_fits {α} (bs B : Nat) (hbs : 0 < bs) (hB : 0 < B) (xs : List α) (i : Nat)
    (hi : i < (xs.length + bs - 1) / bs) :
    (slice bs xs i).length ≤ (if i * bs + bs ≤ xs.length then bs else pickFinal xs.length bs B) ∧
    (i * bs + bs ≤ xs.length → (slice bs xs i).length = bs) ∧
    (¬ i * bs + bs ≤ xs.length → (slice bs xs i).length = xs.length % bs ∧ i = xs.length / bs) := by
  rw [slice_length]
  have hK := Nat.div_add_mod (xs.length + bs - 1) bs
  have hR := Nat.mod_lt (xs.length + bs - 1) hbs
  have hN := Nat.div_add_mod xs.length bs
  have hNR := Nat.mod_lt xs.length hbs
  generalize (xs.length + bs - 1) / bs = K at *
  have h1 : (i + 1) * bs ≤ K * bs := Nat.mul_le_mul_right _ (by omega)
  rw [Nat.succ_mul] at h1
  rw [Nat.mul_comm bs K] at hK
  by_cases hc : i * bs + bs ≤ xs.length
  · rw [if_pos hc]
    refine ⟨by omega, fun _ => by omega, fun h => absurd hc h⟩
  · rw [if_neg hc]
    have hq : i = xs.length / bs := by
      have h2 : ¬ i < xs.length / bs := fun h => hc ((full_iff _ _ _ hbs).mpr h)
      have h3 : i * bs < xs.length := by omega
      have h4 : i ≤ xs.length / bs := by
        rw [Nat.le_div_iff_mul_le hbs]; omega
      omega
    have hlen : xs.length - i * bs = xs.length % bs := by
      rw [hq, Nat.mul_comm]; omega
    have hge := pickFinal_ge xs.length bs B hbs hB
    refine ⟨by omega, fun h => absurd h hc, fun _ => ⟨by omega, hq⟩⟩

/-- Normal form of the padded view: it never fails, has `⌈N/bs⌉` batches, and the `i`-th batch
is the `i`-th slice followed by `z` rows, with a mask that is `true` exactly on the slice. -/
theorem C03_padded_form {α} (bs B : Nat) (hbs : 0 < bs) (hB : 0 < B) (z : α) (xs : List α) :
    paddedView bs B z xs
      = some ((List.range ((xs.length + bs - 1) / bs)).map (paddedBatch bs B z xs)) := by
  unfold paddedView starts
  rw [List.mapM_map]
  apply mapM_some_of_forall
  intro i hi
  simp only [List.mem_range] at hi
  obtain ⟨hfit, hfull, hlast⟩ := paddedBatch_fits bs B hbs hB xs i hi
  simp only [Function.comp, paddedBatch]
  by_cases hc : i * bs + bs ≤ xs.length
  · have hl := hfull hc
    simp only [hc, if_true, slice] at hl ⊢
    simp [hl]
  · simp only [hc, if_false] at hfit ⊢
    unfold padTo
    have : ¬ ((List.take bs (List.drop (i * bs) xs)).length > pickFinal xs.length bs B) := by
      simp only [slice] at hfit; omega
    rw [if_neg this, mask_prefix _ _ (by simpa [slice] using hfit)]
    rfl

/-- Removing the padded rows gives back the dataset: each example once, in order. -/
theorem C03_padded_unpad {α} (bs B : Nat) (hbs : 0 < bs) (hB : 0 < B) (z : α) (xs : List α) :
    ∃ v, paddedView bs B z xs = some v ∧ unpad v = xs := by
  refine ⟨_, C03_padded_form bs B hbs hB z xs, ?_⟩
  unfold unpad
  rw [List.flatMap_def, List.map_map]
  have : (unpadBatch ∘ paddedBatch bs B z xs) = slice bs xs := by
    funext i
    simp only [Function.comp, paddedBatch]
    exact unpadBatch_prefix _ _ _ (by intro b hb; exact (List.mem_replicate.mp hb).2)
  rw [this, flatten_slices]
  exact List.take_of_length_le (ceil_mul_ge _ _ hbs)

/-- Mask and sizes: every mask is a `true`-prefix of exactly the real rows followed by `false`,
padded rows are the zero row `z`; every batch but the last is full (`bs` real rows, size `bs`);
the last batch has `N % bs` real rows (if that is non-zero) and size `pickFinal N bs B`. -/
theorem C03_mask_prefix {α} (bs B : Nat) (hbs : 0 < bs) (hB : 0 < B) (z : α) (xs : List α)
    (i : Nat) (hi : i < (xs.length + bs - 1) / bs) :
    let b := paddedBatch bs B z xs i
    let r := (slice bs xs i).length
    b.2 = List.replicate r true ++ List.replicate (b.2.length - r) false ∧
    b.1 = slice bs xs i ++ List.replicate (b.1.length - r) z ∧
    b.1.length = b.2.length ∧
    (i + 1 < (xs.length + bs - 1) / bs → r = bs ∧ b.2.length = bs) ∧
    (i + 1 = (xs.length + bs - 1) / bs →
        b.2.length = pickFinal xs.length bs B ∧ 1 ≤ r ∧
        (xs.length % bs ≠ 0 → r = xs.length % bs)) := by
  obtain ⟨hfit, hfull, hlast⟩ := paddedBatch_fits bs B hbs hB xs i hi
  have hK := Nat.div_add_mod (xs.length + bs - 1) bs
  have hR := Nat.mod_lt (xs.length + bs - 1) hbs
  have hN := Nat.div_add_mod xs.length bs
  have hNR := Nat.mod_lt xs.length hbs
  simp only [paddedBatch]
  generalize hs : (if i * bs + bs ≤ xs.length then bs else pickFinal xs.length bs B) = s at *
  simp only [List.length_append, List.length_replicate]
  have e : (slice bs xs i).length + (s - (slice bs xs i).length) = s := by omega
  refine ⟨by rw [e], by rw [e], trivial, ?_, ?_⟩
  · intro hlt
    have h1 : (i + 2) * bs ≤ ((xs.length + bs - 1) / bs) * bs := Nat.mul_le_mul_right _ (by omega)
    rw [Nat.mul_comm bs] at hK
    have hc : i * bs + bs ≤ xs.length := by
      have : (i + 2) * bs = i * bs + bs + bs := by rw [Nat.add_mul]; omega
      omega
    rw [if_pos hc] at hs
    exact ⟨hfull hc, by omega⟩
  · intro heq
    by_cases hc : i * bs + bs ≤ xs.length
    · rw [if_pos hc] at hs
      have hl := hfull hc
      have hmod : xs.length % bs = 0 := by
        have h1 : (i + 1) * bs = ((xs.length + bs - 1) / bs) * bs := by rw [heq]
        rw [Nat.mul_comm bs] at hK
        rw [Nat.succ_mul] at h1
        have h2 : xs.length = (i+1) * bs := by rw [Nat.succ_mul]; omega
        rw [h2]; exact Nat.mul_mod_left _ _
      refine ⟨by rw [e, ← hs, C03_pickFinal_exact _ _ _ hmod], by omega, fun h => absurd hmod h⟩
    · rw [if_neg hc] at hs
      obtain ⟨hl, hq⟩ := hlast hc
      have hpos : xs.length % bs ≠ 0 := by
        intro h0
        have : xs.length = i * bs := by rw [hq, Nat.mul_comm]; omega
        have h1 : (i + 1) * bs = ((xs.length + bs - 1) / bs) * bs := by rw [heq]
        rw [Nat.mul_comm bs] at hK
        rw [Nat.succ_mul] at h1
        omega
      exact ⟨by rw [e, hs], by omega, fun _ => hl⟩

/-! ## non-vacuity: the hypotheses are met by concrete non-trivial instances -/

example : (batchView 3 false [1, 2, 3, 4, 5, 6, 7]).flatten = [1, 2, 3, 4, 5, 6, 7] :=
  C03_concat 3 (by decide) _
example : batchView 3 false [1, 2, 3, 4, 5, 6, 7] = [[1, 2, 3], [4, 5, 6], [7]] := by decide
example : batchView 3 true [1, 2, 3, 4, 5, 6, 7] = [[1, 2, 3], [4, 5, 6]] := by decide
example : paddedView 4 3 0 [1, 2, 3, 4, 5] =
    some [([1, 2, 3, 4], [true, true, true, true]), ([5], [true])] := by decide
example : paddedView 8 2 0 [1, 2, 3, 4, 5, 6, 7, 8, 9] =
    some [([1, 2, 3, 4, 5, 6, 7, 8], List.replicate 8 true), ([9, 0, 0, 0], [true, false, false, false])] := by
  decide
example : 9 % 8 ≠ 0 ∧ pickFinal 9 8 2 = 4 ∧ pickFinal 9 8 1 = 8 ∧ pickFinal 9 8 4 = 1 := by decide

end FedjaxVerif.Batching
