import FedjaxVerif.Model.Shuffle

/-!
# C04 — shuffled batching samples without replacement, exact count, seeded

Property theorems about `Model/Shuffle.lean` (the model of `ShuffleRepeatBatchView`).
`n` = dataset size (`n ≥ 1`: the property speaks of non-empty datasets — for `n = 0` the refill loop
makes no progress), `bs ≥ 1` the batch size, `perms j` the content of the index buffer after the
`j`-th `rng.shuffle` (an external; hypothesis `∀ j, (perms j).length = n`, and for the sampling
claims `∀ j, (perms j).Perm (range n)`).
-/

namespace FedjaxVerif.Shuffle

/-! ## helper lemmas -/

theorem take_append_drop_take {α} (l t : List α) (u m : Nat) (hu : u ≤ l.length) (hm : u ≤ m) :
    l.take u ++ ((l.drop u ++ t).take (m - u)) = (l ++ t).take m := by
  have e : (l ++ t).take m = (l.take u ++ (l.drop u ++ t)).take m := by
    rw [← List.append_assoc, List.take_append_drop]
  have h1 : (l.take u).length = u := by rw [List.length_take]; omega
  have h2 : (l.take u ++ (l.drop u ++ t)).take m
      = (l.take u).take m ++ (l.drop u ++ t).take (m - (l.take u).length) := List.take_append
  have h3 : (l.take u).take m = l.take u := by
    rw [List.take_take, Nat.min_eq_right hm]
  rw [e, h2, h1, h3]

theorem drop_append_drop {α} (l t : List α) (u m : Nat) (hu : u ≤ l.length) (hm : u ≤ m) :
    (l.drop u ++ t).drop (m - u) = (l ++ t).drop m := by
  rw [← List.drop_append_of_le_length hu, List.drop_drop]
  congr 1; omega

theorem length_epochs (perms : Nat → List Nat) (n : Nat) (hlen : ∀ j, (perms j).length = n) :
    ∀ e j, (epochs perms e j).length = e * n := by
  intro e
  induction e with
  | zero => intro j; simp [epochs]
  | succ e ih => intro j; simp only [epochs, List.length_append, hlen, ih, Nat.succ_mul]; omega

/-- what the iteration will draw from state `st` on, looking `e` reshuffles ahead -/
def future (perms : Nat → List Nat) (e : Nat) (st : St) : List Nat :=
  st.rest ++ epochs perms e st.epoch

theorem length_future (perms : Nat → List Nat) (n : Nat) (hlen : ∀ j, (perms j).length = n)
    (e : Nat) (st : St) : (future perms e st).length = st.rest.length + e * n := by
  simp [future, length_epochs perms n hlen]

/-- The refill loop draws exactly the next `need` items of the concatenated epochs, and leaves a
state whose future is the old future minus those items. -/
theorem fill_spec (perms : Nat → List Nat) (n : Nat) (hn : 0 < n)
    (hlen : ∀ j, (perms j).length = n) :
    ∀ fuel need (st : St), need ≤ fuel → ∀ e, need ≤ st.rest.length + e * n →
      (fill perms fuel need st).1 = (future perms e st).take need ∧
      ∃ e2, e2 ≤ e ∧ future perms e2 (fill perms fuel need st).2 = (future perms e st).drop need := by
  intro fuel
  induction fuel with
  | zero =>
    intro need st h e _
    have : need = 0 := by omega
    subst this
    exact ⟨by simp [fill], e, Nat.le_refl _, by simp [fill]⟩
  | succ fuel ih =>
    intro need st h e he
    cases need with
    | zero => exact ⟨by simp [fill], e, Nat.le_refl _, by simp [fill]⟩
    | succ need =>
      simp only [fill, future]
      by_cases hemp : st.rest = []
      · simp only [hemp, List.isEmpty_nil, if_true, List.nil_append]
        cases e with
        | zero => simp [hemp] at he
        | succ e =>
          simp only [epochs]
          have hl := hlen st.epoch
          have hu : min (perms st.epoch).length (need + 1) ≤ (perms st.epoch).length := Nat.min_le_left _ _
          have hm : min (perms st.epoch).length (need + 1) ≤ need + 1 := Nat.min_le_right _ _
          have hpos : 0 < min (perms st.epoch).length (need + 1) := by rw [hl]; omega
          obtain ⟨i1, e2, he2, i2⟩ := ih (need + 1 - min (perms st.epoch).length (need + 1))
            { rest := (perms st.epoch).drop (min (perms st.epoch).length (need + 1)), epoch := st.epoch + 1 }
            (by omega) e (by
                simp only [List.length_drop, hl]
                simp only [hemp, List.length_nil, Nat.zero_add, Nat.add_mul, Nat.one_mul] at he
                rw [hl] at hm hu; omega)
          simp only [future] at i1 i2
          refine ⟨?_, e2, by omega, ?_⟩
          · rw [i1]
            exact take_append_drop_take _ _ _ _ hu hm
          · rw [i2]
            exact drop_append_drop _ _ _ _ hu hm
      · have hne : st.rest.isEmpty = false := by
          cases h' : st.rest with
          | nil => exact absurd h' hemp
          | cons a l => rfl
        simp only [hne, Bool.false_eq_true, if_false]
        have hu : min st.rest.length (need + 1) ≤ st.rest.length := Nat.min_le_left _ _
        have hm : min st.rest.length (need + 1) ≤ need + 1 := Nat.min_le_right _ _
        have hpos : 0 < st.rest.length := List.length_pos_iff.mpr hemp
        obtain ⟨i1, e2, he2, i2⟩ := ih (need + 1 - min st.rest.length (need + 1))
          { st with rest := st.rest.drop (min st.rest.length (need + 1)) }
          (by omega) e (by simp only [List.length_drop]; omega)
        simp only [future] at i1 i2
        refine ⟨?_, e2, he2, ?_⟩
        · rw [i1]
          exact take_append_drop_take _ _ _ _ hu hm
        · rw [i2]
          exact drop_append_drop _ _ _ _ hu hm

/-- `k` batches from state `st`: their concatenation is the next `k*bs` items of the future, every
batch has exactly `bs` rows, there are exactly `k` of them. -/
theorem stream_spec (perms : Nat → List Nat) (n bs : Nat) (hn : 0 < n)
    (hlen : ∀ j, (perms j).length = n) :
    ∀ k (st : St) e, k * bs ≤ st.rest.length + e * n →
      (stream perms bs k st).flatten = (future perms e st).take (k * bs) ∧
      (∀ b ∈ stream perms bs k st, b.length = bs) ∧ (stream perms bs k st).length = k := by
  intro k
  induction k with
  | zero => intro st e _; simp [stream]
  | succ k ih =>
    intro st e he
    rw [Nat.succ_mul] at he
    obtain ⟨h1, e2, _, h2⟩ := fill_spec perms n hn hlen bs bs st (Nat.le_refl _) e (by omega)
    have hF := length_future perms n hlen e st
    have hF2 := length_future perms n hlen e2 (fill perms bs bs st).2
    rw [h2, List.length_drop, hF] at hF2
    obtain ⟨i1, i2, i3⟩ := ih (fill perms bs bs st).2 e2 (by omega)
    simp only [stream, List.flatten_cons, List.mem_cons, List.length_cons]
    refine ⟨?_, ?_, by rw [i3]⟩
    · rw [i1, h1, h2, Nat.succ_mul, Nat.add_comm (k * bs) bs, List.take_add]
    · intro b hb
      rcases hb with rfl | hb
      · rw [h1, List.length_take, hF]; omega
      · exact i2 b hb

theorem epochs_getElem? (perms : Nat → List Nat) (n : Nat) (hn : 0 < n)
    (hlen : ∀ j, (perms j).length = n) :
    ∀ e j t, t < e * n → (epochs perms e j)[t]? = (perms (j + t / n))[t % n]? := by
  intro e
  induction e with
  | zero => intro j t h; simp at h
  | succ e ih =>
    intro j t h
    simp only [epochs]
    by_cases ht : t < n
    · rw [List.getElem?_append_left (by rw [hlen]; exact ht), Nat.div_eq_of_lt ht, Nat.mod_eq_of_lt ht]
      rfl
    · have ht' : n ≤ t := Nat.le_of_not_lt ht
      rw [List.getElem?_append_right (by rw [hlen]; exact ht'), hlen,
        ih (j + 1) (t - n) (by rw [Nat.succ_mul] at h; omega),
        Nat.div_eq_sub_div hn ht', Nat.mod_eq_sub_mod ht']
      congr 2; omega

theorem epochs_window (perms : Nat → List Nat) (n : Nat) (hlen : ∀ j, (perms j).length = n) :
    ∀ e j w, w < e → ((epochs perms e j).drop (w * n)).take n = perms (j + w) := by
  intro e
  induction e with
  | zero => intro j w h; omega
  | succ e ih =>
    intro j w h
    simp only [epochs]
    cases w with
    | zero =>
      simp only [Nat.zero_mul, List.drop_zero, Nat.add_zero]
      rw [List.take_append_of_le_length (by rw [hlen]; exact Nat.le_refl _)]
      exact List.take_of_length_le (by rw [hlen]; exact Nat.le_refl _)
    | succ w =>
      rw [List.drop_append, List.drop_of_length_le (by rw [hlen, Nat.succ_mul]; omega), hlen,
        List.nil_append]
      have : (w + 1) * n - n = w * n := by rw [Nat.succ_mul]; omega
      rw [this, ih (j + 1) w (by omega)]
      congr 1; omega

theorem epochs_take (perms : Nat → List Nat) (n : Nat) (hlen : ∀ j, (perms j).length = n) :
    ∀ q e j r, r < n → q * n + r ≤ e * n →
      (epochs perms e j).take (q * n + r) = epochs perms q j ++ (perms (j + q)).take r := by
  intro q
  induction q with
  | zero =>
    intro e j r hr h
    simp only [Nat.zero_mul, Nat.zero_add, epochs, List.nil_append, Nat.add_zero]
    cases e with
    | zero =>
      have : r = 0 := by omega
      subst this; simp
    | succ e =>
      simp only [epochs]
      exact List.take_append_of_le_length (by rw [hlen]; omega)
  | succ q ih =>
    intro e j r hr h
    cases e with
    | zero => rw [Nat.succ_mul] at h; omega
    | succ e =>
      simp only [epochs]
      rw [List.take_append, List.take_of_length_le (by rw [hlen, Nat.succ_mul]; omega), hlen]
      have e1 : (q + 1) * n + r - n = q * n + r := by rw [Nat.succ_mul]; omega
      have e2 : j + 1 + q = j + (q + 1) := by omega
      rw [e1, ih e (j + 1) r hr (by rw [Nat.succ_mul, Nat.succ_mul] at h; omega), e2]
      simp only [List.append_assoc]

theorem count_epochs (perms : Nat → List Nat) (n : Nat)
    (hperm : ∀ j, (perms j).Perm (List.range n)) (i : Nat) (hi : i < n) :
    ∀ q j, (epochs perms q j).count i = q := by
  intro q
  induction q with
  | zero => intro j; simp [epochs]
  | succ q ih =>
    intro j
    simp only [epochs, List.count_append, ih]
    rw [(hperm j).count_eq, List.nodup_range.count, if_pos (List.mem_range.mpr hi)]
    omega

/-! ## property theorems -/

/-- **Main clause.** The concatenation of the first `k` batches is the first `k*bs` entries of
`perms 0 ++ perms 1 ++ …`: indices are consumed in buffer order, the buffer is reshuffled exactly
when it is exhausted, a batch is filled across epoch boundaries, nothing is skipped or repeated.
(`e` is any look-ahead with `k*bs ≤ e*n`, e.g. `e = k*bs`.) -/
theorem C04_stream_eq (perms : Nat → List Nat) (n bs : Nat) (hn : 0 < n)
    (hlen : ∀ j, (perms j).length = n) (k e : Nat) (he : k * bs ≤ e * n) :
    (stream perms bs k St.init).flatten = (epochs perms e 0).take (k * bs) := by
  have := (stream_spec perms n bs hn hlen k St.init e (by simpa [St.init] using he)).1
  simpa [future, St.init] using this

/-- Every batch has exactly `bs` rows and `stream … k` has exactly `k` batches; in particular the
inner loop terminates within fuel `bs` (it would not for `n = 0`). -/
theorem C04_batch_size (perms : Nat → List Nat) (n bs : Nat) (hn : 0 < n)
    (hlen : ∀ j, (perms j).length = n) (k : Nat) :
    (stream perms bs k St.init).length = k ∧ ∀ b ∈ stream perms bs k St.init, b.length = bs := by
  have h := stream_spec perms n bs hn hlen k St.init (k * bs) (by
    simp only [St.init, List.length_nil, Nat.zero_add]
    exact Nat.le_mul_of_pos_right _ hn)
  exact ⟨h.2.2, h.2.1⟩

/-- The refill loop needs at most `bs` iterations: more fuel changes nothing. -/
theorem C04_fill_terminates (perms : Nat → List Nat) (n bs : Nat) (hn : 0 < n)
    (hlen : ∀ j, (perms j).length = n) (st : St) (extra : Nat) :
    (fill perms (bs + extra) bs st).1 = (fill perms bs bs st).1 ∧
    ((fill perms bs bs st).1).length = bs := by
  have hb : bs ≤ st.rest.length + bs * n := by
    have := Nat.le_mul_of_pos_right bs hn; omega
  obtain ⟨h1, _⟩ := fill_spec perms n hn hlen (bs + extra) bs st (by omega) bs hb
  obtain ⟨h2, _⟩ := fill_spec perms n hn hlen bs bs st (Nat.le_refl _) bs hb
  refine ⟨by rw [h1, h2], ?_⟩
  rw [h2, List.length_take, length_future perms n hlen]; omega

/-- The `t`-th drawn index is entry `t % n` of the `(t / n)`-th buffer content. -/
theorem C04_index (perms : Nat → List Nat) (n bs : Nat) (hn : 0 < n)
    (hlen : ∀ j, (perms j).length = n) (k t : Nat) (ht : t < k * bs) :
    (stream perms bs k St.init).flatten[t]? = (perms (t / n))[t % n]? := by
  have hle : k * bs ≤ (k * bs) * n := Nat.le_mul_of_pos_right _ hn
  rw [C04_stream_eq perms n bs hn hlen k (k * bs) hle, List.getElem?_take, if_pos ht,
    epochs_getElem? perms n hn hlen (k * bs) 0 t (by omega), Nat.zero_add]

/-- Cutting the drawn stream into windows of `n`: every complete window **is** the buffer content
of its epoch (`perms w`) … -/
theorem C04_window_eq (perms : Nat → List Nat) (n bs : Nat) (hn : 0 < n)
    (hlen : ∀ j, (perms j).length = n) (k w : Nat) (hw : (w + 1) * n ≤ k * bs) :
    (((stream perms bs k St.init).flatten).drop (w * n)).take n = perms w := by
  have hle : k * bs ≤ (k * bs) * n := Nat.le_mul_of_pos_right _ hn
  rw [C04_stream_eq perms n bs hn hlen k (k * bs) hle, List.drop_take, List.take_take]
  rw [Nat.succ_mul] at hw
  have hwe : w < k * bs := by
    have := Nat.le_mul_of_pos_right w hn; omega
  have : min n (k * bs - w * n) = n := by omega
  rw [this, epochs_window perms n hlen (k * bs) 0 w hwe, Nat.zero_add]

/-- … hence a permutation of the dataset when numpy's shuffle returns permutations. -/
theorem C04_windows_perm (perms : Nat → List Nat) (n bs : Nat) (hn : 0 < n)
    (hperm : ∀ j, (perms j).Perm (List.range n)) (k w : Nat) (hw : (w + 1) * n ≤ k * bs) :
    ((((stream perms bs k St.init).flatten).drop (w * n)).take n).Perm (List.range n) := by
  have hlen : ∀ j, (perms j).length = n := fun j => by rw [(hperm j).length_eq, List.length_range]
  rw [C04_window_eq perms n bs hn hlen k w hw]
  exact hperm w

/-- No duplicates inside a window, complete or not: any `m ≤ n` consecutive draws starting at a
window boundary are pairwise distinct (they are a prefix of that epoch's permutation) — in
particular a run of fewer than `n` draws in total never repeats an example (sampling is without
replacement even when `num_steps * bs < n`). -/
theorem C04_prefix_nodup (perms : Nat → List Nat) (n bs : Nat) (hn : 0 < n)
    (hperm : ∀ j, (perms j).Perm (List.range n)) (k w m : Nat) (hm : m ≤ n)
    (hw : w * n + m ≤ k * bs) :
    ((((stream perms bs k St.init).flatten).drop (w * n)).take m) = (perms w).take m ∧
    ((((stream perms bs k St.init).flatten).drop (w * n)).take m).Nodup := by
  have hlen : ∀ j, (perms j).length = n := fun j => by rw [(hperm j).length_eq, List.length_range]
  have hnd : ((perms w).take m).Nodup :=
    List.Nodup.sublist (List.take_sublist _ _) ((hperm w).nodup_iff.mpr List.nodup_range)
  by_cases hm0 : m = 0
  · subst hm0; simp
  have hle : k * bs ≤ (k * bs + 1) * n := by
    have := Nat.le_mul_of_pos_right (k * bs + 1) hn; omega
  have hwe : w < k * bs + 1 := by
    have := Nat.le_mul_of_pos_right w hn; omega
  have e : (((stream perms bs k St.init).flatten).drop (w * n)).take m = (perms w).take m := by
    rw [C04_stream_eq perms n bs hn hlen k (k * bs + 1) hle, List.drop_take, List.take_take]
    have h1 : min m (k * bs - w * n) = m := by omega
    have h2 : (perms w).take m = (((epochs perms (k * bs + 1) 0).drop (w * n)).take n).take m := by
      rw [epochs_window perms n hlen (k * bs + 1) 0 w hwe, Nat.zero_add]
    rw [h1, h2, List.take_take, Nat.min_eq_left hm]
  exact ⟨e, e ▸ hnd⟩

/-- The first `⌈n/bs⌉` batches cover every example. -/
theorem C04_first_cover (perms : Nat → List Nat) (n bs : Nat) (hn : 0 < n) (hbs : 0 < bs)
    (hperm : ∀ j, (perms j).Perm (List.range n)) (i : Nat) (hi : i < n) :
    i ∈ (stream perms bs ((n + bs - 1) / bs) St.init).flatten := by
  have hc : n ≤ (n + bs - 1) / bs * bs := by
    have h1 := Nat.div_add_mod (n + bs - 1) bs
    have h2 := Nat.mod_lt (n + bs - 1) hbs
    rw [Nat.mul_comm] at h1
    omega
  have h := C04_windows_perm perms n bs hn hperm ((n + bs - 1) / bs) 0 (by simpa using hc)
  rw [Nat.zero_mul, List.drop_zero] at h
  exact List.mem_of_mem_take ((h.mem_iff).mpr (List.mem_range.mpr hi))

/-- After any number `m` of draws every example has been used `m / n` or `m / n + 1` times: usage
counts of two examples never differ by more than one (sampling without replacement). -/
theorem C04_balanced (perms : Nat → List Nat) (n bs : Nat) (hn : 0 < n)
    (hperm : ∀ j, (perms j).Perm (List.range n)) (k m : Nat) (hm : m ≤ k * bs)
    (i : Nat) (hi : i < n) :
    m / n ≤ (((stream perms bs k St.init).flatten).take m).count i ∧
    (((stream perms bs k St.init).flatten).take m).count i ≤ m / n + 1 := by
  have hlen : ∀ j, (perms j).length = n := fun j => by rw [(hperm j).length_eq, List.length_range]
  have hle : k * bs ≤ (k * bs) * n := Nat.le_mul_of_pos_right _ hn
  rw [C04_stream_eq perms n bs hn hlen k (k * bs) hle, List.take_take, Nat.min_eq_left hm]
  have hdm := Nat.div_add_mod m n
  have hr := Nat.mod_lt m hn
  have e : m = m / n * n + m % n := by rw [Nat.mul_comm]; omega
  have h2 : m / n * n + m % n ≤ k * bs * n := by omega
  rw [e, epochs_take perms n hlen (m / n) (k * bs) 0 (m % n) hr h2, ← e, List.count_append,
    count_epochs perms n hperm i hi]
  have hnd : ((perms (0 + m / n)).take (m % n)).Nodup :=
    List.Nodup.sublist (List.take_sublist _ _) ((hperm _).nodup_iff.mpr List.nodup_range)
  rw [hnd.count]
  split <;> omega

theorem C04_balanced_pair (perms : Nat → List Nat) (n bs : Nat) (hn : 0 < n)
    (hperm : ∀ j, (perms j).Perm (List.range n)) (k m : Nat) (hm : m ≤ k * bs)
    (i j : Nat) (hi : i < n) (hj : j < n) :
    (((stream perms bs k St.init).flatten).take m).count i
      ≤ (((stream perms bs k St.init).flatten).take m).count j + 1 := by
  have h1 := C04_balanced perms n bs hn hperm k m hm i hi
  have h2 := C04_balanced perms n bs hn hperm k m hm j hj
  omega

/-- With shuffling disabled (`perms j = range n`) the stream is the cyclic original order. -/
theorem C04_skip_shuffle (n bs : Nat) (hn : 0 < n) (k t : Nat) (ht : t < k * bs) :
    (stream (fun _ => List.range n) bs k St.init).flatten[t]? = some (t % n) := by
  rw [C04_index (fun _ => List.range n) n bs hn (fun _ => List.length_range) k t ht]
  exact List.getElem?_range (Nat.mod_lt _ hn)

/-- The number of batches is the documented function of `(N, bs, num_epochs, num_steps,
drop_remainder)`: epochs only — the fewest batches covering `E` passes (`⌈N·E/bs⌉`), or with
`drop_remainder` the most batches that fit into `E` passes (`⌊N·E/bs⌋`); steps only — `S`;
both — the smaller; neither — unbounded. -/
theorem C04_count (N bs : Nat) (hbs : 0 < bs) (E S : Nat) (drop : Bool) :
    (∃ k, numSteps N bs (some E) none false = some k ∧ N * E ≤ k * bs ∧ k * bs < N * E + bs) ∧
    (∃ k, numSteps N bs (some E) none true = some k ∧ k * bs ≤ N * E ∧ N * E < k * bs + bs) ∧
    numSteps N bs none (some S) drop = some S ∧
    numSteps N bs (some E) (some S) drop = (numSteps N bs (some E) none drop).map (min S) ∧
    numSteps N bs none none drop = none := by
  refine ⟨⟨(N * E + bs - 1) / bs, rfl, ?_, ?_⟩, ⟨N * E / bs, rfl, ?_, ?_⟩, rfl,
    by cases drop <;> rfl, rfl⟩
  · have h1 := Nat.div_add_mod (N * E + bs - 1) bs
    have h2 := Nat.mod_lt (N * E + bs - 1) hbs
    rw [Nat.mul_comm] at h1; omega
  · have h1 := Nat.div_add_mod (N * E + bs - 1) bs
    have h2 := Nat.mod_lt (N * E + bs - 1) hbs
    rw [Nat.mul_comm] at h1; omega
  · exact Nat.div_mul_le_self _ _
  · have h1 := Nat.div_add_mod (N * E) bs
    have h2 := Nat.mod_lt (N * E) hbs
    rw [Nat.mul_comm] at h1; omega

/-- The whole view: whenever the step count is bounded, `run` yields exactly that many batches of
exactly `bs` rows whose concatenation is a prefix of the concatenated epochs. -/
theorem C04_run (perms : Nat → List Nat) (n bs : Nat) (hn : 0 < n)
    (hlen : ∀ j, (perms j).length = n) (E S : Option Nat) (drop : Bool) (k : Nat)
    (hk : numSteps n bs E S drop = some k) :
    ∃ bsx, run perms n bs E S drop = some bsx ∧ bsx.length = k ∧ (∀ b ∈ bsx, b.length = bs) ∧
      bsx.flatten = (epochs perms (k * bs) 0).take (k * bs) := by
  refine ⟨stream perms bs k St.init, by simp [run, hk], ?_, ?_, ?_⟩
  · exact (C04_batch_size perms n bs hn hlen k).1
  · exact (C04_batch_size perms n bs hn hlen k).2
  · exact C04_stream_eq perms n bs hn hlen k (k * bs) (Nat.le_mul_of_pos_right _ hn)

/-! ## non-vacuity: the hypotheses are met by concrete non-trivial instances -/

/-- a concrete oracle: even epochs `[3,1,4,0,2]`, odd epochs `[2,0,3,4,1]` -/
def demoPerms (j : Nat) : List Nat := if j % 2 = 0 then [3, 1, 4, 0, 2] else [2, 0, 3, 4, 1]

theorem demoPerms_perm : ∀ j, (demoPerms j).Perm (List.range 5) := by
  intro j
  unfold demoPerms
  split <;> decide

example : stream demoPerms 3 4 St.init = [[3, 1, 4], [0, 2, 2], [0, 3, 4], [1, 3, 1]] := by decide
example : stream demoPerms 7 2 St.init = [[3, 1, 4, 0, 2, 2, 0], [3, 4, 1, 3, 1, 4, 0]] := by decide
example : (((stream demoPerms 3 4 St.init).flatten).drop (1 * 5)).take 5 = demoPerms 1 :=
  C04_window_eq demoPerms 5 3 (by decide) (fun j => by rw [(demoPerms_perm j).length_eq]; rfl) 4 1
    (by decide)
example : ∀ i, i < 5 → i ∈ (stream demoPerms 3 ((5 + 3 - 1) / 3) St.init).flatten :=
  fun i hi => C04_first_cover demoPerms 5 3 (by decide) (by decide) demoPerms_perm i hi
example : (stream (fun _ => List.range 3) 2 3 St.init) = [[0, 1], [2, 0], [1, 2]] := by decide
example : numSteps 5 2 (some 1) none false = some 3 ∧ numSteps 5 2 (some 1) none true = some 2 ∧
    numSteps 5 2 (some 3) (some 4) false = some 4 ∧ numSteps 5 2 none (some 9) true = some 9 ∧
    numSteps 5 7 (some 1) none false = some 1 ∧ numSteps 5 7 (some 1) none true = some 0 := by decide
example : (stream demoPerms 3 4 St.init).length = 4 ∧ ∀ b ∈ stream demoPerms 3 4 St.init, b.length = 3 :=
  C04_batch_size demoPerms 5 3 (by decide) (fun j => by rw [(demoPerms_perm j).length_eq]; rfl) 4
example : 7 / 5 ≤ (((stream demoPerms 3 4 St.init).flatten).take 7).count 2 ∧
    (((stream demoPerms 3 4 St.init).flatten).take 7).count 2 ≤ 7 / 5 + 1 :=
  C04_balanced demoPerms 5 3 (by decide) demoPerms_perm 4 7 (by decide) 2 (by decide)
example : (((stream demoPerms 3 4 St.init).flatten).take 7).count 2 = 2 ∧
    (((stream demoPerms 3 4 St.init).flatten).take 7).count 4 = 1 := by decide
example : (stream (fun _ => List.range 3) 2 3 St.init).flatten[4]? = some (4 % 3) :=
  C04_skip_shuffle 3 2 (by decide) 3 4 (by decide)
example : (stream demoPerms 3 4 St.init).flatten[8]? = (demoPerms (8 / 5))[8 % 5]? :=
  C04_index demoPerms 5 3 (by decide) (fun j => by rw [(demoPerms_perm j).length_eq]; rfl) 4 8 (by decide)
example : ∃ bsx, run demoPerms 5 3 (some 2) none false = some bsx ∧ bsx.length = 4 ∧
    (∀ b ∈ bsx, b.length = 3) ∧ bsx.flatten = (epochs demoPerms (4 * 3) 0).take (4 * 3) :=
  C04_run demoPerms 5 3 (by decide) (fun j => by rw [(demoPerms_perm j).length_eq]; rfl) (some 2) none false 4
    (by decide)
-- fewer draws than one epoch (1 step of 3 on 5 examples): no example twice
example : (((stream demoPerms 3 1 St.init).flatten).drop (0 * 5)).take 3 = [3, 1, 4] ∧
    ((((stream demoPerms 3 1 St.init).flatten).drop (0 * 5)).take 3).Nodup :=
  C04_prefix_nodup demoPerms 5 3 (by decide) demoPerms_perm 1 0 3 (by decide) (by decide)
/-- the hypothesis `0 < n` is necessary: on an empty dataset the refill loop makes no progress
(the batch stays short however much fuel it gets) -/
example : (fill (fun _ => []) 100 3 St.init).1 = [] := by decide

end FedjaxVerif.Shuffle
