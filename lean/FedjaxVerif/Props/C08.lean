import FedjaxVerif.Model.FedData
import FedjaxVerif.Model.Centralised
import Mathlib.Data.List.Perm.Basic
import Mathlib.Data.List.Nodup
import Mathlib.Data.List.Lex
import Mathlib.Order.Basic

/-!
# C08 — all federated-dataset implementations expose the same mapping

Property theorems about `Model/FedData.lean`.  `FD` is the union of the three implementations
(`mem` = `InMemoryFederatedData`, `sql` = `SQLiteFederatedData`, `sub` = `SubsetFederatedData` over any
base), `View` is the specification (a plain mapping `id ↦ examples` + preprocessor chains).
All statements quantify over every id type with a strict total order (bytes: `bytes_strictTotal`),
every example type, every table with distinct ids, every finite sequence of view operations.
-/

namespace FedjaxVerif.FedData

set_option linter.unusedSectionVars false

/-- the facts about `<` on client ids that the range logic relies on (Python `bytes`, SQLite BLOB). -/
structure StrictTotal (Id : Type) [LT Id] : Prop where
  irrefl : ∀ a : Id, ¬ a < a
  trans : ∀ a b c : Id, a < b → b < c → a < c
  total : ∀ a b : Id, a < b ∨ a = b ∨ b < a

/-- byte strings (`List Nat`) under the lexicographic order used by the driver. -/
theorem bytes_strictTotal : StrictTotal (List Nat) :=
  ⟨fun a => lt_irrefl a, fun _ _ _ => lt_trans, fun a b => lt_trichotomy a b⟩

section
variable {Id E : Type} [DecidableEq Id]

def keys (t : List (Id × E)) : List Id := t.map (·.1)

/-! ## helper lemmas: association lists with distinct keys -/

theorem lookup_eq_none_iff (i : Id) (t : List (Id × E)) : lookup i t = none ↔ i ∉ keys t := by
  induction t with
  | nil => simp [lookup, keys]
  | cons p t ih =>
    obtain ⟨k, v⟩ := p
    by_cases h : k = i
    · simp [lookup, keys, h]
    · have h' : ¬ i = k := fun e => h e.symm
      simp only [lookup, h, if_false, ih, keys, List.map_cons, List.mem_cons, h', false_or]

theorem lookup_some_mem {i : Id} {e : E} {t : List (Id × E)} (h : lookup i t = some e) : (i, e) ∈ t := by
  induction t with
  | nil => simp [lookup] at h
  | cons p t ih =>
    obtain ⟨k, v⟩ := p
    by_cases hk : k = i
    · simp only [lookup, hk, if_true, Option.some.injEq] at h
      subst hk; subst h; simp
    · simp only [lookup, hk, if_false] at h
      exact List.mem_cons_of_mem _ (ih h)

theorem lookup_of_mem_nodup {i : Id} {e : E} {t : List (Id × E)} (hn : (keys t).Nodup)
    (h : (i, e) ∈ t) : lookup i t = some e := by
  induction t with
  | nil => simp at h
  | cons p t ih =>
    obtain ⟨k, v⟩ := p
    simp only [keys, List.map_cons, List.nodup_cons] at hn
    rcases List.mem_cons.mp h with h | h
    · cases h; simp [lookup]
    · have : k ≠ i := by
        intro hk; subst hk
        exact hn.1 (List.mem_map_of_mem (f := (·.1)) h)
      simp only [lookup, this, if_false]
      exact ih hn.2 h

theorem lookup_isSome_iff (i : Id) (t : List (Id × E)) : (lookup i t).isSome ↔ i ∈ keys t := by
  rw [← not_iff_not, ← lookup_eq_none_iff]
  cases lookup i t <;> simp

theorem keys_perm {t t' : List (Id × E)} (h : t.Perm t') : (keys t).Perm (keys t') := h.map _

theorem lookup_perm {t t' : List (Id × E)} (hn : (keys t).Nodup) (h : t.Perm t') (i : Id) :
    lookup i t = lookup i t' := by
  have hn' : (keys t').Nodup := (keys_perm h).nodup_iff.mp hn
  cases hl : lookup i t with
  | none =>
    symm
    rw [lookup_eq_none_iff] at hl ⊢
    exact fun hm => hl ((keys_perm h).mem_iff.mpr hm)
  | some e =>
    exact (lookup_of_mem_nodup hn' (h.mem_iff.mp (lookup_some_mem hl))).symm

theorem lookup_filter (P : Id → Bool) (i : Id) (t : List (Id × E)) :
    lookup i (t.filter fun p => P p.1) = if P i then lookup i t else none := by
  induction t with
  | nil => simp [lookup]
  | cons p t ih =>
    obtain ⟨k, v⟩ := p
    by_cases hP : P k
    · simp only [List.filter_cons, hP, if_true, lookup]
      by_cases hk : k = i
      · subst hk; simp [hP]
      · simp only [hk, if_false, ih]
    · have hP' : P k = false := by simpa using hP
      simp only [List.filter_cons, hP', lookup]
      by_cases hk : k = i
      · subst hk; simp [hP', ih]
      · simp [hk, ih]

theorem keys_filter (P : Id → Bool) (t : List (Id × E)) :
    keys (t.filter fun p => P p.1) = (keys t).filter P := by
  unfold keys
  rw [List.filter_map]; rfl

/-- reading a table back through its own keys gives the table (distinct keys). -/
theorem filterMap_keys {β : Type} (f : Id → E → β) (t : List (Id × E)) (hn : (keys t).Nodup) :
    (keys t).filterMap (fun i => (lookup i t).map (f i)) = t.map fun p => f p.1 p.2 := by
  induction t with
  | nil => rfl
  | cons p t ih =>
    obtain ⟨k, v⟩ := p
    simp only [keys, List.map_cons, List.nodup_cons] at hn
    simp only [keys, List.map_cons, List.filterMap_cons, lookup, if_true, Option.map_some]
    congr 1
    rw [← ih hn.2]
    apply List.filterMap_congr
    intro j hj
    have : k ≠ j := fun e => hn.1 (e ▸ hj)
    simp [this]

theorem filterMap_keys_filter {β : Type} (f : Id → E → β) (P : Id → Bool) (t : List (Id × E))
    (hn : (keys t).Nodup) :
    ((keys t).filter P).filterMap (fun i => (lookup i t).map (f i))
      = (t.filter fun p => P p.1).map fun p => f p.1 p.2 := by
  have hn' : (keys (t.filter fun p => P p.1)).Nodup := by rw [keys_filter]; exact hn.filter _
  rw [← filterMap_keys f _ hn', keys_filter]
  apply List.filterMap_congr
  intro j hj
  rw [lookup_filter]
  simp [(List.mem_filter.mp hj).2]

/-! ## helper lemmas: lazy bulk access -/

theorem getMany_congr {D : Type} {g g' : Id → Option D} (req : List Id) (h : ∀ i ∈ req, g i = g' i) :
    getMany g req = getMany g' req := by
  induction req with
  | nil => rfl
  | cons i is ih =>
    have h0 := h i (by simp)
    have ih' := ih fun j hj => h j (List.mem_cons_of_mem _ hj)
    simp only [getMany, h0, ih']

theorem getMany_all_some {D : Type} (g : Id → Option D) (req : List Id)
    (h : ∀ i ∈ req, (g i).isSome) :
    getMany g req = (req.filterMap fun i => (g i).map fun d => (i, d), false) := by
  induction req with
  | nil => rfl
  | cons i is ih =>
    have h0 := h i (by simp)
    have ih' := ih fun j hj => h j (List.mem_cons_of_mem _ hj)
    cases hg : g i with
    | none => simp [hg] at h0
    | some d => simp [getMany, hg, ih']

theorem subFilter_getMany {D : Type} (set : List Id) (g : Id → Option D) (req : List Id) :
    subFilter set (getMany g req).1 (getMany g req).2
      = getMany (fun i => if i ∈ set then g i else none) req := by
  induction req with
  | nil => rfl
  | cons i is ih =>
    cases hg : g i with
    | none =>
      by_cases hs : i ∈ set <;> simp [getMany, hg, hs, subFilter]
    | some d =>
      by_cases hs : i ∈ set
      · simp only [getMany, hg, hs, if_true, subFilter]
        rw [ih]
      · simp [getMany, hg, hs, subFilter]

theorem mem_dedupIds (i : Id) (l : List Id) : i ∈ dedupIds l ↔ i ∈ l := by
  induction l with
  | nil => simp [dedupIds]
  | cons x xs ih =>
    by_cases h : x ∈ xs
    · simp only [dedupIds, h, if_true, ih, List.mem_cons]
      constructor
      · exact Or.inr
      · rintro (rfl | h') <;> assumption
    · simp [dedupIds, h, ih]

theorem nodup_dedupIds (l : List Id) : (dedupIds l).Nodup := by
  induction l with
  | nil => simp [dedupIds]
  | cons x xs ih =>
    by_cases h : x ∈ xs
    · simp [dedupIds, h, ih]
    · simp [dedupIds, h, ih, mem_dedupIds]

end

section
variable {Id E : Type} [DecidableEq Id] [LT Id] [DecidableLT Id]

/-! ## ranges -/

theorem insertId_perm (x : Id) (l : List Id) : (insertId x l).Perm (x :: l) := by
  induction l with
  | nil => exact List.Perm.refl _
  | cons y ys ih =>
    unfold insertId
    split
    · exact List.Perm.refl _
    · exact (ih.cons y).trans (List.Perm.swap x y ys)

theorem sortIds_perm (l : List Id) : (sortIds l).Perm l := by
  induction l with
  | nil => exact List.Perm.refl _
  | cons x xs ih => exact (insertId_perm x _).trans (ih.cons x)

theorem mem_sortIds (i : Id) (l : List Id) : i ∈ sortIds l ↔ i ∈ l := (sortIds_perm l).mem_iff

theorem whereP_eq (s e : Option Id) (x : Id) : whereP s e x = inRange s e x := by
  cases s <;> cases e <;> simp [whereP, inRange]

theorem sliceFilter_eq (s e : Option Id) (ids : List Id) :
    sliceFilter s e ids = ids.filter (inRange s e) := by
  cases s <;> cases e <;> simp only [sliceFilter]
  · symm; apply List.filter_eq_self.mpr; intro a _; rfl
  all_goals (apply List.filter_congr; intro x _; simp [inRange])

theorem pyMax_ge_iff (ho : StrictTotal Id) (a b x : Id) :
    ¬ x < pyMax a b ↔ ¬ x < a ∧ ¬ x < b := by
  unfold pyMax
  by_cases h : a < b
  · simp only [h, if_true]
    exact ⟨fun hx => ⟨fun hxa => hx (ho.trans _ _ _ hxa h), hx⟩, fun hx => hx.2⟩
  · simp only [h, if_false]
    refine ⟨fun hx => ⟨hx, fun hxb => ?_⟩, fun hx => hx.1⟩
    rcases ho.total a b with h' | h' | h'
    · exact h h'
    · subst h'; exact hx hxb
    · exact hx (ho.trans _ _ _ hxb h')

theorem pyMin_lt_iff (ho : StrictTotal Id) (a b x : Id) :
    x < pyMin a b ↔ x < a ∧ x < b := by
  unfold pyMin
  by_cases h : b < a
  · simp only [h, if_true]
    exact ⟨fun hx => ⟨ho.trans _ _ _ hx h, hx⟩, fun hx => hx.2⟩
  · simp only [h, if_false]
    refine ⟨fun hx => ⟨hx, ?_⟩, fun hx => hx.1⟩
    rcases ho.total b a with h' | h' | h'
    · exact absurd h' h
    · subst h'; exact hx
    · exact ho.trans _ _ _ hx h'

/-- **Range intersection.** A client id lies in the range computed by `intersect_slice_ranges` iff it
lies in both the current and the new range — for all option-bounded half-open ranges (so nested
slicing never enlarges a view, and `start > stop` gives the empty view). -/
theorem C08_intersect (ho : StrictTotal Id) (cs ce ns ne : Option Id) (x : Id) :
    inRange (intersect cs ce ns ne).1 (intersect cs ce ns ne).2 x
      = (inRange cs ce x && inRange ns ne x) := by
  have hmax := pyMax_ge_iff ho
  have hmin := pyMin_lt_iff ho
  rw [Bool.eq_iff_iff]
  cases cs <;> cases ce <;> cases ns <;> cases ne <;>
    simp only [intersect, inRange, Bool.and_eq_true, Bool.not_eq_true', decide_eq_false_iff_not,
      decide_eq_true_eq, Bool.true_and, Bool.and_true, hmax, hmin] <;> tauto

/-! ## abstraction of an implementation state to a view; invariant -/

/-- the mapping an implementation state denotes -/
def abs : FD Id E → View Id E
  | .mem m => ⟨m.tab, m.cpre, m.bpre⟩
  | .sql q => ⟨q.rows.filter fun p => inRange q.start q.stop p.1, q.cpre, q.bpre⟩
  | .sub b set => ⟨(abs b).content.filter fun p => decide (p.1 ∈ set), (abs b).cpre, (abs b).bpre⟩

/-- representation invariant: distinct ids in the stored table (dict keys / PRIMARY KEY); a subset
wrapper holds a duplicate-free set of ids of its base (`validate=True`, preserved by slicing). -/
def Inv : FD Id E → Prop
  | .mem m => (keys m.tab).Nodup
  | .sql q => (keys q.rows).Nodup
  | .sub b set => Inv b ∧ set.Nodup ∧ ∀ i ∈ set, i ∈ (abs b).ids

theorem abs_ids_nodup : ∀ (fd : FD Id E), Inv fd → (abs fd).ids.Nodup
  | .mem _, h => h
  | .sql q, h => by
    show (keys (q.rows.filter fun p => inRange q.start q.stop p.1)).Nodup
    rw [keys_filter]; exact List.Nodup.filter _ h
  | .sub b set, h => by
    show (keys ((abs b).content.filter fun p => decide (p.1 ∈ set))).Nodup
    have e := keys_filter (fun i => decide (i ∈ set)) (abs b).content
    rw [e]; exact List.Nodup.filter _ (abs_ids_nodup b h.1)

/-- observational refinement: every access path of the implementation state shows the mapping `v`
(listings up to order; point and bulk lookups exactly, including `KeyError`s and the lazily produced
prefix of `get_clients`). -/
structure Refines (size : E → Nat) (fd : FD Id E) (v : View Id E) : Prop where
  num : fd.numClients = v.numClients
  ids : fd.clientIds.Perm v.ids
  sizes : (fd.clientSizes size).Perm (v.sizes size)
  size1 : ∀ id, fd.clientSize size id = v.clientSize size id
  clients : fd.clients.1.Perm v.clients ∧ fd.clients.2 = false
  get1 : ∀ id, fd.getClient id = v.getClient id
  getN : ∀ req, fd.getClients req = v.getClients req

theorem view_getClient_opt (v : View Id E) (i : Id) :
    exceptToOption (v.getClient i) = (lookup i v.content).map (mkDataset v.cpre v.bpre i) := by
  unfold View.getClient
  cases lookup i v.content <;> rfl

theorem view_clients_via_getMany (v : View Id E) (hn : v.ids.Nodup) (req : List Id)
    (hp : req.Perm v.ids) :
    (v.getClients req).1.Perm v.clients ∧ (v.getClients req).2 = false := by
  unfold View.getClients
  rw [getMany_all_some]
  · refine ⟨?_, rfl⟩
    simp only [view_getClient_opt, Option.map_map]
    refine (hp.filterMap _).trans ?_
    have := filterMap_keys (fun i e => (i, mkDataset v.cpre v.bpre i e)) v.content hn
    simp only [Function.comp_def] at this ⊢
    rw [show v.ids = keys v.content from rfl, this]
    exact List.Perm.refl _
  · intro i hi
    rw [view_getClient_opt, Option.isSome_map, lookup_isSome_iff]
    exact hp.mem_iff.mp hi

theorem refines_mem (size : E → Nat) (m : MemFD Id E) (h : (keys m.tab).Nodup) :
    Refines size (.mem m) ⟨m.tab, m.cpre, m.bpre⟩ := by
  have hids : m.ids.Perm (keys m.tab) := sortIds_perm _
  have hget : ∀ i, m.dataset? i = exceptToOption ((View.mk m.tab m.cpre m.bpre).getClient i) := by
    intro i; rw [view_getClient_opt]; rfl
  refine ⟨?_, ?_, ?_, ?_, ?_, ?_, ?_⟩
  · show m.ids.length = m.tab.length
    rw [hids.length_eq, keys, List.length_map]
  · exact (sortIds_perm _).trans hids
  · show (m.ids.filterMap fun i => (lookup i m.tab).map fun raw => (i, size raw)).Perm _
    refine (hids.filterMap _).trans ?_
    rw [filterMap_keys (fun i raw => (i, size raw)) m.tab h]
    exact List.Perm.refl _
  · intro id; rfl
  · show (getMany m.dataset? m.ids).1.Perm _ ∧ (getMany m.dataset? m.ids).2 = false
    rw [getMany_congr m.ids fun i _ => hget i]
    exact view_clients_via_getMany ⟨m.tab, m.cpre, m.bpre⟩ h m.ids hids
  · intro id
    show (match m.dataset? id with | some d => Except.ok d | none => Except.error Err.key) = _
    unfold MemFD.dataset? View.getClient
    cases lookup id m.tab <;> rfl
  · intro req
    show getMany m.dataset? req = _
    exact getMany_congr req fun i _ => hget i

theorem sql_selected_eq (q : SqlFD Id E) :
    q.selected = q.rows.filter fun p => inRange q.start q.stop p.1 := by
  unfold SqlFD.selected
  apply List.filter_congr
  intro x _; exact whereP_eq _ _ _

theorem refines_sql (size : E → Nat) (q : SqlFD Id E) :
    Refines size (.sql q) (abs (.sql q)) := by
  have hget : ∀ id, q.getClient id = (abs (.sql q)).getClient id := by
    intro id
    unfold SqlFD.getClient View.getClient abs
    simp only
    rw [lookup_filter]
    by_cases hr : inRange q.start q.stop id <;> simp [hr]
  refine ⟨?_, ?_, ?_, ?_, ?_, ?_, ?_⟩
  · show q.selected.length = _; rw [sql_selected_eq]; rfl
  · show (q.selected.map (·.1)).Perm _; rw [sql_selected_eq]; exact List.Perm.refl _
  · show (q.selected.map fun p => (p.1, size p.2)).Perm _; rw [sql_selected_eq]; exact List.Perm.refl _
  · intro id
    show (if inRange q.start q.stop id then
        (match lookup id q.rows with | some raw => Except.ok (size raw) | none => Except.error Err.key)
        else Except.error Err.key) = _
    unfold View.clientSize abs
    simp only
    rw [lookup_filter]
    by_cases hr : inRange q.start q.stop id
    · simp only [hr, if_true]; cases lookup id q.rows <;> rfl
    · simp [hr]
  · show (q.selected.map fun p => (p.1, mkDataset q.cpre q.bpre p.1 p.2)).Perm _ ∧ _
    rw [sql_selected_eq]; exact ⟨List.Perm.refl _, rfl⟩
  · exact hget
  · intro req
    show getMany (fun i => exceptToOption (q.getClient i)) req = _
    exact getMany_congr req fun i _ => by rw [hget]

theorem refines_sub (size : E → Nat) (b : FD Id E) (set : List Id)
    (hb : Refines size b (abs b)) (hinv : Inv (.sub b set)) :
    Refines size (.sub b set) (abs (.sub b set)) := by
  obtain ⟨hib, hnd, hsub⟩ := hinv
  have hbn := abs_ids_nodup b hib
  set v := abs b with hv
  set w : View Id E := ⟨v.content.filter fun p => decide (p.1 ∈ set), v.cpre, v.bpre⟩ with hw
  have habs : abs (.sub b set) = w := rfl
  rw [habs]
  have hwids : w.ids = v.ids.filter fun i => decide (i ∈ set) :=
    keys_filter (fun i => decide (i ∈ set)) v.content
  have hwn : w.ids.Nodup := by rw [hwids]; exact hbn.filter _
  have hset_perm : set.Perm w.ids := by
    rw [List.perm_ext_iff_of_nodup hnd hwn]
    intro a; rw [hwids, List.mem_filter]
    simp only [decide_eq_true_eq]
    exact ⟨fun h => ⟨hsub a h, h⟩, fun h => h.2⟩
  have hlook : ∀ id, lookup id w.content = if id ∈ set then lookup id v.content else none := by
    intro id
    have := lookup_filter (fun i => decide (i ∈ set)) id v.content
    simpa using this
  have hget : ∀ id, (FD.sub b set).getClient id = w.getClient id := by
    intro id
    show (if id ∈ set then b.getClient id else Except.error Err.key) = _
    unfold View.getClient
    rw [hlook, hb.get1]
    by_cases hs : id ∈ set <;> simp [hs, View.getClient, hw]
  have hgetN : ∀ req, (FD.sub b set).getClients req = w.getClients req := by
    intro req
    show subFilter set (b.getClients req).1 (b.getClients req).2 = _
    rw [hb.getN]
    unfold View.getClients
    rw [subFilter_getMany]
    apply getMany_congr
    intro i _
    rw [view_getClient_opt, view_getClient_opt, hlook]
    by_cases hs : i ∈ set <;> simp [hs, hw]
  refine ⟨?_, ?_, ?_, ?_, ?_, hget, hgetN⟩
  · show set.length = w.content.length
    rw [hset_perm.length_eq]; exact List.length_map _
  · exact (sortIds_perm _).trans hset_perm
  · show ((b.clientSizes size).filter fun p => decide (p.1 ∈ set)).Perm _
    refine (hb.sizes.filter _).trans ?_
    unfold View.sizes
    rw [List.filter_map]
    exact List.Perm.refl _
  · intro id
    show (if id ∈ set then b.clientSize size id else Except.error Err.key) = _
    unfold View.clientSize
    rw [hlook, hb.size1]
    by_cases hs : id ∈ set <;> simp [hs, View.clientSize]
  · show (subFilter set (b.getClients (sortIds set)).1 (b.getClients (sortIds set)).2).1.Perm _ ∧
      (subFilter set (b.getClients (sortIds set)).1 (b.getClients (sortIds set)).2).2 = false
    have := hgetN (sortIds set)
    change subFilter set (b.getClients (sortIds set)).1 (b.getClients (sortIds set)).2 = _ at this
    rw [this]
    exact view_clients_via_getMany w hwn _ ((sortIds_perm _).trans hset_perm)

/-- every reachable implementation state shows exactly the mapping it denotes -/
theorem refines_abs (size : E → Nat) : ∀ (fd : FD Id E), Inv fd → Refines size fd (abs fd)
  | .mem m, h => refines_mem size m h
  | .sql q, _ => refines_sql size q
  | .sub b set, h => refines_sub size b set (refines_abs size b h.1) h

end

section
variable {Id E : Type} [DecidableEq Id] [LT Id] [DecidableLT Id]

/-! ## views up to the order of their content -/

structure ViewEq (v w : View Id E) : Prop where
  content : v.content.Perm w.content
  cpre : v.cpre = w.cpre
  bpre : v.bpre = w.bpre

theorem ViewEq.refl (v : View Id E) : ViewEq v v := ⟨List.Perm.refl _, rfl, rfl⟩
theorem ViewEq.symm {v w : View Id E} (h : ViewEq v w) : ViewEq w v :=
  ⟨h.content.symm, h.cpre.symm, h.bpre.symm⟩
theorem ViewEq.trans {u v w : View Id E} (h : ViewEq u v) (h' : ViewEq v w) : ViewEq u w :=
  ⟨h.content.trans h'.content, h.cpre.trans h'.cpre, h.bpre.trans h'.bpre⟩

theorem ViewEq.ids_perm {v w : View Id E} (h : ViewEq v w) : v.ids.Perm w.ids := h.content.map _

theorem ViewEq.ids_nodup {v w : View Id E} (h : ViewEq v w) (hn : v.ids.Nodup) : w.ids.Nodup :=
  h.ids_perm.nodup_iff.mp hn

theorem ViewEq.getClient {v w : View Id E} (h : ViewEq v w) (hn : v.ids.Nodup) (i : Id) :
    v.getClient i = w.getClient i := by
  unfold View.getClient
  rw [lookup_perm hn h.content, h.cpre, h.bpre]

theorem ViewEq.clientSize {v w : View Id E} (size : E → Nat) (h : ViewEq v w) (hn : v.ids.Nodup)
    (i : Id) : v.clientSize size i = w.clientSize size i := by
  unfold View.clientSize
  rw [lookup_perm hn h.content]

theorem ViewEq.clients {v w : View Id E} (h : ViewEq v w) : v.clients.Perm w.clients := by
  unfold View.clients
  rw [h.cpre, h.bpre]
  exact h.content.map _

theorem refines_congr {size : E → Nat} {fd : FD Id E} {v w : View Id E}
    (hr : Refines size fd v) (h : ViewEq v w) (hn : v.ids.Nodup) : Refines size fd w where
  num := hr.num.trans h.content.length_eq
  ids := hr.ids.trans h.ids_perm
  sizes := hr.sizes.trans (h.content.map _)
  size1 := fun id => (hr.size1 id).trans (h.clientSize size hn id)
  clients := ⟨hr.clients.1.trans h.clients, hr.clients.2⟩
  get1 := fun id => (hr.get1 id).trans (h.getClient hn id)
  getN := fun req => (hr.getN req).trans (getMany_congr req fun i _ => by rw [h.getClient hn i])

/-- results of a fallible operation are related: both succeed with related values, or both fail
with the same exception. -/
def RelE {α β : Type} (R : α → β → Prop) : Except Err α → Except Err β → Prop
  | .ok a, .ok b => R a b
  | .error e, .error e' => e = e'
  | _, _ => False

theorem view_apply_nodup {v v' : View Id E} (hn : v.ids.Nodup) (op : Op Id E)
    (h : v.apply op = .ok v') : v'.ids.Nodup := by
  cases op with
  | slice s e =>
    simp only [View.apply, Except.ok.injEq] at h; subst h
    show (keys (v.content.filter fun p => inRange s e p.1)).Nodup
    rw [keys_filter]; exact hn.filter _
  | subset ids =>
    simp only [View.apply] at h
    split at h
    · simp only [Except.ok.injEq] at h; subst h
      show (keys (v.content.filter fun p => decide (p.1 ∈ ids))).Nodup
      rw [keys_filter (fun i => decide (i ∈ ids))]; exact hn.filter _
    · cases h
  | preClient f => simp only [View.apply, Except.ok.injEq] at h; subst h; exact hn
  | preBatch g => simp only [View.apply, Except.ok.injEq] at h; subst h; exact hn

theorem view_apply_congr {v w : View Id E} (h : ViewEq v w) (op : Op Id E) :
    RelE ViewEq (v.apply op) (w.apply op) := by
  cases op with
  | slice s e => exact ⟨h.content.filter _, h.cpre, h.bpre⟩
  | subset ids =>
    simp only [View.apply]
    have hc : (ids.all fun i => decide (i ∈ v.ids)) = (ids.all fun i => decide (i ∈ w.ids)) := by
      congr 1; funext i; exact decide_eq_decide.mpr h.ids_perm.mem_iff
    rw [hc]
    split
    · exact ⟨h.content.filter _, h.cpre, h.bpre⟩
    · rfl
  | preClient f => exact ⟨h.content, by simp [h.cpre], h.bpre⟩
  | preBatch g => exact ⟨h.content, h.cpre, by simp [h.bpre]⟩

/-! ## every view operation commutes with the abstraction -/

theorem abs_preClient (f : Id → E → E) : ∀ fd : FD Id E,
    abs (fd.preClient f) = { abs fd with cpre := (abs fd).cpre ++ [f] }
  | .mem _ => rfl
  | .sql _ => rfl
  | .sub b set => by
    show View.mk _ _ _ = _
    rw [abs_preClient f b]; rfl

theorem abs_preBatch (g : E → E) : ∀ fd : FD Id E,
    abs (fd.preBatch g) = { abs fd with bpre := (abs fd).bpre ++ [g] }
  | .mem _ => rfl
  | .sql _ => rfl
  | .sub b set => by
    show View.mk _ _ _ = _
    rw [abs_preBatch g b]; rfl

theorem inv_preClient (f : Id → E → E) : ∀ fd : FD Id E, Inv fd → Inv (fd.preClient f)
  | .mem _, h => h
  | .sql _, h => h
  | .sub b set, h => by
    refine ⟨inv_preClient f b h.1, h.2.1, ?_⟩
    rw [abs_preClient]; exact h.2.2

theorem inv_preBatch (g : E → E) : ∀ fd : FD Id E, Inv fd → Inv (fd.preBatch g)
  | .mem _, h => h
  | .sql _, h => h
  | .sub b set, h => by
    refine ⟨inv_preBatch g b h.1, h.2.1, ?_⟩
    rw [abs_preBatch]; exact h.2.2

/-- the view a slice denotes -/
def View.sliced (v : View Id E) (s e : Option Id) : View Id E :=
  { v with content := v.content.filter fun p => inRange s e p.1 }

theorem abs_slice (ho : StrictTotal Id) (s e : Option Id) : ∀ fd : FD Id E, Inv fd →
    Inv (fd.slice s e) ∧ ViewEq (abs (fd.slice s e)) ((abs fd).sliced s e)
  | .mem m, h => by
    have hperm : ((sliceFilter s e m.ids).filterMap m.entry).Perm
        (m.tab.filter fun p => inRange s e p.1) := by
      rw [sliceFilter_eq]
      refine (((sortIds_perm (keys m.tab)).filter _).filterMap _).trans ?_
      have := filterMap_keys_filter (fun i (x : E) => (i, x)) (inRange s e) m.tab h
      unfold MemFD.entry
      rw [this]
      simp
    refine ⟨?_, hperm, rfl, rfl⟩
    show (keys ((sliceFilter s e m.ids).filterMap m.entry)).Nodup
    rw [(keys_perm hperm).nodup_iff, keys_filter]
    exact h.filter _
  | .sql q, h => by
    refine ⟨h, ?_, rfl, rfl⟩
    show (q.rows.filter fun p => inRange (intersect q.start q.stop s e).1 (intersect q.start q.stop s e).2 p.1).Perm
      ((q.rows.filter fun p => inRange q.start q.stop p.1).filter fun p => inRange s e p.1)
    rw [List.filter_filter]
    have : (fun p : Id × E => inRange (intersect q.start q.stop s e).1 (intersect q.start q.stop s e).2 p.1)
        = fun p => inRange s e p.1 && inRange q.start q.stop p.1 := by
      funext p; rw [C08_intersect ho, Bool.and_comm]
    rw [this]
  | .sub b set, h => by
    obtain ⟨hib, hnd, hsub⟩ := h
    obtain ⟨hi', heq⟩ := abs_slice ho s e b hib
    have hmem : ∀ i, i ∈ sliceFilter s e set ↔ i ∈ set ∧ inRange s e i = true := by
      intro i; rw [sliceFilter_eq, List.mem_filter]
    refine ⟨⟨hi', ?_, ?_⟩, ?_, heq.cpre, heq.bpre⟩
    · rw [sliceFilter_eq]; exact hnd.filter _
    · intro i hi
      rw [hmem] at hi
      rw [heq.ids_perm.mem_iff]
      show i ∈ keys ((abs b).content.filter fun p => inRange s e p.1)
      rw [keys_filter, List.mem_filter]
      exact ⟨hsub i hi.1, hi.2⟩
    · show ((abs (b.slice s e)).content.filter fun p => decide (p.1 ∈ sliceFilter s e set)).Perm
        (((abs b).content.filter fun p => decide (p.1 ∈ set)).filter fun p => inRange s e p.1)
      refine (heq.content.filter _).trans ?_
      show (((abs b).content.filter fun p => inRange s e p.1).filter
        fun p => decide (p.1 ∈ sliceFilter s e set)).Perm _
      rw [List.filter_filter, List.filter_filter]
      rw [List.filter_congr (q := fun a => inRange s e a.1 && decide (a.1 ∈ set))]
      intro p _
      by_cases h1 : p.1 ∈ set <;> by_cases h2 : inRange s e p.1 = true <;> simp [hmem, h1, h2]

/-- **One step.** Every view operation on every implementation state yields a state denoting the
mapping that the same operation yields on the denoted mapping; failures (`ValueError` of a subset with
unknown ids) coincide. -/
theorem apply_commutes (ho : StrictTotal Id) (size : E → Nat) (fd : FD Id E) (h : Inv fd) (op : Op Id E) :
    RelE (fun fd' v' => Inv fd' ∧ ViewEq (abs fd') v') (fd.apply op) ((abs fd).apply op) := by
  cases op with
  | slice s e => exact abs_slice ho s e fd h
  | preClient f => exact ⟨inv_preClient f fd h, by rw [abs_preClient]; exact ViewEq.refl _⟩
  | preBatch g => exact ⟨inv_preBatch g fd h, by rw [abs_preBatch]; exact ViewEq.refl _⟩
  | subset ids =>
    have hr := refines_abs size fd h
    simp only [FD.apply, FD.subset, View.apply]
    have hc : ((dedupIds ids).all fun i => decide (i ∈ fd.clientIds))
        = (ids.all fun i => decide (i ∈ (abs fd).ids)) := by
      rw [Bool.eq_iff_iff, List.all_eq_true, List.all_eq_true]
      simp only [decide_eq_true_eq, mem_dedupIds, hr.ids.mem_iff]
    rw [hc]
    split
    · rename_i hall
      refine ⟨⟨h, nodup_dedupIds _, ?_⟩, ?_, rfl, rfl⟩
      · intro i hi
        rw [mem_dedupIds] at hi
        rw [List.all_eq_true] at hall
        simpa using hall i hi
      · show ((abs fd).content.filter fun p => decide (p.1 ∈ dedupIds ids)).Perm
          ((abs fd).content.filter fun p => decide (p.1 ∈ ids))
        rw [List.filter_congr (q := fun p => decide (p.1 ∈ ids))]
        intro p _; simp [mem_dedupIds]
    · rfl

theorem RelE.ok_left {α β : Type} {R : α → β → Prop} {a : α} {y : Except Err β}
    (h : RelE R (.ok a) y) : ∃ b, y = .ok b ∧ R a b := by
  cases y with
  | ok b => exact ⟨b, rfl, h⟩
  | error e => exact h.elim

theorem RelE.error_left {α β : Type} {R : α → β → Prop} {e : Err} {y : Except Err β}
    (h : RelE R (Except.error e : Except Err α) y) : y = .error e := by
  cases y with
  | ok b => exact h.elim
  | error e' => exact congrArg _ (Eq.symm h)

/-- **Histories.** Starting from a state that denotes `v`, any finite sequence of view operations
leads to a state that denotes the view the same sequence produces from `v` (or both fail alike). -/
theorem applyAll_commutes (ho : StrictTotal Id) (size : E → Nat) (ops : List (Op Id E)) :
    ∀ (fd : FD Id E) (v : View Id E), Inv fd → ViewEq (abs fd) v →
      RelE (fun fd' v' => Inv fd' ∧ ViewEq (abs fd') v') (fd.applyAll ops) (v.applyAll ops) := by
  induction ops with
  | nil => intro fd v h hv; exact ⟨h, hv⟩
  | cons op ops ih =>
    intro fd v h hv
    have h1 := apply_commutes ho size fd h op
    have h2 := view_apply_congr hv op
    simp only [FD.applyAll, View.applyAll]
    cases hfd : fd.apply op with
    | ok fd' =>
      rw [hfd] at h1
      obtain ⟨v1, hv1, hi', he1⟩ := h1.ok_left
      rw [hv1] at h2
      obtain ⟨v2, hv2, he2⟩ := h2.ok_left
      rw [hv2]
      exact ih fd' v2 hi' (he1.trans he2)
    | error e =>
      rw [hfd] at h1
      have hv1 := h1.error_left
      rw [hv1] at h2
      rw [h2.error_left]
      rfl

end

section
variable {Id E : Type} [DecidableEq Id] [LT Id] [DecidableLT Id]

/-! ## property theorems -/

theorem RelE.imp {α β : Type} {R S : α → β → Prop} (h : ∀ a b, R a b → S a b)
    {x : Except Err α} {y : Except Err β} (hr : RelE R x y) : RelE S x y := by
  cases x <;> cases y <;> first | exact h _ _ hr | exact hr

/-- a fresh `InMemoryFederatedData(table)` -/
def memRoot (tab : List (Id × E)) : FD Id E := .mem ⟨tab, [], []⟩
/-- a fresh `SQLiteFederatedData` over the rows `tab` (in insertion order) -/
def sqlRoot (tab : List (Id × E)) : FD Id E := .sql ⟨tab, none, none, [], []⟩
/-- the logical dataset `{client id ↦ examples}` -/
def View.root (tab : List (Id × E)) : View Id E := ⟨tab, [], []⟩

theorem abs_sqlRoot (tab : List (Id × E)) : abs (sqlRoot tab) = View.root tab := by
  show View.mk _ _ _ = _
  congr 1
  apply List.filter_eq_self.mpr
  intro a _; rfl

/-- **Refinement, any implementation state, any history.** From a state satisfying the
representation invariant, every finite sequence of slice / subset / preprocess operations either fails
in the implementation and in the specification with the same exception, or produces a state whose
every observation (count, id listing, sizes, single and bulk lookups with their `KeyError`s,
iteration) is the one of the specified mapping. -/
theorem C08_refine (ho : StrictTotal Id) (size : E → Nat) (fd : FD Id E) (h : Inv fd)
    (ops : List (Op Id E)) :
    RelE (Refines size) (fd.applyAll ops) ((abs fd).applyAll ops) :=
  (applyAll_commutes ho size ops fd (abs fd) h (ViewEq.refl _)).imp fun fd' _ hh =>
    refines_congr (refines_abs size fd' hh.1) hh.2 (abs_ids_nodup fd' hh.1)

/-- the in-memory implementation refines the logical dataset under every history -/
theorem C08_refine_mem (ho : StrictTotal Id) (size : E → Nat) (tab : List (Id × E))
    (hn : (keys tab).Nodup) (ops : List (Op Id E)) :
    RelE (Refines size) ((memRoot tab).applyAll ops) ((View.root tab).applyAll ops) :=
  C08_refine ho size (memRoot tab) hn ops

/-- the SQLite implementation refines the logical dataset under every history -/
theorem C08_refine_sql (ho : StrictTotal Id) (size : E → Nat) (tab : List (Id × E))
    (hn : (keys tab).Nodup) (ops : List (Op Id E)) :
    RelE (Refines size) ((sqlRoot tab).applyAll ops) ((View.root tab).applyAll ops) := by
  have := C08_refine ho size (sqlRoot tab) hn ops
  rwa [abs_sqlRoot] at this

/-- a subset wrapper over *any* base state (in-memory, SQLite, another wrapper, with any pending
range and preprocessors) refines "the base's mapping restricted to the set" under every history;
constructing it fails with `ValueError` exactly when some id is not in the base. -/
theorem C08_refine_sub (ho : StrictTotal Id) (size : E → Nat) (base : FD Id E) (hb : Inv base)
    (sel : List Id) (ops : List (Op Id E)) :
    RelE (Refines size) (base.applyAll (.subset sel :: ops)) ((abs base).applyAll (.subset sel :: ops)) ∧
    ((∀ i ∈ sel, i ∈ (abs base).ids) →
      (abs base).apply (.subset sel) =
        .ok { abs base with content := (abs base).content.filter fun p => decide (p.1 ∈ sel) }) ∧
    ((¬ ∀ i ∈ sel, i ∈ (abs base).ids) → base.apply (.subset sel) = .error .value) := by
  refine ⟨C08_refine ho size base hb _, ?_, ?_⟩
  · intro hall
    simp only [View.apply]
    rw [if_pos]
    rw [List.all_eq_true]; intro i hi; simpa using hall i hi
  · intro hnot
    have h1 := apply_commutes ho size base hb (.subset sel)
    have : (abs base).apply (.subset sel) = .error .value := by
      simp only [View.apply]
      rw [if_neg]
      rw [List.all_eq_true]; intro hall; apply hnot; intro i hi; simpa using hall i hi
    rw [this] at h1
    cases hx : base.apply (.subset sel) with
    | ok a => rw [hx] at h1; exact h1.elim
    | error e => rw [hx] at h1; exact congrArg _ h1

/-- observational equality of two implementation states -/
structure ObsEq (size : E → Nat) (a b : FD Id E) : Prop where
  num : a.numClients = b.numClients
  ids : a.clientIds.Perm b.clientIds
  sizes : (a.clientSizes size).Perm (b.clientSizes size)
  size1 : ∀ id, a.clientSize size id = b.clientSize size id
  clients : a.clients.1.Perm b.clients.1 ∧ a.clients.2 = false ∧ b.clients.2 = false
  get1 : ∀ id, a.getClient id = b.getClient id
  getN : ∀ req, a.getClients req = b.getClients req

theorem obsEq_of_refines {size : E → Nat} {a b : FD Id E} {v : View Id E}
    (ha : Refines size a v) (hb : Refines size b v) : ObsEq size a b where
  num := ha.num.trans hb.num.symm
  ids := ha.ids.trans hb.ids.symm
  sizes := ha.sizes.trans hb.sizes.symm
  size1 := fun id => (ha.size1 id).trans (hb.size1 id).symm
  clients := ⟨ha.clients.1.trans hb.clients.1.symm, ha.clients.2, hb.clients.2⟩
  get1 := fun id => (ha.get1 id).trans (hb.get1 id).symm
  getN := fun req => (ha.getN req).trans (hb.getN req).symm

/-- **All implementations agree.** Two implementation states of *any* kind (in-memory, SQLite,
subset-wrapped, already sliced / preprocessed) that denote the same mapping keep agreeing on every
observation after every common finite history of slices, subsets of slices, slices of subsets and
preprocessor appends — and a history fails in one iff it fails in the other, with the same exception. -/
theorem C08_all_equal (ho : StrictTotal Id) (size : E → Nat) (fd₁ fd₂ : FD Id E)
    (h₁ : Inv fd₁) (h₂ : Inv fd₂) (heq : ViewEq (abs fd₁) (abs fd₂)) (ops : List (Op Id E)) :
    RelE (ObsEq size) (fd₁.applyAll ops) (fd₂.applyAll ops) := by
  have r1 := applyAll_commutes ho size ops fd₁ (abs fd₁) h₁ (ViewEq.refl _)
  have r2 := applyAll_commutes ho size ops fd₂ (abs fd₁) h₂ heq.symm
  cases hv : (abs fd₁).applyAll ops with
  | ok v =>
    rw [hv] at r1 r2
    cases h1 : fd₁.applyAll ops with
    | error e => rw [h1] at r1; exact r1.elim
    | ok a =>
      cases h2 : fd₂.applyAll ops with
      | error e => rw [h2] at r2; exact r2.elim
      | ok b =>
        rw [h1] at r1; rw [h2] at r2
        exact obsEq_of_refines
          (refines_congr (refines_abs size a r1.1) r1.2 (abs_ids_nodup a r1.1))
          (refines_congr (refines_abs size b r2.1) r2.2 (abs_ids_nodup b r2.1))
  | error e =>
    rw [hv] at r1 r2
    cases h1 : fd₁.applyAll ops with
    | ok a => rw [h1] at r1; exact r1.elim
    | error e1 =>
      cases h2 : fd₂.applyAll ops with
      | ok b => rw [h2] at r2; exact r2.elim
      | error e2 =>
        rw [h1] at r1; rw [h2] at r2
        exact (show e1 = e from r1).trans (show e2 = e from r2).symm

/-- The three packaged forms of one logical dataset — in-memory over `tab`, SQLite over the same
rows inserted in any order `tab'`, and subset wrappers (over in-memory or SQLite) of a larger table
`big` restricted to the ids of `tab` — are observationally equal after every history. -/
theorem C08_all_equal_roots (ho : StrictTotal Id) (size : E → Nat) (tab tab' big big' : List (Id × E))
    (sel : List Id) (hn : (keys tab).Nodup) (hp : tab.Perm tab')
    (hbig : (keys big).Nodup) (hbp : big.Perm big') (hsel : sel.Nodup) (hsub : ∀ i ∈ sel, i ∈ keys big)
    (hrestr : (big.filter fun p => decide (p.1 ∈ sel)).Perm tab) (ops : List (Op Id E)) :
    RelE (ObsEq size) ((memRoot tab).applyAll ops) ((sqlRoot tab').applyAll ops) ∧
    RelE (ObsEq size) ((memRoot tab).applyAll ops) ((FD.sub (memRoot big) sel).applyAll ops) ∧
    RelE (ObsEq size) ((memRoot tab).applyAll ops) ((FD.sub (sqlRoot big') sel).applyAll ops) := by
  have hn' : (keys tab').Nodup := (keys_perm hp).nodup_iff.mp hn
  have hbig' : (keys big').Nodup := (keys_perm hbp).nodup_iff.mp hbig
  have hsub' : ∀ i ∈ sel, i ∈ (abs (sqlRoot big')).ids := by
    intro i hi; rw [abs_sqlRoot]; exact (keys_perm hbp).mem_iff.mp (hsub i hi)
  have i1 : Inv (memRoot tab) := hn
  have i2 : Inv (sqlRoot tab') := hn'
  have i3 : Inv (FD.sub (memRoot big) sel) := ⟨hbig, hsel, hsub⟩
  have i4 : Inv (FD.sub (sqlRoot big') sel) := ⟨hbig', hsel, hsub'⟩
  refine ⟨C08_all_equal ho size _ _ i1 i2 ?_ ops, C08_all_equal ho size _ _ i1 i3 ?_ ops,
    C08_all_equal ho size _ _ i1 i4 ?_ ops⟩
  · rw [abs_sqlRoot]; exact ⟨hp, rfl, rfl⟩
  · exact ⟨hrestr.symm, rfl, rfl⟩
  · refine ⟨?_, rfl, rfl⟩
    show tab.Perm ((abs (sqlRoot big')).content.filter fun p => decide (p.1 ∈ sel))
    rw [abs_sqlRoot]
    exact hrestr.symm.trans (hbp.filter _)

/-! ### which ids a view has, what lookups return, in which order preprocessors run -/

/-- the condition an operation puts on a client id -/
def Op.admits : Op Id E → Id → Prop
  | .slice s e, i => inRange s e i = true
  | .subset S, i => i ∈ S
  | .preClient _, _ => True
  | .preBatch _, _ => True

def Op.clientFn? : Op Id E → Option (Id → E → E)
  | .preClient f => some f
  | _ => none

def Op.batchFn? : Op Id E → Option (E → E)
  | .preBatch g => some g
  | _ => none

theorem view_apply_exact {v v' : View Id E} (op : Op Id E) (h : v.apply op = .ok v') :
    (∀ i, i ∈ v'.ids ↔ i ∈ v.ids ∧ op.admits i) ∧
    (∀ i, i ∈ v'.ids → lookup i v'.content = lookup i v.content) ∧
    v'.cpre = v.cpre ++ op.clientFn?.toList ∧ v'.bpre = v.bpre ++ op.batchFn?.toList := by
  cases op with
  | slice s e =>
    simp only [View.apply, Except.ok.injEq] at h; subst h
    have hk : ∀ i, i ∈ keys (v.content.filter fun p => inRange s e p.1) ↔ i ∈ v.ids ∧ inRange s e i = true := by
      intro i; rw [keys_filter, List.mem_filter]; rfl
    refine ⟨hk, ?_, by simp [Op.clientFn?], by simp [Op.batchFn?]⟩
    intro i hi
    show lookup i (v.content.filter fun p => inRange s e p.1) = _
    rw [lookup_filter, if_pos ((hk i).mp hi).2]
  | subset S =>
    simp only [View.apply] at h
    split at h
    · simp only [Except.ok.injEq] at h; subst h
      have hk : ∀ i, i ∈ keys (v.content.filter fun p => decide (p.1 ∈ S)) ↔ i ∈ v.ids ∧ i ∈ S := by
        intro i; rw [keys_filter (fun i => decide (i ∈ S)), List.mem_filter]; simp [View.ids, keys]
      refine ⟨hk, ?_, by simp [Op.clientFn?], by simp [Op.batchFn?]⟩
      intro i hi
      show lookup i (v.content.filter fun p => decide (p.1 ∈ S)) = _
      rw [lookup_filter (fun i => decide (i ∈ S)), if_pos (by simpa using ((hk i).mp hi).2)]
    · cases h
  | preClient f =>
    simp only [View.apply, Except.ok.injEq] at h; subst h
    exact ⟨fun i => by simp [Op.admits, View.ids], fun _ _ => rfl, rfl, by simp [Op.batchFn?]⟩
  | preBatch g =>
    simp only [View.apply, Except.ok.injEq] at h; subst h
    exact ⟨fun i => by simp [Op.admits, View.ids], fun _ _ => rfl, by simp [Op.clientFn?], rfl⟩

theorem view_applyAll_exact (ops : List (Op Id E)) : ∀ {v v' : View Id E}, v.applyAll ops = .ok v' →
    (∀ i, i ∈ v'.ids ↔ i ∈ v.ids ∧ ∀ op ∈ ops, op.admits i) ∧
    (∀ i, i ∈ v'.ids → lookup i v'.content = lookup i v.content) ∧
    v'.cpre = v.cpre ++ ops.filterMap Op.clientFn? ∧ v'.bpre = v.bpre ++ ops.filterMap Op.batchFn? := by
  induction ops with
  | nil =>
    intro v v' h
    simp only [View.applyAll, Except.ok.injEq] at h; subst h
    simp
  | cons op ops ih =>
    intro v v' h
    simp only [View.applyAll] at h
    cases h1 : v.apply op with
    | error e => rw [h1] at h; cases h
    | ok v1 =>
      rw [h1] at h
      obtain ⟨a1, a2, a3, a4⟩ := view_apply_exact op h1
      obtain ⟨b1, b2, b3, b4⟩ := ih h
      refine ⟨?_, ?_, ?_, ?_⟩
      · intro i
        rw [b1, a1]
        simp only [List.mem_cons, forall_eq_or_imp]
        tauto
      · intro i hi
        rw [b2 i hi, a2 i ((b1 i).mp hi).1]
      · rw [b3, a3, List.filterMap_cons]
        cases op.clientFn? <;> simp
      · rw [b4, a4, List.filterMap_cons]
        cases op.batchFn? <;> simp

/-- **Exact ids and lookups.** After any history `ops` from any implementation state `fd₀`, the ids of
the resulting view are exactly the ids of `fd₀`'s mapping that lie inside every requested range and every
requested subset (possibly none); a lookup (single get, size) of any other id raises `KeyError`; a
lookup of an id of the view returns the stored entry of the original mapping, preprocessed. -/
theorem C08_ids_exact (ho : StrictTotal Id) (size : E → Nat) (fd₀ fd : FD Id E) (h₀ : Inv fd₀)
    (ops : List (Op Id E)) (h : fd₀.applyAll ops = .ok fd) :
    (∀ i, i ∈ fd.clientIds ↔ i ∈ (abs fd₀).ids ∧ ∀ op ∈ ops, op.admits i) ∧
    (∀ i, i ∉ fd.clientIds → fd.getClient i = .error .key ∧ fd.clientSize size i = .error .key) ∧
    (∀ i, i ∈ fd.clientIds → ∃ raw, lookup i (abs fd₀).content = some raw ∧
      fd.clientSize size i = .ok (size raw) ∧
      fd.getClient i = .ok (mkDataset ((abs fd₀).cpre ++ ops.filterMap Op.clientFn?)
                                      ((abs fd₀).bpre ++ ops.filterMap Op.batchFn?) i raw)) := by
  have hr := C08_refine ho size fd₀ h₀ ops
  rw [h] at hr
  obtain ⟨v, hv, hr⟩ := hr.ok_left
  obtain ⟨e1, e2, e3, e4⟩ := view_applyAll_exact ops hv
  have hmem : ∀ i, i ∈ fd.clientIds ↔ i ∈ v.ids := fun i => hr.ids.mem_iff
  refine ⟨fun i => (hmem i).trans (e1 i), ?_, ?_⟩
  · intro i hi
    have : lookup i v.content = none := (lookup_eq_none_iff i _).mpr fun hm => hi ((hmem i).mpr hm)
    rw [hr.get1, hr.size1]
    simp [View.getClient, View.clientSize, this]
  · intro i hi
    have hi' := (hmem i).mp hi
    have hs : (lookup i v.content).isSome := (lookup_isSome_iff i _).mpr hi'
    obtain ⟨raw, hraw⟩ := Option.isSome_iff_exists.mp hs
    refine ⟨raw, (e2 i hi') ▸ hraw, ?_, ?_⟩
    · rw [hr.size1]; simp [View.clientSize, hraw]
    · rw [hr.get1]; simp [View.getClient, hraw, e3, e4]

/-- **Preprocessor order.** The examples a batch of a client dataset shows are the stored examples
passed first through all client-level functions in registration order, then through all batch-level
functions in registration order (wherever in the history slices and subsets were interleaved);
appending a function means it runs last, on the output of the earlier ones. -/
theorem C08_pre_order (ho : StrictTotal Id) (size : E → Nat) (tab : List (Id × E))
    (hn : (keys tab).Nodup) (root : FD Id E) (hroot : root = memRoot tab ∨ root = sqlRoot tab)
    (fd : FD Id E) (ops : List (Op Id E)) (h : root.applyAll ops = .ok fd) (i : Id)
    (hi : i ∈ fd.clientIds) :
    (∃ raw d, lookup i tab = some raw ∧ fd.getClient i = .ok d ∧
      d.allExamples = applyBatch (ops.filterMap Op.batchFn?) (applyClient (ops.filterMap Op.clientFn?) i raw)) ∧
    (∀ (fs : List (Id → E → E)) f (e : E), applyClient (fs ++ [f]) i e = f i (applyClient fs i e)) ∧
    (∀ (gs : List (E → E)) g (e : E), applyBatch (gs ++ [g]) e = g (applyBatch gs e)) := by
  refine ⟨?_, fun fs f e => by simp [applyClient], fun gs g e => by simp [applyBatch]⟩
  have hinv : Inv root := by rcases hroot with rfl | rfl <;> exact hn
  have habs : abs root = View.root tab := by
    rcases hroot with rfl | rfl
    · rfl
    · exact abs_sqlRoot tab
  obtain ⟨_, _, h3⟩ := C08_ids_exact ho size root fd hinv ops h
  obtain ⟨raw, hraw, _, hget⟩ := h3 i hi
  rw [habs] at hraw hget
  exact ⟨raw, _, hraw, hget, by simp [CDS.allExamples, mkDataset, View.root]⟩

theorem applyAll_preClients_mem (tab : List (Id × E)) (cs : List (Id → E → E)) :
    ∀ (c0 : List (Id → E → E)) (b0 : List (E → E)),
      (FD.mem ⟨tab, c0, b0⟩).applyAll (cs.map Op.preClient) = .ok (.mem ⟨tab, c0 ++ cs, b0⟩) := by
  induction cs with
  | nil => intro c0 b0; simp [FD.applyAll]
  | cons f fs ih => intro c0 b0; simp [FD.applyAll, FD.apply, FD.preClient, ih]

theorem applyAll_preBatches_mem (tab : List (Id × E)) (bs : List (E → E)) :
    ∀ (c0 : List (Id → E → E)) (b0 : List (E → E)),
      (FD.mem ⟨tab, c0, b0⟩).applyAll (bs.map Op.preBatch) = .ok (.mem ⟨tab, c0, b0 ++ bs⟩) := by
  induction bs with
  | nil => intro c0 b0; simp [FD.applyAll]
  | cons g gs ih => intro c0 b0; simp [FD.applyAll, FD.apply, FD.preBatch, ih]

theorem applyAll_preClients_sql (tab : List (Id × E)) (s e : Option Id) (cs : List (Id → E → E)) :
    ∀ (c0 : List (Id → E → E)) (b0 : List (E → E)),
      (FD.sql ⟨tab, s, e, c0, b0⟩).applyAll (cs.map Op.preClient) = .ok (.sql ⟨tab, s, e, c0 ++ cs, b0⟩) := by
  induction cs with
  | nil => intro c0 b0; simp [FD.applyAll]
  | cons f fs ih => intro c0 b0; simp [FD.applyAll, FD.apply, FD.preClient, ih]

theorem applyAll_preBatches_sql (tab : List (Id × E)) (s e : Option Id) (bs : List (E → E)) :
    ∀ (c0 : List (Id → E → E)) (b0 : List (E → E)),
      (FD.sql ⟨tab, s, e, c0, b0⟩).applyAll (bs.map Op.preBatch) = .ok (.sql ⟨tab, s, e, c0, b0 ++ bs⟩) := by
  induction bs with
  | nil => intro c0 b0; simp [FD.applyAll]
  | cons g gs ih => intro c0 b0; simp [FD.applyAll, FD.apply, FD.preBatch, ih]

theorem applyAll_append (fd : FD Id E) (a b : List (Op Id E)) :
    fd.applyAll (a ++ b) = match fd.applyAll a with
      | .ok fd' => fd'.applyAll b
      | .error e => .error e := by
  induction a generalizing fd with
  | nil => rfl
  | cons op ops ih =>
    simp only [List.cons_append, FD.applyAll]
    cases fd.apply op with
    | ok fd' => exact ih fd'
    | error e => rfl

/-- **Constructor-level chains.** A dataset *constructed* with a client-level chain `cs` and a batch-level
chain `bs` is the fresh dataset on which the functions of `cs`, then of `bs`, were registered one by one.
Hence (with `C08_pre_order`, `C08_refine`, `C08_all_equal`) the constructor's functions run first, in their
order, and every function registered later through `preprocess_client` / `preprocess_batch` runs after them,
in every implementation and on every access path. -/
theorem C08_constructor_chain (tab : List (Id × E)) (cs : List (Id → E → E)) (bs : List (E → E))
    (ops : List (Op Id E)) :
    (memRoot tab).applyAll (cs.map Op.preClient ++ bs.map Op.preBatch ++ ops)
      = (FD.mem ⟨tab, cs, bs⟩).applyAll ops ∧
    (sqlRoot tab).applyAll (cs.map Op.preClient ++ bs.map Op.preBatch ++ ops)
      = (FD.sql ⟨tab, none, none, cs, bs⟩).applyAll ops := by
  constructor
  · rw [applyAll_append, applyAll_append]
    have h1 := applyAll_preClients_mem tab cs [] []
    simp only [List.nil_append] at h1
    rw [show memRoot tab = FD.mem ⟨tab, [], []⟩ from rfl, h1]
    simp only
    have h2 := applyAll_preBatches_mem tab bs cs []
    simp only [List.nil_append] at h2
    rw [h2]
  · rw [applyAll_append, applyAll_append]
    have h1 := applyAll_preClients_sql tab none none cs [] []
    simp only [List.nil_append] at h1
    rw [show sqlRoot tab = FD.sql ⟨tab, none, none, [], []⟩ from rfl, h1]
    simp only
    have h2 := applyAll_preBatches_sql tab none none bs cs []
    simp only [List.nil_append] at h2
    rw [h2]

/-- the shared store an implementation state reads from (dict / SQLite table) -/
def FD.store : FD Id E → List (Id × E)
  | .mem m => m.tab
  | .sql q => q.rows
  | .sub b _ => b.store

def FD.sqlBacked : FD Id E → Prop
  | .mem _ => False
  | .sql _ => True
  | .sub b _ => b.sqlBacked

/-- **Deriving a view never changes its parent.** View operations are functions of the parent state
(the parent value is not consumed or altered); moreover no operation ever writes to the shared store:
preprocessor appends and subsets keep the store of every state, and on SQLite-backed states (where
parent and child share one table) so does slicing. -/
theorem C08_parent_unchanged (fd fd' : FD Id E) (op : Op Id E) (h : fd.apply op = .ok fd') :
    (fd.sqlBacked → fd'.store = fd.store ∧ fd'.sqlBacked) ∧
    ((∀ s e, op ≠ .slice s e) → fd'.store = fd.store) := by
  have hpc : ∀ (f : Id → E → E) (x : FD Id E), (x.preClient f).store = x.store ∧
      ((x.preClient f).sqlBacked ↔ x.sqlBacked) := by
    intro f x; induction x with
    | mem m => exact ⟨rfl, Iff.rfl⟩
    | sql q => exact ⟨rfl, Iff.rfl⟩
    | sub b set ih => exact ih
  have hpb : ∀ (g : E → E) (x : FD Id E), (x.preBatch g).store = x.store ∧
      ((x.preBatch g).sqlBacked ↔ x.sqlBacked) := by
    intro g x; induction x with
    | mem m => exact ⟨rfl, Iff.rfl⟩
    | sql q => exact ⟨rfl, Iff.rfl⟩
    | sub b set ih => exact ih
  have hsl : ∀ (s e : Option Id) (x : FD Id E), x.sqlBacked →
      (x.slice s e).store = x.store ∧ (x.slice s e).sqlBacked := by
    intro s e x; induction x with
    | mem m => exact fun hx => hx.elim
    | sql q => exact fun _ => ⟨rfl, trivial⟩
    | sub b set ih => exact ih
  cases op with
  | slice s e =>
    simp only [FD.apply, Except.ok.injEq] at h; subst h
    exact ⟨hsl s e fd, fun hne => absurd rfl (hne s e)⟩
  | subset ids =>
    simp only [FD.apply, FD.subset] at h
    split at h
    · simp only [Except.ok.injEq] at h; subst h
      exact ⟨fun hs => ⟨rfl, hs⟩, fun _ => rfl⟩
    · cases h
  | preClient f =>
    simp only [FD.apply, Except.ok.injEq] at h; subst h
    exact ⟨fun hs => ⟨(hpc f fd).1, (hpc f fd).2.mpr hs⟩, fun _ => (hpc f fd).1⟩
  | preBatch g =>
    simp only [FD.apply, Except.ok.injEq] at h; subst h
    exact ⟨fun hs => ⟨(hpb g fd).1, (hpb g fd).2.mpr hs⟩, fun _ => (hpb g fd).1⟩

end

/-! ### shuffled iteration -/

section
variable {α : Type}

theorem getD_cons_set_perm (l : List α) (j : Nat) (a : α) : (l.getD j a :: l.set j a).Perm (a :: l) := by
  induction l generalizing j with
  | nil => simp
  | cons x xs ih =>
    cases j with
    | zero => simp only [List.getD_cons_zero, List.set_cons_zero]; exact List.Perm.swap a x xs
    | succ j =>
      simp only [List.getD_cons_succ, List.set_cons_succ]
      exact (List.Perm.swap x (xs.getD j a) (xs.set j a)).trans (((ih j).cons x).trans (List.Perm.swap a x xs))

theorem swapStep_perm (B : Nat) (buf : List α) (swap : Nat) (i : α) :
    ((swapStep B buf swap i).1 :: (swapStep B buf swap i).2).Perm (i :: buf) := by
  cases buf with
  | nil => exact List.Perm.refl _
  | cons r rest =>
    simp only [swapStep]
    split
    · refine (List.Perm.trans ?_ (List.Perm.swap i r rest))
      refine List.Perm.cons r ?_
      cases swap with
      | zero => simp
      | succ j =>
        simp only [List.set_cons_succ, List.set_cons_zero, List.getD_cons_succ]
        exact getD_cons_set_perm rest j i
    · exact List.Perm.swap i r rest

theorem bshufLoop_perm (B : Nat) (rest : List α) : ∀ (buf : List α) (swaps : List Nat),
    (bshufLoop B buf swaps rest).Perm (buf ++ rest) := by
  induction rest with
  | nil => intro buf swaps; simp [bshufLoop]
  | cons i rest ih =>
    intro buf swaps
    simp only [bshufLoop]
    refine ((ih _ _).cons _).trans ?_
    rw [← List.cons_append]
    exact ((swapStep_perm B buf (swaps.headD 0) i).append_right rest).trans
      (List.perm_middle.symm)

/-- `buffered_shuffle` emits every item of its source exactly once, for every buffer size and all
random draws, provided `rng.shuffle` permutes the initial buffer. -/
theorem bufferedShuffle_perm (B : Nat) (initPerm : List α → List α) (hperm : ∀ l, (initPerm l).Perm l)
    (swaps : List Nat) (src : List α) : (bufferedShuffle B initPerm swaps src).Perm src := by
  unfold bufferedShuffle
  refine (bshufLoop_perm B _ _ _).trans ?_
  refine ((hperm _).append_right _).trans ?_
  rw [List.take_append_drop]

end

/-- **Shuffled pass.** One pass of `shuffled_clients(B, seed)` of any reachable implementation state
visits every client of the view exactly once (same ids, same datasets as `clients()`), for every
buffer size and every outcome of the random draws. -/
theorem C08_shuffled_pass {Id E : Type} [DecidableEq Id] [LT Id] [DecidableLT Id]
    (size : E → Nat) (fd : FD Id E) (h : Inv fd) (B : Nat)
    (initPerm : List (Id × CDS E) → List (Id × CDS E)) (hperm : ∀ l, (initPerm l).Perm l)
    (swaps : List Nat) :
    (fd.shuffledPass B initPerm swaps).Perm fd.clients.1 ∧
    (fd.shuffledPass B initPerm swaps).Perm (abs fd).clients ∧
    ((fd.shuffledPass B initPerm swaps).map (·.1)).Perm (abs fd).ids ∧
    ((fd.shuffledPass B initPerm swaps).map (·.1)).Nodup := by
  have h1 : (fd.shuffledPass B initPerm swaps).Perm fd.clients.1 := bufferedShuffle_perm B initPerm hperm swaps _
  have h2 := h1.trans (refines_abs size fd h).clients.1
  have h3 : ((fd.shuffledPass B initPerm swaps).map (·.1)).Perm (abs fd).ids := by
    refine (h2.map _).trans ?_
    simp [View.clients, View.ids, List.map_map, Function.comp_def]
  exact ⟨h1, h2, h3, h3.nodup_iff.mpr (abs_ids_nodup fd h)⟩

/-- byte strings: `b ++ [0]` is the immediate successor of `b` (no id lies strictly between), which is
why slicing at `b'a\x00'` separates `b'a'` from every longer id. -/
theorem bytes_succ (b c : List Nat) (h : b < c) : ¬ c < b ++ [0] := by
  induction b generalizing c with
  | nil =>
    cases c with
    | nil => exact absurd h (lt_irrefl _)
    | cons x xs =>
      intro h'
      rcases List.cons_lt_cons_iff.mp h' with h0 | ⟨_, h1⟩
      · exact absurd h0 (Nat.not_lt_zero x)
      · exact absurd h1 (by simp)
  | cons y ys ih =>
    cases c with
    | nil => simp at h
    | cons x xs =>
      intro h'
      rw [List.cons_append] at h'
      rcases List.cons_lt_cons_iff.mp h with h0 | ⟨e, h1⟩
      · rcases List.cons_lt_cons_iff.mp h' with h2 | ⟨e2, _⟩
        · exact absurd h0 (Nat.lt_asymm h2)
        · subst e2; exact absurd h0 (Nat.lt_irrefl _)
      · subst e
        rcases List.cons_lt_cons_iff.mp h' with h2 | ⟨_, h3⟩
        · exact absurd h2 (Nat.lt_irrefl _)
        · exact ih xs h1 h3

/-! ## non-vacuity: the hypotheses are met by concrete non-trivial instances -/

/-- `{b'b': [3], b'a': [1, 2], b'a\x00': []}` in this insertion order -/
def tabEx : List (List Nat × List Nat) := [([98], [3]), ([97], [1, 2]), ([97, 0], [])]
def bigEx : List (List Nat × List Nat) := ([99], [7]) :: tabEx

example : (keys tabEx).Nodup ∧ (keys bigEx).Nodup := by decide
example : StrictTotal (List Nat) := bytes_strictTotal
-- slicing at `b'a\x00'` keeps `b'a\x00'` and `b'b'`, not `b'a'`; the two implementations list in different orders
example : ((memRoot tabEx).slice (some [97, 0]) none).clientIds = [[97, 0], [98]] := by decide
example : ((sqlRoot tabEx).slice (some [97, 0]) none).clientIds = [[98], [97, 0]] := by decide
-- an empty view (the input on which the unrepaired in-memory constructor raises IndexError)
example : ((memRoot tabEx).slice (some [99]) none).numClients = 0 ∧
    ((memRoot tabEx).slice (some [99]) none).clients.1.length = 0 ∧
    ((memRoot tabEx).slice (some [99]) none).clients.2 = false := by decide
-- start > stop is empty; nested slices intersect
example : ((sqlRoot tabEx).slice (some [98]) (some [97])).numClients = 0 := by decide
example : (((sqlRoot tabEx).slice (some [97]) none).slice none (some [98])).clientIds = [[97], [97, 0]] := by decide
-- bulk get: lazily produced prefix, then KeyError
example : (((memRoot tabEx).getClients [[98], [100], [97]]).1.map (·.1),
    ((memRoot tabEx).getClients [[98], [100], [97]]).2) = ([[98]], true) := by decide
-- subset of a slice, validated
example : (match ((sqlRoot tabEx).slice (some [97, 0]) none).subset [[97]] with
    | .error e => decide (e = .value) | .ok _ => false) = true := by decide
example : (match (FD.sub (memRoot bigEx) [[98], [97], [97, 0]]).applyAll
      [.slice (some [97, 0]) none, .preClient (fun _ r => r.map (· + 10)), .preBatch (fun r => r.map (· * 2))] with
    | .ok fd => decide ((fd.getClient [98]).toOption.map CDS.allExamples = some [26] ∧ fd.numClients = 2)
    | .error _ => false) = true := by decide
-- the hypotheses of `C08_all_equal_roots` hold for this table, a permuted insertion order and a larger base
example := C08_all_equal_roots bytes_strictTotal List.length tabEx tabEx.reverse bigEx bigEx.reverse
  [[98], [97], [97, 0]] (by decide) (by decide) (by decide) (by decide) (by decide) (by decide) (by decide)
-- a dataset constructed with the chain [+10] and extended by (*2): registration order (x+10)*2, not x*2+10
example : (match (FD.mem (Id := List Nat) ⟨tabEx, [fun _ r => r.map (· + 10)], []⟩).applyAll
      [.preClient (fun _ r => r.map (· * 2))] with
    | .ok fd => decide ((fd.getClient [98]).toOption.map CDS.allExamples = some [26])
    | .error _ => false) = true := by decide
-- buffered shuffle: one pass is a permutation
example : bufferedShuffle 3 (fun l => l.reverse) [0, 1, 2, 1] [0, 1, 2, 3, 4, 5, 6] = [2, 3, 1, 5, 4, 6, 0] := by
  decide


/-! ## the two independently written models of `buffered_shuffle` agree

`Model/FedData.lean` (written for C08) and `Model/Centralised.lean` (written for C15) each contain a
model of `client_datasets.buffered_shuffle`.  They were written independently from the same source;
the theorem below shows that they compute the same function whenever the buffer is non-empty
(`buffer_size ≥ 1` and a non-empty source) — the only inputs on which they differ are those on which
the real code raises `IndexError`. So `C15_bshuffle_perm` and `C08_shuffled_pass` speak about the same
function. -/

theorem swapStep_eq_swap0 {α} (B : Nat) (r i : α) (tl : List α) (s : Nat) :
    swapStep B (r :: tl) s i =
      (r, if s < B - 1 then Centralised.swap0 (i :: tl) s else i :: tl) := by
  unfold swapStep
  simp only
  by_cases h : s < B - 1
  · simp only [h, if_true]
    congr 1
    cases s with
    | zero => simp [Centralised.swap0]
    | succ s =>
      simp only [Centralised.swap0, List.set_cons_succ, List.set_cons_zero, List.getD_cons_succ]
      cases hx : tl[s]? with
      | none =>
        have hlen : tl.length ≤ s := by simpa using hx
        simp [List.getD_eq_getElem?_getD, hx, List.set_eq_of_length_le hlen]
      | some x => simp [List.getD_eq_getElem?_getD, hx]
  · simp [h]

theorem bshufLoop_models_agree {α} (B : Nat) (rest : List α) :
    ∀ (buf : List α) (swaps : List Nat), buf ≠ [] →
      bshufLoop B buf swaps rest = Centralised.bshufLoop B buf rest swaps := by
  induction rest with
  | nil => intro buf swaps _; simp [bshufLoop, Centralised.bshufLoop]
  | cons i rest ih =>
    intro buf swaps hne
    cases buf with
    | nil => exact absurd rfl hne
    | cons r tl =>
      simp only [bshufLoop, Centralised.bshufLoop]
      rw [swapStep_eq_swap0]
      simp only
      congr 1
      apply ih
      by_cases h : swaps.headD 0 < B - 1
      · simp only [h, if_true]
        cases hs : swaps.headD 0 with
        | zero => simp [Centralised.swap0]
        | succ s =>
          simp only [Centralised.swap0]
          cases tl[s]? <;> simp
      · rw [if_neg h]; simp

/-- **Model reconciliation.** The C08 and the C15 model of `buffered_shuffle` are the same function on
every input on which the real code does not raise (non-empty initial buffer or empty remainder). -/
theorem C08_bshuffle_models_agree {α} (B : Nat) (shuf : List α → List α) (swaps : List Nat)
    (src : List α) (h : shuf (src.take B) ≠ [] ∨ src.drop B = []) :
    bufferedShuffle B shuf swaps src = Centralised.bufferedShuffle B shuf swaps src := by
  unfold bufferedShuffle Centralised.bufferedShuffle
  rcases h with h | h
  · exact bshufLoop_models_agree B _ _ _ h
  · rw [h]; simp [bshufLoop, Centralised.bshufLoop]

end FedjaxVerif.FedData
