import FedjaxVerif.Model.FedAvg
import FedjaxVerif.Model.ForEach
import FedjaxVerif.Props.C02
import FedjaxVerif.Props.C07
import Mathlib.Algebra.Order.Field.Rat
import Mathlib.Tactic.Ring
import Mathlib.Tactic.Linarith
import Mathlib.Tactic.FieldSimp
import Mathlib.Data.List.Nodup

/-!
# C01 — a federated-averaging round equals its mathematical definition

Theorems about `Model/FedAvg.lean`, for every gradient function, every client and server
optimizer, every batch stream and every key.  Shape hypotheses (`hlen`) say that client deltas
have the dimension of the server parameters; they hold for the real code because JAX rejects
mismatching shapes.
-/

namespace FedjaxVerif.FedAvg

/-! ## vector lemmas -/

theorem vadd_comm (a b : P) : vadd a b = vadd b a := by
  unfold vadd
  induction a generalizing b with
  | nil => cases b <;> rfl
  | cons x a ih => cases b with
    | nil => rfl
    | cons y b => simp [List.zipWith_cons_cons, ih b, Rat.add_comm]

theorem vadd_assoc (a b c : P) : vadd (vadd a b) c = vadd a (vadd b c) := by
  unfold vadd
  induction a generalizing b c with
  | nil => simp
  | cons x a ih => cases b with
    | nil => simp
    | cons y b => cases c with
      | nil => simp
      | cons z c => simp [List.zipWith_cons_cons, ih b c, Rat.add_assoc]

theorem vadd_right_comm (a b c : P) : vadd (vadd a b) c = vadd (vadd a c) b := by
  rw [vadd_assoc, vadd_comm b c, ← vadd_assoc]

theorem vadd_length (a b : P) : (vadd a b).length = min a.length b.length := by
  simp [vadd]

theorem vscale_length (c : Rat) (a : P) : (vscale c a).length = a.length := by simp [vscale]

theorem vadd_getElem? (a b : P) (j : Nat) (x y : Rat) (ha : a[j]? = some x) (hb : b[j]? = some y) :
    (vadd a b)[j]? = some (x + y) := by
  simp [vadd, List.getElem?_zipWith, ha, hb]

theorem vscale_getElem? (c : Rat) (a : P) (j : Nat) : (vscale c a)[j]? = (a[j]?).map (c * ·) := by
  simp [vscale]

/-! ## order independence of the aggregation -/

theorem accumulate_perm {ι} (size : ι → Nat) (zero : P) (r r' : List (ι × P)) (h : r.Perm r') :
    accumulate size zero r = accumulate size zero r' := by
  unfold accumulate
  apply List.Perm.foldl_eq' h
  intro x _ y _ z
  simp only [Prod.mk.injEq]
  exact ⟨vadd_right_comm _ _ _, by ring⟩

/-- **Order / backend independence.** The server half of the round depends on the per-client
results only as a multiset: any order in which a backend yields them (sequential order for
jit/debug, sorted blocks for pmap) gives the same new server state. -/
theorem C01_agg_perm {ι β σs} [DecidableEq ι] (sopt : Optimizer σs) (s : ServerState σs)
    (clients : List (Client ι β)) (r r' : List (ι × P)) (h : r.Perm r') :
    aggregate sopt s clients r = aggregate sopt s clients r' := by
  unfold aggregate
  rw [accumulate_perm _ _ r r' h]

/-- with pairwise distinct ids the size dictionary returns each client's own size -/
theorem sizeOf_of_mem {ι β} [DecidableEq ι] (clients : List (Client ι β))
    (hnd : (clients.map (·.id)).Nodup) (c : Client ι β) (hc : c ∈ clients) :
    sizeOf clients c.id = c.size := by
  unfold sizeOf
  have hex : ∃ c', clients.reverse.find? (fun x => decide (x.id = c.id)) = some c' := by
    have : (clients.reverse.find? (fun x => decide (x.id = c.id))).isSome := by
      rw [List.find?_isSome]
      exact ⟨c, List.mem_reverse.mpr hc, by simp⟩
    exact Option.isSome_iff_exists.mp this
  obtain ⟨c', hc'⟩ := hex
  rw [hc']
  have hmem : c' ∈ clients := List.mem_reverse.mp (List.mem_of_find?_eq_some hc')
  have hid : c'.id = c.id := by simpa using List.find?_some hc'
  have : c' = c := by
    have hinj := List.inj_on_of_nodup_map hnd
    exact hinj hmem hc hid
  rw [this]

theorem sizeOf_perm {ι β} [DecidableEq ι] (clients clients' : List (Client ι β))
    (hp : clients.Perm clients') (hnd : (clients.map (·.id)).Nodup) (cid : ι) :
    sizeOf clients cid = sizeOf clients' cid := by
  have hnd' : (clients'.map (·.id)).Nodup := (hp.map _).nodup_iff.mp hnd
  by_cases h : ∃ c ∈ clients, c.id = cid
  · obtain ⟨c, hc, rfl⟩ := h
    rw [sizeOf_of_mem clients hnd c hc, sizeOf_of_mem clients' hnd' c (hp.mem_iff.mp hc)]
  · have h1 : clients.reverse.find? (fun x => decide (x.id = cid)) = none := by
      rw [List.find?_eq_none]; intro x hx; simp; exact fun e => h ⟨x, List.mem_reverse.mp hx, e⟩
    have h2 : clients'.reverse.find? (fun x => decide (x.id = cid)) = none := by
      rw [List.find?_eq_none]; intro x hx; simp
      exact fun e => h ⟨x, hp.mem_iff.mpr (List.mem_reverse.mp hx), e⟩
    simp [sizeOf, h1, h2]

/-- **Client order.** Listing the clients (pairwise distinct ids) in another order gives the same
new server state. -/
theorem C01_perm {ι β σc σs} [DecidableEq ι] (grad : P → β → Key → P) (copt : Optimizer σc)
    (sopt : Optimizer σs) (s : ServerState σs) (clients clients' : List (Client ι β))
    (hp : clients.Perm clients') (hnd : (clients.map (·.id)).Nodup) :
    round grad copt sopt s clients = round grad copt sopt s clients' := by
  unfold round aggregate
  have hs : sizeOf clients = sizeOf clients' := funext (sizeOf_perm clients clients' hp hnd)
  rw [hs, accumulate_perm _ _ _ _ (show (clientResults grad copt s.params clients).Perm
    (clientResults grad copt s.params clients') from hp.map _)]

/-! ## the round formula -/

/-- the mathematical definition: coordinate `j` of the example-count-weighted mean of the deltas,
`0` when the total weight is `0` -/
def wmeanCoord (pairs : List (Nat × P)) (j : Nat) : Rat :=
  let total : Rat := (pairs.map fun p => (p.1 : Rat)).sum
  if total > 0 then (pairs.map fun p => (p.1 : Rat) * (p.2[j]?).getD 0).sum / total else 0

def wmean (d : Nat) (pairs : List (Nat × P)) : P := (List.range d).map (wmeanCoord pairs)

theorem accumulate_spec {ι} (size : ι → Nat) (d : Nat) (results : List (ι × P))
    (hlen : ∀ r ∈ results, r.2.length = d) :
    ∀ (z : P) (w : Rat), z.length = d →
      let acc := results.foldl (fun acc r => (vadd acc.1 (vscale (size r.1 : Rat) r.2), acc.2 + (size r.1 : Rat))) (z, w)
      acc.1.length = d ∧
      acc.2 = w + (results.map fun r => (size r.1 : Rat)).sum ∧
      ∀ j, j < d → acc.1[j]? = some ((z[j]?).getD 0 + (results.map fun r => (size r.1 : Rat) * (r.2[j]?).getD 0).sum) := by
  induction results with
  | nil => intro z w hz; simp [hz]; intro j hj; simp [List.getElem?_eq_getElem (hz ▸ hj)]
  | cons r rs ih =>
    intro z w hz
    have hr : r.2.length = d := hlen r (List.mem_cons_self)
    have hz' : (vadd z (vscale (size r.1 : Rat) r.2)).length = d := by
      rw [vadd_length, vscale_length, hz, hr]; simp
    obtain ⟨h1, h2, h3⟩ := ih (fun r' hr' => hlen r' (List.mem_cons_of_mem _ hr')) _ (w + (size r.1 : Rat)) hz'
    simp only [List.foldl_cons]
    refine ⟨h1, ?_, ?_⟩
    · rw [h2]; simp only [List.map_cons, List.sum_cons]; ring
    · intro j hj
      rw [h3 j hj]
      have hzj : z[j]? = some z[j] := List.getElem?_eq_getElem (hz ▸ hj)
      have hrj : r.2[j]? = some r.2[j] := List.getElem?_eq_getElem (hr ▸ hj)
      have := vadd_getElem? z (vscale (size r.1 : Rat) r.2) j z[j] ((size r.1 : Rat) * r.2[j]) hzj
        (by rw [vscale_getElem?, hrj]; rfl)
      rw [this, hzj]
      simp only [Option.getD_some, List.map_cons, List.sum_cons, hrj]
      congr 1; ring

theorem vzero_getElem? (a : P) (j : Nat) (hj : j < a.length) : (vzero a)[j]? = some 0 := by
  simp [vzero, hj]

/-- **Round formula.** For clients with pairwise distinct ids whose deltas have the dimension of
the server parameters, the round is the server optimizer applied to the example-count-weighted mean
of the client deltas (all zeros when no example was seen); each delta is
`server params − params after the sequential optimizer steps over the client's own batches`, started
from the server params with a fresh client optimizer state and the client's own key
(`clientDelta`, by definition). -/
theorem C01_round_formula {ι β σc σs} [DecidableEq ι] (grad : P → β → Key → P) (copt : Optimizer σc)
    (sopt : Optimizer σs) (s : ServerState σs) (clients : List (Client ι β))
    (hnd : (clients.map (·.id)).Nodup)
    (hlen : ∀ c ∈ clients, (clientDelta grad copt s.params c.batches c.key).length = s.params.length) :
    round grad copt sopt s clients =
      serverUpdate sopt s (wmean s.params.length
        (clients.map fun c => (c.size, clientDelta grad copt s.params c.batches c.key))) := by
  unfold round aggregate
  show serverUpdate sopt s (inverseWeight
      (accumulate (sizeOf clients) (vzero s.params) (clientResults grad copt s.params clients)).1
      (accumulate (sizeOf clients) (vzero s.params) (clientResults grad copt s.params clients)).2) = _
  congr 1
  have hres : ∀ r ∈ clientResults grad copt s.params clients, r.2.length = s.params.length := by
    intro r hr
    simp only [clientResults, List.mem_map] at hr
    obtain ⟨c, hc, rfl⟩ := hr
    exact hlen c hc
  obtain ⟨h1, h2, h3⟩ := accumulate_spec (sizeOf clients) s.params.length _ hres (vzero s.params) 0
    (by simp [vzero])
  unfold accumulate
  apply List.ext_getElem?
  intro j
  unfold inverseWeight wmean
  rw [vscale_getElem?]
  by_cases hj : j < s.params.length
  · rw [h3 j hj, vzero_getElem? _ _ hj]
    simp only [Option.getD_some, Option.map_some, List.getElem?_map, List.getElem?_range hj, zero_add]
    rw [h2]
    unfold wmeanCoord
    simp only [zero_add]
    have e1 : ((clientResults grad copt s.params clients).map fun r => (sizeOf clients r.1 : Rat))
        = (clients.map fun c => (c.size, clientDelta grad copt s.params c.batches c.key)).map fun p => (p.1 : Rat) := by
      simp only [clientResults, List.map_map]
      apply List.map_congr_left
      intro c hc
      simp [Function.comp, sizeOf_of_mem clients hnd c hc]
    have e2 : ((clientResults grad copt s.params clients).map fun r => (sizeOf clients r.1 : Rat) * (r.2[j]?).getD 0)
        = (clients.map fun c => (c.size, clientDelta grad copt s.params c.batches c.key)).map
            fun p => (p.1 : Rat) * (p.2[j]?).getD 0 := by
      simp only [clientResults, List.map_map]
      apply List.map_congr_left
      intro c hc
      simp [Function.comp, sizeOf_of_mem clients hnd c hc]
    rw [e1, e2]
    split
    · congr 1; ring
    · simp
  · have hj' : s.params.length ≤ j := Nat.le_of_not_lt hj
    rw [List.getElem?_eq_none (by rw [h1]; exact hj')]
    simp [List.getElem?_eq_none, hj']


/-! ## zero-weight clients -/

theorem sum_filter_weight (pairs : List (Nat × P)) (g : Nat × P → Rat) :
    ((pairs.filter fun p => p.1 ≠ 0).map fun p => (p.1 : Rat) * g p).sum
      = (pairs.map fun p => (p.1 : Rat) * g p).sum := by
  induction pairs with
  | nil => rfl
  | cons p ps ih =>
    rw [List.filter_cons]
    by_cases h : p.1 = 0
    · have hd : decide (p.1 ≠ 0) = false := by simp [h]
      rw [hd]
      simp only [Bool.false_eq_true, if_false, List.map_cons, List.sum_cons, ih, h]
      simp
    · have hd : decide (p.1 ≠ 0) = true := by simp [h]
      rw [hd]
      simp only [if_true, List.map_cons, List.sum_cons, ih]

theorem wmean_filter (d : Nat) (pairs : List (Nat × P)) :
    wmean d (pairs.filter fun p => p.1 ≠ 0) = wmean d pairs := by
  unfold wmean
  apply List.map_congr_left
  intro j _
  unfold wmeanCoord
  have h1 := sum_filter_weight pairs (fun _ => 1)
  simp only [mul_one] at h1
  rw [h1, sum_filter_weight pairs (fun p => (p.2[j]?).getD 0)]

/-- **Zero-weight clients do not influence the round**: removing every client with zero examples
from the cohort gives the same new server state. -/
theorem C01_zero_weight {ι β σc σs} [DecidableEq ι] (grad : P → β → Key → P) (copt : Optimizer σc)
    (sopt : Optimizer σs) (s : ServerState σs) (clients : List (Client ι β))
    (hnd : (clients.map (·.id)).Nodup)
    (hlen : ∀ c ∈ clients, (clientDelta grad copt s.params c.batches c.key).length = s.params.length) :
    round grad copt sopt s clients
      = round grad copt sopt s (clients.filter fun c => c.size ≠ 0) := by
  have hsub : (clients.filter fun c => c.size ≠ 0).Sublist clients := List.filter_sublist
  rw [C01_round_formula grad copt sopt s clients hnd hlen,
      C01_round_formula grad copt sopt s _ ((hsub.map _).nodup hnd)
        (fun c hc => hlen c (hsub.subset hc))]
  congr 1
  rw [← wmean_filter _ (clients.map _), List.filter_map]
  rfl

/-- a cohort that saw no example at all has the all-zero mean delta (never a division by zero) -/
theorem wmean_all_zero (d : Nat) (pairs : List (Nat × P)) (h : ∀ p ∈ pairs, p.1 = 0) :
    wmean d pairs = List.replicate d 0 := by
  have hf : pairs.filter (fun p => p.1 ≠ 0) = [] := by
    rw [List.filter_eq_nil_iff]; intro p hp; simp [h p hp]
  rw [← wmean_filter, hf]
  unfold wmean wmeanCoord
  apply List.ext_getElem
  · simp
  · intro j h1 h2; simp

/-- **Plain SGD fixed point**: when every sampled client has zero examples, a round with plain
SGD as server optimizer leaves the server parameters unchanged (no NaN, no movement). -/
theorem C01_sgd_fixed_point {ι β σc} [DecidableEq ι] (grad : P → β → Key → P) (copt : Optimizer σc)
    (lr : Rat) (s : ServerState Unit) (clients : List (Client ι β))
    (hnd : (clients.map (·.id)).Nodup)
    (hlen : ∀ c ∈ clients, (clientDelta grad copt s.params c.batches c.key).length = s.params.length)
    (hzero : ∀ c ∈ clients, c.size = 0) :
    round grad copt (sgd lr) s clients = s := by
  rw [C01_round_formula grad copt (sgd lr) s clients hnd hlen, wmean_all_zero]
  · unfold serverUpdate sgd
    simp only
    have : vadd s.params (vscale (-lr) (List.replicate s.params.length 0)) = s.params := by
      apply List.ext_getElem
      · simp [vadd, vscale]
      · intro j h1 h2; simp [vadd, vscale]
    rw [this]
  · intro p hp
    simp only [List.mem_map] at hp
    obtain ⟨c, hc, rfl⟩ := hp
    exact hzero c hc

/-! ## diagnostics, rounds, backends -/

/-- The diagnostics dictionary has exactly the participating client ids as keys. -/
theorem C01_diagnostics {ι β σc} [DecidableEq ι] (grad : P → β → Key → P) (copt : Optimizer σc)
    (params : P) (clients : List (Client ι β)) (i : ι) :
    i ∈ diagnosticsKeys (clientResults grad copt params clients) ↔ ∃ c ∈ clients, c.id = i := by
  simp [diagnosticsKeys, clientResults]

/-- **Multi-round**: a run of `t+1` rounds is round `t+1` applied to the state (parameters *and*
server optimizer state) that `t` rounds produced. -/
theorem C01_multi_round {ι β σc σs} [DecidableEq ι] (grad : P → β → Key → P) (copt : Optimizer σc)
    (sopt : Optimizer σs) (s : ServerState σs) (cohorts : List (List (Client ι β)))
    (cohort : List (Client ι β)) :
    rounds grad copt sopt s (cohorts ++ [cohort])
      = round grad copt sopt (rounds grad copt sopt s cohorts) cohort := by
  simp [rounds, List.foldl_append]

/-- FedAvg's `client_init` / `client_step` / `client_final` as a for-each-client program -/
def feInit {σc} (copt : Optimizer σc) (shared : P) (key : Key) : ClientState σc := clientInit copt shared key
def feStep {β σc} (grad : P → β → Key → P) (copt : Optimizer σc) (st : ClientState σc) (b : β) :
    ClientState σc × Unit := (clientStep grad copt st b, ())
def feFinal {σc} (shared : P) (st : ClientState σc) : P := vsub shared st.params

def toFE {ι β} (c : Client ι β) : ForEach.Client ι β Key := ⟨c.id, c.batches, c.key⟩

theorem seqRun_eq {ι β σc} (grad : P → β → Key → P) (copt : Optimizer σc) (params : P) (c : Client ι β) :
    let r := ForEach.seqRun (feInit copt) (feStep grad copt) feFinal params (toFE c)
    (r.1, r.2.1) = (c.id, clientDelta grad copt params c.batches c.key) := by
  simp only [ForEach.seqRun, toFE, feFinal, feInit, clientDelta]
  rw [show feStep grad copt = fun s b => (clientStep grad copt s b, ()) from rfl,
    ForEach.C02_with_step_result]

/-- **Backend independence.** Running the clients through the pmap backend (any device count, any
padding) instead of the sequential one leaves the round unchanged. -/
theorem C01_backend {ι β σc σs} [DecidableEq ι] (grad : P → β → Key → P) (copt : Optimizer σc)
    (sopt : Optimizer σs) (s : ServerState σs) (clients : List (Client ι β))
    (padI : Key → Key) (padB : β → β) (D : Nat) (hD : 0 < D) :
    aggregate sopt s clients
      ((ForEach.pmapRun (feInit copt) (feStep grad copt) feFinal padI padB id D s.params
        (clients.map toFE)).map fun r => (r.1, r.2.1))
      = round grad copt sopt s clients := by
  unfold round
  apply C01_agg_perm
  have hp := ForEach.C02_pmap_perm (feInit copt) (feStep grad copt) feFinal padI padB id D hD s.params
    (clients.map toFE)
  have := hp.map (fun r => (r.1, r.2.1))
  refine this.trans (List.Perm.of_eq ?_)
  simp only [List.map_map, clientResults]
  apply List.map_congr_left
  intro c _
  exact seqRun_eq grad copt s.params c


/-! ## the round's aggregation is `tree_mean` (link to the model of C07) -/

theorem wmeanCoord_eq_wmeanAt (pairs : List (Nat × P)) (k : Nat) :
    wmeanCoord pairs k = TreeUtil.wmeanAt k (pairs.map fun p => (p.2, (p.1 : Rat))) := by
  unfold wmeanCoord TreeUtil.wmeanAt TreeUtil.totalW TreeUtil.wsumAt TreeUtil.coord
  simp only [List.map_map, Function.comp_def, List.getD_eq_getElem?_getD]

/-- FedAvg accumulates `Σ nᵢ·δᵢ` and `Σ nᵢ` itself instead of calling `tree_util.tree_mean`; for a
non-empty cohort the mean delta it feeds to the server optimizer is exactly what C07's model of
`tree_mean` returns on the pairs `(δᵢ, nᵢ)` — so everything proved about `tree_mean` in C07
(`C07_perm`, `C07_hull`, `C07_zero_total`, …) applies to the round's mean delta. -/
theorem C01_mean_is_tree_mean (d : Nat) (pairs : List (Nat × P)) (hne : pairs ≠ [])
    (hlen : ∀ p ∈ pairs, p.2.length = d) :
    TreeUtil.treeMean (pairs.map fun p => (p.2, (p.1 : Rat))) = some (wmean d pairs) := by
  rw [TreeUtil.C07_mean_formula d _ (by simpa using hne)
    (by intro p hp; obtain ⟨q, hq, rfl⟩ := List.mem_map.mp hp; exact hlen q hq)]
  unfold wmean
  congr 1
  apply List.map_congr_left
  intro k _
  exact (wmeanCoord_eq_wmeanAt pairs k).symm

/-- The weights' unit is irrelevant to the round: feeding `tree_mean` the weights `c · nᵢ` for any one
`c > 0` (e.g. the fractions `nᵢ / Σ n` instead of the example counts) yields the same mean delta
(C07_mean_weight_scale ∘ C01_mean_is_tree_mean). -/
theorem C01_mean_weight_units (d : Nat) (c : Rat) (hc : 0 < c) (pairs : List (Nat × P))
    (hne : pairs ≠ []) (hlen : ∀ p ∈ pairs, p.2.length = d) :
    TreeUtil.treeMean (pairs.map fun p => (p.2, c * (p.1 : Rat))) = some (wmean d pairs) := by
  have h := TreeUtil.C07_mean_weight_scale d c hc (pairs.map fun p => (p.2, (p.1 : Rat)))
    (by intro p hp; obtain ⟨q, hq, rfl⟩ := List.mem_map.mp hp; exact hlen q hq)
  rw [List.map_map] at h
  rw [← C01_mean_is_tree_mean d pairs hne hlen, ← h]
  rfl

/-! ## the shape hypothesis is met by shape-preserving optimizers -/

/-- a client optimizer whose `apply` returns parameters of the dimension it was given -/
def ShapePreserving {σ} (opt : Optimizer σ) : Prop :=
  ∀ g st p, (opt.apply g st p).2.length = p.length

theorem clientSteps_length {β σc} (grad : P → β → Key → P) (copt : Optimizer σc)
    (h : ShapePreserving copt) (batches : List β) :
    ∀ st : ClientState σc, (batches.foldl (clientStep grad copt) st).params.length = st.params.length := by
  induction batches with
  | nil => intro st; rfl
  | cons b bs ih =>
    intro st
    rw [List.foldl_cons, ih]
    simp only [clientStep, split]
    exact h _ _ _

/-- `hlen` of `C01_round_formula` holds for every shape-preserving client optimizer, whatever the
gradient function, batch stream and key. -/
theorem C01_delta_length {β σc} (grad : P → β → Key → P) (copt : Optimizer σc)
    (h : ShapePreserving copt) (params : P) (batches : List β) (key : Key) :
    (clientDelta grad copt params batches key).length = params.length := by
  unfold clientDelta vsub
  rw [List.length_zipWith, clientSteps_length grad copt h batches]
  simp [clientInit]

/-- SGD with momentum is shape preserving as soon as gradients have the parameters' dimension;
for arbitrary gradients the result is never *longer* than the parameters. -/
theorem momentum_length_le (lr m : Rat) (nesterov : Bool) (g t p : P) :
    ((momentum lr m nesterov).apply g t p).2.length ≤ p.length := by
  simp only [momentum, vadd_length]
  exact Nat.min_le_left _ _

/-! ## non-vacuity -/

/-- a concrete two-client cohort (sizes 2 and 0, distinct ids) meets the hypotheses of the
formula with SGD client optimizer and a linear "gradient" -/
def exGrad : P → Nat → Key → P := fun p b _ => vscale (b : Rat) p
def exClients : List (Client Nat Nat) := [⟨7, 2, [1, 2], [false]⟩, ⟨8, 0, [], [true, false]⟩]

example : (exClients.map (·.id)).Nodup := by decide
example : ∀ c ∈ exClients,
    (clientDelta exGrad (sgd (1/2)) [1, 2] c.batches c.key).length = ([1, 2] : P).length := by
  decide +kernel
example : (round exGrad (sgd (1/2)) (sgd 1) ⟨[1, 2], ()⟩ exClients).params = [0, 0] := by
  decide +kernel

example : wmean 2 [(2, [1, 3]), (0, [100, 100]), (2, [3, 5])] = [2, 4] := by decide +kernel

end FedjaxVerif.FedAvg
